(* C29 — property theorems only.  Model: PP.Model.C29 (transcription of
   split_intersecting_segments_2d over Q; segments_2d = PP.Model.C28.seg2d); proofs:
   PP.Proofs.C29 (lists, geometry on a segment, point uniquification), PP.Proofs.C29_main.

   All theorems are for ARBITRARY rational segment sets (any number of segments, any
   tags) and any tol, under the decidable guard [guard tol segs] = "away from the
   tolerance bands": tol > 0, no zero-length segment, every segments_2d call the pipeline
   makes answers like its exact counterpart (C28's [separated]), and any two points handed
   to the point uniquification are equal or at least tol apart.  The tie evaluates the
   guard in Coq on every generated integer case (it holds on all of them).
   [on_seg p a b]: p lies on the closed segment ab;  [peq]: equal coordinates.
   An output edge is (end A, end B, tags, number of the input segment it is mapped to). *)
From Coq Require Import List QArith ZArith.
Import ListNotations.
From PP Require Import Model.C28 Proofs.C28 Model.C29 Proofs.C29 Proofs.C29_main Proofs.C29_full.
Open Scope Q_scope.

(* Under the guard the splitting does not raise. *)
Theorem C29_no_exception :
  forall tol segs, guard tol segs = true -> exists pre out, split tol segs = Edges pre out.
Proof. exact no_raise. Qed.
Print Assumptions C29_no_exception.

(* Every output edge is mapped to an existing input segment, both its ends lie on that
   segment (hence the whole edge, by convexity: see C29_covering, second part) and it
   carries exactly that segment's tags. *)
Theorem C29_children_inside_parent :
  forall tol segs, guard tol segs = true -> forall pre out, split tol segs = Edges pre out ->
  forall e, In e out ->
    exists g, nth_error segs (eP e) = Some g /\
              on_seg (eA e) (sS g) (sE g) /\ on_seg (eB e) (sS g) (sE g) /\ eT e = sT g.
Proof. exact inside. Qed.
Print Assumptions C29_children_inside_parent.

(* The output edges cover exactly the union of the input segments: every point of every
   input segment lies on some output edge, and every point of every output edge lies on
   the input segment the edge is mapped to. *)
Theorem C29_covering :
  forall tol segs, guard tol segs = true -> forall pre out, split tol segs = Edges pre out ->
  (forall k g p, nth_error segs k = Some g -> on_seg p (sS g) (sE g) ->
     exists e, In e out /\ on_seg p (eA e) (eB e)) /\
  (forall e p, In e out -> on_seg p (eA e) (eB e) ->
     exists g, nth_error segs (eP e) = Some g /\ on_seg p (sS g) (sE g)).
Proof. exact covering_thm. Qed.
Print Assumptions C29_covering.

(* No output edge has length zero, and no two output edges (at different positions) have
   the same pair of end points, in either orientation.
   PARTIAL: when the pipeline finds no intersection point at all it returns its input
   unchanged; that this cannot happen for an input containing two geometrically equal
   segments needs the completeness of the bounding-box and side filters for such pairs,
   which is not proved — hence the explicit alternative hypothesis (an intersection point
   was found, or the input segments are pairwise geometrically different).  The exact
   oracle checks the unconditional statement on every generated case. *)
Theorem C29_no_duplicates_partial :
  forall tol segs, guard tol segs = true -> forall pre out, split tol segs = Edges pre out ->
  (forall e, In e out -> ~ peq (eA e) (eB e)) /\
  (new_pts (hits tol segs) <> [] \/
   ForallOrdPairs (fun g1 g2 => ~ seg_same_geom g1 g2) segs ->
   ForallOrdPairs (fun e1 e2 => ~ same_geom e1 e2) out).
Proof. exact no_duplicates_thm. Qed.
Print Assumptions C29_no_duplicates_partial.

(* Output edges meet only in shared end points.
   PARTIAL — proved: (1) two different output edges mapped to the same input segment, and
   (2) two output edges mapped to input segments i < j whose pair the pipeline handed to
   segments_2d with a one-point answer: any common point is an end point of both.
   MISSING for the full statement: (a) pairs answered with a two-point (collinear
   overlap) result — needs that overlapping parents receive the same split points inside
   the overlap; (b) pairs rejected by the bounding-box / side filters — needs their
   completeness (a rejected pair has no common point other than a shared end point);
   (c) edges whose geometric twin was removed by the edge uniquification are only
   related to the parent they are mapped to.  The exact oracle checks the full statement
   on every generated case. *)
Theorem C29_noncrossing_partial :
  forall tol segs, guard tol segs = true -> forall pre out, split tol segs = Edges pre out ->
  (new_pts (hits tol segs) <> [] ->
   ForallOrdPairs (fun e1 e2 => eP e1 = eP e2 -> forall p,
      on_seg p (eA e1) (eB e1) -> on_seg p (eA e2) (eB e2) ->
      touch_ends p e1 /\ touch_ends p e2) out) /\
  (forall i gi j gj q e1 e2 p,
      In ((i, gi), (j, gj)) (cand_pairs tol segs) ->
      isect_of tol ((i, gi), (j, gj)) = R2Pt q ->
      In e1 out -> In e2 out -> eP e1 = i -> eP e2 = j ->
      on_seg p (eA e1) (eB e1) -> on_seg p (eA e2) (eB e2) ->
      touch_ends p e1 /\ touch_ends p e2).
Proof. exact noncrossing_thm. Qed.
Print Assumptions C29_noncrossing_partial.

(* The guard's per-call condition is C28's [separated] (same definition). *)
Theorem C29_guard_uses_C28_separated :
  forall tol a b c d, sep2d tol a b c d = separated tol a b c d.
Proof. exact sep2d_eq. Qed.
Print Assumptions C29_guard_uses_C28_separated.

(* ---------------------------------------------------------------------------------------
   Second round: the two partial theorems above are closed. *)

(* No duplicates, without side condition: no output edge has length zero and no two output
   edges have the same pair of end points in either orientation.  (When the pipeline
   returns its input unchanged, two geometrically equal input segments cannot be present:
   they are collinear, so the side filter keeps the pair, their boxes overlap, and
   segments_2d answers with at least one point.) *)
Theorem C29_no_duplicates :
  forall tol segs, guard tol segs = true -> forall pre out, split tol segs = Edges pre out ->
  (forall e, In e out -> ~ peq (eA e) (eB e)) /\
  ForallOrdPairs (fun e1 e2 => ~ same_geom e1 e2) out.
Proof. exact no_duplicates_full_thm. Qed.
Print Assumptions C29_no_duplicates.

(* Non-crossing, full statement: any point common to two output edges (at different
   positions of the output) is an end point of both.  Under [guard2] = [guard] plus: the two
   scalar distance tests of the side filter answer like their exact counterparts
   (decidable, evaluated by the tie on every case).  The proof covers what was missing:
   completeness of the bounding-box filter and of the side filter (a rejected pair has no
   common point other than a common end point — including the branches taken when all
   others start/end at the main's start), pairs answered with a collinear overlap (both
   parents receive the same split points inside the overlap, also those coming from third
   segments, so their children there coincide and are uniquified), and the branch that
   returns the input unchanged. *)
Theorem C29_noncrossing :
  forall tol segs, guard2 tol segs = true -> forall pre out, split tol segs = Edges pre out ->
  ForallOrdPairs (fun e1 e2 => forall p,
    on_seg p (eA e1) (eB e1) -> on_seg p (eA e2) (eB e2) ->
    touch_ends p e1 /\ touch_ends p e2) out.
Proof. exact nc_full. Qed.
Print Assumptions C29_noncrossing.

(* The stronger guard implies the guard of all the other theorems. *)
Theorem C29_guard2_implies_guard :
  forall tol segs, guard2 tol segs = true -> guard tol segs = true.
Proof. exact guard2_guard. Qed.
Print Assumptions C29_guard2_implies_guard.

(* Non-vacuity: a crossing, a T-junction, a collinear overlap and a shared end point;
   the guard holds, 10 children before and 8 edges after uniquification; the pair (0,1)
   is a candidate answered with the single point (2,2). *)
Definition ex_segs : list seg :=
  [ ((0, 0), (4, 4), [7%Z]);  ((0, 4), (4, 0), [8%Z]);  ((2, 2), (2, 0), [9%Z]);
    ((1, 1), (3, 3), [5%Z]);  ((4, 4), (4, 0), [6%Z]) ].

Example C29_nonvacuous :
  guard tol8 ex_segs = true /\ guard2 tol8 ex_segs = true /\
  (exists pre out, split tol8 ex_segs = Edges pre out /\ length pre = 10%nat /\ length out = 8%nat) /\
  new_pts (hits tol8 ex_segs) <> [] /\
  (exists gi gj, In ((0%nat, gi), (1%nat, gj)) (cand_pairs tol8 ex_segs) /\
                 exists q, isect_of tol8 ((0%nat, gi), (1%nat, gj)) = R2Pt q /\ peq q (2, 2)).
Proof.
  split; [vm_compute; reflexivity|]. split; [vm_compute; reflexivity|]. split; [|split].
  - destruct (split tol8 ex_segs) as [pre out|e] eqn:E.
    + exists pre, out. split; [reflexivity|].
      assert (L : match split tol8 ex_segs with
                  | Edges p o => (length p =? 10)%nat && (length o =? 8)%nat
                  | Raised _ => false end = true) by (vm_compute; reflexivity).
      rewrite E in L. apply andb_prop in L. destruct L as [L1 L2].
      apply Nat.eqb_eq in L1, L2. split; assumption.
    + exfalso. assert (L : match split tol8 ex_segs with Edges _ _ => true | Raised _ => false end = true)
        by (vm_compute; reflexivity). rewrite E in L. discriminate.
  - intro E. assert (L : match new_pts (hits tol8 ex_segs) with [] => true | _ => false end = false)
      by (vm_compute; reflexivity). rewrite E in L. discriminate.
  - exists ((0, 0), (4, 4), [7%Z]), ((0, 4), (4, 0), [8%Z]).
    split.
    + assert (L : existsb (fun pr => (fst (fst pr) =? 0)%nat && (fst (snd pr) =? 1)%nat)
                          (cand_pairs tol8 ex_segs) = true) by (vm_compute; reflexivity).
      apply existsb_exists in L. destruct L as [[[i gi] [j gj]] [Hin L]].
      cbn [fst snd] in L. apply andb_prop in L. destruct L as [L1 L2].
      apply Nat.eqb_eq in L1, L2. subst.
      assert (Hin' := Hin). apply cand_in in Hin'. destruct Hin' as [Hi [Hj _]]. cbn [fst] in Hi, Hj.
      apply in_indexed in Hi, Hj. cbn in Hi, Hj. inversion Hi; inversion Hj; subst. exact Hin.
    + eexists. split; [vm_compute; reflexivity|]. split; vm_compute; reflexivity.
Qed.
