(* C13 — MPSA reproduces linear displacement fields exactly.  Property theorems only.

   METHOD-LEVEL theorems (level P-method) over the field-polymorphic definitions of
   PP.Model.C13 instantiated at the reals (r... = the model function at R, RO from
   Proofs/C11.v).  The link to the Python code is the per-instance certificate evaluated on
   every run by vm_compute on the real matrices (Model.C13.check_caseV).

   Vocabulary (Model/C13.v, Proofs/C13.v):
     subcellV = {sv_x; sv_u; sv_mu; sv_la}   centre / centre displacement / Lame parameters
     subfaceV = InteriorV k1 k2 n xc | DirichletV k n xc uD | NeumannV k n t
     local_systemV d m w cells weak faces    local equations (functionals of the m gradients);
                                             w = averaging weights; weak = the averaged
                                             ("asymmetric") part of Hooke's law is kept
     keep_asym m faces                       #Neumann sub-faces <= m   (_eliminate_ncasym)
     hooke d mu la A                         2 mu sym(A) + lambda tr(A) I
     tractionW d m w cells weak G k n        discrete sub-face traction from sub-cell k
     subdisp d cells G k x                   u_k + G_k (x - x_k)
     ulin d b A x                            b + A x
     cell_okV / face_okV                     data of the region taken from u = b + A x
     instV                                   four matrices (coordinate lists) + geometry + flags
     stress_of I c r, disp_of I c r          row r of stress*u_cells + bound_stress*bdata, resp.
                                             bound_displacement_cell*u_cells + .._face*bdata
     exactT_row, exactU_row                  component of sigma n_f, resp. of u(x_f)
     res_T, res_U                            the differences; basisV t = t-th basis field;
     comb terms                              sum_t s_t basisV t;  bound_of eps terms = sum |s_t| eps_t *)
From Coq Require Import List ZArith Bool Arith Lia Reals Lra.
Import ListNotations.
From PP Require Import Model.C11 Model.C13 Model.C13_local Proofs.C11 Proofs.C13 Proofs.C11_inv
     Proofs.C13_adm Proofs.C13_local.
Local Open Scope R_scope.

(* For ANY admissible interaction region (dimension d, m sub-cells, any sub-faces, weights
   summing to one, not more Neumann sub-faces than sub-cells): with one pair of Lame
   parameters and cell displacements / boundary data taken from u(x) = b + A x — A ANY
   constant matrix, symmetric or not — the constant gradient A satisfies every local
   equation of the weakly symmetric scheme. *)
Theorem C13_linear_solves_local :
  forall (d m : nat) (w : nat -> R) (cells : nat -> subcellV R) (faces : list (subfaceV R))
         (mu la : R) (b : nat -> R) (A : nat -> nat -> R),
    rsumn m w = 1 ->
    (forall k, (k < m)%nat -> cell_okV d mu la b A (cells k)) ->
    Forall (face_okV d m mu la b A) faces ->
    rkeep_asym m faces = true ->
    forall e, In e (rlocal_systemV d m w cells (rkeep_asym m faces) faces) ->
              elhs e (fun _ => A) = erhs e.
Proof. exact linear_solves_local. Qed.
Print Assumptions C13_linear_solves_local.

(* If the local system has a left inverse Inv, the gradients the scheme computes
   (Inv applied to the right-hand side) equal A, every discrete sub-face traction equals
   (2 mu sym A + lambda tr A I) n, and the displacement reconstructed at any point x
   equals u(x).
   _partial: the statement carries the guard "the local system has a left inverse"; without
   it the claim is false for valid grids (C13_unique_exact_refuted below; known finding
   singular-local-system).  The same guard is carried by C13_bound_displacement,
   C13_translation_zero and C13_rotation_zero.  Missing for a full-strength statement: a
   geometric characterisation of the regions whose local system is invertible. *)
Theorem C13_unique_exact_partial :
  forall (d m : nat) (w : nat -> R) (cells : nat -> subcellV R) (faces : list (subfaceV R))
         (mu la : R) (b : nat -> R) (A : nat -> nat -> R)
         (Inv : list R -> nat -> nat -> nat -> R),
    rsumn m w = 1 ->
    (forall k, (k < m)%nat -> cell_okV d mu la b A (cells k)) ->
    Forall (face_okV d m mu la b A) faces ->
    rkeep_asym m faces = true ->
    let sys := rlocal_systemV d m w cells (rkeep_asym m faces) faces in
    (forall G k i j, (k < m)%nat -> (i < d)%nat -> (j < d)%nat ->
                     Inv (lhs_allV R sys G) k i j = G k i j) ->
    let Gc := Inv (rhs_allV R sys) in
    (forall k i j, (k < m)%nat -> (i < d)%nat -> (j < d)%nat -> Gc k i j = A i j) /\
    (forall k n i, (k < m)%nat -> (i < d)%nat ->
                   rtractionW d m w cells true Gc k n i = rmulmvf d (rhooke d mu la A) n i) /\
    (forall k x i, (k < m)%nat -> (i < d)%nat -> rsubdisp d cells Gc k x i = rulin d b A x i).
Proof. exact unique_exact. Qed.
Print Assumptions C13_unique_exact_partial.

(* The guard cannot be dropped: a valid corner region (two triangles, both boundary faces
   Dirichlet, the two cell centres and the two boundary face centres collinear — the grid of
   corpus/C13/singular_local_system.json) satisfies every data hypothesis, yet two different
   families of gradients give the same left-hand sides, so no left inverse exists and the
   "computed" gradients are not determined by the equations.  On this grid pp.Mpsa returns
   matrices with O(100) errors without raising. *)
Theorem C13_unique_exact_refuted :
  rsumn 2 sgw = 1 /\
  (forall k, (k < 2)%nat -> cell_okV 2 1 2 exbV exAV (sgcells k)) /\
  Forall (face_okV 2 2 1 2 exbV exAV) sgfaces /\
  rkeep_asym 2 sgfaces = true /\
  let sys := rlocal_systemV 2 2 sgw sgcells (rkeep_asym 2 sgfaces) sgfaces in
  sgG1 0%nat 0%nat 0%nat <> sgG0 0%nat 0%nat 0%nat /\
  lhs_allV R sys sgG1 = lhs_allV R sys sgG0 /\
  forall Inv : list R -> nat -> nat -> nat -> R,
    ~ (forall G k i j, (k < 2)%nat -> (i < 2)%nat -> (j < 2)%nat ->
                       Inv (lhs_allV R sys G) k i j = G k i j).
Proof. exact unique_exact_refuted. Qed.
Print Assumptions C13_unique_exact_refuted.

(* The boundary displacement reconstruction (third part of the above, stated on its own):
   the displacement reconstructed at any point x from any sub-cell is u(x). *)
Theorem C13_bound_displacement :
  forall (d m : nat) (w : nat -> R) (cells : nat -> subcellV R) (faces : list (subfaceV R))
         (mu la : R) (b : nat -> R) (A : nat -> nat -> R)
         (Inv : list R -> nat -> nat -> nat -> R),
    rsumn m w = 1 ->
    (forall k, (k < m)%nat -> cell_okV d mu la b A (cells k)) ->
    Forall (face_okV d m mu la b A) faces ->
    rkeep_asym m faces = true ->
    let sys := rlocal_systemV d m w cells (rkeep_asym m faces) faces in
    (forall G k i j, (k < m)%nat -> (i < d)%nat -> (j < d)%nat ->
                     Inv (lhs_allV R sys G) k i j = G k i j) ->
    forall k x i, (k < m)%nat -> (i < d)%nat ->
                  rsubdisp d cells (Inv (rhs_allV R sys)) k x i = rulin d b A x i.
Proof. exact bound_displacement. Qed.
Print Assumptions C13_bound_displacement.

(* Rigid translations (u = b in all cells, Dirichlet data b, zero Neumann traction): every
   discrete sub-face traction vanishes. *)
Theorem C13_translation_zero :
  forall (d m : nat) (w : nat -> R) (cells : nat -> subcellV R) (faces : list (subfaceV R))
         (mu la : R) (b : nat -> R) (Inv : list R -> nat -> nat -> nat -> R),
    rsumn m w = 1 ->
    (forall k, (k < m)%nat -> cell_transl d mu la b (cells k)) ->
    Forall (face_transl d m b) faces ->
    rkeep_asym m faces = true ->
    let sys := rlocal_systemV d m w cells (rkeep_asym m faces) faces in
    (forall G k i j, (k < m)%nat -> (i < d)%nat -> (j < d)%nat ->
                     Inv (lhs_allV R sys G) k i j = G k i j) ->
    let Gc := Inv (rhs_allV R sys) in
    forall k n i, (k < m)%nat -> (i < d)%nat -> rtractionW d m w cells true Gc k n i = 0.
Proof. exact translation_zero. Qed.
Print Assumptions C13_translation_zero.

(* Rigid rotations (skew gradient): zero traction as well. *)
Theorem C13_rotation_zero :
  forall (d m : nat) (w : nat -> R) (cells : nat -> subcellV R) (faces : list (subfaceV R))
         (mu la : R) (b : nat -> R) (A : nat -> nat -> R)
         (Inv : list R -> nat -> nat -> nat -> R),
    (forall i j, (i < d)%nat -> (j < d)%nat -> A j i = - A i j) ->
    rsumn m w = 1 ->
    (forall k, (k < m)%nat -> cell_okV d mu la b A (cells k)) ->
    Forall (face_okV d m mu la b A) faces ->
    rkeep_asym m faces = true ->
    let sys := rlocal_systemV d m w cells (rkeep_asym m faces) faces in
    (forall G k i j, (k < m)%nat -> (i < d)%nat -> (j < d)%nat ->
                     Inv (lhs_allV R sys G) k i j = G k i j) ->
    let Gc := Inv (rhs_allV R sys) in
    forall k n i, (k < m)%nat -> (i < d)%nat -> rtractionW d m w cells true Gc k n i = 0.
Proof. exact rotation_zero. Qed.
Print Assumptions C13_rotation_zero.

(* Matrix level, ANY four matrices and geometry: bounds on the traction residual of basis
   fields on row r bound the residual of every linear combination of them on r.  (The
   run-time certificate establishes eps t = 1e-9 (1 + |exact|) for every row of every
   non-Neumann face and every basis field of the instance's dimension.) *)
Theorem C13_linear_extension_traction :
  forall (I : instV R) (r : nat) (eps : nat -> R) (terms : list (R * nat)),
    (forall st, In st terms -> Rabs (rres_T I (rbasisV (snd st)) r) <= eps (snd st)) ->
    Rabs (rstress_of I (rcomb terms) r - rexactT_row I (rcomb terms) r) <= bound_of eps terms.
Proof. exact linear_extension_traction. Qed.
Print Assumptions C13_linear_extension_traction.

(* The same for the displacement reconstruction (certified on Dirichlet faces). *)
Theorem C13_linear_extension_displacement :
  forall (I : instV R) (r : nat) (eps : nat -> R) (terms : list (R * nat)),
    (forall st, In st terms -> Rabs (rres_U I (rbasisV (snd st)) r) <= eps (snd st)) ->
    Rabs (rdisp_of I (rcomb terms) r - rexactU_row I (rcomb terms) r) <= bound_of eps terms.
Proof. exact linear_extension_displacement. Qed.
Print Assumptions C13_linear_extension_displacement.

(* Every linear field u = b + A x is such a combination: of the twelve basis fields in 3-D,
   of the six in-plane ones in 2-D. *)
Theorem C13_every_field_3d :
  forall (b : vec3 R) (A : mat3 R), rcomb (terms3 b A) = (b, A).
Proof. exact comb_terms3. Qed.
Print Assumptions C13_every_field_3d.

Theorem C13_every_field_2d :
  forall b1 b2 a11 a12 a21 a22 : R,
    rcomb (terms2 b1 b2 a11 a12 a21 a22)
    = ((b1, b2, 0), ((a11, a12, 0), (a21, a22, 0), (0, 0, 0))).
Proof. exact comb_terms2. Qed.
Print Assumptions C13_every_field_2d.

(* The property's 3-D restriction implies the local admissibility condition: at a node v, let
   neu be the Neumann boundary faces containing v and cell_of f the cell of boundary face f.
   If two boundary faces of one cell that meet in v share an edge (cells that are simple
   polytopes at their vertices: tetrahedra, hexahedra, prisms) and no two Neumann faces share
   an edge, then there are at most as many Neumann sub-faces as sub-cells at v, i.e. the
   averaged part of Hooke's law is kept (keep_asym = true, the guard of the theorems above). *)
Theorem C13_edge_disjoint_admissible :
  forall (share_edge : nat -> nat -> Prop) (cell_of : nat -> nat)
         (F : Type) (neu cells : list nat) (faces : list (subfaceV F)),
    NoDup neu ->
    (forall f, In f neu -> In (cell_of f) cells) ->
    (forall f g, In f neu -> In g neu -> f <> g -> cell_of f = cell_of g -> share_edge f g) ->
    (forall f g, In f neu -> In g neu -> f <> g -> ~ share_edge f g) ->
    length (filter (is_neuV F) faces) = length neu ->
    keep_asym F (length cells) faces = true.
Proof. exact edge_disjoint_admissible. Qed.
Print Assumptions C13_edge_disjoint_admissible.

(* Non-vacuity: a boundary-edge node of a hexahedral grid with the edge-disjoint Neumann
   faces 0 and 3. *)
Example C13_nonvacuous_admissible :
  NoDup [0; 3]%nat /\
  (forall f, In f [0; 3]%nat -> In (ex_cell_of f) [10; 11]%nat) /\
  (forall f g, In f [0; 3]%nat -> In g [0; 3]%nat -> f <> g -> ex_cell_of f = ex_cell_of g -> ex_share f g) /\
  (forall f g, In f [0; 3]%nat -> In g [0; 3]%nat -> f <> g -> ~ ex_share f g).
Proof. exact example_admissible. Qed.

(* Invertibility per instance (same statement as C11_local_unique_solution, used for the
   MPSA local systems): an approximate left inverse with row defect q < 1 makes the solution
   of the local system unique; Model.C11_inv.check_inv establishes the bound with q = 1/2 on
   the captured MPSA matrices. *)
Theorem C13_local_unique_solution :
  forall (n : nat) (A B : nat -> nat -> R) (q : R),
    q < 1 ->
    (forall i, (i < n)%nat -> rsumn n (fun j => Rabs (prodBA n A B i j - idn i j)) <= q) ->
    forall (r x y : nat -> R),
      (forall i, (i < n)%nat -> mulv n A x i = r i) ->
      (forall i, (i < n)%nat -> mulv n A y i = r i) ->
      forall j, (j < n)%nat -> x j = y j.
Proof. exact unique_solution. Qed.
Print Assumptions C13_local_unique_solution.

(* Certificate (ii) for MPSA, the link between model (A) and the code's local systems: for ANY
   captured local matrix LA (gradient entry G_ij of a sub-cell in column i*nd + j of its
   block) and right-hand side matrices (in the ST / BS slots of I), a bound on the residual
   "LA (constant gradient of the field) - right-hand side built from the field" for basis
   fields on row r bounds it for every linear combination — i.e. the hypothesis
   C13_linear_solves_local holds on the ACTUAL rows (up to the band) once the run-time check
   (Model.C13_local.check_localV: all rows except the Neumann rows) has established it for
   the basis fields. *)
Theorem C13_local_rows_linear_extension :
  forall (I : instV R) (LA : coo R) (nd r : nat) (eps : nat -> R) (terms : list (R * nat)),
    (forall st, In st terms -> Rabs (res_localV R RO I LA nd (rbasisV (snd st)) r) <= eps (snd st)) ->
    Rabs (rrow_apply LA r (gstarV R (rcomb terms) nd) - rstress_of I (rcomb terms) r)
    <= bound_of eps terms.
Proof. exact local_rows_linear_extensionV. Qed.
Print Assumptions C13_local_rows_linear_extension.

(* Non-vacuity: a concrete 2-D boundary interaction region (two sub-cells, interior,
   Dirichlet and Neumann sub-face, mu = 1, lambda = 2, non-symmetric A) with an explicit
   left inverse satisfies all hypotheses of C13_unique_exact. *)
Example C13_nonvacuous_region :
  rsumn 2 exw = 1 /\
  (forall k, (k < 2)%nat -> cell_okV 2 1 2 exbV exAV (excellsV k)) /\
  Forall (face_okV 2 2 1 2 exbV exAV) exfacesV /\
  rkeep_asym 2 exfacesV = true /\
  (forall G k i j, (k < 2)%nat -> (i < 2)%nat -> (j < 2)%nat ->
     exInvV (lhs_allV R (rlocal_systemV 2 2 exw excellsV (rkeep_asym 2 exfacesV) exfacesV) G) k i j
     = G k i j) /\
  exAV 0%nat 1%nat <> exAV 1%nat 0%nat.
Proof. exact example_regionV. Qed.
