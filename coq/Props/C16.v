(* C16 — TPSA is invariant under rigid translations: property theorems only.
   METHOD-LEVEL theorems (DESIGN.md §1.1 P-method): they are about sparse rows, the
   translation state and the finite-volume assembly, for ALL rational matrices, boundary
   flag assignments and translations.  They say nothing about tpsa.py by themselves; the
   harness evaluates the checkers of PP.Model.C16 (check) on the real matrices of
   Tpsa.discretize for every generated instance (certificate tie), and
   C16_certificate_sound / C16_exact_certificates connect those booleans to the theorems.

   Vocabulary (PP.Model.C16): columns = [u | rotation | solid pressure | boundary values g];
   cls j = Some k if column j carries component k of the translation (cell displacement
   component k, Dirichlet boundary component k) and None if it carries 0 (rotation, solid
   pressure, Neumann = zero traction);  sv cls t = the translation state of translation t;
   csum cls k r = sum of the entries of row r standing in columns of class Some k. *)
From Coq Require Import List ZArith QArith Qabs Bool Arith Lia.
Import ListNotations.
From PP Require Lib.RowLin Lib.RowInv.
From PP Require Import Model.C16 Proofs.C16.
Local Open Scope Q_scope.

(* A row written as weighted differences  sum_j w_j (v_j - v_i)  (interior face: the two
   cell values of one component; Dirichlet face: boundary value minus cell value) vanishes
   on the translation state, whatever the weights. *)
Theorem C16_stress_zero_differences :
  forall (cls : cls_t) (t : list Q) (ws : row) (i : nat),
    (forall jw, In jw ws -> cls (fst jw) = cls i) ->
    diffsum ws i (sv cls t) == 0.
Proof. exact stress_zero_differences. Qed.
Print Assumptions C16_stress_zero_differences.

(* Row-sum certificate: a row whose entries sum to zero per translation component gives
   zero on the translation state of EVERY translation (of that many components). *)
Theorem C16_stress_zero :
  forall (cls : cls_t) (t : list Q) (r : row),
    (forall k, (k < length t)%nat -> csum cls k r == 0) ->
    rdot r (sv cls t) == 0.
Proof. exact stress_zero. Qed.
Print Assumptions C16_stress_zero.

(* Averaging rows: weights summing to one in component k (and to zero in the others)
   reproduce t_k. *)
Theorem C16_averages_reproduce_const :
  forall (cls : cls_t) (t : list Q) (r : row) (k : nat),
    (k < length t)%nat ->
    (forall k', (k' < length t)%nat -> csum cls k' r == if Nat.eqb k k' then 1 else 0) ->
    rdot r (sv cls t) == nth k t 0.
Proof. exact averages_reproduce_const. Qed.
Print Assumptions C16_averages_reproduce_const.

(* The assembled system.  If (certified I): every stress row sums to zero per component,
   every solid-mass row sums to the face normal, every rotation row sums to -(n x .)
   (2-D: (n_1, -n_0)), the signed face normals of every cell sum to zero and the incidence
   refers to existing faces, then for EVERY translation t the state (u = t, rotation = 0,
   solid pressure = 0) with boundary data t / zero traction makes every row of
   Div*[F | RHS] - [Accumulation | 0] vanish, i.e. it solves  A x = b. *)
Theorem C16_system_solution :
  forall (I : inst) (t : list Q),
    certified I -> length t = i_nd I ->
    forall r, In r (system_rows I) -> rdot r (sv (cls_of I) t) == 0.
Proof. exact system_solution. Qed.
Print Assumptions C16_system_solution.

(* ... and it is THE solution when the system matrix has a trivial kernel (hypothesis; the
   oracle observes it by solving): any x with the same boundary data and zero residual has
   x = t in every cell-displacement dof and 0 in every rotation / solid-pressure dof. *)
Theorem C16_unique_solution :
  forall (I : inst) (t : list Q) (x : vec),
    certified I -> length t = i_nd I ->
    (forall v : vec, (forall j, (ndof I <= j)%nat -> v j == 0) ->
                     (forall r, In r (system_rows I) -> rdot r v == 0) ->
                     forall j, (j < ndof I)%nat -> v j == 0) ->
    (forall j, (ndof I <= j)%nat -> x j == sv (cls_of I) t j) ->
    (forall r, In r (system_rows I) -> rdot r x == 0) ->
    forall j, (j < ndof I)%nat ->
      x j == if (j <? i_nd I * i_nc I)%nat then nth (j mod i_nd I) t 0 else 0.
Proof. exact tpsa_unique_solution. Qed.
Print Assumptions C16_unique_solution.

(* Non-singularity per instance instead of a hypothesis: a left-inverse certificate
   N * A = d * I, d <> 0 (N, d computed by the harness in exact rationals, the identity verified
   exactly in Coq by RowInv.inv_ok on the assembled rows; part of check when i_inv is present,
   i.e. on small instances) gives the trivial kernel ... *)
Theorem C16_nonsingular_certificate :
  forall (tol : Q) (I : inst) (N : list (list Q)) (d : Q),
    check tol I = true -> i_inv I = Some (N, d) ->
    forall v : vec, (forall j, (ndof I <= j)%nat -> v j == 0) ->
                    (forall r, In r (system_rows I) -> rdot r v == 0) ->
                    forall j, (j < ndof I)%nat -> v j == 0.
Proof.
  intros tol I N d H E. exact (nonsingular_certificate I N d (check_inv tol I N d H E)).
Qed.
Print Assumptions C16_nonsingular_certificate.

(* ... so that on an exactly certified instance the translation state is THE solution, with no
   assumption left about the matrix. *)
Theorem C16_unique_solution_certified :
  forall (I : inst) (N : list (list Q)) (d : Q) (t : list Q) (x : vec),
    certified I -> RowInv.inv_ok (ndof I) (system_rows I) N d = true -> length t = i_nd I ->
    (forall j, (ndof I <= j)%nat -> x j == sv (cls_of I) t j) ->
    (forall r, In r (system_rows I) -> rdot r x == 0) ->
    forall j, (j < ndof I)%nat ->
      x j == if (j <? i_nd I * i_nc I)%nat then nth (j mod i_nd I) t 0 else 0.
Proof. exact unique_solution_certified. Qed.
Print Assumptions C16_unique_solution_certified.

(* Soundness of the checker the tie evaluates, tolerance included: if  check tol I = true
   then for every translation t, (1) every stress row, (2) every averaging row and (3) every
   row of the assembled system applied to the translation state is within
   tol * (1 + sum|row entries|) * sum_k |t_k|  of  0, t_k, 0  respectively. *)
Theorem C16_certificate_sound :
  forall (tol : Q) (I : inst) (t : list Q),
    check tol I = true -> length t = i_nd I ->
    (forall r, In r (i_srows I) -> Qabs (rdot r (sv (cls_of I) t)) <= bound tol r t)
    /\ (forall q, (q < i_nd I * i_nf I)%nat ->
          Qabs (rdot (nth q (i_arows I) []) (sv (cls_of I) t) - nth (q mod i_nd I) t 0)
          <= bound tol (nth q (i_arows I) []) t)
    /\ (forall r, In r (system_rows I) -> Qabs (rdot r (sv (cls_of I) t)) <= bound tol r t).
Proof. exact certificate_sound. Qed.
Print Assumptions C16_certificate_sound.

(* With tolerance 0 the checkers establish the exact hypotheses of C16_system_solution. *)
Theorem C16_exact_certificates :
  forall I : inst,
    shape_ok I = true -> stress_ok 0 I = true -> mass_ok 0 I = true -> rot_ok 0 I = true ->
    normals_ok 0 I = true -> certified I.
Proof. exact exact_certified. Qed.
Print Assumptions C16_exact_certificates.

(* Non-vacuity: the real TPSA matrices of CartGrid([2,1]) (mu = 1, lambda = 2, mixed
   Dirichlet / Neumann data) satisfy every certificate exactly, hence the hypotheses of
   C16_system_solution, and the translation (1, -2) leaves no residual in any of the
   2*2 + 2*1 + 2 = 8 equations. *)
Example C16_nonvacuous :
  check 0 ex_inst = true /\ certified ex_inst /\ length (system_rows ex_inst) = 8%nat /\
  (forall r, In r (system_rows ex_inst) -> rdot r (sv (cls_of ex_inst) [1; -(2)]) == 0) /\
  sv (cls_of ex_inst) [1; -(2)] 2%nat == 1 /\ sv (cls_of ex_inst) [1; -(2)] 3%nat == -(2).
Proof.
  split; [exact ex_inst_check|]. split; [exact ex_inst_certified|].
  split; [vm_compute; reflexivity|].
  split; [intros r Hr; apply (system_solution ex_inst [1; -(2)] ex_inst_certified eq_refl r Hr)|].
  split; vm_compute; reflexivity.
Qed.

(* Non-vacuity of the non-singularity certificate: the concrete instance carries one (8 x 8),
   check accepts it, so its kernel is trivial and the translation is its unique solution. *)
Example C16_nonvacuous_nonsingular :
  exists N d, i_inv ex_inst = Some (N, d) /\ ~ d == 0 /\
    RowInv.inv_ok (ndof ex_inst) (system_rows ex_inst) N d = true /\ ndof ex_inst = 8%nat.
Proof.
  destruct (i_inv ex_inst) as [[N d]|] eqn:E; [|vm_compute in E; discriminate].
  exists N, d. split; [reflexivity|].
  assert (H : RowInv.inv_ok (ndof ex_inst) (system_rows ex_inst) N d = true)
    by (apply (check_inv 0 ex_inst N d ex_inst_check E)).
  split; [|split; [exact H|reflexivity]].
  intros Hd. unfold RowInv.inv_ok in H. apply andb_prop in H. destruct H as [H _].
  apply andb_prop in H. destruct H as [H _]. apply negb_true_iff in H.
  apply Qeq_bool_iff in Hd. congruence.
Qed.

(* Non-vacuity of the difference form: an interior-face row  w (u_{c2,k} - u_{c1,k})  and a
   Dirichlet-face row  w (g_{f,k} - u_{c,k}). *)
Example C16_nonvacuous_differences :
  diffsum [(2%nat, 3 # 2)] 0%nat (sv (cls_of ex_inst) [1; -(2)]) == 0 /\
  diffsum [(8%nat, 4)] 0%nat (sv (cls_of ex_inst) [1; -(2)]) == 0 /\
  cls_of ex_inst 8%nat = Some 0%nat.
Proof. repeat split; vm_compute; reflexivity. Qed.
