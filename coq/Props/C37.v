(* C37 — property theorems only.  Models: PP.Lib.Dense (dense matrices over any ring),
   PP.Lib.Csr (compressed storage), PP.Model.C37 (transcription of invert_diagonal_blocks,
   block location, permutation post-processing, slicer applications);
   proofs: PP.Proofs.C37_dense, PP.Proofs.C37_perm, PP.Proofs.C37. *)
From Coq Require Import List ZArith Arith Bool Lia Ring.
Import ListNotations.
From PP Require Import Lib.Csr Lib.Dense Model.C37 Proofs.C37_dense Proofs.C37_perm Proofs.C37.
From PP Require Import Proofs.C37_slicer.

(* (1) Over any commutative ring: if [inv] returns a two-sided inverse of every block
   (np.linalg.inv is trusted, [inv_ok]), then block_diag(inv B_i) is a two-sided inverse of
   block_diag(B_i) -- any number of square blocks of any sizes. *)
Theorem C37_blocks_inverse :
  forall (T : Type) (zero one : T) (add mul sub : T -> T -> T) (opp : T -> T),
    ring_theory zero one add mul sub opp eq ->
  forall (inv : list (list T) -> list (list T)) (Bs : list (list (list T))),
    Forall (square T) Bs -> Forall (inv_ok T zero one add mul inv) Bs ->
    mat_mul zero add mul (total T Bs) (block_diag zero Bs) (block_diag zero (map inv Bs))
      = identity zero one (total T Bs) /\
    mat_mul zero add mul (total T Bs) (block_diag zero (map inv Bs)) (block_diag zero Bs)
      = identity zero one (total T Bs).
Proof. exact blocks_inverse. Qed.
Print Assumptions C37_blocks_inverse.

(* (2) Q . B^-1 . P is the two-sided inverse of A when P . A . Q = B, for invertible P, Q
   (n x n matrices over any commutative ring) ... *)
Theorem C37_perm_inverse :
  forall (T : Type) (zero one : T) (add mul sub : T -> T -> T) (opp : T -> T),
    ring_theory zero one add mul sub opp eq ->
  forall n A B Bi P P' Q Q',
    sq T n A -> sq T n B -> sq T n Bi -> sq T n P -> sq T n P' -> sq T n Q -> sq T n Q' ->
    mat_mul zero add mul n P P' = identity zero one n -> mat_mul zero add mul n P' P = identity zero one n ->
    mat_mul zero add mul n Q Q' = identity zero one n -> mat_mul zero add mul n Q' Q = identity zero one n ->
    mat_mul zero add mul n B Bi = identity zero one n -> mat_mul zero add mul n Bi B = identity zero one n ->
    mat_mul zero add mul n (mat_mul zero add mul n P A) Q = B ->
    mat_mul zero add mul n A (mat_mul zero add mul n (mat_mul zero add mul n Q Bi) P) = identity zero one n /\
    mat_mul zero add mul n (mat_mul zero add mul n (mat_mul zero add mul n Q Bi) P) A = identity zero one n.
Proof. exact perm_inverse. Qed.
Print Assumptions C37_perm_inverse.

(* ... permutation matrices of mutually inverse index lists are mutually inverse
   (orthogonality: perm_mat p' is the transpose of perm_mat p) ... *)
Theorem C37_perm_matrix_inverse :
  forall (T : Type) (zero one : T) (add mul sub : T -> T -> T) (opp : T -> T),
    ring_theory zero one add mul sub opp eq ->
  forall n p p', length p = n -> length p' = n ->
    Forall (fun x => x < n) p -> Forall (fun x => x < n) p' ->
    map (fun x => nth x p' 0) p = seq 0 n -> map (fun x => nth x p 0) p' = seq 0 n ->
    mat_mul zero add mul n (perm_mat zero one n p) (perm_mat zero one n p') = identity zero one n /\
    mat_mul zero add mul n (perm_mat zero one n p') (perm_mat zero one n p) = identity zero one n.
Proof. exact perm_mat_inverse. Qed.
Print Assumptions C37_perm_matrix_inverse.

(* ... and the row slicer A[p, :] is the product with the permutation matrix of p. *)
Theorem C37_row_slicer_is_perm_matrix :
  forall (T : Type) (zero one : T) (add mul sub : T -> T -> T) (opp : T -> T),
    ring_theory zero one add mul sub opp eq ->
  forall n w p A, length A = n -> width T w A -> Forall (fun x => x < n) p ->
    mat_mul zero add mul w (perm_mat zero one n p) A = select_rows zero A p w.
Proof. exact perm_mat_select. Qed.
Print Assumptions C37_row_slicer_is_perm_matrix.

(* (2') The slicer model of invert_permuted_block_diag_matrix itself: for ALL index
   permutations rp, cp (duplicate-free lists of length n with entries below n) and every
   n x n matrix A over a commutative ring, if Bi is a two-sided inverse of the block form
   A[rp,:][:,cp] = row_slicer @ (col_slicer.T @ A.T).T, then
   col_slicer @ (row_slicer.T @ Bi.T).T is a two-sided inverse of A. *)
Theorem C37_permuted_inverse :
  forall (T : Type) (zero one : T) (add mul sub : T -> T -> T) (opp : T -> T),
    ring_theory zero one add mul sub opp eq ->
  forall n A Bi rp cp,
    nn T n A -> nn T n Bi -> is_perm n rp -> is_perm n cp ->
    mat_mul zero add mul n (to_block_form zero n A rp cp) Bi = identity zero one n ->
    mat_mul zero add mul n Bi (to_block_form zero n A rp cp) = identity zero one n ->
    mat_mul zero add mul n A (from_block_form zero n Bi rp cp) = identity zero one n /\
    mat_mul zero add mul n (from_block_form zero n Bi rp cp) A = identity zero one n.
Proof. exact permuted_inverse. Qed.
Print Assumptions C37_permuted_inverse.

(* the block form has the entries A[rp_i][cp_j] (row and column slicers, transposes included) *)
Theorem C37_block_form_entries :
  forall (T : Type) (zero : T) n (A : list (list T)) rp cp i j,
    is_perm n rp -> is_perm n cp -> length A = n -> i < n -> j < n ->
    mget zero (to_block_form zero n A rp cp) i j = mget zero A (nth i rp 0) (nth j cp 0).
Proof. exact mget_block_form. Qed.
Print Assumptions C37_block_form_entries.

(* the permutation test evaluated on every computed permutation (tie) is sound *)
Theorem C37_perm_certificate_sound :
  forall n p, is_permb n p = true -> is_perm n p.
Proof. exact is_permb_sound. Qed.
Print Assumptions C37_perm_certificate_sound.

(* (3) np.searchsorted (bisection) on an array that the key partitions returns the
   partition point, although the array is not sorted. *)
Theorem C37_searchsorted_partition :
  forall l1 l2 key, Forall (fun x => x < key) l1 -> Forall (fun x => key <= x) l2 ->
    searchsorted (l1 ++ l2) key = length l1.
Proof. exact searchsorted_partition. Qed.
Print Assumptions C37_searchsorted_partition.

(* For every well-formed compressed matrix (unsorted indices within lines, empty lines,
   duplicates allowed) none of whose stored entries straddles a block boundary, the
   boundaries searchsorted(indices, cumsum(sizes)) are the index pointers of the block
   starts ... *)
Theorem C37_block_boundaries :
  forall (A : csr) (sz : list nat), wf A = true -> block_monotone A sz = true ->
    Forall (fun b => b <= nmaj A) (idx_blocks sz) ->
    idx_nnz A sz = map (fun b => nth b (indptr A) 0) (idx_blocks sz).
Proof. exact block_boundaries. Qed.
Print Assumptions C37_block_boundaries.

(* ... so that the slice of (indices, data) taken for a block is exactly the
   concatenation of the block's own lines: the data array is cut into the blocks. *)
Theorem C37_block_slice :
  forall (A : csr) (b0 b1 : nat), wf A = true -> b0 <= b1 -> b1 <= nmaj A ->
    seg (nth b0 (indptr A) 0) (nth b1 (indptr A) 0) (entries A) = concat (seg b0 b1 (rows A)).
Proof. exact block_slice. Qed.
Print Assumptions C37_block_slice.

(* The repair: eliminate_zeros does not change the matrix, leaves no stored zero, and
   re-establishes the premise of C37_block_boundaries for every matrix whose NON-ZERO stored
   entries lie inside the diagonal blocks, whatever zeros are stored elsewhere. *)
Theorem C37_eliminate_zeros_dense :
  forall A : csr, to_dense (eliminate_zeros A) = to_dense A.
Proof. exact eliminate_zeros_dense. Qed.
Print Assumptions C37_eliminate_zeros_dense.

Theorem C37_eliminate_zeros_restores_premise :
  forall (A : csr) (sz : list nat),
    (forall b, In b (idx_blocks sz) -> forall i r, In (i, r) (combine (seq 0 (nmaj A)) (rows A)) ->
       forall e, In e r -> snd e <> 0%Z -> (i <? b) = (fst e <? b)) ->
    block_monotone (eliminate_zeros A) sz = true.
Proof. exact eliminate_zeros_restores_premise. Qed.
Print Assumptions C37_eliminate_zeros_restores_premise.

(* The premise FAILS for a block-diagonal matrix with an explicitly stored zero outside
   the blocks (diag(2,4) stored as data [2,0,4]); without the repair the python backend
   raises IndexError or reads a neighbour's entry and the numba backend raises its
   size-mismatch AssertionError; with the repair both return the blocks. *)
Theorem C37_stored_zero_witness :
  exists A sz, wf A = true /\ to_dense A = [[2; 0]; [0; 4]]%Z /\
    block_monotone A sz = false /\
    extract_blocks_unrepaired Numba A sz = Err AssertErr /\
    extract_blocks_unrepaired Python A sz = Err IndexErr /\
    extract_blocks Numba A sz = Ok [[[2]]; [[4]]]%Z /\
    extract_blocks Python A sz = Ok [[[2]]; [[4]]]%Z.
Proof. exact stored_zero_witness. Qed.
Print Assumptions C37_stored_zero_witness.

(* ---------------------------------------------------------------- non-vacuity *)

(* integer blocks with integer inverses (products of unit-triangular matrices) *)
Definition C37_B1 : list (list Z) := [[1; 2]; [3; 7]]%Z.
Definition C37_B2 : list (list Z) := [[-1]]%Z.
Definition C37_inv (B : list (list Z)) : list (list Z) :=
  if eqb_matZ B C37_B1 then [[7; -2]; [-3; 1]]%Z else B.

Example C37_nonvacuous_blocks :
  Forall (square Z) [C37_B1; C37_B2] /\
  Forall (inv_ok Z 0%Z 1%Z Z.add Z.mul C37_inv) [C37_B1; C37_B2] /\
  block_diag 0%Z [C37_B1; C37_B2] = [[1; 2; 0]; [3; 7; 0]; [0; 0; -1]]%Z.
Proof.
  split; [|split].
  - repeat constructor.
  - repeat constructor.
  - reflexivity.
Qed.

(* a row/column permuted block-diagonal matrix: P A Q = B with the code's slicers *)
Example C37_nonvacuous_perm :
  let A := [[0; 0; 3]; [0; 5; 0]; [7; 0; 1]]%Z in
  generate_permutation 3 A = Ok ([0; 2; 1], [0; 2; 1], [2; 1]) /\
  to_block_form 0%Z 3 A [0; 2; 1] [0; 2; 1] = [[0; 3; 0]; [7; 1; 0]; [0; 0; 5]]%Z /\
  mat_mul 0%Z Z.add Z.mul 3 (mat_mul 0%Z Z.add Z.mul 3 (perm_mat 0%Z 1%Z 3 [0; 2; 1]) A)
          (perm_mat 0%Z 1%Z 3 (invperm 3 [0; 2; 1]))
    = to_block_form 0%Z 3 A [0; 2; 1] [0; 2; 1] /\
  map (fun x => nth x (invperm 3 [0; 2; 1]) 0) [0; 2; 1] = seq 0 3.
Proof. vm_compute. repeat split; reflexivity. Qed.

(* unsorted indices within lines, an empty-free 2+1 block layout: premise holds *)
Definition C37_ex : csr :=
  {| nmaj := 3; nmin := 3; indptr := [0; 2; 4; 5]; indices := [1; 0; 1; 0; 2];
     data := [2; 1; 7; 3; -1]%Z |}.

Example C37_nonvacuous_csr :
  wf C37_ex = true /\ block_monotone C37_ex [2; 1] = true /\
  Forall (fun b => b <= nmaj C37_ex) (idx_blocks [2; 1]) /\
  idx_nnz C37_ex [2; 1] = [0; 4; 5] /\
  extract_blocks Python C37_ex [2; 1] = Ok [C37_B1; C37_B2] /\
  extract_blocks Numba C37_ex [2; 1] = Ok [C37_B1; C37_B2] /\
  block_diag 0%Z [C37_B1; C37_B2] = to_dense C37_ex.
Proof.
  split; [reflexivity|]. split; [reflexivity|]. split; [repeat constructor|].
  vm_compute. repeat split; reflexivity.
Qed.

Example C37_nonvacuous_permuted_inverse :
  let A := [[0; 0; 3]; [0; 5; 0]; [7; 0; 1]]%Z in
  let A1 := [[0; 0; 1]; [0; 1; 0]; [1; 2; 0]]%Z in
  let rp := [0; 2; 1] in let cp := [2; 1; 0] in
  is_permb 3 rp = true /\ is_permb 3 cp = true /\
  to_block_form 0%Z 3 A1 rp cp = [[1; 0; 0]; [0; 2; 1]; [0; 1; 0]]%Z /\
  mat_mul 0%Z Z.add Z.mul 3 (to_block_form 0%Z 3 A1 rp cp) [[1; 0; 0]; [0; 0; 1]; [0; 1; -2]]%Z
    = identity 0%Z 1%Z 3 /\
  mat_mul 0%Z Z.add Z.mul 3 A1 (from_block_form 0%Z 3 [[1; 0; 0]; [0; 0; 1]; [0; 1; -2]]%Z rp cp)
    = identity 0%Z 1%Z 3.
Proof. vm_compute. repeat split; reflexivity. Qed.
