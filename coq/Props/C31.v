(* C31 — property theorems only.  Model: PP.Model.C31 (transcription of the predicates of
   geometry_property_checks.py, half_space.py and the orderings of sort_points.py);
   proofs: PP.Proofs.C31. *)
From Coq Require Import List QArith Qabs ZArith Lia.
Import ListNotations.
From Coq Require Import Permutation.
From PP Require Import Model.C28 Model.C31 Proofs.C28 Proofs.C31 Proofs.C31_sort Proofs.C31_pip2 Proofs.C31_line Proofs.C31_polyh Proofs.C31_planar Proofs.C31_plane.
Open Scope Q_scope.

(* is_ccw_polygon: for EVERY polygon (any vertex list) the answer is True exactly when the
   signed (shoelace) area is positive. *)
Theorem C31_ccw_iff_area_positive :
  forall poly : list v2, is_ccw_polygon poly = true <-> 0 < area2 poly.
Proof. exact ccw_iff_area_positive. Qed.
Print Assumptions C31_ccw_iff_area_positive.

(* is_ccw_polyline: strictly left of p1->p2 (beyond tol) => True, strictly right => False,
   within the band => the caller's default. *)
Theorem C31_polyline_side :
  forall tol default p1 p2 p3, 0 <= tol ->
    (tol < cross3 p1 p2 p3 -> is_ccw_polyline tol default p1 p2 p3 = true) /\
    (cross3 p1 p2 p3 < - tol -> is_ccw_polyline tol default p1 p2 p3 = false) /\
    (Qabs (cross3 p1 p2 p3) <= tol -> is_ccw_polyline tol default p1 p2 p3 = default).
Proof. exact polyline_spec. Qed.
Print Assumptions C31_polyline_side.

(* half-space intersection: with as many normals as base points the call does not raise
   and point i is reported inside exactly when it satisfies ALL inequalities
   (p - x0_k).n_k <= 0; with different numbers of columns it raises ValueError. *)
Theorem C31_halfspace :
  (forall ns x0s pts i p,
     length ns = length x0s -> nth_error pts i = Some p ->
     match half_space_int ns x0s pts with
     | HOk bs => nth_error bs i = Some true <->
                 (forall n x0, In (n, x0) (combine ns x0s) -> dot3 (sub3 p x0) n <= 0)
     | HErr _ => False
     end) /\
  (forall ns x0s pts, length ns <> length x0s -> half_space_int ns x0s pts = HErr ValueErr).
Proof. split; [exact half_space_member|exact half_space_shape_error]. Qed.
Print Assumptions C31_halfspace.

(* points_are_collinear (after the fix): fewer than three points are collinear; a set all
   of whose points p_k (k >= 2) have (p_k - p_0) x (p_1 - p_0) = 0 is accepted for every
   tolerance; an accepted set has every such cross product within tol * max(1, diameter)
   (squared form). *)
Theorem C31_collinear :
  (forall tol pts, (length pts <= 2)%nat -> points_are_collinear tol pts = true) /\
  (forall tol p0 p1 q rest,
     let pts := p0 :: p1 :: q :: rest in
     ((forall p, In p (q :: rest) -> zero3 (crs3 (sub3 p p0) (sub3 p1 p0))) ->
      points_are_collinear tol pts = true) /\
     (points_are_collinear tol pts = true ->
      forall p, In p (q :: rest) ->
        let c := crs3 (sub3 p p0) (sub3 p1 p0) in
        dot3 c c <= tol * tol * max_sqdist pts 1)).
Proof. split; [exact collinear_few|exact collinear_spec]. Qed.
Print Assumptions C31_collinear.

(* point_in_polygon (after the fix), convex part: for ANY vertex list and any default,
   a point strictly to the left of every edge (= strictly inside a convex counter-clockwise
   polygon) is reported inside.  PARTIAL: the converse for convex polygons (outside points
   give winding number 0) and the general statement for simple non-convex polygons are not
   proved; they are covered by the finite-domain theorem below, the tie and the oracle. *)
Theorem C31_pip_convex_inside_partial :
  forall default poly p,
    poly <> [] ->
    (forall a b, In (a, b) (combine poly (roll1 poly)) -> 0 < cross3 a b p) ->
    point_in_polygon default poly p = true.
Proof. exact pip_all_left. Qed.
Print Assumptions C31_pip_convex_inside_partial.

(* point_in_polygon, non-convex polygons, finite domain: for the five fixed integer
   polygons (L, U, comb, zig-zag band, clockwise arrow) and ALL integer points with
   -2 <= x, y <= 8 the answer is the even-odd crossing-number test [pip_ref] (exact
   rational ray casting), and the caller's default exactly on the boundary. *)
Theorem C31_pip_nonconvex_boxes :
  forall poly, In poly [poly_L; poly_U; poly_comb; poly_zig; poly_arrow_cw] ->
  forall (x y : Z) (default : bool), (-2 <= x <= 8)%Z -> (-2 <= y <= 8)%Z ->
    point_in_polygon default poly (inject_Z x, inject_Z y)
    = match pip_ref poly (inject_Z x, inject_Z y) with None => default | Some b => b end.
Proof. exact pip_nonconvex_boxes. Qed.
Print Assumptions C31_pip_nonconvex_boxes.

(* the same finite-domain statement for two further non-convex simple polygons: a 16-vertex
   rectilinear spiral and a 10-vertex star. *)
Theorem C31_pip_nonconvex_boxes_more :
  forall poly, In poly [poly_spiral; poly_star] ->
  forall (x y : Z) (default : bool), (-2 <= x <= 8)%Z -> (-2 <= y <= 8)%Z ->
    point_in_polygon default poly (inject_Z x, inject_Z y)
    = match pip_ref poly (inject_Z x, inject_Z y) with None => default | Some b => b end.
Proof. exact pip_nonconvex_boxes2. Qed.
Print Assumptions C31_pip_nonconvex_boxes_more.

(* point_in_polygon, the other direction: for ANY vertex list, a point that a line through
   it separates strictly from all vertices is reported outside (the winding number the
   code computes telescopes to 0). *)
Theorem C31_pip_separated_outside :
  forall default poly p al be,
    poly <> [] ->
    (forall a, In a poly -> 0 < al * (fst a - fst p) + be * (snd a - snd p)) ->
    point_in_polygon default poly p = false.
Proof. exact pip_separated. Qed.
Print Assumptions C31_pip_separated_outside.

(* point_in_polygon on convex counter-clockwise polygons (every vertex on the left of, or
   on, every edge line): strictly left of all edges => inside; strictly right of some
   edge => outside.  (The remaining points lie on the boundary, where the answer is the
   caller's default by the tie/finite-domain theorem only.) *)
Theorem C31_pip_convex :
  forall default poly p,
    poly <> [] ->
    (forall a b v, In (a, b) (combine poly (roll1 poly)) -> In v poly -> 0 <= cross3 a b v) ->
    ((forall a b, In (a, b) (combine poly (roll1 poly)) -> 0 < cross3 a b p) ->
     point_in_polygon default poly p = true) /\
    ((exists a b, In (a, b) (combine poly (roll1 poly)) /\ cross3 a b p < 0) ->
     point_in_polygon default poly p = false).
Proof.
  intros default poly p Hne Hcvx. split.
  - intro H. exact (pip_all_left default poly p Hne H).
  - intros (a & b & Hin & Hneg).
    exact (pip_convex_outside default poly p a b Hne Hneg (fun v Hv => Hcvx a b v Hin Hv)).
Qed.
Print Assumptions C31_pip_convex.

(* sort_point_pairs, loop level: whenever the call succeeds (no AssertionError/IndexError),
   sort_ind is a permutation of 0..n-1, column k of the output is input pair sort_ind[k]
   possibly flipped, consecutive columns chain, and in circular mode with check_circular
   the chain closes.  (Still open: that every single chain/cycle input DOES succeed —
   checked by the oracle.) *)
Theorem C31_chain_valid :
  forall lines chk circ sorted ind,
    sort_point_pairs lines chk circ = SOk sorted ind ->
    let n := length lines in
    (length sorted = n /\ Permutation ind (seq 0 n) /\
    (forall k, k < n -> exists a b, nth_error lines (nth k ind 0) = Some (a, b) /\
                           (nth k sorted dl = (a, b) \/ nth k sorted dl = (b, a))) /\
    (forall k, S k < n -> snd (nth k sorted dl) = fst (nth (S k) sorted dl)) /\
    (circ = true -> chk = true -> fst (nth 0 sorted dl) = snd (nth (n - 1) sorted dl)))%nat.
Proof. exact sort_point_pairs_sound. Qed.
Print Assumptions C31_chain_valid.

(* sort_points_on_line, model level: the index list — stable argsort of the sort keys — is
   a permutation of 0..n-1 listing the keys in non-decreasing order (any input). *)
Theorem C31_sort_on_line_keys :
  forall pts : list v3,
    let idx := sort_points_on_line_idx pts in
    Permutation idx (seq 0 (length pts)) /\
    nondecr (map (fun i => nth i (line_keys pts) 0) idx).
Proof. exact sort_points_on_line_spec. Qed.
Print Assumptions C31_sort_on_line_keys.

(* sort_points_on_line, end to end on collinear input: for points a + s_i v with v <> 0 that
   do not all coincide, the output is a permutation along which the line parameter s is
   monotone (c * s_i non-decreasing for one c <> 0, i.e. ascending or descending).
   (The rotation of the code is not modelled: the sort key tangent.(p - mean) — z itself when
   the tangent is +-e_z — is what the tie compares the code against.) *)
Theorem C31_sort_on_line_monotone :
  forall a v ss, ss <> [] ->
    ~ (fst (fst v) == 0 /\ snd (fst v) == 0 /\ snd v == 0) ->
    ~ all_eq ss (qsum ss / qlen ss) ->
    let idx := sort_points_on_line_idx (map (lpt a v) ss) in
    Permutation idx (seq 0 (length ss)) /\
    exists c, ~ c == 0 /\ nondecr (map (fun i => c * nth i ss 0) idx).
Proof. exact sort_on_line_monotone. Qed.
Print Assumptions C31_sort_on_line_monotone.

(* points_are_planar(pts, normal=None): compute_normal is modelled (un-normalised cross
   product of the longest centred vector with the one giving the longest cross product).
   Every point set contained in a plane m.p = k (m <> 0) is accepted whenever
   compute_normal does not raise (any tolerances); ValueError exactly for fewer than three
   points.  (Rejection of non-coplanar sets is by the squared-tolerance inequality itself;
   tie + oracle.) *)
Theorem C31_planar_auto :
  (forall tn tol pts m k,
     nonzero3 m -> (forall p, In p pts -> dot3 m p == k) ->
     match points_are_planar_auto tn tol pts with POk b => b = true | _ => True end) /\
  (forall tn tol pts,
     (length pts <= 2)%nat <-> points_are_planar_auto tn tol pts = PValueErr).
Proof. split; [exact planar_auto_accepts|exact planar_auto_too_few]. Qed.
Print Assumptions C31_planar_auto.

(* sort_point_plane, model level: with the rotation onto the xy-plane transcribed exactly
   (unit normal, sin of the rotation angle supplied and checked in the tie) and arctan2 keys
   compared exactly by half-plane sectors and cross products (atan2_ltb), the returned index
   list is a permutation of 0..n-1 along which the arctan2 key never strictly decreases:
   an angular ordering of the points around the centre, cut at angle +-pi.  A point straight
   "below" the centre (first in-plane offset 0, second negative) has the largest key (pi). *)
Theorem C31_sort_plane :
  forall n s pts centre,
    let idx := sort_point_plane n s pts centre in
    Permutation idx (seq 0 (length pts)) /\
    no_descent _ atan2_ltb (map (fun i => nth i (plane_keys n s pts centre) (0, 0)) idx).
Proof. exact sort_point_plane_spec. Qed.
Print Assumptions C31_sort_plane.

(* point_in_polyhedron, transcribed decision logic: a test point lying in the supporting
   PLANE of any triangle of the surface (wherever in that plane) makes solid_angle raise,
   and the caller answers "outside". *)
Theorem C31_polyhedron_coplanar_outside :
  forall tol tris p A B C,
    0 < tol -> In (A, B, C) tris ->
    det3 (sub3 A p) (sub3 B p) (sub3 C p) == 0 ->
    pih_decision tol tris p = Some false.
Proof. exact pih_coplanar_outside. Qed.
Print Assumptions C31_polyhedron_coplanar_outside.

(* ... which REFUTES "inside test = exact inside test away from the boundary": for the
   conforming triangulation of the L-shaped prism the point (3,2,1) is strictly interior
   (and the exact ray-parity reference says inside) but lies in the plane y = 2 of far
   triangles, so the decision is "outside" (open finding); a generic interior point is not
   decided by this logic. *)
Theorem C31_polyhedron_refuted :
  let p : v3 := (3, 2, 1) in
  Lprism_interior p /\ pih_ref Lprism_tris p = Some true /\
  pih_decision tol10 Lprism_tris p = Some false /\
  Lprism_interior (13 # 4, 9 # 4, 3 # 4) /\
  pih_decision tol10 Lprism_tris (13 # 4, 9 # 4, 3 # 4) = None /\
  pih_ref Lprism_tris (13 # 4, 9 # 4, 3 # 4) = Some true.
Proof. exact pih_refuted. Qed.
Print Assumptions C31_polyhedron_refuted.

(* sort_point_pairs, completeness in circular mode: if the input IS a single cycle — there
   is a traversal (perm = order of the pairs, os = which pairs are flipped, es = the oriented
   pairs) starting with the first pair as given, consecutive pairs chaining, the chain
   closing, all vertex labels distinct and no pair degenerate — then, in whatever order and
   orientation the pairs are stored, the call succeeds and returns exactly that traversal.
   (PARTIAL only in that the non-circular mode, whose start is chosen through np.bincount,
   is covered by the tie and the oracle, not by a completeness theorem.) *)
Theorem C31_chain_complete_cycle :
  forall lines chk perm os es,
    let n := length lines in
    (Permutation perm (seq 0 n) -> length es = n ->
    (forall k, k < n -> nth k es dl = orient (nth (nth k perm 0) lines dl) (nth k os false)) ->
    (forall k, S k < n -> snd (nth k es dl) = fst (nth (S k) es dl)) ->
    fst (nth 0 es dl) = snd (nth (n - 1) es dl) ->
    NoDup (map fst es) ->
    (forall l, In l lines -> fst l <> snd l) ->
    nth 0 perm 0 = 0 /\ nth 0 os false = false ->
    1 <= n ->
    sort_point_pairs lines chk true = SOk es perm)%nat.
Proof. exact sort_point_pairs_complete_cycle. Qed.
Print Assumptions C31_chain_complete_cycle.

(* sort_point_pairs, the chaining step (PARTIAL: only the inner-loop link is proved —
   the pair appended at each step is a not-yet-used input pair, possibly flipped, whose
   first entry equals the open end `prev`, and the new open end is its second entry; and
   when nothing is appended no unused pair touches `prev`.  Missing: the loop-level
   invariant that lifts this to "the output is a permutation forming one chain" and
   completeness on every single chain/cycle; both are checked by the exact oracle and the
   model is tied to the code on chains, cycles and broken inputs). *)
Theorem C31_chain_step_partial :
  (forall lines found prev j0 j l np,
     scan lines found prev j0 = Some (j, l, np) ->
     exists k a b,
       j = (j0 + k)%nat /\ nth_error lines k = Some (a, b) /\ nth_error found k = Some false /\
       (l = (a, b) \/ l = (b, a)) /\ fst l = prev /\ np = snd l) /\
  (forall lines found prev j0 k a b,
     scan lines found prev j0 = None ->
     nth_error lines k = Some (a, b) -> nth_error found k = Some false ->
     a <> prev /\ b <> prev).
Proof. split; [exact scan_spec|exact scan_none]. Qed.
Print Assumptions C31_chain_step_partial.

(* Non-vacuity. *)
Example C31_nonvacuous_ccw :
  is_ccw_polygon poly_L = true /\ area2 poly_L == 24 /\ is_ccw_polygon (rev poly_L) = false.
Proof. repeat split; vm_compute; reflexivity. Qed.

Example C31_nonvacuous_pip_left :
  let tri := [(0, 0); (4, 0); (0, 4)] in
  tri <> [] /\ (forall a b, In (a, b) (combine tri (roll1 tri)) -> 0 < cross3 a b (1, 1)) /\
  point_in_polygon false tri (1, 1) = true /\ point_in_polygon true tri (3, 3) = false.
Proof.
  cbv zeta. split; [discriminate|]. split; [|split; vm_compute; reflexivity].
  intros a b Hin. cbn in Hin.
  destruct Hin as [E | [E | [E | []]]]; injection E as <- <-; vm_compute; reflexivity.
Qed.

Example C31_nonvacuous_pip_far_edge :
  point_in_polygon false poly_L (3, 2) = true /\ pip_ref poly_L (3, 2) = Some true.
Proof. exact pip_L_far_edge. Qed.

Example C31_nonvacuous_halfspace :
  half_space_int [(0, 1, 0); (1, 0, 0)] [(0, 0, 0); (-1, 0, 0)]
                 [(-1, 2, 0); (-1, -2, 0); (4, -2, 0)] = HOk [false; true; false].
Proof. vm_compute. reflexivity. Qed.

Example C31_nonvacuous_collinear :
  points_are_collinear (1 # 100000) [(0, 0, 0); (1, 0, 0); (0, 1, 0)] = false /\
  points_are_collinear (1 # 100000) [(0, 0, 0); (1, 1, 0); (3, 3, 0); (2, 2, 0)] = true.
Proof. split; vm_compute; reflexivity. Qed.

Example C31_nonvacuous_sort :
  sort_point_pairs [(1, 2); (5, 1); (2, 7); (7, 5)]%Z true true
  = SOk [(1, 2); (2, 7); (7, 5); (5, 1)]%Z [0; 2; 3; 1]%nat /\
  scan [(1, 2); (5, 1); (2, 7); (7, 5)]%Z [true; false; false; false] 2%Z 0%nat
  = Some (2%nat, (2, 7)%Z, 7%Z).
Proof. split; vm_compute; reflexivity. Qed.

Example C31_nonvacuous_separated :
  let sq := [(0, 0); (4, 0); (4, 4); (0, 4)] in
  sq <> [] /\
  (forall a, In a sq -> 0 < (-1) * (fst a - 5) + 0 * (snd a - 2)) /\
  point_in_polygon true sq (5, 2) = false /\
  (forall a b v, In (a, b) (combine sq (roll1 sq)) -> In v sq -> 0 <= cross3 a b v).
Proof.
  cbv zeta. split; [discriminate|]. split; [|split].
  - intros a Hin. cbn in Hin. destruct Hin as [<- | [<- | [<- | [<- | []]]]]; vm_compute; reflexivity.
  - vm_compute. reflexivity.
  - intros a b v Hin Hv. cbn in Hin, Hv.
    destruct Hin as [E | [E | [E | [E | []]]]]; injection E as <- <-;
      destruct Hv as [<- | [<- | [<- | [<- | []]]]]; vm_compute; discriminate.
Qed.

Example C31_nonvacuous_sort_line :
  sort_points_on_line_idx [(0, 0, 0); (2, 2, 0); (1, 1, 0); (-1, -1, 0)] = [3; 0; 2; 1]%nat.
Proof. vm_compute. reflexivity. Qed.

Example C31_nonvacuous_polyhedron :
  In ((2, 2, 0), (0, 2, 0), (0, 2, 2)) Lprism_tris /\
  det3 (sub3 (2, 2, 0) (3, 2, 1)) (sub3 (0, 2, 0) (3, 2, 1)) (sub3 (0, 2, 2) (3, 2, 1)) == 0.
Proof. split; [vm_compute; tauto|vm_compute; reflexivity]. Qed.

Example C31_nonvacuous_sort_line_monotone :
  let ss := [0; 2; 1; -1] in
  ss <> [] /\ ~ all_eq ss (qsum ss / qlen ss) /\
  map (lpt (1, 0, 3) (1, 1, 0)) ss = [(1 + 0 * 1, 0 + 0 * 1, 3 + 0 * 0); (1 + 2 * 1, 0 + 2 * 1, 3 + 2 * 0);
                                      (1 + 1 * 1, 0 + 1 * 1, 3 + 1 * 0); (1 + -1 * 1, 0 + -1 * 1, 3 + -1 * 0)] /\
  sort_points_on_line_idx (map (lpt (1, 0, 3) (1, 1, 0)) ss) = [3; 0; 2; 1]%nat.
Proof.
  cbv zeta. split; [discriminate|]. split; [|split; [reflexivity|vm_compute; reflexivity]].
  intros [E _]. vm_compute in E. discriminate.
Qed.

Example C31_nonvacuous_planar_auto :
  let pts := [(0, 0, 1); (2, 0, 1); (0, 3, 1); (1, 1, 1)] in
  nonzero3 (0, 0, 1) /\ (forall p, In p pts -> dot3 (0, 0, 1) p == 1) /\
  points_are_planar_auto (1 # 100000) (1 # 100000) pts = POk true /\
  points_are_planar_auto (1 # 100000) (1 # 100000) [(0, 0, 1); (2, 0, 1); (0, 3, 1); (1, 1, 2)] = POk false /\
  points_are_planar_auto (1 # 100000) (1 # 100000) [(0, 0, 0); (1, 1, 1); (2, 2, 2)] = PRuntimeErr.
Proof.
  cbv zeta. split; [intros (_ & _ & H); vm_compute in H; discriminate|].
  split; [|repeat split; vm_compute; reflexivity].
  intros p Hin. cbn in Hin. destruct Hin as [<- | [<- | [<- | [<- | []]]]]; vm_compute; reflexivity.
Qed.

Example C31_nonvacuous_spiral :
  point_in_polygon false poly_spiral (7 # 2, 9 # 2) = true /\ point_in_polygon true poly_spiral (6, 4) = false /\
  pip_ref poly_spiral (7 # 2, 9 # 2) = Some true /\ pip_ref poly_spiral (6, 4) = Some false /\
  pip_ref poly_spiral (4, 3) = None.
Proof. repeat split; vm_compute; reflexivity. Qed.

Example C31_nonvacuous_cycle :
  let lines := [(1, 2); (5, 1); (7, 2); (7, 5)]%Z in
  let perm := [0; 2; 3; 1]%nat in let os := [false; true; false; false] in
  let es := [(1, 2); (2, 7); (7, 5); (5, 1)]%Z in
  Permutation perm (seq 0 4) /\
  (forall k, (k < 4)%nat -> nth k es dl = orient (nth (nth k perm 0%nat) lines dl) (nth k os false)) /\
  (forall k, (S k < 4)%nat -> snd (nth k es dl) = fst (nth (S k) es dl)) /\
  fst (nth 0 es dl) = snd (nth 3 es dl) /\ NoDup (map fst es) /\
  (forall l, In l lines -> fst l <> snd l) /\
  sort_point_pairs lines true true = SOk es perm.
Proof.
  cbv zeta. split; [|split; [|split; [|split; [|split; [|split]]]]].
  - apply NoDup_Permutation_bis.
    + repeat constructor; cbn; intuition lia.
    + cbn. lia.
    + intros x Hx. cbn in Hx. cbn. intuition lia.
  - intros k Hk. destruct k as [|[|[|[|k]]]]; try lia; reflexivity.
  - intros k Hk. destruct k as [|[|[|k]]]; try lia; reflexivity.
  - reflexivity.
  - repeat constructor; cbn; intuition congruence.
  - intros l Hl. cbn in Hl. destruct Hl as [<- | [<- | [<- | [<- | []]]]]; cbn; congruence.
  - vm_compute. reflexivity.
Qed.

Example C31_nonvacuous_sort_plane :
  sort_point_plane (0, 0, 1) 0 [(1, 0, 0); (0, 1, 0); (-1, 0, 0); (0, -1, 0); (1, 1, 0)] (0, 0, 0)
  = [2; 1; 4; 0; 3]%nat /\
  atan2_sector (0, -1) = 3%nat /\
  (* a tilted plane: unit normal (3,4,12)/13, sin = 5/13 *)
  agree_plane [1; 0; 2]%nat (3 # 13, 4 # 13, 12 # 13) (5 # 13)
              [(4, -3, 0); (36, 48, -25); (-4, 3, 0)] (0, 0, 0) = true.
Proof. repeat split; vm_compute; reflexivity. Qed.
