(* C31 — property theorems only.  Model: PP.Model.C31 (transcription of the predicates of
   geometry_property_checks.py, half_space.py and the orderings of sort_points.py);
   proofs: PP.Proofs.C31. *)
From Coq Require Import List QArith Qabs ZArith Lia.
Import ListNotations.
From PP Require Import Model.C28 Model.C31 Proofs.C28 Proofs.C31.
Open Scope Q_scope.

(* is_ccw_polygon: for EVERY polygon (any vertex list) the answer is True exactly when the
   signed (shoelace) area is positive. *)
Theorem C31_ccw_iff_area_positive :
  forall poly : list v2, is_ccw_polygon poly = true <-> 0 < area2 poly.
Proof. exact ccw_iff_area_positive. Qed.
Print Assumptions C31_ccw_iff_area_positive.

(* is_ccw_polyline: strictly left of p1->p2 (beyond tol) => True, strictly right => False,
   within the band => the caller's default. *)
Theorem C31_polyline_side :
  forall tol default p1 p2 p3, 0 <= tol ->
    (tol < cross3 p1 p2 p3 -> is_ccw_polyline tol default p1 p2 p3 = true) /\
    (cross3 p1 p2 p3 < - tol -> is_ccw_polyline tol default p1 p2 p3 = false) /\
    (Qabs (cross3 p1 p2 p3) <= tol -> is_ccw_polyline tol default p1 p2 p3 = default).
Proof. exact polyline_spec. Qed.
Print Assumptions C31_polyline_side.

(* half-space intersection: with as many normals as base points the call does not raise
   and point i is reported inside exactly when it satisfies ALL inequalities
   (p - x0_k).n_k <= 0; with different numbers of columns it raises ValueError. *)
Theorem C31_halfspace :
  (forall ns x0s pts i p,
     length ns = length x0s -> nth_error pts i = Some p ->
     match half_space_int ns x0s pts with
     | HOk bs => nth_error bs i = Some true <->
                 (forall n x0, In (n, x0) (combine ns x0s) -> dot3 (sub3 p x0) n <= 0)
     | HErr _ => False
     end) /\
  (forall ns x0s pts, length ns <> length x0s -> half_space_int ns x0s pts = HErr ValueErr).
Proof. split; [exact half_space_member|exact half_space_shape_error]. Qed.
Print Assumptions C31_halfspace.

(* points_are_collinear (after the fix): fewer than three points are collinear; a set all
   of whose points p_k (k >= 2) have (p_k - p_0) x (p_1 - p_0) = 0 is accepted for every
   tolerance; an accepted set has every such cross product within tol * max(1, diameter)
   (squared form). *)
Theorem C31_collinear :
  (forall tol pts, (length pts <= 2)%nat -> points_are_collinear tol pts = true) /\
  (forall tol p0 p1 q rest,
     let pts := p0 :: p1 :: q :: rest in
     ((forall p, In p (q :: rest) -> zero3 (crs3 (sub3 p p0) (sub3 p1 p0))) ->
      points_are_collinear tol pts = true) /\
     (points_are_collinear tol pts = true ->
      forall p, In p (q :: rest) ->
        let c := crs3 (sub3 p p0) (sub3 p1 p0) in
        dot3 c c <= tol * tol * max_sqdist pts 1)).
Proof. split; [exact collinear_few|exact collinear_spec]. Qed.
Print Assumptions C31_collinear.

(* point_in_polygon (after the fix), convex part: for ANY vertex list and any default,
   a point strictly to the left of every edge (= strictly inside a convex counter-clockwise
   polygon) is reported inside.  PARTIAL: the converse for convex polygons (outside points
   give winding number 0) and the general statement for simple non-convex polygons are not
   proved; they are covered by the finite-domain theorem below, the tie and the oracle. *)
Theorem C31_pip_convex_inside_partial :
  forall default poly p,
    poly <> [] ->
    (forall a b, In (a, b) (combine poly (roll1 poly)) -> 0 < cross3 a b p) ->
    point_in_polygon default poly p = true.
Proof. exact pip_all_left. Qed.
Print Assumptions C31_pip_convex_inside_partial.

(* point_in_polygon, non-convex polygons, finite domain: for the five fixed integer
   polygons (L, U, comb, zig-zag band, clockwise arrow) and ALL integer points with
   -2 <= x, y <= 8 the answer is the even-odd crossing-number test [pip_ref] (exact
   rational ray casting), and the caller's default exactly on the boundary. *)
Theorem C31_pip_nonconvex_boxes :
  forall poly, In poly [poly_L; poly_U; poly_comb; poly_zig; poly_arrow_cw] ->
  forall (x y : Z) (default : bool), (-2 <= x <= 8)%Z -> (-2 <= y <= 8)%Z ->
    point_in_polygon default poly (inject_Z x, inject_Z y)
    = match pip_ref poly (inject_Z x, inject_Z y) with None => default | Some b => b end.
Proof. exact pip_nonconvex_boxes. Qed.
Print Assumptions C31_pip_nonconvex_boxes.

(* sort_point_pairs, the chaining step (PARTIAL: only the inner-loop link is proved —
   the pair appended at each step is a not-yet-used input pair, possibly flipped, whose
   first entry equals the open end `prev`, and the new open end is its second entry; and
   when nothing is appended no unused pair touches `prev`.  Missing: the loop-level
   invariant that lifts this to "the output is a permutation forming one chain" and
   completeness on every single chain/cycle; both are checked by the exact oracle and the
   model is tied to the code on chains, cycles and broken inputs). *)
Theorem C31_chain_step_partial :
  (forall lines found prev j0 j l np,
     scan lines found prev j0 = Some (j, l, np) ->
     exists k a b,
       j = (j0 + k)%nat /\ nth_error lines k = Some (a, b) /\ nth_error found k = Some false /\
       (l = (a, b) \/ l = (b, a)) /\ fst l = prev /\ np = snd l) /\
  (forall lines found prev j0 k a b,
     scan lines found prev j0 = None ->
     nth_error lines k = Some (a, b) -> nth_error found k = Some false ->
     a <> prev /\ b <> prev).
Proof. split; [exact scan_spec|exact scan_none]. Qed.
Print Assumptions C31_chain_step_partial.

(* Non-vacuity. *)
Example C31_nonvacuous_ccw :
  is_ccw_polygon poly_L = true /\ area2 poly_L == 24 /\ is_ccw_polygon (rev poly_L) = false.
Proof. repeat split; vm_compute; reflexivity. Qed.

Example C31_nonvacuous_pip_left :
  let tri := [(0, 0); (4, 0); (0, 4)] in
  tri <> [] /\ (forall a b, In (a, b) (combine tri (roll1 tri)) -> 0 < cross3 a b (1, 1)) /\
  point_in_polygon false tri (1, 1) = true /\ point_in_polygon true tri (3, 3) = false.
Proof.
  cbv zeta. split; [discriminate|]. split; [|split; vm_compute; reflexivity].
  intros a b Hin. cbn in Hin.
  destruct Hin as [E | [E | [E | []]]]; injection E as <- <-; vm_compute; reflexivity.
Qed.

Example C31_nonvacuous_pip_far_edge :
  point_in_polygon false poly_L (3, 2) = true /\ pip_ref poly_L (3, 2) = Some true.
Proof. exact pip_L_far_edge. Qed.

Example C31_nonvacuous_halfspace :
  half_space_int [(0, 1, 0); (1, 0, 0)] [(0, 0, 0); (-1, 0, 0)]
                 [(-1, 2, 0); (-1, -2, 0); (4, -2, 0)] = HOk [false; true; false].
Proof. vm_compute. reflexivity. Qed.

Example C31_nonvacuous_collinear :
  points_are_collinear (1 # 100000) [(0, 0, 0); (1, 0, 0); (0, 1, 0)] = false /\
  points_are_collinear (1 # 100000) [(0, 0, 0); (1, 1, 0); (3, 3, 0); (2, 2, 0)] = true.
Proof. split; vm_compute; reflexivity. Qed.

Example C31_nonvacuous_sort :
  sort_point_pairs [(1, 2); (5, 1); (2, 7); (7, 5)]%Z true true
  = SOk [(1, 2); (2, 7); (7, 5); (5, 1)]%Z [0; 2; 3; 1]%nat /\
  scan [(1, 2); (5, 1); (2, 7); (7, 5)]%Z [true; false; false; false] 2%Z 0%nat
  = Some (2%nat, (2, 7)%Z, 7%Z).
Proof. split; vm_compute; reflexivity. Qed.
