From Coq Require Import List QArith.
Import ListNotations.
From PP Require Import Model.C28 Model.C31.
Open Scope Q_scope.
Theorem C31_placeholder : is_ccw_polygon [(0,0);(1,0);(0,1)] = true.
Proof. vm_compute. reflexivity. Qed.
Print Assumptions C31_placeholder.
