(* C02 — property theorems only.  Model: PP.Model.C02 (transcription of
   AdParser._evaluate_single / evaluate, the AdArray methods it dispatches to, the repaired
   arithmetic overloads of Operator); proofs: PP.Proofs.C02.  Numbers are canonical
   rationals (Qc), so "=" below is equality of values and Jacobians entry by entry. *)
From Coq Require Import List ZArith QArith Qcanon Bool Lia.
Import ListNotations.
From PP Require Import Model.C02 Proofs.C02 Proofs.C02_value.
Local Open Scope Qc_scope.

(* Evaluating ANY tree without reverse-operation nodes through the parser (operand flips for
   numpy-array-left add/sub with the negation, the swap for mul, the redirections to
   __rtruediv__/__rpow__/__rmatmul__, the projection-list sum) gives exactly the result -
   value, Jacobian, or the same error - of the direct forward-mode semantics, in every
   environment, with and without derivative. *)
Theorem C02_refines :
  forall (t : tree) (e : env), no_rops t = true ->
    parse t e = direct t e /\ evaluate t e = bind (direct t e) (finish e).
Proof.
  intros t e H. pose proof (refines t e H) as R. split; [exact R|].
  unfold evaluate. now rewrite R.
Qed.
Print Assumptions C02_refines.

(* Dispatch totality, PARTIAL: trees without reverse-operation nodes never reach the
   "Encountered unknown operation" branch.  Missing for the full C02_total: that trees that
   are well-kinded and shape-consistent never raise ValueError either (not proved; covered
   by the correspondence only). *)
Theorem C02_total_partial :
  forall (t : tree) (e : env), no_rops t = true -> parse t e <> Err EUnknownOp.
Proof. exact parse_nu. Qed.
Print Assumptions C02_total_partial.

(* Every expression  x <op> y  (op one of + - * / ** @; x, y Operators, python numbers,
   numpy arrays or scipy matrices, at least syntactically one Operator) built by the
   repaired overloads is a tree without reverse-operation nodes; hence it is parseable in
   the sense above and its evaluation equals the direct semantics. *)
Theorem C02_overloads_build_parseable_trees :
  forall (o : op) (x y : operand) (e : env),
    is_rop o = false -> operand_ok x = true -> operand_ok y = true ->
    no_rops (overload o x y) = true /\
    parse (overload o x y) e <> Err EUnknownOp /\
    parse (overload o x y) e = direct (overload o x y) e.
Proof.
  intros o x y e Ho Hx Hy. pose proof (overload_no_rops o x y Ho Hx Hy) as H.
  split; [exact H | split; [apply parse_nu; exact H | apply refines; exact H]].
Qed.
Print Assumptions C02_overloads_build_parseable_trees.

(* The parser still has no case for reverse-operation nodes: whatever the children evaluate
   to, such a node raises "Encountered unknown operation" ... *)
Theorem C02_reverse_nodes_rejected :
  forall (o : op) (a b : tree) (e : env) (va vb : value),
    is_rop o = true -> parse a e = Ok va -> parse b e = Ok vb ->
    parse (Bin o a b) e = Err EUnknownOp.
Proof. exact rop_node_unknown. Qed.
Print Assumptions C02_reverse_nodes_rejected.

(* ... so for the overloads BEFORE the repair the refinement is refuted:  2 * x  built the
   node  rmul [x, Scalar 2], whose direct value exists but which the parser rejects. *)
Theorem C02_reverse_nodes_refuted :
  exists (x y : operand) (e : env) (r : value),
    operand_ok x = true /\ operand_ok y = true /\
    direct (overload_old Mul x y) e = Ok r /\
    parse (overload_old Mul x y) e = Err EUnknownOp.
Proof.
  exists (ONum (Q2Qc 2)), (OTree (Leaf (LVar [0%nat; 1%nat] (-1) (-1)))),
    (mkenv [Q2Qc 3; Q2Qc 5] {| st_ts := []; st_its := []; st_src_it0 := []; st_src_ts := [] |} true),
    (VAd [Q2Qc 6; Q2Qc 10] [[Q2Qc 2; Q2Qc 0]; [Q2Qc 0; Q2Qc 2]]).
  repeat split; vm_compute; reflexivity.
Qed.
Print Assumptions C02_reverse_nodes_refuted.

(* A variable (md or atomic) at a previous time step - or, at the current time, a previous
   iterate - evaluates to the values stored at that index, taken at its dofs IN THE ORDER OF
   ITS SUB-VARIABLES (the order also used at the current state), independently of the state
   and of the derivative flag; with derivative it gets a zero Jacobian.  Added to an AdArray -
   in either operand order - a stored vector leaves the Jacobian unchanged. *)
Theorem C02_prev_no_derivative :
  (forall dofs t i e v,
      ((0 <= t)%Z /\ lookup (ts e) t = Ok v) \/
      ((t < 0)%Z /\ (0 <= i)%Z /\ lookup (its e) i = Ok v) ->
      parse (Leaf (LVar dofs t i)) e = Ok (VVec (take 0 v dofs)) /\
      evaluate (Leaf (LVar dofs t i)) e
      = if deriv e
        then Ok (VAd (take 0 v dofs) (zero_mat (length (take 0 v dofs)) (length (state e))))
        else Ok (VVec (take 0 v dofs))) /\
  (forall pos t e v, (0 <= t)%Z -> lookup (src_ts e) t = Ok v ->
      parse (Leaf (LTdda pos t)) e = Ok (VVec (take 0 v pos))) /\
  (forall x j v r, parse_node Add (VAd x j) (VVec v) = Ok r -> exists w, r = VAd w j) /\
  (forall x j v r, parse_node Add (VVec v) (VAd x j) = Ok r -> exists w, r = VAd w j).
Proof.
  split; [exact stored_leaf | split; [exact stored_tdda | split;
    [exact stored_no_derivative_add | exact stored_no_derivative_add_flipped]]].
Qed.
Print Assumptions C02_prev_no_derivative.

(* previous_timestep / previous_iteration of whole trees (transcription of
   _get_previous_time_or_iterate): shifting by a and then by b steps is shifting by a + b -
   in particular a shift applied to a tree that already contains shifted leaves moves THOSE
   leaves further back as well. *)
Theorem C02_shift_composes :
  forall (prev_time : bool) (a b : Z) (t t' t'' : tree),
    (0 < a)%Z -> (0 < b)%Z ->
    shift_tree prev_time a t = Ok t' -> shift_tree prev_time b t' = Ok t'' ->
    shift_tree prev_time (a + b) t = Ok t''.
Proof. exact shift_tree_compose. Qed.
Print Assumptions C02_shift_composes.

(* Semantics of a time shift: for every tree whose time-dependent leaves are at previous time
   steps, the tree shifted by s steps evaluates - value, Jacobian or error - to what the
   original tree evaluates to when the s most recent stored time steps are dropped, i.e. every
   such leaf reads exactly s steps further back (x^{n-1} - x^{n-2} becomes x^{n-2} - x^{n-3}). *)
Theorem C02_shift_time_semantics :
  forall (s : nat) (t t' : tree) (e : env),
    (0 < s)%nat -> all_prev_time t = true ->
    shift_tree true (Z.of_nat s) t = Ok t' ->
    parse t' e = parse t (drop_steps s e).
Proof. exact shift_time_semantics. Qed.
Print Assumptions C02_shift_time_semantics.

(* Values with and without derivative agree: for every tree without reverse-operation nodes
   and every environment, if the evaluation with derivative succeeds with result r, the
   evaluation of the SAME tree on the same state and stores without derivative succeeds
   with r stripped of its Jacobian (although the parser then flips add/sub operands wherever
   the first operand is an array, i.e. at different nodes); for the post-processed results of
   AdParser.evaluate the carried values coincide (a scalar becomes a one-entry AdArray). *)
Theorem C02_value_agrees :
  forall (t : tree) (e : env) (r : value),
    no_rops t = true -> parse t (with_deriv true e) = Ok r ->
    parse t (with_deriv false e) = Ok (strip r) /\
    (forall r1, evaluate t (with_deriv true e) = Ok r1 ->
       exists r0, evaluate t (with_deriv false e) = Ok r0 /\ val_of r0 = val_of r1).
Proof.
  intros t e r Hn H. split; [exact (value_agrees t e r Hn H)|].
  intros r1 H1. exact (evaluate_value_agrees t e r1 Hn H1).
Qed.
Print Assumptions C02_value_agrees.

(* Non-vacuity:  arr - x / 2  and  arr / x  with a numpy array on the left, on a state of two
   dofs: the parser's flipped / redirected evaluation and the direct semantics give the
   displayed value and Jacobian. *)
Example C02_nonvacuous :
  let x := Leaf (LVar [0%nat; 1%nat] (-1) (-1)) in
  let arr := OArr [Q2Qc 1; Q2Qc 4] in
  let e := mkenv [Q2Qc 2; Q2Qc (1 # 2)]
                 {| st_ts := [[Q2Qc 10; Q2Qc 20]; [Q2Qc 30; Q2Qc 50]]; st_its := [];
                    st_src_it0 := []; st_src_ts := [] |} true in
  let xp := Leaf (LVar [1%nat; 0%nat] 0 (-1)) in
  let t1 := overload Sub arr (OTree (overload Div (OTree x) (ONum (Q2Qc 2)))) in
  let t2 := overload Div arr (OTree x) in
  no_rops t1 = true /\ no_rops t2 = true /\
  res_eqb (parse t1 e) (Ok (VAd [Q2Qc 0; Q2Qc (15 # 4)]
                               [[Q2Qc (-1 # 2); Q2Qc 0]; [Q2Qc 0; Q2Qc (-1 # 2)]])) = true /\
  res_eqb (direct t1 e) (parse t1 e) = true /\
  res_eqb (parse t2 e) (Ok (VAd [Q2Qc (1 # 2); Q2Qc 8]
                               [[Q2Qc (-1 # 4); Q2Qc 0]; [Q2Qc 0; Q2Qc (-16)]])) = true /\
  res_eqb (direct t2 e) (parse t2 e) = true /\
  (* (x - x.previous_timestep()).previous_timestep(), sub-variables in permuted order *)
  shift_tree true 1 (Bin Sub x xp)
  = Ok (Bin Sub (Leaf (LVar [0%nat; 1%nat] 0 (-1))) (Leaf (LVar [1%nat; 0%nat] 1 (-1)))) /\
  res_eqb (parse (Bin Sub (Leaf (LVar [0%nat; 1%nat] 0 (-1))) (Leaf (LVar [1%nat; 0%nat] 1 (-1)))) e)
          (Ok (VVec [Q2Qc (-40); Q2Qc (-10)])) = true /\
  (* the same trees without derivative: the stripped results *)
  e = with_deriv true e /\
  res_eqb (parse t1 (with_deriv false e)) (Ok (VVec [Q2Qc 0; Q2Qc (15 # 4)])) = true /\
  res_eqb (parse t2 (with_deriv false e)) (Ok (VVec [Q2Qc (1 # 2); Q2Qc 8])) = true.
Proof. repeat split; vm_compute; reflexivity. Qed.
