(* C02 — property theorems only.  Model: PP.Model.C02 (transcription of
   AdParser._evaluate_single / evaluate, the AdArray methods it dispatches to, the repaired
   arithmetic overloads of Operator); proofs: PP.Proofs.C02.  Numbers are canonical
   rationals (Qc), so "=" below is equality of values and Jacobians entry by entry. *)
From Coq Require Import List ZArith QArith Qcanon Bool.
Import ListNotations.
From PP Require Import Model.C02 Proofs.C02.
Local Open Scope Qc_scope.

(* Evaluating ANY tree without reverse-operation nodes through the parser (operand flips for
   numpy-array-left add/sub with the negation, the swap for mul, the redirections to
   __rtruediv__/__rpow__/__rmatmul__, the projection-list sum) gives exactly the result -
   value, Jacobian, or the same error - of the direct forward-mode semantics, in every
   environment, with and without derivative. *)
Theorem C02_refines :
  forall (t : tree) (e : env), no_rops t = true ->
    parse t e = direct t e /\ evaluate t e = bind (direct t e) (finish e).
Proof.
  intros t e H. pose proof (refines t e H) as R. split; [exact R|].
  unfold evaluate. now rewrite R.
Qed.
Print Assumptions C02_refines.

(* Dispatch totality, PARTIAL: trees without reverse-operation nodes never reach the
   "Encountered unknown operation" branch.  Missing for the full C02_total: that trees that
   are well-kinded and shape-consistent never raise ValueError either (not proved; covered
   by the correspondence only). *)
Theorem C02_total_partial :
  forall (t : tree) (e : env), no_rops t = true -> parse t e <> Err EUnknownOp.
Proof. exact parse_nu. Qed.
Print Assumptions C02_total_partial.

(* Every expression  x <op> y  (op one of + - * / ** @; x, y Operators, python numbers,
   numpy arrays or scipy matrices, at least syntactically one Operator) built by the
   repaired overloads is a tree without reverse-operation nodes; hence it is parseable in
   the sense above and its evaluation equals the direct semantics. *)
Theorem C02_overloads_build_parseable_trees :
  forall (o : op) (x y : operand) (e : env),
    is_rop o = false -> operand_ok x = true -> operand_ok y = true ->
    no_rops (overload o x y) = true /\
    parse (overload o x y) e <> Err EUnknownOp /\
    parse (overload o x y) e = direct (overload o x y) e.
Proof.
  intros o x y e Ho Hx Hy. pose proof (overload_no_rops o x y Ho Hx Hy) as H.
  split; [exact H | split; [apply parse_nu; exact H | apply refines; exact H]].
Qed.
Print Assumptions C02_overloads_build_parseable_trees.

(* The parser still has no case for reverse-operation nodes: whatever the children evaluate
   to, such a node raises "Encountered unknown operation" ... *)
Theorem C02_reverse_nodes_rejected :
  forall (o : op) (a b : tree) (e : env) (va vb : value),
    is_rop o = true -> parse a e = Ok va -> parse b e = Ok vb ->
    parse (Bin o a b) e = Err EUnknownOp.
Proof. exact rop_node_unknown. Qed.
Print Assumptions C02_reverse_nodes_rejected.

(* ... so for the overloads BEFORE the repair the refinement is refuted:  2 * x  built the
   node  rmul [x, Scalar 2], whose direct value exists but which the parser rejects. *)
Theorem C02_reverse_nodes_refuted :
  exists (x y : operand) (e : env) (r : value),
    operand_ok x = true /\ operand_ok y = true /\
    direct (overload_old Mul x y) e = Ok r /\
    parse (overload_old Mul x y) e = Err EUnknownOp.
Proof.
  exists (ONum (Q2Qc 2)), (OTree (Leaf (LVar [0%nat; 1%nat]))),
    {| state := [Q2Qc 3; Q2Qc 5]; deriv := true |},
    (VAd [Q2Qc 6; Q2Qc 10] [[Q2Qc 2; Q2Qc 0]; [Q2Qc 0; Q2Qc 2]]).
  repeat split; vm_compute; reflexivity.
Qed.
Print Assumptions C02_reverse_nodes_refuted.

(* Leaves at a previous time step / iterate (and time-dependent arrays) evaluate to the stored
   values; evaluated with derivative they get a zero Jacobian; added to an AdArray - in
   either operand order - they leave its Jacobian unchanged. *)
Theorem C02_prev_no_derivative :
  (forall (v st : vec) (d : bool),
      parse (Leaf (LStored v)) {| state := st; deriv := d |} = Ok (VVec v) /\
      evaluate (Leaf (LStored v)) {| state := st; deriv := true |}
      = Ok (VAd v (zero_mat (length v) (length st))) /\
      evaluate (Leaf (LStored v)) {| state := st; deriv := false |} = Ok (VVec v)) /\
  (forall x j v r, parse_node Add (VAd x j) (VVec v) = Ok r -> exists w, r = VAd w j) /\
  (forall x j v r, parse_node Add (VVec v) (VAd x j) = Ok r -> exists w, r = VAd w j).
Proof.
  split; [exact stored_leaf | split;
    [exact stored_no_derivative_add | exact stored_no_derivative_add_flipped]].
Qed.
Print Assumptions C02_prev_no_derivative.

(* Non-vacuity:  arr - x / 2  and  arr / x  with a numpy array on the left, on a state of two
   dofs: the parser's flipped / redirected evaluation and the direct semantics give the
   displayed value and Jacobian. *)
Example C02_nonvacuous :
  let x := Leaf (LVar [0%nat; 1%nat]) in
  let arr := OArr [Q2Qc 1; Q2Qc 4] in
  let e := {| state := [Q2Qc 2; Q2Qc (1 # 2)]; deriv := true |} in
  let t1 := overload Sub arr (OTree (overload Div (OTree x) (ONum (Q2Qc 2)))) in
  let t2 := overload Div arr (OTree x) in
  no_rops t1 = true /\ no_rops t2 = true /\
  res_eqb (parse t1 e) (Ok (VAd [Q2Qc 0; Q2Qc (15 # 4)]
                               [[Q2Qc (-1 # 2); Q2Qc 0]; [Q2Qc 0; Q2Qc (-1 # 2)]])) = true /\
  res_eqb (direct t1 e) (parse t1 e) = true /\
  res_eqb (parse t2 e) (Ok (VAd [Q2Qc (1 # 2); Q2Qc 8]
                               [[Q2Qc (-1 # 4); Q2Qc 0]; [Q2Qc 0; Q2Qc (-16)]])) = true /\
  res_eqb (direct t2 e) (parse t2 e) = true.
Proof. repeat split; vm_compute; reflexivity. Qed.
