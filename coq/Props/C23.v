(* C23 — property theorems only.  Model: PP.Model.C23 (transcription of refine_grid_1d,
   remesh_1d, refine_triangle_grid, structured_refinement (1-D) of
   porepy/grids/refinement.py and of the guard / node layers / cell maps of
   porepy/grids/grid_extrusion.py:extrude_grid); proofs: PP.Proofs.C23. *)
From Coq Require Import List ZArith QArith Qabs Arith Lia.
Import ListNotations.
From PP Require Import Model.C23 Proofs.C23 Proofs.C23_refine1d Proofs.C23_signs.
Close Scope Q_scope.

(* refine_grid_1d, one cell.  For every ratio r >= 1 and every cell (a, b) in 3-space the r
   children tile the cell: the first starts at a, the last ends at b, consecutive
   children share their end point, every child vector is exactly (b - a)/r (so the
   lengths add up to the parent's), and every child end point is a convex combination
   of a and b (children lie inside the parent). *)
Theorem C23_refine_1d_children :
  forall (r : nat) (a b : v3),
  1 <= r ->
  length (children r a b) = r /\
  veq (fst (nth 0 (children r a b) (vzero, vzero))) a /\
  veq (snd (nth (r - 1) (children r a b) (vzero, vzero))) b /\
  (forall i, S i < r ->
     snd (nth i (children r a b) (vzero, vzero)) = fst (nth (S i) (children r a b) (vzero, vzero))) /\
  (forall i, i < r ->
     let ch := nth i (children r a b) (vzero, vzero) in
     veq (vsub (snd ch) (fst ch)) (vscale (1 / inject_Z (Z.of_nat r))%Q (vsub b a))) /\
  (forall i, i < r ->
     let ch := nth i (children r a b) (vzero, vzero) in
     between a b (fst ch) /\ between a b (snd ch)).
Proof. exact refine_1d_children. Qed.
Print Assumptions C23_refine_1d_children.

(* refine_grid_1d, the whole function (node bookkeeping included: old nodes are added at
   their first occurrence and looked up in old_2_new_nodes afterwards, interior nodes are
   appended cell by cell).  For every node array, every list of cells (any node
   numbering, shared nodes or not) and every ratio r >= 1: decoding the returned
   cell-face indices against the returned node array gives, cell by cell and in order,
   exactly the children of the old cells (coordinates equal in Q); all indices are valid
   and there are two per new cell. *)
Theorem C23_refine_1d_grid :
  forall (nodes : list v3) (cells : list (nat * nat)) (r : nat),
  1 <= r ->
  let '(x, ind, sg) := refine_grid_1d nodes cells r in
  Forall2 peq (cell_ends x ind) (refine_spec nodes cells r) /\
  Forall (fun j => j < length x) ind /\
  length ind = 2 * (length cells * r).
Proof. exact refine_grid_1d_cells. Qed.
Print Assumptions C23_refine_1d_grid.

(* refine_grid_1d, sign array (cell_faces.data): one sign per index, +1 exactly at the first
   occurrence of a face (= node) index in the index array and -1 at every later one; so a
   face shared by two consecutive cells is +1 for the first and -1 for the second. *)
Theorem C23_refine_1d_signs :
  forall (nodes : list v3) (cells : list (nat * nat)) (r : nat),
  let '(x, ind, sg) := refine_grid_1d nodes cells r in
  length sg = length ind /\
  (forall i, i < length ind ->
     (nth i sg 0%Z = 1%Z /\ ~ In (nth i ind 0) (firstn i ind)) \/
     (nth i sg 0%Z = (-1)%Z /\ In (nth i ind 0) (firstn i ind))).
Proof. exact refine_1d_signs. Qed.
Print Assumptions C23_refine_1d_signs.

(* refine_grid_1d, cell map: the refined grid lists the children cell by cell; new cell
   k*r + i is child i of old cell k, and j -> j / r is a total map onto the old cells. *)
Theorem C23_refine_1d_cell_map :
  forall (nodes : list v3) (cells : list (nat * nat)) (r : nat),
  1 <= r ->
  length (refine_spec nodes cells r) = length cells * r /\
  (forall k i, k < length cells -> i < r ->
     nth (k * r + i) (refine_spec nodes cells r) (vzero, vzero)
     = nth i (children r (nth (fst (nth k cells (0, 0))) nodes vzero)
                         (nth (snd (nth k cells (0, 0))) nodes vzero)) (vzero, vzero) /\
     parent_1d r (k * r + i) = k) /\
  (forall j, j < length cells * r -> parent_1d r j < length cells).
Proof. exact refine_1d_cells. Qed.
Print Assumptions C23_refine_1d_cell_map.

(* remesh_1d: for every m >= 2 the m new nodes span exactly the old domain (from one
   boundary node to the other), are equally spaced (every cell vector is 1/(m-1) of the
   domain vector, so the total length is preserved) and lie inside the old domain. *)
Theorem C23_remesh_1d :
  forall (start en : v3) (m : nat),
  2 <= m ->
  length (remesh_nodes start en m) = m /\
  veq (nth 0 (remesh_nodes start en m) vzero) en /\
  veq (nth (m - 1) (remesh_nodes start en m) vzero) start /\
  (forall i, S i < m ->
     veq (vsub (nth (S i) (remesh_nodes start en m) vzero) (nth i (remesh_nodes start en m) vzero))
         (vscale (1 / inject_Z (Z.of_nat (m - 1)))%Q (vsub start en))) /\
  (forall i, i < m -> between en start (nth i (remesh_nodes start en m) vzero)).
Proof. exact remesh_1d_nodes. Qed.
Print Assumptions C23_remesh_1d.

(* refine_triangle_grid, one cell.  For ANY node numbering, any order of the three faces in
   the cell and any orientation of the faces: if the cell's faces join a-b, b-c, c-a for
   three distinct nodes, each of its four children has exactly a quarter of the parent's
   signed area (so the areas add up to the parent's and orientation is kept) and all
   its corners are vertices or edge midpoints of the parent (children lie inside it). *)
Theorem C23_refine_triangle_cell :
  forall (nodes : list v3) (fn : list (nat * nat)) (f0 f1 f2 a b c : nat),
  a <> b -> b <> c -> a <> c ->
  a < length nodes -> b < length nodes -> c < length nodes ->
  f0 < length fn -> f1 < length fn -> f2 < length fn ->
  joins (nth f0 fn (0, 0)) a b -> joins (nth f1 fn (0, 0)) b c -> joins (nth f2 fn (0, 0)) c a ->
  let x := nodes ++ centres nodes fn in
  let A := nth a nodes vzero in let B := nth b nodes vzero in let C := nth c nodes vzero in
  let ch := refine_tri_cell fn (length nodes) (f0, f1, f2) in
  length ch = 4 /\ Forall (fun t => quarter A B C (tri_pts x t)) ch.
Proof. exact refine_triangle_cell. Qed.
Print Assumptions C23_refine_triangle_cell.

(* refine_triangle_grid, global structure: new nodes = old nodes followed by the face
   centres; the children of cell k are the new cells 4k..4k+3; the returned parent map is
   j -> j / 4, a total map onto the old cells. *)
Theorem C23_refine_triangle_cell_map :
  forall (nodes : list v3) (fn : list (nat * nat)) (cf : list tri),
  let '(x, tris, parent) := refine_triangle_grid nodes fn cf in
  x = nodes ++ centres nodes fn /\
  length tris = length cf * 4 /\ length parent = length cf * 4 /\
  (forall k i, k < length cf -> i < 4 ->
     nth (k * 4 + i) tris (0, 0, 0) = nth i (refine_tri_cell fn (length nodes) (nth k cf (0, 0, 0))) (0, 0, 0) /\
     nth (k * 4 + i) parent 0 = k) /\
  (forall j, j < length cf * 4 -> nth j parent 0 = j / 4 /\ j / 4 < length cf).
Proof. exact refine_triangle_structure. Qed.
Print Assumptions C23_refine_triangle_cell_map.

(* structured_refinement (1-D): the returned mapping has one column per coarse cell; fine
   cell j is in column k exactly when k is the first coarse cell with lo < centre_j <= hi,
   so every fine cell is in exactly one column (for a refinement by splitting: the unique
   coarse cell containing it); the AssertionError is raised exactly when there are not
   more fine than coarse cells or some fine centre lies in no coarse cell. *)
Theorem C23_structured_refinement_1d :
  forall (coarse : list (Q * Q)) (centres : list Q),
  (forall cols, structured_refinement_1d coarse centres = Ok cols ->
     length cols = length coarse /\
     (forall k j, k < length coarse ->
        (In j (nth k cols []) <-> j < length centres /\ first_inside coarse k (nth j centres 0%Q))) /\
     (forall j, j < length centres -> exists k, k < length coarse /\ In j (nth k cols []) /\
        forall k', k' < length coarse -> In j (nth k' cols []) -> k' = k)) /\
  (structured_refinement_1d coarse centres = Err AssertErr <->
     length centres <= length coarse \/
     exists j, j < length centres /\
       forall k, k < length coarse -> inside1 (nth k coarse (0, 0)%Q) (nth j centres 0%Q) = false) /\
  (forall e, structured_refinement_1d coarse centres = Err e -> e = AssertErr).
Proof. exact structured_refinement_1d_spec. Qed.
Print Assumptions C23_structured_refinement_1d.

(* extrude_grid, cell map: with nc old cells and any number of layers every new cell
   j < nc*layers occurs in exactly one row of the cell map: row j mod nc, position j / nc. *)
Theorem C23_extrude_cell_map :
  forall (nc layers : nat),
  length (cell_map nc layers) = nc /\
  (forall c, c < nc -> length (nth c (cell_map nc layers) []) = layers) /\
  (forall c k, c < nc -> k < layers ->
     nth k (nth c (cell_map nc layers) []) 0 = c + k * nc /\ c + k * nc < nc * layers) /\
  (forall j, j < nc * layers ->
     j mod nc < nc /\ j / nc < layers /\
     nth (j / nc) (nth (j mod nc) (cell_map nc layers) []) 0 = j /\
     forall c k, c < nc -> k < layers -> c + k * nc = j -> c = j mod nc /\ k = j / nc).
Proof. exact extrude_cell_map. Qed.
Print Assumptions C23_extrude_cell_map.

(* extrude_grid, measure: for monotone layer coordinates the children of a cell of
   measure v (one per layer, measure v*|z[k+1]-z[k]|) add up to v times the extrusion
   height.
   _partial: that compute_geometry assigns measure v*|dz| to a prism cell is checked per
   generated case in the tie ([agree_extrude]), not proved (geometry is C19). *)
Theorem C23_extrude_measure_partial :
  forall (v : Q) (z : list Q),
  increasing z \/ decreasing z ->
  (sumQ (map (Qmult v) (layer_heights z)) == v * Qabs (last z 0 - hd 0 z))%Q /\
  length (layer_heights z) = length z - 1.
Proof. exact extrude_measure. Qed.
Print Assumptions C23_extrude_measure_partial.

(* extrude_grid, guard and nodes: accepted exactly when all z >= 0 or all z <= 0 (else
   ValueError); the new nodes are the old nodes repeated layer by layer, node i of layer k
   keeps its x, y and gets z[k] (children lie in the prism over their parent). *)
Theorem C23_extrude_nodes :
  forall (nodes : list v3) (nc : nat) (z : list Q),
  ((Forall (fun x => 0 <= x)%Q z \/ Forall (fun x => x <= 0)%Q z) ->
     extrude_grid nodes nc z = Ok (extrude_nodes nodes z, cell_map nc (length z - 1))) /\
  (~ (Forall (fun x => 0 <= x)%Q z \/ Forall (fun x => x <= 0)%Q z) ->
     extrude_grid nodes nc z = Err ValueErr) /\
  length (extrude_nodes nodes z) = length z * length nodes /\
  (forall k i, k < length z -> i < length nodes ->
     nth (k * length nodes + i) (extrude_nodes nodes z) vzero
     = (fst (fst (nth i nodes vzero)), snd (fst (nth i nodes vzero)), nth k z 0%Q)).
Proof. exact extrude_guard_and_nodes. Qed.
Print Assumptions C23_extrude_nodes.

(* ---------------------------------------------------------------------------------- *)
(* Non-vacuity *)
Example C23_refine_1d_nonvacuous :
  forallb2 (fun p q => veqb (fst p) (fst q) && veqb (snd p) (snd q))%bool
           (children 2 (0, 0, 0)%Q (1, 2, 0)%Q)
           [((0, 0, 0), ((1#2), 1, 0)); (((1#2), 1, 0), (1, 2, 0))]%Q = true /\
  (let '(x, ind, sg) := refine_grid_1d [(0, 0, 0); (1, 0, 0); (3, 0, 0)]%Q [(0, 1); (1, 2)] 2 in
   ind = [0; 1; 1; 2; 2; 3; 3; 4] /\ sg = [1; 1; -1; 1; -1; 1; -1; 1]%Z /\ length x = 5).
Proof. split; vm_compute; repeat split; reflexivity. Qed.

(* the grid that exposed the two defects: StructuredTriangleGrid([2,1]) cell 0 has nodes
   0, 1, 4 and faces 0 (0-1), 4 (1-4), 1 (0-4): its children have a quarter of its area *)
Example C23_refine_triangle_nonvacuous :
  let nodes := [(0,0,0); (1,0,0); (2,0,0); (0,1,0); (1,1,0); (2,1,0)]%Q in
  let fn := [(0,1); (0,4); (0,3); (1,2); (1,4); (1,5); (2,5); (3,4); (4,5)] in
  joins (nth 0 fn (0,0)) 0 1 /\ joins (nth 4 fn (0,0)) 1 4 /\ joins (nth 1 fn (0,0)) 4 0 /\
  refine_tri_cell fn 6 (0, 4, 1) = [(1, 10, 6); (4, 7, 10); (0, 6, 7); (6, 10, 7)] /\
  (area2 (nth 0 nodes vzero) (nth 1 nodes vzero) (nth 4 nodes vzero) == 1)%Q.
Proof.
  cbn zeta. split; [left; reflexivity|]. split; [left; reflexivity|]. split; [right; reflexivity|].
  split; vm_compute; reflexivity.
Qed.

Example C23_structured_extrude_nonvacuous :
  structured_refinement_1d [(0, 1); (1, 2)]%Q [(1#4); (3#4); (5#4); (7#4)]%Q = Ok [[0; 1]; [2; 3]] /\
  structured_refinement_1d [(0, 1); (1, 2)]%Q [(1#4); (3#4); (9#4)]%Q = Err AssertErr /\
  cell_map 3 2 = [[0; 3]; [1; 4]; [2; 5]] /\
  increasing [0; (1#2); 2]%Q /\ layer_heights [0; (1#2); 2]%Q = [Qabs ((1#2) - 0); Qabs (2 - (1#2))]%Q /\
  extrude_grid [(0,0,0)]%Q 1 [(-1); 1]%Q = Err ValueErr.
Proof.
  repeat split; try (vm_compute; reflexivity); cbn; discriminate.
Qed.
