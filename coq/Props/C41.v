(* C41 — property theorems only.  Model: PP.Model.C41 (transcription of InterpolationTable and
   AdaptiveInterpolationTable of porepy/utils/interpolation_tables.py, after the fix commit that
   assigns points of the upper box face to the last cell); proofs: PP.Proofs.C41.
   Arithmetic is exact (Q, equality ==); [box low high npt x] says: the four lists have the same
   length d (any d), and on every axis low < high, npt >= 2, low <= x <= high (CLOSED box).
   [sep_affine f]: f is affine in each variable separately (= multilinear in the sense of the
   property: sums of products of distinct variables; [mlin_multilinear] below). *)
From Coq Require Import List ZArith QArith.
Import ListNotations.
From PP Require Import Model.C41 Proofs.C41.
Open Scope Q_scope.

(* The table reproduces every multilinear function exactly everywhere in the closed box, in any
   dimension, for any resolution; the call does not raise. *)
Theorem C41_multilinear_exact :
  forall (f : list Q -> Q) (low high : list Q) (npt : list Z) (x : list Q),
    sep_affine f -> box low high npt x ->
    exists r, interpolate (mk_table low high npt f) x = inr r /\ r == f x.
Proof. exact interpolate_exact. Qed.
Print Assumptions C41_multilinear_exact.

(* Same for a batch of points (the vectorised call). *)
Theorem C41_multilinear_exact_batch :
  forall (f : list Q -> Q) (low high : list Q) (npt : list Z) (pts : list (list Q)),
    sep_affine f -> (forall x, In x pts -> box low high npt x) ->
    exists rs, interpolate_batch (mk_table low high npt f) pts = inr rs /\
               Forall2 (fun x r => r == f x) pts rs.
Proof. exact interpolate_batch_exact. Qed.
Print Assumptions C41_multilinear_exact_batch.

(* The gradient along any axis is exact for every multilinear function everywhere in the closed
   box: it equals the difference quotient of f along that axis between ANY two abscissae a <> c
   (for a function affine in x_axis that quotient is the partial derivative). *)
Theorem C41_gradient_multilinear_exact :
  forall (f : list Q -> Q) (low high : list Q) (npt : list Z) (x : list Q) (axis : nat),
    sep_affine f -> box low high npt x -> (axis < length x)%nat ->
    exists g, gradient (mk_table low high npt f) x axis = inr g /\
      forall a c, ~ a == c -> g == (f (set_nth axis c x) - f (set_nth axis a x)) / (c - a).
Proof. exact gradient_exact. Qed.
Print Assumptions C41_gradient_multilinear_exact.

(* The property's wording: the gradient of a linear function c0 + sum c_i x_i is c_axis. *)
Theorem C41_gradient_linear_exact :
  forall (c0 : Q) (cs : list Q) (low high : list Q) (npt : list Z) (x : list Q) (axis : nat),
    box low high npt x -> length cs = length x -> (axis < length x)%nat ->
    exists g, gradient (mk_table low high npt (affine c0 cs)) x axis = inr g /\ g == nth axis cs 0.
Proof. exact gradient_affine. Qed.
Print Assumptions C41_gradient_linear_exact.

(* The adaptive table (same grid: dx = (high-low)/(npt-1), base point low) returns the same
   interpolated value as the standard table at every point of the closed box, for EVERY function
   f (respecting ==) and after EVERY history qs of earlier adaptive queries (any points, any mix
   of interpolate/gradient calls: the store is filled lazily). *)
Theorem C41_adaptive_agrees :
  forall (f : list Q -> Q) (low high : list Q) (npt : list Z) (x : list Q)
         (qs : list (list Q * option nat)),
    respects f -> box low high npt x ->
    exists r r', interpolate (mk_table low high npt f) x = inr r /\
      fst (ainterpolate f (snd (arun f (mk_atable low high npt) qs)) x) = inr r' /\ r == r'.
Proof. exact adaptive_interp_agrees. Qed.
Print Assumptions C41_adaptive_agrees.

(* Gradients agree for every function at every point of the box that is not on the upper face
   of the differentiated axis (there the adaptive table differentiates over the next cell,
   outside the box, which only coincides for functions affine along that axis, see below). *)
Theorem C41_adaptive_gradient_agrees :
  forall (f : list Q -> Q) (low high : list Q) (npt : list Z) (x : list Q)
         (qs : list (list Q * option nat)) (axis : nat) (xa hi : Q),
    respects f -> box low high npt x ->
    nth_error x axis = Some xa -> nth_error high axis = Some hi -> xa < hi ->
    exists g g', gradient (mk_table low high npt f) x axis = inr g /\
      fst (agradient f (snd (arun f (mk_atable low high npt) qs)) x axis) = inr g' /\ g == g'.
Proof. exact adaptive_grad_agrees. Qed.
Print Assumptions C41_adaptive_gradient_agrees.

(* For multilinear functions the adaptive gradient is exact on the whole closed box (so it equals
   the standard one, C41_gradient_multilinear_exact, also on the upper faces). *)
Theorem C41_adaptive_gradient_multilinear_exact :
  forall (f : list Q -> Q) (low high : list Q) (npt : list Z) (x : list Q)
         (qs : list (list Q * option nat)) (axis : nat),
    sep_affine f -> box low high npt x -> (axis < length x)%nat ->
    exists g', fst (agradient f (snd (arun f (mk_atable low high npt) qs)) x axis) = inr g' /\
      forall a c, ~ a == c -> g' == (f (set_nth axis c x) - f (set_nth axis a x)) / (c - a).
Proof. exact adaptive_grad_exact. Qed.
Print Assumptions C41_adaptive_gradient_multilinear_exact.

(* Error branch: a point outside the box on some axis makes both calls raise ValueError. *)
Theorem C41_outside_raises :
  forall (f : list Q -> Q) (low high : list Q) (npt : list Z) (x : list Q) (axis : nat),
    outside low high npt x ->
    interpolate (mk_table low high npt f) x = inl ValueErr /\
    gradient (mk_table low high npt f) x axis = inl ValueErr.
Proof. exact outside_value_error. Qed.
Print Assumptions C41_outside_raises.

(* The functions used by the tie (coefficient tables of length 2^d) and the linear functions are
   multilinear in the sense of the hypotheses above, in every dimension. *)
Theorem C41_mlin_multilinear : forall (d : nat) (cs : list Q), sep_affine (mlin d cs).
Proof. exact mlin_sep. Qed.
Print Assumptions C41_mlin_multilinear.

Theorem C41_affine_multilinear : forall (c0 : Q) (cs : list Q), sep_affine (affine c0 cs).
Proof. exact affine_sep. Qed.
Print Assumptions C41_affine_multilinear.

(* Non-vacuity: the witness of the defect fixed in /repo (f = 2x + 3y + 1 on [0,1]^2, npt = 3,
   points on the upper faces) satisfies the hypotheses, and the model computes the exact values
   there; the adaptive table after a history agrees. *)
Example C41_nonvacuous :
  let f := mlin 2 [1; 3; 2; 0] in
  box [0; 0] [1; 1] [3; 3]%Z [1; 3 # 10] /\ box [0; 0] [1; 1] [3; 3]%Z [3 # 10; 1] /\
  sep_affine f /\
  (forall x y, f [x; y] == 2 * x + 3 * y + 1) /\
  match interpolate (mk_table [0; 0] [1; 1] [3; 3]%Z f) [1; 3 # 10],
        gradient (mk_table [0; 0] [1; 1] [3; 3]%Z f) [1; 3 # 10] 0,
        gradient (mk_table [0; 0] [1; 1] [3; 3]%Z f) [3 # 10; 1] 1,
        fst (agradient f (snd (arun f (mk_atable [0; 0] [1; 1] [3; 3]%Z)
                                   [([1 # 2; 1 # 2], None); ([1; 1], Some 0%nat)])) [1; 1] 1) with
  | inr v, inr g0, inr g1, inr ga => v == 39 # 10 /\ g0 == 2 /\ g1 == 3 /\ ga == 3
  | _, _, _, _ => False
  end.
Proof.
  cbn zeta. split; [|split; [|split; [|split]]].
  - repeat constructor; discriminate.
  - repeat constructor; discriminate.
  - apply mlin_sep.
  - intros x y. cbn. ring.
  - vm_compute. repeat split.
Qed.
