(* C38 — property theorems only.  Model: PP.Model.C38 (transcription of the exporter's
   cell-id bookkeeping, _write, import_state_from_vtu as repaired, the restart step of
   import_from_pvd as repaired, write/load_time_information,
   set_time_and_dt_from_exported_steps); proofs: PP.Proofs.C38.
   A grid is the list of its cells' types; [total grids] is the number of cells of all
   grids of the dimension. *)
From Coq Require Import List ZArith Bool Arith Lia Permutation Sorted.
Import ListNotations.
From PP Require Import Model.C38 Proofs.C38.

(* For ANY assignment of cell types to cells and ANY number / order of grids: the per-type
   cell-id lists, concatenated in block order, are a permutation of 0..N-1. *)
Theorem C38_cell_ids_permutation :
  forall grids : list (list Z),
    Permutation (concat (cell_ids grids)) (seq 0 (total grids)).
Proof. exact cell_ids_perm. Qed.
Print Assumptions C38_cell_ids_permutation.

(* Export then import of one field on one dimension returns every entity's array exactly:
   any value type (scalars, vector tuples), any grids, any split of the N cells among the
   entities (subdomains, or interfaces whose side grids are the grids), any content of the
   uninitialised buffer the importer scatters into. *)
Theorem C38_roundtrip :
  forall (A : Type) (d : A) (garbage : list A) (grids : list (list Z))
         (per_entity : list (list A)),
    length (concat per_entity) = total grids ->
    length garbage = total grids ->
    roundtrip A d garbage grids per_entity = per_entity.
Proof. exact roundtrip_id. Qed.
Print Assumptions C38_roundtrip.

(* 3-D grids exported as polyhedral blocks (as repaired in /repo d6f81ecfd): the blocks are
   written in non-decreasing order of the nodes per cell (what meshio's reader assumes), the
   ids are still a permutation, and the round trip is the identity. *)
Theorem C38_poly3d_blocks_sorted :
  forall grids : list (list Z),
    StronglySorted Z.le (map fst (sort_blocks (cell_blocks [] grids 0))) /\
    Permutation (concat (cell_ids_3d grids)) (seq 0 (total grids)).
Proof. exact poly3d_sorted_perm. Qed.
Print Assumptions C38_poly3d_blocks_sorted.

Theorem C38_roundtrip_poly3d :
  forall (A : Type) (d : A) (garbage : list A) (grids : list (list Z))
         (per_entity : list (list A)),
    length (concat per_entity) = total grids ->
    length garbage = total grids ->
    roundtrip_3d A d garbage grids per_entity = per_entity.
Proof. exact roundtrip_3d_id. Qed.
Print Assumptions C38_roundtrip_poly3d.

(* The restart entry read from a pvd file is the one with the numerically largest timestep
   attribute (whatever was passed as write_pvd(times=...): physical times; by default the
   step indices), the files imported are exactly the files LISTED with that timestep, and
   the time index returned is the largest numeric suffix among them. *)
Theorem C38_pvd_latest :
  forall (F : Type) (suffix : F -> Z) (entries : list (Z * F)),
    entries <> [] ->
    exists m,
      restart_files suffix entries
      = Some (max_suffix suffix (map snd (filter (fun e => Z.eqb (fst e) m) entries)),
              map snd (filter (fun e => Z.eqb (fst e) m) entries)) /\
      In m (map fst entries) /\ Forall (fun e => (fst e <= m)%Z) entries.
Proof. exact @restart_latest. Qed.
Print Assumptions C38_pvd_latest.

(* Whenever the most recent export was written at a time larger than all earlier ones, the
   files imported are exactly the files of that most recent export and the index returned
   is its time-step index (the files' suffix) — for ANY times (non-integer, larger than the
   number of steps, equal to another step's index). *)
Theorem C38_pvd_most_recent :
  forall (F : Type) (suffix : F -> Z) (older : list (Z * F)) (t : Z) (f : F) (last : list F),
    Forall (fun e => (fst e < t)%Z) older ->
    restart_files suffix (older ++ map (fun g => (t, g)) (f :: last))
    = Some (max_suffix suffix (f :: last), f :: last).
Proof. exact @restart_most_recent. Qed.
Print Assumptions C38_pvd_most_recent.

(* ... and when these files all carry the time-step index k, the index returned is k. *)
Theorem C38_pvd_index :
  forall (F : Type) (suffix : F -> Z) (k : Z) (f : F) (r : list F),
    suffix f = k -> Forall (fun g => suffix g = k) r -> max_suffix suffix (f :: r) = k.
Proof. exact @max_suffix_same. Qed.
Print Assumptions C38_pvd_index.

(* Time information: after ANY non-empty sequence of (time, dt) writes by a time manager
   with an empty history, the file on disk loaded by any other time manager gives back the
   whole history (json.dump / json.load enter as print / parse with parse (print v) = v). *)
Theorem C38_time_roundtrip :
  forall (V T : Type) (print : V -> T) (parse : T -> V),
    (forall v, parse (print v) = v) ->
    forall (steps : list (V * V)) (s0 s1 : tm V),
      steps <> [] -> exported_times s0 = [] -> exported_dt s0 = [] ->
      exists file,
        snd (run_writes V T print s0 steps) = Some file /\
        exported_times (load_time V T parse s1 file) = map fst steps /\
        exported_dt (load_time V T parse s1 file) = map snd steps.
Proof. exact time_roundtrip. Qed.
Print Assumptions C38_time_roundtrip.

(* Restoring at index i (python indexing, -1 = the most recent entry): time and dt are the
   i-th exported pair, the histories are cut before it. *)
Theorem C38_time_restore :
  forall (V : Type) (v0 : V) (s : tm V) (i : Z),
    length (exported_times s) = length (exported_dt s) ->
    (- Z.of_nat (length (exported_times s)) <= i < Z.of_nat (length (exported_times s)))%Z ->
    let k := if (0 <=? i)%Z then Z.to_nat i
             else Z.to_nat (Z.of_nat (length (exported_times s)) + i) in
    exists s',
      set_from_exported V v0 s i = Some s' /\
      time s' = nth k (exported_times s) v0 /\ dt s' = nth k (exported_dt s) v0 /\
      exported_times s' = firstn k (exported_times s) /\
      exported_dt s' = firstn k (exported_dt s).
Proof. exact time_restore. Qed.
Print Assumptions C38_time_restore.

(* ---- non-vacuity and the regression witness ------------------------------------------ *)
(* three 2-D subdomains with triangle, quad, triangle cells (the witness of the defect
   repaired in /repo 7fbb4e335): cell ids, the round trip, and what the importer returned
   before the repair (the data of the 2nd and 3rd grid swapped). *)
Example C38_nonvacuous :
  let grids := [[3; 3]; [4; 4]; [3; 3]]%Z in
  let data := [[10; 11]; [20; 21]; [30; 31]]%Z in
  cell_ids grids = [[0; 1; 4; 5]; [2; 3]] /\
  length (concat data) = total grids /\
  roundtrip Z 0%Z (repeat 7%Z 6) grids data = data /\
  import_blocks_unrepaired Z (map (@length Z) data)
    (export_blocks Z 0%Z (cell_ids grids) (concat data)) = [[10; 11]; [30; 31]; [20; 21]]%Z.
Proof. repeat split; vm_compute; reflexivity. Qed.

(* one grid mixing a triangle between two quads and a pentagon *)
Example C38_nonvacuous_mixed_grid :
  cell_ids [[4; 3; 5; 4]; [3]]%Z = [[1; 4]; [0; 3]; [2]] /\
  (* hex, tet, hex in 3-D: first-seen order would be (8-node, 4-node) *)
  cell_ids_3d [[8; 8]; [4; 4; 4]; [8]]%Z = [[2; 3; 4]; [0; 1; 5]] /\
  restart_files (fun f : Z => f) [(8, 8); (9, 9); (10, 10); (10, 10)]%Z = Some (10, [10; 10])%Z /\
  (* steps 0..3 written at times 0, 0.5, 1.0, 1.5 (unit 1/2): the files of step 3, index 3 *)
  restart_files (fun f : Z => f) [(0, 0); (1, 1); (2, 2); (3, 3)]%Z = Some (3, [3])%Z.
Proof. repeat split; vm_compute; reflexivity. Qed.
