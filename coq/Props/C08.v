(* C08 — property theorems only.  Model: PP.Model.C08 (transcription of
   set/get/shift_solution_values); proofs: PP.Proofs.C08. *)
From Coq Require Import List ZArith Arith Lia.
Import ListNotations.
From PP Require Import Model.C08 Proofs.C08.

(* For every value type, every depth d >= 1 and EVERY history of overwrites / additive
   writes at index 0, reads at any index and shifts with maximum depth d, starting from
   an empty data dictionary: index i < d holds the i-th entry of the history view
   (current value, then the value index 0 held at each earlier shift, most recent
   first), indices >= d hold nothing, and every call answers as the window says
   (reads return the stored value or KeyError, an additive write to an empty slot is
   rejected with ValueError, nothing else raises). *)
Theorem C08_window :
  forall (V : Type) (vadd : V -> V -> V) (d : nat) (ops : list (@op V)) (s0 : @st V),
    1 <= d -> Forall (disciplined V d) ops ->
    (s0 = None \/ s0 = Some []) ->   (* fresh data dictionary, or the empty per-name
                                        dictionary that create_variables pre-creates *)
    let h := hrun V vadd [] ops in
    (forall i, i < d ->
       match fst (run vadd s0 ops) with
       | None => h = []
       | Some dct => lookup dct i = nth_error h i
       end) /\
    (forall i, d <= i ->
       match fst (run vadd s0 ops) with
       | None => True | Some dct => lookup dct i = None end) /\
    snd (run vadd s0 ops) = houts V vadd d [] ops.
Proof. exact window_theorem. Qed.
Print Assumptions C08_window.

(* Reads never modify the store (any state, any index). *)
Theorem C08_reads_pure :
  forall (V : Type) (vadd : V -> V -> V) (s : @st V) (i : Z), fst (step vadd s (OpGet i)) = s.
Proof. exact get_pure. Qed.
Print Assumptions C08_reads_pure.

(* Additive writes to an empty slot are rejected and leave every stored value as it was
   (any state, any index). *)
Theorem C08_add_empty_rejected :
  forall (V : Type) (vadd : V -> V -> V) (s : @st V) (i : Z) (v : V),
    (0 <= i)%Z ->
    (match s with None => True | Some d => lookup d (Z.to_nat i) = None end) ->
    snd (step vadd s (OpAdd i v)) = OErr ValueErr /\
    forall j, (match fst (step vadd s (OpAdd i v)) with
               | Some d' => lookup d' j | None => None end)
              = (match s with Some d => lookup d j | None => None end).
Proof. exact add_empty_rejected. Qed.
Print Assumptions C08_add_empty_rejected.

(* An overwrite at any index changes exactly that index (any state). *)
Theorem C08_set_is_map_update :
  forall (V : Type) (vadd : V -> V -> V) (s : @st V) (i : Z) (v : V) (j : nat),
    (0 <= i)%Z ->
    match fst (step vadd s (OpSet i v)) with
    | Some d' => lookup d' j = if Nat.eqb (Z.to_nat i) j then Some v
                               else match s with Some d => lookup d j | None => None end
    | None => False
    end.
Proof. exact set_is_map_update. Qed.
Print Assumptions C08_set_is_map_update.

(* Non-vacuity: a concrete disciplined history with depth 2 and what the window holds. *)
Example C08_nonvacuous :
  let ops := [OpSet 0 [1]; OpShift (Some 2); OpAdd 0 [5]; OpShift (Some 2); OpSet 0 [9];
              OpShift (Some 2); OpGet 1]%Z in
  Forall (disciplined (list Z) 2) ops /\
  hrun (list Z) vaddZ [] ops = [[9]; [9]; [6]; [1]]%Z /\
  snd (run vaddZ None ops) = [ODone; ODone; ODone; ODone; ODone; ODone; OVal [9]]%Z.
Proof.
  split; [|split; vm_compute; reflexivity].
  repeat constructor; cbn; try reflexivity; try lia.
Qed.
