(* C08 — property theorems only.  Model: PP.Model.C08 (transcription of
   set/get/shift_solution_values); proofs: PP.Proofs.C08. *)
From Coq Require Import List ZArith Arith Lia.
Import ListNotations.
From PP Require Import Model.C08 Proofs.C08 Proofs.C08_var.

(* For every value type, every depth d >= 1 and EVERY history of overwrites / additive
   writes at index 0, reads at any index and shifts with maximum depth d, starting from
   an empty data dictionary: index i < d holds the i-th entry of the history view
   (current value, then the value index 0 held at each earlier shift, most recent
   first), indices >= d hold nothing, and every call answers as the window says
   (reads return the stored value or KeyError, an additive write to an empty slot is
   rejected with ValueError, nothing else raises). *)
Theorem C08_window :
  forall (V : Type) (vadd : V -> V -> V) (d : nat) (ops : list (@op V)) (s0 : @st V),
    1 <= d -> Forall (disciplined V d) ops ->
    (s0 = None \/ s0 = Some []) ->   (* fresh data dictionary, or the empty per-name
                                        dictionary that create_variables pre-creates *)
    let h := hrun V vadd [] ops in
    (forall i, i < d ->
       match fst (run vadd s0 ops) with
       | None => h = []
       | Some dct => lookup dct i = nth_error h i
       end) /\
    (forall i, d <= i ->
       match fst (run vadd s0 ops) with
       | None => True | Some dct => lookup dct i = None end) /\
    snd (run vadd s0 ops) = houts V vadd d [] ops.
Proof. exact window_theorem. Qed.
Print Assumptions C08_window.

(* Reads never modify the store (any state, any index). *)
Theorem C08_reads_pure :
  forall (V : Type) (vadd : V -> V -> V) (s : @st V) (i : Z), fst (step vadd s (OpGet i)) = s.
Proof. exact get_pure. Qed.
Print Assumptions C08_reads_pure.

(* Additive writes to an empty slot are rejected and leave every stored value as it was
   (any state, any index). *)
Theorem C08_add_empty_rejected :
  forall (V : Type) (vadd : V -> V -> V) (s : @st V) (i : Z) (v : V),
    (0 <= i)%Z ->
    (match s with None => True | Some d => lookup d (Z.to_nat i) = None end) ->
    snd (step vadd s (OpAdd i v)) = OErr ValueErr /\
    forall j, (match fst (step vadd s (OpAdd i v)) with
               | Some d' => lookup d' j | None => None end)
              = (match s with Some d => lookup d j | None => None end).
Proof. exact add_empty_rejected. Qed.
Print Assumptions C08_add_empty_rejected.

(* An overwrite at any index changes exactly that index (any state). *)
Theorem C08_set_is_map_update :
  forall (V : Type) (vadd : V -> V -> V) (s : @st V) (i : Z) (v : V) (j : nat),
    (0 <= i)%Z ->
    match fst (step vadd s (OpSet i v)) with
    | Some d' => lookup d' j = if Nat.eqb (Z.to_nat i) j then Some v
                               else match s with Some d => lookup d j | None => None end
    | None => False
    end.
Proof. exact set_is_map_update. Qed.
Print Assumptions C08_set_is_map_update.

(* DEPTH CHANGES.  For EVERY history of writes at index 0, reads anywhere and shifts whose
   maximum depth is arbitrary and may change from call to call (any max_index >= 0,
   including 0 and 1 which move nothing, or None which moves everything): the slot stays a
   contiguous dictionary (keys 0..n-1, no holes), its contents are exactly the abstract
   window [wrun] (shift = wshift: new[i] = old[i-1] for 1 <= i <= min(depth-1, n)), and
   every call answers as that window says. *)
Theorem C08_contiguous_any_depths :
  forall (V : Type) (vadd : V -> V -> V) (ops : list (@op V)) (s0 : @st V),
    Forall (disciplined_var V) ops -> (s0 = None \/ s0 = Some []) ->
    (match fst (run vadd s0 ops) with
     | None => wrun V vadd [] ops = []
     | Some dct => (forall i, lookup dct i = nth_error (wrun V vadd [] ops) i) /\
                   num_stored dct = length (wrun V vadd [] ops)
     end) /\
    snd (run vadd s0 ops) = wouts V vadd [] ops.
Proof. exact contiguous_any_depths. Qed.
Print Assumptions C08_contiguous_any_depths.

(* ... and as long as every shift in the history uses a depth of at least d (a different
   one each time, or None), every index below d holds the i-th most recent value written
   at index 0 (the i-th entry of the history view of C08_window). *)
Theorem C08_window_varying_depths :
  forall (V : Type) (vadd : V -> V -> V) (d : nat) (ops : list (@op V)) (s0 : @st V),
    1 <= d -> Forall (disciplined_var V) ops -> Forall (deep_enough V d) ops ->
    (s0 = None \/ s0 = Some []) ->
    forall i, i < d ->
      match fst (run vadd s0 ops) with
      | None => hrun V vadd [] ops = []
      | Some dct => lookup dct i = nth_error (hrun V vadd [] ops) i
      end.
Proof. exact window_varying_depths. Qed.
Print Assumptions C08_window_varying_depths.

(* A shift of depth m leaves every index >= m as it was once the window holds m values:
   the window is exactly as deep as the depth used, older entries are neither moved nor
   dropped. *)
Theorem C08_shift_leaves_deep_indices :
  forall (V : Type) (w : list V) (m i : nat),
    w <> [] -> m <= length w -> m <= i -> nth_error (wshift m w) i = nth_error w i.
Proof. exact shift_leaves_deep_indices. Qed.
Print Assumptions C08_shift_leaves_deep_indices.

(* Non-vacuity for changing depths: depth 3, then None, then 2, then 0; indices 0 and 1
   (below the smallest non-trivial depth, 2) hold the two most recent values, index 2
   is stale after the depth-2 shift. *)
Example C08_varying_nonvacuous :
  let ops := [OpSet 0 [1]; OpShift (Some 3); OpSet 0 [2]; OpShift None; OpSet 0 [3];
              OpShift (Some 2); OpSet 0 [4]; OpGet 2]%Z in
  Forall (disciplined_var (list Z)) ops /\ Forall (deep_enough (list Z) 2) ops /\
  wrun (list Z) vaddZ [] ops = [[4]; [3]; [1]]%Z /\
  hrun (list Z) vaddZ [] ops = [[4]; [3]; [2]; [1]]%Z /\
  snd (run vaddZ None ops) = [ODone; ODone; ODone; ODone; ODone; ODone; ODone; OVal [1]]%Z.
Proof.
  split; [|split; [|split; [|split]]]; try (vm_compute; reflexivity);
    repeat constructor; cbn; try reflexivity; try lia.
Qed.

(* Non-vacuity: a concrete disciplined history with depth 2 and what the window holds. *)
Example C08_nonvacuous :
  let ops := [OpSet 0 [1]; OpShift (Some 2); OpAdd 0 [5]; OpShift (Some 2); OpSet 0 [9];
              OpShift (Some 2); OpGet 1]%Z in
  Forall (disciplined (list Z) 2) ops /\
  hrun (list Z) vaddZ [] ops = [[9]; [9]; [6]; [1]]%Z /\
  snd (run vaddZ None ops) = [ODone; ODone; ODone; ODone; ODone; ODone; OVal [9]]%Z.
Proof.
  split; [|split; vm_compute; reflexivity].
  repeat constructor; cbn; try reflexivity; try lia.
Qed.
