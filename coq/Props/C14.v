(* C14 — property theorems only.  Model: PP.Model.C14 (bookkeeping of subproblems, active
   sets, repetition counts: executable, tied to _fvutils.subproblems /
   cell_ind_for_partial_update on every run); PP.Proofs.C14 (the gluing over the reals).
   The local discretisation kernel is an arbitrary matrix; its locality (on the faces a
   subproblem is responsible for it reproduces the one-piece rows) is the hypothesis
   [local_ok], validated only by the matrix-equality oracle of the harness. *)
From Coq Require Import List Arith Bool Lia Reals.
Import ListNotations.
From PP Require Import Model.C14 Proofs.C14.
Require PP.Proofs.C14_graph PP.Proofs.C14_all.
Local Open Scope R_scope.

(* Gluing: sum over the subproblems of the local results with the rows outside
   faces_in_subgrid zeroed, mapped through l2g_faces (or added directly in the
   "all faces are mine" shortcut), divided by the face repetition count = the one-piece
   discretisation on every face, for any number of subproblems, in any order, and any
   overlap multiplicities (code after `fix: Mpfa.discretize adds ...`). *)
Theorem C14_split_sum :
  forall (G : lmat) (nf : nat) (ps : list part),
    Forall part_ok ps -> Forall (local_ok G) ps ->
    (forall f, (f < nf)%nat -> exists p, In p ps /\ In f (faces_in_subgrid (fst p))) ->
    forall f c, (f < nf)%nat -> assemble nf ps f c = G f c.
Proof. exact split_sum. Qed.
Print Assumptions C14_split_sum.

(* Regression witness: the loop as it was before the repair (the shortcut REPLACED the
   accumulated sum) glues two locally exact subproblems that both cover every face to half
   the exact matrix. *)
Theorem C14_unrepaired_loop_wrong :
  exists (nf : nat) (ps : list part) (f c : nat),
    Forall part_ok ps /\ (f < nf)%nat /\
    assemble_unrepaired nf ps f c <> (fun _ _ => 1) f c /\
    Forall (local_ok (fun _ _ => 1)) ps.
Proof. exact shortcut_overwrites. Qed.
Print Assumptions C14_unrepaired_loop_wrong.

(* Partial update: the rows of the targeted (active) faces equal the rows of the
   one-piece discretisation; in update mode every other row keeps its old value, in
   plain mode every other row is zero. *)
Theorem C14_partial_update :
  forall (G old A : lmat) (ext_faces active : list nat) (update : bool),
    NoDup ext_faces -> (forall f, In f active -> In f ext_faces) ->
    (forall k c, (k < length ext_faces)%nat -> In (nth k ext_faces 0%nat) active ->
       A k c = G (nth k ext_faces 0%nat) c) ->
    forall f c,
      (In f active -> stored update old (to_global ext_faces active A) active f c = G f c) /\
      (~ In f active -> stored true old (to_global ext_faces active A) active f c = old f c) /\
      (~ In f active -> stored false old (to_global ext_faces active A) active f c = 0).
Proof. exact partial_update. Qed.
Print Assumptions C14_partial_update.

(* one subproblem contributes the global rows of its own faces and nothing else *)
Theorem C14_contribution :
  forall (G : lmat) (p : part) (f c : nat), part_ok p -> local_ok G p ->
    contrib p f c = if memb f (faces_in_subgrid (fst p)) then G f c else 0.
Proof. exact contrib_spec. Qed.
Print Assumptions C14_contribution.

(* np.bincount(concatenate(faces_in_subgrid)) counts the subproblems responsible for f *)
Theorem C14_repetition_count :
  forall (ps : list part) (f : nat), Forall part_ok ps ->
    nth f (num_face_repetitions (map fst ps)) 0%nat = hits f ps.
Proof. exact reps_hits. Qed.
Print Assumptions C14_repetition_count.

(* the boolean certificate [family_ok] that Coq evaluates on every real family of
   subproblems (tie) implies the structural hypotheses of C14_split_sum *)
Theorem C14_certificate_sound :
  forall (nf : nat) (ps : list part), family_ok nf (map fst ps) = true ->
    Forall part_ok ps /\
    (forall f, (f < nf)%nat -> exists p, In p ps /\ In f (faces_in_subgrid (fst p))).
Proof. exact family_ok_sound. Qed.
Print Assumptions C14_certificate_sound.

(* The family built by _fvutils.subproblems (model) satisfies the certificate for EVERY
   consistent grid, number of parts and partition vector: the structural hypotheses of
   C14_split_sum are theorems about the bookkeeping, not per-case checks. *)
Theorem C14_subproblems_family_ok :
  forall (g : grid) (k : nat) (part : list nat), Proofs.C14_graph.grid_ok g ->
    length part = length (cell_nodes g) ->
    family_ok (length (face_nodes g)) (subproblems g k part) = true.
Proof. exact Proofs.C14_graph.subproblems_family_ok. Qed.
Print Assumptions C14_subproblems_family_ok.

Theorem C14_grid_certificate_sound :
  forall g : grid, grid_okb g = true -> Proofs.C14_graph.grid_ok g.
Proof. exact Proofs.C14_graph.grid_okb_sound. Qed.
Print Assumptions C14_grid_certificate_sound.

(* hence: on every consistent grid, for every partition, local matrices that are exact on
   the faces their subproblem is responsible for glue to the one-piece matrix *)
Theorem C14_split_sum_on_grid :
  forall (G : lmat) (g : grid) (k : nat) (pvec : list nat) (ps : list part),
    grid_okb g = true -> length pvec = length (cell_nodes g) ->
    map fst ps = subproblems g k pvec -> Forall (local_ok G) ps ->
    forall f c, (f < length (face_nodes g))%nat ->
      assemble (length (face_nodes g)) ps f c = G f c.
Proof. exact Proofs.C14_all.split_sum_on_grid. Qed.
Print Assumptions C14_split_sum_on_grid.

(* Locality from the overlap (graph part): in the "nodes" mode used for splitting, every
   cell around every node of an active face is in the subgrid, with all its faces; in the
   "cells" and "faces" modes every cell around every node of an active face is in the
   subgrid.  (That the kernel's rows of a face depend only on these cells stays the
   hypothesis local_ok.) *)
Theorem C14_locality_from_overlap :
  forall (g : grid) (N : list nat) (f v c : nat),
    In f (snd (stencil_nodes g N)) -> In v (nth f (face_nodes g) []) ->
    (c < length (cell_nodes g))%nat -> In v (nth c (cell_nodes g) []) ->
    In c (fst (stencil_nodes g N)) /\
    (forall f', In f' (nth c (cell_faces g) []) -> (f' < length (face_nodes g))%nat ->
                In f' (faces_of_cells g (fst (stencil_nodes g N)))).
Proof. exact Proofs.C14_graph.locality_nodes. Qed.
Print Assumptions C14_locality_from_overlap.

Theorem C14_locality_cells_mode :
  forall (g : grid) (cells : list nat) (f v c : nat), Proofs.C14_graph.grid_ok g ->
    In f (snd (stencil_cells g cells)) -> In v (nth f (face_nodes g) []) ->
    (c < length (cell_nodes g))%nat -> In v (nth c (cell_nodes g) []) ->
    In c (fst (stencil_cells g cells)).
Proof. exact Proofs.C14_graph.locality_cells. Qed.
Print Assumptions C14_locality_cells_mode.

Theorem C14_locality_faces_mode :
  forall (g : grid) (prev faces : list nat) (f v c : nat), Proofs.C14_graph.grid_ok g ->
    In f (snd (stencil_faces g prev faces)) -> In v (nth f (face_nodes g) []) ->
    (c < length (cell_nodes g))%nat -> In v (nth c (cell_nodes g) []) ->
    In c (fst (stencil_faces g prev faces)).
Proof. exact Proofs.C14_graph.locality_faces. Qed.
Print Assumptions C14_locality_faces_mode.

(* ---------------------------------------------------------------- non-vacuity *)
Local Close Scope R_scope.

(* 2 x 1 Cartesian grid: 6 nodes, 7 faces, 2 cells, split into its two cells *)
Definition C14_g : grid :=
  {| num_nodes := 6;
     face_nodes := [[0; 3]; [1; 4]; [2; 5]; [0; 1]; [1; 2]; [3; 4]; [4; 5]];
     cell_nodes := [[0; 1; 3; 4]; [1; 2; 4; 5]];
     cell_faces := [[0; 1; 3; 5]; [1; 2; 4; 6]] |}.

Example C14_nonvacuous_family :
  let subs := subproblems C14_g 2 [0; 1] in
  map faces_in_subgrid subs = [[0; 1; 3; 5]; [1; 2; 4; 6]] /\
  map l2g_faces subs = [seq 0 7; seq 0 7] /\
  num_face_repetitions subs = [1; 2; 1; 1; 1; 1; 1] /\
  family_ok 7 subs = true /\
  map eliminate_face subs = [[2; 4; 6]; [0; 3; 5]].
Proof. vm_compute. repeat split; reflexivity. Qed.

Example C14_nonvacuous_glue :
  let G : lmat := fun f c => INR (f + c) in
  let ps : list part := map (fun s => (s, fun k c => G (nth k (l2g_faces s) 0) c))
                            (subproblems C14_g 2 [0; 1]) in
  family_ok 7 (map fst ps) = true /\ Forall (local_ok G) ps.
Proof.
  cbn zeta. split; [vm_compute; reflexivity|].
  repeat constructor; intros k c _ _; reflexivity.
Qed.

Example C14_nonvacuous_grid :
  grid_okb C14_g = true /\ length [0; 1] = length (cell_nodes C14_g) /\
  snd (stencil_nodes C14_g [0; 1; 3; 4]) = [0; 1; 3; 5] /\
  fst (stencil_nodes C14_g [0; 1; 3; 4]) = [0; 1] /\
  stencil_cells C14_g [0] = ([0; 1], [0; 1; 3; 4; 5; 6]) /\
  stencil_faces C14_g [] [0] = ([0; 1], [0; 3; 5]).
Proof. vm_compute. repeat split; reflexivity. Qed.
