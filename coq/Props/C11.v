(* C11 — MPFA reproduces linear pressure fields exactly.  Property theorems only.

   METHOD-LEVEL theorems (level P-method): they are about the mathematical scheme, stated
   over the field-polymorphic definitions of PP.Model.C11 instantiated at the reals
   (RO = (0, 1, +, -, *, opp) of R; r... = the model function at R).  The link to the Python
   code is the per-instance certificate evaluated on every run by vm_compute on the real
   matrices (Model.C11.check_case, same definitions instantiated with exact dyadic rationals).

   Vocabulary (Model/C11.v):
     subcell = {sc_x; sc_p; sc_K}       centre / centre pressure / tensor of the sub-cell's cell
     subface = Interior k1 k2 n xc | DirichletF k n xc pD | NeumannF k n q
     local_system cells faces           the local equations (sparse rows over the gradients)
     lhs e G, rhs e                     left/right side of an equation for gradients G
     apply_inv Inv r                    gradients = inverse matrix times right-hand side
     subflux cells G k n                -(K_k n).G_k        (discrete sub-face flux)
     subpressure cells G k x            p_k + (x - x_k).G_k (reconstructed pressure at x)
     linl b a x                         b + a.x
     cell_ok / face_wf / face_data_ok   data of the region taken from p = b + a.x, one K
     inst                               four matrices (coordinate lists) + geometry + flags
     flux_of I c f                      (flux p_cells + bound_flux bdata)_f for the field c=(b,a)
     facep_of I c f                     (bound_pressure_cell p_cells + bound_pressure_face bdata)_f
     exact I c f                        -n_f.(K a);   lin c x = b + a.x
     res_flux = flux_of - exact, res_bp = facep_of - lin (fcen f);  e0..e3 = fields 1, x, y, z *)
From Coq Require Import List ZArith Bool Arith Lia Reals Lra.
Import ListNotations.
From PP Require Import Model.C11 Model.C13 Proofs.C11 Proofs.C11_inv Proofs.C11_dyadic.
From Coq Require Import QArith Qabs.
Local Open Scope R_scope.

(* For ANY interaction region (any dimension d, any number m of sub-cells, any list of
   interior / Dirichlet / Neumann sub-faces, any continuity points): if all sub-cells carry
   the same tensor K, the cell pressures and the boundary data are taken from
   p(x) = b + a.x, then the constant gradient a satisfies every local equation. *)
Theorem C11_linear_solves_local :
  forall (d m : nat) (K : list (list R)) (b : R) (a : list R)
         (cells : list (subcell R)) (faces : list (subface R)),
    length a = d -> length cells = m ->
    Forall (rcell_ok d K b a) cells ->
    Forall (rface_wf d m) faces ->
    Forall (rface_data_ok K b a) faces ->
    forall e, In e (rlocal_system cells faces) -> rlhs e (repeat a m) = rhs e.
Proof. exact linear_solves_local. Qed.
Print Assumptions C11_linear_solves_local.

(* If the local matrix has a left inverse Inv (Inv (A G) = G for every gradient vector G of
   the right shape), the gradients the scheme computes, Inv * rhs, ARE the constant
   gradient a; hence every discrete sub-face flux equals -(K n).a (= -n.K a for symmetric
   K) and the pressure reconstructed at any point x (in particular a boundary face centre)
   equals p(x). *)
Theorem C11_unique_exact :
  forall (d m : nat) (K : list (list R)) (b : R) (a : list R)
         (cells : list (subcell R)) (faces : list (subface R)) (Inv : list (list (list R))),
    length a = d -> length cells = m ->
    Forall (rcell_ok d K b a) cells ->
    Forall (rface_wf d m) faces ->
    Forall (rface_data_ok K b a) faces ->
    (forall G, shape d m G -> rapply_inv Inv (rlhs_all (rlocal_system cells faces) G) = G) ->
    let G := rapply_inv Inv (rrhs_all (rlocal_system cells faces)) in
    G = repeat a m /\
    (forall k n, (k < m)%nat -> rsubflux cells G k n = - rdotl (rnK n K) a) /\
    (forall k x, (k < m)%nat -> length x = d -> rsubpressure cells G k x = rlinl b a x).
Proof. exact unique_exact. Qed.
Print Assumptions C11_unique_exact.

(* Constant pressure b in all cells, Dirichlet data b, zero Neumann data: every discrete
   sub-face flux vanishes. *)
Theorem C11_constant_zero :
  forall (d m : nat) (K : list (list R)) (b : R)
         (cells : list (subcell R)) (faces : list (subface R)) (Inv : list (list (list R))),
    length cells = m ->
    Forall (cell_const d K b) cells ->
    Forall (rface_wf d m) faces ->
    Forall (face_const b) faces ->
    (forall G, shape d m G -> rapply_inv Inv (rlhs_all (rlocal_system cells faces) G) = G) ->
    let G := rapply_inv Inv (rrhs_all (rlocal_system cells faces)) in
    forall k n, (k < m)%nat -> rsubflux cells G k n = 0.
Proof. exact constant_zero. Qed.
Print Assumptions C11_constant_zero.

(* Matrix level, ANY four matrices and geometry: a bound on the flux residual of the basis
   fields 1, x, y, z on face f bounds the residual of EVERY linear field b + a.x on f.
   (The run-time certificate establishes t_i = 1e-9 (1 + |exact e_i f|) for every face of
   every generated instance.) *)
Theorem C11_linear_extension_flux :
  forall (I : inst R) (f : nat) (t0 t1 t2 t3 : R),
    Rabs (rres_flux I re0 f) <= t0 -> Rabs (rres_flux I re1 f) <= t1 ->
    Rabs (rres_flux I re2 f) <= t2 -> Rabs (rres_flux I re3 f) <= t3 ->
    forall b ax ay az : R,
      Rabs (rflux_of I (b, (ax, ay, az)) f - rexact I (b, (ax, ay, az)) f)
      <= Rabs b * t0 + Rabs ax * t1 + Rabs ay * t2 + Rabs az * t3.
Proof. exact linear_extension_flux. Qed.
Print Assumptions C11_linear_extension_flux.

(* The same for the boundary pressure reconstruction. *)
Theorem C11_linear_extension_bound_pressure :
  forall (I : inst R) (f : nat) (t0 t1 t2 t3 : R),
    Rabs (rres_bp I re0 f) <= t0 -> Rabs (rres_bp I re1 f) <= t1 ->
    Rabs (rres_bp I re2 f) <= t2 -> Rabs (rres_bp I re3 f) <= t3 ->
    forall b ax ay az : R,
      Rabs (rfacep_of I (b, (ax, ay, az)) f - rlin (b, (ax, ay, az)) (fcen I f))
      <= Rabs b * t0 + Rabs ax * t1 + Rabs ay * t2 + Rabs az * t3.
Proof. exact linear_extension_bp. Qed.
Print Assumptions C11_linear_extension_bound_pressure.

(* Exact versions: equality for the four basis fields gives equality for every linear
   field. *)
Theorem C11_linear_extension_exact :
  forall (I : inst R) (f : nat),
    rres_flux I re0 f = 0 -> rres_flux I re1 f = 0 -> rres_flux I re2 f = 0 ->
    rres_flux I re3 f = 0 ->
    forall b ax ay az : R, rflux_of I (b, (ax, ay, az)) f = rexact I (b, (ax, ay, az)) f.
Proof. exact linear_extension_exact. Qed.
Print Assumptions C11_linear_extension_exact.

Theorem C11_linear_extension_bound_pressure_exact :
  forall (I : inst R) (f : nat),
    rres_bp I re0 f = 0 -> rres_bp I re1 f = 0 -> rres_bp I re2 f = 0 -> rres_bp I re3 f = 0 ->
    forall b ax ay az : R, rfacep_of I (b, (ax, ay, az)) f = rlin (b, (ax, ay, az)) (fcen I f).
Proof. exact linear_extension_bp_exact. Qed.
Print Assumptions C11_linear_extension_bound_pressure_exact.

(* Matrix level: a constant field b gives a flux of at most |b| t0 when the constant basis
   field has residual at most t0 (zero flux when t0 = 0). *)
Theorem C11_constant_zero_matrix :
  forall (I : inst R) (f : nat) (t0 : R),
    Rabs (rres_flux I re0 f) <= t0 ->
    forall b : R, Rabs (rflux_of I (b, (0, 0, 0)) f) <= Rabs b * t0.
Proof. exact constant_zero_matrix. Qed.
Print Assumptions C11_constant_zero_matrix.

(* Certificate (ii), the link between model (A) and the code's local systems: for ANY
   captured local matrix LA and right-hand side matrices (in the FL / BF slots of I), a bound
   on the residual "LA (constant gradient of the field) - right-hand side built from the
   field" for the four basis fields on row r bounds it for every linear field — i.e. the
   hypothesis C11_linear_solves_local holds on the ACTUAL rows (up to the band) once the
   run-time check has established it for 1, x, y, z. *)
Theorem C11_local_rows_linear_extension :
  forall (I : inst R) (LA : coo R) (nd r : nat) (t0 t1 t2 t3 : R),
    Rabs (res_local R RO I LA nd re0 r) <= t0 -> Rabs (res_local R RO I LA nd re1 r) <= t1 ->
    Rabs (res_local R RO I LA nd re2 r) <= t2 -> Rabs (res_local R RO I LA nd re3 r) <= t3 ->
    forall b ax ay az : R,
      Rabs (rrow_apply LA r (gstar R (b, (ax, ay, az)) nd) - rflux_of I (b, (ax, ay, az)) r)
      <= Rabs b * t0 + Rabs ax * t1 + Rabs ay * t2 + Rabs az * t3.
Proof. exact local_rows_linear_extension. Qed.
Print Assumptions C11_local_rows_linear_extension.

(* Certificate (iii), invertibility per instance instead of a blanket hypothesis: if some
   matrix B is an APPROXIMATE left inverse of the n x n local matrix A — every row of
   B A - I has 1-norm at most q < 1 — then the system A x = r has at most one solution.
   (prodBA n A B i j = sum_k B i k * A k j; mulv n A x i = sum_j A i j * x j; idn = identity.)
   The run-time check Model.C11_inv.check_inv establishes the row bound with q = 1/2, in exact
   arithmetic, for the matrix of all local systems the code hands to its block inverter and
   the matrix the inverter returns; together with certificate (ii) (the constant gradient
   solves the captured equations) the constant gradient is THE solution of the captured local
   systems. *)
Theorem C11_local_unique_solution :
  forall (n : nat) (A B : nat -> nat -> R) (q : R),
    q < 1 ->
    (forall i, (i < n)%nat -> sumn R RO n (fun j => Rabs (prodBA n A B i j - idn i j)) <= q) ->
    forall (r x y : nat -> R),
      (forall i, (i < n)%nat -> mulv n A x i = r i) ->
      (forall i, (i < n)%nat -> mulv n A y i = r i) ->
      forall j, (j < n)%nat -> x j = y j.
Proof. exact unique_solution. Qed.
Print Assumptions C11_local_unique_solution.

(* Non-vacuity of the above: an explicit 2 x 2 pair. *)
Example C11_nonvacuous_approx_inverse :
  (1/2 < 1) /\
  forall i, (i < 2)%nat -> sumn R RO 2 (fun j => Rabs (prodBA 2 exA2 exB2 i j - idn i j)) <= 1/2.
Proof. exact example_approx_inverse. Qed.

(* The arithmetic the certificates are executed with is exact: every binary64 value is a
   pair (mantissa, exponent); the value map dy : dyad -> Q commutes with the executed ring
   operations DO = (dadd, dsub, dmul, dopp, (0,0), (1,0)) and with the absolute value used in
   the bands.  (Transfer of the operations only; the comparison dleb and the transfer of the
   whole model functions to R are not proved.) *)
Theorem C11_dyadic_exact :
  ((forall a b, dy (dadd a b) == dy a + dy b) /\
   (forall a b, dy (dmul a b) == dy a * dy b) /\
   (forall a, dy (dopp a) == - dy a) /\
   (forall a b, dy (dsub a b) == dy a - dy b) /\
   (forall a, dy (dabs a) == Qabs (dy a)) /\
   dy (o0 DO) == 0 /\ dy (o1 DO) == 1)%Q.
Proof. exact dyadic_exact. Qed.
Print Assumptions C11_dyadic_exact.

(* Non-vacuity (A): a concrete 2-D boundary interaction region (two sub-cells, interior,
   Dirichlet and Neumann sub-face, K = [[2,1],[1,3]], p = 3 + x - 2y) with an explicit left
   inverse satisfies all hypotheses of C11_unique_exact. *)
Example C11_nonvacuous_region :
  length exa = 2%nat /\ length excells = 2%nat /\
  Forall (rcell_ok 2 exK exb exa) excells /\
  Forall (rface_wf 2 2) exfaces /\
  Forall (rface_data_ok exK exb exa) exfaces /\
  (forall G, shape 2 2 G -> rapply_inv exInv (rlhs_all (rlocal_system excells exfaces) G) = G) /\
  exa <> repeat 0 2.
Proof. exact example_region. Qed.

(* Non-vacuity (B): a concrete instance (two cells, Dirichlet and Neumann end faces) whose
   basis residuals all vanish. *)
Example C11_nonvacuous_instance :
  forall f, (f < 3)%nat ->
    rres_flux exinst re0 f = 0 /\ rres_flux exinst re1 f = 0 /\
    rres_flux exinst re2 f = 0 /\ rres_flux exinst re3 f = 0 /\
    (f <> 1%nat ->
     rres_bp exinst re0 f = 0 /\ rres_bp exinst re1 f = 0 /\
     rres_bp exinst re2 f = 0 /\ rres_bp exinst re3 f = 0).
Proof. exact example_instance. Qed.
