(* C20 — property theorems only.  Model: PP.Model.C20 (3-vectors, matrices, rigid motions,
   an expression language of geometry formulas, and this property's own formula set
   transcribed from Grid._compute_geometry_2d (oriented branch, grid embedded in 3-D) and
   the face normals of _compute_geometry_3d); proofs: PP.Proofs.C20.

   All theorems hold over ANY commutative ring with Leibniz equality (f0 f1 + * - opp with
   [ring_theory ... eq]: the reals, Qc, Z, ...).  A proper rotation is a matrix M with
   M^T M = I and det M = 1 ([is_rotation]); the motion is x -> M x + t. *)
From Coq Require Import List ZArith QArith Ring_theory Reals Lra.
Import ListNotations.
From PP Require Import Model.C20 Proofs.C20.

(* (M u) x (M v) = cof(M) (u x v) for EVERY matrix M. *)
Theorem C20_cross_equivariant :
  forall (F : Type) (f0 f1 : F) (fadd fmul fsub : F -> F -> F) (fopp : F -> F),
    ring_theory f0 f1 fadd fmul fsub fopp eq ->
    forall (M : mat F) (u v : vec F),
      cross F fmul fsub (mapply F fadd fmul M u) (mapply F fadd fmul M v)
      = mapply F fadd fmul (cof F fmul fsub M) (cross F fmul fsub u v).
Proof. exact cross_cof. Qed.
Print Assumptions C20_cross_equivariant.

(* The cofactor matrix of a proper rotation is the rotation itself. *)
Theorem C20_cofactor_of_rotation :
  forall (F : Type) (f0 f1 : F) (fadd fmul fsub : F -> F -> F) (fopp : F -> F),
    ring_theory f0 f1 fadd fmul fsub fopp eq ->
    forall M : mat F, is_rotation F f0 f1 fadd fmul fsub M -> cof F fmul fsub M = M.
Proof. intros F f0 f1 fadd fmul fsub fopp H. exact (cof_rotation F f0 f1 fadd fmul fsub fopp H). Qed.
Print Assumptions C20_cofactor_of_rotation.

(* Dot products are invariant, cross products rotate with the vectors. *)
Theorem C20_dot_invariant :
  forall (F : Type) (f0 f1 : F) (fadd fmul fsub : F -> F -> F) (fopp : F -> F),
    ring_theory f0 f1 fadd fmul fsub fopp eq ->
    forall (M : mat F) (u v : vec F),
      is_rotation F f0 f1 fadd fmul fsub M ->
      dot F fadd fmul (mapply F fadd fmul M u) (mapply F fadd fmul M v) = dot F fadd fmul u v.
Proof. intros F f0 f1 fadd fmul fsub fopp H. exact (dot_rotation F f0 f1 fadd fmul fsub fopp H). Qed.
Print Assumptions C20_dot_invariant.

Theorem C20_cross_rotation :
  forall (F : Type) (f0 f1 : F) (fadd fmul fsub : F -> F -> F) (fopp : F -> F),
    ring_theory f0 f1 fadd fmul fsub fopp eq ->
    forall (M : mat F) (u v : vec F),
      is_rotation F f0 f1 fadd fmul fsub M ->
      cross F fmul fsub (mapply F fadd fmul M u) (mapply F fadd fmul M v)
      = mapply F fadd fmul M (cross F fmul fsub u v).
Proof. intros F f0 f1 fadd fmul fsub fopp H. exact (cross_rotation F f0 f1 fadd fmul fsub fopp H). Qed.
Print Assumptions C20_cross_rotation.

(* EVERY geometry formula built from node positions by differences of points, point +
   vector, affine combinations of points (weights summing to one), sums, scalar multiples
   and cross products of vectors, dot products, sums/products of scalars and ARBITRARY
   functions of scalars (sqrt, sign, reciprocal, comparison ...) is equivariant: moving all
   nodes by x -> M x + t leaves scalar formulas (volumes, areas) unchanged, rotates vector
   formulas (normals) by M and moves point formulas (centres) by the same motion. *)
Theorem C20_geometry_equivariant :
  forall (F : Type) (f0 f1 : F) (fadd fmul fsub : F -> F -> F) (fopp : F -> F),
    ring_theory f0 f1 fadd fmul fsub fopp eq ->
    forall (M : mat F) (t : vec F) (nodes : nat -> vec F),
      is_rotation F f0 f1 fadd fmul fsub M ->
      let moved := fun i => motion F fadd fmul M t (nodes i) in
      (forall e : sexp F, swf F f1 fadd e ->
         seval F fadd fmul fsub moved e = seval F fadd fmul fsub nodes e) /\
      (forall e : vexp F, vwf F f1 fadd e ->
         veval F fadd fmul fsub moved e = mapply F fadd fmul M (veval F fadd fmul fsub nodes e)) /\
      (forall e : pexp F, pwf F f1 fadd e ->
         peval F fadd fmul fsub moved e = motion F fadd fmul M t (peval F fadd fmul fsub nodes e)).
Proof. intros F f0 f1 fadd fmul fsub fopp H. exact (expr_equivariant F f0 f1 fadd fmul fsub fopp H). Qed.
Print Assumptions C20_geometry_equivariant.

(* The formula set of Grid._compute_geometry_2d (oriented branch) for a cell with ANY
   number of faces, embedded anywhere in 3-D; half + half = 1, third * 3 = 1, w = 1 /
   (number of faces of the cell), n = the plane normal (which itself is a sum of
   [cell_normal_sum]s, scaled by a function of its own invariant length), r = 1 / volume:
   tangents, sub-simplex normals, the plane-normal contribution and face normals rotate;
   face centres, the temporary centre and the centroid move; volumes are unchanged. *)
Theorem C20_geometry2d_equivariant :
  forall (F : Type) (f0 f1 : F) (fadd fmul fsub : F -> F -> F) (fopp : F -> F),
    ring_theory f0 f1 fadd fmul fsub fopp eq ->
    forall (half third : F), fadd half half = f1 -> fadd (fadd third third) third = f1 ->
    forall (M : mat F) (t n : vec F) (w r : F) (es : list (edge F)),
      is_rotation F f0 f1 fadd fmul fsub M ->
      fmul w (natF F f0 f1 fadd (length es)) = f1 ->
      let es' := map (move_edge F fadd fmul M t) es in
      let n' := mapply F fadd fmul M n in
      (forall e, tangent F fsub (move_edge F fadd fmul M t e)
                 = mapply F fadd fmul M (tangent F fsub e)) /\
      (forall e, fcenter F fadd fmul half (move_edge F fadd fmul M t e)
                 = motion F fadd fmul M t (fcenter F fadd fmul half e)) /\
      temp_center F f0 fadd fmul half w es'
      = motion F fadd fmul M t (temp_center F f0 fadd fmul half w es) /\
      cell_normal_sum F f0 fadd fmul fsub half w es'
      = mapply F fadd fmul M (cell_normal_sum F f0 fadd fmul fsub half w es) /\
      (forall e, fnormal F fmul fsub n' (move_edge F fadd fmul M t e)
                 = mapply F fadd fmul M (fnormal F fmul fsub n e)) /\
      cell_volume F f0 fadd fmul fsub half n' w es' = cell_volume F f0 fadd fmul fsub half n w es /\
      (fmul r (cell_volume F f0 fadd fmul fsub half n w es) = f1 ->
       vscale F fmul r (cell_moment F f0 fadd fmul fsub half third n' w es')
       = motion F fadd fmul M t (vscale F fmul r (cell_moment F f0 fadd fmul fsub half third n w es))).
Proof.
  intros F f0 f1 fadd fmul fsub fopp H half third Hh Ht M t n w r es HR Hw es' n'.
  repeat split.
  - intros e. exact (tangent_move F f0 f1 fadd fmul fsub fopp H M t e).
  - intros e. exact (fcenter_move F f0 f1 fadd fmul fsub fopp H half Hh M t e).
  - exact (temp_center_move F f0 f1 fadd fmul fsub fopp H half Hh M t w es Hw).
  - exact (cell_normal_sum_move F f0 f1 fadd fmul fsub fopp H half Hh M t w es HR Hw).
  - intros e. exact (fnormal_move F f0 f1 fadd fmul fsub fopp H M t n e HR).
  - exact (cell_volume_move F f0 f1 fadd fmul fsub fopp H half Hh M t n w es HR Hw).
  - intros Hr. exact (cell_center_move F f0 f1 fadd fmul fsub fopp H half third Hh Ht M t n w es r HR Hw Hr).
Qed.
Print Assumptions C20_geometry2d_equivariant.

(* Face normals of _compute_geometry_3d (sum of the sub-triangle normals around the mean
   of the face's nodes), faces with any number of nodes: they rotate with the grid. *)
Theorem C20_face_normal3_equivariant :
  forall (F : Type) (f0 f1 : F) (fadd fmul fsub : F -> F -> F) (fopp : F -> F),
    ring_theory f0 f1 fadd fmul fsub fopp eq ->
    forall (half : F) (M : mat F) (t : vec F) (w : F) (loop : list (vec F * vec F)),
      is_rotation F f0 f1 fadd fmul fsub M ->
      fmul w (natF F f0 f1 fadd (length loop)) = f1 ->
      face_normal3 F f0 fadd fmul fsub half w (map (move_pair F fadd fmul M t) loop)
      = mapply F fadd fmul M (face_normal3 F f0 fadd fmul fsub half w loop).
Proof.
  intros F f0 f1 fadd fmul fsub fopp H half M t w loop HR Hw.
  exact (face_normal3_move F f0 f1 fadd fmul fsub fopp H half M t w loop HR Hw).
Qed.
Print Assumptions C20_face_normal3_equivariant.

(* Non-vacuity: over the reals, the rotation by the angle with cos = 3/5, sin = 4/5 about
   the z-axis is a proper rotation; 1/2, 1/3 and 1/4 satisfy the side conditions; and
   (over Q, executed) the quaternion (1,2,3,4) gives an exact rational rotation. *)
Example C20_nonvacuous :
  let M : mat R := ((3/5, -(4/5), 0), (4/5, 3/5, 0), (0, 0, 1))%R in
  is_rotation R 0%R 1%R Rplus Rmult Rminus M /\
  (/2 + /2 = 1)%R /\ (/3 + /3 + /3 = 1)%R /\
  (/4 * natF R 0%R 1%R Rplus 4 = 1)%R /\
  is_rotation_q (((-20 # 30), (4 # 30), (22 # 30)), ((20 # 30), (-10 # 30), (20 # 30)),
                 ((10 # 30), (28 # 30), (4 # 30)))%Q = true.
Proof.
  cbv zeta. split; [|split; [|split; [|split]]].
  - unfold is_rotation, det, dot, cross, col1, col2, col3, row1, row2, row3, mkv, vx, vy, vz;
      cbn [fst snd]. repeat split; lra.
  - lra.
  - lra.
  - cbn [natF]. lra.
  - vm_compute. reflexivity.
Qed.
