(* C45 — property theorems only.  Model: PP.Model.C45 (transcription of Operator._key and
   the leaf _key overrides of operators.py after the repair); proofs: PP.Proofs.C45.
   [sha] is sha256(...).hexdigest(); its injectivity on the buffers in play is an explicit
   premise wherever it is needed (never an axiom). *)
From Coq Require Import List ZArith Bool String.
Import ListNotations.
From PP Require Import Model.C45 Proofs.C45.

(* Prefix code: for ANY leaf type and token type, if leaf keys are single tokens that are
   injective and never equal to an operation token, and operation tokens are injective,
   then the key of a tree built from two-children operation nodes identifies the tree. *)
Theorem C45_prefix_injective :
  forall (L T : Type) (leafkey : L -> T) (optok : string -> T),
    (forall a b, leafkey a = leafkey b -> a = b) ->
    (forall s t, optok s = optok t -> s = t) ->
    (forall a s, leafkey a <> optok s) ->
    forall t1 t2 : tree L, eval_free t1 = true -> eval_free t2 = true ->
      key leafkey optok t1 = key leafkey optok t2 -> t1 = t2.
Proof. exact key_injective. Qed.
Print Assumptions C45_prefix_injective.

(* Structurally identical trees over the same leaf data have equal keys and equal hashes
   (for every hash function of the key; all trees, function nodes included). *)
Theorem C45_equal_trees_equal_keys :
  forall (digest : Type) (sha : buffer -> digest)
         (H : Type) (hash : list (token digest) -> H) (t1 t2 : tree leaf),
    t1 = t2 ->
    okey digest sha t1 = okey digest sha t2 /\
    hash (okey digest sha t1) = hash (okey digest sha t2).
Proof. exact equal_trees_equal_keys. Qed.
Print Assumptions C45_equal_trees_equal_keys.

(* Every leaf class of operators.py: the repaired leaf key determines the leaf data
   (scalar value; array shape and bytes; sparse type/shape/arrays; names, domain ids and
   time-step / iterate indices; projection index arrays, both sizes and the flag; every
   member of a projection list). *)
Theorem C45_leaf_keys_injective :
  forall (digest : Type) (sha : buffer -> digest),
    (forall a b, sha a = sha b -> a = b) ->
    forall l1 l2 : leaf, leaf_key digest sha l1 = leaf_key digest sha l2 -> l1 = l2.
Proof. exact leaf_key_inj. Qed.
Print Assumptions C45_leaf_keys_injective.

(* Trees that differ (in shape, operation, child order or any leaf datum) have different
   keys -- for all trees without function-evaluation nodes.  PARTIAL: the guard
   [eval_free] excludes exactly the region refuted below. *)
Theorem C45_distinct_trees_distinct_keys_partial :
  forall (digest : Type) (sha : buffer -> digest),
    (forall a b, sha a = sha b -> a = b) ->
    forall t1 t2 : tree leaf, eval_free t1 = true -> eval_free t2 = true ->
      (okey digest sha t1 = okey digest sha t2 <-> t1 = t2).
Proof. exact okey_iff. Qed.
Print Assumptions C45_distinct_trees_distinct_keys_partial.

(* The full statement is false of the faithful model: the key of a function-evaluation
   node records neither the function ... *)
Theorem C45_distinct_trees_distinct_keys_refuted :
  forall (digest : Type) (sha : buffer -> digest),
    exists t1 t2 : tree leaf, t1 <> t2 /\ okey digest sha t1 = okey digest sha t2.
Proof.
  intros digest sha. exists (Eval "exp" [wit_x]), (Eval "log" [wit_x]).
  exact (eval_function_collision digest sha).
Qed.
Print Assumptions C45_distinct_trees_distinct_keys_refuted.

(* ... nor the number of its arguments: f(g(x), y) and f(g(x, y)), same functions. *)
Theorem C45_distinct_trees_distinct_keys_arity_refuted :
  forall (digest : Type) (sha : buffer -> digest),
    exists (f g : string) (x y : tree leaf),
      Eval f [Eval g [x]; y] <> Eval f [Eval g [x; y]] /\
      okey digest sha (Eval f [Eval g [x]; y]) = okey digest sha (Eval f [Eval g [x; y]]).
Proof.
  intros digest sha. exists "f"%string, "g"%string, wit_x, wit_y.
  exact (eval_arity_collision digest sha).
Qed.
Print Assumptions C45_distinct_trees_distinct_keys_arity_refuted.

(* Mutating one leaf anywhere in a tree (any surrounding context of operations and
   sibling subtrees) changes the key.  Instances: projections differing only in the domain
   size, a variable against its previous-time-step / previous-iterate copy, index arrays
   differing in one (arbitrarily late) entry. *)
Theorem C45_single_leaf_mutation_changes_key :
  forall (digest : Type) (sha : buffer -> digest),
    (forall a b, sha a = sha b -> a = b) ->
    forall (ctx : list (binop * bool * tree leaf)) (l1 l2 : leaf),
      forallb (fun x => eval_free (snd x)) ctx = true -> l1 <> l2 ->
      okey digest sha (plug ctx (Leaf l1)) <> okey digest sha (plug ctx (Leaf l2)).
Proof. exact distinct_leaves_distinct_keys. Qed.
Print Assumptions C45_single_leaf_mutation_changes_key.

(* String level: if no rendered token is a proper prefix of another, joining the tokens
   with a non-empty separator (" ".join) is injective on non-empty token lists. *)
Theorem C45_join_injective :
  forall (A T : Type) (render : T -> list A) (sep : list A),
    (forall x y r1 r2, render x ++ r1 = render y ++ r2 -> x = y) ->
    sep <> [] ->
    forall ts1 ts2, ts1 <> [] -> ts2 <> [] ->
      join A T render sep ts1 = join A T render sep ts2 -> ts1 = ts2.
Proof. exact join_injective. Qed.
Print Assumptions C45_join_injective.

(* The boolean the correspondence compares with the implementation is key equality under
   an injective hash, i.e. (on eval-free trees) structural equality of the trees. *)
Theorem C45_tie_decides_tree_equality :
  forall t1 t2 : tree leaf, eval_free t1 = true -> eval_free t2 = true ->
    (key_eqb t1 t2 = true <-> t1 = t2).
Proof. exact key_eqb_is_tree_equality. Qed.
Print Assumptions C45_tie_decides_tree_equality.

(* Non-vacuity: the three collisions of the unrepaired code are distinct leaves (so the
   mutation theorem applies to them, in a non-trivial context), and an injective [sha]
   exists. *)
Example C45_nonvacuous :
  let p1 := {| p_range := [0; 1]; p_domain := [0; 1]; p_domain_size := 3;
               p_range_size := 2; p_transposed := false |}%Z in
  let p2 := {| p_range := [0; 1]; p_domain := [0; 1]; p_domain_size := 5;
               p_range_size := 2; p_transposed := false |}%Z in
  let x := LVar "x" 0 (-1) (-1) in
  let xprev := LVar "x" 0 0 (-1) in
  let ctx := [(OAdd, false, Leaf x); (OMul, true, Leaf (LScalar 2))]%Z in
  (forall a b : buffer, (fun c : buffer => c) a = (fun c => c) b -> a = b) /\
  LProj p1 <> LProj p2 /\ x <> xprev /\
  forallb (fun c => eval_free (snd c)) ctx = true /\
  key_eqb (plug ctx (Leaf (LProj p1))) (plug ctx (Leaf (LProj p2))) = false /\
  key_eqb (plug ctx (Leaf x)) (plug ctx (Leaf xprev)) = false /\
  key_eqb (plug ctx (Leaf x)) (plug ctx (Leaf x)) = true /\
  key_eqb (Eval "exp" [Leaf x]) (Eval "log" [Leaf x]) = true.
Proof.
  cbv zeta. repeat split; try (vm_compute; reflexivity); try discriminate. auto.
Qed.
