(* C45 — property theorems only.  Model: PP.Model.C45 (transcription of Operator._key and
   the leaf _key overrides of operators.py after the repair); proofs: PP.Proofs.C45.
   [sha] is sha256(...).hexdigest(); its injectivity on the buffers in play is an explicit
   premise wherever it is needed (never an axiom). *)
From Coq Require Import List ZArith Bool String.
Import ListNotations.
From PP Require Import Model.C45 Proofs.C45.

(* Prefix code: for ANY leaf type and token type, if leaf keys are single tokens that are
   injective and never equal to an operation token, operation tokens are injective and the
   function token of an evaluate node determines function and arity, then the key identifies
   the tree - ALL trees: two-children operation nodes and function nodes of any arity. *)
Theorem C45_prefix_injective :
  forall (L T : Type) (leafkey : L -> T) (optok : string -> T) (functok : string -> nat -> T),
    (forall a b, leafkey a = leafkey b -> a = b) ->
    (forall s t, optok s = optok t -> s = t) ->
    (forall f g n m, functok f n = functok g m -> f = g /\ n = m) ->
    (forall a s, leafkey a <> optok s) ->
    forall t1 t2 : tree L,
      key leafkey optok functok t1 = key leafkey optok functok t2 -> t1 = t2.
Proof. exact key_injective_all. Qed.
Print Assumptions C45_prefix_injective.

(* Structurally identical trees over the same leaf data have equal keys and equal hashes
   (for every hash function of the key; all trees, function nodes included). *)
Theorem C45_equal_trees_equal_keys :
  forall (digest : Type) (sha : buffer -> digest)
         (H : Type) (hash : list (token digest) -> H) (t1 t2 : tree leaf),
    t1 = t2 ->
    okey digest sha t1 = okey digest sha t2 /\
    hash (okey digest sha t1) = hash (okey digest sha t2).
Proof. exact equal_trees_equal_keys. Qed.
Print Assumptions C45_equal_trees_equal_keys.

(* Every leaf class of operators.py: the repaired leaf key determines the leaf data
   (scalar value; array shape and bytes; sparse type/shape/arrays; names, domain ids and
   time-step / iterate indices; projection index arrays, both sizes and the flag; every
   member of a projection list). *)
Theorem C45_leaf_keys_injective :
  forall (digest : Type) (sha : buffer -> digest),
    (forall a b, sha a = sha b -> a = b) ->
    forall l1 l2 : leaf, leaf_key digest sha l1 = leaf_key digest sha l2 -> l1 = l2.
Proof. exact leaf_key_inj. Qed.
Print Assumptions C45_leaf_keys_injective.

(* Trees that differ (in shape, operation, child order, function, number of arguments or
   any leaf datum) have different keys - ALL trees over the leaf classes of operators.py,
   function-evaluation nodes included (full statement; the guard of the earlier _partial
   version is gone with the repair of the evaluate-node key). *)
Theorem C45_distinct_trees_distinct_keys :
  forall (digest : Type) (sha : buffer -> digest),
    (forall a b, sha a = sha b -> a = b) ->
    forall t1 t2 : tree leaf, okey digest sha t1 = okey digest sha t2 <-> t1 = t2.
Proof. exact okey_iff. Qed.
Print Assumptions C45_distinct_trees_distinct_keys.

(* The key construction BEFORE that repair ('evaluate' + children keys) did not identify
   function nodes: exp(x) / log(x) and f(g(x), y) / f(g(x, y)) collide under it.  Kept as the
   record of the finding; the corpus holds the same two witnesses. *)
Theorem C45_old_evaluate_key_refuted :
  forall (digest : Type) (sha : buffer -> digest),
    let ok := old_key (leaf_key digest sha) TOp in
    (exists t1 t2 : tree leaf, t1 <> t2 /\ ok t1 = ok t2) /\
    (exists (f g : string) (x y : tree leaf),
        Eval f [Eval g [x]; y] <> Eval f [Eval g [x; y]] /\
        ok (Eval f [Eval g [x]; y]) = ok (Eval f [Eval g [x; y]])).
Proof.
  intros digest sha ok. destruct (old_key_collisions digest sha) as [[N1 E1] [N2 E2]]. split.
  - exists (Eval "exp" [wit_x]), (Eval "log" [wit_x]). split; assumption.
  - exists "f"%string, "g"%string, wit_x, wit_y. split; assumption.
Qed.
Print Assumptions C45_old_evaluate_key_refuted.

(* Mutating one leaf anywhere in a tree - under any path of operation nodes and function
   nodes with arbitrary sibling subtrees - changes the key.  Instances: projections differing
   only in the domain size, a variable against its previous-time-step / previous-iterate
   copy, index arrays differing in one (arbitrarily late) entry. *)
Theorem C45_single_leaf_mutation_changes_key :
  forall (digest : Type) (sha : buffer -> digest),
    (forall a b, sha a = sha b -> a = b) ->
    forall (ctx : list frame) (l1 l2 : leaf), l1 <> l2 ->
      okey digest sha (plug ctx (Leaf l1)) <> okey digest sha (plug ctx (Leaf l2)).
Proof. exact distinct_leaves_distinct_keys. Qed.
Print Assumptions C45_single_leaf_mutation_changes_key.

(* String level: if no rendered token is a proper prefix of another, joining the tokens
   with a non-empty separator (" ".join) is injective on non-empty token lists. *)
Theorem C45_join_injective :
  forall (A T : Type) (render : T -> list A) (sep : list A),
    (forall x y r1 r2, render x ++ r1 = render y ++ r2 -> x = y) ->
    sep <> [] ->
    forall ts1 ts2, ts1 <> [] -> ts2 <> [] ->
      join A T render sep ts1 = join A T render sep ts2 -> ts1 = ts2.
Proof. exact join_injective. Qed.
Print Assumptions C45_join_injective.

(* The boolean the correspondence compares with the implementation is key equality under
   an injective hash, i.e. structural equality of the trees (all trees). *)
Theorem C45_tie_decides_tree_equality :
  forall t1 t2 : tree leaf, key_eqb t1 t2 = true <-> t1 = t2.
Proof. exact key_eqb_is_tree_equality. Qed.
Print Assumptions C45_tie_decides_tree_equality.

(* Non-vacuity: the collisions of the unrepaired code are distinct leaves / trees (so the
   theorems apply to them, in a non-trivial context with a function node), and an injective
   [sha] exists. *)
Example C45_nonvacuous :
  let p1 := {| p_range := [0; 1]; p_domain := [0; 1]; p_domain_size := 3;
               p_range_size := 2; p_transposed := false |}%Z in
  let p2 := {| p_range := [0; 1]; p_domain := [0; 1]; p_domain_size := 5;
               p_range_size := 2; p_transposed := false |}%Z in
  let x := LVar "x" 0 0 (-1) (-1) in
  let xprev := LVar "x" 0 0 0 (-1) in
  let xintf := LVar "x" 1 0 (-1) (-1) in
  let ctx := [FBinR OAdd (Leaf x); FEval "f" [Leaf (LScalar 1)] [Leaf x];
              FBinL OMul (Leaf (LScalar 2))]%Z in
  (forall a b : buffer, (fun c : buffer => c) a = (fun c => c) b -> a = b) /\
  LProj p1 <> LProj p2 /\ x <> xprev /\ x <> xintf /\
  key_eqb (plug ctx (Leaf x)) (plug ctx (Leaf xintf)) = false /\
  key_eqb (plug ctx (Leaf (LProj p1))) (plug ctx (Leaf (LProj p2))) = false /\
  key_eqb (plug ctx (Leaf x)) (plug ctx (Leaf xprev)) = false /\
  key_eqb (plug ctx (Leaf x)) (plug ctx (Leaf x)) = true /\
  key_eqb (Eval "exp" [Leaf x]) (Eval "log" [Leaf x]) = false /\
  key_eqb (Eval "f" [Eval "g" [Leaf x]; Leaf xprev]) (Eval "f" [Eval "g" [Leaf x; Leaf xprev]]) = false.
Proof.
  cbv zeta. repeat split; try (vm_compute; reflexivity); try discriminate. auto.
Qed.
