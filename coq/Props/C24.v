(* C24 — property theorems only.  Model: PP.Model.C24 (transcription of
   MixedDimensionalGrid), abstract container and well-formedness: PP.Model.C24_spec;
   proofs: PP.Proofs.C24*.

   Vocabulary.  [ops] is ANY list of calls (any length) with [hist_ok sempty ops = true]:
   every call is well-formed w.r.t. the grids that should be present at that moment
   ([okb]: new distinct grids are added; an interface is new, joins two distinct present
   subdomains that are not joined yet, its dimension exceeds neither neighbour's,
   co-dimension <= 2; a removed / replaced subdomain is present; a replacement grid is new
   and of the same dimension) or is of a kind the container must reject ([rejb]: adding a
   present subdomain, adding an existing interface, co-dimension > 2, removing or replacing
   an absent subdomain).  [final ops] is the container (the five dictionaries) after the
   history, [present ops] the subdomains / interfaces that should then be present
   (rejected calls have no effect).  [glt a b]: a has larger dimension than b, or the same
   dimension and a smaller creation id. *)
From Coq Require Import List Arith Permutation Sorted.
Import ListNotations.
From PP Require Import Model.C24 Model.C24_spec Proofs.C24_sort Proofs.C24_inv Proofs.C24.

(* No well-formed call raises; every rejected call raises its documented exception
   (outcome list of the whole history). *)
Theorem C24_history_outcomes :
  forall ops, hist_ok sempty ops = true -> snd (run empty ops) = souts sempty ops.
Proof. exact thm_outcomes. Qed.
Print Assumptions C24_history_outcomes.

(* After any history: a further well-formed call returns normally, and a further call of
   a rejected kind raises and leaves all five dictionaries exactly as they were. *)
Theorem C24_rejected_calls_leave_container_unchanged :
  forall ops o, hist_ok sempty ops = true ->
    (okb (present ops) o = true -> snd (step (final ops) o) = Done) /\
    (forall e, okb (present ops) o = false -> rejb (present ops) o = Some e ->
               step (final ops) o = (final ops, Raised e)).
Proof. exact thm_next_call. Qed.
Print Assumptions C24_rejected_calls_leave_container_unchanged.

(* subdomains() / interfaces(), with or without a dim filter, return each grid that should
   be present (of that dimension) exactly once, sorted by decreasing dimension then
   creation id. *)
Theorem C24_listing_sorted_unique :
  forall ops d, hist_ok sempty ops = true ->
    NoDup (pS (present ops)) /\ NoDup (map fst (pI (present ops))) /\
    (exists L, subdomains (final ops) d = Ok L /\
               Permutation L (dim_filter d (pS (present ops))) /\
               NoDup L /\ StronglySorted glt L) /\
    (exists L, interfaces (final ops) d = Ok L /\
               Permutation L (dim_filter d (map fst (pI (present ops)))) /\
               NoDup L /\ StronglySorted glt L).
Proof. exact thm_listing. Qed.
Print Assumptions C24_listing_sorted_unique.

(* Every interface that should be present joins two distinct present subdomains;
   interface_to_subdomain_pair returns exactly these two, the higher-dimensional (for
   equal dimensions: the older) first; subdomain_pair_to_interface maps the pair, in
   either order, back to the interface. *)
Theorem C24_pair_roundtrip :
  forall ops i a b, hist_ok sempty ops = true -> In (i, (a, b)) (pI (present ops)) ->
    a <> b /\ In a (pS (present ops)) /\ In b (pS (present ops)) /\
    exists hi lo, intf_pair (final ops) i = Ok (hi, lo) /\ glt hi lo /\
                  ((hi = a /\ lo = b) \/ (hi = b /\ lo = a)) /\
                  pair_to_intf (final ops) a b = Ok i /\ pair_to_intf (final ops) b a = Ok i.
Proof. exact thm_pairs. Qed.
Print Assumptions C24_pair_roundtrip.

(* subdomain_to_interfaces(s) returns exactly the interfaces whose pair contains s, once
   each, sorted. *)
Theorem C24_interfaces_of_subdomain :
  forall ops s, hist_ok sempty ops = true ->
    exists L, sd_to_intfs (final ops) s = Ok L /\
              Permutation L (map fst (filter (fun e => touches s (snd e)) (pI (present ops)))) /\
              NoDup L /\ StronglySorted glt L.
Proof. exact thm_sd_intfs. Qed.
Print Assumptions C24_interfaces_of_subdomain.

(* Every present positive-dimensional subdomain has a boundary grid (of dimension one
   less) stored in _boundary_grid_data; 0-d and absent subdomains have none; no two
   subdomains share one; _boundary_grid_data holds no duplicates and no orphans. *)
Theorem C24_one_boundary_grid :
  forall ops, hist_ok sempty ops = true ->
    (forall s, In s (pS (present ops)) -> 0 < fst s ->
       exists bg, sd_to_bg (final ops) s = Some bg /\ fst bg = fst s - 1 /\
                  In bg (bgs (final ops))) /\
    (forall s, ~ In s (pS (present ops)) \/ fst s = 0 -> sd_to_bg (final ops) s = None) /\
    (forall s s' bg, sd_to_bg (final ops) s = Some bg -> sd_to_bg (final ops) s' = Some bg ->
                     s = s') /\
    NoDup (bgs (final ops)) /\
    (forall bg, In bg (bgs (final ops)) ->
       exists s, In s (pS (present ops)) /\ sd_to_bg (final ops) s = Some bg).
Proof. exact thm_boundary. Qed.
Print Assumptions C24_one_boundary_grid.

(* remove_subdomain(s) of a present subdomain (any dimension, 0 included) returns
   normally and deletes exactly: s from _subdomain_data; the interfaces whose stored pair
   contains s ([tch], see C24_stored_pair_contains) from _interface_data and
   _interface_to_subdomains, all other entries unchanged; the entry of s from
   _subdomain_to_boundary_grid and its boundary grid from _boundary_grid_data. *)
Theorem C24_remove_exact :
  forall ops s, hist_ok sempty ops = true -> In s (pS (present ops)) ->
    let g := final ops in
    let g' := fst (step g (RemoveSd s)) in
    snd (step g (RemoveSd s)) = Done /\
    sds g' = filter (fun x => neqb x s) (sds g) /\
    intfs g' = filter (fun i => negb (tch (i2s g) s i)) (intfs g) /\
    (forall j, lookup j (i2s g') = if tch (i2s g) s j then None else lookup j (i2s g)) /\
    (forall s', sd_to_bg g' s' = if geqb s s' then None else sd_to_bg g s') /\
    bgs g' = match sd_to_bg g s with
             | Some bg => filter (fun x => neqb x bg) (bgs g)
             | None => bgs g
             end.
Proof. exact thm_remove. Qed.
Print Assumptions C24_remove_exact.

Theorem C24_stored_pair_contains :
  forall ops s i p, hist_ok sempty ops = true -> In (i, p) (pI (present ops)) ->
    tch (i2s (final ops)) s i = touches s p.
Proof. exact thm_tch. Qed.
Print Assumptions C24_stored_pair_contains.

(* Non-vacuity: a history with grids of all dimensions, interfaces of co-dimension 1,
   a rejected co-dimension-3 interface, a rejected re-addition, replacement and removal of
   a 0-d subdomain (the calls that raised KeyError before the repair) and removal of a
   subdomain that carries an interface. *)
Example C24_nonvacuous :
  let ops := [AddSd [(2, 1); (1, 2); (0, 3); (3, 0)];
              AddIntf (1, 0) (1, 2) (2, 1);
              AddIntf (0, 1) (0, 3) (1, 2);
              AddIntf (0, 2) (3, 0) (0, 3);
              Replace [] [((0, 3), (0, 4))];
              AddSd [(2, 1)];
              RemoveSd (2, 1);
              RemoveSd (0, 4)] in
  hist_ok sempty ops = true /\
  snd (run empty ops) = [Done; Done; Done; Raised ValueErr; Done; Raised ValueErr; Done; Done] /\
  pS (present ops) = [(1, 2); (3, 0)] /\ pI (present ops) = [] /\
  subdomains (final ops) None = Ok [(3, 0); (1, 2)] /\
  s2b (final ops) = [((1, 2), (0, 1)); ((3, 0), (2, 2))] /\
  (let ops5 := firstn 5 ops in
   pI (present ops5) = [((1, 0), ((1, 2), (2, 1))); ((0, 1), ((0, 4), (1, 2)))] /\
   intf_pair (final ops5) (0, 1) = Ok ((1, 2), (0, 4)) /\
   interfaces (final ops5) None = Ok [(1, 0); (0, 1)]).
Proof. vm_compute. repeat split; reflexivity. Qed.

(* Outside the theorems' domain (documented, not claimed): an interface coupling a
   subdomain with itself is not well-formed; removing the last subdomain while it carries
   one raises AssertionError after the subdomain has been deleted. *)
Example C24_self_coupled_outside_domain :
  let ops := [AddSd [(1, 0)]; AddIntf (0, 0) (1, 0) (1, 0); RemoveSd (1, 0)] in
  hist_ok sempty ops = false /\
  snd (run empty ops) = [Done; Done; Raised AssertErr] /\
  sds (final ops) = [] /\ intfs (final ops) = [(0, 0)].
Proof. vm_compute. repeat split; reflexivity. Qed.
