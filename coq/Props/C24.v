(* C24 — property theorems only.  Model: PP.Model.C24 (transcription of
   MixedDimensionalGrid), abstract container and well-formedness: PP.Model.C24_spec;
   proofs: PP.Proofs.C24*.

   Vocabulary.  [ops] is ANY list of calls (any length) with [hist_ok sempty ops = true]:
   every call is well-formed w.r.t. the grids that should be present at that moment
   ([okb]: new distinct grids are added; an interface is new, joins two present
   subdomains (possibly one subdomain with itself) that are not joined yet, its dimension
   exceeds neither neighbour's, co-dimension <= 2; a removed / replaced subdomain is
   present; a replacement grid is new and of the same dimension) or is of a kind the
   container must reject ([rejb]: adding a present subdomain or one grid twice in one call,
   adding an existing interface, co-dimension > 2, removing or replacing an absent
   subdomain).  [final ops] is the container (the five dictionaries) after the
   history, [present ops] the subdomains / interfaces that should then be present
   (rejected calls have no effect).  [glt a b]: a has larger dimension than b, or the same
   dimension and a smaller creation id. *)
From Coq Require Import List Arith Bool Permutation Sorted.
Import ListNotations.
From PP Require Import Model.C24 Model.C24_spec Model.C24_data Proofs.C24_sort Proofs.C24_inv
  Proofs.C24 Proofs.C24_query Proofs.C24_data.

(* No well-formed call raises; every rejected call raises its documented exception
   (outcome list of the whole history). *)
Theorem C24_history_outcomes :
  forall ops, hist_ok sempty ops = true -> snd (run empty ops) = souts sempty ops.
Proof. exact thm_outcomes. Qed.
Print Assumptions C24_history_outcomes.

(* After any history: a further well-formed call returns normally, and a further call of
   a rejected kind raises and leaves all five dictionaries exactly as they were. *)
Theorem C24_rejected_calls_leave_container_unchanged :
  forall ops o, hist_ok sempty ops = true ->
    (okb (present ops) o = true -> snd (step (final ops) o) = Done) /\
    (forall e, okb (present ops) o = false -> rejb (present ops) o = Some e ->
               step (final ops) o = (final ops, Raised e)).
Proof. exact thm_next_call. Qed.
Print Assumptions C24_rejected_calls_leave_container_unchanged.

(* subdomains() / interfaces(), with or without a dim filter, return each grid that should
   be present (of that dimension) exactly once, sorted by decreasing dimension then
   creation id. *)
Theorem C24_listing_sorted_unique :
  forall ops d, hist_ok sempty ops = true ->
    NoDup (pS (present ops)) /\ NoDup (map fst (pI (present ops))) /\
    (exists L, subdomains (final ops) d = Ok L /\
               Permutation L (dim_filter d (pS (present ops))) /\
               NoDup L /\ StronglySorted glt L) /\
    (exists L, interfaces (final ops) d = Ok L /\
               Permutation L (dim_filter d (map fst (pI (present ops)))) /\
               NoDup L /\ StronglySorted glt L).
Proof. exact thm_listing. Qed.
Print Assumptions C24_listing_sorted_unique.

(* Every interface that should be present joins present subdomains;
   interface_to_subdomain_pair returns exactly these two, the higher-dimensional (for
   equal dimensions: the older) first (for a self-coupled subdomain: twice that one);
   subdomain_pair_to_interface maps the pair, in either order, back to the interface. *)
Theorem C24_pair_roundtrip :
  forall ops i a b, hist_ok sempty ops = true -> In (i, (a, b)) (pI (present ops)) ->
    In a (pS (present ops)) /\ In b (pS (present ops)) /\
    exists hi lo, intf_pair (final ops) i = Ok (hi, lo) /\ (a <> b -> glt hi lo) /\
                  ((hi = a /\ lo = b) \/ (hi = b /\ lo = a)) /\
                  pair_to_intf (final ops) a b = Ok i /\ pair_to_intf (final ops) b a = Ok i.
Proof. exact thm_pairs. Qed.
Print Assumptions C24_pair_roundtrip.

(* subdomain_to_interfaces(s) returns exactly the interfaces whose pair contains s, once
   each, sorted. *)
Theorem C24_interfaces_of_subdomain :
  forall ops s, hist_ok sempty ops = true ->
    exists L, sd_to_intfs (final ops) s = Ok L /\
              Permutation L (map fst (filter (fun e => touches s (snd e)) (pI (present ops)))) /\
              NoDup L /\ StronglySorted glt L.
Proof. exact thm_sd_intfs. Qed.
Print Assumptions C24_interfaces_of_subdomain.

(* Every present positive-dimensional subdomain has a boundary grid (of dimension one
   less) stored in _boundary_grid_data; 0-d and absent subdomains have none; no two
   subdomains share one; _boundary_grid_data holds no duplicates and no orphans. *)
Theorem C24_one_boundary_grid :
  forall ops, hist_ok sempty ops = true ->
    (forall s, In s (pS (present ops)) -> 0 < fst s ->
       exists bg, sd_to_bg (final ops) s = Some bg /\ fst bg = fst s - 1 /\
                  In bg (bgs (final ops))) /\
    (forall s, ~ In s (pS (present ops)) \/ fst s = 0 -> sd_to_bg (final ops) s = None) /\
    (forall s s' bg, sd_to_bg (final ops) s = Some bg -> sd_to_bg (final ops) s' = Some bg ->
                     s = s') /\
    NoDup (bgs (final ops)) /\
    (forall bg, In bg (bgs (final ops)) ->
       exists s, In s (pS (present ops)) /\ sd_to_bg (final ops) s = Some bg).
Proof. exact thm_boundary. Qed.
Print Assumptions C24_one_boundary_grid.

(* remove_subdomain(s) of a present subdomain (any dimension, 0 included) returns
   normally and deletes exactly: s from _subdomain_data; the interfaces whose stored pair
   contains s ([tch], see C24_stored_pair_contains) from _interface_data and
   _interface_to_subdomains, all other entries unchanged; the entry of s from
   _subdomain_to_boundary_grid and its boundary grid from _boundary_grid_data. *)
Theorem C24_remove_exact :
  forall ops s, hist_ok sempty ops = true -> In s (pS (present ops)) ->
    let g := final ops in
    let g' := fst (step g (RemoveSd s)) in
    snd (step g (RemoveSd s)) = Done /\
    sds g' = filter (fun x => neqb x s) (sds g) /\
    intfs g' = filter (fun i => negb (tch (i2s g) s i)) (intfs g) /\
    (forall j, lookup j (i2s g') = if tch (i2s g) s j then None else lookup j (i2s g)) /\
    (forall s', sd_to_bg g' s' = if geqb s s' then None else sd_to_bg g s') /\
    bgs g' = match sd_to_bg g s with
             | Some bg => filter (fun x => neqb x bg) (bgs g)
             | None => bgs g
             end.
Proof. exact thm_remove. Qed.
Print Assumptions C24_remove_exact.

Theorem C24_stored_pair_contains :
  forall ops s i p, hist_ok sempty ops = true -> In (i, p) (pI (present ops)) ->
    tch (i2s (final ops)) s i = touches s p.
Proof. exact thm_tch. Qed.
Print Assumptions C24_stored_pair_contains.

(* boundaries(dim) lists the boundary grids (those of C24_one_boundary_grid) exactly once,
   sorted, whenever the container is empty or holds a positive-dimensional subdomain; when
   all subdomains are 0-d it raises ValueError (documented behaviour of the method). *)
Theorem C24_boundaries_listing :
  forall ops d, hist_ok sempty ops = true ->
    ((pS (present ops) = [] \/ exists s, In s (pS (present ops)) /\ 0 < fst s) ->
     exists L, boundaries (final ops) d = Ok L /\
               Permutation L (dim_filter d (bgs (final ops))) /\
               NoDup L /\ StronglySorted glt L) /\
    (pS (present ops) <> [] -> (forall s, In s (pS (present ops)) -> fst s = 0) ->
     boundaries (final ops) d = Err ValueErr).
Proof. exact thm_boundaries. Qed.
Print Assumptions C24_boundaries_listing.

(* interfaces(dim, codim), for any co-dimension attributes [cm] of the mortar grids. *)
Theorem C24_interfaces_codim_listing :
  forall cm ops d c, hist_ok sempty ops = true ->
    exists L, interfaces_cd cm (final ops) d c = Ok L /\
              Permutation L (codim_filter cm c (dim_filter d (map fst (pI (present ops))))) /\
              NoDup L /\ StronglySorted glt L.
Proof. exact thm_interfaces_cd. Qed.
Print Assumptions C24_interfaces_codim_listing.

(* neighboring_subdomains(s, only_higher, only_lower): ValueError when both flags are
   set; otherwise the other ends of the interfaces of s ([neigh_raw] on the pairs that
   should be present; s itself for a self-coupling), filtered by dimension, once each,
   sorted. *)
Theorem C24_neighbours :
  forall ops s hi lo, hist_ok sempty ops = true ->
    (hi && lo = true -> neighbours (final ops) s hi lo = Err ValueErr) /\
    (hi && lo = false ->
     exists L, neighbours (final ops) s hi lo = Ok L /\
               Permutation L (nb_filter s hi lo (neigh_raw s (pI (present ops)))) /\
               NoDup L /\ StronglySorted glt L).
Proof. exact thm_neighbours. Qed.
Print Assumptions C24_neighbours.

(* Data dictionaries (Model/C24_data: [runD] runs the container together with the record
   of which dictionary object is stored under which key; [tok_ok keys m n]: every key has
   a dictionary created by the container (token < n) and no two keys share one).  After
   any history every present subdomain and every present interface has a dictionary of
   its own. *)
Theorem C24_data_own_dictionary :
  forall ops, hist_ok sempty ops = true ->
    fst (runD empty dempty ops) = final ops /\
    tok_ok (pS (present ops)) (vS (final_data ops)) (nd (final_data ops)) /\
    tok_ok (map fst (pI (present ops))) (vI (final_data ops)) (nd (final_data ops)).
Proof. exact thm_data. Qed.
Print Assumptions C24_data_own_dictionary.

(* Replacing subdomain o by the new grid n (same dimension) after any history: n gets
   o's dictionary, every other subdomain and every interface keeps its own, and the
   dictionary of o's boundary grid is handed on to the boundary grid created for n. *)
Theorem C24_data_follows_replacement :
  forall ops o n, hist_ok sempty ops = true ->
    In o (pS (present ops)) -> ~ In n (pS (present ops)) -> fst n = fst o ->
    let g := final ops in let d := final_data ops in
    let d' := stepD g d (Replace [] [(o, n)]) in
    lookup n (vS d') = lookup o (vS d) /\
    (forall k, k <> n -> lookup k (vS d') = lookup k (vS d)) /\
    vI d' = vI d /\
    (forall bgo, 0 < fst o -> sd_to_bg g o = Some bgo ->
                 vB d' = copy bgo (fst n - 1, nbg g) (vB d)) /\
    (fst o = 0 -> vB d' = vB d).
Proof. exact thm_data_replace. Qed.
Print Assumptions C24_data_follows_replacement.

(* Non-vacuity: a history with grids of all dimensions, interfaces of co-dimension 1, a
   subdomain coupled to itself, a rejected co-dimension-3 interface, a rejected
   re-addition and a rejected duplicate, replacement and removal of a 0-d subdomain and
   of the self-coupled subdomain (the calls that failed before the repairs) and removal
   of a subdomain that carries an interface. *)
Example C24_nonvacuous :
  let ops := [AddSd [(2, 1); (1, 2); (0, 3); (3, 0)];
              AddIntf (1, 0) (1, 2) (2, 1);
              AddIntf (0, 1) (0, 3) (1, 2);
              AddIntf (0, 2) (3, 0) (0, 3);
              Replace [] [((0, 3), (0, 4))];
              AddSd [(2, 1)];
              AddSd [(1, 7); (1, 7)];
              AddIntf (1, 3) (2, 1) (2, 1);
              Replace [] [((2, 1), (2, 5))];
              RemoveSd (2, 5);
              RemoveSd (0, 4)] in
  hist_ok sempty ops = true /\
  snd (run empty ops) = [Done; Done; Done; Raised ValueErr; Done; Raised ValueErr;
                         Raised ValueErr; Done; Done; Done; Done] /\
  pS (present ops) = [(1, 2); (3, 0)] /\ pI (present ops) = [] /\
  subdomains (final ops) None = Ok [(3, 0); (1, 2)] /\
  boundaries (final ops) None = Ok [(2, 2); (0, 1)] /\
  (let ops9 := firstn 9 ops in
   pI (present ops9) = [((1, 0), ((1, 2), (2, 5))); ((0, 1), ((0, 4), (1, 2)));
                        ((1, 3), ((2, 5), (2, 5)))] /\
   intf_pair (final ops9) (0, 1) = Ok ((1, 2), (0, 4)) /\
   intf_pair (final ops9) (1, 3) = Ok ((2, 5), (2, 5)) /\
   interfaces (final ops9) None = Ok [(1, 0); (1, 3); (0, 1)] /\
   interfaces_cd [((1, 3), 0)] (final ops9) None (Some 1) = Ok [(1, 0); (0, 1)] /\
   neighbours (final ops9) (2, 5) false false = Ok [(2, 5); (1, 2)] /\
   neighbours (final ops9) (1, 2) false true = Ok [(0, 4)] /\
   neighbours (final ops9) (1, 2) true true = Err ValueErr).
Proof. vm_compute. repeat split; reflexivity. Qed.

(* boundaries() with 0-d subdomains only (second clause of C24_boundaries_listing). *)
Example C24_boundaries_0d :
  let ops := [AddSd [(0, 0); (0, 1)]] in
  hist_ok sempty ops = true /\ boundaries (final ops) None = Err ValueErr.
Proof. vm_compute. split; reflexivity. Qed.

(* Data dictionaries: the replacement grid inherits the dictionary (token 1) of the grid
   it replaces, also through two replacements; removal and re-addition gives a new one. *)
Example C24_data_nonvacuous :
  let ops := [AddSd [(2, 0); (1, 1)]; AddIntf (1, 0) (2, 0) (1, 1);
              Replace [] [((1, 1), (1, 2))]; Replace [] [((1, 2), (1, 3)); ((2, 0), (2, 4))];
              RemoveSd (1, 3); AddSd [(1, 1)]] in
  hist_ok sempty ops = true /\
  data_of (sds (final ops)) (vS (final_data ops)) = [((2, 4), Some 0); ((1, 1), Some 5)] /\
  data_of (bgs (final ops)) (vB (final_data ops)) = [((1, 4), Some 2); ((0, 5), Some 6)] /\
  (let ops4 := firstn 4 ops in
   data_of (sds (final ops4)) (vS (final_data ops4)) = [((1, 3), Some 1); ((2, 4), Some 0)] /\
   data_of (intfs (final ops4)) (vI (final_data ops4)) = [((1, 0), Some 4)]).
Proof. vm_compute. repeat split; reflexivity. Qed.
