(* C01 — property theorems only.
   Model: PP.Model.C01 (rule table of forward_mode.py / functions.py, polymorphic in the
   number type) and PP.Model.C01R (its instance over the reals).
   Proofs: PP.Proofs.C01 (arithmetic rules), PP.Proofs.C01_fun (function library),
   PP.Proofs.C01_comp (linear maps, l2_norm, composition).

   Reading: [eval_ad ROps e x v i] is entry i of the AdArray the implementation builds
   for the expression tree e at the point x, as (value, (Jacobian @ v)_i); with v the
   j-th unit vector its second component is the Jacobian entry (i, j).
   [eval_plain ROps e x i] is entry i of the plain numpy evaluation of the same tree. *)
From Coq Require Import Reals ZArith List Lra.
From Coquelicot Require Import Coquelicot.
From PP Require Import Model.C01 Model.C01R Model.C01X Proofs.C01 Proofs.C01_fun Proofs.C01_comp
  Proofs.C01_lin Proofs.C01X.
Import ListNotations.
Open Scope R_scope.

(* Values: for EVERY expression tree, point and entry (no smoothness needed) the value
   part of the AD evaluation is the plain evaluation. *)
Theorem C01_value :
  forall (e : expr R) (x v : env (T:=R)) (i : nat),
    fst (eval_ad ROps e x v i) = eval_plain ROps e x i.
Proof. exact value_thm. Qed.
Print Assumptions C01_value.

(* Jacobians: for EVERY expression tree e (all overloads incl. the reflected ones, sparse
   left products, slicing, all library functions, l2_norm, maximum, composed to any
   depth), every point x at which entry i of e is evaluated inside the smooth domain of
   each rule it uses, and every direction v: the plain evaluation of e along the line
   x + t v is differentiable at t = 0 and its derivative is what the rule table
   computes.  (v = unit vector j: Jacobian entry (i, j) is the partial derivative.) *)
Theorem C01_jacobian :
  forall (e : expr R) (x v : env (T:=R)) (i : nat),
    smooth e x i ->
    is_derive (fun t => eval_plain ROps e (shift x v t) i) 0 (snd (eval_ad ROps e x v i)).
Proof. exact jacobian_thm. Qed.
Print Assumptions C01_jacobian.

(* functions.py: for every function of the table (exp log abs sin cos tan arcsin arccos
   arctan sinh cosh tanh arcsinh arccosh arctanh heaviside heaviside_smooth
   characteristic_function) the factor the code scales the Jacobian with is the
   derivative of the value expression, on the function's smooth domain. *)
Theorem C01_function_table :
  forall (f : fn R) (x : R),
    fsmooth f x -> is_derive (fval ROps f) x (ffac ROps f x).
Proof. exact fun_rule. Qed.
Print Assumptions C01_function_table.

(* forward_mode.py, the rules with a genuine chain-rule content, for arbitrary
   differentiable operands u, w (du, dw their derivatives at t) *)
Theorem C01_rule_mul :
  forall (u w : R -> R) (t du dw : R), is_derive u t du -> is_derive w t dw ->
    is_derive (fun s => u s * w s) t (snd (d_mul_ad ROps (u t, du) (w t, dw))).
Proof. exact rule_mul_ad. Qed.
Print Assumptions C01_rule_mul.

Theorem C01_rule_truediv :
  forall (u w : R -> R) (t du dw : R), is_derive u t du -> is_derive w t dw ->
    w t <> 0 ->
    is_derive (fun s => u s / w s) t (snd (d_div_ad ROps (u t, du) (w t, dw))).
Proof. exact rule_div_ad. Qed.
Print Assumptions C01_rule_truediv.

Theorem C01_rule_rtruediv :
  forall (u : R -> R) (t du : R), is_derive u t du ->
    forall c : R, u t <> 0 ->
    is_derive (fun s => c / u s) t (snd (d_rdiv_s ROps (u t, du) c)).
Proof. exact rule_rdiv_s. Qed.
Print Assumptions C01_rule_rtruediv.

Theorem C01_rule_pow_int :
  forall (u : R -> R) (t du : R), is_derive u t du ->
    forall n : Z, (u t <> 0 \/ (1 <= n)%Z) ->
    is_derive (fun s => powerRZ (u s) n) t (snd (d_powz_k ROps (u t, du) n)).
Proof. exact rule_powz_k. Qed.
Print Assumptions C01_rule_pow_int.

Theorem C01_rule_pow_real :
  forall (u : R -> R) (t du : R), is_derive u t du ->
    forall p : R, 0 < u t ->
    is_derive (fun s => Rpower (u s) p) t (snd (d_powr_k ROps (u t, du) p)).
Proof. exact rule_powr_k. Qed.
Print Assumptions C01_rule_pow_real.

Theorem C01_rule_pow_ad :
  forall (u w : R -> R) (t du dw : R), is_derive u t du -> is_derive w t dw ->
    0 < u t ->
    is_derive (fun s => Rpower (u s) (w s)) t (snd (d_pow_ad ROps (u t, du) (w t, dw))).
Proof. exact rule_pow_ad. Qed.
Print Assumptions C01_rule_pow_ad.

Theorem C01_rule_rpow :
  forall (u : R -> R) (t du : R), is_derive u t du ->
    forall c : R,
    is_derive (fun s => Rpower c (u s)) t (snd (d_rpow_k ROps (u t, du) c)).
Proof. exact rule_rpow_k. Qed.
Print Assumptions C01_rule_rpow.

Theorem C01_rule_rsub :
  forall (u : R -> R) (t du : R), is_derive u t du ->
    forall c : R,
    is_derive (fun s => c - u s) t (snd (d_rsub_k ROps (u t, du) c)).
Proof. exact rule_rsub_k. Qed.
Print Assumptions C01_rule_rsub.

(* maximum(a, b) away from ties *)
Theorem C01_rule_maximum :
  forall (u w : R -> R) (t du dw : R), is_derive u t du -> is_derive w t dw ->
    u t <> w t ->
    is_derive (fun s => max_plain ROps (u s) (w s)) t
              (snd (d_max ROps (u t, du) (w t, dw))).
Proof. exact rule_max. Qed.
Print Assumptions C01_rule_maximum.

(* one row of a sparse left product A @ a *)
Theorem C01_rule_matmul_row :
  forall (row : list (nat * R)) (U : nat -> R -> R) (dU : nat -> R) (t : R),
    (forall j, In j (map fst row) -> is_derive (U j) t (dU j)) ->
    is_derive (fun s => lin_plain ROps row (fun j => U j s)) t
              (snd (lin_dual ROps row (fun j => (U j t, dU j)))).
Proof. exact rule_lin. Qed.
Print Assumptions C01_rule_matmul_row.

(* one block of l2_norm(dim, a), dim > 1, block norm above the code's 1e-12 switch *)
Theorem C01_rule_l2_block :
  forall (js : list nat) (U : nat -> R -> R) (dU : nat -> R) (t : R),
    (forall j, In j js -> is_derive (U j) t (dU j)) ->
    l2_tol ROps < l2_val ROps (map (fun j => U j t) js) ->
    is_derive (fun s => l2_val ROps (map (fun j => U j s) js)) t
              (snd (l2_dual ROps (map (fun j => (U j t, dU j)) js))).
Proof. exact rule_l2. Qed.
Print Assumptions C01_rule_l2_block.

(* Non-vacuity: exp(x0) / (x0 * x1 + 2) at (1, 1), direction d/dx0, is inside the smooth
   domain and the rule table yields 2e/9. *)
Example C01_nonvacuous :
  let e := Div (Fun Fexp (Var 0)) (AddK (Mul (Var 0) (Var 1)) (CS 2)) in
  let x := (fun (k i : nat) => 1) : env (T:=R) in
  let v := (fun (k i : nat) => match k with O => 1 | _ => 0 end) : env (T:=R) in
  smooth e x 0 /\ snd (eval_ad ROps e x v 0%nat) = 2 * exp 1 / 9.
Proof.
  cbv zeta. split.
  - cbn. repeat split; auto. lra.
  - cbn [eval_ad cget]. unf. change (-1 - 1)%Z with (-2)%Z. rewrite pz_m1, pz_m2. field.
Qed.

(* Non-vacuity of the guarded domains: restricted functions have points in their domain,
   and a tree using sparse product, slicing, l2_norm and maximum is smooth somewhere. *)
Example C01_domains_inhabited :
  fsmooth Farccosh 2 /\ fsmooth Farcsin (1 / 2) /\ fsmooth (Fcharacteristic (1 / 4)) 1 /\
  fsmooth Ftan 0 /\
  let e := Max (L2 2 (Slice [1; 0]%nat (Var 0)))
               (MatMul [[(0%nat, 2); (1%nat, 3)]] (Fun Fabs (Var 0))) in
  let x := (fun (k i : nat) => match i with O => 3 | _ => 4 end) : env (T:=R) in
  smooth e x 0.
Proof.
  assert (E : sqrt (4 * 4 + (3 * 3 + 0)) = 5).
  { replace (4 * 4 + (3 * 3 + 0)) with (5 * 5) by ring. apply sqrt_square. lra. }
  cbv zeta. split; [|split; [|split; [|split]]].
  - simpl. lra.
  - simpl. lra.
  - simpl. rewrite Rabs_right; lra.
  - simpl. rewrite cos_0. lra.
  - cbn [smooth Nat.eqb]. split; [split|split].
    + intros j _. exact I.
    + unfold l2_tol, l2_val, sumsq, block. simpl. rewrite E. lra.
    + intros j Hj. simpl in Hj. destruct Hj as [<-|[<-|[]]]; simpl; split; try exact I; lra.
    + unfold l2_val, sumsq, block, max_plain, lin_plain. simpl.
      rewrite E, !np_abs_pos by lra. lra.
Qed.

(* ---------------------------------------------------------------- second round *)

(* The derivative part of the rule table is linear in the direction (every tree, every
   point, no smoothness needed): the table defines a Jacobian MATRIX. *)
Theorem C01_jacobian_linear :
  forall (e : expr R) (x v w : env (T:=R)) (a b : R) (i : nat),
    snd (eval_ad ROps e x (lincomb a b v w) i)
    = a * snd (eval_ad ROps e x v i) + b * snd (eval_ad ROps e x w i).
Proof. exact linear_thm. Qed.
Print Assumptions C01_jacobian_linear.

(* Matrix form: along any finite combination  sum_j c_j d_j  of directions the plain
   evaluation is differentiable with derivative  sum_j c_j * (Jacobian row i applied to
   d_j); with the d_j unit vectors this is row i of the Jacobian matrix times the
   coefficient vector. *)
Theorem C01_jacobian_matrix :
  forall (e : expr R) (x : env (T:=R)) (i : nat) (cs : list (R * env (T:=R))),
    smooth e x i ->
    is_derive (fun t => eval_plain ROps e (shift x (comb cs) t) i) 0
      (fold_right (fun cd acc => fst cd * snd (eval_ad ROps e x (snd cd) i) + acc) 0 cs).
Proof.
  intros e x i cs Hs. rewrite <- matrix_thm. apply jacobian_thm. exact Hs.
Qed.
Print Assumptions C01_jacobian_matrix.

(* safe_power(power, zero_val, tol, var) (after the repair of its Jacobian): away from the
   switch |x| = tol the factor is the derivative of the value, for any differentiable
   argument *)
Theorem C01_rule_safe_power :
  forall (p : pexp R) (zv tol : R) (u : R -> R) (t du : R),
    is_derive u t du -> sp_smooth p tol (u t) ->
    is_derive (fun s => sp_val ROps p zv tol (u s)) t
              (snd (d_safe_power ROps p zv tol (u t, du))).
Proof. exact rule_safe_power. Qed.
Print Assumptions C01_rule_safe_power.

(* a[idx] = b: every row of the result is row k of b (idx[k] = i, last such k) or row i of
   a when i is not assigned; holds for (value, derivative) pairs alike *)
Theorem C01_setitem_rows :
  forall (A : Type) (idx : list nat) (a b : nat -> A) (i : nat),
    (exists k, set_rows idx a b i = b k /\ nth_error idx k = Some i) \/
    (set_rows idx a b i = a i /\ ~ In i idx).
Proof. exact @set_rows_cases. Qed.
Print Assumptions C01_setitem_rows.

Example C01_round2_nonvacuous :
  sp_smooth (PZ (-1)) (1 / 1000) 2 /\ sp_smooth (PR (1 / 2)) (1 / 1000) 2 /\
  sp_smooth (PZ 2) (1 / 1000) 0 /\
  snd (d_safe_power ROps (PZ (-1)) 7 (1 / 1000) (2, 1)) = - / 4 /\
  set_rows [1; 0; 1]%nat (fun i => (10 + i)%nat) (fun k => (20 + k)%nat) 1%nat = 22%nat.
Proof.
  split; [|split; [|split; [|split]]].
  - unfold sp_smooth. rewrite Rabs_right by lra. repeat split; try lra; try (intros; exact I).
  - unfold sp_smooth. rewrite Rabs_right by lra. repeat split; try lra; try (intros; lra).
  - unfold sp_smooth. rewrite Rabs_R0. repeat split; try lra; try (intros; exact I).
  - unfold d_safe_power, sp_fac. rewrite np_abs_Rabs. cbn [fst snd oltb ROps].
    rewrite ltbR_true by (rewrite Rabs_right; lra).
    unf. change (-1 - 1)%Z with (-2)%Z. rewrite pz_m2. field.
  - reflexivity.
Qed.
