(* C30 — property theorems only.  Model: PP.Model.C30 (transcription of point_pointset,
   points_segments, segment_segment_set on squared distances; numeric record and vectors of
   PP.Model.C32); proofs: PP.Proofs.C30 (real instance [RO]). *)
From Coq Require Import Reals Lra List QArith.
Import ListNotations.
From PP Require Import Model.C32 Model.C30 Proofs.C32 Proofs.C30 Proofs.C30_opt Proofs.C30_poly.
Open Scope R_scope.

(* point-point: the squared Euclidean distance (nonnegative). *)
Theorem C30_point_point :
  forall p q : v3 R,
    point_point_sq R RO p q = dot R RO (vsub R RO p q) (vsub R RO p q) /\
    0 <= point_point_sq R RO p q.
Proof. intros p q. split; [reflexivity | apply point_point_nonneg]. Qed.
Print Assumptions C30_point_point.

(* point-segment: whenever a value is returned, the closest point lies on the segment
   (parameter in [0,1]), the returned squared distance is attained there, and it is the
   minimum over the WHOLE segment. *)
Theorem C30_point_segment_optimal :
  forall (p a b : v3 R) (d2 : R) (cp : v3 R),
    point_segment R RO p a b = Ok (d2, cp) ->
    (exists s, 0 <= s <= 1 /\ cp = vadd R RO a (vscale R RO s (vsub R RO b a))) /\
    d2 = normsq R RO (vsub R RO p cp) /\
    forall t, 0 <= t <= 1 ->
      d2 <= normsq R RO (vsub R RO p (vadd R RO a (vscale R RO t (vsub R RO b a)))).
Proof. exact point_segment_spec. Qed.
Print Assumptions C30_point_segment_optimal.

(* ... and a value is returned for every segment of positive length (a zero-length
   segment gives NaN in the code = Err NanErr in the model). *)
Theorem C30_point_segment_total :
  forall p a b : v3 R,
    0 < dot R RO (vsub R RO b a) (vsub R RO b a) ->
    exists r, point_segment R RO p a b = Ok r.
Proof. exact point_segment_total. Qed.
Print Assumptions C30_point_segment_total.

(* segment-segment, every branch of the case analysis (also inside the tolerance band):
   for segments of positive length a result is returned,
   both parameters lie in [0,1], the closest points are the corresponding points of the
   two segments and the returned squared distance is their squared distance.
   (_partial in the name: this statement alone does not give optimality; see
   C30_segseg_optimal_partial below for the global minimum off the tolerance band.) *)
Theorem C30_segseg_sound_partial :
  forall (a b c d : v3 R),
    0 < dot R RO (vsub R RO b a) (vsub R RO b a) ->
    0 < dot R RO (vsub R RO d c) (vsub R RO d c) ->
    exists dist2 cp1 cp2 sc tc,
      seg_seg R RO a b c d = Ok (dist2, cp1, cp2, sc, tc) /\
      0 <= sc <= 1 /\ 0 <= tc <= 1 /\
      cp1 = vadd R RO a (vscale R RO sc (vsub R RO b a)) /\
      cp2 = vadd R RO c (vscale R RO tc (vsub R RO d c)) /\
      dist2 = normsq R RO (vsub R RO cp1 cp2).
Proof. exact seg_seg_sound. Qed.
Print Assumptions C30_segseg_sound_partial.

(* segment_segment_set(a, b, set): the same for every segment of a set of positive-length
   segments (the tolerances are relative, per pair). *)
Theorem C30_segseg_set_sound_partial :
  forall (a b : v3 R) (set : list (v3 R * v3 R)),
    proper (a, b) -> Forall proper set ->
    seg_seg_set R RO a b set = map (fun s => seg_seg R RO a b (fst s) (snd s)) set /\
    forall s, In s set ->
      exists dist2 cp1 cp2 sc tc,
        seg_seg R RO a b (fst s) (snd s) = Ok (dist2, cp1, cp2, sc, tc) /\
        0 <= sc <= 1 /\ 0 <= tc <= 1 /\
        cp1 = vadd R RO a (vscale R RO sc (vsub R RO b a)) /\
        cp2 = vadd R RO (fst s) (vscale R RO tc (vsub R RO (snd s) (fst s))) /\
        dist2 = normsq R RO (vsub R RO cp1 cp2).
Proof. exact seg_seg_set_sound. Qed.
Print Assumptions C30_segseg_set_sound_partial.

(* segment-segment, GLOBAL OPTIMALITY off the tolerance band: whenever [off_band] holds --
   the discriminant is 0 (exactly parallel) or >= 1e-8*|d1|^2*|d2|^2, and the final
   numerators sN, tN are 0 or >= 1e-8 times their denominators, i.e. none of the three
   (relative) tolerance masks alters the exact algorithm -- the returned squared distance is the minimum of
   |a + s(b-a) - c - t(d-c)|^2 over the whole square [0,1]^2 (all 28 branch combinations;
   convexity argument + KKT per stage).
   _partial: inside the band the result is in general NOT the minimum (nearly parallel
   segments are treated as parallel, tiny parameters are set to 0): see the Example
   C30_segseg_band_example below. *)
Theorem C30_segseg_optimal_partial :
  forall (a b c d : v3 R) dist2 cp1 cp2 sc tc,
    0 < dot R RO (vsub R RO b a) (vsub R RO b a) ->
    0 < dot R RO (vsub R RO d c) (vsub R RO d c) ->
    off_band R RO a b c d = true ->
    seg_seg R RO a b c d = Ok (dist2, cp1, cp2, sc, tc) ->
    forall s t, 0 <= s <= 1 -> 0 <= t <= 1 ->
      dist2 <= normsq R RO (vsub R RO (vadd R RO a (vscale R RO s (vsub R RO b a)))
                                       (vadd R RO c (vscale R RO t (vsub R RO d c)))).
Proof. exact seg_seg_optimal. Qed.
Print Assumptions C30_segseg_optimal_partial.

(* ... for segment_segment_set. *)
Theorem C30_segseg_set_optimal_partial :
  forall (a b : v3 R) (set : list (v3 R * v3 R)),
    proper (a, b) -> Forall proper set -> off_band_set R RO a b set = true ->
    forall s0, In s0 set ->
      forall dist2 cp1 cp2 sc tc,
        seg_seg R RO a b (fst s0) (snd s0) = Ok (dist2, cp1, cp2, sc, tc) ->
        forall s t, 0 <= s <= 1 -> 0 <= t <= 1 ->
          dist2 <= normsq R RO
                     (vsub R RO (vadd R RO a (vscale R RO s (vsub R RO b a)))
                                (vadd R RO (fst s0) (vscale R RO t (vsub R RO (snd s0) (fst s0))))).
Proof. exact seg_seg_set_optimal. Qed.
Print Assumptions C30_segseg_set_optimal_partial.

(* segment_set (all pairs): for positive-length segments and i < j the entries (i,j) and
   (j,i) carry the same squared distance, the closest points lie on segment i resp. j and
   realise it; off the band it is the minimum over both segments.  The diagonal holds 0 and the mid points. *)
Theorem C30_segment_set :
  forall (segs : list (v3 R * v3 R)) (i j : nat) (si sj : v3 R * v3 R),
    Forall proper segs -> (i < j)%nat ->
    nth_error segs i = Some si -> nth_error segs j = Some sj ->
    exists d2 p q sc tc,
      sset_entry R RO segs i j = Ok (d2, p) /\ sset_entry R RO segs j i = Ok (d2, q) /\
      0 <= sc <= 1 /\ 0 <= tc <= 1 /\
      p = vadd R RO (fst si) (vscale R RO sc (vsub R RO (snd si) (fst si))) /\
      q = vadd R RO (fst sj) (vscale R RO tc (vsub R RO (snd sj) (fst sj))) /\
      d2 = normsq R RO (vsub R RO p q) /\
      (off_band R RO (fst si) (snd si) (fst sj) (snd sj) = true ->
       forall s t, 0 <= s <= 1 -> 0 <= t <= 1 ->
         d2 <= normsq R RO
                 (vsub R RO (vadd R RO (fst si) (vscale R RO s (vsub R RO (snd si) (fst si))))
                            (vadd R RO (fst sj) (vscale R RO t (vsub R RO (snd sj) (fst sj)))))).
Proof. exact segment_set_spec. Qed.
Print Assumptions C30_segment_set.

Theorem C30_segment_set_diagonal :
  forall (segs : list (v3 R * v3 R)) (i : nat) (si : v3 R * v3 R),
    nth_error segs i = Some si ->
    sset_entry R RO segs i i
    = Ok (0, vadd R RO (fst si) (vscale R RO (1 / (1 + 1)) (vsub R RO (snd si) (fst si)))).
Proof. exact segment_set_diag. Qed.
Print Assumptions C30_segment_set_diagonal.

(* points_polygon for a polygon whose vertices lie in a plane m.v = dd (m <> 0), any
   tolerances, whenever a result (d2, cp, in_poly) is returned.  [n] is the unit normal
   computed by the code from the centred vertices; it spans the same direction as m.
   * in_poly = False (the transcribed point_in_polygon test says the projection is not
     inside): cp lies in the plane, on an edge of the polygon, d2 = |p - cp|^2, and d2 is
     the minimum of the squared distance over ALL points of ALL edges (the whole boundary).
   * in_poly = True, under [plane_guard n] (the normal is outside numpy's allclose band
     around +-e_z, or exactly +-e_z; inside the band the code uses the identity as rotation
     and the result is off the plane by up to ~1e-8*|p|): cp is the orthogonal projection
     of p onto the plane, lies in the plane, d2 = |p - cp|^2 and d2 is the minimum of the
     squared distance over the whole plane (hence over the polygon).
   _partial: that cp is inside the polygon when in_poly = True (resp. that no interior
   point is closer when in_poly = False) rests on the correctness of the winding-number
   test point_in_polygon, which is transcribed but NOT proved here (C31 proves it for
   convex polygons on its own model); checked by the exact oracle incl. non-convex polygons. *)
Theorem C30_points_polygon_sound_partial :
  forall (ptol tol : R) (p : v3 R) (poly : list (v3 R)) (m : v3 R) (dd : R)
         (d2 : R) (cp : v3 R) (inp : bool),
    0 < dot R RO m m -> Forall (fun v => dot R RO m v = dd) poly ->
    points_polygon R RO ptol tol p poly = Ok (d2, cp, inp) ->
    let center := mean R RO poly in
    exists n, compute_normal R RO (map (fun v => vsub R RO v center) poly) ptol = Ok n /\
      dot R RO n n = 1 /\ (forall x, dot R RO m x = 0 <-> dot R RO n x = 0) /\
      (inp = false ->
         dot R RO m cp = dd /\ d2 = normsq R RO (vsub R RO p cp) /\
         (exists e s, In e (edges R poly) /\ 0 <= s <= 1 /\
                      cp = vadd R RO (fst e) (vscale R RO s (vsub R RO (snd e) (fst e)))) /\
         (forall e t, In e (edges R poly) -> 0 <= t <= 1 ->
            d2 <= normsq R RO (vsub R RO p (vadd R RO (fst e)
                                              (vscale R RO t (vsub R RO (snd e) (fst e))))))) /\
      (inp = true -> plane_guard n ->
         dot R RO m cp = dd /\ d2 = normsq R RO (vsub R RO p cp) /\
         cp = vsub R RO p (vscale R RO (dot R RO n (vsub R RO p center)) n) /\
         (forall y, dot R RO m y = dd -> d2 <= normsq R RO (vsub R RO p y))).
Proof. exact points_polygon_spec. Qed.
Print Assumptions C30_points_polygon_sound_partial.

(* ------------------------------------------------------------------ non-vacuity *)
Example C30_nonvacuous_hyps :
  proper ((0, 0, 0), (2, 0, 0)) /\ Forall proper [((1, -1, 1), (1, 1, 1)); ((3, 1, 0), (4, 5, 0))].
Proof.
  unfold proper. cbv [dot vsub vx vy vz fst snd n_mul n_add n_sub RO].
  split; [lra|]. repeat constructor; cbv [fst snd]; lra.
Qed.

(* the same model on the rational instance: interior closest point, end point closest,
   skew segments, parallel segments, zero-length segment *)
Example C30_nonvacuous_model_runs :
  point_segment Q QO (1, 2, 0)%Q (0, 0, 0)%Q (4, 0, 0)%Q = Ok (4, (1, 0, 0))%Q /\
  point_segment Q QO (-3, 4, 0)%Q (0, 0, 0)%Q (4, 0, 0)%Q = Ok (25, (0, 0, 0))%Q /\
  point_segment Q QO (1, 2, 0)%Q (0, 0, 0)%Q (0, 0, 0)%Q = Err NanErr /\
  seg_seg_set Q QO (0, 0, 0)%Q (2, 0, 0)%Q [((1, -1, 1), (1, 1, 1)); ((0, 1, 0), (2, 1, 0))]%Q
    = [Ok (1, (1, 0, 0), (1, 0, 1), 1 # 2, 1 # 2); Ok (1, (0, 0, 0), (0, 1, 0), 0, 0)]%Q.
Proof. vm_compute. repeat split. Qed.

(* off-band guard: true on ordinary configurations, false for nearly parallel segments *)
Example C30_off_band_examples :
  off_band_set Q QO (0, 0, 0)%Q (2, 0, 0)%Q
    [((1, -1, 1), (1, 1, 1)); ((0, 1, 0), (2, 1, 0)); ((3, 1, 0), (4, 5, 0))]%Q = true /\
  off_band Q QO (0, 0, 0)%Q (2, 0, 0)%Q (0, -(1 # 100000), 0)%Q (2, 1 # 100000, 0)%Q = false.
Proof. vm_compute. split; reflexivity. Qed.

(* inside the band the result need not be the minimum: two segments crossing at (1,0,0)
   under an angle of 1e-5 are treated as parallel; the model (like the code) returns the
   squared distance 1e-10 although the segments intersect (s = t = 1/2 gives 0) *)
Example C30_segseg_band_example :
  (exists cp1 cp2 sc tc,
     seg_seg Q QO (0, 0, 0)%Q (2, 0, 0)%Q (0, -(1 # 100000), 0)%Q (2, 1 # 100000, 0)%Q
     = Ok ((1 # 10000000000)%Q, cp1, cp2, sc, tc)) /\
  normsq Q QO (vsub Q QO (vadd Q QO (0, 0, 0) (vscale Q QO (1 # 2) (2, 0, 0)))
                         (vadd Q QO (0, -(1 # 100000), 0) (vscale Q QO (1 # 2) (2, 2 # 100000, 0))))%Q
    = 0%Q.
Proof. split; [do 4 eexists; vm_compute; reflexivity | vm_compute; reflexivity]. Qed.

(* points_polygon / segment_set on the rational instance: a point above a tilted
   rectangle (inside), beside it (outside), above the notch of a U-shaped polygon; entries
   of segment_set *)
Example C30_nonvacuous_polygon_runs :
  points_polygon Q QO (1 # 100000) (1 # 100000) (1, 1, 5)%Q [(0,0,0);(4,0,3);(4,2,3);(0,2,0)]%Q
    = Ok (289 # 25, (76 # 25, 1, 57 # 25), true)%Q /\
  points_polygon Q QO (1 # 100000) (1 # 100000) (9, 1, 5)%Q [(0,0,0);(4,0,3);(4,2,3);(0,2,0)]%Q
    = Ok (29, (4, 1, 3), false)%Q /\
  points_polygon Q QO (1 # 100000) (1 # 100000) (3, 3, 2)%Q
      [(0,0,0);(6,0,0);(6,5,0);(4,5,0);(4,1,0);(2,1,0);(2,5,0);(0,5,0)]%Q
    = Ok (5, (4, 3, 0), false)%Q /\
  sset_entry Q QO [((0,0,0),(1,0,0)); ((0,1,0),(1,1,0)); ((3,0,1),(3,2,1))]%Q 0 2
    = Ok (5, (1, 0, 0))%Q /\
  sset_entry Q QO [((0,0,0),(1,0,0)); ((0,1,0),(1,1,0)); ((3,0,1),(3,2,1))]%Q 2 0
    = Ok (5, (3, 0, 1))%Q /\
  sset_entry Q QO [((0,0,0),(1,0,0)); ((0,1,0),(1,1,0)); ((3,0,1),(3,2,1))]%Q 1 1
    = Ok (0, (1 # 2, 1, 0))%Q.
Proof. vm_compute. repeat split. Qed.

(* the planarity / guard hypotheses are satisfiable over R *)
Example C30_nonvacuous_plane_hyps :
  0 < dot R RO (3, 0, -4) (3, 0, -4) /\
  Forall (fun v => dot R RO (3, 0, -4) v = 0) [(0,0,0); (4,0,3); (4,2,3); (0,2,0)] /\
  plane_guard (0, 0, 1).
Proof.
  cbv [dot vx vy vz fst snd n_mul n_add RO]. split; [lra|]. split.
  - repeat constructor; lra.
  - right. cbv [cross ez zero3 vx vy vz fst snd n_mul n_sub n_zero n_one RO].
    f_equal; [f_equal|]; ring.
Qed.
