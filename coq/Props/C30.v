(* C30 — property theorems only.  Model: PP.Model.C30 (transcription of point_pointset,
   points_segments, segment_segment_set on squared distances; numeric record and vectors of
   PP.Model.C32); proofs: PP.Proofs.C30 (real instance [RO]). *)
From Coq Require Import Reals Lra List QArith.
Import ListNotations.
From PP Require Import Model.C32 Model.C30 Proofs.C32 Proofs.C30.
Open Scope R_scope.

(* point-point: the squared Euclidean distance (nonnegative). *)
Theorem C30_point_point :
  forall p q : v3 R,
    point_point_sq R RO p q = dot R RO (vsub R RO p q) (vsub R RO p q) /\
    0 <= point_point_sq R RO p q.
Proof. intros p q. split; [reflexivity | apply point_point_nonneg]. Qed.
Print Assumptions C30_point_point.

(* point-segment: whenever a value is returned, the closest point lies on the segment
   (parameter in [0,1]), the returned squared distance is attained there, and it is the
   minimum over the WHOLE segment. *)
Theorem C30_point_segment_optimal :
  forall (p a b : v3 R) (d2 : R) (cp : v3 R),
    point_segment R RO p a b = Ok (d2, cp) ->
    (exists s, 0 <= s <= 1 /\ cp = vadd R RO a (vscale R RO s (vsub R RO b a))) /\
    d2 = normsq R RO (vsub R RO p cp) /\
    forall t, 0 <= t <= 1 ->
      d2 <= normsq R RO (vsub R RO p (vadd R RO a (vscale R RO t (vsub R RO b a)))).
Proof. exact point_segment_spec. Qed.
Print Assumptions C30_point_segment_optimal.

(* ... and a value is returned for every segment of positive length (a zero-length
   segment gives NaN in the code = Err NanErr in the model). *)
Theorem C30_point_segment_total :
  forall p a b : v3 R,
    0 < dot R RO (vsub R RO b a) (vsub R RO b a) ->
    exists r, point_segment R RO p a b = Ok r.
Proof. exact point_segment_total. Qed.
Print Assumptions C30_point_segment_total.

(* segment-segment, every branch of the case analysis, ANY positive tolerance (so also
   inside the SMALL_TOLERANCE band): for segments of positive length a result is returned,
   both parameters lie in [0,1], the closest points are the corresponding points of the
   two segments and the returned squared distance is their squared distance.
   _partial: global optimality of (sc, tc) is NOT proved (checked by the exact rational
   oracle on every generated configuration). *)
Theorem C30_segseg_sound_partial :
  forall (small : R) (a b c d : v3 R),
    0 < small ->
    0 < dot R RO (vsub R RO b a) (vsub R RO b a) ->
    0 < dot R RO (vsub R RO d c) (vsub R RO d c) ->
    exists dist2 cp1 cp2 sc tc,
      seg_seg R RO small a b c d = Ok (dist2, cp1, cp2, sc, tc) /\
      0 <= sc <= 1 /\ 0 <= tc <= 1 /\
      cp1 = vadd R RO a (vscale R RO sc (vsub R RO b a)) /\
      cp2 = vadd R RO c (vscale R RO tc (vsub R RO d c)) /\
      dist2 = normsq R RO (vsub R RO cp1 cp2).
Proof. exact seg_seg_sound. Qed.
Print Assumptions C30_segseg_sound_partial.

(* segment_segment_set(a, b, set): with the tolerance the code derives from the whole set,
   the same holds for every segment of a set of positive-length segments. *)
Theorem C30_segseg_set_sound_partial :
  forall (a b : v3 R) (set : list (v3 R * v3 R)),
    proper (a, b) -> Forall proper set ->
    seg_seg_set R RO a b set
      = map (fun s => seg_seg R RO (small_tol R RO a b set) a b (fst s) (snd s)) set /\
    forall s, In s set ->
      exists dist2 cp1 cp2 sc tc,
        seg_seg R RO (small_tol R RO a b set) a b (fst s) (snd s)
          = Ok (dist2, cp1, cp2, sc, tc) /\
        0 <= sc <= 1 /\ 0 <= tc <= 1 /\
        cp1 = vadd R RO a (vscale R RO sc (vsub R RO b a)) /\
        cp2 = vadd R RO (fst s) (vscale R RO tc (vsub R RO (snd s) (fst s))) /\
        dist2 = normsq R RO (vsub R RO cp1 cp2).
Proof. exact seg_seg_set_sound. Qed.
Print Assumptions C30_segseg_set_sound_partial.

(* ------------------------------------------------------------------ non-vacuity *)
Example C30_nonvacuous_hyps :
  proper ((0, 0, 0), (2, 0, 0)) /\ Forall proper [((1, -1, 1), (1, 1, 1)); ((3, 1, 0), (4, 5, 0))].
Proof.
  unfold proper. cbv [dot vsub vx vy vz fst snd n_mul n_add n_sub RO].
  split; [lra|]. repeat constructor; cbv [fst snd]; lra.
Qed.

(* the same model on the rational instance: interior closest point, end point closest,
   skew segments, parallel segments, zero-length segment *)
Example C30_nonvacuous_model_runs :
  point_segment Q QO (1, 2, 0)%Q (0, 0, 0)%Q (4, 0, 0)%Q = Ok (4, (1, 0, 0))%Q /\
  point_segment Q QO (-3, 4, 0)%Q (0, 0, 0)%Q (4, 0, 0)%Q = Ok (25, (0, 0, 0))%Q /\
  point_segment Q QO (1, 2, 0)%Q (0, 0, 0)%Q (0, 0, 0)%Q = Err NanErr /\
  seg_seg_set Q QO (0, 0, 0)%Q (2, 0, 0)%Q [((1, -1, 1), (1, 1, 1)); ((0, 1, 0), (2, 1, 0))]%Q
    = [Ok (1, (1, 0, 0), (1, 0, 1), 1 # 2, 1 # 2); Ok (1, (0, 0, 0), (0, 1, 0), 0, 0)]%Q.
Proof. vm_compute. repeat split. Qed.
