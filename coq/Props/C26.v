(* C26 — property theorems only.  Model: PP.Model.C26 (transcription of
   MortarGrid._init_projections / _set_projections / update_mortar / update_secondary /
   _check_mappings for 1-D mortar grids, match_1d weights from PP.Model.C33); proofs:
   PP.Proofs.C26.

   Vocabulary: matrices are coordinate lists (duplicates add up).  [row_sum a i], [col_sum a j]
   as in C33;  [csum p a j] : sum of column j over the rows selected by p (p = the mortar
   cells of ONE side);  [rsum p a i] : sum of row i over the columns selected by p;
   [last_state s0 (run nrm tol s0 ops)] : the state after the whole history (or its first
   exception).

   WHAT IS PROVED / NOT PROVED.  Full: the transpose relations after construction and after
   every history (C26_transposes, C26_transpose_sums); the weights of every block that
   update_mortar / update_secondary build (C26_block_weights, from C33); when the updates
   raise (C26_update_error).  Partial (suffix _partial): the preservation of unit row sums /
   per-side unit column sums is proved for the matrix product that the updates perform, with
   the facts about the block-diagonal / stacked arrangement of the blocks as hypotheses; NOT
   proved in Coq: (i) that sps.bmat's arrangement (bdiag / vstack of the model) of blocks with
   the proved weights satisfies those hypotheses (index bookkeeping), (ii) the sums right
   after _init_projections (stable sort + even/odd split), (iii) update_primary.  These are
   covered on every run by the execution correspondence and the oracle only. *)
From Coq Require Import List QArith Bool Arith Lia.
Import ListNotations.
From PP Require Import Model.C33 Proofs.C33 Model.C26 Proofs.C26.
Open Scope Q_scope.

(* After construction and after EVERY history of update_mortar / update_secondary (1-D mortars,
   and 2-D mortars with the overlap areas as data of the operation) that does not raise, the mortar-to-grid integrated maps are the transposes of the grid-to-mortar
   averaged maps and vice versa (all four pairs). *)
Theorem C26_transposes :
  forall nrm tol sg np ns ps fdi ops s0 s',
    init_projections sg np ns ps fdi = inr s0 ->
    last_state s0 (run nrm tol s0 ops) = inr s' ->
    m2p_int s' = mtrans (p2m_avg s') /\ m2p_avg s' = mtrans (p2m_int s') /\
    m2s_int s' = mtrans (s2m_avg s') /\ m2s_avg s' = mtrans (s2m_int s').
Proof. exact history_transposes. Qed.
Print Assumptions C26_transposes.

(* Hence every row-sum statement about a mortar-to-grid map is the column-sum statement
   about the transposed grid-to-mortar map and vice versa, also per side. *)
Theorem C26_transpose_sums :
  forall (p : nat -> bool) (a : mat) (k : nat),
    row_sum (mtrans a) k == col_sum a k /\ col_sum (mtrans a) k == row_sum a k /\
    rsum p (mtrans a) k == csum p a k.
Proof. exact transpose_sums. Qed.
Print Assumptions C26_transpose_sums.

(* Weights of the blocks: for a side grid and a replacement that tessellate the same
   segment, the 'averaged' block has unit row sums and the 'integrated' block unit column
   sums on every cell of positive length (C33's overlap theorem). *)
Theorem C26_block_weights :
  forall nrm tol new old lo hi,
    0 < nrm -> tessellates new lo hi -> tessellates old lo hi ->
    (forall m, match_cells nrm tol Averaged new old = inr m ->
       forall i, (i < length new)%nat -> ~ degenerate (nth i new (0, 0)) -> row_sum m i == 1) /\
    (forall m, match_cells nrm tol Integrated new old = inr m ->
       forall j, (j < length old)%nat -> ~ degenerate (nth j old (0, 0)) -> col_sum m j == 1).
Proof. exact match_cells_sums. Qed.
Print Assumptions C26_block_weights.

(* 2-D mortar grids (match_2d): the overlap areas of shapely are data of the operation; when
   they satisfy C33's area contract for a cell (they sum to its volume) the 'averaged' block
   has a unit row sum / the 'integrated' block a unit column sum there. *)
Theorem C26_block_weights_2d :
  forall tol b,
    (forall i, (i < length (kb_vnew b))%nat -> ~ nth i (kb_vnew b) 0 == 0 ->
       row_sum (kb_isect b) i == nth i (kb_vnew b) 0 ->
       row_sum (kmatch tol Averaged b) i == 1) /\
    (forall j, (j < length (kb_vold b))%nat -> ~ nth j (kb_vold b) 0 == 0 ->
       col_sum (kb_isect b) j == nth j (kb_vold b) 0 ->
       col_sum (kmatch tol Integrated b) j == 1).
Proof. exact kmatch_sums. Qed.
Print Assumptions C26_block_weights_2d.

(* Averaged projections stay averaged: the update  P_avg := M * P_avg  keeps the sum of row i
   equal to that of M's row i (= 1 by C26_block_weights) when the rows of P_avg that M's
   row i refers to sum to 1.  [partial: the hypothesis about M = bmat(blocks) is not derived
   from the block arrangement in Coq] *)
Theorem C26_avg_rows_preserved_partial :
  forall (m p : mat) (i : nat),
    (forall x, In x m -> erow x = i -> row_sum p (ecol x) == 1) ->
    row_sum (mprod m p) i == row_sum m i.
Proof. exact mprod_unit_rows. Qed.
Print Assumptions C26_avg_rows_preserved_partial.

(* Integrated projections stay integrated, side by side: if the column sums of M over the
   new mortar cells of a side (rows p') are 1 on the old mortar cells of that side (rows p)
   and 0 elsewhere — block-diagonal M with unit column sums per block — then the column sums
   of  M * P_int  over p' equal those of P_int over p: totals per side are preserved.
   [partial: as above] *)
Theorem C26_int_side_cols_preserved_partial :
  forall (p' p : nat -> bool) (m pint : mat) (j : nat),
    (forall y, In y pint -> ecol y = j ->
       csum p' m (erow y) == if p (erow y) then 1 else 0) ->
    csum p' (mprod m pint) j == csum p pint j.
Proof. exact mprod_side_cols. Qed.
Print Assumptions C26_int_side_cols_preserved_partial.

(* project_to_side_grids: in every state the side restrictions pick every mortar cell exactly
   once, side after side (their columns, concatenated, are 0..num_cells-1 — the offset of a
   side is the cumulative cell count of the preceding sides, whatever their sizes), row r of
   a side is its r-th cell and all weights are 1.  So "per side" in the oracle/tie and "through
   project_to_side_grids" are the same restriction. *)
Theorem C26_side_restrictions_partition :
  forall s,
    map ecol (concat (project_to_side_grids s)) = seq 0 (n_mortar s) /\
    Forall (fun e => ewt e = 1) (concat (project_to_side_grids s)) /\
    map (map erow) (project_to_side_grids s) = map (fun g => seq 0 (length g)) (sides s).
Proof. exact project_to_side_grids_partition. Qed.
Print Assumptions C26_side_restrictions_partition.

(* The updates raise IndexError only for zero-length cells in both grids of a pair. *)
Theorem C26_update_error :
  forall nrm tol sc new old e,
    match_cells nrm tol sc new old = inl e ->
    e = MIndexErr /\ exists a b, In a new /\ In b old /\ degenerate a /\ degenerate b.
Proof. exact match_cells_error. Qed.
Print Assumptions C26_update_error.

(* ---------------- non-vacuity ---------------- *)
(* one fracture cell, two sides (faces 2 and 3 of 4); the left side is refined into
   [0,1/2],[1/2,1], then the fracture grid is replaced by [1,1/4],[1/4,0] *)
Example C26_nonvacuous :
  let sg := [[(0, 1)]; [(0, 1)]] in
  let ps := [(0%nat, 2%nat, 1); (0%nat, 3%nat, 1)] in
  let ops := [UpdMortar [Some [(0, 1 # 2); (1 # 2, 1)]; None];
              UpdSecondary [(1, 1 # 4); (1 # 4, 0)]] in
  exists s0 s', init_projections sg 4 1 ps None = inr s0 /\
    last_state s0 (run 1 (1 # 10000) s0 ops) = inr s' /\
    n_mortar s' = 3%nat /\
    forallb (fun m => Qeq_bool (row_sum (p2m_avg s') m) 1 && Qeq_bool (row_sum (s2m_avg s') m) 1)
            (seq 0 3) = true /\
    (* per side (rows 0-1 = left, row 2 = right): integrated columns sum to one *)
    Qeq_bool (csum (fun r => Nat.ltb r 2) (p2m_int s') 2) 1 = true /\
    Qeq_bool (csum (fun r => Nat.ltb r 2) (s2m_int s') 0) 1 = true /\
    Qeq_bool (csum (fun r => Nat.ltb r 2) (s2m_int s') 1) 1 = true /\
    Qeq_bool (csum (fun r => Nat.eqb r 2) (s2m_int s') 1) 1 = true.
Proof.
  cbv zeta. eexists. eexists.
  split; [vm_compute; reflexivity|]. split; [vm_compute; reflexivity|].
  repeat split; vm_compute; reflexivity.
Qed.

Example C26_nonvacuous_blocks :
  tessellates [(0, 1 # 2); (1 # 2, 1)] 0 1 /\ tessellates [(1, 0)] 0 1 /\
  exists m, match_cells 1 (1 # 10000) Averaged [(0, 1 # 2); (1 # 2, 1)] [(1, 0)] = inr m.
Proof.
  split; [|split].
  - exists [(0, 1 # 2); (1 # 2, 1)]. split; [apply Permutation.Permutation_refl|].
    cbn [chain]. repeat split; vm_compute; reflexivity.
  - exists [(1, 0)]. split; [apply Permutation.Permutation_refl|].
    cbn [chain]. repeat split; vm_compute; reflexivity.
  - eexists. vm_compute. reflexivity.
Qed.
