(* C21 — property theorems only.  Model: PP.Model.C21 (transcription of the connectivity
   queries of porepy/grids/grid.py on the stored entries (row, col, value) of cell_faces and
   face_nodes); proofs: PP.Proofs.C21.
   [wf nf nc cf]: indices in range, every face has one or two stored entries with values
   +1/-1 (opposite when two), one stored entry per (face, cell).
   [one_adjacent cf f]: face f has exactly one adjacent cell. *)
From Coq Require Import List ZArith Bool Arith Lia.
Import ListNotations.
From Coq Require Import Permutation.
From PP Require Import Model.C21 Proofs.C21 Model.C21_ext Proofs.C21_ext.
Open Scope Z_scope.

(* The executable well-formedness check the tie evaluates on every real grid implies the
   hypothesis used below. *)
Theorem C21_wf_checker_sound :
  forall nf nc cf, wf_b nf nc cf = true -> wf nf nc cf.
Proof. exact wf_b_sound. Qed.
Print Assumptions C21_wf_checker_sound.

(* cell_faces_as_dense: two rows of length num_faces; row 0 holds, per face, the cell with
   sign +1, row 1 the cell with sign -1, and -1 exactly where there is no such cell. *)
Theorem C21_dense :
  forall nf nc cf, wf nf nc cf ->
    length (fst (dense nf cf)) = nf /\ length (snd (dense nf cf)) = nf /\
    forall f, (f < nf)%nat ->
      (forall c, In (Z.of_nat f, c, 1) cf -> nth f (fst (dense nf cf)) (-1) = c) /\
      ((forall c, ~ In (Z.of_nat f, c, 1) cf) -> nth f (fst (dense nf cf)) (-1) = -1) /\
      (forall c, In (Z.of_nat f, c, -1) cf -> nth f (snd (dense nf cf)) (-1) = c) /\
      ((forall c, ~ In (Z.of_nat f, c, -1) cf) -> nth f (snd (dense nf cf)) (-1) = -1).
Proof. exact dense_spec. Qed.
Print Assumptions C21_dense.

(* update_boundary_face_tag (grids of dimension > 0): the tagged faces are exactly those
   with one adjacent cell. *)
Theorem C21_boundary_faces :
  forall dim nf nc cf, wf nf nc cf -> 0 < dim ->
    length (bnd_tag dim nf cf) = nf /\
    forall f, (f < nf)%nat ->
      (nth f (bnd_tag dim nf cf) false = true <-> one_adjacent cf (Z.of_nat f)).
Proof. exact bnd_tag_spec. Qed.
Print Assumptions C21_boundary_faces.

(* 0-d grids: no face is tagged. *)
Theorem C21_boundary_faces_0d :
  forall dim nf cf, dim <= 0 -> bnd_tag dim nf cf = repeat false nf.
Proof. exact bnd_tag_0d. Qed.
Print Assumptions C21_boundary_faces_0d.

(* cell_connection_map is symmetric — for ANY list of stored entries. *)
Theorem C21_connection_symmetric :
  forall cf i j, conn_true cf i j = conn_true cf j i.
Proof. exact conn_sym. Qed.
Print Assumptions C21_connection_symmetric.

(* cell_connection_map relates exactly the cells that share a face ... *)
Theorem C21_connection_map :
  forall nf nc cf i j, wf nf nc cf ->
    (conn_true cf i j = true <-> exists f v w, In (f, i, v) cf /\ In (f, j, w) cf).
Proof. exact conn_spec. Qed.
Print Assumptions C21_connection_map.

(* ... in particular the diagonal is set for every cell that has a face (the code does
   not make the map irreflexive). *)
Theorem C21_connection_diagonal :
  forall nf nc cf i, wf nf nc cf ->
    (conn_true cf i i = true <-> exists f v, In (f, i, v) cf).
Proof. exact conn_diag. Qed.
Print Assumptions C21_connection_diagonal.

(* signs_and_cells_of_boundary_faces, for EVERY list of in-range faces (any order,
   duplicates allowed): if all listed faces have one adjacent cell the call succeeds and
   returns, position by position, the sign and the cell of the face's unique stored entry;
   if some listed face has two adjacent cells it raises ValueError. *)
Theorem C21_signs_and_cells :
  forall nf nc cf faces, wf nf nc cf ->
    (forall f, In f faces -> 0 <= f < Z.of_nat nf) ->
    ((forall f, In f faces -> one_adjacent cf f) ->
       exists sgn ci, signs_cells cf faces = Ok (sgn, ci) /\
         length sgn = length faces /\ length ci = length faces /\
         forall j c v, (j < length faces)%nat -> In (nth j faces 0, c, v) cf ->
                       nth j ci 0 = c /\ nth j sgn 0 = v) /\
    ((exists f, In f faces /\ ~ one_adjacent cf f) -> signs_cells cf faces = Err ValueErr).
Proof. exact signs_cells_spec. Qed.
Print Assumptions C21_signs_and_cells.

(* cell_nodes: node n belongs to cell c iff n is a node of some face of c. *)
Theorem C21_cell_nodes :
  forall nf nc fn cf n c, wf nf nc cf -> (forall a, In a fn -> e_v a = 1) ->
    (cn_true fn cf n c = true <-> exists f v, In (n, f, 1) fn /\ In (f, c, v) cf).
Proof. exact cn_spec. Qed.
Print Assumptions C21_cell_nodes.

(* divergence(1) is the transpose of the incidence — for ANY stored entries (dense
   semantics: duplicates add up). *)
Theorem C21_divergence_scalar :
  forall cf, exists m, divergence cf 1 = Ok m /\ forall c f, entry m c f = entry cf f c.
Proof. exact div_scalar. Qed.
Print Assumptions C21_divergence_scalar.

(* divergence(dim), dim > 1, is the scalar divergence expanded per component: rows
   c*dim+k, columns f*dim+l; block (k,l) is the transposed incidence when k = l and zero
   otherwise — for ANY stored entries.  (Every row/column index has exactly one such
   decomposition with 0 <= k, l < dim.) *)
Theorem C21_divergence_vector :
  forall cf dim, 1 < dim -> exists m, divergence cf dim = Ok m /\
    forall c f k l, 0 <= k < dim -> 0 <= l < dim ->
      entry m (c * dim + k) (f * dim + l) = if k =? l then entry cf f c else 0.
Proof. exact div_vector. Qed.
Print Assumptions C21_divergence_vector.

(* divergence(dim) with dim < 1 raises ValueError. *)
Theorem C21_divergence_error :
  forall cf dim, dim < 1 -> divergence cf dim = Err ValueErr.
Proof. exact div_err. Qed.
Print Assumptions C21_divergence_error.

(* numpy's default argsort is not stable: with repeated face numbers np.argsort(faces) may be
   ANY sorting permutation.  The result of signs_and_cells_of_boundary_faces is the same for
   every permutation IA of the positions used in its place (the model's [signs_cells] is the
   instance IA = stable argsort); the later argsorts act on distinct keys. *)
Theorem C21_signs_and_cells_any_argsort :
  forall nf nc cf faces IA, wf nf nc cf ->
    Permutation IA (seq 0 (length faces)) ->
    (forall f, In f faces -> 0 <= f < Z.of_nat nf) ->
    ((forall f, In f faces -> one_adjacent cf f) ->
       exists sgn ci, signs_cells_perm cf faces IA = Ok (sgn, ci) /\
         length sgn = length faces /\ length ci = length faces /\
         forall j c v, (j < length faces)%nat -> In (nth j faces 0, c, v) cf ->
                       nth j ci 0 = c /\ nth j sgn 0 = v) /\
    ((exists f, In f faces /\ ~ one_adjacent cf f) -> signs_cells_perm cf faces IA = Err ValueErr).
Proof. exact signs_cells_perm_spec. Qed.
Print Assumptions C21_signs_and_cells_any_argsort.

Theorem C21_signs_and_cells_is_instance :
  forall cf faces, signs_cells cf faces = signs_cells_perm cf faces (argsort faces).
Proof. exact signs_cells_is_perm. Qed.
Print Assumptions C21_signs_and_cells_is_instance.

(* Face numbers as numpy reads them: a number outside [-num_faces, num_faces) raises IndexError
   (before anything else); numbers in [-num_faces, 0) denote face f + num_faces; then as above. *)
Theorem C21_signs_and_cells_index_handling :
  forall nf nc cf faces, wf nf nc cf ->
    ((exists f, In f faces /\ ~ (- Z.of_nat nf <= f < Z.of_nat nf)) ->
       signs_cells_idx nf cf faces = Err2 IndexErr2) /\
    ((forall f, In f faces -> - Z.of_nat nf <= f < Z.of_nat nf) ->
       let fw := map (wrap nf) faces in
       ((forall f, In f fw -> one_adjacent cf f) ->
          exists sgn ci, signs_cells_idx nf cf faces = Ok2 (sgn, ci) /\
            length sgn = length faces /\ length ci = length faces /\
            forall j c v, (j < length faces)%nat -> In (nth j fw 0, c, v) cf ->
                          nth j ci 0 = c /\ nth j sgn 0 = v) /\
       ((exists f, In f fw /\ ~ one_adjacent cf f) -> signs_cells_idx nf cf faces = Err2 ValueErr2)).
Proof. exact signs_cells_idx_spec. Qed.
Print Assumptions C21_signs_and_cells_index_handling.

(* set_periodic_map: a valid map (two rows, not empty, all entries face numbers) is stored and
   clears the domain-boundary tag of exactly the listed faces; every other map is rejected with
   ValueError and nothing is stored.  (So after update_boundary_face_tag and set_periodic_map the
   tagged faces are the one-cell faces that are not periodic: C21_boundary_faces.) *)
Theorem C21_periodic_map :
  forall tag nf pm, length tag = nf ->
    (pm_valid nf pm ->
       exists t, set_periodic tag nf pm = (Ok2 t, true) /\ length t = nf /\
         forall f, (f < nf)%nat ->
           nth f t false = nth f tag false && negb (existsb (Z.eqb (Z.of_nat f)) (concat pm))) /\
    (~ pm_valid nf pm -> set_periodic tag nf pm = (Err2 ValueErr2, false)).
Proof. exact set_periodic_spec. Qed.
Print Assumptions C21_periodic_map.

(* Non-vacuity of the extension theorems on the same incidence. *)
Example C21_ext_nonvacuous :
  let cf := [(0, 0, -1); (1, 0, 1); (3, 0, -1); (5, 0, 1);
             (1, 1, -1); (2, 1, 1); (4, 1, -1); (6, 1, 1)] in
  Permutation [1; 2; 0]%nat (seq 0 3) /\
  signs_cells_perm cf [6; 0; 6] [1; 2; 0]%nat = Ok ([1; -1; 1], [1; 0; 1]) /\
  signs_cells_idx 7 cf [-1; 0; 3] = Ok2 ([1; -1; -1], [1; 0; 0]) /\
  signs_cells_idx 7 cf [0; 7] = Err2 IndexErr2 /\
  signs_cells_idx 7 cf [0; -6] = Err2 ValueErr2 /\
  pm_valid 7 [[0]; [2]] /\
  set_periodic [true; false; true; true; true; true; true] 7 [[0]; [2]]
    = (Ok2 [false; false; false; true; true; true; true], true) /\
  ~ pm_valid 7 [[0]; [7]] /\
  set_periodic [true; false; true; true; true; true; true] 7 [[0]; [7]] = (Err2 ValueErr2, false).
Proof.
  cbn zeta. split.
  - apply Permutation_sym. exact (Permutation_cons_append [1; 2]%nat 0%nat).
  - assert (pm_valid 7 [[0]; [2]]) as V1.
    { split; [reflexivity|]. split; [discriminate|]. intros i Hi. cbn in Hi. lia. }
    assert (~ pm_valid 7 [[0]; [7]]) as V2.
    { intros (_ & _ & H). specialize (H 7). cbn in H. lia. }
    split; [vm_compute; reflexivity|]. split; [vm_compute; reflexivity|].
    split; [vm_compute; reflexivity|]. split; [vm_compute; reflexivity|].
    split; [exact V1|]. split; [vm_compute; reflexivity|]. split; [exact V2|]. vm_compute. reflexivity.
Qed.

(* Non-vacuity: the incidence of pp.CartGrid([2, 1]) (7 faces, 2 cells) is well-formed;
   face 1 is internal, all others have one adjacent cell; the queries on it. *)
Example C21_nonvacuous :
  let cf := [(0, 0, -1); (1, 0, 1); (3, 0, -1); (5, 0, 1);
             (1, 1, -1); (2, 1, 1); (4, 1, -1); (6, 1, 1)] in
  wf 7 2 cf /\
  dense 7 cf = ([-1; 0; 1; -1; -1; 0; 1], [0; 1; -1; 0; 1; -1; -1]) /\
  bnd_tag 2 7 cf = [true; false; true; true; true; true; true] /\
  (one_adjacent cf 0 /\ ~ one_adjacent cf 1) /\
  signs_cells cf [6; 0; 3] = Ok ([1; -1; -1], [1; 0; 0]) /\
  signs_cells cf [6; 1; 3] = Err ValueErr /\
  conn_true cf 0 1 = true /\
  divergence cf 2 = Ok [(0, 0, -1); (1, 1, -1); (0, 2, 1); (1, 3, 1); (0, 6, -1); (1, 7, -1);
                        (0, 10, 1); (1, 11, 1); (2, 2, -1); (3, 3, -1); (2, 4, 1); (3, 5, 1);
                        (2, 8, -1); (3, 9, -1); (2, 12, 1); (3, 13, 1)].
Proof.
  cbn zeta.
  assert (wf 7 2 [(0, 0, -1); (1, 0, 1); (3, 0, -1); (5, 0, 1);
                  (1, 1, -1); (2, 1, 1); (4, 1, -1); (6, 1, 1)]) as Hwf
      by (apply wf_b_sound; vm_compute; reflexivity).
  split; [exact Hwf|].
  split; [vm_compute; reflexivity|]. split; [vm_compute; reflexivity|].
  split.
  - split.
    + apply (cnt_one_iff 7 2); [exact Hwf|lia|vm_compute; reflexivity].
    + intro H. apply (cnt_one_iff 7 2) in H; [|exact Hwf|lia]. vm_compute in H. discriminate.
  - repeat split; vm_compute; reflexivity.
Qed.
