(* C44 — property theorems only.  Model: PP.Model.C44 (exact Cyrus-Beck clipping of a
   segment by a convex polygon = intersection of half-planes, over Q; the glue of
   constrain_geometry.lines_by_polygon around shapely, with shapely as Section variables);
   proofs: PP.Proofs.C44.

   A convex polygon is represented by the half-planes to the left of its counter-clockwise
   edges ([polygon_hplanes]); [hval h p <= 0] means p is in the closed half-plane h.
   polygons_by_polyhedron is NOT modelled (oracle only, see harness/props/c44.py). *)
From Coq Require Import List ZArith QArith Sorted.
Import ListNotations.
From PP Require Import Model.C44 Proofs.C44.
Open Scope Q_scope.

(* Exactness: a point p(t), 0 <= t <= 1, of the segment lies in every half-plane (= inside
   the closed convex polygon) IF AND ONLY IF t lies in the interval the clipping returns;
   when no interval is returned no point of the segment is inside.  Any list of
   half-planes, any segment (degenerate ones included). *)
Theorem C44_convex_exact :
  forall (p0 p1 : pt) (hs : list hplane) (t : Q),
    0 <= t -> t <= 1 ->
    ((forall h, In h hs -> hval h (seg_pt p0 p1 t) <= 0)
     <-> match clip p0 p1 hs with Some (t0, t1) => t0 <= t /\ t <= t1 | None => False end).
Proof. exact clip_spec. Qed.
Print Assumptions C44_convex_exact.

(* The returned piece is a sub-segment (0 <= t0 <= t1 <= 1) and every point of it lies
   inside the clipping region. *)
Theorem C44_convex_inside :
  forall (p0 p1 : pt) (hs : list hplane) (t0 t1 : Q),
    clip p0 p1 hs = Some (t0, t1) ->
    0 <= t0 /\ t0 <= t1 /\ t1 <= 1 /\
    forall t, t0 <= t -> t <= t1 -> forall h, In h hs -> hval h (seg_pt p0 p1 t) <= 0.
Proof. exact clip_inside. Qed.
Print Assumptions C44_convex_inside.

(* The glue of lines_by_polygon, for ANY behaviour of shapely: a piece is returned for edge
   ei exactly if it is one of the line parts of poly.intersection(edge ei) — a LineString,
   a member of a MultiLineString, or a LineString member of a GeometryCollection — that
   is non-empty, does not merely touch the polygon and has positive length. *)
Theorem C44_glue_pieces :
  forall (piece : Type) (isect : nat -> geom piece) (nonempty touches poslen : piece -> bool)
         (ne : nat) (p : piece) (ei : nat),
    In (p, ei) (result piece isect nonempty touches poslen ne)
    <-> (ei < ne)%nat /\ In p (lines_of piece (isect ei))
        /\ keep piece nonempty touches poslen p = true.
Proof. exact in_result. Qed.
Print Assumptions C44_glue_pieces.

(* The kept-edge indices are produced in non-decreasing order, so sorting them (as the
   code does before reading the tags) moves nothing: piece number k carries the tags of the
   edge it was cut from. *)
Theorem C44_glue_tags :
  forall (piece : Type) (isect : nat -> geom piece) (nonempty touches poslen : piece -> bool)
         (T : Type) (tag : nat -> T) (ne : nat),
    StronglySorted le (kept piece isect nonempty touches poslen ne) /\
    tags_out piece isect nonempty touches poslen tag ne
    = map (fun r => tag (snd r)) (result piece isect nonempty touches poslen ne).
Proof.
  intros piece isect nonempty touches poslen T tag ne. split.
  - apply kept_sorted.
  - apply tags_follow.
Qed.
Print Assumptions C44_glue_tags.

(* Under shapely's contract (the line parts lie in segment /\ polygon; every point of
   segment /\ polygon is on a line part or is an isolated Point part; isolated points,
   touching pieces and zero-length pieces contain no interior point of the polygon; a piece
   with a point on it is non-empty): every returned piece lies on its edge and inside the
   polygon, and every point of an edge that is interior to the polygon is on a returned
   piece of that edge — also for non-convex polygons. *)
Theorem C44_glue_exact_under_contract :
  forall (piece : Type) (isect : nat -> geom piece) (nonempty touches poslen : piece -> bool)
         (P : Type) (on_piece : piece -> P -> Prop) (on_seg : nat -> P -> Prop)
         (in_poly interior : P -> Prop) (isolated : nat -> P -> Prop),
    (forall ei p x, In p (lines_of piece (isect ei)) -> on_piece p x -> on_seg ei x /\ in_poly x) ->
    (forall ei x, on_seg ei x -> in_poly x ->
                  (exists p, In p (lines_of piece (isect ei)) /\ on_piece p x) \/ isolated ei x) ->
    (forall ei x, isolated ei x -> ~ interior x) ->
    (forall p x, touches p = true -> on_piece p x -> ~ interior x) ->
    (forall p x, poslen p = false -> on_piece p x -> ~ interior x) ->
    (forall p x, on_piece p x -> nonempty p = true) ->
    (forall x, interior x -> in_poly x) ->
    forall ne : nat,
      (forall p ei x, In (p, ei) (result piece isect nonempty touches poslen ne) ->
                      on_piece p x -> on_seg ei x /\ in_poly x) /\
      (forall ei x, (ei < ne)%nat -> on_seg ei x -> interior x ->
                    exists p, In (p, ei) (result piece isect nonempty touches poslen ne)
                              /\ on_piece p x).
Proof.
  intros piece isect nonempty touches poslen P on_piece on_seg in_poly interior isolated
         H1 H2 H3 H4 H5 H6 H7 ne. split.
  - intros p ei x. exact (glue_inside piece isect nonempty touches poslen P on_piece on_seg
                                      in_poly H1 ne p ei x).
  - exact (glue_covers piece isect nonempty touches poslen P on_piece on_seg in_poly interior
                       isolated H2 H3 H4 H5 H6 H7 ne).
Qed.
Print Assumptions C44_glue_exact_under_contract.

(* Non-vacuity: the unit square [0,4]^2 clips the segment (-2,1)-(6,3) to the parameters
   [1/4, 3/4]; a segment along the bottom edge is dropped (boundary); and a
   GeometryCollection of two lines and a point keeps its two lines (the case of the repaired
   defect). *)
Example C44_nonvacuous :
  let sq := [(0, 0); (4, 0); (4, 4); (0, 4)] in
  (match clip (-2, 1) (6, 3) (polygon_hplanes sq) with
   | Some (a, b) => Qeq_bool a (1 # 4) && Qeq_bool b (3 # 4) | None => false end) = true /\
  length (convex_pieces sq (-2, 1) (6, 3)) = 1%nat /\
  convex_pieces sq (1, 0) (3, 0) = [] /\
  map snd (result nat (fun _ => GColl [PLine 10%nat; PLine 11%nat; PPoint])
                  (fun _ => true) (fun _ => false) (fun _ => true) 1) = [0%nat; 0%nat].
Proof. cbv zeta. repeat split; vm_compute; reflexivity. Qed.
