(* C04 — property theorems only.  Model: PP.Model.C04 (balance equation
   dt(accumulation) + Divergence @ flux - source on a mixed-dimensional grid, matrices in
   COO form, written over the operations of an arbitrary commutative ring); proofs:
   PP.Proofs.C04.

   Level: METHOD-level theorems (for every md-grid structure satisfying the stated
   hypotheses, every state) + per-instance certificates: on every run the harness reads the
   real Divergence / mortar_to_primary_int / mortar_to_secondary_int matrices of generated
   fractured md-grids and Coq evaluates [cert_ok] on them; [C04_certificate_sound] turns a
   passed certificate into the hypotheses of [C04_conservation]. *)
From Coq Require Import List ZArith QArith Qabs Ring_theory RelationClasses.
Import ListNotations.
From PP Require Import Model.C04 Proofs.C04.

(* (1) For any commutative ring and any signed cell-face incidence in which every face has
   either exactly one entry +-1 (boundary) or exactly one +1 and one -1 entry (interior),
   and any face fluxes q: the sum over ALL cells of (Divergence @ q) is the sum over the
   boundary faces of (sign of the entry) * q_f — all inter-cell fluxes cancel. *)
Theorem C04_div_telescopes :
  forall (R : Type) (rO rI : R) (radd rmul rsub : R -> R -> R) (ropp : R -> R)
         (req : R -> R -> Prop),
    Equivalence req -> ring_eq_ext radd rmul ropp req ->
    ring_theory rO rI radd rmul rsub ropp req ->
    forall (nc nf : nat) (D : list inc) (q : nat -> R),
      incidence_wf nc nf D ->
      req (total R rO radd nc (div_cell R rO rI radd rmul ropp D q))
          (total R rO radd nf
             (fun f => if is_boundary D f
                       then rmul (colsum R rO rI radd ropp D f) (q f) else rO)).
Proof. exact div_telescopes. Qed.
Print Assumptions C04_div_telescopes.

(* (2) Interface fluxes cancel.  With the fracture-face flux sgn_div * (P_primary_int lam)
   and the lower-dimensional source P_secondary_int lam, where the integrated projections
   are supported on boundary faces / cells in range and the two column sums of every
   mortar cell agree (both are 1 in porepy): for EVERY interface flux lam the net
   contribution to the sum over all cells of all subdomains is zero. *)
Theorem C04_interface_cancels :
  forall (R : Type) (rO rI : R) (radd rmul rsub : R -> R -> R) (ropp : R -> R)
         (req : R -> R -> Prop),
    Equivalence req -> ring_eq_ext radd rmul ropp req ->
    ring_theory rO rI radd rmul rsub ropp req ->
    forall (nc nf nm : nat) (D : list inc) (Pp Ps : list (wtr R)) (lam : nat -> R),
      incidence_wf nc nf D -> coupling_wf R rO radd req nc nf nm D Pp Ps ->
      req (rsub (total R rO radd nc
                   (div_cell R rO rI radd rmul ropp D
                      (flux R rO rI radd rmul ropp D Pp (fun _ => rO) lam)))
                (total R rO radd nc (proj R rO radd rmul Ps lam)))
          rO.
Proof. exact interface_cancels. Qed.
Print Assumptions C04_interface_cancels.

(* (3) Conservation.  Closed boundary (no intrinsic flux through faces with one
   neighbour), no external source: for every accumulation rate, every intrinsic interior
   flux (any state of the primary variables, any upwind direction, any discretisation) and
   every interface flux, the residuals of the balance equation summed over all cells of all
   subdomains equal the summed accumulation rate. *)
Theorem C04_conservation :
  forall (R : Type) (rO rI : R) (radd rmul rsub : R -> R -> R) (ropp : R -> R)
         (req : R -> R -> Prop),
    Equivalence req -> ring_eq_ext radd rmul ropp req ->
    ring_theory rO rI radd rmul rsub ropp req ->
    forall (nc nf nm : nat) (D : list inc) (Pp Ps : list (wtr R))
           (acc a lam ext : nat -> R),
      incidence_wf nc nf D -> coupling_wf R rO radd req nc nf nm D Pp Ps ->
      (forall f, (f < nf)%nat -> is_boundary D f = true -> req (a f) rO) ->
      (forall c, (c < nc)%nat -> req (ext c) rO) ->
      req (total R rO radd nc (residual R rO rI radd rmul rsub ropp D Pp Ps acc a lam ext))
          (total R rO radd nc acc).
Proof. exact conservation. Qed.
Print Assumptions C04_conservation.

(* (4) The certificate the harness evaluates on the real matrices is sound: if
   [cert_ok S = true] then conservation holds on that md-grid for every state (over Q). *)
Theorem C04_certificate_sound :
  forall (S : structure) (acc a lam : nat -> Q),
    cert_ok S = true ->
    (forall f, (f < s_nf S)%nat -> is_boundary (s_div S) f = true -> a f == 0) ->
    qtotal (s_nc S) (qresidual (s_div S) (s_pp S) (s_ps S) acc a lam (fun _ => 0))
    == qtotal (s_nc S) acc.
Proof. exact certified_conservation. Qed.
Print Assumptions C04_certificate_sound.

(* (5) Two-sided coupling.  When the interface flux that enters the face fluxes of the
   higher-dimensional cells (lamf) differs from the one that enters the source of the
   lower-dimensional cells (lams) — as with constitutive_laws.AdTpfaFlux (DarcysLawAd /
   FouriersLawAd), whose diffusive_flux applies the projected interface flux on EXTERNAL
   Neumann faces only — the residuals sum to the accumulation rate plus what the faces
   receive minus what the sources hand out (any commutative ring; no column-sum condition). *)
Theorem C04_deficit :
  forall (R : Type) (rO rI : R) (radd rmul rsub : R -> R -> R) (ropp : R -> R)
         (req : R -> R -> Prop),
    Equivalence req -> ring_eq_ext radd rmul ropp req ->
    ring_theory rO rI radd rmul rsub ropp req ->
    forall (nc nf nm : nat) (D : list inc) (Pp Ps : list (wtr R))
           (acc a lamf lams ext : nat -> R),
      incidence_wf nc nf D -> coupling_support R nc nf nm D Pp Ps ->
      (forall f, (f < nf)%nat -> is_boundary D f = true -> req (a f) rO) ->
      (forall c, (c < nc)%nat -> req (ext c) rO) ->
      req (total R rO radd nc (residual2 R rO rI radd rmul rsub ropp D Pp Ps acc a lamf lams ext))
          (rsub (radd (total R rO radd nc acc)
                      (total R rO radd nm (fun m => rmul (pcolsum R rO radd Pp m) (lamf m))))
                (total R rO radd nm (fun m => rmul (pcolsum R rO radd Ps m) (lams m)))).
Proof. exact deficit. Qed.
Print Assumptions C04_deficit.

(* (6) The full-strength statement is FALSE of the faithful model of the differentiable
   diffusive laws (interface flux missing from the face fluxes): a certified structure, a
   closed intrinsic flux and a state whose residuals do not sum to the accumulation rate.
   Replayed on the implementation = known finding "AdTpfaFlux.diffusive_flux: interface
   flux not applied on internal boundary faces". *)
Theorem C04_adflux_conservation_refuted :
  exists (S : structure) (acc a lamf lams : nat -> Q),
    cert_ok S = true /\
    (forall f, (f < s_nf S)%nat -> is_boundary (s_div S) f = true -> a f == 0) /\
    ~ qtotal (s_nc S) (qresidual2 (s_div S) (s_pp S) (s_ps S) acc a lamf lams (fun _ => 0))
      == qtotal (s_nc S) acc.
Proof. exact adflux_refuted. Qed.
Print Assumptions C04_adflux_conservation_refuted.

(* (7) ... and it holds under the guard that excludes exactly the failing region: the two
   interface fluxes have the same total (in particular when the diffusive interface flux
   vanishes, or with the standard laws where lamf = lams). *)
Theorem C04_adflux_conservation_partial :
  forall (S : structure) (acc a lamf lams : nat -> Q),
    cert_ok S = true ->
    (forall f, (f < s_nf S)%nat -> is_boundary (s_div S) f = true -> a f == 0) ->
    qtotal (s_nm S) lamf == qtotal (s_nm S) lams ->
    qtotal (s_nc S) (qresidual2 (s_div S) (s_pp S) (s_ps S) acc a lamf lams (fun _ => 0))
    == qtotal (s_nc S) acc.
Proof. exact certified_partial. Qed.
Print Assumptions C04_adflux_conservation_partial.

(* (8) Non-matching mortar / fracture grids (projection entries like 1/3, column sums equal
   to 1 only up to float rounding): the certificate [cert_ok_tol] (supports exact, column
   sums within 1e-12) gives the exact balance  sum residual = sum acc + sum_m colsum_p(m)
   lamf(m) - sum_m colsum_s(m) lams(m)  with both column sums within 1e-12 of one, i.e.
   conservation up to 2e-12 * sum |lam|.  A source built with mortar_to_secondary_avg
   (column sums 0.6, 2/3, ...) cannot pass it. *)
Theorem C04_certificate_tol_sound :
  forall (S : structure) (acc a lamf lams : nat -> Q),
    cert_ok_tol S = true ->
    (forall f, (f < s_nf S)%nat -> is_boundary (s_div S) f = true -> a f == 0) ->
    qtotal (s_nc S) (qresidual2 (s_div S) (s_pp S) (s_ps S) acc a lamf lams (fun _ => 0))
    == qtotal (s_nc S) acc + qtotal (s_nm S) (fun m => qpcolsum (s_pp S) m * lamf m)
       - qtotal (s_nm S) (fun m => qpcolsum (s_ps S) m * lams m)
    /\ forall m, (m < s_nm S)%nat ->
                 Qabs (qpcolsum (s_pp S) m - 1) <= 1 # 1000000000000 /\
                 Qabs (qpcolsum (s_ps S) m - 1) <= 1 # 1000000000000.
Proof. exact certified_tol. Qed.
Print Assumptions C04_certificate_tol_sound.

(* Non-vacuity: three 1-D cells (0,1 | 2) cut by a 0-d fracture cell 3 between cells 1 and
   2; faces 0..4 (face 1 interior, faces 2 and 3 the two sides of the fracture), two mortar
   cells.  The certificate passes, the hypotheses hold, and at a concrete state the
   residuals are not individually equal to the accumulation rates but their sums agree. *)
Example C04_nonvacuous :
  let S := {| s_nc := 4%nat; s_nf := 5%nat; s_nm := 2%nat;
              s_div := [(0%nat, 0%nat, (-1)%Z); (0%nat, 1%nat, (1)%Z); (1%nat, 1%nat, (-1)%Z); (1%nat, 2%nat, (1)%Z); (2%nat, 3%nat, (-1)%Z); (2%nat, 4%nat, (1)%Z)];
              s_pp := [(2%nat, 0%nat, 1); (3%nat, 1%nat, 1)];
              s_ps := [(3%nat, 0%nat, 1); (3%nat, 1%nat, 1)] |} in
  let acc := vec [1; 2; 3; 4] in
  let a := vec [0; 5; 0; 0; 0] in
  let lam := vec [7; -2] in
  cert_ok S = true /\
  incidence_wf (s_nc S) (s_nf S) (s_div S) /\
  map (fun c => Qred (qresidual (s_div S) (s_pp S) (s_ps S) acc a lam (fun _ => 0) c))
      (seq 0 4) = [6; 4; 1; -1] /\
  Qred (qtotal 4 acc) = 10.
Proof.
  cbv zeta. split; [vm_compute; reflexivity|].
  split; [apply cert_sound; vm_compute; reflexivity|].
  split; vm_compute; reflexivity.
Qed.
