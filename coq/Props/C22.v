(* C22 — property theorems only.  Model: PP.Model.C22 (transcription of extract_subgrid /
   _extract_submatrix, partition_structured, overlap of porepy/grids/partition.py);
   proofs: PP.Proofs.C22. *)
From Coq Require Import List ZArith Arith Lia Sorted Permutation.
Import ListNotations.
From Coq Require Import QArith.
From PP Require Import Model.C22 Proofs.C22 Model.C19 Model.C22_geom Proofs.C22_geom2d Proofs.C22_onto.
Close Scope Q_scope.

(* Extraction, index maps.  For EVERY pair of incidence matrices (cell_faces, face_nodes:
   any lists of columns, any values), every index list or boolean mask and both values
   of [sort]: if the call returns, the extracted cells are the requested ones (sorted if
   asked), the face map and the node map are strictly increasing, consist exactly of
   the faces of those cells / the nodes of those faces, and every local column mapped
   back through them IS the parent's column: same entities, same signs/values, same
   stored order (node order of a face included). *)
Theorem C22_maps :
  forall (cf fn : csc) (c : cells) (sort : bool) (sg : subgrid),
  extract_subgrid cf fn c sort = Ok sg ->
  let cs := sg_cells sg in let uf := sg_faces sg in let un := sg_nodes sg in
  Permutation cs (requested c) /\ (sort = true -> StronglySorted le cs) /\
  Forall (fun k => k < length cf) cs /\
  length (sg_cf sg) = length cs /\ length (sg_fn sg) = length uf /\
  StronglySorted lt uf /\ StronglySorted lt un /\
  (forall f, In f uf <-> exists k, In k cs /\ In f (map fst (nth k cf []))) /\
  (forall n, In n un <-> exists f, In f uf /\ In n (map fst (nth f fn []))) /\
  (forall i, i < length cs ->
     relabel uf (nth i (sg_cf sg) []) = nth (nth i cs 0) cf [] /\
     Forall (fun e => fst e < length uf) (nth i (sg_cf sg) [])) /\
  (forall j, j < length uf ->
     relabel un (nth j (sg_fn sg) []) = nth (nth j uf 0) fn [] /\
     Forall (fun e => fst e < length un) (nth j (sg_fn sg) [])).
Proof. exact maps_theorem. Qed.
Print Assumptions C22_maps.

(* Extraction is total on valid input (cell indices in range / mask of the right size, on
   a grid whose cell_faces only mention existing faces) and the only error is IndexError,
   raised exactly on invalid input. *)
Theorem C22_extract_total :
  forall (cf fn : csc) (c : cells) (sort : bool),
  wf_grid cf fn ->
  (valid_cells cf c -> exists sg, extract_subgrid cf fn c sort = Ok sg) /\
  (forall e, extract_subgrid cf fn c sort = Err e -> e = IndexErr /\ ~ valid_cells cf c).
Proof. exact extract_total_theorem. Qed.
Print Assumptions C22_extract_total.

(* Extraction, geometry.  With the subgrid's nodes = parent's nodes at the node map
   (g.nodes[:, unique_nodes]), for any coordinate type: everything a per-face formula
   reads (the face's node coordinates in stored order) and everything a per-cell formula
   reads (the cell's signed faces, each with its ordered node coordinates) is identical
   in the subgrid and in the parent; hence any per-face functional F and per-cell
   functional G (areas, centres, volumes, ... in exact arithmetic) agree. *)
Theorem C22_geometry :
  forall (X : Type) (d : X) (nodes : list X) (cf fn : csc) (c : cells) (sort : bool)
         (sg : subgrid),
  extract_subgrid cf fn c sort = Ok sg ->
  let sub_nodes := take_nodes d nodes (sg_nodes sg) in
  (forall j, j < length (sg_faces sg) ->
     face_view d sub_nodes (sg_fn sg) j = face_view d nodes fn (nth j (sg_faces sg) 0)) /\
  (forall i, i < length (sg_cells sg) ->
     cell_view d sub_nodes (sg_cf sg) (sg_fn sg) i
     = cell_view d nodes cf fn (nth i (sg_cells sg) 0)) /\
  (forall (T : Type) (F : list X -> T) j, j < length (sg_faces sg) ->
     F (face_view d sub_nodes (sg_fn sg) j) = F (face_view d nodes fn (nth j (sg_faces sg) 0))) /\
  (forall (T : Type) (G : list (Z * list X) -> T) i, i < length (sg_cells sg) ->
     G (cell_view d sub_nodes (sg_cf sg) (sg_fn sg) i)
     = G (cell_view d nodes cf fn (nth i (sg_cells sg) 0))).
Proof. exact geometry_theorem. Qed.
Print Assumptions C22_geometry.

(* Extraction, recomputed geometry in 2-D.  [geometry2] is the C19 transcription of
   Grid._compute_geometry_2d (oriented branch: orientation checks, plane orientation sign,
   face areas/centres/normals, cell volumes/centres; exact over Q); [to_grid2] reads an
   incidence pair with two-node faces as a grid of that model.  If the parent's geometry is
   computed by the oriented branch and at least one extracted cell has positive volume,
   then compute_geometry on the extracted subgrid (nodes g.nodes[:, unique_nodes]) also
   takes the oriented branch and returns exactly the parent's values at the extracted
   cells (volumes, centres) and faces (squared areas, centres, normals - orientation
   included). *)
Theorem C22_geometry_2d :
  forall (nodes : list pt) (cf fn : csc) (c : cells) (sort : bool) (sg : subgrid) (r : geom2),
  extract_subgrid cf fn c sort = Ok sg ->
  two_nodes fn (sg_faces sg) ->
  let g := to_grid2 nodes cf fn in
  let g' := to_grid2 (take_nodes (0%Q, 0%Q) nodes (sg_nodes sg)) (sg_cf sg) (sg_fn sg) in
  geometry2 g = GOk r ->
  (exists i, i < length (sg_cells sg) /\ (0 < nth (nth i (sg_cells sg) 0%nat) (o_vol r) 0)%Q) ->
  exists r', geometry2 g' = GOk r' /\
    o_vol r' = map (fun k => nth k (o_vol r) 0%Q) (sg_cells sg) /\
    o_cc r' = map (fun k => nth k (o_cc r) (0%Q, 0%Q)) (sg_cells sg) /\
    o_area2 r' = map (fun f => nth f (o_area2 r) 0%Q) (sg_faces sg) /\
    o_fc r' = map (fun f => nth f (o_fc r) (0%Q, 0%Q)) (sg_faces sg) /\
    o_fn r' = map (fun f => nth f (o_fn r) (0%Q, 0%Q)) (sg_faces sg).
Proof. exact geometry2_subgrid. Qed.
Print Assumptions C22_geometry_2d.

(* partition_structured: for every 1-, 2- or 3-dimensional tensor grid and all coarse
   dimensions with 1 <= coarse_i <= fine_i the call returns one part id per cell, each
   within [0, prod coarse). *)
Theorem C22_structured_partition :
  forall (fine coarse : list Z),
  1 <= length fine <= 3 ->
  Forall2 (fun f c => 1 <= c <= f)%Z fine coarse ->
  exists ids, partition_structured fine coarse = Ok ids /\
              Z.of_nat (length ids) = prodZ fine /\
              Forall (fun p => 0 <= p < prodZ coarse)%Z ids.
Proof. exact structured_partition. Qed.
Print Assumptions C22_structured_partition.

(* ... and every part id is used: no coarse cell of the requested coarse grid is empty. *)
Theorem C22_structured_partition_onto :
  forall (fine coarse ids : list Z),
  1 <= length fine <= 3 ->
  Forall2 (fun f c => 1 <= c <= f)%Z fine coarse ->
  partition_structured fine coarse = Ok ids ->
  forall p, (0 <= p < prodZ coarse)%Z -> In p ids.
Proof. exact structured_partition_onto. Qed.
Print Assumptions C22_structured_partition_onto.

(* ... and when some coarse dimension exceeds the fine one the call raises ValueError
   (np.arange with step 0). *)
Theorem C22_structured_partition_error :
  forall (fine coarse : list Z),
  1 <= length fine <= 3 ->
  Forall2 (fun f c => 1 <= c /\ 1 <= f)%Z fine coarse ->
  Exists (fun fc => fst fc < snd fc)%Z (combine fine coarse) ->
  partition_structured fine coarse = Err ValueErr.
Proof. exact structured_partition_error. Qed.
Print Assumptions C22_structured_partition_error.

(* overlap, one layer at a time.  [cols] = rows (nodes or faces) of every cell.  For every
   valid initial set and every depth n the call returns a strictly increasing list of
   cells; depth 0 returns the initial set; the list of depth n+1 contains the list of
   depth n, contains EVERY cell that shares a node/face with a cell of depth n, and
   contains nothing else. *)
Theorem C22_overlap_neighbours :
  forall (cols : list (list nat)) (nrows : nat) (cell_ind : list nat),
  rows_in_range cols nrows ->
  Forall (fun c => c < length cols) cell_ind ->
  forall n, exists l,
    overlap cols nrows cell_ind n = Ok l /\
    StronglySorted lt l /\ Forall (fun c => c < length cols) l /\
    (n = 0 -> forall c, In c l <-> In c cell_ind) /\
    forall l', overlap cols nrows cell_ind (S n) = Ok l' ->
      incl l l' /\
      (forall a c, In a l -> c < length cols -> share cols a c -> In c l') /\
      (forall c, In c l' -> In c l \/ exists a, In a l /\ share cols a c).
Proof. exact overlap_theorem. Qed.
Print Assumptions C22_overlap_neighbours.

(* overlap only grows with the number of layers (any two depths) and always contains the
   initial cells. *)
Theorem C22_overlap_monotone :
  forall (cols : list (list nat)) (nrows : nat) (cell_ind : list nat) (n m : nat)
         (l l' : list nat),
  n <= m -> overlap cols nrows cell_ind n = Ok l -> overlap cols nrows cell_ind m = Ok l' ->
  incl cell_ind l /\ incl l l'.
Proof. exact overlap_monotone_theorem. Qed.
Print Assumptions C22_overlap_monotone.

(* the only error of overlap is IndexError, raised exactly for out-of-range cells *)
Theorem C22_overlap_error :
  forall (cols : list (list nat)) (nrows : nat) (cell_ind : list nat) (n : nat),
  (Forall (fun c => c < length cols) cell_ind -> exists l, overlap cols nrows cell_ind n = Ok l) /\
  (forall e, overlap cols nrows cell_ind n = Err e ->
     e = IndexErr /\ ~ Forall (fun c => c < length cols) cell_ind).
Proof. exact overlap_error_theorem. Qed.
Print Assumptions C22_overlap_error.

(* ---------------------------------------------------------------------------------- *)
(* Non-vacuity.  CartGrid([3]) : cells 0..2, faces = nodes 0..3. *)
Definition ex_cf : csc := [[(0, zm); (1, zp)]; [(1, zm); (2, zp)]; [(2, zm); (3, zp)]].
Definition ex_fn : csc := [[(0, zp)]; [(1, zp)]; [(2, zp)]; [(3, zp)]].

Example C22_extract_nonvacuous :
  wf_grid ex_cf ex_fn /\ valid_cells ex_cf (CIdx [2; 1]) /\
  extract_subgrid ex_cf ex_fn (CIdx [2; 1]) true
  = Ok {| sg_cf := [[(0, zm); (1, zp)]; [(1, zm); (2, zp)]];
          sg_fn := [[(0, zp)]; [(1, zp)]; [(2, zp)]];
          sg_faces := [1; 2; 3]; sg_nodes := [1; 2; 3]; sg_cells := [1; 2] |} /\
  extract_subgrid ex_cf ex_fn (CMask [true; false]) true = Err IndexErr /\
  cell_view 0%Z (take_nodes 0%Z [10; 11; 12; 13]%Z [1; 2; 3])
            [[(0, zm); (1, zp)]; [(1, zm); (2, zp)]] [[(0, zp)]; [(1, zp)]; [(2, zp)]] 1
  = cell_view 0%Z [10; 11; 12; 13]%Z ex_cf ex_fn 2.
Proof.
  split; [|split; [|split; [|split]]]; try (vm_compute; reflexivity).
  - intros c e He. destruct c as [|[|[|c]]]; cbn in He;
      repeat (destruct He as [<-|He]; [cbn; lia|]); try contradiction;
      destruct c; contradiction.
  - repeat constructor.
Qed.

(* the inputs that violated the range before the repairs: 11 fine cells, 4 parts, in 1-D
   and 2-D; and a rejected input *)
Example C22_structured_nonvacuous :
  Forall2 (fun f c => 1 <= c <= f)%Z [11; 1]%Z [4; 1]%Z /\
  partition_structured [11; 1]%Z [4; 1]%Z = Ok [0; 0; 1; 1; 2; 2; 3; 3; 3; 3; 3]%Z /\
  partition_structured [11]%Z [4]%Z = Ok [0; 0; 1; 1; 2; 2; 3; 3; 3; 3; 3]%Z /\
  partition_structured [3; 2; 2]%Z [2; 2; 1]%Z = Ok [0; 1; 1; 2; 3; 3; 0; 1; 1; 2; 3; 3]%Z /\
  partition_structured [3; 2]%Z [4; 1]%Z = Err ValueErr.
Proof.
  split; [|repeat split; vm_compute; reflexivity].
  repeat constructor; lia.
Qed.

(* CartGrid([3,3]), criterion 'face': cell c has faces ... ; start from the centre cell *)
Definition ex_cols : list (list nat) :=
  [[0; 1; 12; 15]; [1; 2; 13; 16]; [2; 3; 14; 17]; [4; 5; 15; 18]; [5; 6; 16; 19];
   [6; 7; 17; 20]; [8; 9; 18; 21]; [9; 10; 19; 22]; [10; 11; 20; 23]].

Example C22_overlap_nonvacuous :
  rows_in_range ex_cols 24 /\
  overlap ex_cols 24 [4] 0 = Ok [4] /\
  overlap ex_cols 24 [4] 1 = Ok [1; 3; 4; 5; 7] /\
  overlap ex_cols 24 [4] 2 = Ok [0; 1; 2; 3; 4; 5; 6; 7; 8] /\
  share ex_cols 4 1 /\
  overlap ex_cols 24 [9] 1 = Err IndexErr.
Proof.
  split; [|repeat split; try (vm_compute; reflexivity)].
  - intros c r Hr.
    do 9 (destruct c as [|c]; [cbn in Hr; repeat (destruct Hr as [<-|Hr]; [lia|]); contradiction|]).
    destruct c; contradiction.
  - exists 16. split; cbn; tauto.
Qed.

(* the unit square cut into two triangles; extracting cell 1 *)
Definition ex2_nodes : list pt := [(0, 0); (1, 0); (0, 1); (1, 1)]%Q.
Definition ex2_fn : csc :=
  [[(0, zp); (1, zp)]; [(0, zp); (2, zp)]; [(1, zp); (2, zp)]; [(1, zp); (3, zp)]; [(2, zp); (3, zp)]].
Definition ex2_cf : csc := [[(0, zp); (1, zm); (2, zp)]; [(2, zm); (3, zp); (4, zm)]].

Example C22_geometry_2d_nonvacuous :
  (match geometry2 (to_grid2 ex2_nodes ex2_cf ex2_fn) with
   | GOk r => Qeq_bool (nth 1 (o_vol r) 0%Q) (1 # 2) = true
   | GFallback => False
   end) /\
  (match extract_subgrid ex2_cf ex2_fn (CIdx [1]) true with
   | Ok sg => sg_faces sg = [2; 3; 4] /\ sg_nodes sg = [1; 2; 3] /\
              (forall f, In f (sg_faces sg) -> length (nth f ex2_fn []) = 2) /\
              match geometry2 (to_grid2 (take_nodes (0%Q, 0%Q) ex2_nodes (sg_nodes sg)) (sg_cf sg) (sg_fn sg)) with
              | GOk r' => Qeq_bool (nth 0 (o_vol r') 0%Q) (1 # 2) = true
              | GFallback => False
              end
   | Err _ => False
   end).
Proof.
  split; [vm_compute; reflexivity|]. vm_compute. repeat split.
  intros f [<-|[<-|[<-|[]]]]; reflexivity.
Qed.
