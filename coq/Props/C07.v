(* C07 — property theorems only.  Models: PP.Model.C07 (Schur bookkeeping, permutation cache)
   on PP.Model.C06 (equations, assemble) and PP.Model.C05 (dof layout); proofs: PP.Proofs.C07.

   Vocabulary:
     cgroup T            a commutative group structure on T (vectors under addition)
     block_system, reduced_system, expand
                         the 2x2 block system, the Schur complement system
                         (A_pp - A_ps inv A_sp) x_p = b_p - A_ps inv b_s and
                         x_s = inv (b_s - A_sp x_p), exactly the formulas of
                         assemble_schur_complement_system / expand_schur_complement_solution
     prim_rows es a      rows of the full system (C06) in the primary block = C06's rows_spec
     sec_rows es a       rows in the secondary block, in the order the code stacks them:
                         excluded rows of the primary equations, then the other equations
     excl_spec es a      what _gridbased_equation_complement must return
     proj_cols s ids     columns of projection_to(ids) (C05)
     inverter_run        the permutation cache of default_schur_complement_inverter over a
                         sequence of secondary blocks (sparsity patterns) *)
From Coq Require Import List ZArith Arith Lia Sorted Permutation.
Import ListNotations.
From PP Require Import Model.C05 Proofs.C05 Model.C06 Proofs.C06 Model.C07 Proofs.C07
     Proofs.C07_blocks.

(* (1) Block elimination.  For additive blocks over commutative groups and a two-sided
   inverse [inv] of A_ss:  (x_p, x_s) solves the block system  iff  x_p solves the reduced
   system and x_s is the expansion of x_p.  In particular the expanded solution of the
   reduced system solves the block system, and every solution arises this way. *)
Theorem C07_schur :
  forall (P S : Type) (GP : cgroup P) (GS : cgroup S)
         (App : P -> P) (Aps : S -> P) (Asp : P -> S) (Ass : S -> S) (inv : S -> S),
  (forall a b, Aps (gadd GS a b) = gadd GP (Aps a) (Aps b)) ->
  (forall a b, Ass (gadd GS a b) = gadd GS (Ass a) (Ass b)) ->
  (forall y, inv (Ass y) = y) -> (forall y, Ass (inv y) = y) ->
  forall (bp : P) (bs : S) (xp : P) (xs : S),
  block_system GP GS App Aps Asp Ass bp bs xp xs <->
  reduced_system GP App Aps Asp inv bp bs xp /\ xs = expand GS Asp inv bs xp.
Proof. exact @schur_equivalence. Qed.
Print Assumptions C07_schur.

(* (2a) Rows, after ANY history of set/remove/assemble calls and for ANY primary-equation
   argument: primary rows ++ secondary rows contain every row of the full system exactly
   once (no row lost or duplicated by a grid restriction).
   This statement is about the specification-level row lists prim_rows / sec_rows; that the
   two loops of assemble_schur_complement_system (model: schur_blocks) stack exactly these
   rows is theorem C07_blocks below (the name _partial is kept from the first round, when
   that link was established by the execution correspondence only). *)
Theorem C07_rows_partial :
  forall (V : Type) (vzero : V) (vopp : V -> V) (eval : nat -> list (@prow V)) g s ops a,
  let es := efinal vzero vopp eval g s ops in
  Permutation (prim_rows es a ++ sec_rows es a)
              (seq 0 (length (flat_map (fun kv => seq 0 (esize es (fst kv))) (equations es)))).
Proof. exact thm_rows_partition. Qed.
Print Assumptions C07_rows_partial.

(* (2a, closed) What assemble_schur_complement_system builds, after ANY history: if the
   operators have the declared sizes, the primary-equation argument is accepted, no
   restricted primary equation lives on no grid, the projections exist and are non-empty,
   there is at least one block for the secondary list and the secondary block is square,
   then the model of the code succeeds and A_pp, A_ps, A_sp, A_ss, b_p, b_s are exactly the
   rows prim_rows / sec_rows of the full system (all equations stacked in insertion order,
   negated right-hand side), cut to the primary / secondary columns.
     selA .. rows = the Jacobian rows [rows] of the full system over all dofs,
     selb .. rows = the (negated) residual entries [rows] of the full system. *)
Theorem C07_blocks :
  forall (V : Type) (vzero : V) (vopp : V -> V) (eval : nat -> list (@prow V))
         g s ops pe pv allcols nall colsp colss,
  let es := efinal vzero vopp eval g s ops in
  sized eval es -> arg_ok es pe = true -> restricted_nonempty es pe ->
  projection_to s (asm_vars s None) = OProjM allcols nall ->
  proj_cols s (parse s pv) = inl colsp ->
  proj_cols s (filter (fun id => negb (memb id (parse s pv))) (map vid (vars s))) = inl colss ->
  blocks_spec es pe <> [] -> colsp <> [] -> colss <> [] ->
  nres pe (equations es) + nsecq pe (equations es) <> 0 ->
  length (sec_rows es pe) = length colss ->
  let AP := selA vzero eval allcols es (prim_rows es pe) in
  let AS := selA vzero eval allcols es (sec_rows es pe) in
  schur_blocks vzero vopp eval s es pe pv =
  SOk (map (cut vzero colsp) AP) (map (cut vzero colss) AP)
      (map (cut vzero colsp) AS) (map (cut vzero colss) AS)
      (selb vzero vopp eval es (prim_rows es pe)) (selb vzero vopp eval es (sec_rows es pe))
      colsp colss.
Proof. exact thm_schur_blocks. Qed.
Print Assumptions C07_blocks.

(* (2a') _gridbased_equation_complement: for every restricted primary equation exactly the
   rows of the equation that were not kept (unrestricted ones: None), provided no restricted
   primary equation is defined on no grid at all (then the code raises ValueError). *)
Theorem C07_complement :
  forall (V : Type) (vzero : V) (vopp : V -> V) (eval : nat -> list (@prow V)) g s ops a,
  let es := efinal vzero vopp eval g s ops in
  restricted_nonempty es a ->
  complement es (blocks_spec es a) = inl (excl_spec es a).
Proof. exact thm_complement. Qed.
Print Assumptions C07_complement.

(* (2b) Columns, after ANY history of variable operations: for a duplicate-free list of
   registered primary variables, the primary and the secondary projection exist and their
   columns together are every dof index exactly once. *)
Theorem C07_cols :
  forall g vops P, Forall (wf_op g) vops ->
  let s := final g vops in
  NoDup P -> (forall id, In id P -> In id (block_ids s)) ->
  let Sv := filter (fun id => negb (memb id P)) (map vid (vars s)) in
  exists cp cs, proj_cols s P = inl cp /\ proj_cols s Sv = inl cs /\
                Permutation (cp ++ cs) (seq 0 (num_dofs s)).
Proof. exact thm_cols_partition. Qed.
Print Assumptions C07_cols.

(* (2c) Hence: if the rows and the columns of the blocks are such permutations and a vector
   satisfies every row of the block system (term i c = A[i,c] * X[c] over any commutative
   monoid), it satisfies every row of the ORIGINAL system. *)
Theorem C07_original :
  forall (T : Type) (tadd : T -> T -> T) (tzero : T),
  (forall a b c, tadd a (tadd b c) = tadd (tadd a b) c) ->
  (forall a b, tadd a b = tadd b a) -> (forall a, tadd tzero a = a) ->
  forall (term : nat -> nat -> T) (b : nat -> T) rows_p rows_s cols_p cols_s n N,
  Permutation (rows_p ++ rows_s) (seq 0 n) ->
  Permutation (cols_p ++ cols_s) (seq 0 N) ->
  (forall i, In i (rows_p ++ rows_s) ->
     tadd (tsum T tadd tzero (term i) cols_p) (tsum T tadd tzero (term i) cols_s) = b i) ->
  forall i, i < n -> tsum T tadd tzero (term i) (seq 0 N) = b i.
Proof. exact original_system_solved. Qed.
Print Assumptions C07_original.

(* (3) The algebra of invert_permuted_block_diag_matrix: if P A Q = B, P has a left inverse,
   Q a right inverse and Binv is a two-sided inverse of B, then Q Binv P is a two-sided
   inverse of A. *)
Theorem C07_perm_inverse :
  forall (X Y : Type) (A : X -> Y) (Pm : Y -> Y) (Qm : X -> X) (B : X -> Y) (Binv : Y -> X)
         (Pinv : Y -> Y) (Qinv : X -> X),
  (forall x, Pm (A (Qm x)) = B x) ->
  (forall y, Pinv (Pm y) = y) -> (forall x, Qm (Qinv x) = x) ->
  (forall y, B (Binv y) = y) -> (forall x, Binv (B x) = x) ->
  (forall y, A (Qm (Binv (Pm y))) = y) /\ (forall x, Qm (Binv (Pm (A x))) = x).
Proof. exact @permuted_inverse. Qed.
Print Assumptions C07_perm_inverse.

(* (4) The permutation cache of the default inverter (repaired code): over ANY sequence of
   secondary blocks on one EquationSystem, the permutation handed to the block inverter is
   the one generated from the CURRENT block's sparsity pattern. *)
Theorem C07_cache :
  forall (Pat Perm : Type) (pat_eqb : Pat -> Pat -> bool) (genperm : Pat -> Perm),
  (forall a b, pat_eqb a b = true -> a = b) ->
  forall ps, snd (inverter_run Pat Perm pat_eqb genperm None ps) = map genperm ps.
Proof. exact thm_cache. Qed.
Print Assumptions C07_cache.

(* Non-vacuity: two subdomains, one interface, 5 dofs; equation 4 on both subdomains (3 rows),
   equation 0 on the interface (2 rows); primary block = equation 4 restricted to the second
   subdomain with the variable on that subdomain. *)
Definition ex7_g : mdgrid := {| sds := [(2, 7, 6); (1, 2, 2)]; intfs := [2] |}.
Definition ex7_vops : list op :=
  [ OpCreate 0 None false (Some [0; 1]) None; OpCreate 1 None false None (Some [0]) ].
Definition ex7_eval (o : nat) : list (@prow Z) :=
  match o with
  | 0 => [([9; 1; 0; 0; 2], 10); ([1; 9; 0; 0; 0], 11); ([0; 0; 8; 1; 0], 12)]%Z
  | 1 => [([1; 0; 0; 7; 0], 20); ([0; 0; 1; 0; 8], 21)]%Z
  | _ => []
  end.
Definition ex7_ops : list eop :=
  [ ESet 4 0 [Sd 1; Sd 0] (1, 0, 0); ESet 0 1 [Intf 0] (1, 0, 0) ].
Definition ex7_arg : eqarg := EDict [(4, [Sd 1])].

Example C07_nonvacuous :
  let s := final ex7_g ex7_vops in
  let es := efinal 0%Z Z.opp ex7_eval ex7_g s ex7_ops in
  Forall (wf_op ex7_g) ex7_vops /\ restricted_nonempty es ex7_arg /\
  sized ex7_eval es /\ arg_ok es ex7_arg = true /\
  projection_to s (asm_vars s None) = OProjM [0; 1; 2; 3; 4] 5 /\
  nres ex7_arg (equations es) + nsecq ex7_arg (equations es) = 2 /\
  prim_rows es ex7_arg = [2] /\ sec_rows es ex7_arg = [0; 1; 3; 4] /\
  complement es (blocks_spec es ex7_arg) = inl [(4, Some [0; 1])] /\
  schur_blocks 0%Z Z.opp ex7_eval s es ex7_arg (Some [ById 1]) =
    SOk [[8]]%Z [[0; 0; 1; 0]]%Z [[0]; [0]; [0]; [1]]%Z
        [[9; 1; 0; 2]; [1; 9; 0; 0]; [1; 0; 7; 0]; [0; 0; 0; 8]]%Z
        [-12]%Z [-10; -11; -20; -21]%Z [2] [0; 1; 3; 4] /\
  schur_blocks 0%Z Z.opp ex7_eval s es (EList [IName 0; IName 4]) (Some [ByName 0]) =
    SErr ValueErr /\
  snd (inverter_run (list Z) (list Z) pat_eqbZ (fun p => p) None [[1]; [2]; [2]; [1]]%Z)
    = [[1]; [2]; [2]; [1]]%Z.
Proof.
  split; [|split; [|split]].
  - unfold ex7_vops, wf_op, grids_ok. repeat constructor; cbn; lia.
  - intros name gs Hn Hk. vm_compute in Hn.
    destruct Hn as [E|[E|[]]]; subst name; vm_compute; discriminate.
  - intros name o H. vm_compute in H.
    repeat (destruct H as [H|H]; [inversion H; subst; vm_compute; reflexivity|]).
    destruct H.
  - vm_compute. repeat split; reflexivity.
Qed.
