(* C10 — property theorems only.  Model: PP.Model.C10 (time loop of run_time_dependent_model
   x NewtonSolver.solve x the SolutionStrategy hooks, composed from the C08 storage model and
   the C09 clock model; Newton increments and check_convergence verdicts are inputs).
   Proofs: PP.Proofs.C10 (storage; any vector type, any binary +=, any clock arithmetic),
   PP.Proofs.C10_clock (clock; exact real arithmetic, via C09's main theorem).

   Reading guide.  [simulate V vadd T O maxit a sched iti tsi v0 solves]: TimeManager
   arguments [a] and schedule [sched]; iterate_indices / time_step_indices [iti] / [tsi];
   initial values [v0]; [solves] = for every call of NewtonSolver.solve the list of
   (increment, converged flag, diverged flag) its iterations produce.  The result is the
   accepted configuration, the store after prepare_simulation and the trace: one [entry] per
   attempted time step ([e_res] = NConv k | NFail, [e_used] = the increments applied,
   [e_out] = what compute_time_step answered, [e_store] = both dictionaries after the
   convergence / failure hook) and how the loop stopped.  [slot_get d i] = d.get(i).
   [accepted vadd v0 tr] = the accepted solutions after [tr], most recent first, [v0] last. *)
From Coq Require Import List ZArith Bool Arith Lia Reals Lra PrimFloat.
Import ListNotations.
From PP Require Model.C08 Model.C09 Proofs.C09.
From PP Require Import Model.C10 Model.C10_ext Proofs.C10 Proofs.C10_clock Proofs.C10_ex
     Proofs.C10_gen Proofs.C10_term.

(* Claim 1.  For EVERY verdict pattern and every sequence of increments: after every step
   that converged (and whose compute_time_step did not raise), time-step index 0 and iterate
   index 0 both hold the converged iterate = the previous accepted solution plus that
   solve's increments added in order, and this vector is the newest accepted solution. *)
Theorem C10_after_convergence :
  forall (V : Type) (vadd : V -> V -> V) (T : Type) (O : C09.numops T) (dI dT : nat),
    1 <= dI -> 1 <= dT ->
    forall (maxit : Z) (v0 : V) (a : C09.args T) (sched : list T)
         (solves : list (list (V * bool * bool)))
         (c : C09.cfg T) (st0 : store V) (tr : list (entry V T)) (sp : stop)
         (pre : list (entry V T)) (e : entry V T) (post : list (entry V T)) (k : Z),
    simulate V vadd T O maxit a sched (map Z.of_nat (seq 0 dI)) (map Z.of_nat (seq 0 dT))
             v0 solves = inl (c, st0, (tr, sp)) ->
    tr = pre ++ e :: post -> e_res e = NConv k -> (forall x, e_out e <> C09.OErr x) ->
    let sol := fold_left vadd (e_used e) (hd v0 (accepted vadd v0 pre)) in
    slot_get (tss (e_store e)) 0 = Some sol /\
    slot_get (its (e_store e)) 0 = Some sol /\
    accepted vadd v0 (pre ++ [e]) = sol :: accepted vadd v0 pre.
Proof. exact after_convergence_thm. Qed.
Print Assumptions C10_after_convergence.

(* Claim 2.  After every failed step (diverged flag, both flags, or iteration budget
   exhausted) whose recomputation request did not raise, iterate index 0 is reset to
   time-step index 0 = the last accepted solution, and nothing new is accepted. *)
Theorem C10_after_failure :
  forall (V : Type) (vadd : V -> V -> V) (T : Type) (O : C09.numops T) (dI dT : nat),
    1 <= dI -> 1 <= dT ->
    forall (maxit : Z) (v0 : V) (a : C09.args T) (sched : list T)
         (solves : list (list (V * bool * bool)))
         (c : C09.cfg T) (st0 : store V) (tr : list (entry V T)) (sp : stop)
         (pre : list (entry V T)) (e : entry V T) (post : list (entry V T)),
    simulate V vadd T O maxit a sched (map Z.of_nat (seq 0 dI)) (map Z.of_nat (seq 0 dT))
             v0 solves = inl (c, st0, (tr, sp)) ->
    tr = pre ++ e :: post -> e_res e = NFail -> (forall x, e_out e <> C09.OErr x) ->
    let prev := hd v0 (accepted vadd v0 pre) in
    slot_get (its (e_store e)) 0 = Some prev /\
    slot_get (tss (e_store e)) 0 = Some prev /\
    accepted vadd v0 (pre ++ [e]) = accepted vadd v0 pre.
Proof. exact after_failure_thm. Qed.
Print Assumptions C10_after_failure.

(* Claim 3, storage half.  No storage call ever raises; after EVERY attempted step (raising
   ones included) and in the state the run stops with, the time-step dictionary has exactly
   the keys 0..dT-1 and key i holds the i-th most recent accepted solution (the initial
   values once the accepted solutions are used up). *)
Theorem C10_history :
  forall (V : Type) (vadd : V -> V -> V) (T : Type) (O : C09.numops T) (dI dT : nat),
    1 <= dI -> 1 <= dT ->
    forall (maxit : Z) (v0 : V) (a : C09.args T) (sched : list T)
         (solves : list (list (V * bool * bool)))
         (c : C09.cfg T) (st0 : store V) (tr : list (entry V T)) (sp : stop),
    simulate V vadd T O maxit a sched (map Z.of_nat (seq 0 dI)) (map Z.of_nat (seq 0 dT))
             v0 solves = inl (c, st0, (tr, sp)) ->
    (forall e, sp <> RaisedStore e) /\
    (forall e, In e tr -> (forall x, e_res e <> NErr x) /\ e_res e <> NOut) /\
    (forall pre e post, tr = pre ++ e :: post -> forall i,
        slot_get (tss (e_store e)) i
        = if i <? dT then Some (nth i (accepted vadd v0 (pre ++ [e])) v0) else None) /\
    (forall i, slot_get (tss (final_store st0 tr)) i
               = if i <? dT then Some (nth i (accepted vadd v0 tr) v0) else None).
Proof. exact history_thm. Qed.
Print Assumptions C10_history.

(* With index sets 0..d-1 the simulation can only fail in the TimeManager constructor. *)
Theorem C10_only_constructor_fails :
  forall (V : Type) (vadd : V -> V -> V) (T : Type) (O : C09.numops T) (dI dT : nat),
    1 <= dI -> 1 <= dT ->
    forall (maxit : Z) (v0 : V) (a : C09.args T) (sched : list T)
         (solves : list (list (V * bool * bool))) (f : failure),
    simulate V vadd T O maxit a sched (map Z.of_nat (seq 0 dI)) (map Z.of_nat (seq 0 dT))
             v0 solves = inr f ->
    exists e, f = CtorErr e /\ C09.construct T O a sched = inr e.
Proof. exact simulate_fails_only_in_ctor. Qed.
Print Assumptions C10_only_constructor_fails.

(* The clock of the product run IS the C09 time loop: running C09's [simulate] on the events
   derived from the solver verdicts (NConv k -> Converged k, NFail -> Failed) yields exactly
   the clock states, compute_time_step answers and stop reason of the product run.  Hence
   every theorem of C09 (C09_main: accepted times increase, hit the schedule, never exceed
   the final time, rewind on failure ...) holds of the product run, for any arithmetic. *)
Theorem C10_clock_is_C09 :
  forall (V : Type) (vadd : V -> V -> V) (T : Type) (O : C09.numops T) (dI dT : nat),
    1 <= dI -> 1 <= dT ->
    forall (maxit : Z) (v0 : V) (a : C09.args T) (sched : list T)
         (solves : list (list (V * bool * bool)))
         (c : C09.cfg T) (st0 : store V) (tr : list (entry V T)) (sp : stop),
    simulate V vadd T O maxit a sched (map Z.of_nat (seq 0 dI)) (map Z.of_nat (seq 0 dT))
             v0 solves = inl (c, st0, (tr, sp)) ->
    C09.simulate T O a sched (map ev_of tr) = inl (c, (map clock_of tr, stop_of sp)).
Proof. exact clock_is_C09. Qed.
Print Assumptions C10_clock_is_C09.

(* Claim 3, clock half (exact real arithmetic, C09_main's hypotheses): the loop never stops
   on a storage exception; if it raises, it is through the recomputation budget
   (recomputation attempts exhausted, or dt already at dt_min); if it finishes, the clock it
   ends with does not exceed the final time and is within isclose of it. *)
Local Open Scope R_scope.
Theorem C10_ends_at_final_time :
  forall (V : Type) (vadd : V -> V -> V) (dI dT : nat) (maxit : Z)
         (a : C09.args R) (sched : list R) (v0 : V) (solves : list (list (V * bool * bool)))
         (c : C09.cfg R) (st0 : store V) (tr : list (entry V R)) (sp : stop),
    (1 <= dI)%nat -> (1 <= dT)%nat ->
    simulate V vadd R C09.ROps maxit a sched (map Z.of_nat (seq 0 dI)) (map Z.of_nat (seq 0 dT))
             v0 solves = inl (c, st0, (tr, sp)) ->
    C09.a_constant a = false ->
    0 < C09.dt_min c -> 0 <= C09.a_rtol a -> 0 <= C09.a_atol a ->
    C09.well_separated (C09.a_rtol a) (C09.a_atol a) sched ->
    C09.a_dt_init a <= nth 1 sched 0 - nth 0 sched 0 ->
    let t_end := C09.time (final_clock (C09.init_state R C09.ROps c sched) tr) in
    (forall e, sp <> RaisedStore e) /\
    (forall e, sp = RaisedClock e -> e = C09.E_recomp_exhausted \/ e = C09.E_dt_at_min) /\
    (sp = Finished ->
       t_end <= last sched 0 /\ C09.isclose R C09.ROps c t_end (last sched 0) = true).
Proof. exact ends_at_final_time. Qed.
Print Assumptions C10_ends_at_final_time.
Local Close Scope R_scope.

(* Termination (exact real arithmetic, C09_main's hypotheses).  For EVERY verdict pattern the
   number of attempted time steps of the run is bounded by a number that depends only on the
   TimeManager configuration: every converged step either advances the clock by at least
   dt_min or lands exactly on the scheduled time it was shortened onto, and at most
   recomp_max failed steps fit between two converged ones (one more may raise).  So the time
   loop cannot run forever: with enough scripted inputs it finishes or raises through the
   recomputation budget (see C10_never_starved for "enough"). *)
Local Open Scope R_scope.
Theorem C10_terminates :
  forall (V : Type) (vadd : V -> V -> V) (dI dT : nat) (maxit : Z)
         (a : C09.args R) (sched : list R) (v0 : V) (solves : list (list (V * bool * bool)))
         (c : C09.cfg R) (st0 : store V) (tr : list (entry V R)) (sp : stop),
    (1 <= dI)%nat -> (1 <= dT)%nat ->
    simulate V vadd R C09.ROps maxit a sched (map Z.of_nat (seq 0 dI)) (map Z.of_nat (seq 0 dT))
             v0 solves = inl (c, st0, (tr, sp)) ->
    C09.a_constant a = false ->
    0 < C09.dt_min c -> 0 <= C09.a_rtol a -> 0 <= C09.a_atol a ->
    C09.well_separated (C09.a_rtol a) (C09.a_atol a) sched ->
    C09.a_dt_init a <= nth 1 sched 0 - nth 0 sched 0 ->
    INR (n_converged tr) * C09.dt_min c
      <= (last sched 0 - nth 0 sched 0) + INR (length sched - 1) * C09.dt_min c /\
    (Z.of_nat (n_failed tr) <= (Z.of_nat (n_converged tr) + 1) * C09.recomp_max c + 1)%Z /\
    length tr = (n_converged tr + n_failed tr)%nat.
Proof. exact terminates. Qed.
Print Assumptions C10_terminates.
Local Close Scope R_scope.

(* The model's OutOfEvents stop (an artefact of finite scripted inputs) only occurs when
   every scripted solve was consumed, or the solve that was cut short had been given fewer
   inputs than the iteration budget allows.  Any index sets, any arithmetic. *)
Theorem C10_never_starved :
  forall (V : Type) (vadd : V -> V -> V) (T : Type) (O : C09.numops T) (maxit : Z)
         (a : C09.args T) (sched : list T) (iti tsi : list Z) (v0 : V)
         (solves : list (list (V * bool * bool)))
         (c : C09.cfg T) (st0 : store V) (tr : list (entry V T)),
    simulate V vadd T O maxit a sched iti tsi v0 solves = inl (c, st0, (tr, OutOfEvents)) ->
    length tr = length solves \/
    exists inp, nth_error solves (length tr) = Some inp /\
                (Z.of_nat (length inp) <= maxit)%Z.
Proof. exact never_starved. Qed.
Print Assumptions C10_never_starved.

(* Claims 1-3 and the clock projection for index ARRAYS in any order and with repetitions:
   iterate_indices / time_step_indices are arbitrary lists of non-negative integers whose
   set is 0..m-1 (the shift depth is the length of the list, as in the code).  The
   time-step dictionary then starts with m keys and grows to the depth: key i holds the
   i-th entry of (accepted solutions, most recent first, initial values last) followed by
   m-1 further copies of the initial values.  With [no_exc e] (neither a storage exception
   nor a raising compute_time_step) iterate 0 is the newest accepted solution, which by the
   definition of [accepted] is the converged iterate after a converged step and the
   previous accepted solution after a failed one. *)
Theorem C10_index_lists :
  forall (V : Type) (vadd : V -> V -> V) (T : Type) (O : C09.numops T)
         (iti tsi : list Z) (mI mT : nat),
    index_set iti mI -> index_set tsi mT ->
    forall (maxit : Z) (v0 : V) (a : C09.args T) (sched : list T)
           (solves : list (list (V * bool * bool)))
           (c : C09.cfg T) (st0 : store V) (tr : list (entry V T)) (sp : stop),
    simulate V vadd T O maxit a sched iti tsi v0 solves = inl (c, st0, (tr, sp)) ->
    (forall e, sp <> RaisedStore e) /\
    (forall pre e post, tr = pre ++ e :: post ->
       (forall x, e_res e <> NErr x) /\ e_res e <> NOut /\
       (forall i, slot_get (tss (e_store e)) i
                  = if i <? length tsi
                    then nth_error (accepted vadd v0 (pre ++ [e]) ++ repeat v0 (mT - 1)) i
                    else None) /\
       (no_exc e = true ->
          slot_get (its (e_store e)) 0 = Some (hd v0 (accepted vadd v0 (pre ++ [e]))))) /\
    (forall i, slot_get (tss (final_store st0 tr)) i
               = if i <? length tsi
                 then nth_error (accepted vadd v0 tr ++ repeat v0 (mT - 1)) i else None) /\
    C09.simulate T O a sched (map ev_of tr) = inl (c, (map clock_of tr, stop_of sp)).
Proof. exact index_lists_thm. Qed.
Print Assumptions C10_index_lists.

Theorem C10_index_lists_only_constructor_fails :
  forall (V : Type) (vadd : V -> V -> V) (T : Type) (O : C09.numops T)
         (iti tsi : list Z) (mI mT : nat),
    index_set iti mI -> index_set tsi mT ->
    forall (maxit : Z) (v0 : V) (a : C09.args T) (sched : list T)
           (solves : list (list (V * bool * bool))) (f : failure),
    simulate V vadd T O maxit a sched iti tsi v0 solves = inr f ->
    exists e, f = CtorErr e /\ C09.construct T O a sched = inr e.
Proof. exact index_lists_only_constructor_fails. Qed.
Print Assumptions C10_index_lists_only_constructor_fails.

(* ---------------- non-vacuity ---------------- *)
(* A concrete run (vectors of integers, binary64 clock): depths 2/2, max_iterations = 3,
   schedule [0; 1], dt_init = 1/2; solve 1 diverges at its 2nd iteration, solve 2 converges
   after 2 iterations, solve 3 exhausts the budget (4 iterations), solves 4 and 5 converge.
   The hypotheses of claims 1-3 are met by a failed and by a converged entry, and the
   dictionaries hold what the theorems say. *)
Definition ex_fargs : C09.args float :=
  C09.Build_args float 0x1p-1%float false (Some (0x1p-4%float, 1%float)) 10 2 4
                 0x1p-1%float 2%float 0x1p-1%float 3 0x1.b7cdfd9d7bdbbp-34%float 0%float.
Definition ex_solves : list (list (list Z * bool * bool)) :=
  [ [([1; 1], false, false); ([2; 0], false, true)];
    [([5; 5], false, false); ([1; 2], true, false)];
    [([9; 9], false, false); ([9; 9], false, false); ([9; 9], false, false);
     ([9; 9], false, false); ([7; 7], true, false)];
    [([1; 0], true, false)];
    [([0; 1], true, false)] ]%Z.

Example C10_nonvacuous :
  match simulate (list Z) C08.vaddZ float C09.FOps 3 ex_fargs [0%float; 1%float]
                 (map Z.of_nat (seq 0 2)) (map Z.of_nat (seq 0 2)) [10; 20]%Z ex_solves with
  | inl (_, _, (tr, sp)) =>
      map (fun e => (e_res e, slot_get (its (e_store e)) 0, slot_get (tss (e_store e)) 0,
                     slot_get (tss (e_store e)) 1)) tr
      = [ (NFail, Some [10; 20], Some [10; 20], Some [10; 20]);
          (NConv 2, Some [16; 27], Some [16; 27], Some [10; 20]);
          (NFail, Some [16; 27], Some [16; 27], Some [10; 20]);
          (NConv 1, Some [17; 27], Some [17; 27], Some [16; 27]);
          (NConv 1, Some [17; 28], Some [17; 28], Some [17; 27]) ]%Z
      /\ sp = Finished
      /\ accepted C08.vaddZ [10; 20]%Z tr = [[17; 28]; [17; 27]; [16; 27]; [10; 20]]%Z
  | inr _ => False
  end.
Proof. vm_compute. repeat split; reflexivity. Qed.

(* The hypotheses of the clock theorem are satisfiable (real arithmetic): the configuration
   of C09's regression example, any solver verdicts. *)
Example C10_ends_at_final_time_nonvacuous :
  forall solves : list (list (list Z * bool * bool)),
  exists c st0 tr sp,
    simulate (list Z) C08.vaddZ R C09.ROps 3 ex_args ex_sched
             (map Z.of_nat (seq 0 2)) (map Z.of_nat (seq 0 1)) [0%Z] solves
      = inl (c, st0, (tr, sp)) /\
    C09.a_constant ex_args = false /\ (0 < C09.dt_min c)%R /\
    (0 <= C09.a_rtol ex_args)%R /\ (0 <= C09.a_atol ex_args)%R /\
    C09.well_separated (C09.a_rtol ex_args) (C09.a_atol ex_args) ex_sched /\
    (C09.a_dt_init ex_args <= nth 1 ex_sched 0 - nth 0 ex_sched 0)%R.
Proof.
  intros solves. destruct ex_construct as [c [Ec Emin]].
  destruct (init_ok (list Z) C08.vaddZ 2 1 [0%Z] ltac:(lia) ltac:(lia)) as [st [Ei _]].
  unfold simulate. rewrite Ec, Ei.
  destruct (drive (list Z) C08.vaddZ R C09.ROps 3 _ _ c ex_sched _ st solves) as [tr sp].
  exists c, st, tr, sp. split; [reflexivity|].
  destruct ex_guards as [G1 [G2 [G3 [G4 G5]]]].
  repeat split; try assumption. rewrite Emin. lra.
Qed.

(* Index arrays [1; 0; 0] (iterates: depth 3, two keys) and [2; 0; 1] (time steps) satisfy
   [index_set]; the run of C10_nonvacuous with them: the iterate dictionary starts with the
   keys 0, 1 and grows to depth 3. *)
Example C10_index_lists_nonvacuous :
  index_set [1; 0; 0]%Z 2 /\ index_set [2; 0; 1]%Z 3 /\
  match simulate (list Z) C08.vaddZ float C09.FOps 3 ex_fargs [0%float; 1%float]
                 [1; 0; 0]%Z [2; 0; 1]%Z [10; 20]%Z ex_solves with
  | inl (_, st0, (tr, sp)) =>
      map (fun i => slot_get (its st0) i) [0; 1; 2] = [Some [10; 20]; Some [10; 20]; None]%Z /\
      map (fun i => slot_get (its (final_store st0 tr)) i) [0; 1; 2; 3]
      = [Some [17; 28]; Some [17; 27]; Some [16; 27]; None]%Z /\
      map (fun i => slot_get (tss (final_store st0 tr)) i) [0; 1; 2; 3]
      = [Some [17; 28]; Some [17; 27]; Some [16; 27]; None]%Z /\ sp = Finished
  | inr _ => False
  end.
Proof.
  split; [|split].
  - split; [lia|split; [repeat constructor; lia|]]. intros j. split.
    + intros [H|[H|[H|[]]]]; lia.
    + intros H. destruct j as [|[|j]]; [right; left; reflexivity|left; reflexivity|lia].
  - split; [lia|split; [repeat constructor; lia|]]. intros j. split.
    + intros [H|[H|[H|[]]]]; lia.
    + intros H. destruct j as [|[|[|j]]];
        [right; left; reflexivity|right; right; left; reflexivity|left; reflexivity|lia].
  - vm_compute. repeat split; reflexivity.
Qed.

(* A run that is cut short by its scripted inputs (the second solve gets one input although
   max_iterations = 3 allows four iterations): the OutOfEvents stop of C10_never_starved. *)
Example C10_never_starved_nonvacuous :
  match simulate (list Z) C08.vaddZ float C09.FOps 3 ex_fargs [0%float; 1%float]
                 [0%Z] [0%Z] [10; 20]%Z
                 [ [([1; 1], true, false)]; [([5; 5], false, false)]; [([1; 1], true, false)] ]%Z with
  | inl (_, _, (tr, sp)) => sp = OutOfEvents /\ length tr = 1
  | inr _ => False
  end.
Proof. vm_compute. split; reflexivity. Qed.
