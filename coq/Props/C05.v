(* C05 — property theorems only.  Model: PP.Model.C05 (transcription of EquationSystem's
   variable / dof bookkeeping); proofs: PP.Proofs.C05.

   Vocabulary (PP.Proofs.C05):
     final g ops      state after running the operation list [ops] from the empty system on
                      the md-grid [g] (any mix of create / remove / set / get / dofs_of /
                      identify_dof / projection_to / num_dofs calls, failing calls included)
     wf_op g o        a create_variables call only lists grids of the md-grid
                      (a grid listed twice in one call is rejected by the code itself since
                      the fix recorded in known_findings/C05.json, so no further guard is needed)
     block_ids s      the ids in the iteration order of _variable_numbers (= block order)
     block_of s id    dofs_of([variable id])
     lexlt g a b      a's grid comes before b's in (subdomains, then interfaces) order, or the
                      grids coincide and a was created before b
     ndofv g v        cells*c + faces*f + nodes*n (subdomain) / cells*c (interface)
     need s r         number of dofs of the registered variables selected by [r] *)
From Coq Require Import List ZArith Arith Lia Sorted Permutation.
Import ListNotations.
From PP Require Import Model.C05 Proofs.C05 Proofs.C05b Model.C05x Proofs.C05x.

(* After ANY history: the k-th entry of _variable_numbers has block number k; the blocks
   belong to exactly the registered variables (each once); they are ordered by subdomain
   order, then interface order, then creation order; concatenated in block order they
   enumerate 0 .. num_dofs-1 (contiguous, pairwise disjoint, covering); each block has the
   variable's dof count as size; ids grow with creation. *)
Theorem C05_partition :
  forall g ops, Forall (wf_op g) ops ->
  let s := final g ops in
  exists ord : list var,
    block_ids s = map vid ord /\
    map snd (numbers s) = seq 0 (length (numbers s)) /\
    (forall v, In v ord <-> In v (vars s)) /\
    NoDup (block_ids s) /\
    StronglySorted (lexlt g) ord /\
    StronglySorted lt (map vid (vars s)) /\
    concat (map (block_of s) (block_ids s)) = seq 0 (num_dofs s) /\
    (forall v, In v (vars s) ->
       find_var s (vid v) = Some v /\ length (block_of s (vid v)) = ndofv g v).
Proof. exact thm_partition. Qed.
Print Assumptions C05_partition.

(* identify_dof returns a registered variable whose block contains the index (by the
   partition theorem there is only one), also in the presence of empty blocks. *)
Theorem C05_identify :
  forall g ops i, Forall (wf_op g) ops ->
  let s := final g ops in
  i < num_dofs s ->
  exists v, In v (vars s) /\ identify_dof s (Z.of_nat i) = OVarId (vid v) /\
            In i (block_of s (vid v)).
Proof. exact thm_identify. Qed.
Print Assumptions C05_identify.

(* indices outside 0 .. num_dofs-1 are rejected with KeyError (any state) *)
Theorem C05_identify_out_of_range :
  forall s z, (z < 0 \/ Z.of_nat (num_dofs s) <= z)%Z -> identify_dof s z = OErr KeyErr.
Proof. exact identify_out_of_range. Qed.
Print Assumptions C05_identify_out_of_range.

(* projection_to of registered variables: one row per selected dof, each row a single 1;
   the columns are sorted and are exactly the indices of the requested variables (with
   multiplicity); applying the projection picks these entries of a vector. *)
Theorem C05_projection :
  forall g ops r, Forall (wf_op g) ops ->
  let s := final g ops in
  truthy r = true -> (forall id, In id (parse s r) -> In id (block_ids s)) ->
  exists cols, projection_to s r = OProjM cols (num_dofs s) /\
    StronglySorted le cols /\
    Permutation cols (concat (map (block_of s) (parse s r))) /\
    (forall i, In i cols <-> exists id, In id (parse s r) /\ In i (block_of s id)) /\
    (forall x, proj_apply cols x = map (fun c => nth c x 0%Z) cols).
Proof. exact thm_projection. Qed.
Print Assumptions C05_projection.

(* no variables requested: the empty projection with num_dofs columns (any state) *)
Theorem C05_projection_null :
  forall s r, truthy r = false -> projection_to s r = OProjM [] (num_dofs s).
Proof. exact projection_null. Qed.
Print Assumptions C05_projection_null.

(* After any history: an overwrite with a vector of the right length for ANY variable
   selection (objects, names, md-variables, None = all; stale and repeated references
   allowed) succeeds, leaves the layout untouched, and reading the same selection from
   every written storage location returns exactly the written vector. *)
Theorem C05_set_get :
  forall g ops r xs w, Forall (wf_op g) ops ->
  let s := final g ops in
  length xs = need s r ->
  exists s', step g s (OpSet r xs w false) = (s', ODone) /\
    vars s' = vars s /\ numbers s' = numbers s /\ sizes s' = sizes s /\
    forall l, In l (wlocs w) -> snd (step g s' (OpGet r l)) = OVals xs.
Proof. exact thm_set_get_wf. Qed.
Print Assumptions C05_set_get.

(* additive variant: after an overwrite with ys, an additive write of xs (both of the right
   length, any selection) succeeds and reading returns the elementwise sum ys + xs
   (vadd a b = map (+) (combine a b)) *)
Theorem C05_set_additive :
  forall g ops r xs ys w, Forall (wf_op g) ops ->
  let s := final g ops in
  length ys = need s r -> length xs = need s r ->
  exists s1 s2,
    step g s (OpSet r ys w false) = (s1, ODone) /\
    step g s1 (OpSet r xs w true) = (s2, ODone) /\
    forall l, In l (wlocs w) -> snd (step g s2 (OpGet r l)) = OVals (vadd ys xs).
Proof. exact thm_set_add_wf. Qed.
Print Assumptions C05_set_additive.

(* a vector of the wrong length ends in the size assertion *)
Theorem C05_set_wrong_size :
  forall g ops r xs w, Forall (wf_op g) ops ->
  let s := final g ops in
  length xs <> need s r -> snd (step g s (OpSet r xs w false)) = OErr AssertErr.
Proof. exact thm_set_wrong_size_wf. Qed.
Print Assumptions C05_set_wrong_size.

(* an index has exactly one owner: two registered variables whose blocks share an index
   are the same variable *)
Theorem C05_owner_unique :
  forall g ops i v v', Forall (wf_op g) ops ->
  let s := final g ops in
  In v (vars s) -> In v' (vars s) ->
  In i (block_of s (vid v)) -> In i (block_of s (vid v')) -> v = v'.
Proof. exact thm_owner_unique. Qed.
Print Assumptions C05_owner_unique.

(* for pairwise distinct registered variables the projection's columns are strictly
   increasing (no repeated row) and are the blocks of the selected variables in global
   (block) order, i.e. exactly the positions set/get_variable_values dissect; their number
   is the vector length these functions expect *)
Theorem C05_projection_distinct :
  forall g ops r, Forall (wf_op g) ops ->
  let s := final g ops in
  truthy r = true -> NoDup (parse s r) ->
  (forall id, In id (parse s r) -> In id (block_ids s)) ->
  projection_to s r =
    OProjM (concat (map (block_of s) (selected_ids s r))) (num_dofs s) /\
  StronglySorted lt (concat (map (block_of s) (selected_ids s r))) /\
  length (concat (map (block_of s) (selected_ids s r))) = need s r.
Proof. exact thm_projection_distinct. Qed.
Print Assumptions C05_projection_distinct.

(* additive write onto ARBITRARY stored values: if every selected registered variable holds,
   at every written location, an array of its own size (however it got there), an additive
   write of the right length succeeds, keeps the layout, and reading returns old + xs *)
Theorem C05_set_additive_any :
  forall g ops r xs w, Forall (wf_op g) ops ->
  let s := final g ops in
  length xs = need s r -> values_present g s r w ->
  exists s', step g s (OpSet r xs w true) = (s', ODone) /\
    vars s' = vars s /\ numbers s' = numbers s /\ sizes s' = sizes s /\
    forall l, In l (wlocs w) -> exists old,
      snd (step g s (OpGet r l)) = OVals old /\ length old = need s r /\
      snd (step g s' (OpGet r l)) = OVals (vadd old xs).
Proof. exact thm_set_additive_any. Qed.
Print Assumptions C05_set_additive_any.

(* ---- extended model (PP.Model.C05x): md_variable / get_variables as reference producers,
   update_variable_num_dofs after the grids changed size.
     layout_ok g s     the conjunction of C05_partition for the state s and grid sizes g
     same_shape g g'   the md-grid keeps its subdomains and interfaces, only sizes change
     synced g ops      x-history from grid sizes g in which every change of the grid sizes
                       (XRegrid) is directly followed by update_variable_num_dofs (XUpdate)
                       and variables are only created on grids of the md-grid *)

(* after any history: if the grids change size (same grids), update_variable_num_dofs
   succeeds, keeps variables, numbering and stored values, and the whole layout statement
   holds again w.r.t. the NEW sizes *)
Theorem C05_update_num_dofs :
  forall g g' ops, Forall (wf_op g) ops -> same_shape g g' ->
  let s := final g ops in
  exists s', update_num_dofs g' s = (s', ODone) /\
             vars s' = vars s /\ numbers s' = numbers s /\ store s' = store s /\
             layout_ok g' s'.
Proof. exact thm_update. Qed.
Print Assumptions C05_update_num_dofs.

(* any x-history (references produced by md_variable / get_variables, listing, repeated
   re-sizing of the grids each followed by an update): layout statement w.r.t. the current
   grid sizes, and identify_dof finds the owner of every index *)
Theorem C05_xhistory :
  forall g ops, synced g ops ->
  let x := fst (xrun (xinit g) ops) in
  layout_ok (xg x) (C05x.xs x) /\
  (forall i, i < num_dofs (C05x.xs x) ->
     exists v, In v (vars (C05x.xs x)) /\
               identify_dof (C05x.xs x) (Z.of_nat i) = OVarId (vid v) /\
               In i (block_of (C05x.xs x) (vid v))).
Proof. exact thm_xlayout. Qed.
Print Assumptions C05_xhistory.

(* write/read round trip for ANY list of variable ids, whatever produced it *)
Theorem C05_set_get_ids :
  forall g ops ids xs w, synced g ops ->
  let s := C05x.xs (fst (xrun (xinit g) ops)) in
  length xs = need_ids s ids ->
  exists s', set_values_ids s ids xs w false = (s', ODone) /\
    vars s' = vars s /\ numbers s' = numbers s /\ sizes s' = sizes s /\
    forall l, In l (wlocs w) -> get_values_ids s' ids l = OVals xs.
Proof. exact thm_set_get_ids. Qed.
Print Assumptions C05_set_get_ids.

(* Non-vacuity: a fracture grid (2 subdomains, 1 interface); interleaved creations on
   subdomains and the interface, a removal, a re-creation and a write. *)
Definition ex_g : mdgrid := {| sds := [(4, 14, 12); (2, 3, 3)]; intfs := [4] |}.
Definition ex_ops : list op :=
  [ OpCreate 0 (Some (1, 0, 0)) false (Some [1; 0]) None;      (* ids 0 (sd 1), 1 (sd 0) *)
    OpCreate 1 None false None (Some [0]);                     (* id 2 on the interface *)
    OpCreate 2 (Some (0, 0, 0)) false (Some [0]) None;         (* id 3: an empty block *)
    OpRemove (Some [ById 1]);
    OpCreate 0 (Some (1, 0, 1)) false (Some [0]) None;         (* id 4 on sd 0 *)
    OpSet (Some [ByName 1]) [5; 6; 7; 8]%Z WBoth false ].

Example C05_nonvacuous :
  Forall (wf2_op ex_g) ex_ops /\ Forall (wf_op ex_g) ex_ops /\
  let s := final ex_g ex_ops in
  block_ids s = [3; 4; 0; 2] /\ sizes s = [0; 16; 2; 4] /\ num_dofs s = 22 /\
  identify_dof s 0 = OVarId 4 /\ identify_dof s 16 = OVarId 0 /\
  projection_to s (Some [ById 2; ById 0]) = OProjM [16; 17; 18; 19; 20; 21] 22 /\
  need s (Some [ByName 0]) = 18 /\
  snd (step ex_g s (OpGet (Some [ById 2]) LTs)) = OVals [5; 6; 7; 8]%Z /\
  values_present ex_g s (Some [ByName 1]) WBoth /\
  NoDup (parse s (Some [ById 2; ById 0])) /\
  snd (step ex_g s (OpCreate 3 None false (Some [1; 0; 1]) None)) = OErr ValueErr.
Proof.
  split; [|split].
  - unfold ex_ops, wf2_op, wf_op, grids_ok, nodup_opt.
    repeat constructor; cbn; try lia; intuition (try discriminate; try lia).
  - unfold ex_ops, wf_op, grids_ok. repeat constructor; cbn; lia.
  - vm_compute. repeat split; try reflexivity.
    + intros v l [E|[E|[E|[E|[]]]]] Hm [El|[El|[]]]; subst; try discriminate;
        eexists; split; reflexivity.
    + repeat constructor; cbn; intuition discriminate.
Qed.

(* Non-vacuity of the x-history statements: variables, a re-sizing of the grids followed by
   the update, references through md_variable and get_variables. *)
Definition ex_g' : mdgrid := {| sds := [(5, 14, 12); (0, 3, 3)]; intfs := [6] |}.
Definition ex_xops : list xop :=
  [ XBase (OpCreate 0 (Some (1, 0, 0)) false (Some [1; 0]) None);
    XBase (OpCreate 1 None false None (Some [0]));
    XRegrid ex_g'; XUpdate;
    XBase (OpCreate 0 None false None (Some [0]));
    XSet (Some [XGetVars None (Some [Intf 0])]) [1; 2; 3; 4; 5; 6; 7; 8; 9; 10; 11; 12]%Z
         WIter false ].

Example C05_x_nonvacuous :
  synced ex_g ex_xops /\ same_shape ex_g ex_g' /\
  let x := fst (xrun (xinit ex_g) ex_xops) in
  xg x = ex_g' /\ sizes (C05x.xs x) = [5; 0; 6; 6] /\ block_ids (C05x.xs x) = [1; 0; 2; 3] /\
  snd (xstep x (XGet (Some [XMdName 1 None]) LIter)) = OVals [1; 2; 3; 4; 5; 6]%Z /\
  snd (xstep x (XDofs (Some [XMdName 0 None]))) = OErr ValueErr /\
  snd (xstep x (XDofs (Some [XMdName 3 None]))) = OErr IndexErr /\
  need_ids (C05x.xs x) [3; 2; 7] = 12.
Proof.
  split; [|split; [split; reflexivity|]].
  - unfold ex_xops.
    apply synced_op; [cbn; unfold grids_ok; repeat constructor; cbn; lia|].
    apply synced_op; [cbn; unfold grids_ok; repeat constructor; cbn; lia|].
    apply synced_regrid; [split; reflexivity|].
    apply synced_op; [cbn; unfold grids_ok; repeat constructor; cbn; lia|].
    apply synced_op; [exact I|]. apply synced_nil.
  - vm_compute. repeat split; reflexivity.
Qed.
