(* C05 — property theorems only.  Model: PP.Model.C05 (transcription of EquationSystem's
   variable / dof bookkeeping); proofs: PP.Proofs.C05.

   Vocabulary (PP.Proofs.C05):
     final g ops      state after running the operation list [ops] from the empty system on
                      the md-grid [g] (any mix of create / remove / set / get / dofs_of /
                      identify_dof / projection_to / num_dofs calls, failing calls included)
     wf_op g o        a create_variables call only lists grids of the md-grid
     wf2_op g o       wf_op, and no grid is listed twice in one create_variables call
     block_ids s      the ids in the iteration order of _variable_numbers (= block order)
     block_of s id    dofs_of([variable id])
     lexlt g a b      a's grid comes before b's in (subdomains, then interfaces) order, or the
                      grids coincide and a was created before b
     ndofv g v        cells*c + faces*f + nodes*n (subdomain) / cells*c (interface)
     need s r         number of dofs of the registered variables selected by [r] *)
From Coq Require Import List ZArith Arith Lia Sorted Permutation.
Import ListNotations.
From PP Require Import Model.C05 Proofs.C05.

(* After ANY history: the k-th entry of _variable_numbers has block number k; the blocks
   belong to exactly the registered variables (each once); they are ordered by subdomain
   order, then interface order, then creation order; concatenated in block order they
   enumerate 0 .. num_dofs-1 (contiguous, pairwise disjoint, covering); each block has the
   variable's dof count as size; ids grow with creation. *)
Theorem C05_partition :
  forall g ops, Forall (wf_op g) ops ->
  let s := final g ops in
  exists ord : list var,
    block_ids s = map vid ord /\
    map snd (numbers s) = seq 0 (length (numbers s)) /\
    (forall v, In v ord <-> In v (vars s)) /\
    NoDup (block_ids s) /\
    StronglySorted (lexlt g) ord /\
    StronglySorted lt (map vid (vars s)) /\
    concat (map (block_of s) (block_ids s)) = seq 0 (num_dofs s) /\
    (forall v, In v (vars s) ->
       find_var s (vid v) = Some v /\ length (block_of s (vid v)) = ndofv g v).
Proof. exact thm_partition. Qed.
Print Assumptions C05_partition.

(* identify_dof returns a registered variable whose block contains the index (by the
   partition theorem there is only one), also in the presence of empty blocks. *)
Theorem C05_identify :
  forall g ops i, Forall (wf_op g) ops ->
  let s := final g ops in
  i < num_dofs s ->
  exists v, In v (vars s) /\ identify_dof s (Z.of_nat i) = OVarId (vid v) /\
            In i (block_of s (vid v)).
Proof. exact thm_identify. Qed.
Print Assumptions C05_identify.

(* indices outside 0 .. num_dofs-1 are rejected with KeyError (any state) *)
Theorem C05_identify_out_of_range :
  forall s z, (z < 0 \/ Z.of_nat (num_dofs s) <= z)%Z -> identify_dof s z = OErr KeyErr.
Proof. exact identify_out_of_range. Qed.
Print Assumptions C05_identify_out_of_range.

(* projection_to of registered variables: one row per selected dof, each row a single 1;
   the columns are sorted and are exactly the indices of the requested variables (with
   multiplicity); applying the projection picks these entries of a vector. *)
Theorem C05_projection :
  forall g ops r, Forall (wf_op g) ops ->
  let s := final g ops in
  truthy r = true -> (forall id, In id (parse s r) -> In id (block_ids s)) ->
  exists cols, projection_to s r = OProjM cols (num_dofs s) /\
    StronglySorted le cols /\
    Permutation cols (concat (map (block_of s) (parse s r))) /\
    (forall i, In i cols <-> exists id, In id (parse s r) /\ In i (block_of s id)) /\
    (forall x, proj_apply cols x = map (fun c => nth c x 0%Z) cols).
Proof. exact thm_projection. Qed.
Print Assumptions C05_projection.

(* no variables requested: the empty projection with num_dofs columns (any state) *)
Theorem C05_projection_null :
  forall s r, truthy r = false -> projection_to s r = OProjM [] (num_dofs s).
Proof. exact projection_null. Qed.
Print Assumptions C05_projection_null.

(* After any history: an overwrite with a vector of the right length for ANY variable
   selection (objects, names, md-variables, None = all; stale and repeated references
   allowed) succeeds, leaves the layout untouched, and reading the same selection from
   every written storage location returns exactly the written vector. *)
Theorem C05_set_get :
  forall g ops r xs w, Forall (wf2_op g) ops ->
  let s := final g ops in
  length xs = need s r ->
  exists s', step g s (OpSet r xs w false) = (s', ODone) /\
    vars s' = vars s /\ numbers s' = numbers s /\ sizes s' = sizes s /\
    forall l, In l (wlocs w) -> snd (step g s' (OpGet r l)) = OVals xs.
Proof. exact thm_set_get. Qed.
Print Assumptions C05_set_get.

(* additive variant: after an overwrite with ys, an additive write of xs (both of the right
   length, any selection) succeeds and reading returns the elementwise sum ys + xs
   (vadd a b = map (+) (combine a b)) *)
Theorem C05_set_additive :
  forall g ops r xs ys w, Forall (wf2_op g) ops ->
  let s := final g ops in
  length ys = need s r -> length xs = need s r ->
  exists s1 s2,
    step g s (OpSet r ys w false) = (s1, ODone) /\
    step g s1 (OpSet r xs w true) = (s2, ODone) /\
    forall l, In l (wlocs w) -> snd (step g s2 (OpGet r l)) = OVals (vadd ys xs).
Proof. exact thm_set_add. Qed.
Print Assumptions C05_set_additive.

(* a vector of the wrong length ends in the size assertion *)
Theorem C05_set_wrong_size :
  forall g ops r xs w, Forall (wf2_op g) ops ->
  let s := final g ops in
  length xs <> need s r -> snd (step g s (OpSet r xs w false)) = OErr AssertErr.
Proof. exact thm_set_wrong_size. Qed.
Print Assumptions C05_set_wrong_size.

(* Non-vacuity: a fracture grid (2 subdomains, 1 interface); interleaved creations on
   subdomains and the interface, a removal, a re-creation and a write. *)
Definition ex_g : mdgrid := {| sds := [(4, 14, 12); (2, 3, 3)]; intfs := [4] |}.
Definition ex_ops : list op :=
  [ OpCreate 0 (Some (1, 0, 0)) false (Some [1; 0]) None;      (* ids 0 (sd 1), 1 (sd 0) *)
    OpCreate 1 None false None (Some [0]);                     (* id 2 on the interface *)
    OpCreate 2 (Some (0, 0, 0)) false (Some [0]) None;         (* id 3: an empty block *)
    OpRemove (Some [ById 1]);
    OpCreate 0 (Some (1, 0, 1)) false (Some [0]) None;         (* id 4 on sd 0 *)
    OpSet (Some [ByName 1]) [5; 6; 7; 8]%Z WBoth false ].

Example C05_nonvacuous :
  Forall (wf2_op ex_g) ex_ops /\ Forall (wf_op ex_g) ex_ops /\
  let s := final ex_g ex_ops in
  block_ids s = [3; 4; 0; 2] /\ sizes s = [0; 16; 2; 4] /\ num_dofs s = 22 /\
  identify_dof s 0 = OVarId 4 /\ identify_dof s 16 = OVarId 0 /\
  projection_to s (Some [ById 2; ById 0]) = OProjM [16; 17; 18; 19; 20; 21] 22 /\
  need s (Some [ByName 0]) = 18 /\
  snd (step ex_g s (OpGet (Some [ById 2]) LTs)) = OVals [5; 6; 7; 8]%Z.
Proof.
  split; [|split].
  - unfold ex_ops, wf2_op, wf_op, grids_ok, nodup_opt.
    repeat constructor; cbn; try lia; intuition (try discriminate; try lia).
  - unfold ex_ops, wf_op, grids_ok. repeat constructor; cbn; lia.
  - vm_compute. repeat split; reflexivity.
Qed.
