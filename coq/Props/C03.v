(* C03 — property theorems only.  Model: PP.Model.C03 over the rule table PP.Model.C01;
   proofs: PP.Proofs.C03 (corollary of the C01 composition theorem). *)
From Coq Require Import Reals List Arith Lra.
From Coquelicot Require Import Coquelicot.
From PP Require Import Model.C01 Model.C01R Model.C03 Proofs.C01 Proofs.C01_fun
  Proofs.C01_comp Proofs.C03.
Import ListNotations.
Open Scope R_scope.

(* For EVERY system of equations whose trees are built from variables, constants (fixed
   discretisation matrices, parameter arrays, previous-time values) and the operators /
   functions of the verified rule table: at every state x where the row's tree is
   evaluated inside the smooth domain, and for every direction v, row r of the assembled
   Jacobian applied to v is the derivative of row r of the residual along v (matrices held
   fixed: they are constants of the tree). *)
Theorem C03_compose :
  forall (eqs : system (T:=R)) (x v : env (T:=R)) (r : nat) (e : expr R) (i : nat),
    locate eqs r = Some (e, i) -> smooth e x i ->
    is_derive (fun t => residual ROps eqs (shift x v t) r) 0
              (snd (assembled ROps eqs x v r)).
Proof. exact compose_thm. Qed.
Print Assumptions C03_compose.

(* The residual assembled together with the Jacobian is the plain residual (any state). *)
Theorem C03_residual_value :
  forall (eqs : system (T:=R)) (x v : env (T:=R)) (r : nat),
    fst (assembled ROps eqs x v r) = residual ROps eqs x r.
Proof. exact residual_value. Qed.
Print Assumptions C03_residual_value.

(* Every row below the total row count belongs to exactly one equation entry. *)
Theorem C03_rows_located :
  forall (eqs : system (T:=R)) (r : nat),
    (r < fold_right (fun ne acc => fst ne + acc) 0 eqs)%nat ->
    exists e i, locate eqs r = Some (e, i).
Proof. exact locate_total. Qed.
Print Assumptions C03_rows_located.

(* Non-vacuity: two equations, (x0 * x1, 2 rows) and (exp(x0) / x1, 1 row); row 2 is the
   first row of the second equation and is smooth at x = 1. *)
Example C03_nonvacuous :
  let eqs := [(2%nat, Mul (Var 0) (Var 1)); (1%nat, Div (Fun Fexp (Var 0)) (Var 1))] in
  let x := (fun (k i : nat) => 1) : env (T:=R) in
  exists e i, locate eqs 2 = Some (e, i) /\ smooth e x i.
Proof.
  cbv zeta. eexists. eexists. split.
  - reflexivity.
  - simpl. repeat split; auto; try lra.
Qed.
