(* C46 — property theorems only.  Model: PP.Model.C46 (transcription of
   SparseNdArray.add/get after the repair commit); proofs: PP.Proofs.C46.

   V is the value type (one row of the value array) with the monoid laws of exact
   addition; [coord] = integer tuples; [wf] = every add has as many values as coordinates
   and every read asks for at least one coordinate.  [drun] is the reference: a plain
   dictionary fed with the (coordinate, value) pairs of every batch ONE BY ONE, in batch
   order (additive: d[c] = d[c] + v if c in d else v; overwrite: d[c] = v, so the last
   occurrence wins). *)
From Coq Require Import List ZArith Arith Lia.
Import ListNotations.
From PP Require Import Model.C46 Proofs.C46.

(* For EVERY history of additive / overwriting batch insertions (duplicates inside and
   across batches, batches of any size and order, any coordinate dimension) and reads:
   the value the array holds for every coordinate is the one the dictionary holds, and
   every call answers as the dictionary does (reads: the same values, or ValueError
   exactly when the dictionary lacks one of the coordinates). *)
Theorem C46_refines_dict :
  forall (V : Type) (vzero : V) (vadd : V -> V -> V),
    (forall x y z, vadd x (vadd y z) = vadd (vadd x y) z) ->
    (forall x, vadd vzero x = x) -> (forall x, vadd x vzero = x) ->
    forall ops : list (op V),
      Forall wf ops ->
      (forall c, abs (fst (run vzero vadd empty ops)) c
                 = dget (fst (drun vzero vadd [] ops)) c) /\
      map proj (snd (run vzero vadd empty ops)) = snd (drun vzero vadd [] ops).
Proof. exact refines_dict. Qed.
Print Assumptions C46_refines_dict.

(* The same from ANY storage state whose coordinates are duplicate free and any
   dictionary holding the same values (not only from the empty array). *)
Theorem C46_refines_dict_from_any_state :
  forall (V : Type) (vzero : V) (vadd : V -> V -> V),
    (forall x y z, vadd x (vadd y z) = vadd (vadd x y) z) ->
    (forall x, vadd vzero x = x) -> (forall x, vadd x vzero = x) ->
    forall (ops : list (op V)) (s : st V) (d : dict V),
      NoDup (coords s) -> length (coords s) = length (values s) ->
      (forall c, abs s c = dget d c) -> Forall wf ops ->
      (forall c, abs (fst (run vzero vadd s ops)) c
                 = dget (fst (drun vzero vadd d ops)) c) /\
      map proj (snd (run vzero vadd s ops)) = snd (drun vzero vadd d ops).
Proof. exact refines_dict_from. Qed.
Print Assumptions C46_refines_dict_from_any_state.

(* Reading, after any history, a list of coordinates that contains one never inserted
   raises ValueError. *)
Theorem C46_missing_raises :
  forall (V : Type) (vzero : V) (vadd : V -> V -> V),
    (forall x y z, vadd x (vadd y z) = vadd (vadd x y) z) ->
    (forall x, vadd vzero x = x) -> (forall x, vadd x vzero = x) ->
    forall (ops : list (op V)) (cs : list coord) (c : coord),
      Forall wf ops -> In c cs -> ~ In c (inserted ops) ->
      snd (step vzero vadd (fst (run vzero vadd empty ops)) (OpGet cs)) = OErr ValueErr.
Proof. exact missing_raises. Qed.
Print Assumptions C46_missing_raises.

(* Reading, after any history, coordinates that were all inserted never raises and
   returns, position by position (repeated coordinates allowed), the dictionary's value. *)
Theorem C46_inserted_readable :
  forall (V : Type) (vzero : V) (vadd : V -> V -> V),
    (forall x y z, vadd x (vadd y z) = vadd (vadd x y) z) ->
    (forall x, vadd vzero x = x) -> (forall x, vadd x vzero = x) ->
    forall (ops : list (op V)) (cs : list coord),
      Forall wf ops -> (forall c, In c cs -> In c (inserted ops)) ->
      let d := fst (drun vzero vadd [] ops) in
      (forall c, In c cs -> dget d c <> None) /\
      snd (step vzero vadd (fst (run vzero vadd empty ops)) (OpGet cs))
      = OVals (map (fun c => match dget d c with Some v => v | None => vzero end) cs).
Proof. exact inserted_readable. Qed.
Print Assumptions C46_inserted_readable.

(* A coordinate is held exactly when some batch of the history contained it. *)
Theorem C46_held_iff_inserted :
  forall (V : Type) (vzero : V) (vadd : V -> V -> V),
    (forall x y z, vadd x (vadd y z) = vadd (vadd x y) z) ->
    (forall x, vadd vzero x = x) -> (forall x, vadd x vzero = x) ->
    forall (ops : list (op V)) (c : coord),
      Forall wf ops ->
      (abs (fst (run vzero vadd empty ops)) c = None <-> ~ In c (inserted ops)).
Proof. exact held_iff_inserted. Qed.
Print Assumptions C46_held_iff_inserted.

(* Storage invariant after any history: stored coordinates are pairwise different and
   there is one value per stored coordinate (what get's ravel(ind_list) relies on). *)
Theorem C46_storage_invariant :
  forall (V : Type) (vzero : V) (vadd : V -> V -> V),
    (forall x y z, vadd x (vadd y z) = vadd (vadd x y) z) ->
    (forall x, vadd vzero x = x) -> (forall x, vadd x vzero = x) ->
    forall ops : list (op V),
      Forall wf ops ->
      NoDup (coords (fst (run vzero vadd empty ops))) /\
      length (coords (fst (run vzero vadd empty ops)))
      = length (values (fst (run vzero vadd empty ops))).
Proof. exact storage_invariant. Qed.
Print Assumptions C46_storage_invariant.

(* Non-vacuity: Z is such a monoid; a well-formed history with duplicates inside and
   across batches (the two inputs that failed before the repair are its first batches),
   what the array answers and what the dictionary holds. *)
Example C46_nonvacuous :
  let ops := [OpAdd false [[2]; [0]; [1]] [9; 2; 8];
              OpAdd true [[0]; [1]; [2]; [1]; [7]] [1; 2; 3; 10; 4];
              OpGet [[2]; [0]; [1]; [7]; [1]];
              OpAdd false [[7]; [7]; [0]] [5; 6; -1];
              OpGet [[7]; [0]];
              OpGet [[0]; [5]]]%Z in
  Forall wf ops /\
  snd (run 0%Z Z.add empty ops)
  = [OPerm [1; 2; 0]%nat; OPerm [4]%nat; OVals [12; 3; 20; 4; 20]%Z; OPerm [];
     OVals [6; -1]%Z; OErr ValueErr] /\
  map (dget (fst (drun 0%Z Z.add [] ops))) [[0]; [1]; [2]; [7]; [5]]%Z
  = [Some (-1); Some 20; Some 12; Some 6; None]%Z /\
  ~ In [5]%Z (inserted ops).
Proof.
  split; [|split; [|split]].
  - repeat constructor; cbn; try reflexivity; try discriminate.
  - vm_compute. reflexivity.
  - vm_compute. reflexivity.
  - cbn. intros H. repeat (destruct H as [H|H]; [discriminate|]). exact H.
Qed.
