(* placeholder, replaced below *)
From PP Require Import Model.C46.
