(* C12 — property theorems only.  Model: PP.Model.C12 (transcription of Tpfa.discretize,
   polymorphic in the field); proofs: PP.Proofs.C12 (real instance: rflux, rbound_flux, rbpc,
   rbpf, rt_full ... are the model's functions at R with +,-,*,/ of R).

   Vocabulary (Proofs/C12.v):
     entry M r c, row_apply M x r      matrix entry / (M x)_r of a coordinate list
     divflux I i j                     (Div * flux)[i, j], Div = cell_faces^T
     face_flux I p bv f                (flux p + bound_flux bv)_f
     face_pressure I p bv f            (bound_pressure_cell p + bound_pressure_face bv)_f
     entries (Model/C12.v)             (row face, cell, flux sign, geometry face, geometry sign);
                                       geo f c s = (f,c,s,f,s) is a stored entry of cell_faces, a
                                       periodic pair contributes two entries with the partner's
                                       cell and geometry (the pair is one face with two cells)
     interior I f c1 c2 s              f has exactly the entries geo f c1 s, geo f c2 (-s), is not in
                                       the boundary list and not flagged Neumann/internal
     boundary I f c s                  f has exactly the entry geo f c s and occurs once in the
                                       boundary list
     periodic_pair I l r cl cr sl sr   l has exactly geo l cl sl and (l,cr,-sl,r,sr); r has exactly
                                       geo r cr sr and (r,cl,-sr,l,sl); neither flagged Neumann
     korth I e                         K-orthogonality of the incidence entry e = (f,c,s):
                                       K_c (s n_f) x (x_f - x_c) = 0 and K_c (s n_f).(x_f - x_c) > 0
     linear a b x                      a.x + b *)
From Coq Require Import List ZArith Bool Arith Lia Reals Lra.
Import ListNotations.
From PP Require Import Model.C12 Proofs.C12 Proofs.C12_transfer Proofs.C12_vs Proofs.C12_periodic.

(* What Tpfa.discretize returns (real instance). *)
Theorem C12_discretize :
  forall I : input R,
    rdiscretize I =
    if (dim I =? 0)%nat then ([], [], [], []) else (rflux I, rbound_flux I, rbpc I, rbpf I).
Proof. exact discretize_components. Qed.
Print Assumptions C12_discretize.

(* Div * flux is symmetric — for EVERY entry list, geometry, tensor field and flags.  Div is
   taken over the same entry list as the flux: without a periodic map that is cell_faces^T; with
   one it is the incidence of the identified grid (each periodic pair one face with two cells).
   For the stored cell_faces^T of a periodic grid symmetry is checked per instance (exactly, in
   Q, by the tie) and follows face by face from C12_periodic_pair below. *)
Theorem C12_symmetric :
  forall (I : input R) (i j : nat), divflux I i j = divflux I j i.
Proof. exact symmetric_theorem. Qed.
Print Assumptions C12_symmetric.

(* Single-valued flux: the row of an interior face is t * s * (e_c1 - e_c2). *)
Theorem C12_single_valued :
  forall (I : input R) (f c1 c2 : nat) (s : Z),
    interior I f c1 c2 s ->
    forall j : nat,
      entry (rflux I) f j =
      (rt_full I f * IZR s * ((if (c1 =? j)%nat then 1 else 0) - (if (c2 =? j)%nat then 1 else 0)))%R.
Proof. exact single_valued_theorem. Qed.
Print Assumptions C12_single_valued.

(* Periodic pairs: both faces get the same transmissibility (harmonic mean over the two
   cells), their rows are t*s*(e_own - e_partner), and the flux leaving one cell through l is
   the flux entering the other through r (single-valued across the pair). *)
Theorem C12_periodic_pair :
  forall (I : input R) (l r cl cr : nat) (sl sr : Z),
    periodic_pair I l r cl cr sl sr ->
    rt_full I l = rt_full I r /\
    (forall j : nat, entry (rflux I) l j =
       (rt_full I l * IZR sl * ((if (cl =? j)%nat then 1 else 0) - (if (cr =? j)%nat then 1 else 0)))%R) /\
    (forall j : nat, entry (rflux I) r j =
       (rt_full I l * IZR sr * ((if (cr =? j)%nat then 1 else 0) - (if (cl =? j)%nat then 1 else 0)))%R) /\
    (sl = 1%Z \/ sl = (-1)%Z -> sr = 1%Z \/ sr = (-1)%Z ->
     forall j : nat, (IZR sl * entry (rflux I) l j + IZR sr * entry (rflux I) r j = 0)%R).
Proof. exact periodic_pair_theorem. Qed.
Print Assumptions C12_periodic_pair.

(* Symmetry with the STORED divergence on periodic grids: if every row face is either a plain
   face (all its entries are stored ones) or a member of exactly one periodic pair with unit
   signs, then cell_faces^T * flux is symmetric. *)
Theorem C12_periodic_symmetric :
  forall (I : input R) (plain : list nat) (pairs : list (nat * nat)),
    NoDup (plain ++ map fst pairs ++ map snd pairs) ->
    (forall e : inc, In e (cf I) -> In (tf e) (plain ++ map fst pairs ++ map snd pairs)) ->
    (forall f : nat, In f plain -> plain_face I f) ->
    (forall p : nat * nat, In p pairs ->
       fst p <> snd p /\
       exists (cl cr : nat) (sl sr : Z),
         periodic_pair I (fst p) (snd p) cl cr sl sr /\
         (sl = 1%Z \/ sl = (-1)%Z) /\ (sr = 1%Z \/ sr = (-1)%Z)) ->
    forall i j : nat, sdivflux I i j = sdivflux I j i.
Proof. exact periodic_symmetric. Qed.
Print Assumptions C12_periodic_symmetric.

(* Constant pressure, Dirichlet data equal to it, zero Neumann data: zero flux on every
   interior and every boundary face. *)
Theorem C12_constant_zero_interior :
  forall (I : input R) (f c1 c2 : nat) (s : Z) (p0 : R) (bv : nat -> R),
    interior I f c1 c2 s -> face_flux I (fun _ : nat => p0) bv f = 0%R.
Proof. exact constant_zero_interior. Qed.
Print Assumptions C12_constant_zero_interior.

Theorem C12_constant_zero_boundary :
  forall (I : input R) (f c : nat) (s : Z) (p0 : R) (bv : nat -> R),
    boundary I f c s ->
    neu' R I f = true /\ bv f = 0%R \/
    neu' R I f = false /\ dir' R I f = true /\ bv f = p0 ->
    face_flux I (fun _ : nat => p0) bv f = 0%R.
Proof. exact constant_zero_boundary. Qed.
Print Assumptions C12_constant_zero_boundary.

(* K-orthogonal grid: every face transmissibility is positive ... *)
Theorem C12_transmissibility_positive :
  forall (I : input R) (f : nat),
    (forall e : inc, In e (cf I) -> korth I e) ->
    (exists e : inc, In e (cf I) /\ tf e = f) ->
    (0 < rt_full I f)%R.
Proof. exact t_full_pos. Qed.
Print Assumptions C12_transmissibility_positive.

(* ... and Div * flux has non-positive off-diagonal entries, a non-negative diagonal, and a
   positive diagonal entry for every cell that has a face not flagged Neumann. *)
Theorem C12_Mmatrix :
  forall I : input R,
    (forall e : inc, In e (cf I) -> korth I e) -> opp_signs I -> one_sign I ->
    forall i j : nat,
      (i <> j -> (divflux I i j <= 0)%R) /\
      (0 <= divflux I i i)%R /\
      ((exists e : inc, In e (cf I) /\ tc e = i /\ ts e <> 0%Z /\ neu' R I (tf e) = false) ->
       (0 < divflux I i i)%R).
Proof. exact Mmatrix_theorem. Qed.
Print Assumptions C12_Mmatrix.

(* Linear pressures are reproduced exactly on K-orthogonal faces with one tensor K0 in the
   adjacent cells: the discrete flux is -(K0 n_f).a  (= -n_f.K0 a for symmetric K0). *)
Theorem C12_linear_exact_interior :
  forall (I : input R) (a : rvec) (b : R) (K0 : mat R) (f c1 c2 : nat) (s : Z) (bv : nat -> R),
    interior I f c1 c2 s -> s = 1%Z \/ s = (-1)%Z ->
    korth I (geo f c1 s) -> korth I (geo f c2 (- s)%Z) ->
    perm I c1 = K0 -> perm I c2 = K0 ->
    face_flux I (fun c : nat => linear a b (ccen I c)) bv f = (- rdot (rmulmv K0 (normal I f)) a)%R.
Proof. exact linear_exact_interior. Qed.
Print Assumptions C12_linear_exact_interior.

Theorem C12_linear_exact_dirichlet :
  forall (I : input R) (a : rvec) (b : R) (K0 : mat R) (f c : nat) (s : Z) (bv : nat -> R),
    boundary I f c s -> s = 1%Z \/ s = (-1)%Z ->
    neu' R I f = false -> dir' R I f = true ->
    korth I (geo f c s) -> perm I c = K0 ->
    bv f = linear a b (fcen I f) ->
    face_flux I (fun c0 : nat => linear a b (ccen I c0)) bv f = (- rdot (rmulmv K0 (normal I f)) a)%R.
Proof. exact linear_exact_dirichlet. Qed.
Print Assumptions C12_linear_exact_dirichlet.

(* Neumann data are outward fluxes: bv f = s * (-(K0 n_f).a). *)
Theorem C12_linear_exact_neumann :
  forall (I : input R) (a : rvec) (b : R) (K0 : mat R) (f c : nat) (s : Z) (bv : nat -> R),
    boundary I f c s -> s = 1%Z \/ s = (-1)%Z -> neu' R I f = true ->
    bv f = (IZR s * - rdot (rmulmv K0 (normal I f)) a)%R ->
    face_flux I (fun c0 : nat => linear a b (ccen I c0)) bv f = (- rdot (rmulmv K0 (normal I f)) a)%R.
Proof. exact linear_exact_neumann. Qed.
Print Assumptions C12_linear_exact_neumann.

(* Boundary pressure reconstruction: Dirichlet faces return the datum; Neumann faces return
   the linear pressure at the face centre. *)
Theorem C12_bound_pressure_dirichlet :
  forall (I : input R) (p bv : nat -> R) (f c : nat) (s : Z),
    boundary I f c s -> (f < nf I)%nat -> is_neu I f = false -> is_dir I f = true ->
    face_pressure I p bv f = bv f.
Proof. exact bound_pressure_dirichlet. Qed.
Print Assumptions C12_bound_pressure_dirichlet.

Theorem C12_bound_pressure_neumann :
  forall (I : input R) (a : rvec) (b : R) (K0 : mat R) (f c : nat) (s : Z) (bv : nat -> R),
    boundary I f c s -> (f < nf I)%nat -> s = 1%Z \/ s = (-1)%Z -> is_neu I f = true ->
    korth I (geo f c s) -> perm I c = K0 ->
    bv f = (IZR s * - rdot (rmulmv K0 (normal I f)) a)%R ->
    face_pressure I (fun c0 : nat => linear a b (ccen I c0)) bv f = linear a b (fcen I f).
Proof. exact bound_pressure_neumann. Qed.
Print Assumptions C12_bound_pressure_neumann.

(* The K-orthogonality checker that the harness evaluates over exact rationals on every
   generated grid implies the real-valued hypothesis [korth] used above, for the same data
   read as reals ([in2r] maps every rational coordinate with Q2R). *)
Theorem C12_korth_checker :
  forall I : input QArith_base.Q,
    korth_b I = true -> forall e : inc, In e (cf (in2r I)) -> korth (in2r I) e.
Proof. exact korth_transfer. Qed.
Print Assumptions C12_korth_checker.

(* The executed rational instance and the real instance of the model compute the same
   matrices: reading every rational of the input and of the output as a real (Q2R) commutes
   with the whole discretisation, division by zero included (both are total with x/0 = 0).
   Hence what the tie compares with the implementation is the object of the theorems above. *)
Theorem C12_transfer :
  forall I : input QArith_base.Q,
    let '(a, b, c, d) := qdiscretize I in
    rdiscretize (in2r I) = (c2r a, c2r b, c2r c, c2r d).
Proof. exact discretize_transfer. Qed.
Print Assumptions C12_transfer.

(* Vector source (gravity): for a constant vector g and the hydrostatic pressure
   p = g.x + b (first n = vector_source_dim components) the pressure flux and the
   vector-source flux cancel on every interior, Dirichlet and Neumann face — on any grid,
   for any permeability. *)
Theorem C12_hydrostatic_interior :
  forall (I : input R) (n : nat) (g gv : nat -> R),
    (forall c k : nat, (k < n)%nat -> gv (c * n + k)%nat = g k) ->
    forall (b : R) (f c1 c2 : nat) (s : Z) (bv : nat -> R),
      interior I f c1 c2 s ->
      (face_flux I (fun c : nat => hydro n g b (ccen I c)) bv f
       + row_apply (rvector_source I n) gv f = 0)%R.
Proof. exact hydrostatic_interior. Qed.
Print Assumptions C12_hydrostatic_interior.

Theorem C12_hydrostatic_dirichlet :
  forall (I : input R) (n : nat) (g gv : nat -> R),
    (forall c k : nat, (k < n)%nat -> gv (c * n + k)%nat = g k) ->
    forall (b : R) (f c : nat) (s : Z) (bv : nat -> R),
      boundary I f c s -> neu' R I f = false -> dir' R I f = true ->
      bv f = hydro n g b (fcen I f) ->
      (face_flux I (fun c0 : nat => hydro n g b (ccen I c0)) bv f
       + row_apply (rvector_source I n) gv f = 0)%R.
Proof. exact hydrostatic_dirichlet. Qed.
Print Assumptions C12_hydrostatic_dirichlet.

Theorem C12_hydrostatic_neumann :
  forall (I : input R) (n : nat) (g gv : nat -> R),
    (forall c k : nat, (k < n)%nat -> gv (c * n + k)%nat = g k) ->
    forall (b : R) (f c : nat) (s : Z) (bv : nat -> R),
      boundary I f c s -> neu' R I f = true -> bv f = 0%R ->
      (face_flux I (fun c0 : nat => hydro n g b (ccen I c0)) bv f
       + row_apply (rvector_source I n) gv f = 0)%R.
Proof. exact hydrostatic_neumann. Qed.
Print Assumptions C12_hydrostatic_neumann.

(* ------------------------------------------------------------------------------------ *)
(* Non-vacuity: the unit-spaced 1-D grid with two cells, K = 2 I; face 0 Dirichlet, face 1
   interior, face 2 Neumann.  All hypotheses used above hold for it. *)
Local Open Scope R_scope.
Definition k2 : mat R := ((2, 0, 0), (0, 2, 0), (0, 0, 2)).
Definition ex : input R :=
  {| dim := 1; nf := 3; nc := 2;
     cf := [geo 0 0 (-1)%Z; geo 1 0 1%Z; geo 1 1 (-1)%Z; geo 2 1 1%Z]%nat;
     normal := fun _ => (1, 0, 0);
     fcen := fun f => (INR f, 0, 0);
     ccen := fun c => (INR c + 1 / 2, 0, 0);
     perm := fun _ => k2;
     is_dir := fun f => (f =? 0)%nat;
     is_neu := fun f => (f =? 2)%nat;
     is_int := fun _ => false;
     bnd := [0; 2]%nat |}.

Ltac korth_tac :=
  unfold korth, knvec, nvec, dvec, mulmv, vscale, vsub, cross; unfold dot, vx, vy, vz;
  cbn [fst snd ex normal fcen ccen perm k2 tf tc ts tg tgs geo INR]; split; [repeat f_equal; lra | lra].

Example C12_nonvacuous :
  interior ex 1 0 1 1 /\ boundary ex 0 0 (-1) /\ boundary ex 2 1 1 /\
  (forall e, In e (cf ex) -> korth ex e) /\ opp_signs ex /\ one_sign ex /\
  neu' R ex 0 = false /\ dir' R ex 0 = true /\ neu' R ex 2 = true /\
  (forall c, perm ex c = k2).
Proof.
  assert (Hnd : NoDup (bnd ex)).
  { cbn. repeat constructor; cbn; intuition discriminate. }
  split; [repeat split; cbn; intuition discriminate|].
  split; [repeat split; cbn; try tauto; exact Hnd|].
  split; [repeat split; cbn; try tauto; exact Hnd|].
  split.
  { intros e He. cbn in He.
    destruct He as [<-|[<-|[<-|[<-|[]]]]]; korth_tac. }
  split.
  { intros e e' He He'. cbn in He, He'.
    destruct He as [<-|[<-|[<-|[<-|[]]]]]; destruct He' as [<-|[<-|[<-|[<-|[]]]]];
      cbn; intros; try lia; try congruence. }
  split.
  { intros e e' He He'. cbn in He, He'.
    destruct He as [<-|[<-|[<-|[<-|[]]]]]; destruct He' as [<-|[<-|[<-|[<-|[]]]]];
      cbn; intros; try lia; try congruence. }
  repeat split.
Qed.

(* the same grid made periodic (face 0 ~ face 2): the entry list is what the transcribed
   extension of the code produces, and faces 0, 2 form a periodic pair *)
Definition exp : input R :=
  {| dim := 1; nf := 3; nc := 2;
     cf := [geo 0 0 (-1)%Z; geo 1 0 1%Z; geo 1 1 (-1)%Z; geo 2 1 1%Z;
            (0, 1, 1%Z, 2, 1%Z); (2, 0, (-1)%Z, 0, (-1)%Z)]%nat;
     normal := fun _ => (1, 0, 0);
     fcen := fun f => (INR f, 0, 0);
     ccen := fun c => (INR c + 1 / 2, 0, 0);
     perm := fun _ => k2;
     is_dir := fun _ => false; is_neu := fun _ => false; is_int := fun _ => false;
     bnd := [] |}.

Example C12_nonvacuous_periodic :
  extend [(0, 0, (-1)%Z); (1, 0, 1%Z); (1, 1, (-1)%Z); (2, 1, 1%Z)]%nat [(0, 2)]%nat = Some (cf exp) /\
  periodic_pair exp 0 2 0 1 (-1) 1 /\ interior exp 1 0 1 1.
Proof.
  split; [vm_compute; reflexivity|].
  split; repeat split; cbn; intuition discriminate.
Qed.

(* hypotheses of the hydrostatic theorems: a constant vector field in the cell-wise layout *)
Example C12_nonvacuous_vector_source :
  forall c k : nat, (k < 3)%nat ->
    (fun i : nat => INR (i mod 3)) (c * 3 + k)%nat = (fun k : nat => INR k) k.
Proof.
  intros c k Hk. cbv beta. f_equal.
  rewrite Nat.add_comm, Nat.mod_add by lia. apply Nat.mod_small. exact Hk.
Qed.

(* the periodic example satisfies the structure hypothesis of C12_periodic_symmetric *)
Example C12_nonvacuous_periodic_symmetric :
  NoDup ([1] ++ map fst [(0, 2)] ++ map snd [(0, 2)])%nat /\
  (forall e : inc, In e (cf exp) -> In (tf e) ([1] ++ map fst [(0, 2)] ++ map snd [(0, 2)])%nat) /\
  plain_face exp 1 /\ periodic_pair exp 0 2 0 1 (-1) 1.
Proof.
  split; [cbn; repeat constructor; cbn; intuition discriminate|].
  split.
  { intros e He. cbn in He. destruct He as [<-|[<-|[<-|[<-|[<-|[<-|[]]]]]]]; cbn; tauto. }
  split.
  { intros e He. cbn in He. destruct He as [<-|[<-|[]]]; reflexivity. }
  repeat split; cbn; intuition discriminate.
Qed.

(* the transfer theorem applied: a rational instance (same grid as [ex], dyadic data) *)
From Coq Require Import QArith.
Example C12_nonvacuous_transfer :
  let I := {| dim := 1; nf := 3; nc := 2;
              cf := [geo 0 0 (-1)%Z; geo 1 0 1%Z; geo 1 1 (-1)%Z; geo 2 1 1%Z]%nat;
              normal := fun _ => (1, 0, 0)%Q;
              fcen := fun f => (inject_Z (Z.of_nat f), 0, 0)%Q;
              ccen := fun c => (inject_Z (Z.of_nat c) + (1 # 2), 0, 0)%Q;
              perm := fun _ => ((2, 0, 0), (0, 2, 0), (0, 0, 2))%Q;
              is_dir := fun f => (f =? 0)%nat; is_neu := fun f => (f =? 2)%nat;
              is_int := fun _ => false; bnd := [0; 2]%nat |} in
  fst (fst (fst (qdiscretize I))) =
    [(0%nat, 0%nat, -4); (1%nat, 0%nat, 2); (1%nat, 1%nat, -2); (2%nat, 1%nat, 0)]%Q.
Proof. vm_compute. reflexivity. Qed.
