(* C39 — property theorems only.  Model: PP.Model.C39 (transcription of bc.py after the
   repair commit); proofs: PP.Proofs.C39.
   [Inv g cs]: in EVERY component of the object, every boundary face of the grid (tagged
   domain boundary, fracture or tip) carries exactly one of Dirichlet / Neumann / Robin and
   every other face carries none; the flag arrays have one entry per face. *)
From Coq Require Import List Bool Arith Lia.
Import ListNotations.
From PP Require Import Model.C39 Proofs.C39.

Definition ex_g0 : grid := [mkT true false false; mkT true false false; mkT false true false].

(* Both constructors: any grid, scalar or vectorial class, any dimension, faces given as an
   index array or a boolean mask (repeated faces allowed), condition given as one string or
   a list — whenever the constructor does not raise, the object satisfies the partition
   (per component) and has the right number of components. *)
Theorem C39_partition_constructor :
  forall g vect dim fs cd o x,
    construct assign g vect dim fs cd = (Some o, x) ->
    Inv g (comps o) /\ vectorial o = vect /\ length (comps o) = (if vect then dim else 1).
Proof. exact constructor_partition. Qed.
Print Assumptions C39_partition_constructor.

(* Boundary faces the constructor call does not name are Neumann (in every component). *)
Theorem C39_default_neumann :
  forall g vect dim fs cd o x,
    construct assign g vect dim fs cd = (Some o, x) ->
    forall c f, In c (comps o) -> is_bf g f = true -> ~ In f (named fs) ->
                flags c f = (false, true, false).
Proof. exact default_neumann. Qed.
Print Assumptions C39_default_neumann.

(* ANY later history of set_bc calls (index/mask, string/list, successful or raising — a
   call that raises midway keeps its partial assignments), internal_to_dirichlet calls and
   manual per-component assignments on boundary faces: the partition holds after every
   single call. *)
Theorem C39_partition_history :
  forall g ps o,
    Forall (op_ok g) ps -> Inv g (comps o) ->
    Forall (fun ox => Inv g (comps (fst ox))) (run assign g o ps).
Proof. exact history_partition. Qed.
Print Assumptions C39_partition_history.

(* A successful uniform assignment (constructor or set_bc with one condition string) gives
   exactly the named faces the requested type, in every component, and changes no flag of
   any other face. *)
Theorem C39_assignment_exact :
  forall g w cs fs c0 t cs' x,
    parse c0 = Some t -> Forall (lens g) cs ->
    set_faces assign w g cs (Some fs) (Some (COne c0)) = (cs', Done x) ->
    exists F, cs' = map F cs /\
              (forall c f, In c cs -> In f (named (Some fs)) -> flags (F c) f = triple t) /\
              (forall c f, ~ In f (named (Some fs)) -> flags (F c) f = flags c f).
Proof. exact assignment_exact. Qed.
Print Assumptions C39_assignment_exact.

(* List conditions with repeated faces (constructor or set_bc): a successful call gives every
   named face the type of the LAST condition listed for it, in every component, and changes
   no flag of any other face; every listed keyword was one of dir / neu / rob. *)
Theorem C39_assignment_list_last_wins :
  forall g w cs fs cl cs' x,
    Forall (lens g) cs ->
    set_faces assign w g cs (Some fs) (Some (CList cl)) = (cs', Done x) ->
    exists ts, Forall2 (fun c t => parse c = Some t) cl ts /\
    exists F, cs' = map F cs /\
              forall c f, In c cs ->
                flags (F c) f = match last_ty (named (Some fs)) ts f with
                                | Some t => triple t
                                | None => flags c f
                                end.
Proof. exact assignment_list_exact. Qed.
Print Assumptions C39_assignment_list_last_wins.

Example C39_nonvacuous_list :
  set_faces assign false ex_g0 [init_comp ex_g0]
            (Some (FIdx [2; 0; 2; 1])) (Some (CList [CDir; CRob; CNeu; CDir]))
  = ([mkC [false; true; false] [false; false; true] [true; false; false]], Done false) /\
  last_ty [2; 0; 2; 1] [Dir; Rob; Neu; Dir] 2 = Some Neu.
Proof. split; vm_compute; reflexivity. Qed.

(* The pre-fix assignment (vectorial 'dir' keeps is_rob, 'neu' is a no-op) violates the
   partition: BoundaryConditionVectorial(g, all faces, 'rob'); set_bc([0,1], 'dir'). *)
Theorem C39_prefix_variant_refuted :
  exists g fs1 fs2 o,
    fst (construct (assign_prefix true) g true 2 (Some fs1) (Some (COne CRob))) = Some o /\
    ~ Inv g (comps (fst (step (assign_prefix true) g o (OpSet (Some fs2) (Some (COne CDir)))))).
Proof. exact prefix_variant_refuted. Qed.
Print Assumptions C39_prefix_variant_refuted.

(* ---------------- non-vacuity ---------------- *)
(* a split grid: faces 0,1 domain boundary, 2 fracture, 3 interior, 4 tip *)
Definition ex_g : grid :=
  [mkT true false false; mkT true false false; mkT false true false; mkT false false false;
   mkT false false true].

Example C39_nonvacuous :
  exists o,
    construct assign ex_g true 2 (Some (FMask [true; false; true; false; false])) (Some (COne CRob))
    = (Some o, Done false) /\
    Forall (op_ok ex_g) [OpSet (Some (FIdx [2; 0; 2])) (Some (CList [CDir; CDir; CNeu]));
                         OpInternal; OpUser 1 4 Rob; OpSet (Some (FIdx [3])) (Some (COne CDir))] /\
    map (fun ox => (map (fun c => (c_dir c, c_neu c, c_rob c)) (comps (fst ox)), snd ox))
        (run assign ex_g o [OpSet (Some (FIdx [2; 0; 2])) (Some (CList [CDir; CDir; CNeu]));
                            OpInternal; OpUser 1 4 Rob; OpSet (Some (FIdx [3])) (Some (COne CDir))])
    = [ ([([true; false; false; false; false], [false; true; true; false; true], [false; false; false; false; false]);
          ([true; false; false; false; false], [false; true; true; false; true], [false; false; false; false; false])],
         Done false);
        ([([true; false; true; false; false], [false; true; false; false; true], [false; false; false; false; false]);
          ([true; false; true; false; false], [false; true; false; false; true], [false; false; false; false; false])],
         Done false);
        ([([true; false; true; false; false], [false; true; false; false; true], [false; false; false; false; false]);
          ([true; false; true; false; false], [false; true; false; false; false], [false; false; false; false; true])],
         Done false);
        ([([true; false; true; false; false], [false; true; false; false; true], [false; false; false; false; false]);
          ([true; false; true; false; false], [false; true; false; false; false], [false; false; false; false; true])],
         Fail false ValueErr) ].
Proof.
  eexists. split; [vm_compute; reflexivity|]. split; [|vm_compute; reflexivity].
  repeat constructor.
Qed.
