(* C32 — property theorems only.  Model: PP.Model.C32 (transcription of rotation_matrix,
   project_plane_matrix, project_line_matrix, compute_normal, compute_tangent,
   compute_normals_1d, TangentialNormalProjection); proofs: PP.Proofs.C32 (real instance
   [RO] of the model: sqrt is the real square root, comparisons are the real order). *)
From Coq Require Import Reals Lra List QArith.
Import ListNotations.
From PP Require Import Model.C32 Proofs.C32.
Open Scope R_scope.

(* rotation_matrix(a, vect) with sn = sin a, cs = cos a: for EVERY angle and EVERY vector
   (zero / inside numpy's allclose band: identity; otherwise Rodrigues about the
   normalised vector) the result is orthogonal with determinant +1. *)
Theorem C32_rodrigues_SO3 :
  forall (sn cs : R) (vect : v3 R),
    sn * sn + cs * cs = 1 ->
    let Rm := rotation_matrix R RO sn cs vect in
    mm R RO (mT R Rm) Rm = ident R RO /\ det R RO Rm = 1.
Proof. exact rotation_matrix_SO3. Qed.
Print Assumptions C32_rodrigues_SO3.

(* ... and it fixes its axis (any sn, cs). *)
Theorem C32_rotation_fixes_axis :
  forall (sn cs : R) (vect : v3 R), mv R RO (rotation_matrix R RO sn cs vect) vect = vect.
Proof. exact rotation_matrix_fixes_axis. Qed.
Print Assumptions C32_rotation_fixes_axis.

(* Orthogonal maps preserve (squared) distances and dot products. *)
Theorem C32_isometry :
  forall (A : m3 R) (x y : v3 R),
    mm R RO (mT R A) A = ident R RO ->
    normsq R RO (vsub R RO (mv R RO A x) (mv R RO A y)) = normsq R RO (vsub R RO x y) /\
    dot R RO (mv R RO A x) (mv R RO A y) = dot R RO x y.
Proof. intros A x y H. split; [apply isometry | apply orth_dot]; exact H. Qed.
Print Assumptions C32_isometry.

(* project_plane_matrix(pts, normal, reference=r, check_planar=False): for every nonzero
   normal and unit reference the call succeeds with a matrix in SO(3); outside the
   allclose band of normal x r the unit normal is mapped EXACTLY onto r; inside the band
   the identity is returned and the unit normal lies within sqrt(3)*1e-8 of the axis line. *)
Theorem C32_plane_maps_normal_to_axis :
  forall (normal r : v3 R),
    0 < dot R RO normal normal -> dot R RO r r = 1 ->
    let u := normalize R RO normal in
    exists Rm, plane_matrix_normal R RO normal r = Ok Rm /\
      mm R RO (mT R Rm) Rm = ident R RO /\ det R RO Rm = 1 /\
      (in_band u r = false -> mv R RO Rm u = r) /\
      (in_band u r = true ->
         Rm = ident R RO /\
         normsq R RO (vsub R RO u (vscale R RO (dot R RO u r) r))
           <= 3 * (n_atol R RO * n_atol R RO)).
Proof. exact plane_matrix_normal_spec. Qed.
Print Assumptions C32_plane_maps_normal_to_axis.

(* project_line_matrix(pts, tangent, reference=r): the same for tangents. *)
Theorem C32_line_maps_tangent_to_axis :
  forall (tangent r : v3 R),
    0 < dot R RO tangent tangent -> dot R RO r r = 1 ->
    let u := normalize R RO tangent in
    exists Rm, line_matrix_tangent R RO tangent r = Ok Rm /\
      mm R RO (mT R Rm) Rm = ident R RO /\ det R RO Rm = 1 /\
      (in_band u r = false -> mv R RO Rm u = r) /\
      (in_band u r = true ->
         Rm = ident R RO /\
         normsq R RO (vsub R RO u (vscale R RO (dot R RO u r) r))
           <= 3 * (n_atol R RO * n_atol R RO)).
Proof. exact line_matrix_tangent_spec. Qed.
Print Assumptions C32_line_maps_tangent_to_axis.

(* compute_normal: for every point set contained in a plane m.p = d (m <> 0), any
   tolerance: whenever a normal is returned it is a unit vector, orthogonal to every
   vector of the plane and to every difference of two points of the set. *)
Theorem C32_normal_orthogonal_to_planar_set :
  forall (pts : list (v3 R)) (tol : R) (m : v3 R) (d : R) (n : v3 R),
    0 < dot R RO m m -> Forall (fun p => dot R RO m p = d) pts ->
    compute_normal R RO pts tol = Ok n ->
    dot R RO n n = 1 /\
    (forall x, dot R RO m x = 0 -> dot R RO n x = 0) /\
    (forall p q, In p pts -> In q pts -> dot R RO n (vsub R RO p q) = 0).
Proof. exact compute_normal_spec. Qed.
Print Assumptions C32_normal_orthogonal_to_planar_set.

(* project_plane_matrix(pts, tol, reference=r) on a planar set: the matrix is in SO(3);
   outside the band the computed normal goes exactly to r and all points get the same
   coordinate along r (the set is mapped into a plane normal to the reference axis). *)
Theorem C32_plane_matrix_of_planar_set :
  forall (pts : list (v3 R)) (tol : R) (r m : v3 R) (d : R) (Rm : m3 R),
    0 < dot R RO m m -> Forall (fun p => dot R RO m p = d) pts -> dot R RO r r = 1 ->
    plane_matrix_pts R RO pts tol r = Ok Rm ->
    exists n, compute_normal R RO pts tol = Ok n /\
      mm R RO (mT R Rm) Rm = ident R RO /\ det R RO Rm = 1 /\
      (in_band n r = false ->
         mv R RO Rm n = r /\
         forall p q, In p pts -> In q pts ->
           dot R RO r (mv R RO Rm (vsub R RO p q)) = 0) /\
      (in_band n r = true ->
         Rm = ident R RO /\
         normsq R RO (vsub R RO n (vscale R RO (dot R RO n r) r))
           <= 3 * (n_atol R RO * n_atol R RO)).
Proof. exact plane_matrix_pts_spec. Qed.
Print Assumptions C32_plane_matrix_of_planar_set.

(* compute_tangent on a set contained in a line with direction t (p x t constant): the
   returned tangent is a unit vector parallel to t and every difference of two points is
   a multiple of it. *)
Theorem C32_tangent_of_collinear_set :
  forall (pts : list (v3 R)) (t w tg : v3 R),
    0 < dot R RO t t -> Forall (fun p => cross R RO p t = w) pts ->
    compute_tangent R RO pts = Ok tg ->
    dot R RO tg tg = 1 /\ cross R RO tg t = zero3 R RO /\
    forall p q, In p pts -> In q pts ->
      vsub R RO p q = vscale R RO (dot R RO (vsub R RO p q) tg) tg.
Proof. exact compute_tangent_spec. Qed.
Print Assumptions C32_tangent_of_collinear_set.

(* project_line_matrix(pts, reference=r) on a collinear set: SO(3); outside the band every
   difference of two points is mapped onto the reference axis with its length kept. *)
Theorem C32_line_matrix_of_collinear_set :
  forall (pts : list (v3 R)) (r t w : v3 R) (Rm : m3 R),
    0 < dot R RO t t -> Forall (fun p => cross R RO p t = w) pts -> dot R RO r r = 1 ->
    line_matrix_pts R RO pts r = Ok Rm ->
    exists tg, compute_tangent R RO pts = Ok tg /\
      mm R RO (mT R Rm) Rm = ident R RO /\ det R RO Rm = 1 /\
      (in_band tg r = false ->
         mv R RO Rm tg = r /\
         forall p q, In p pts -> In q pts ->
           mv R RO Rm (vsub R RO p q) = vscale R RO (dot R RO (vsub R RO p q) tg) r) /\
      (in_band tg r = true ->
         Rm = ident R RO /\
         normsq R RO (vsub R RO tg (vscale R RO (dot R RO tg r) r))
           <= 3 * (n_atol R RO * n_atol R RO)).
Proof. exact line_matrix_pts_spec. Qed.
Print Assumptions C32_line_matrix_of_collinear_set.

(* compute_normals_1d: whenever it returns, the two vectors are orthonormal and orthogonal
   to the (unit) tangent computed from the points. *)
Theorem C32_normals_1d_orthonormal :
  forall (pts : list (v3 R)) (n1 n2 : v3 R),
    compute_normals_1d R RO pts = Ok (n1, n2) ->
    exists tg, compute_tangent R RO pts = Ok tg /\
      (dot R RO tg tg = 1 ->
       dot R RO n1 n1 = 1 /\ dot R RO n2 n2 = 1 /\ dot R RO n1 n2 = 0 /\
       dot R RO n1 tg = 0 /\ dot R RO n2 tg = 0).
Proof. exact normals_1d_spec. Qed.
Print Assumptions C32_normals_1d_orthonormal.

(* TangentialNormalProjection in 3-d, EVERY nonzero normal (axis-aligned, inside the 1e-8
   band, general): the basis (t1, t2, n) has n = normal/|normal|, is orthonormal with
   determinant +1; the stored projection block (inverse of the matrix with these columns)
   is the matrix with ROWS t1, t2, n, and sends n to the last axis (0,0,1). *)
Theorem C32_tn3_basis_orthonormal :
  forall nrm : v3 R,
    0 < dot R RO nrm nrm ->
    let '(t1, t2, n) := tn3_basis R RO nrm in
    n = normalize R RO nrm /\
    dot R RO t1 t1 = 1 /\ dot R RO t2 t2 = 1 /\ dot R RO n n = 1 /\
    dot R RO t1 t2 = 0 /\ dot R RO t1 n = 0 /\ dot R RO t2 n = 0 /\
    det R RO (t1, t2, n) = 1 /\
    tn3_projection R RO nrm = Ok (t1, t2, n) /\
    mv R RO (t1, t2, n) n = (0, 0, 1).
Proof.
  intros nrm H. pose proof (tn3_spec nrm H) as S. unfold tn3_good_basis, tn3_good in S.
  unfold tn3_projection. destruct (tn3_basis R RO nrm) as [[t1 t2] n]. cbn [snd] in S.
  destruct S as [S1 S2]. split; [exact S1 | exact S2].
Qed.
Print Assumptions C32_tn3_basis_orthonormal.

(* TangentialNormalProjection in 2-d, every nonzero normal: (t1, n) is orthonormal, the
   projection block has rows t1, n and sends n to (0,1); its determinant is +1 or -1,
   and +1 exactly when n_y > 0 or n = (-1, 0) (the code's convention: the tangent points
   in the positive x direction). *)
Theorem C32_tn2_basis_orthonormal :
  forall nrm : v2 R,
    0 < dot2 R RO nrm nrm ->
    let '(t1, n) := tn2_basis R RO nrm in
    n = normalize2 R RO nrm /\
    dot2 R RO t1 t1 = 1 /\ dot2 R RO n n = 1 /\ dot2 R RO t1 n = 0 /\
    tn2_projection R RO nrm = Ok (t1, n) /\
    (dot2 R RO t1 n, dot2 R RO n n) = (0, 1) /\
    det2 R RO (t1, n) * det2 R RO (t1, n) = 1 /\
    (det2 R RO (t1, n) = 1 <-> (0 < snd n \/ (snd n = 0 /\ fst n < 0))).
Proof. exact tn2_spec. Qed.
Print Assumptions C32_tn2_basis_orthonormal.

(* The trigonometric rewriting used by the model. *)
Theorem C32_trig_of_arccos :
  forall d : R, -1 <= d <= 1 -> cos (acos d) = d /\ sin (acos d) = sqrt (1 - d * d).
Proof. exact trig_of_arccos. Qed.
Print Assumptions C32_trig_of_arccos.

(* ------------------------------------------------------------------ non-vacuity *)
(* hypotheses of the algebraic theorems are satisfiable by non-trivial reals *)
Example C32_nonvacuous_angles_axes :
  (3 / 5) * (3 / 5) + (4 / 5) * (4 / 5) = 1 /\
  0 < dot R RO (1, 2, 2) (1, 2, 2) /\ dot R RO (0, 0, 1) (0, 0, 1) = 1 /\
  0 < dot2 R RO (3, -4) (3, -4) /\
  Forall (fun p => dot R RO (1, 2, 2) p = 3) [(3, 0, 0); (1, 1, 0); (1, 0, 1); (-1, 1, 1)] /\
  Forall (fun p => cross R RO p (1, 2, 2) = (2, -2, 1)) [(1, 1, 0); (2, 3, 2); (-1, -3, -4)].
Proof.
  cbv [dot dot2 cross vx vy vz fst snd n_mul n_add n_sub RO].
  repeat split; try lra; repeat constructor; try lra; f_equal; try f_equal; lra.
Qed.

(* the branchy functions return Ok on such inputs (executed on the rational instance of
   the same polymorphic model; the sets are the planar / collinear sets above) *)
Example C32_nonvacuous_model_runs :
  compute_normal Q QO [(3, 0, 0); (1, 1, 0); (1, 0, 1); (-1, 1, 1)]%Q (1 # 100000)
    = Ok (1 # 3, 2 # 3, 2 # 3)%Q /\
  is_ok (plane_matrix_pts Q QO [(0, 0, 0); (4, -3, 0); (0, 12, -4); (4, 9, -4)]%Q
           (1 # 100000) (0, 0, 1)%Q) = true /\
  is_ok (line_matrix_pts Q QO [(1, 1, 0); (4, 5, 12); (-5, -7, -24)]%Q (0, 0, 1)%Q) = true /\
  is_ok (compute_normals_1d Q QO [(1, 1, 0); (4, 5, 12); (-5, -7, -24)]%Q) = true /\
  tn3_projection Q QO (3, 4, 12)%Q
    = Ok (-4 # 5, 3 # 5, 0, (-36 # 65, -48 # 65, 5 # 13), (3 # 13, 4 # 13, 12 # 13))%Q /\
  tn2_projection Q QO (3, -4)%Q = Ok (4 # 5, 3 # 5, (3 # 5, -4 # 5))%Q.
Proof. vm_compute. repeat split. Qed.
