(* C35 — property theorems only.  Models: PP.Lib.Csr (compressed storage and its dense
   reference), PP.Model.C35 (transcription of the utilities); proofs: PP.Proofs.C35*.
   A csc matrix is the same record read column-wise: "line" = row (csr) / column (csc),
   [to_dense] lists the lines, i.e. it is the dense matrix (csr) or its transpose (csc). *)
From Coq Require Import List ZArith Arith Lia.
Import ListNotations.
From PP Require Import Lib.Csr Model.C35 Proofs.C35 Proofs.C35_rl Proofs.C35_csr Proofs.C35_zero Proofs.C35_merge Proofs.C35_bdi Proofs.C35_blocks Proofs.C35_sqblocks.

(* expand_index_pointers(lo, hi) is the concatenation of np.arange(lo_k, hi_k) over all k,
   for integer bounds of any sign and any order (empty ranges where hi_k <= lo_k),
   for arrays of any equal length (the cumulative-sum construction in the code). *)
Theorem C35_expand_index_pointers :
  forall lo hi : list Z, length lo = length hi ->
    expand_index_pointers lo hi
    = Ok (flat_map (fun p => zrange (fst p) (snd p)) (combine lo hi)).
Proof. exact expand_main. Qed.
Print Assumptions C35_expand_index_pointers.

(* a single lower (upper) bound is broadcast against all upper (lower) bounds *)
Theorem C35_expand_broadcast_lo :
  forall (a : Z) (hi : list Z), length hi <> 1 ->
    expand_index_pointers [a] hi = Ok (flat_map (fun h => zrange a h) hi).
Proof. exact expand_bc_lo. Qed.
Print Assumptions C35_expand_broadcast_lo.

Theorem C35_expand_broadcast_hi :
  forall (lo : list Z) (b : Z), length lo <> 1 ->
    expand_index_pointers lo [b] = Ok (flat_map (fun l => zrange l b) lo).
Proof. exact expand_bc_hi. Qed.
Print Assumptions C35_expand_broadcast_hi.

(* any other length mismatch is rejected with ValueError *)
Theorem C35_expand_mismatch :
  forall lo hi : list Z, length lo <> 1 -> length hi <> 1 -> length lo <> length hi ->
    expand_index_pointers lo hi = Err ValueErr.
Proof. exact expand_mismatch. Qed.
Print Assumptions C35_expand_mismatch.

(* rldecode(A, n) = np.repeat(A[:len(n)], max(n, 0)) for every element type, all counts
   (zero and negative counts contribute nothing), A at least as long as n. *)
Theorem C35_rldecode :
  forall (T : Type) (A : list T) (n : list Z), length n <= length A ->
    rldecode A n = Ok (flat_map (fun ac => repeat (fst ac) (Z.to_nat (snd ac))) (combine A n)).
Proof. exact rldecode_spec. Qed.
Print Assumptions C35_rldecode.

(* rlencode of any non-empty sequence of columns (any column type with a sound equality
   test): decoding the result restores the input, every count is positive and
   neighbouring encoded columns differ (the encoding is the maximal compression). *)
Theorem C35_rlencode_roundtrip :
  forall (T : Type) (eqb : T -> T -> bool), (forall x y, eqb x y = true -> x = y) ->
  forall l : list T, l <> [] ->
    exists v num, rlencode eqb l = Ok (v, num) /\ rldecode v num = Ok l /\
                  length v = length num /\ Forall (fun c => 1 <= c)%Z num /\
                  forallb (fun b => b) (neq_adj T eqb v) = true.
Proof. exact rlencode_roundtrip. Qed.
Print Assumptions C35_rlencode_roundtrip.

(* slice_sparse_matrix: for every well-formed matrix (unsorted / duplicate minor indices,
   empty lines, stored zeros) and every list of valid line numbers (any order, repeats
   allowed) the result's stored lines are exactly the selected lines of A, entry by
   entry in storage order ... *)
Theorem C35_slice_rows :
  forall (A : csr) (ind : list nat), wf A = true -> Forall (fun i => i < nmaj A) ind ->
    exists S, slice_sparse_matrix A ind = Ok S /\
              nmaj S = length ind /\ nmin S = nmin A /\
              rows S = map (fun i => nth i (rows A) []) ind.
Proof. exact slice_rows. Qed.
Print Assumptions C35_slice_rows.

(* ... hence its dense form is the dense A[ind, :] (csr) resp. A[:, ind] (csc) *)
Theorem C35_slice_dense :
  forall (A : csr) (ind : list nat), wf A = true -> Forall (fun i => i < nmaj A) ind ->
    exists S, slice_sparse_matrix A ind = Ok S /\
              to_dense S = map (fun i => nth i (to_dense A) (dense_row (nmin A) [])) ind.
Proof. exact slice_dense. Qed.
Print Assumptions C35_slice_dense.

(* a line number outside the matrix is an IndexError *)
Theorem C35_slice_error :
  forall (A : csr) (ind : list nat), ~ Forall (fun i => i < nmaj A) ind ->
    slice_sparse_matrix A ind = Err IndexErr.
Proof. exact slice_error. Qed.
Print Assumptions C35_slice_error.

(* slice_indices returns the minor indices of the selected lines and their positions *)
Theorem C35_slice_indices :
  forall (A : csr) (ind : list nat), wf A = true -> Forall (fun i => i < nmaj A) ind ->
    exists ix ai, slice_indices A ind = Ok (ix, ai) /\
      ix = map fst (concat (map (fun i => nth i (rows A) []) ind)) /\
      ai = flat_map (fun i => seq (nth i (indptr A) 0) (nth (S i) (indptr A) 0 - nth i (indptr A) 0)) ind.
Proof. exact slice_indices_spec. Qed.
Print Assumptions C35_slice_indices.

(* stack_mat appends the lines of B to those of A (vstack for csr, hstack for csc) *)
Theorem C35_stack_mat_rows :
  forall A B : csr, wf A = true -> wf B = true -> nmin A = nmin B ->
    exists C, stack_mat A B = Ok C /\ nmin C = nmin A /\ rows C = rows A ++ rows B.
Proof. exact stack_mat_rows. Qed.
Print Assumptions C35_stack_mat_rows.

Theorem C35_stack_mat_dense :
  forall A B : csr, wf A = true -> wf B = true -> nmin A = nmin B ->
    exists C, stack_mat A B = Ok C /\ to_dense C = to_dense A ++ to_dense B.
Proof. exact stack_mat_dense. Qed.
Print Assumptions C35_stack_mat_dense.

Theorem C35_stack_mat_mismatch :
  forall A B : csr, nmin A <> nmin B -> stack_mat A B = Err ValueErr.
Proof. exact stack_mat_mismatch. Qed.
Print Assumptions C35_stack_mat_mismatch.

(* stack_diag: the lines of A, then the lines of B with shifted minor indices ... *)
Theorem C35_stack_diag_rows :
  forall A B : csr, wf A = true -> wf B = true ->
    rows (stack_diag A B) = rows A ++ map (map (shift_entry (nmin A))) (rows B).
Proof. exact stack_diag_rows. Qed.
Print Assumptions C35_stack_diag_rows.

(* ... i.e. densely [[A, 0], [0, B]], also when A or B has no lines or no minor extent *)
Theorem C35_stack_diag_dense :
  forall A B : csr, wf A = true -> wf B = true ->
    to_dense (stack_diag A B)
    = map (fun row => row ++ repeat 0%Z (nmin B)) (to_dense A)
      ++ map (fun row => repeat 0%Z (nmin A) ++ row) (to_dense B).
Proof. exact stack_diag_dense. Qed.
Print Assumptions C35_stack_diag_dense.

(* rldecode for operands of any length: np.repeat over the common prefix as long as no
   positive count lies beyond the end of A, IndexError otherwise *)
Theorem C35_rldecode_general :
  forall (T : Type) (A : list T) (n : list Z),
    rldecode A n
    = if forallb nonpos (skipn (length A) n)
      then Ok (flat_map (fun ac => repeat (fst ac) (Z.to_nat (snd ac))) (combine A n))
      else Err IndexErr.
Proof. exact rldecode_general. Qed.
Print Assumptions C35_rldecode_general.

(* zero_rows (csr) / zero_columns (csc): the entries of the selected lines (any order,
   repeats) get the value 0, every other entry and the structure are untouched ... *)
Theorem C35_zero_lines_rows :
  forall (A : csr) (ind : list nat), wf A = true -> Forall (fun l => l < nmaj A) ind ->
    exists Z0, zero_lines A ind = Ok Z0 /\
      nmaj Z0 = nmaj A /\ nmin Z0 = nmin A /\ indptr Z0 = indptr A /\ indices Z0 = indices A /\
      rows Z0 = map (fun i => if existsb (Nat.eqb i) ind then map zero_entry (nth i (rows A) [])
                              else nth i (rows A) []) (seq 0 (nmaj A)).
Proof. exact zero_lines_rows. Qed.
Print Assumptions C35_zero_lines_rows.

(* ... densely: A[ind, :] = 0 (csr) resp. A[:, ind] = 0 (csc) *)
Theorem C35_zero_lines_dense :
  forall (A : csr) (ind : list nat), wf A = true -> Forall (fun l => l < nmaj A) ind ->
    exists Z0, zero_lines A ind = Ok Z0 /\ indptr Z0 = indptr A /\ indices Z0 = indices A /\
      to_dense Z0 = map (fun i => if existsb (Nat.eqb i) ind then repeat 0%Z (nmin A)
                                  else nth i (to_dense A) []) (seq 0 (nmaj A)).
Proof. exact zero_lines_dense. Qed.
Print Assumptions C35_zero_lines_dense.

Theorem C35_zero_lines_error :
  forall (A : csr) (ind : list nat), ~ Forall (fun l => l < nmaj A) ind ->
    zero_lines A ind = Err IndexErr.
Proof. exact zero_lines_error. Qed.
Print Assumptions C35_zero_lines_error.

(* expand_indices_nd: the ravel (order F / C) of the broadcast array nd*ind + arange(nd)[:,None]
   is, per index, its nd components (F) resp. per component all indices (C) *)
Theorem C35_expand_indices_nd_F :
  forall (ind : list Z) (nd : nat),
    expand_indices_nd ind nd true
    = flat_map (fun i => map (fun d => (Z.of_nat nd * i + Z.of_nat d)%Z) (seq 0 nd)) ind.
Proof. exact expand_indices_nd_F. Qed.
Print Assumptions C35_expand_indices_nd_F.

Theorem C35_expand_indices_nd_C :
  forall (ind : list Z) (nd : nat),
    expand_indices_nd ind nd false
    = flat_map (fun d => map (fun i => (Z.of_nat nd * i + Z.of_nat d)%Z) ind) (seq 0 nd).
Proof. exact expand_indices_nd_C. Qed.
Print Assumptions C35_expand_indices_nd_C.

(* expand_indices_add_increment: every value followed by its n-1 incremented repetitions *)
Theorem C35_expand_indices_add_increment :
  forall (x : list Z) (n : nat) (incr : Z),
    expand_indices_add_increment x n incr
    = flat_map (fun v => map (fun k => (v + incr * Z.of_nat k)%Z) (seq 0 n)) x.
Proof. exact expand_indices_add_increment_spec. Qed.
Print Assumptions C35_expand_indices_add_increment.

(* merge_matrices (as repaired): for every well-formed A and B with the same minor extent
   and every list of distinct valid line numbers IN ANY ORDER, line lines[k] of the result is
   line k of B, every other line is the line of A, entry by entry in storage order
   ([merged_line] looks a line number up in the association list lines ~ lines of B) ... *)
Theorem C35_merge_rows :
  forall (A B : csr) (lines : list nat),
    wf A = true -> wf B = true -> nmin A = nmin B -> length lines = nmaj B ->
    NoDup lines -> Forall (fun l => l < nmaj A) lines ->
    exists C, merge_matrices A B lines = Ok C /\ nmaj C = nmaj A /\ nmin C = nmin A /\
      rows C = map (merged_line lines (rows B) (fun i => nth i (rows A) [])) (seq 0 (nmaj A)).
Proof. exact merge_rows. Qed.
Print Assumptions C35_merge_rows.

(* ... densely: A[lines, :] = B (csr) resp. A[:, lines] = B (csc) *)
Theorem C35_merge_dense :
  forall (A B : csr) (lines : list nat),
    wf A = true -> wf B = true -> nmin A = nmin B -> length lines = nmaj B ->
    NoDup lines -> Forall (fun l => l < nmaj A) lines ->
    exists C, merge_matrices A B lines = Ok C /\
      to_dense C = map (merged_line lines (to_dense B) (fun i => nth i (to_dense A) [])) (seq 0 (nmaj A)).
Proof. exact merge_dense. Qed.
Print Assumptions C35_merge_dense.

(* the three input checks answer ValueError *)
Theorem C35_merge_value_errors :
  forall (A B : csr) (lines : list nat),
    (nmin A <> nmin B -> merge_matrices A B lines = Err ValueErr) /\
    (nmin A = nmin B -> length lines <> nmaj B -> merge_matrices A B lines = Err ValueErr) /\
    (nmin A = nmin B -> length lines = nmaj B -> ~ NoDup lines -> merge_matrices A B lines = Err ValueErr).
Proof.
  intros A B lines. split; [apply merge_shape_mismatch|split; [apply merge_count_mismatch|apply merge_duplicate]].
Qed.
Print Assumptions C35_merge_value_errors.

(* block_diag_index(m): the column indices of a block diagonal csr matrix with square blocks
   of sizes m (zero sizes allowed): block after block, the block's index range once per row
   (the slice-by-slice construction in the code) *)
Theorem C35_block_diag_index_square :
  forall m : list nat, block_diag_index1 m = bdi1_spec 0 m.
Proof. exact bdi1_closed_form. Qed.
Print Assumptions C35_block_diag_index_square.

(* block_diag_index(m, n): for blocks with m_k rows and n_k columns (zero extents allowed) the
   row indices are, per block, its row range once per column, and the column indices, per
   block and column, the column number once per row (composition of cumsum, rldecode x4,
   expand_index_pointers and arange in the code) *)
Theorem C35_block_diag_index_rect :
  forall m n : list Z, length m = length n -> Forall (fun x => 0 <= x)%Z n ->
    block_diag_index2 m n = Ok (bdi2_i 0 (combine m n), bdi2_j 0 (combine m n)).
Proof. exact bdi2_closed_form. Qed.
Print Assumptions C35_block_diag_index_rect.

(* csr/csc_matrix_from_sparse_blocks (blocks already in the requested format): for every
   non-empty list of well-formed blocks of any shapes (empty extents included) the stored lines
   of the result are the lines of the blocks, one block after the other, with the minor indices
   shifted by the total minor extent of the earlier blocks ... *)
Theorem C35_sparse_blocks_rows :
  forall bs : list csr, bs <> [] -> Forall (fun b => wf b = true) bs ->
    exists C, csx_from_sparse_blocks bs = Ok C /\
              nmaj C = sum_nat (map nmaj bs) /\ nmin C = sum_nat (map nmin bs) /\
              rows C = bd_rows 0 bs.
Proof. exact blocks_rows. Qed.
Print Assumptions C35_sparse_blocks_rows.

(* ... densely the block diagonal matrix of the dense (rectangular) blocks *)
Theorem C35_sparse_blocks_dense :
  forall bs : list csr, bs <> [] -> Forall (fun b => wf b = true) bs ->
    exists C, csx_from_sparse_blocks bs = Ok C /\
              to_dense C = bd_dense 0 (sum_nat (map nmin bs)) bs.
Proof. exact blocks_dense. Qed.
Print Assumptions C35_sparse_blocks_dense.

Theorem C35_sparse_blocks_empty : csx_from_sparse_blocks [] = Err ValueErr.
Proof. exact blocks_empty. Qed.
Print Assumptions C35_sparse_blocks_empty.

(* block_diag_matrix(vals, sz): dense row t lies in the block (first column off, size s) given
   by [row_descr] and holds the next s values of vals in the columns off .. off+s-1, zeros
   elsewhere: the block diagonal matrix of the row-major s x s reshapes of vals *)
Theorem C35_block_diag_matrix :
  forall (vals : list Z) (sz : list nat), length vals = sum_nat (map (fun s => s * s) sz) ->
    exists C, block_diag_matrix vals sz = Ok C /\ nmaj C = sum_nat sz /\ nmin C = sum_nat sz /\
              to_dense C = sq_dense (sum_nat sz) (row_descr 0 sz) vals.
Proof. exact bdm_dense. Qed.
Print Assumptions C35_block_diag_matrix.

(* csr/csc_matrix_from_dense_blocks: nb blocks of size bs, values block after block and
   line-major (the tile/reshape index construction of the code), same dense form *)
Theorem C35_dense_blocks :
  forall (vals : list Z) (bs nb : nat), 1 <= bs -> length vals = bs * bs * nb ->
    exists C, csx_from_dense_blocks vals bs nb = Ok C /\ nmaj C = nb * bs /\ nmin C = nb * bs /\
              to_dense C = sq_dense (nb * bs) (row_descr 0 (repeat bs nb)) vals.
Proof. exact dense_blocks_dense. Qed.
Print Assumptions C35_dense_blocks.

Theorem C35_dense_blocks_size_error :
  forall (vals : list Z) (bs nb : nat), length vals <> bs * bs * nb ->
    csx_from_dense_blocks vals bs nb = Err ValueErr.
Proof. exact dense_blocks_size_error. Qed.
Print Assumptions C35_dense_blocks_size_error.

(* ---------------------------------------------------------------- non-vacuity *)

Example C35_nonvacuous_expand :
  expand_index_pointers [0; 5; 2; -3]%Z [2; 5; 1; -1]%Z = Ok [0; 1; -3; -2]%Z /\
  expand_index_pointers [3]%Z [5; 4; 3; 2]%Z = Ok [3; 4; 3]%Z /\
  expand_index_pointers [2; 3]%Z [1; 2; 3]%Z = Err ValueErr.
Proof. vm_compute. auto. Qed.

Example C35_nonvacuous_rl :
  rldecode [8; 2; 6]%Z [3; 0; 1]%Z = Ok [8; 8; 8; 6]%Z /\
  rlencode Z.eqb [1; 1; 2; 2; 2; 1]%Z = Ok ([1; 2; 1], [2; 3; 1])%Z /\
  (forall x y, Z.eqb x y = true -> x = y).
Proof. split; [|split]; try (vm_compute; reflexivity). intros x y H. apply Z.eqb_eq. exact H. Qed.

(* a 3 x 4 matrix with an empty line, unsorted and duplicate minor indices, a stored zero *)
Definition C35_ex : csr :=
  {| nmaj := 3; nmin := 4; indptr := [0; 3; 3; 6]; indices := [2; 0; 2; 3; 1; 0];
     data := [5; 1; 7; 0; 4; 9]%Z |}.

Example C35_nonvacuous_csr :
  wf C35_ex = true /\ Forall (fun i => i < nmaj C35_ex) [2; 0; 2; 1] /\
  to_dense C35_ex = [[1; 0; 12; 0]; [0; 0; 0; 0]; [9; 4; 0; 0]]%Z /\
  (exists S, slice_sparse_matrix C35_ex [2; 0; 2; 1] = Ok S /\
             indptr S = [0; 3; 6; 9; 9] /\
             to_dense S = [[9; 4; 0; 0]; [1; 0; 12; 0]; [9; 4; 0; 0]; [0; 0; 0; 0]]%Z) /\
  to_dense (stack_diag C35_ex {| nmaj := 0; nmin := 2; indptr := [0]; indices := []; data := [] |})
  = [[1; 0; 12; 0; 0; 0]; [0; 0; 0; 0; 0; 0]; [9; 4; 0; 0; 0; 0]]%Z.
Proof.
  split; [reflexivity|]. split; [repeat constructor|]. split; [vm_compute; reflexivity|].
  split; [eexists; split; [vm_compute; reflexivity|split; vm_compute; reflexivity]|].
  vm_compute. reflexivity.
Qed.

Example C35_nonvacuous_zero_expand :
  (exists Z0, zero_lines C35_ex [2; 2] = Ok Z0 /\ data Z0 = [5; 1; 7; 0; 0; 0]%Z /\
              to_dense Z0 = [[1; 0; 12; 0]; [0; 0; 0; 0]; [0; 0; 0; 0]]%Z) /\
  expand_indices_nd [0; 1; 3]%Z 3 false = [0; 3; 9; 1; 4; 10; 2; 5; 11]%Z /\
  expand_indices_nd [0; 1; 3]%Z 2 true = [0; 1; 2; 3; 6; 7]%Z /\
  expand_indices_add_increment [0; 1; 3]%Z 3 200 = [0; 200; 400; 1; 201; 401; 3; 203; 403]%Z /\
  rldecode [8; 2]%Z [1; 0; 2]%Z = Err IndexErr /\ rldecode [8; 2]%Z [1; 2; 0]%Z = Ok [8; 2; 2]%Z.
Proof.
  split; [eexists; split; [vm_compute; reflexivity|split; vm_compute; reflexivity]|].
  vm_compute. repeat split; reflexivity.
Qed.

Example C35_nonvacuous_merge :
  let B := {| nmaj := 2; nmin := 4; indptr := [0; 1; 3]; indices := [3; 1; 0]; data := [7; 8; 9]%Z |} in
  wf B = true /\ NoDup [2; 0] /\ Forall (fun l => l < nmaj C35_ex) [2; 0] /\
  exists C, merge_matrices C35_ex B [2; 0] = Ok C /\
            indptr C = [0; 2; 2; 3] /\ indices C = [1; 0; 3] /\ data C = [8; 9; 7]%Z /\
            to_dense C = [[9; 8; 0; 0]; [0; 0; 0; 0]; [0; 0; 0; 7]]%Z.
Proof.
  cbv zeta. split; [reflexivity|]. split; [repeat constructor; simpl; intuition discriminate|].
  split; [repeat constructor|]. eexists. split; [vm_compute; reflexivity|]. repeat split; vm_compute; reflexivity.
Qed.

Example C35_nonvacuous_bdi :
  block_diag_index1 [1; 0; 3] = [0; 1; 2; 3; 1; 2; 3; 1; 2; 3] /\
  bdi1_spec 0 [1; 0; 3] = [0; 1; 2; 3; 1; 2; 3; 1; 2; 3] /\
  block_diag_index2 [2; 3; 1]%Z [1; 0; 2]%Z = Ok ([0; 1; 5; 5], [0; 0; 1; 2])%Z /\
  Forall (fun x => 0 <= x)%Z [1; 0; 2]%Z.
Proof. split; [|split; [|split]]; try (vm_compute; reflexivity). repeat constructor; lia. Qed.

Example C35_nonvacuous_blocks :
  let B := {| nmaj := 1; nmin := 2; indptr := [0; 2]; indices := [1; 0]; data := [6; 5]%Z |} in
  let E := {| nmaj := 0; nmin := 1; indptr := [0]; indices := []; data := [] |} in
  Forall (fun b => wf b = true) [C35_ex; E; B] /\
  (exists C, csx_from_sparse_blocks [C35_ex; E; B] = Ok C /\
     to_dense C = [[1; 0; 12; 0; 0; 0; 0]; [0; 0; 0; 0; 0; 0; 0]; [9; 4; 0; 0; 0; 0; 0];
                   [0; 0; 0; 0; 0; 5; 6]]%Z) /\
  (exists C, block_diag_matrix [7; 1; 2; 3; 4]%Z [1; 2] = Ok C /\
     to_dense C = [[7; 0; 0]; [0; 1; 2]; [0; 3; 4]]%Z) /\
  sq_dense 3 (row_descr 0 [1; 2]) [7; 1; 2; 3; 4]%Z = [[7; 0; 0]; [0; 1; 2]; [0; 3; 4]]%Z /\
  (exists C, csx_from_dense_blocks [1; 2; 3; 4; 5; 6; 7; 8]%Z 2 2 = Ok C /\
     indices C = [0; 1; 0; 1; 2; 3; 2; 3] /\
     to_dense C = [[1; 2; 0; 0]; [3; 4; 0; 0]; [0; 0; 5; 6]; [0; 0; 7; 8]]%Z).
Proof.
  cbv zeta. split; [repeat constructor|].
  split; [eexists; split; vm_compute; reflexivity|].
  split; [eexists; split; vm_compute; reflexivity|].
  split; [vm_compute; reflexivity|].
  eexists. split; [vm_compute; reflexivity|]. split; vm_compute; reflexivity.
Qed.
