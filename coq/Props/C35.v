(* C35 — property theorems only.  Models: PP.Lib.Csr (compressed storage and its dense
   reference), PP.Model.C35 (transcription of the utilities); proofs: PP.Proofs.C35*.
   A csc matrix is the same record read column-wise: "line" = row (csr) / column (csc),
   [to_dense] lists the lines, i.e. it is the dense matrix (csr) or its transpose (csc). *)
From Coq Require Import List ZArith Arith Lia.
Import ListNotations.
From PP Require Import Lib.Csr Model.C35 Proofs.C35 Proofs.C35_rl Proofs.C35_csr.

(* expand_index_pointers(lo, hi) is the concatenation of np.arange(lo_k, hi_k) over all k,
   for integer bounds of any sign and any order (empty ranges where hi_k <= lo_k),
   for arrays of any equal length (the cumulative-sum construction in the code). *)
Theorem C35_expand_index_pointers :
  forall lo hi : list Z, length lo = length hi ->
    expand_index_pointers lo hi
    = Ok (flat_map (fun p => zrange (fst p) (snd p)) (combine lo hi)).
Proof. exact expand_main. Qed.
Print Assumptions C35_expand_index_pointers.

(* a single lower (upper) bound is broadcast against all upper (lower) bounds *)
Theorem C35_expand_broadcast_lo :
  forall (a : Z) (hi : list Z), length hi <> 1 ->
    expand_index_pointers [a] hi = Ok (flat_map (fun h => zrange a h) hi).
Proof. exact expand_bc_lo. Qed.
Print Assumptions C35_expand_broadcast_lo.

Theorem C35_expand_broadcast_hi :
  forall (lo : list Z) (b : Z), length lo <> 1 ->
    expand_index_pointers lo [b] = Ok (flat_map (fun l => zrange l b) lo).
Proof. exact expand_bc_hi. Qed.
Print Assumptions C35_expand_broadcast_hi.

(* any other length mismatch is rejected with ValueError *)
Theorem C35_expand_mismatch :
  forall lo hi : list Z, length lo <> 1 -> length hi <> 1 -> length lo <> length hi ->
    expand_index_pointers lo hi = Err ValueErr.
Proof. exact expand_mismatch. Qed.
Print Assumptions C35_expand_mismatch.

(* rldecode(A, n) = np.repeat(A[:len(n)], max(n, 0)) for every element type, all counts
   (zero and negative counts contribute nothing), A at least as long as n. *)
Theorem C35_rldecode :
  forall (T : Type) (A : list T) (n : list Z), length n <= length A ->
    rldecode A n = Ok (flat_map (fun ac => repeat (fst ac) (Z.to_nat (snd ac))) (combine A n)).
Proof. exact rldecode_spec. Qed.
Print Assumptions C35_rldecode.

(* rlencode of any non-empty sequence of columns (any column type with a sound equality
   test): decoding the result restores the input, every count is positive and
   neighbouring encoded columns differ (the encoding is the maximal compression). *)
Theorem C35_rlencode_roundtrip :
  forall (T : Type) (eqb : T -> T -> bool), (forall x y, eqb x y = true -> x = y) ->
  forall l : list T, l <> [] ->
    exists v num, rlencode eqb l = Ok (v, num) /\ rldecode v num = Ok l /\
                  length v = length num /\ Forall (fun c => 1 <= c)%Z num /\
                  forallb (fun b => b) (neq_adj T eqb v) = true.
Proof. exact rlencode_roundtrip. Qed.
Print Assumptions C35_rlencode_roundtrip.

(* slice_sparse_matrix: for every well-formed matrix (unsorted / duplicate minor indices,
   empty lines, stored zeros) and every list of valid line numbers (any order, repeats
   allowed) the result's stored lines are exactly the selected lines of A, entry by
   entry in storage order ... *)
Theorem C35_slice_rows :
  forall (A : csr) (ind : list nat), wf A = true -> Forall (fun i => i < nmaj A) ind ->
    exists S, slice_sparse_matrix A ind = Ok S /\
              nmaj S = length ind /\ nmin S = nmin A /\
              rows S = map (fun i => nth i (rows A) []) ind.
Proof. exact slice_rows. Qed.
Print Assumptions C35_slice_rows.

(* ... hence its dense form is the dense A[ind, :] (csr) resp. A[:, ind] (csc) *)
Theorem C35_slice_dense :
  forall (A : csr) (ind : list nat), wf A = true -> Forall (fun i => i < nmaj A) ind ->
    exists S, slice_sparse_matrix A ind = Ok S /\
              to_dense S = map (fun i => nth i (to_dense A) (dense_row (nmin A) [])) ind.
Proof. exact slice_dense. Qed.
Print Assumptions C35_slice_dense.

(* a line number outside the matrix is an IndexError *)
Theorem C35_slice_error :
  forall (A : csr) (ind : list nat), ~ Forall (fun i => i < nmaj A) ind ->
    slice_sparse_matrix A ind = Err IndexErr.
Proof. exact slice_error. Qed.
Print Assumptions C35_slice_error.

(* slice_indices returns the minor indices of the selected lines and their positions *)
Theorem C35_slice_indices :
  forall (A : csr) (ind : list nat), wf A = true -> Forall (fun i => i < nmaj A) ind ->
    exists ix ai, slice_indices A ind = Ok (ix, ai) /\
      ix = map fst (concat (map (fun i => nth i (rows A) []) ind)) /\
      ai = flat_map (fun i => seq (nth i (indptr A) 0) (nth (S i) (indptr A) 0 - nth i (indptr A) 0)) ind.
Proof. exact slice_indices_spec. Qed.
Print Assumptions C35_slice_indices.

(* stack_mat appends the lines of B to those of A (vstack for csr, hstack for csc) *)
Theorem C35_stack_mat_rows :
  forall A B : csr, wf A = true -> wf B = true -> nmin A = nmin B ->
    exists C, stack_mat A B = Ok C /\ nmin C = nmin A /\ rows C = rows A ++ rows B.
Proof. exact stack_mat_rows. Qed.
Print Assumptions C35_stack_mat_rows.

Theorem C35_stack_mat_dense :
  forall A B : csr, wf A = true -> wf B = true -> nmin A = nmin B ->
    exists C, stack_mat A B = Ok C /\ to_dense C = to_dense A ++ to_dense B.
Proof. exact stack_mat_dense. Qed.
Print Assumptions C35_stack_mat_dense.

Theorem C35_stack_mat_mismatch :
  forall A B : csr, nmin A <> nmin B -> stack_mat A B = Err ValueErr.
Proof. exact stack_mat_mismatch. Qed.
Print Assumptions C35_stack_mat_mismatch.

(* stack_diag: the lines of A, then the lines of B with shifted minor indices ... *)
Theorem C35_stack_diag_rows :
  forall A B : csr, wf A = true -> wf B = true ->
    rows (stack_diag A B) = rows A ++ map (map (shift_entry (nmin A))) (rows B).
Proof. exact stack_diag_rows. Qed.
Print Assumptions C35_stack_diag_rows.

(* ... i.e. densely [[A, 0], [0, B]], also when A or B has no lines or no minor extent *)
Theorem C35_stack_diag_dense :
  forall A B : csr, wf A = true -> wf B = true ->
    to_dense (stack_diag A B)
    = map (fun row => row ++ repeat 0%Z (nmin B)) (to_dense A)
      ++ map (fun row => repeat 0%Z (nmin A) ++ row) (to_dense B).
Proof. exact stack_diag_dense. Qed.
Print Assumptions C35_stack_diag_dense.

(* ---------------------------------------------------------------- non-vacuity *)

Example C35_nonvacuous_expand :
  expand_index_pointers [0; 5; 2; -3]%Z [2; 5; 1; -1]%Z = Ok [0; 1; -3; -2]%Z /\
  expand_index_pointers [3]%Z [5; 4; 3; 2]%Z = Ok [3; 4; 3]%Z /\
  expand_index_pointers [2; 3]%Z [1; 2; 3]%Z = Err ValueErr.
Proof. vm_compute. auto. Qed.

Example C35_nonvacuous_rl :
  rldecode [8; 2; 6]%Z [3; 0; 1]%Z = Ok [8; 8; 8; 6]%Z /\
  rlencode Z.eqb [1; 1; 2; 2; 2; 1]%Z = Ok ([1; 2; 1], [2; 3; 1])%Z /\
  (forall x y, Z.eqb x y = true -> x = y).
Proof. split; [|split]; try (vm_compute; reflexivity). intros x y H. apply Z.eqb_eq. exact H. Qed.

(* a 3 x 4 matrix with an empty line, unsorted and duplicate minor indices, a stored zero *)
Definition C35_ex : csr :=
  {| nmaj := 3; nmin := 4; indptr := [0; 3; 3; 6]; indices := [2; 0; 2; 3; 1; 0];
     data := [5; 1; 7; 0; 4; 9]%Z |}.

Example C35_nonvacuous_csr :
  wf C35_ex = true /\ Forall (fun i => i < nmaj C35_ex) [2; 0; 2; 1] /\
  to_dense C35_ex = [[1; 0; 12; 0]; [0; 0; 0; 0]; [9; 4; 0; 0]]%Z /\
  (exists S, slice_sparse_matrix C35_ex [2; 0; 2; 1] = Ok S /\
             indptr S = [0; 3; 6; 9; 9] /\
             to_dense S = [[9; 4; 0; 0]; [1; 0; 12; 0]; [9; 4; 0; 0]; [0; 0; 0; 0]]%Z) /\
  to_dense (stack_diag C35_ex {| nmaj := 0; nmin := 2; indptr := [0]; indices := []; data := [] |})
  = [[1; 0; 12; 0; 0; 0]; [0; 0; 0; 0; 0; 0]; [9; 4; 0; 0; 0; 0]]%Z.
Proof.
  split; [reflexivity|]. split; [repeat constructor|]. split; [vm_compute; reflexivity|].
  split; [eexists; split; [vm_compute; reflexivity|split; vm_compute; reflexivity]|].
  vm_compute. reflexivity.
Qed.
