(* C27 — property theorems only.  Model: PP.Model.C27 (transcription of
   grid_operators._cell_projections/_face_projections, SubdomainProjections,
   MortarProjections, BoundaryProjection, BoundaryGrid.projection, expand_indices_nd);
   specification vocabulary: PP.Model.C27_spec; proofs: PP.Proofs.C27*. *)
From Coq Require Import List Arith Lia Permutation QArith.
Local Open Scope nat_scope.
Import ListNotations.
From PP Require Import Model.C27 Model.C27_spec Model.C27_ext.
From PP Require Import Proofs.C27 Proofs.C27_mortar Proofs.C27_cache Proofs.C27_bnd Proofs.C27_dense
     Proofs.C27_ext Proofs.C27_ext2 Proofs.C27_ext3.

(* expand_indices_nd(arange(n), nd) enumerates 0 .. n*nd-1 for every nd >= 1 *)
Theorem C27_expand_indices :
  forall n nd, 1 <= nd -> expand_indices_nd (seq 0 n) nd = seq 0 (n * nd).
Proof. exact expand_arange. Qed.
Print Assumptions C27_expand_indices.

(* For every constructor list [all] of distinct well-formed grids (any dims, 0-d grids
   without faces included), every nd >= 1 and every requested list [req] of grids of
   [all] (any order, any length, also empty): the constructor accepts, the restriction is
   the selection matrix of the requested grids' global index blocks (global offsets follow
   the order of [all], rows follow the order of [req]) and the prolongation is its
   transpose.  e = Cells | Faces. *)
Theorem C27_operators_select :
  forall e all nd req,
    1 <= nd -> Forall wf_grid all -> NoDup (map gid all) -> incl req all ->
    let sel := selection (total (num_of e) all nd) (blocks (num_of e) all nd req) in
    sp_init all nd = Ok (mkSP all nd) /\
    restriction e (mkSP all nd) req = Ok sel /\
    prolongation e (mkSP all nd) req = Ok (transpose sel).
Proof. exact operators_select. Qed.
Print Assumptions C27_operators_select.

(* global index c belongs to the blocks of the request iff it lies in the block
   [offset, offset + size) of one requested grid *)
Theorem C27_block_membership :
  forall num all nd req c,
    In c (blocks num all nd req) <->
    exists g, In g req /\ pre num all (gid g) * nd <= c < pre num all (gid g) * nd + num g * nd.
Proof. exact in_blocks. Qed.
Print Assumptions C27_block_membership.

(* (1) restriction o prolongation (local -> global -> local) is the identity of the stacked
   local vector; prolongation o restriction (global -> local -> global) is the identity on
   the listed grids' blocks and zero elsewhere.  Any list without repetition, any order. *)
Theorem C27_restrict_prolong_id :
  forall e all nd req,
    1 <= nd -> Forall wf_grid all -> NoDup (map gid all) -> incl req all -> NoDup req ->
    let sp := mkSP all nd in
    bind (restriction e sp req) (fun R => bind (prolongation e sp req) (fun P => mul R P))
    = Ok (identity (sum_by (fun g => num_of e g * nd) req)) /\
    bind (restriction e sp req) (fun R => bind (prolongation e sp req) (fun P => mul P R))
    = Ok (indicator (total (num_of e) all nd) (blocks (num_of e) all nd req)).
Proof. exact restrict_prolong_id. Qed.
Print Assumptions C27_restrict_prolong_id.

(* (2) for any reordering [req] of the full list, the prolongation (column-concatenation
   over the list) is the transposed selection of cs = the grids' global blocks in list
   order, and cs hits every global index exactly once; for req = all it is 0,1,..,N-1. *)
Theorem C27_prolong_permutation :
  forall e all nd req,
    1 <= nd -> Forall wf_grid all -> NoDup (map gid all) -> Permutation req all ->
    let cs := blocks (num_of e) all nd req in
    prolongation e (mkSP all nd) req = Ok (transpose (selection (total (num_of e) all nd) cs)) /\
    Permutation cs (seq 0 (total (num_of e) all nd)) /\ NoDup cs /\
    length cs = total (num_of e) all nd /\
    blocks (num_of e) all nd all = seq 0 (total (num_of e) all nd).
Proof. exact prolong_permutation. Qed.
Print Assumptions C27_prolong_permutation.

(* prolongation is the transpose of restriction for every input, errors included *)
Theorem C27_prolongation_is_transpose :
  forall e sp req,
    prolongation e sp req = bind (restriction e sp req) (fun m => Ok (transpose m)).
Proof. exact prolongation_is_transpose. Qed.
Print Assumptions C27_prolongation_is_transpose.

(* error branches: a repeated subdomain is rejected by the constructor; a requested grid
   that is not in the constructor list gives KeyError *)
Theorem C27_duplicate_rejected :
  forall all nd, ~ NoDup (map gid all) -> sp_init all nd = Err ValueErr.
Proof. exact sp_init_duplicate. Qed.
Print Assumptions C27_duplicate_rejected.

Theorem C27_unknown_grid_keyerror :
  forall e all nd req,
    1 <= nd -> Forall wf_grid all ->
    (exists g, In g req /\ ~ In (gid g) (map gid all)) ->
    (forall g, In g req -> In (gid g) (map gid all) -> In g all) -> NoDup (map gid all) ->
    restriction e (mkSP all nd) req = Err KeyErr /\
    prolongation e (mkSP all nd) req = Err KeyErr.
Proof. exact unknown_grid_keyerror. Qed.
Print Assumptions C27_unknown_grid_keyerror.

(* (3) mortar projections, subdomains -> mortar (primary_to_mortar_int|avg, secondary_to_mortar_int|avg):
   for any list of distinct subdomains and any non-empty list of interfaces of one
   codimension c in {1,2} (any order, repetitions allowed), the result is the block
   placement of the per-interface matrices: rows at the mortar offset of the interface
   (list order of the interfaces), columns at the global offset of its primary/secondary
   subdomain (list order of the subdomains; faces for the primary side of codimension 1,
   cells otherwise); interfaces whose subdomain is not listed contribute a zero block. *)
Theorem C27_mortar_blocks_to_mortar :
  forall sds ifs nd is_primary locs c,
    1 <= nd -> Forall wf_grid sds -> NoDup (map gid sds) ->
    ifs <> [] -> Forall (fun i => icodim i = c) ifs -> c = 1 \/ c = 2 ->
    let num := side_num is_primary c in
    locs_fit num true is_primary sds nd ifs locs ->
    construct_projection sds ifs nd true is_primary locs
    = Ok (mkM (sum_by (fun i => imc i * nd) ifs) (total num sds nd)
              (placed_to_mortar num is_primary sds nd ifs locs 0)).
Proof. exact construct_to_mortar. Qed.
Print Assumptions C27_mortar_blocks_to_mortar.

(* mortar -> subdomains (mortar_to_primary_int|avg, mortar_to_secondary_int|avg): the transposed
   placement; the coordinate list is a permutation of the placed per-interface entries *)
Theorem C27_mortar_blocks_from_mortar :
  forall sds ifs nd is_primary locs c,
    1 <= nd -> Forall wf_grid sds -> NoDup (map gid sds) ->
    ifs <> [] -> Forall (fun i => icodim i = c) ifs -> c = 1 \/ c = 2 ->
    let num := side_num is_primary c in
    locs_fit num false is_primary sds nd ifs locs ->
    exists es,
      construct_projection sds ifs nd false is_primary locs
      = Ok (mkM (total num sds nd) (sum_by (fun i => imc i * nd) ifs) es) /\
      Permutation es (placed_from_mortar num is_primary sds nd ifs locs 0).
Proof. exact construct_from_mortar. Qed.
Print Assumptions C27_mortar_blocks_from_mortar.

Theorem C27_mortar_no_interfaces :
  forall sds nd to_mortar is_primary locs,
    construct_projection sds [] nd to_mortar is_primary locs
    = Ok (let n := nd * sum_by (if is_primary then nfaces else ncells) sds in
          if to_mortar then zeros 0 n else zeros n 0).
Proof. exact construct_no_interfaces. Qed.
Print Assumptions C27_mortar_no_interfaces.

Theorem C27_mortar_mixed_codim_rejected :
  forall sds ifs nd to_mortar is_primary locs i j,
    In i ifs -> In j ifs -> icodim i <> icodim j ->
    construct_projection sds ifs nd to_mortar is_primary locs = Err ValueErr.
Proof. exact construct_mixed_codim. Qed.
Print Assumptions C27_mortar_mixed_codim_rejected.

(* the eight cached accessors, any call history: every call answers with the construction
   from the accessor's own per-interface matrices — PARTIAL: under [conf_guard] (on a side
   classified as conforming by np.allclose the integrating and averaging per-interface
   matrices are equal; MortarGrid's normalisation gives this up to rounding).  Without the
   guard the statement is false of the model (next theorem): the two flavours share one
   cache attribute, the second call returns the first call's matrix. *)
Theorem C27_mortar_cached_calls_partial :
  forall sds ifs nd loc ks,
    conf_guard (mp_init sds ifs nd loc) ->
    mp_run (mp_init sds ifs nd loc) ks
    = map (fun k => construct_projection sds ifs nd (k_to_mortar k) (k_is_primary k) (loc k)) ks.
Proof. exact cached_accessors. Qed.
Print Assumptions C27_mortar_cached_calls_partial.

Theorem C27_mortar_cached_calls_refuted :
  exists sds ifs nd loc ks,
    mp_run (mp_init sds ifs nd loc) ks
    <> map (fun k => construct_projection sds ifs nd (k_to_mortar k) (k_is_primary k) (loc k)) ks.
Proof. exact cached_accessors_refuted. Qed.
Print Assumptions C27_mortar_cached_calls_refuted.

(* (4) boundary projection for any list of distinct subdomains with their boundary grids
   (0-d subdomains contribute nothing): subdomain_to_boundary selects the domain-boundary
   faces (listed subdomains in list order, boundary faces ascending, nd values per face),
   boundary_to_subdomain is its transpose, subdomain_to_boundary o boundary_to_subdomain
   is the identity on boundary values and the other composition is the indicator of the
   boundary faces. *)
Theorem C27_boundary :
  forall bgs nd,
    1 <= nd -> Forall wf_bgrid bgs -> NoDup (map gid (map bg_grid bgs)) ->
    let tot := total nfaces (map bg_grid bgs) nd in
    let cs := all_bnd_cols bgs nd in
    subdomain_to_boundary bgs nd = Ok (selection tot cs) /\
    boundary_to_subdomain bgs nd = Ok (transpose (selection tot cs)) /\
    NoDup cs /\
    bind (subdomain_to_boundary bgs nd) (fun S =>
      bind (boundary_to_subdomain bgs nd) (fun B => mul S B)) = Ok (identity (length cs)) /\
    bind (subdomain_to_boundary bgs nd) (fun S =>
      bind (boundary_to_subdomain bgs nd) (fun B => mul B S)) = Ok (indicator tot cs).
Proof. exact boundary_compositions. Qed.
Print Assumptions C27_boundary.

(* error branch: a first listed subdomain of dimension > 0 without boundary grid (a grid
   that is not in the md-grid) raises UnboundLocalError *)
Theorem C27_boundary_unbound :
  forall b r nd,
    1 <= nd -> Forall wf_grid (map bg_grid (b :: r)) ->
    0 < gdim (bg_grid b) -> bg_bnd b = None ->
    subdomain_to_boundary (b :: r) nd = Err UnboundErr.
Proof. exact boundary_unbound. Qed.
Print Assumptions C27_boundary_unbound.

(* meaning of the two result matrices as dense matrices *)
Theorem C27_identity_entries :
  forall n i j, i < n -> j < n ->
    QArith_base.Qeq (get (identity n) i j) (if i =? j then 1%Q else 0%Q).
Proof. exact get_identity. Qed.
Print Assumptions C27_identity_entries.

Theorem C27_indicator_entries :
  forall n cs i j, NoDup cs ->
    QArith_base.Qeq (get (indicator n cs) i j)
                    (if (i =? j) && existsb (Nat.eqb i) cs then 1%Q else 0%Q).
Proof. exact get_indicator. Qed.
Print Assumptions C27_indicator_entries.

(* ---------------------------------------------------------------- extension *)
(* the conformity flags computed by MortarProjections.__init__ say exactly: every stored
   weight of the integrating AND the averaging mortar->primary (resp. ->secondary) matrices
   of every listed interface is within 1e-10 + 1e-5 of 1 *)
Theorem C27_conformity_flags_sound :
  forall sds ifs nd loc,
    (mp_conf_p (mp_init sds ifs nd loc) = true
     <-> all_within_tol (loc M2P_int) /\ all_within_tol (loc M2P_avg)) /\
    (mp_conf_s (mp_init sds ifs nd loc) = true
     <-> all_within_tol (loc M2S_int) /\ all_within_tol (loc M2S_avg)).
Proof. exact conformity_flags_sound. Qed.
Print Assumptions C27_conformity_flags_sound.

(* the eight cached accessors WITHOUT guard, any inputs, any call history: every call
   answers with the construction of its own flavour, or -- only if its side is classified
   as conforming -- with the construction of the twin flavour (int <-> avg, same direction).
   In particular on a non-conforming side the call order never matters. *)
Theorem C27_mortar_cached_calls :
  forall sds ifs nd loc ks,
    let mp := mp_init sds ifs nd loc in
    Forall2 (fun k o => o = answer mp k \/ (side_conf mp k = true /\ o = answer mp (twin k)))
            ks (mp_run mp ks).
Proof. exact cached_accessors_unguarded. Qed.
Print Assumptions C27_mortar_cached_calls.

Theorem C27_mortar_first_call_own :
  forall sds ifs nd loc k ks,
    hd_error (mp_run (mp_init sds ifs nd loc) (k :: ks))
    = Some (answer (mp_init sds ifs nd loc) k).
Proof. exact first_call_own. Qed.
Print Assumptions C27_mortar_first_call_own.

(* BoundaryProjection for ARBITRARY lists of distinct grids (boundary grid present or not):
   the rows are the blocks of [stale_blocks] -- a listed grid of dimension > 0 without
   boundary grid repeats the block of the previous iteration, UnboundLocalError if there is
   none -- so the stale mat_loc is part of the characterisation, not excluded by a guard *)
Theorem C27_boundary_general :
  forall bgs nd,
    1 <= nd -> Forall wf_grid (map bg_grid bgs) -> NoDup (map gid (map bg_grid bgs)) ->
    Forall bnd_in_range bgs ->
    subdomain_to_boundary bgs nd
    = match stale_blocks (map bg_grid bgs) nd bgs None with
      | Some cs => Ok (selection (total nfaces (map bg_grid bgs) nd) (concat cs))
      | None => Err UnboundErr
      end.
Proof. exact bp_projection_general. Qed.
Print Assumptions C27_boundary_general.

(* ... and with a stale block claim (4) fails: the repeated rows make
   subdomain_to_boundary o boundary_to_subdomain differ from the identity (only reachable
   with a grid that is not in the md-grid) *)
Theorem C27_boundary_stale_refuted :
  exists bgs nd S,
    NoDup (map gid (map bg_grid bgs)) /\ Forall wf_grid (map bg_grid bgs) /\
    subdomain_to_boundary bgs nd = Ok S /\
    mul S (transpose S) <> Ok (identity (nr S)).
Proof. exact boundary_stale_refuted. Qed.
Print Assumptions C27_boundary_stale_refuted.

(* Trace (scalar): the per-grid trace operators placed at (face offset, cell offset) of the
   grid in the list, i.e. at the offsets of the face / cell projections; any list of
   distinct grids, the empty list included *)
Theorem C27_trace_blocks :
  forall sds locs,
    Forall wf_grid sds -> NoDup (map gid sds) -> length sds = length locs ->
    Forall (diag_fit nfaces ncells 1) (combine sds locs) ->
    trace_op sds 1 locs
    = XOk (mkM (total nfaces sds 1) (total ncells sds 1)
               (placed_diag nfaces ncells sds 1 (combine sds locs))).
Proof. exact trace_blocks_placed. Qed.
Print Assumptions C27_trace_blocks.

Theorem C27_trace_vector_not_implemented :
  forall sds nd locs d,
    sds <> [] -> nd <> 1 -> cell_projections sds nd = Ok d -> trace_op sds nd locs = XNotImpl.
Proof. exact trace_vector_not_implemented. Qed.
Print Assumptions C27_trace_vector_not_implemented.

(* Divergence (any dim): the per-grid divergences placed at (cell offset, face offset) *)
Theorem C27_divergence_blocks :
  forall sds nd locs,
    sds <> [] -> length sds = length locs -> NoDup (map gid sds) ->
    Forall (diag_fit ncells nfaces nd) (combine sds locs) ->
    exists M, divergence_op locs = Ok M /\
              nr M = total ncells sds nd /\ nc M = total nfaces sds nd /\
              ents M = placed_diag ncells nfaces sds nd (combine sds locs).
Proof. exact divergence_blocks. Qed.
Print Assumptions C27_divergence_blocks.

(* error branches: Divergence of an empty list (np.concatenate of nothing), accessor called
   with something that is not a list *)
Theorem C27_divergence_empty : divergence_op [] = Err ValueErr.
Proof. exact divergence_empty. Qed.
Print Assumptions C27_divergence_empty.

Theorem C27_nonlist_rejected : forall r, accessor_arg false r = Err ValueErr.
Proof. exact nonlist_rejected. Qed.
Print Assumptions C27_nonlist_rejected.

(* soundness of the comparison the execution tie evaluates: when [mat_eqb] answers true the
   two coordinate lists denote the same matrix (equal shapes, equal dense entries with
   duplicate coordinates summed) *)
Theorem C27_tie_comparison_sound :
  forall A B,
    mat_eqb A B = true ->
    nr A = nr B /\ nc A = nc B /\ forall i j, Qeq (get A i j) (get B i j).
Proof. exact mat_eqb_sound. Qed.
Print Assumptions C27_tie_comparison_sound.

(* ---------------------------------------------------------------- non-vacuity *)
(* a 2-D grid, two fracture grids and their 0-d intersection, vector quantity (nd = 2),
   request in a different order than the constructor list *)
Example C27_nonvacuous_subdomains :
  let g2 := mkG 0 2 4 16 in let ga := mkG 1 1 2 4 in let gb := mkG 2 1 2 4 in
  let g0 := mkG 3 0 1 0 in
  let all := [g2; ga; gb; g0] in
  let req := [g0; gb; g2] in
  Forall wf_grid all /\ NoDup (map gid all) /\ incl req all /\ NoDup req /\
  blocks ncells all 2 req = [16; 17; 12; 13; 14; 15; 0; 1; 2; 3; 4; 5; 6; 7] /\
  blocks nfaces all 2 req = seq 40 8 ++ seq 0 32 /\
  Permutation [g0; gb; g2; ga] all.
Proof.
  cbv zeta. split; [|split; [|split; [|split; [|split; [|split]]]]].
  - repeat constructor; cbn; lia.
  - cbn. repeat constructor; cbn; intuition lia.
  - intros x Hx. cbn in Hx |- *. intuition.
  - repeat constructor; cbn; intuition discriminate.
  - reflexivity.
  - reflexivity.
  - apply Permutation_sym.
    apply (Permutation_trans (l' := [mkG 1 1 2 4; mkG 0 2 4 16; mkG 2 1 2 4; mkG 3 0 1 0])).
    + apply perm_swap.
    + apply Permutation_sym.
      change (Permutation ([mkG 3 0 1 0; mkG 2 1 2 4; mkG 0 2 4 16] ++ [mkG 1 1 2 4])
                          ([mkG 1 1 2 4] ++ [mkG 0 2 4 16; mkG 2 1 2 4; mkG 3 0 1 0])).
      eapply Permutation_trans; [apply Permutation_app_comm|].
      apply Permutation_app_head.
      apply (Permutation_trans (l' := [mkG 2 1 2 4; mkG 3 0 1 0; mkG 0 2 4 16])).
      * apply perm_swap.
      * apply (Permutation_trans (l' := [mkG 2 1 2 4; mkG 0 2 4 16; mkG 3 0 1 0])).
        -- apply perm_skip, perm_swap.
        -- apply perm_swap.
Qed.

(* one codim-1 interface between the 2-D grid and a fracture, with a one-entry local matrix *)
Example C27_nonvacuous_mortar :
  let g2 := mkG 0 2 4 16 in let ga := mkG 1 1 2 4 in
  let i := mkI 0 0 1 4 1 [2; 2] in
  let L := mkM 4 16 [(1, 5, 1%Q)] in
  locs_fit (side_num true 1) true true [ga; g2] 1 [i] [L] /\
  construct_projection [ga; g2] [i] 1 true true [L] = Ok (mkM 4 20 [(1, 9, 1%Q)]).
Proof.
  cbv zeta. split.
  - cbn. split; [|exact I]. intros g [<-|[<-|[]]]; cbn; intros E; try discriminate E.
    repeat split; try reflexivity. repeat constructor.
  - reflexivity.
Qed.

Example C27_nonvacuous_cache_guard :
  let g2 := mkG 0 2 4 16 in
  let i := mkI 0 0 1 1 1 [1] in
  let L := [mkM 1 16 [(0, 5, 1%Q)]] in let Lt := [mkM 16 1 [(5, 0, 1%Q)]] in
  let loc := fun k => match k with
                      | M2P_int | M2P_avg => Lt | P2M_int | P2M_avg => L
                      | _ => [] end in
  conf_guard (mp_init [g2] [i] 1 loc) /\
  mp_run (mp_init [g2] [i] 1 loc) [M2P_avg; M2P_int]
  = [Ok (mkM 16 1 [(5, 0, 1%Q)]); Ok (mkM 16 1 [(5, 0, 1%Q)])].
Proof. cbv zeta. split; [split; intros _; split; reflexivity|reflexivity]. Qed.

(* a 2-D grid with boundary faces 0,2,3 and a 0-d grid, nd = 2 *)
Example C27_nonvacuous_boundary :
  let b2 := mkB (mkG 0 2 2 7) (Some [0; 2; 3]) in
  let b0 := mkB (mkG 1 0 1 0) None in
  Forall wf_bgrid [b0; b2] /\ NoDup (map gid (map bg_grid [b0; b2])) /\
  all_bnd_cols [b0; b2] 2 = [0; 1; 4; 5; 6; 7].
Proof.
  cbv zeta. split; [|split].
  - constructor; [|constructor; [|constructor]]; unfold wf_bgrid, wf_grid; cbn.
    + split; [split; [lia|split; [reflexivity|intros H; lia]]|intros H; lia].
    + split; [split; [lia|split; [intros H; discriminate H|intros _; lia]]|].
      intros _. exists [0; 2; 3]. split; [reflexivity|]. split.
      * repeat constructor; cbn; intuition lia.
      * repeat constructor; lia.
  - cbn. repeat constructor; cbn; intuition lia.
  - reflexivity.
Qed.

(* a 1-d grid (2 cells, 3 faces) after a point grid: trace and divergence blocks *)
Example C27_nonvacuous_trace_divergence :
  let g0 := mkG 5 0 1 0 in let g1 := mkG 1 1 2 3 in
  let T := [mkM 0 1 []; mkM 3 2 [(0, 0, 1%Q); (2, 1, 1%Q)]] in
  let D := [mkM 1 0 []; mkM 2 3 [(0, 0, (-1)%Q); (0, 1, 1%Q); (1, 1, (-1)%Q); (1, 2, 1%Q)]] in
  Forall (diag_fit nfaces ncells 1) (combine [g0; g1] T) /\
  Forall (diag_fit ncells nfaces 1) (combine [g0; g1] D) /\
  trace_op [g0; g1] 1 T = XOk (mkM 3 3 [(0, 1, 1%Q); (2, 2, 1%Q)]) /\
  divergence_op D = Ok (mkM 3 3 [(1, 0, (-1)%Q); (1, 1, 1%Q); (2, 1, (-1)%Q); (2, 2, 1%Q)]).
Proof.
  cbv zeta. split; [|split; [|split]]; try reflexivity.
  - constructor; [|constructor; [|constructor]]; unfold diag_fit; cbn;
      repeat split; repeat constructor.
  - constructor; [|constructor; [|constructor]]; unfold diag_fit; cbn;
      repeat split; repeat constructor.
Qed.

(* a grid without boundary grid listed second: its block repeats the first grid's block *)
Example C27_nonvacuous_stale :
  let bgs := [mkB (mkG 0 1 2 3) (Some [0; 2]); mkB (mkG 7 2 2 7) None] in
  Forall bnd_in_range bgs /\
  stale_blocks (map bg_grid bgs) 1 bgs None = Some [[0; 2]; [0; 2]].
Proof.
  cbv zeta. split; [|reflexivity].
  constructor; [|constructor; [|constructor]]; intros bnd H; cbn in H; try discriminate H.
  injection H as <-. repeat constructor.
Qed.

(* the twin answer really occurs: conforming side, different flavours *)
Example C27_nonvacuous_twin_answer :
  let loc := fun k => match k with
                      | M2P_int => [mkM 16 1 [(5, 0, 1%Q)]]
                      | M2P_avg => [mkM 16 1 [(5, 0, (999999 # 1000000)%Q)]]
                      | _ => [] end in
  let mp := mp_init [mkG 0 2 4 16] [mkI 0 0 1 1 1 [1]] 1 loc in
  side_conf mp M2P_avg = true /\
  nth_error (mp_run mp [M2P_int; M2P_avg]) 1 = Some (answer mp (twin M2P_avg)) /\
  answer mp M2P_avg <> answer mp (twin M2P_avg).
Proof.
  cbv zeta. split; [reflexivity|]. split; [reflexivity|].
  vm_compute. intro H. discriminate H.
Qed.

Example C27_nonvacuous_comparison :
  mat_eqb (mkM 2 2 [(0, 1, (1 # 2)%Q); (1, 0, 1%Q); (0, 1, (1 # 2)%Q)])
          (mkM 2 2 [(1, 0, 1%Q); (0, 1, 1%Q); (1, 1, 0%Q)]) = true.
Proof. reflexivity. Qed.
