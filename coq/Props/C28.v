From Coq Require Import List QArith.
Import ListNotations.
From PP Require Import Model.C28.
Open Scope Q_scope.
Theorem C28_placeholder : seg2d tol8 (0,0) (1,1) (0,1) (1,0) = R2Pt (1#2, 1#2).
Proof. vm_compute. reflexivity. Qed.
Print Assumptions C28_placeholder.
