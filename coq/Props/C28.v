(* C28 — property theorems only.  Model: PP.Model.C28 (transcription of segments_2d and
   segments_3d over Q, tolerance tests with norms in squared form); proofs: PP.Proofs.C28,
   PP.Proofs.C28_sqrt. *)
From Coq Require Import List QArith Qabs ZArith Reals Lia.
Import ListNotations.
From PP Require Import Model.C28 Proofs.C28 Proofs.C28_sqrt Proofs.C28_3d Proofs.C28_box.
Open Scope Q_scope.

(* 2-D, full strength: for all integer endpoints with |coordinate| <= 1000 (inbox), both
   segments of non-zero length, tol = 1e-8: segments_2d does not raise and its result is
   exactly seg(a,b) ∩ seg(c,d) —
     None         iff no point lies on both segments,
     one column q iff the common points are exactly q,
     two columns  iff they are distinct and the common points are exactly seg(q1,q2). *)
Theorem C28_2d_correct :
  forall ax ay bx by_ cx cy dx dy : Z,
    inbox ax -> inbox ay -> inbox bx -> inbox by_ ->
    inbox cx -> inbox cy -> inbox dx -> inbox dy ->
    (ax, ay) <> (bx, by_) -> (cx, cy) <> (dx, dy) ->
    correct2 (zpt ax ay) (zpt bx by_) (zpt cx cy) (zpt dx dy)
             (seg2d tol8 (zpt ax ay) (zpt bx by_) (zpt cx cy) (zpt dx dy)).
Proof. exact seg2d_correct_int. Qed.
Print Assumptions C28_2d_correct.

(* 2-D, arbitrary rational endpoints and any tol >= 0: the same conclusion whenever the
   input is away from the tolerance bands, i.e. the decidable guard [separated] holds
   (each tolerance test the code evaluates answers like its exact counterpart). *)
Theorem C28_2d_correct_separated :
  forall (tol : Q) (a b c d : pt2),
    0 <= tol -> ~ peq a b -> ~ peq c d -> separated tol a b c d = true ->
    correct2 a b c d (seg2d tol a b c d).
Proof. exact seg2d_correct_separated. Qed.
Print Assumptions C28_2d_correct_separated.

(* 2-D: independence of argument order (swap the segments, reverse either segment):
   same classification and the same point set. *)
Theorem C28_2d_symmetric :
  forall ax ay bx by_ cx cy dx dy : Z,
    inbox ax -> inbox ay -> inbox bx -> inbox by_ ->
    inbox cx -> inbox cy -> inbox dx -> inbox dy ->
    (ax, ay) <> (bx, by_) -> (cx, cy) <> (dx, dy) ->
    let A := zpt ax ay in let B := zpt bx by_ in let C := zpt cx cy in let D := zpt dx dy in
    same_set (seg2d tol8 A B C D) (seg2d tol8 C D A B) /\
    same_set (seg2d tol8 A B C D) (seg2d tol8 B A C D) /\
    same_set (seg2d tol8 A B C D) (seg2d tol8 A B D C).
Proof. exact seg2d_symmetric_int. Qed.
Print Assumptions C28_2d_symmetric.

(* The squared tolerance tests of the model are the sqrt tests of the code (over R). *)
Theorem C28_squared_tests_equiv :
  (forall tol discr n1 n2 : R, (0 <= tol -> 0 <= n1 -> 0 <= n2 ->
     (Rabs discr < tol * sqrt n1 * sqrt n2 <-> discr * discr < tol * tol * (n1 * n2)))%R) /\
  (forall tol x n1 n2 : R, (0 <= tol -> 0 <= n1 -> 0 <= n2 ->
     (Rabs x < tol * Rmax (sqrt n1) (sqrt n2) <-> x * x < tol * tol * Rmax n1 n2))%R) /\
  (forall tol x n : R, (0 <= tol -> 0 <= n ->
     (Rabs x > tol * sqrt n <-> x * x > tol * tol * n))%R).
Proof.
  split; [exact parallel_test_squared|split; [exact colinear_test_squared|exact axis_test_squared]].
Qed.
Print Assumptions C28_squared_tests_equiv.

(* 3-D: the full statement is FALSE of the faithful model (= of the code, see the tie):
   (1) non-parallel lines whose projection on the axes picked from the non-zero deltas is
       degenerate are reported as not intersecting: (0,0,0)-(2,2,0) x (0,0,-1)-(2,2,1);
   (2) colinear segments sharing one point come back as two identical columns. *)
Theorem C28_3d_correct_refuted :
  (exists a b c d, ~ peq3 a b /\ ~ peq3 c d /\ seg3d tol8 a b c d = R3None /\
                   ~ correct3 a b c d (seg3d tol8 a b c d)) /\
  (exists a b c d q, ~ peq3 a b /\ ~ peq3 c d /\ seg3d tol8 a b c d = R3Cols [q; q] /\
                   ~ correct3 a b c d (seg3d tol8 a b c d)).
Proof. exact seg3d_correct_refuted. Qed.
Print Assumptions C28_3d_correct_refuted.

(* 3-D, what is proved instead (partial: soundness of a reported point only; completeness
   and the classification of overlaps are not provable, see the refutation; missing for a
   guarded full theorem: a 3-D analogue of [separated] excluding degenerate projections,
   and the correctness proof of the parallel branch):  for all rational endpoints and any
   tol > 0, if segments_3d returns a single point q then q lies on segment 1 and within
   tol (max-norm) of a point of segment 2. *)
Theorem C28_3d_point_sound_partial :
  forall tol a0 a1 a2 b0 b1 b2 c0 c1 c2 d0 d1 d2 q,
    0 < tol ->
    seg3d tol [a0; a1; a2] [b0; b1; b2] [c0; c1; c2] [d0; d1; d2] = R3Cols [q] ->
    on_seg3 q [a0; a1; a2] [b0; b1; b2] /\
    exists q', on_seg3 q' [c0; c1; c2] [d0; d1; d2] /\
               forall i, (i < 3)%nat -> Qabs (c3 q i - c3 q' i) < tol.
Proof. exact seg3d_point_sound. Qed.
Print Assumptions C28_3d_point_sound_partial.

(* 3-D, guarded correctness of the point branch (PARTIAL: the guard excludes the whole
   "parallel" branch — i.e. both open defect families AND the correctly handled truly
   parallel inputs, which are covered by C28_3d_box_partial below):  for arbitrary
   rational end points and tol > 0, when the projected-discriminant test does not fire and
   the final |z1 - z2| < tol test answers like z1 == z2 ([sep3], decidable), segments_3d
   returns exactly seg1 ∩ seg2 (None iff disjoint, one column iff that point). *)
Theorem C28_3d_point_branch_correct_partial :
  forall tol a0 a1 a2 b0 b1 b2 c0 c1 c2 d0 d1 d2,
    0 < tol ->
    sep3 tol [a0; a1; a2] [b0; b1; b2] [c0; c1; c2] [d0; d1; d2] = true ->
    correct3 [a0; a1; a2] [b0; b1; b2] [c0; c1; c2] [d0; d1; d2]
             (seg3d tol [a0; a1; a2] [b0; b1; b2] [c0; c1; c2] [d0; d1; d2]).
Proof. exact seg3d_correct_sep. Qed.
Print Assumptions C28_3d_point_branch_correct_partial.

(* the same for integer end points with |coord| <= 1000 and tol = 1e-8, where the guard
   is just: the discriminant in the projection segments_3d picks is not zero. *)
Theorem C28_3d_point_branch_correct_int_partial :
  forall ax ay az bx by_ bz cx cy cz dx dy dz : Z,
    inbox ax -> inbox ay -> inbox az -> inbox bx -> inbox by_ -> inbox bz ->
    inbox cx -> inbox cy -> inbox cz -> inbox dx -> inbox dy -> inbox dz ->
    let A := zpt3 ax ay az in let B := zpt3 bx by_ bz in
    let C := zpt3 cx cy cz in let D := zpt3 dx dy dz in
    ~ proj_discr A B C D == 0 ->
    correct3 A B C D (seg3d tol8 A B C D).
Proof. exact seg3d_correct_int. Qed.
Print Assumptions C28_3d_point_branch_correct_int_partial.

(* 3-D, the whole function on a finite domain, with a guard that excludes EXACTLY the two
   open defect families (PARTIAL: finite box; the reference [isect3_ref] is an exact
   rational intersection routine written in Coq, not the Prop-level spec):  for ALL
   integer end points in {-1,0,1}^3, segments of non-zero length, unless
     family1 — projected discriminant 0 although the lines are not parallel, or
     family2 — parallel (colinear) segments meeting in exactly one point,
   segments_3d returns the same classification and the same points as the exact
   intersection.  Proved by exhaustive vm_compute over the 27^4 quadruples. *)
Theorem C28_3d_box_partial :
  forall a b c d : t3,
    inb1 a -> inb1 b -> inb1 c -> inb1 d ->
    let A := q3 a in let B := q3 b in let C := q3 c in let D := q3 d in
    veq A B = false -> veq C D = false ->
    family1 A B C D = false -> family2 A B C D = false ->
    res3_same (seg3d tol8 A B C D) (isect3_ref A B C D) = true.
Proof. exact seg3d_box. Qed.
Print Assumptions C28_3d_box_partial.

(* 3-D, parallel lines that are not the same line (some component of (s2 - s1) x d1 beyond
   tol): for arbitrary rational end points and tol > 0 segments_3d returns None and the
   segments are indeed disjoint.  (PARTIAL: one class of the "parallel" branch; colinear
   inputs are covered by C28_3d_box_partial on the finite box only.) *)
Theorem C28_3d_parallel_offline_correct_partial :
  forall tol a0 a1 a2 b0 b1 b2 c0 c1 c2 d0 d1 d2,
    0 < tol ->
    let u0 := b0 - a0 in let u1 := b1 - a1 in let u2 := b2 - a2 in
    let w0 := d0 - c0 in let w1 := d1 - c1 in let w2 := d2 - c2 in
    u1 * w2 - u2 * w1 == 0 -> u2 * w0 - u0 * w2 == 0 -> u0 * w1 - u1 * w0 == 0 ->
    (tol < Qabs ((c1 - a1) * u2 - (c2 - a2) * u1) \/ tol < Qabs ((c2 - a2) * u0 - (c0 - a0) * u2) \/
     tol < Qabs ((c0 - a0) * u1 - (c1 - a1) * u0)) ->
    seg3d tol [a0; a1; a2] [b0; b1; b2] [c0; c1; c2] [d0; d1; d2] = R3None /\
    correct3 [a0; a1; a2] [b0; b1; b2] [c0; c1; c2] [d0; d1; d2]
             (seg3d tol [a0; a1; a2] [b0; b1; b2] [c0; c1; c2] [d0; d1; d2]).
Proof. exact seg3d_parallel_offline_correct. Qed.
Print Assumptions C28_3d_parallel_offline_correct_partial.

(* Non-vacuity: concrete instances of the hypotheses, with the results. *)
Example C28_nonvacuous_2d :
  inbox 0 /\ inbox 4 /\ (0, 0)%Z <> (4, 4)%Z /\ (0, 4)%Z <> (4, 0)%Z /\
  agree2 (R2Pt (2, 2)) (seg2d tol8 (zpt 0 0) (zpt 4 4) (zpt 0 4) (zpt 4 0)) = true /\
  agree2 (R2Seg (2, 2) (4, 4)) (seg2d tol8 (zpt 0 0) (zpt 4 4) (zpt 2 2) (zpt 6 6)) = true /\
  agree2 (R2Pt (4, 4)) (seg2d tol8 (zpt 0 0) (zpt 4 4) (zpt 4 4) (zpt 6 6)) = true /\
  seg2d tol8 (zpt 0 0) (zpt 4 4) (zpt 1 0) (zpt 5 4) = R2None.
Proof.
  unfold inbox. repeat split; try lia; try discriminate; vm_compute; reflexivity.
Qed.

Example C28_nonvacuous_separated :
  separated tol8 (1 # 2, 0) (3 # 2, 1) (0, 1 # 3) (2, 1 # 3) = true /\
  ~ peq (1 # 2, 0) (3 # 2, 1) /\ ~ peq (0, 1 # 3) (2, 1 # 3) /\
  agree2 (R2Pt (5 # 6, 1 # 3)) (seg2d tol8 (1 # 2, 0) (3 # 2, 1) (0, 1 # 3) (2, 1 # 3)) = true.
Proof.
  split; [vm_compute; reflexivity|]. split; [|split].
  - intros [E _]. vm_compute in E. discriminate.
  - intros [E _]. vm_compute in E. discriminate.
  - vm_compute. reflexivity.
Qed.

Example C28_nonvacuous_3d :
  seg3d tol8 [1; 0; 1] [1; 1; -1] [0; 0; 1] [4; 3; -5] = R3Cols [[4 # 4; 3 # 4; -2 # 4]].
Proof. exact seg3d_point_example. Qed.

Example C28_nonvacuous_3d_guard :
  sep3 tol8 [1; 0; 1] [1; 1; -1] [0; 0; 1] [4; 3; -5] = true /\
  ~ proj_discr (zpt3 1 0 1) (zpt3 1 1 (-1)) (zpt3 0 0 1) (zpt3 4 3 (-5)) == 0 /\
  inbox (-5) /\ inbox 4.
Proof.
  split; [vm_compute; reflexivity|]. split; [|unfold inbox; lia].
  intro H. vm_compute in H. discriminate.
Qed.

Example C28_nonvacuous_3d_box :
  let a := (-1, -1, -1)%Z in let b := (1, 1, 1)%Z in let c := (0, 0, 0)%Z in let d := (1, 1, 1)%Z in
  inb1 a /\ inb1 b /\ inb1 c /\ inb1 d /\
  veq (q3 a) (q3 b) = false /\ veq (q3 c) (q3 d) = false /\
  family1 (q3 a) (q3 b) (q3 c) (q3 d) = false /\ family2 (q3 a) (q3 b) (q3 c) (q3 d) = false /\
  seg3d tol8 (q3 a) (q3 b) (q3 c) (q3 d) = R3Cols [[0; 0; 0]; [1; 1; 1]] /\
  (* and the two families are inhabited inside the box *)
  family1 (q3 (0, 0, 0)%Z) (q3 (1, 1, 0)%Z) (q3 (0, 0, -1)%Z) (q3 (1, 1, 1)%Z) = true /\
  family2 (q3 (-1, -1, -1)%Z) (q3 (0, 0, 0)%Z) (q3 (0, 0, 0)%Z) (q3 (1, 1, 1)%Z) = true.
Proof.
  cbv zeta. unfold inb1. repeat split; try lia; vm_compute; reflexivity.
Qed.

Example C28_nonvacuous_3d_parallel :
  (* (0,0,0)-(1,2,3) and (0,1,0)-(2,5,6): parallel, not the same line *)
  (2 * 6 - 3 * 4 == 0 /\ 3 * 2 - 1 * 6 == 0 /\ 1 * 4 - 2 * 2 == 0) /\
  tol8 < Qabs ((1 - 0) * 3 - (0 - 0) * 2) /\
  seg3d tol8 [0; 0; 0] [1; 2; 3] [0; 1; 0] [2; 5; 6] = R3None.
Proof. repeat split; vm_compute; reflexivity. Qed.
