(* C25 — property theorems only.  Model: PP.Model.C25 (Part A: incidence model of
   split_grid.split_faces = duplicate_faces + _update_face_cells + update_cell_connectivity;
   Part B: the conformity certificate evaluated on the real md-grid); proofs: PP.Proofs.C25.

   Incidences are (face, cell, sign) triples; face geometry is (centre, normal, area);
   [relabel nf0 d left cf] is the cell_faces map produced by the "split" branch of
   update_cell_connectivity (C25_split_step_is_relabel), d = the duplicated faces, the copy
   of d[k] has number nf0 + k, [left c] = the half-space side test of cell c. *)
From Coq Require Import List QArith ZArith.
Import ListNotations.
From PP Require Import Model.C29 Model.C25 Proofs.C25.
Open Scope Q_scope.

(* The split branch of update_cell_connectivity changes nothing but cell_faces, and the
   new cell_faces is [relabel]. *)
Theorem C25_split_step_is_relabel :
  forall g nf0 d left g2,
    update_cell_connectivity g nf0 d left = inr (g2, Split) ->
    g_cf g2 = relabel nf0 d left (g_cf g) /\ g_geom g2 = g_geom g /\ g_nf g2 = g_nf g /\
    g_tF g2 = g_tF g /\ g_tT g2 = g_tT g /\ g_tB g2 = g_tB g.
Proof. exact ucc_split. Qed.
Print Assumptions C25_split_step_is_relabel.

(* Each duplicated pair has identical face geometry (centre, normal, area): the copy of
   d[k] is face nf + k and carries the geometry of d[k]; no old face changes; the number of
   faces grows by |d|; cell_faces is not touched by the duplication. *)
Theorem C25_split_pair_geometry :
  forall g fc g1 d k f,
    duplicate_faces g fc = (g1, d) -> length (g_geom g) = g_nf g ->
    nth_error d k = Some f ->
    nth (g_nf g + k) (g_geom g1) gdef = nth f (g_geom g) gdef /\
    (forall f', (f' < g_nf g)%nat -> nth f' (g_geom g1) gdef = nth f' (g_geom g) gdef) /\
    g_nf g1 = (g_nf g + length d)%nat /\ g_cf g1 = g_cf g.
Proof. exact dup_geometry. Qed.
Print Assumptions C25_split_pair_geometry.

(* After the split, the face d[k] = f and its copy nf0 + k each keep neighbours of one
   side only (f: not-left cells, copy: left cells), with the signs the undivided face had;
   on a well-formed grid (two different neighbours of a face carry opposite signs) the
   signs are opposite, so with the identical normal (previous theorem) the outward normals
   sign * n of the two faces of the pair are opposite. *)
Theorem C25_split_pair_opposite :
  forall nf0 d left cf k f c s c' s',
    (forall t, In t cf -> (tface t < nf0)%nat) ->
    (forall f c s c' s', In (f, c, s) cf -> In (f, c', s') cf -> c <> c' -> (s + s' = 0)%Z) ->
    nth_error d k = Some f -> NoDup d -> In f d ->
    In (f, c, s) (relabel nf0 d left cf) ->
    In ((nf0 + k)%nat, c', s') (relabel nf0 d left cf) ->
    left c = false /\ left c' = true /\ In (f, c, s) cf /\ In (f, c', s') cf /\ (s + s' = 0)%Z.
Proof. exact split_pair_opposite. Qed.
Print Assumptions C25_split_pair_opposite.

(* Every cell keeps exactly its faces' geometry and signs (in the same order), for any
   side predicate: whatever is computed per cell from face geometry and signs — volume
   (divergence theorem), centre — is unchanged by the split; in particular the host volume. *)
Theorem C25_cells_unchanged :
  forall nf0 d left geom0 cf c,
    length geom0 = nf0 ->
    (forall t, In t cf -> (tface t < nf0)%nat) ->
    let geom1 := geom0 ++ map (fun f => nth f geom0 gdef) d in
    map (fun t => (nth (tface t) geom1 gdef, tsign t))
        (filter (fun t => (tcell t =? c)%nat) (relabel nf0 d left cf)) =
    map (fun t => (nth (tface t) geom0 gdef, tsign t))
        (filter (fun t => (tcell t =? c)%nat) cf).
Proof. exact relabel_cells. Qed.
Print Assumptions C25_cells_unchanged.

(* The face-cell map after the split couples a lower-dimensional cell to f', iff it was
   coupled to f' before or f' is the copy of a face it was coupled to: each cell of a
   duplicated face is coupled to the face and to its copy — one face per side by
   C25_split_pair_opposite — and to nothing else. *)
Theorem C25_face_cells_both_sides :
  forall nf0 d fc c f',
    In (c, f') (extend_fmap nf0 d fc) <->
    In (c, f') fc \/ exists k f, f' = (nf0 + k)%nat /\ nth_error d k = Some f /\ In (c, f) fc.
Proof. exact extend_fmap_spec. Qed.
Print Assumptions C25_face_cells_both_sides.

(* The incidences move as follows (completeness of the description used above). *)
Theorem C25_relabel_incidences :
  forall nf0 d left cf f' c s,
    (forall t, In t cf -> (tface t < nf0)%nat) ->
    In (f', c, s) (relabel nf0 d left cf) ->
    ((f' < nf0)%nat /\ In (f', c, s) cf /\ (In f' d -> left c = false)) \/
    (exists k f, f' = (nf0 + k)%nat /\ nth_error d k = Some f /\ In (f, c, s) cf /\ left c = true).
Proof. exact relabel_backward. Qed.
Print Assumptions C25_relabel_incidences.

(* Certificate soundness (tie K): if the boolean checker accepts the data extracted from a
   real md-grid, then — within the relative tolerance 1e-9 — for every interface each
   lower-dimensional cell is coupled to exactly one host face per side (1 or 2 sides), these
   faces coincide with the cell in centre and measure, belong to exactly one host cell
   (are split), are tagged as fracture faces, and when there are two they are different
   faces with opposite outward normals; every mortar cell matches one lower cell and one
   of the faces coupled to it with unit weights, same centre and measure, and there are
   sides x cells mortar cells; the points of the fracture grids satisfy their fracture's
   line/plane equation; per host grid the fracture-face tags are exactly the coupled faces;
   the host volume equals the domain volume. *)
Theorem C25_certificate_sound :
  forall d, conform d = true -> Conforming d.
Proof. exact conform_sound. Qed.
Print Assumptions C25_certificate_sound.

(* The md-grid against what was REQUESTED: acceptance of the extended certificate also
   gives that every fracture grid (in 3-D with two rectangles also the intersection-line
   grids together) has the measure of the requested fracture, the host grid spans exactly
   the requested domain box on every axis, and there is one fracture grid per requested
   fracture (all within 1e-9). *)
Theorem C25_certificate_request_sound :
  forall d r, conform_req d r = true -> Conforming d /\ RequestConf r.
Proof. exact conform_req_sound. Qed.
Print Assumptions C25_certificate_request_sound.

Example C25_nonvacuous_request :
  request_ok (mkREQ [([1 # 2; 1 # 2; 1], 2)] [(0, 4); (-1, 3)] [(0, 4); (-1, 3)] 1 1) = true /\
  request_ok (mkREQ [([1 # 2; 1 # 2], 2)] [(0, 4); (-1, 3)] [(0, 4); (-1, 3)] 1 1) = false /\
  request_ok (mkREQ [] [(0, 3)] [(1, 3)] 0 0) = false.
Proof. vm_compute. repeat split; reflexivity. Qed.

(* Third round: acceptance of the certificate with extents also gives that every fracture
   grid spans, on every axis, exactly the extent of the fracture it discretises (for
   structured grids: the requested fracture snapped to the nearest grid planes, computed
   exactly by the harness), within 1e-9. *)
Theorem C25_certificate_extents_sound :
  forall d r ext, conform_req2 d r ext = true ->
  Conforming d /\ RequestConf r /\ ExtentsConf ext.
Proof. exact conform_req2_sound. Qed.
Print Assumptions C25_certificate_extents_sound.

Example C25_nonvacuous_extents :
  qsum_r [1 # 3; 1 # 6; 1 # 2] = 1 /\
  extents_ok [([(29 # 100, 29 # 100); (0, 1)], [(29 # 100, 29 # 100); (0, 1)])] = true /\
  extents_ok [([(28 # 100, 28 # 100); (0, 1)], [(29 # 100, 29 # 100); (0, 1)])] = false.
Proof. vm_compute. repeat split; reflexivity. Qed.

(* The certificate the tie evaluates ([conform_req3]: sums normalised after every addition,
   for speed) is the same boolean as [conform_req2], hence sound in the same sense. *)
Theorem C25_certificate_fast_sound :
  forall d r ext, conform_req3 d r ext = true ->
  Conforming d /\ RequestConf r /\ ExtentsConf ext.
Proof. exact conform_req3_sound. Qed.
Print Assumptions C25_certificate_fast_sound.

(* Coupling completeness: acceptance also gives that, for every pair (grid of dimension d,
   grid of dimension d-1), the faces of the first whose centre coincides with a cell centre of
   the second are exactly the faces coupled by an interface between the two (in particular a
   missing interface at a T- or L-ending is rejected). *)
Theorem C25_certificate_coupling_complete :
  forall d r ext inc, conform_req4 d r ext inc = true ->
  Conforming d /\ RequestConf r /\ ExtentsConf ext /\ IncidenceConf inc.
Proof. exact conform_req4_sound. Qed.
Print Assumptions C25_certificate_coupling_complete.

Example C25_nonvacuous_coupling :
  incidence_ok [([1; 3]%nat, [3; 1]%nat); ([2]%nat, [2]%nat)] = true /\
  incidence_ok [([1; 3]%nat, [3; 1]%nat); ([2]%nat, [])] = false.
Proof. vm_compute. split; reflexivity. Qed.

(* Non-vacuity: a host of two cells [0,1], [1,2] with faces at 0, 1, 2; the lower cell 0
   sits on face 1.  The split gives face 3 = copy of 1 attached to the left cell 0, face 1
   keeps the right cell 1, frac_pairs (1,3), face-cell map {(0,1),(0,3)}; and a matching
   certificate is accepted. *)
Definition ex_grid : grid :=
  mkGrid 3 [(0%nat, 0%nat, (-1)%Z); (1%nat, 0%nat, 1%Z); (1%nat, 1%nat, (-1)%Z); (2%nat, 1%nat, 1%Z)]
         [([0], [1], 1); ([1], [1], 1); ([2], [1], 1)]
         [false; false; false] [false; false; false] [true; false; true] [].

Example C25_nonvacuous_split :
  match split_faces [[1 # 2]; [3 # 2]] ex_grid [[(0, 1)]]%nat with
  | inr (g, fcs) =>
      g_nf g = 4%nat /\ g_cf g = [(0%nat, 0%nat, (-1)%Z); (3%nat, 0%nat, 1%Z); (1%nat, 1%nat, (-1)%Z); (2%nat, 1%nat, 1%Z)] /\
      g_pairs g = [(1, 3)]%nat /\ fcs = [[(0, 1); (0, 3)]]%nat /\
      g_tF g = [false; true; false; true] /\ nth 3 (g_geom g) gdef = ([1], [1], 1)
  | inl _ => False
  end.
Proof. vm_compute. repeat split; reflexivity. Qed.

Example C25_nonvacuous_certificate :
  conform (mkMDG
    [mkIF 2 [mkLC [1] 1 [mkHF 1 [1] 1 [-1] 1 true; mkHF 3 [1] 1 [1] 1 true]]
          [mkMC [1] 1 [(0%nat, 1)] [(1%nat, 1)]; mkMC [1] 1 [(0%nat, 1)] [(3%nat, 1)]]
          NoFrac []]
    [([1; 3]%nat, [1; 3]%nat)] [1; 1] 2) = true.
Proof. vm_compute. reflexivity. Qed.
