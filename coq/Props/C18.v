(* C18 — mixed finite elements reproduce linear pressures exactly; SPD mass matrices:
   property theorems only.  METHOD-LEVEL theorems (DESIGN.md §1.1 P-method) over exact
   rationals; they say nothing about rt0.py / mvem.py / dual_elliptic.py by themselves.  The
   harness evaluates the checkers of PP.Model.C18 (check) on the real assembled system, its
   right-hand sides and the real mass matrix of every generated instance (certificate tie);
   C18_certificate_sound connects that boolean to the theorems.

   1-D: an executable model of RT0 on an interval partition (PP.Model.C18, part D) with the
   exactness theorem C18_1d_exact; the model is compared with the real pp.RT0 system on every
   generated x-aligned 1-D grid (agree_1d). *)
From Coq Require Import List ZArith QArith Qabs Bool Arith Lia.
Import ListNotations.
From PP Require Import Lib.RowLin Lib.SumF Lib.RowInv Model.C18 Proofs.C18.
Local Open Scope Q_scope.

(* Positive definiteness from the exact elimination certificate: if spd_chk n M accepts
   (M is n x n; at every stage of symmetric Gaussian elimination the pivot is > 0 and the
   first column equals the first row; the stages are the Schur complements, i.e. the
   L D L^T factorisation with D > 0 computed inside Coq), then x^T M x > 0 for EVERY
   non-zero vector x of length n. *)
Theorem C18_spd_certificate :
  forall (n : nat) (M : mat) (x : list Q),
    spd_chk n M = true -> length x = n -> ~ allzero x -> 0 < quad M x.
Proof. exact spd_certificate. Qed.
Print Assumptions C18_spd_certificate.

(* The quadratic form of a square matrix is the quadratic form of its symmetric part
   (M + M^T)/2, so the certificate run on the exactly computed symmetric part is about the
   real (only nearly symmetric, floating point) mass matrix M itself. *)
Theorem C18_quad_sympart :
  forall (n : nat) (M : mat) (x : list Q),
    wf n M -> length x = n -> quad (sympart n M) x == quad M x.
Proof. exact quad_sympart. Qed.
Print Assumptions C18_quad_sympart.

Theorem C18_mass_spd :
  forall (tol : Q) (n : nat) (M : mat) (x : list Q),
    mass_ok tol n M = true -> length x = n -> ~ allzero x -> 0 < quad M x.
Proof. exact mass_spd. Qed.
Print Assumptions C18_mass_spd.

(* Gram matrices.  The identity x^T (B^T W B) x = (B x)^T W (B x) for list matrices
   (B : m x n, W : m x m, gram_mat n m W B the matrix B^T W B computed entry by entry) ... *)
Theorem C18_gram_identity :
  forall (n m : nat) (W B : mat) (x : list Q),
    wf m W -> wfr m n B -> length x = n ->
    quad (gram_mat n m W B) x == quad W (mulmv B x).
Proof. exact gram_identity. Qed.
Print Assumptions C18_gram_identity.

(* ... hence B^T W B is positive definite whenever W is and B is injective. *)
Theorem C18_gram_spd :
  forall (n m : nat) (W B : mat) (x : list Q),
    wf m W -> wfr m n B ->
    (forall y, length y = m -> ~ allzero y -> 0 < quad W y) ->
    (allzero (mulmv B x) -> allzero x) ->
    length x = n -> ~ allzero x -> 0 < quad (gram_mat n m W B) x.
Proof. exact gram_spd_full. Qed.
Print Assumptions C18_gram_spd.

(* The factorisation of the REAL local RT0 mass matrices, captured from RT0.massHdiv per cell
   (A_loc = C^T N^T HB inv_K_exp N C, so B = N C, W = HB inv_K_exp): if check accepts, then for
   every captured local matrix L the factors have the right shapes, W is positive definite,
   B^T B is positive definite (B injective), the exact Gram matrix B^T W B is therefore
   positive definite, and (local_ok) the float matrix A_loc agrees with it entrywise within the
   tolerance. *)
Theorem C18_local_factorisation_sound :
  forall (tol : Q) (I : inst) (L : local) (x : list Q),
    check tol I = true -> In L (i_locals I) -> length x = l_n L -> ~ allzero x ->
    0 < quad (gram_mat (l_n L) (l_m L) (l_W L) (l_B L)) x
    /\ mat_close tol (l_n L) (l_A L) (gram_mat (l_n L) (l_m L) (l_W L) (l_B L)) = true.
Proof.
  intros tol I L x H HL Hx Hnz. pose proof (check_locals tol I L H HL) as HLok. split.
  - exact (local_sound tol L x HLok Hx Hnz).
  - unfold local_ok in HLok. apply andb_prop in HLok. destruct HLok as [_ HLok]. exact HLok.
Qed.
Print Assumptions C18_local_factorisation_sound.

(* Exactness from consistency, flux equation of one face f with incident cells fcs = (c, s_cf):
   if the mass matrix applied to the interpolant of the exact (constant) flux gives
   Mu = sum_c s_cf (P(x_c) - P(x_f))  (the mass matrix integrates products with constants
   exactly; checked per instance by consist_ok) and the right-hand side is
   rhs = -(sum_c s_cf) P(x_f)  (0 on interior faces, -s_f P(x_f) on Dirichlet faces), then the
   candidate cell pressures p_c = P(x_c) satisfy  (M u)_f - sum_c s_cf p_c = rhs_f. *)
Theorem C18_exact_if_consistent :
  forall (fcs : list (nat * Q)) (Pc : nat -> Q) (Pf Mu rhs : Q),
    Mu == isum fcs (fun c => Pc c - Pf) ->
    rhs == - (isum fcs (fun _ => 1)) * Pf ->
    Mu - isum fcs Pc - rhs == 0.
Proof. exact exact_if_consistent. Qed.
Print Assumptions C18_exact_if_consistent.

(* Residual certificate + linearity: a row of the assembled system [A | -b_x -b_y -b_z -b_1]
   that vanishes on the exact candidates of the four basis pressures vanishes on the exact
   candidate of EVERY linear pressure p = a.x + c0 ... *)
Theorem C18_linear_pressures :
  forall (I : inst) (r : row) (theta : list Q),
    length theta = 4%nat ->
    (forall m, (m < 4)%nat -> rdot r (basis I m) == 0) ->
    rdot r (xstate I theta) == 0.
Proof. exact linear_pressures. Qed.
Print Assumptions C18_linear_pressures.

(* ... where the candidate is: face flux u_f = -(K a).n_f (interpolated constant flux),
   cell pressure p_c = a.x_c + c0 (centroid value), and the right-hand side columns carry
   a_0, a_1, a_2, c0. *)
Theorem C18_candidate_form :
  forall (I : inst) (a0 a1 a2 c0 : Q) (j : nat),
    xstate I [a0; a1; a2; c0] j ==
      if (j <? i_nf I)%nat then a0 * ustar I 0 j + a1 * ustar I 1 j + a2 * ustar I 2 j
      else if (j <? i_nf I + i_nc I)%nat then
        a0 * coord (i_cc I) (j - i_nf I) 0 + a1 * coord (i_cc I) (j - i_nf I) 1
        + a2 * coord (i_cc I) (j - i_nf I) 2 + c0
      else if (j =? i_nf I + i_nc I + 0)%nat then a0
      else if (j =? i_nf I + i_nc I + 1)%nat then a1
      else if (j =? i_nf I + i_nc I + 2)%nat then a2
      else if (j =? i_nf I + i_nc I + 3)%nat then c0 else 0.
Proof. exact candidate_form. Qed.
Print Assumptions C18_candidate_form.

(* The candidate is THE discrete solution when the saddle-point matrix has a trivial kernel
   (hypothesis; the oracle observes it by solving). *)
Theorem C18_unique_solution :
  forall (I : inst) (theta : list Q) (x : vec),
    length theta = 4%nat ->
    (forall r, In r (i_rows I) -> rdot r (xstate I theta) == 0) ->
    (forall v : vec, (forall j, (i_nf I + i_nc I <= j)%nat -> v j == 0) ->
                     (forall r, In r (i_rows I) -> rdot r v == 0) ->
                     forall j, (j < i_nf I + i_nc I)%nat -> v j == 0) ->
    (forall j, (i_nf I + i_nc I <= j)%nat -> x j == xstate I theta j) ->
    (forall r, In r (i_rows I) -> rdot r x == 0) ->
    forall j, (j < i_nf I + i_nc I)%nat -> x j == xstate I theta j.
Proof. exact c18_unique_solution. Qed.
Print Assumptions C18_unique_solution.

(* Soundness of the checker the tie evaluates: if check tol I = true then (1) the real mass
   matrix is positive definite (x^T M x > 0 for all non-zero x), and (2)
   for EVERY linear pressure the residual of its exact candidate in every row of the real
   assembled system is at most  sum_m |theta_m| * tol * (1 + sum|terms of row . basis_m|). *)
Theorem C18_certificate_sound :
  forall (tol : Q) (I : inst),
    check tol I = true ->
    (forall x, length x = i_nf I -> ~ allzero x -> 0 < quad (i_mass I) x)
    /\ (forall r theta, In r (i_rows I) -> length theta = 4%nat ->
          Qabs (rdot r (xstate I theta)) <= res_bound tol I r theta).
Proof. exact certificate_sound. Qed.
Print Assumptions C18_certificate_sound.

(* 1-D, full exactness on the executable model of RT0 on an interval partition: for EVERY
   node list xs with at least one cell, every k <> 0 and every linear pressure p = a x + c0, the
   candidate (flux -k a on every face, p at every cell mid-point) satisfies every one of the
   2n+1 equations of the assembled system with Dirichlet data p(x_0), p(x_n) ... *)
Theorem C18_1d_exact :
  forall (xs : list Q) (k a c0 : Q) (i : nat),
    ~ k == 0 -> (1 <= ncell xs)%nat -> (i < S (ncell xs) + ncell xs)%nat ->
    rdot (rt0_row xs k i) (rt0_cand xs k a c0)
    == rt0_rhs xs (a * xn xs 0 + c0) (a * xn xs (ncell xs) + c0) i.
Proof. exact rt0_1d_exact. Qed.
Print Assumptions C18_1d_exact.

(* ... and it is the ONLY solution (x_n <> x_0, e.g. increasing nodes): any vector satisfying
   the 2n+1 equations has flux -k a on every face and the mid-point pressure in every cell.
   Together: on every interval partition the 1-D RT0 model returns the exact constant flux and
   the exact cell-centre pressures of every linear pressure. *)
Theorem C18_1d_unique :
  forall (xs : list Q) (k a c0 : Q) (x : vec),
    ~ k == 0 -> (1 <= ncell xs)%nat -> ~ xn xs (ncell xs) == xn xs 0 ->
    (forall i, (i < S (ncell xs) + ncell xs)%nat ->
       rdot (rt0_row xs k i) x == rt0_rhs xs (a * xn xs 0 + c0) (a * xn xs (ncell xs) + c0) i) ->
    forall j, (j < S (ncell xs) + ncell xs)%nat -> x j == rt0_cand xs k a c0 j.
Proof. exact rt0_1d_unique. Qed.
Print Assumptions C18_1d_unique.

(* Non-singularity per instance: a left-inverse certificate N * A = d * I (d <> 0), verified
   exactly by inv_ok on the real assembled matrix, discharges the trivial-kernel hypothesis of
   C18_unique_solution for that instance. *)
Theorem C18_nonsingular_certificate :
  forall (tol : Q) (I : inst) (N : mat) (d : Q),
    check tol I = true -> i_inv I = Some (N, d) ->
    forall v : vec, (forall j, (i_nf I + i_nc I <= j)%nat -> v j == 0) ->
                    (forall r, In r (i_rows I) -> rdot r v == 0) ->
                    forall j, (j < i_nf I + i_nc I)%nat -> v j == 0.
Proof.
  intros tol I N d H E. exact (nonsingular_certificate I N d (check_inv tol I N d H E)).
Qed.
Print Assumptions C18_nonsingular_certificate.

(* Non-vacuity: the checker accepts a positive definite matrix, rejects an indefinite and a
   non-symmetric one, and the real RT0 system of a 2-cell 1-D grid passes every certificate
   (so its mass matrix is positive definite on, e.g., x = (1, -1, 2)). *)
Example C18_nonvacuous :
  spd_chk 2 [[2; 1]; [1; 2]] = true /\ 0 < quad [[2; 1]; [1; 2]] [1; -(1)] /\
  spd_chk 2 [[1; 2]; [2; 1]] = false /\ spd_chk 2 [[2; 1]; [0; 2]] = false /\
  check (1 # 1000000000) ex_inst = true /\
  0 < quad (i_mass ex_inst) [1; -(1); 2] /\
  length (i_rows ex_inst) = 5%nat /\ i_xs ex_inst = [0; 1; 3] /\ i_inv ex_inst <> None.
Proof.
  split; [vm_compute; reflexivity|].
  split; [apply (spd_certificate 2); [vm_compute; reflexivity | reflexivity |
           intros H; inversion H as [|? ? H1 H2]; subst; vm_compute in H1; discriminate]|].
  split; [vm_compute; reflexivity|]. split; [vm_compute; reflexivity|].
  split; [exact ex_inst_check|].
  split; [|split; [vm_compute; reflexivity|split; [vm_compute; reflexivity|vm_compute; discriminate]]].
  apply (proj1 (certificate_sound _ _ ex_inst_check)); [reflexivity|].
  intros H; inversion H as [|? ? H1 H2]; subst; vm_compute in H1; discriminate.
Qed.

(* Non-vacuity of the 1-D theorem: nodes 0, 1, 3, k = 2, p = x + 1: the five equations, and
   what the candidate is. *)
Example C18_nonvacuous_1d :
  (forall i, (i < 5)%nat ->
     rdot (rt0_row [0; 1; 3] 2 i) (rt0_cand [0; 1; 3] 2 1 1) == rt0_rhs [0; 1; 3] 1 4 i) /\
  rt0_cand [0; 1; 3] 2 1 1 0%nat == -(2) /\ rt0_cand [0; 1; 3] 2 1 1 4%nat == 3 /\
  rt0_rhs [0; 1; 3] 1 4 0 == 1 /\ rt0_rhs [0; 1; 3] 1 4 2 == -(4) /\
  ~ xn [0; 1; 3] (ncell [0; 1; 3]) == xn [0; 1; 3] 0 /\ ncell [0; 1; 3] = 2%nat.
Proof.
  split; [|repeat split; try (vm_compute; reflexivity); intros E; vm_compute in E; discriminate].
  intros i Hi.
  rewrite (rt0_1d_exact [0; 1; 3] 2 1 1 i); [|intros E; vm_compute in E; discriminate|cbn; lia|cbn; lia].
  unfold rt0_rhs. destruct (i =? 0)%nat; [vm_compute; reflexivity|].
  destruct (Nat.eqb i (ncell [0; 1; 3])); vm_compute; reflexivity.
Qed.

(* Non-vacuity of the Gram theorems: W = [[2,1],[1,2]], B = [[1,0],[1,1],...] (3 x 2 needs a 3 x 3 W):
   here B : 2 x 2 injective; B^T W B = [[6,3],[3,2]]; and the concrete instance carries two
   captured local matrices (1-D cells: n = 2 faces, m = 2). *)
Example C18_nonvacuous_gram :
  let W := [[2; 1]; [1; 2]] in let B := [[1; 0]; [1; 1]] in
  gram_mat 2 2 W B = [[6; 3]; [3; 2]] /\
  quad (gram_mat 2 2 W B) [1; -(1)] == quad W (mulmv B [1; -(1)]) /\
  spd_chk 2 (gram_mat 2 2 (idmat 2) B) = true /\
  length (i_locals ex_inst) = 2%nat /\
  forallb (local_ok (1 # 1000000000)) (i_locals ex_inst) = true.
Proof. repeat split; vm_compute; reflexivity. Qed.

(* Non-vacuity of the flux-equation theorem: an interior face between cells 0 and 1 with
   P(x_0) = 1, P(x_1) = 4, P(x_f) = 2 (rhs 0), and a boundary face (rhs = -s P(x_f)). *)
Example C18_nonvacuous_flux_equation :
  let Pc := fun c => match c with 0%nat => 1 | _ => 4 end in
  (-(3)) - isum [(0%nat, 1); (1%nat, -(1))] Pc - 0 == 0 /\
  (1 - 2) - isum [(0%nat, 1)] Pc - (-(2)) == 0.
Proof. split; vm_compute; reflexivity. Qed.
