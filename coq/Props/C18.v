(* C18 — mixed finite elements reproduce linear pressures exactly; SPD mass matrices:
   property theorems only.  METHOD-LEVEL theorems (DESIGN.md §1.1 P-method) over exact
   rationals; they say nothing about rt0.py / mvem.py / dual_elliptic.py by themselves.  The
   harness evaluates the checkers of PP.Model.C18 (check) on the real assembled system, its
   right-hand sides and the real mass matrix of every generated instance (certificate tie);
   C18_certificate_sound connects that boolean to the theorems.

   NOT built: the planned executable 1-D RT0 model with a full exactness theorem
   (C18_1d_exact); 1-D grids go through the same certificates as 2-D/3-D. *)
From Coq Require Import List ZArith QArith Qabs Bool Arith Lia.
Import ListNotations.
From PP Require Import Lib.RowLin Model.C18 Proofs.C18.
Local Open Scope Q_scope.

(* Positive definiteness from the exact elimination certificate: if spd_chk n M accepts
   (M is n x n; at every stage of symmetric Gaussian elimination the pivot is > 0 and the
   first column equals the first row; the stages are the Schur complements, i.e. the
   L D L^T factorisation with D > 0 computed inside Coq), then x^T M x > 0 for EVERY
   non-zero vector x of length n. *)
Theorem C18_spd_certificate :
  forall (n : nat) (M : mat) (x : list Q),
    spd_chk n M = true -> length x = n -> ~ allzero x -> 0 < quad M x.
Proof. exact spd_certificate. Qed.
Print Assumptions C18_spd_certificate.

(* Gram matrices: if W is positive definite and B is injective then the quadratic form of
   B^T W B, written (B x)^T W (B x), is positive on non-zero x.
   PARTIAL: the identity x^T (B^T W B) x = (B x)^T W (B x) for list matrices is not proved and
   the factorisation of the real local mass matrices as B^T W B is not checked by the tie. *)
Theorem C18_gram_spd_partial :
  forall (W B : mat) (x : list Q),
    (forall y, length y = length B -> ~ allzero y -> 0 < quad W y) ->
    (allzero (mulmv B x) -> allzero x) ->
    ~ allzero x -> 0 < gram_quad W B x.
Proof. exact gram_spd. Qed.
Print Assumptions C18_gram_spd_partial.

(* Exactness from consistency, flux equation of one face f with incident cells fcs = (c, s_cf):
   if the mass matrix applied to the interpolant of the exact (constant) flux gives
   Mu = sum_c s_cf (P(x_c) - P(x_f))  (the mass matrix integrates products with constants
   exactly; checked per instance by consist_ok) and the right-hand side is
   rhs = -(sum_c s_cf) P(x_f)  (0 on interior faces, -s_f P(x_f) on Dirichlet faces), then the
   candidate cell pressures p_c = P(x_c) satisfy  (M u)_f - sum_c s_cf p_c = rhs_f. *)
Theorem C18_exact_if_consistent :
  forall (fcs : list (nat * Q)) (Pc : nat -> Q) (Pf Mu rhs : Q),
    Mu == isum fcs (fun c => Pc c - Pf) ->
    rhs == - (isum fcs (fun _ => 1)) * Pf ->
    Mu - isum fcs Pc - rhs == 0.
Proof. exact exact_if_consistent. Qed.
Print Assumptions C18_exact_if_consistent.

(* Residual certificate + linearity: a row of the assembled system [A | -b_x -b_y -b_z -b_1]
   that vanishes on the exact candidates of the four basis pressures vanishes on the exact
   candidate of EVERY linear pressure p = a.x + c0 ... *)
Theorem C18_linear_pressures :
  forall (I : inst) (r : row) (theta : list Q),
    length theta = 4%nat ->
    (forall m, (m < 4)%nat -> rdot r (basis I m) == 0) ->
    rdot r (xstate I theta) == 0.
Proof. exact linear_pressures. Qed.
Print Assumptions C18_linear_pressures.

(* ... where the candidate is: face flux u_f = -(K a).n_f (interpolated constant flux),
   cell pressure p_c = a.x_c + c0 (centroid value), and the right-hand side columns carry
   a_0, a_1, a_2, c0. *)
Theorem C18_candidate_form :
  forall (I : inst) (a0 a1 a2 c0 : Q) (j : nat),
    xstate I [a0; a1; a2; c0] j ==
      if (j <? i_nf I)%nat then a0 * ustar I 0 j + a1 * ustar I 1 j + a2 * ustar I 2 j
      else if (j <? i_nf I + i_nc I)%nat then
        a0 * coord (i_cc I) (j - i_nf I) 0 + a1 * coord (i_cc I) (j - i_nf I) 1
        + a2 * coord (i_cc I) (j - i_nf I) 2 + c0
      else if (j =? i_nf I + i_nc I + 0)%nat then a0
      else if (j =? i_nf I + i_nc I + 1)%nat then a1
      else if (j =? i_nf I + i_nc I + 2)%nat then a2
      else if (j =? i_nf I + i_nc I + 3)%nat then c0 else 0.
Proof. exact candidate_form. Qed.
Print Assumptions C18_candidate_form.

(* The candidate is THE discrete solution when the saddle-point matrix has a trivial kernel
   (hypothesis; the oracle observes it by solving). *)
Theorem C18_unique_solution :
  forall (I : inst) (theta : list Q) (x : vec),
    length theta = 4%nat ->
    (forall r, In r (i_rows I) -> rdot r (xstate I theta) == 0) ->
    (forall v : vec, (forall j, (i_nf I + i_nc I <= j)%nat -> v j == 0) ->
                     (forall r, In r (i_rows I) -> rdot r v == 0) ->
                     forall j, (j < i_nf I + i_nc I)%nat -> v j == 0) ->
    (forall j, (i_nf I + i_nc I <= j)%nat -> x j == xstate I theta j) ->
    (forall r, In r (i_rows I) -> rdot r x == 0) ->
    forall j, (j < i_nf I + i_nc I)%nat -> x j == xstate I theta j.
Proof. exact c18_unique_solution. Qed.
Print Assumptions C18_unique_solution.

(* Soundness of the checker the tie evaluates: if check tol I = true then (1) the exactly
   computed symmetric part of the mass matrix is positive definite (all non-zero x), and (2)
   for EVERY linear pressure the residual of its exact candidate in every row of the real
   assembled system is at most  sum_m |theta_m| * tol * (1 + sum|terms of row . basis_m|). *)
Theorem C18_certificate_sound :
  forall (tol : Q) (I : inst),
    check tol I = true ->
    (forall x, length x = i_nf I -> ~ allzero x -> 0 < quad (sympart (i_nf I) (i_mass I)) x)
    /\ (forall r theta, In r (i_rows I) -> length theta = 4%nat ->
          Qabs (rdot r (xstate I theta)) <= res_bound tol I r theta).
Proof. exact certificate_sound. Qed.
Print Assumptions C18_certificate_sound.

(* Non-vacuity: the checker accepts a positive definite matrix, rejects an indefinite and a
   non-symmetric one, and the real RT0 system of a 2-cell 1-D grid passes every certificate
   (so its mass matrix is positive definite on, e.g., x = (1, -1, 2)). *)
Example C18_nonvacuous :
  spd_chk 2 [[2; 1]; [1; 2]] = true /\ 0 < quad [[2; 1]; [1; 2]] [1; -(1)] /\
  spd_chk 2 [[1; 2]; [2; 1]] = false /\ spd_chk 2 [[2; 1]; [0; 2]] = false /\
  check (1 # 1000000000) ex_inst = true /\
  0 < quad (sympart (i_nf ex_inst) (i_mass ex_inst)) [1; -(1); 2] /\
  length (i_rows ex_inst) = 5%nat.
Proof.
  split; [vm_compute; reflexivity|].
  split; [apply (spd_certificate 2); [vm_compute; reflexivity | reflexivity |
           intros H; inversion H as [|? ? H1 H2]; subst; vm_compute in H1; discriminate]|].
  split; [vm_compute; reflexivity|]. split; [vm_compute; reflexivity|].
  split; [exact ex_inst_check|].
  split; [|vm_compute; reflexivity].
  apply (proj1 (certificate_sound _ _ ex_inst_check)); [reflexivity|].
  intros H; inversion H as [|? ? H1 H2]; subst; vm_compute in H1; discriminate.
Qed.

(* Non-vacuity of the flux-equation theorem: an interior face between cells 0 and 1 with
   P(x_0) = 1, P(x_1) = 4, P(x_f) = 2 (rhs 0), and a boundary face (rhs = -s P(x_f)). *)
Example C18_nonvacuous_flux_equation :
  let Pc := fun c => match c with 0%nat => 1 | _ => 4 end in
  (-(3)) - isum [(0%nat, 1); (1%nat, -(1))] Pc - 0 == 0 /\
  (1 - 2) - isum [(0%nat, 1)] Pc - (-(2)) == 0.
Proof. split; vm_compute; reflexivity. Qed.
