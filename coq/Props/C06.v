(* C06 — property theorems only.  Model: PP.Model.C06 (transcription of EquationSystem's
   equation bookkeeping and assemble) on top of PP.Model.C05 (dof layout); proofs:
   PP.Proofs.C06.

   Vocabulary (PP.Proofs.C06):
     efinal .. g s ops   equation-side state after running ANY list of set_equation /
                         remove_equation / assemble calls (failing ones included) from the
                         empty system; [s] is the variable-side state (C05)
     eval op             the rows (dense Jacobian row, value) operator [op] evaluates to —
                         an input; [sized eval es]: every registered operator yields as many
                         rows as set_equation recorded for it (set_equation does not check)
     full eval es        all equations stacked in the order they were set
     kept a name         how the argument [equations] mentions an equation LAST: not at all,
                         unrestricted, or restricted to a grid list
     arg_ok es a         every mentioned equation is known and every grid of a restriction
                         belongs to the equation's domain
     local_rows es a nm  the rows of equation nm the argument keeps (whole equation, or the
                         blocks of the listed grids in the order of the stored image)
     rows_spec es a      the rows of the full system the argument keeps: equation by equation
                         in insertion order, offset by the sizes of the equations before
     ind_spec es a       consecutive index ranges, one per mentioned equation
     cut vzero cols x    the entries cols of a row x  (A * projection^T) *)
From Coq Require Import List ZArith Arith Lia Sorted Permutation.
Import ListNotations.
From PP Require Import Model.C05 Proofs.C05 Model.C06 Proofs.C06 Model.C07 Model.C06_schur
     Proofs.C06_schur.

(* The parser accepts exactly the well-formed arguments (anything else: ValueError) and
   returns, in equation-insertion order, one entry per mentioned equation, determined by
   its last mention (a later mention overrides an earlier one; in a dictionary every entry
   is a restriction). *)
Theorem C06_parse :
  forall (V : Type) (vzero : V) (vopp : V -> V) (eval : nat -> list (@prow V)) g s ops a,
  let es := efinal vzero vopp eval g s ops in
  parse_equations es a = if arg_ok es a then inl (blocks_spec es a) else inr ValueErr.
Proof. exact @thm_parse. Qed.
Print Assumptions C06_parse.

(* After ANY history, for ANY accepted argument and ANY variable selection whose projection
   exists (columns cols): the full assembly is the stack of the equations in insertion order
   cut to the columns; the restricted assembly consists of exactly the rows rows_spec of
   that full system (matrix and right-hand side), which are strictly increasing — i.e. the
   restricted system is a slice of the full one, in the order the equations were set. *)
Theorem C06_rows :
  forall (V : Type) (vzero : V) (vopp : V -> V) (eval : nat -> list (@prow V))
         g s ops a r cols n,
  let es := efinal vzero vopp eval g s ops in
  sized eval es -> arg_ok es a = true ->
  projection_to s (asm_vars s r) = OProjM cols n ->
  let Af := map (fun rw => cut vzero cols (fst rw)) (full eval es) in
  let bf := map (fun rw => vopp (snd rw)) (full eval es) in
  let R := rows_spec es a in
  assemble vzero vopp eval s es true ENone r =
    (with_aei es (ind_spec es ENone), AJac Af bf (length cols)) /\
  assemble vzero vopp eval s es true a r =
    (with_aei es (ind_spec es a),
     AJac (map (fun i => nth i Af []) R) (map (fun i => nth i bf (vopp vzero)) R)
          (length cols)) /\
  StronglySorted lt R /\ Forall (fun i => i < length Af) R /\ length bf = length Af.
Proof. exact @thm_slice. Qed.
Print Assumptions C06_rows.

(* The columns: for registered variables (or variables=None) the projection exists, its
   columns are sorted and are exactly the dof indices of the selected variables (C05). *)
Theorem C06_cols :
  forall g vops r, Forall (wf_op g) vops ->
  let s := final g vops in
  truthy (asm_vars s r) = true ->
  (r = None \/ forall id, In id (parse s r) -> In id (block_ids s)) ->
  exists cols, projection_to s (asm_vars s r) = OProjM cols (num_dofs s) /\
    StronglySorted le cols /\
    Permutation cols (concat (map (block_of s) (parse s (asm_vars s r)))) /\
    (forall i, In i cols <-> exists id, In id (parse s (asm_vars s r)) /\ In i (block_of s id)).
Proof. exact thm_cols. Qed.
Print Assumptions C06_cols.

(* assembled_equation_indices after a Jacobian assembly: one consecutive range per mentioned
   equation, in insertion order, of the length of the rows kept for it (empty ranges
   included); together they enumerate 0 .. n_rows-1. *)
Theorem C06_indices :
  forall (V : Type) (vzero : V) (vopp : V -> V) (eval : nat -> list (@prow V))
         g s ops a r cols n,
  let es := efinal vzero vopp eval g s ops in
  sized eval es -> arg_ok es a = true ->
  projection_to s (asm_vars s r) = OProjM cols n ->
  let ind := aei (fst (assemble vzero vopp eval s es true a r)) in
  ind = ind_spec es a /\
  concat (map snd ind) = seq 0 (length (rows_spec es a)) /\
  map fst ind = map fst (filter (fun kv => match kept a (fst kv) with
                                           | Some _ => true | None => false end)
                                (equations es)) /\
  (forall name rows, In (name, rows) ind ->
     exists start, rows = seq start (length (local_rows es a name))).
Proof. exact @thm_indices. Qed.
Print Assumptions C06_indices.

(* Residual-only assembly returns the right-hand side of the Jacobian assembly of the same
   argument and leaves the state (hence the reported indices) untouched — any state, any
   argument, no size assumption. *)
Theorem C06_residual_only :
  forall (V : Type) (vzero : V) (vopp : V -> V) (eval : nat -> list (@prow V))
         g s ops a r r' es' A b n,
  let es := efinal vzero vopp eval g s ops in
  assemble vzero vopp eval s es true a r = (es', AJac A b n) ->
  assemble vzero vopp eval s es false a r' = (es, ARes b).
Proof. exact @thm_residual. Qed.
Print Assumptions C06_residual_only.

(* An argument the parser rejects: ValueError, state untouched (both kinds of assembly). *)
Theorem C06_rejected :
  forall (V : Type) (vzero : V) (vopp : V -> V) (eval : nat -> list (@prow V))
         g s ops jac a r,
  let es := efinal vzero vopp eval g s ops in
  arg_ok es a = false ->
  assemble vzero vopp eval s es jac a r = (es, AErr ValueErr).
Proof. exact @thm_rejects. Qed.
Print Assumptions C06_rejected.

(* What a successful set_equation stores: the equation is appended to the insertion order;
   its image has one block per listed grid, in md-grid order (subdomains, then interfaces),
   numbered consecutively from 0, of size cells*c + faces*f + nodes*n (cells*c on an
   interface); other equations are untouched. *)
Theorem C06_layout :
  forall g es name op grids info es',
  set_equation g es name op grids info = (es', None) ->
  img_of es' name = img_spec g info (filter (fun d => domin d grids) (grid_order g)) 0 /\
  equations es' = equations es ++ [(name, op)] /\
  (forall n, n <> name -> img_of es' n = img_of es n).
Proof. exact set_equation_layout. Qed.
Print Assumptions C06_layout.

(* The Schur assembly is an assemble-method as well: after ANY history, a successful
   assemble_schur_complement_system (model: schur_step, repaired code) leaves in
   assembled_equation_indices exactly what assemble(equations=primary_equations) reports
   (C06_indices): one consecutive range per primary equation, the rows of the primary block;
   the equations themselves are untouched. *)
Theorem C06_schur_indices :
  forall (V : Type) (vzero : V) (vopp : V -> V) (eval : nat -> list (@prow V))
         g s ops pe pv es',
  let es := efinal vzero vopp eval g s ops in
  sized eval es ->
  schur_step vzero vopp eval s es pe pv = (es', XDone) ->
  arg_ok es pe = true /\ aei es' = ind_spec es pe /\
  equations es' = equations es /\ comp es' = comp es.
Proof. exact @schur_step_indices. Qed.
Print Assumptions C06_schur_indices.

(* update_equation (grids / size info defaulting to the stored ones): a successful call
   moves the equation to the END of the insertion order and stores the image set_equation
   stores for the resulting grids and size info. *)
Theorem C06_update :
  forall g es name op grids info es',
  update_equation g es name op grids info = (es', None) ->
  exists gs i,
    (match grids with Some x => Some x | None => option_map (map fst) (dget (comp es) name) end)
      = Some gs /\
    (match info with Some x => Some x | None => dget (sinfo es) name end) = Some i /\
    equations es' = ddel (equations es) name ++ [(name, op)] /\
    img_of es' name = img_spec g i (filter (fun d => domin d gs) (grid_order g)) 0.
Proof. exact update_equation_layout. Qed.
Print Assumptions C06_update.

(* C06_rows over histories that also contain update_equation calls and Schur assemblies
   (sfinal: any list of set / remove / assemble / update / Schur-assembly calls, failing ones
   included): the slice statement is unchanged. *)
Theorem C06_rows_histories :
  forall (V : Type) (vzero : V) (vopp : V -> V) (eval : nat -> list (@prow V))
         g s ops a r cols n,
  let es := sfinal vzero vopp eval g s ops in
  sized eval es -> arg_ok es a = true ->
  projection_to s (asm_vars s r) = OProjM cols n ->
  let Af := map (fun rw => cut vzero cols (fst rw)) (full eval es) in
  let bf := map (fun rw => vopp (snd rw)) (full eval es) in
  let R := rows_spec es a in
  assemble vzero vopp eval s es true ENone r =
    (with_aei es (ind_spec es ENone), AJac Af bf (length cols)) /\
  assemble vzero vopp eval s es true a r =
    (with_aei es (ind_spec es a),
     AJac (map (fun i => nth i Af []) R) (map (fun i => nth i bf (vopp vzero)) R)
          (length cols)) /\
  StronglySorted lt R /\ Forall (fun i => i < length Af) R /\ length bf = length Af.
Proof. exact @thm_slice_s. Qed.
Print Assumptions C06_rows_histories.

(* The size hypothesis [sized] of the theorems above is decidable; the checker evaluated by
   the execution correspondence on every generated history is sound and complete for it. *)
Theorem C06_sized_checker :
  forall (V : Type) (eval : nat -> list (@prow V)) (es : est),
  sizedb eval es = true <-> sized eval es.
Proof. exact @sizedb_sound. Qed.
Print Assumptions C06_sized_checker.

(* Non-vacuity: two subdomains and one interface; a cell variable on both subdomains and an
   interface variable (5 dofs); three equations set in the order 4, 0, 2 (one failing call in
   between, one removal and re-insertion); a restriction given as a list with an overriding
   dictionary item. *)
Definition ex6_g : mdgrid := {| sds := [(2, 7, 6); (1, 2, 2)]; intfs := [2] |}.
Definition ex6_vops : list op :=
  [ OpCreate 0 None false (Some [0; 1]) None; OpCreate 1 None false None (Some [0]) ].
Definition ex6_eval (o : nat) : list (@prow Z) :=
  match o with
  | 0 => [([1; 0; 0; 0; 2], 10); ([0; 3; 0; 0; 0], 11); ([0; 0; 4; 5; 0], 12)]%Z
  | 1 => [([6; 0; 0; 7; 0], 20); ([0; 0; 0; 0; 8], 21)]%Z
  | 2 => [([0; 9; 9; 0; 0], 30)]%Z
  | _ => []
  end.
Definition ex6_ops : list eop :=
  [ ESet 0 1 [Intf 0] (1, 0, 0);
    ESet 4 0 [Sd 1; Sd 0] (1, 0, 0);
    ESet 4 2 [Sd 0] (1, 0, 0);                 (* name in use: ValueError *)
    ERemove 0;
    ESet 0 1 [Intf 0] (1, 0, 0);
    ESet 2 2 [Sd 1] (1, 0, 0);
    EAssemble true ENone None ].
Definition ex6_arg : eqarg := EList [IName 4; IName 2; IDict [(4, [Sd 1]); (0, [])]].

Example C06_nonvacuous :
  let s := final ex6_g ex6_vops in
  let es := efinal 0%Z Z.opp ex6_eval ex6_g s ex6_ops in
  Forall (wf_op ex6_g) ex6_vops /\ sized ex6_eval es /\ arg_ok es ex6_arg = true /\
  map fst (equations es) = [4; 0; 2] /\
  rows_spec es ex6_arg = [2; 5] /\
  ind_spec es ex6_arg = [(4, [0]); (0, []); (2, [1])] /\
  projection_to s (asm_vars s (Some [ByName 1; ById 0])) = OProjM [0; 1; 3; 4] 5 /\
  snd (assemble 0%Z Z.opp ex6_eval s es true ex6_arg (Some [ByName 1; ById 0])) =
    AJac [[0; 0; 5; 0]; [0; 9; 0; 0]]%Z [-12; -30]%Z 4 /\
  snd (assemble 0%Z Z.opp ex6_eval s es false ex6_arg None) = ARes [-12; -30]%Z /\
  arg_ok es (EDict [(4, [Intf 0])]) = false /\
  schur_step 0%Z Z.opp ex6_eval s es (EList [IName 0; IName 4]) (Some [ById 0; ByName 1]) =
    (with_aei es [(4, [0; 1; 2]); (0, [3; 4])], XDone) /\
  map fst (equations (sfinal 0%Z Z.opp ex6_eval ex6_g s
                             (map SBase ex6_ops ++ [SUpdate 4 0 None (Some (1, 0, 0))])))
    = [0; 2; 4].
Proof.
  split; [|split].
  - unfold ex6_vops, wf_op, grids_ok. repeat constructor; cbn; lia.
  - intros name o H. vm_compute in H.
    repeat (destruct H as [H|H]; [inversion H; subst; vm_compute; reflexivity|]).
    destruct H.
  - vm_compute. repeat split; reflexivity.
Qed.
