(* C19 — property theorems only.  Model: PP.Model.C19 (exact-rational transcription of
   Grid._compute_geometry_2d, oriented branch, and _compute_geometry_1d, non-embedded grids);
   proofs: PP.Proofs.C19.

   A cell is the list [es] of its faces as it sees them: (start node, end node, sign of the
   cell_faces entry).  [signs_ok es]: all signs are +-1.  [closed es]: every node is as often
   the end as the start of a traversed face (Permutation of the traversal's from- and
   to-nodes) — this is exactly the code's orientation check 1/3 and holds for one or several
   closed node loops of either orientation.  sigma = +-1 is the z-component of the plane
   normal, t the temporary cell centre (ANY point in the identities below).

   3-D (Model.C19_3d, transcription of _compute_geometry_3d for planar faces): a cell is a list
   of (node loop, cell_faces sign); [watertight]: every directed edge of the oriented faces
   occurs as often as its reverse; [star_faces]: every sub-triangle is oriented like its face;
   [planar_star ps]: all sub-normals are parallel to and oriented like the face normal.

   Legacy (convex-cell) branch of the 2-D code (Model.C19_fb): [reoriented e e']: e' is the face e
   traversed in the cell's true sense of rotation.

   NOT in this development: the 3-D centroid identity, non-planar (twisted) 3-D faces,
   embedded 1-D/2-D grids. *)
From Coq Require Import List ZArith QArith Qabs Bool Arith Permutation.
Import ListNotations.
From PP Require Import Model.C19 Proofs.C19 Model.C19_3d Proofs.C19_3d Model.C19_fb Proofs.C19_fb.
Open Scope Q_scope.

(* The model's orientation check implies the hypotheses of the cell theorems, for every cell. *)
Theorem C19_2d_oriented_cells_closed :
  forall g c, oriented1 g = true -> (c < g_nc g)%nat ->
    signs_ok (cell_sfaces g c) /\ closed (cell_sfaces g c).
Proof. exact oriented_cells_closed. Qed.
Print Assumptions C19_2d_oriented_cells_closed.

(* What the oriented branch returns: it is only taken when the check holds, sigma = +-1, every
   output array is the map of the per-cell / per-face formulas, and no volume is negative. *)
Theorem C19_2d_output :
  forall g r, geometry2 g = GOk r ->
    oriented1 g = true /\
    let sigma := qsign (plane_sum g) in
    let cs := fun c => cell_sfaces g c in
    (sigma = 1 \/ sigma = -1) /\
    o_vol r = map (fun c => cell_volume sigma (temp_center (cs c)) (cs c)) (seq 0 (g_nc g)) /\
    o_cc r = map (fun c => cell_center sigma (temp_center (cs c)) (cs c)) (seq 0 (g_nc g)) /\
    o_fn r = map (fun f => fnormal sigma (face_of g f 1%Z)) (seq 0 (length (g_faces g))) /\
    o_fc r = map (fun f => fcenter (face_of g f 1%Z)) (seq 0 (length (g_faces g))) /\
    o_area2 r = map (fun f => farea2 (face_of g f 1%Z)) (seq 0 (length (g_faces g))) /\
    (forall v, In v (o_vol r) -> 0 <= v).
Proof. exact geometry2_ok. Qed.
Print Assumptions C19_2d_output.

(* Signed face normals of a cell sum to zero. *)
Theorem C19_2d_normals_sum_zero :
  forall sigma es, signs_ok es -> closed es ->
    sumQ (map (fun e => f_sgn e * px (fnormal sigma e)) es) == 0 /\
    sumQ (map (fun e => f_sgn e * py (fnormal sigma e)) es) == 0.
Proof. exact normals_sum_zero. Qed.
Print Assumptions C19_2d_normals_sum_zero.

(* The computed volume (sum of signed sub-triangle areas around the temporary centre) is the
   shoelace area of the traversed faces, whatever the temporary centre. *)
Theorem C19_2d_volume_shoelace :
  forall sigma t es, signs_ok es -> closed es ->
    cell_volume sigma t es == shoelace sigma es.
Proof. exact volume_shoelace. Qed.
Print Assumptions C19_2d_volume_shoelace.

Theorem C19_2d_volume_independent_of_centre :
  forall sigma t t' es, signs_ok es -> closed es ->
    cell_volume sigma t es == cell_volume sigma t' es.
Proof. exact volume_indep. Qed.
Print Assumptions C19_2d_volume_independent_of_centre.

(* Gauss: sum of +- x_f . n_f = 2 |K|. *)
Theorem C19_2d_gauss :
  forall sigma t es, signs_ok es -> closed es ->
    sumQ (map (fun e => f_sgn e * dot (fcenter e) (fnormal sigma e)) es)
    == 2 * cell_volume sigma t es.
Proof. exact gauss. Qed.
Print Assumptions C19_2d_gauss.

(* Centroid identity: sum of +- (x_f . n_f) x_f = 3 |K| x_c, with x_c the computed cell
   centre (guard: the division by the volume is a division by a non-zero number). *)
Theorem C19_2d_centroid :
  forall sigma t es, signs_ok es -> closed es -> ~ cell_volume sigma t es == 0 ->
    sumQ (map (fun e => f_sgn e * dot (fcenter e) (fnormal sigma e) * px (fcenter e)) es)
      == 3 * cell_volume sigma t es * px (cell_center sigma t es) /\
    sumQ (map (fun e => f_sgn e * dot (fcenter e) (fnormal sigma e) * py (fcenter e)) es)
      == 3 * cell_volume sigma t es * py (cell_center sigma t es).
Proof. exact centroid. Qed.
Print Assumptions C19_2d_centroid.

(* |n_f|^2 = (face area)^2. *)
Theorem C19_2d_normal_length :
  forall sigma e, sigma * sigma == 1 -> dot (fnormal sigma e) (fnormal sigma e) == farea2 e.
Proof. exact normal_length. Qed.
Print Assumptions C19_2d_normal_length.

(* Positivity: a cell that is star-shaped w.r.t. the temporary centre (all signed
   sub-triangle areas positive) has positive volume ... *)
Theorem C19_2d_volume_positive_star :
  forall sigma t es, es <> [] -> (forall e, In e es -> 0 < subvol sigma t e) ->
    0 < cell_volume sigma t es.
Proof. exact volume_pos_star. Qed.
Print Assumptions C19_2d_volume_positive_star.

(* ... and a convex cell traversed in the sense of sigma (every face centre lies on the inner
   side of every face line, strictly for at least one) is star-shaped w.r.t. the code's
   temporary centre, the mean of the face centres. *)
Theorem C19_2d_convex_is_star :
  forall sigma es e, es <> [] ->
    (forall e', In e' es -> 0 <= subvol sigma (fcenter e') e) ->
    (exists e', In e' es /\ 0 < subvol sigma (fcenter e') e) ->
    0 < subvol sigma (temp_center es) e.
Proof. exact convex_star. Qed.
Print Assumptions C19_2d_convex_is_star.

(* 1-D: the flip rule of _compute_geometry_1d orients the normal so that sign * normal points
   from the centre of the cell it is computed from towards the face (v = x_f - x_c <> 0). *)
Theorem C19_1d_flip_outward :
  forall v n s, (n = 1 \/ n = -1) -> (s = 1%Z \/ s = (-1)%Z) -> ~ v == 0 ->
    0 < inject_Z s * (if flip_rule v n s then - n else n) * v.
Proof. exact flip_outward. Qed.
Print Assumptions C19_1d_flip_outward.

(* 1-D: for a cell [x1, x2] with outward signed normals o_i = sign_i * n_i: the volume
   |x1 - x2| is positive, the signed normals sum to zero, sum o_i x_i = 1 * |K| and
   sum o_i x_i x_i = 2 |K| x_c with x_c the midpoint. *)
Theorem C19_1d_identities :
  forall x1 x2 o1 o2, ~ x1 == x2 -> (o1 == 1 \/ o1 == -1) -> (o2 == 1 \/ o2 == -1) ->
    0 < o1 * (x1 - (1 # 2) * (x1 + x2)) -> 0 < o2 * (x2 - (1 # 2) * (x1 + x2)) ->
    0 < Qabs (x1 - x2) /\ o1 + o2 == 0 /\
    o1 * x1 + o2 * x2 == 1 * Qabs (x1 - x2) /\
    o1 * x1 * x1 + o2 * x2 * x2 == 2 * Qabs (x1 - x2) * ((1 # 2) * (x1 + x2)).
Proof. exact ident_1d. Qed.
Print Assumptions C19_1d_identities.

(* 1-D: the model's outputs are these formulas. *)
Theorem C19_1d_output :
  forall h c f1 s1 f2 s2, cell_faces1 h c = [(f1, s1); (f2, s2)] ->
    (vol1 h c = Qabs (xface h f1 - xface h f2) /\ cc1 h c = (1 # 2) * (xface h f1 + xface h f2)) /\
    forall f e c' s, first_entry h f = Some (e, c', s) ->
      normal1 h f = if flip_rule (xface h f - cc1 h c') (tangent1 h) s
                    then - tangent1 h else tangent1 h.
Proof. exact output_1d. Qed.
Print Assumptions C19_1d_output.

(* ---------------------------------------------------------------------------------------- *)
(* 2-D, legacy branch (orientation checks failed: "assume all cells are convex") *)

(* Which path geometry2f takes and what it returns there. *)
Theorem C19_2d_legacy_branches :
  forall g,
    match geometry2f g with
    | (BOriented, r) => geometry2 g = GOk r
    | (BLegacySameNormal, r) =>
        oriented1 g = true /\ ~ plane_sum g == 0 /\ geometry2 g = GFallback /\
        r = legacy g (qsign (plane_sum g))
    | (BLegacyGeneralNormal, r) =>
        (oriented1 g = false \/ plane_sum g == 0) /\ r = legacy g (general_normal (g_nodes g))
    end.
Proof. exact geometry2f_branches. Qed.
Print Assumptions C19_2d_legacy_branches.

(* For a cell that is star-shaped w.r.t. its temporary centre (in particular convex), whatever
   the stored node order and signs of its faces: the legacy volume is the volume the oriented
   formulas give on the correctly traversed loop es' — hence the shoelace area when es' is
   closed — and the legacy cell centre is the oriented one.  All identities of the oriented
   branch (Gauss, centroid) therefore hold for es' with these volumes and centres. *)
Theorem C19_2d_legacy_star_volume :
  forall t es es', Forall2 reoriented es es' ->
    (forall e', In e' es' -> 0 <= subvol 1 t e') -> signs_ok es' -> closed es' ->
    fb_volume t es == shoelace 1 es'.
Proof. exact legacy_star_area. Qed.
Print Assumptions C19_2d_legacy_star_volume.

Theorem C19_2d_legacy_star_center :
  forall t es es', Forall2 reoriented es es' ->
    (forall e', In e' es' -> 0 <= subvol 1 t e') ->
    fb_volume t es == cell_volume 1 t es' /\
    px (fb_center t es) == px (cell_center 1 t es') /\ py (fb_center t es) == py (cell_center 1 t es').
Proof.
  exact (fun t es es' HF Hp => conj (proj1 (legacy_star t es es' HF Hp)) (legacy_star_center t es es' HF Hp)).
Qed.
Print Assumptions C19_2d_legacy_star_center.

(* Legacy volumes are never negative; the flip decision of a cell entry makes sign * normal
   point from the cell's temporary centre towards the face. *)
Theorem C19_2d_legacy_volume_nonneg : forall t es, 0 <= fb_volume t es.
Proof. exact fb_volume_nonneg. Qed.
Print Assumptions C19_2d_legacy_volume_nonneg.

Theorem C19_2d_legacy_flip_outward :
  forall sigma t e,
    let n := fnormal sigma e in
    let n' := if flip_entry sigma t e then (- px n, - py n) else n in
    0 <= f_sgn e * dot (psub (fcenter e) t) n'.
Proof. exact flip_entry_outward. Qed.
Print Assumptions C19_2d_legacy_flip_outward.

(* Non-vacuity: the unit square of pp.CartGrid([1, 1]) with the node order of face 0 reversed
   fails orientation check 1/3, the legacy branch still returns volume 1 and centre (1/2, 1/2);
   the correctly traversed loop is closed and star-shaped w.r.t. that centre. *)
Example C19_legacy_nonvacuous :
  let g := {| g_nodes := [(0, 0); (1, 0); (0, 1); (1, 1)];
              g_faces := [(2, 0); (1, 3); (1, 0); (3, 2)]%nat;
              g_cf := [(0%nat, 0%nat, (-1)%Z); (1%nat, 0%nat, 1%Z); (2%nat, 0%nat, (-1)%Z); (3%nat, 0%nat, 1%Z)];
              g_nc := 1%nat |} in
  oriented1 g = false /\
  fst (geometry2f g) = BLegacyGeneralNormal /\
  all2 (closeS 0) (o_vol (snd (geometry2f g))) [1] = true /\
  all2 (closepS 1 1) (o_cc (snd (geometry2f g))) [(1 # 2, 1 # 2)] = true /\
  all2 (closepS 1 1) (o_fn (snd (geometry2f g))) [(1, 0); (1, 0); (0, 1); (0, 1)] = true /\
  (let es' := [((0, 0), (1, 0), 1%Z); ((1, 0), (1, 1), 1%Z); ((1, 1), (0, 1), 1%Z); ((0, 1), (0, 0), 1%Z)] in
   closed es' /\ forall e', In e' es' -> 0 <= subvol 1 (1 # 2, 1 # 2) e').
Proof.
  cbn zeta. repeat split; try (vm_compute; reflexivity).
  - exact (Permutation_cons_append [(1, 0); (1, 1); (0, 1)] (0, 0)).
  - intros e' [<-|[<-|[<-|[<-|[]]]]]; vm_compute; discriminate.
Qed.

(* ---------------------------------------------------------------------------------------- *)
(* 3-D *)

(* The face normal (sum of the sub-triangle normals around ANY centre c) is the vector area
   1/2 sum p_i x p_{i+1} of the node loop. *)
Theorem C19_3d_face_normal_is_vector_area :
  forall c ps, veq (face_normal_c c ps) (vector_area ps).
Proof. exact face_normal_vector_area. Qed.
Print Assumptions C19_3d_face_normal_is_vector_area.

(* Signed face normals of a watertight cell sum to zero (any polygonal faces, planar or not). *)
Theorem C19_3d_normals_sum_zero :
  forall fs, signs3_ok fs -> watertight fs ->
    sumQ (map (fun f => inject_Z (snd f) * vx (face_normal (fst f))) fs) == 0 /\
    sumQ (map (fun f => inject_Z (snd f) * vy (face_normal (fst f))) fs) == 0 /\
    sumQ (map (fun f => inject_Z (snd f) * vz (face_normal (fst f))) fs) == 0.
Proof. exact normals_sum_zero_3d. Qed.
Print Assumptions C19_3d_normals_sum_zero.

(* The computed cell volume (sum of the sub-tetrahedra around the temporary centre) does not
   depend on the temporary centre. *)
Theorem C19_3d_volume_independent_of_centre :
  forall fs t0 t1, signs3_ok fs -> watertight fs -> star_faces fs ->
    cell_volume3 t0 (cell_ts fs) == cell_volume3 t1 (cell_ts fs).
Proof. exact volume_indep_cell. Qed.
Print Assumptions C19_3d_volume_independent_of_centre.

(* Gauss with the code's face centres: sum +- x_f . n_f = 3 |K| (planar faces). *)
Theorem C19_3d_gauss :
  forall fs t0, signs3_ok fs -> watertight fs -> star_faces fs ->
    (forall f, In f fs -> planar_star (fst f)) ->
    sumQ (map (fun f => inject_Z (snd f) * vdot (face_center (fst f)) (face_normal (fst f))) fs)
    == 3 * cell_volume3 t0 (cell_ts fs).
Proof. exact gauss_3d. Qed.
Print Assumptions C19_3d_gauss.

(* The executable check the tie evaluates on every cell of every real 3-D grid implies the
   hypotheses above for that cell of the model. *)
Theorem C19_3d_hypotheses_checker_sound :
  forall g c, cell_hyps_b g c = true ->
    signs3_ok (cell_cfaces g c) /\ watertight (cell_cfaces g c) /\ star_faces (cell_cfaces g c) /\
    (forall f, In f (cell_cfaces g c) -> planar_star (fst f)).
Proof. exact cell_hyps_b_sound. Qed.
Print Assumptions C19_3d_hypotheses_checker_sound.

(* Hence, for every cell of the model that passes the check: normals sum to zero, the volume
   is independent of the temporary centre, and Gauss holds. *)
Theorem C19_3d_cell :
  forall g c, cell_hyps_b g c = true ->
    let fs := cell_cfaces g c in
    (sumQ (map (fun f => inject_Z (snd f) * vx (face_normal (fst f))) fs) == 0 /\
     sumQ (map (fun f => inject_Z (snd f) * vy (face_normal (fst f))) fs) == 0 /\
     sumQ (map (fun f => inject_Z (snd f) * vz (face_normal (fst f))) fs) == 0) /\
    (forall t0 t1, cell_volume3 t0 (cell_subtris g c) == cell_volume3 t1 (cell_subtris g c)) /\
    (forall t0, sumQ (map (fun f => inject_Z (snd f) * vdot (face_center (fst f)) (face_normal (fst f))) fs)
                == 3 * cell_volume3 t0 (cell_subtris g c)).
Proof. exact cell_theorem_3d. Qed.
Print Assumptions C19_3d_cell.

(* What geometry3 returns when it does not raise: the maps of the per-face / per-cell formulas,
   and no sub-tetrahedron volume at or below -1e-12 (the code's ValueError branch). *)
Theorem C19_3d_output :
  forall g r, geometry3 g = G3Ok r ->
    let fs := map (face_pts g) (seq 0 (length (k_faces g))) in
    let cells := map (cell_subtris g) (seq 0 (k_nc g)) in
    q_fn r = map face_normal fs /\ q_fc r = map face_center fs /\ q_area2 r = map face_area2 fs /\
    q_vol r = map (fun ts => cell_volume3 (tmp_center ts) ts) cells /\
    q_cc r = map (fun ts => cell_center3 (tmp_center ts) ts) cells /\
    (forall ts t, In ts cells -> In t ts -> - (1 # 1000000000000) < tet_volume (tmp_center ts) t).
Proof. exact geometry3_ok. Qed.
Print Assumptions C19_3d_output.

(* Non-vacuity (3-D): the unit tetrahedron passes the check; its computed volume is 1/6. *)
Example C19_3d_nonvacuous :
  let g := {| k_nodes := [(0, 0, 0); (1, 0, 0); (0, 1, 0); (0, 0, 1)];
              k_faces := [[0; 1; 2]; [0; 1; 3]; [0; 2; 3]; [1; 2; 3]]%nat;
              k_cf := [(0%nat, 0%nat, (-1)%Z); (1%nat, 0%nat, 1%Z); (2%nat, 0%nat, (-1)%Z);
                       (3%nat, 0%nat, 1%Z)];
              k_nc := 1%nat |} in
  cell_hyps_b g 0%nat = true /\
  (exists r, geometry3 g = G3Ok r /\ all2 (closeS 0) (q_vol r) [1 # 6] = true) /\
  watertight (cell_cfaces g 0%nat).
Proof.
  cbn zeta.
  assert (cell_hyps_b {| k_nodes := [(0, 0, 0); (1, 0, 0); (0, 1, 0); (0, 0, 1)];
              k_faces := [[0; 1; 2]; [0; 1; 3]; [0; 2; 3]; [1; 2; 3]]%nat;
              k_cf := [(0%nat, 0%nat, (-1)%Z); (1%nat, 0%nat, 1%Z); (2%nat, 0%nat, (-1)%Z);
                       (3%nat, 0%nat, 1%Z)];
              k_nc := 1%nat |} 0%nat = true) as H by (vm_compute; reflexivity).
  split; [exact H|]. split.
  - eexists. split; vm_compute; reflexivity.
  - apply cell_hyps_b_sound in H. tauto.
Qed.

(* Non-vacuity: the unit square with node order as in pp.CartGrid([1, 1]) (faces: left, right
   (vertical, upwards), bottom, top (horizontal, leftwards); signs -1, +1, -1, +1) passes the
   orientation check, is closed, and the model's geometry on it; a clockwise-traversed
   triangle gives sigma = -1 and still a positive volume. *)
Example C19_nonvacuous :
  let g := {| g_nodes := [(0, 0); (1, 0); (0, 1); (1, 1)];
              g_faces := [(0, 2); (1, 3); (1, 0); (3, 2)]%nat;
              g_cf := [(0%nat, 0%nat, (-1)%Z); (1%nat, 0%nat, 1%Z); (2%nat, 0%nat, (-1)%Z); (3%nat, 0%nat, 1%Z)];
              g_nc := 1%nat |} in
  oriented1 g = true /\ closed (cell_sfaces g 0%nat) /\ signs_ok (cell_sfaces g 0%nat) /\
  (exists r, geometry2 g = GOk r /\ all2 close (o_vol r) [1] = true
             /\ all2 closep (o_cc r) [(1 # 2, 1 # 2)] = true
             /\ all2 closep (o_fn r) [(1, 0); (1, 0); (0, 1); (0, 1)] = true) /\
  (let tri := [((0, 0), (0, 1), 1%Z); ((0, 1), (1, 0), 1%Z); ((1, 0), (0, 0), 1%Z)] in
   closed tri /\ signs_ok tri /\ cell_volume (-1) (temp_center tri) tri == 1 # 2).
Proof.
  cbn zeta.
  assert (oriented1 {| g_nodes := [(0, 0); (1, 0); (0, 1); (1, 1)];
                       g_faces := [(0, 2); (1, 3); (1, 0); (3, 2)]%nat;
                       g_cf := [(0%nat, 0%nat, (-1)%Z); (1%nat, 0%nat, 1%Z); (2%nat, 0%nat, (-1)%Z); (3%nat, 0%nat, 1%Z)];
                       g_nc := 1%nat |} = true) as Ho by (vm_compute; reflexivity).
  split; [exact Ho|]. split; [apply oriented_closed; [exact Ho|cbn; auto]|].
  split; [apply oriented_signs; exact Ho|]. split.
  - eexists. split; [vm_compute; reflexivity|]. repeat split; vm_compute; reflexivity.
  - split; [|split].
    + exact (Permutation_cons_append [(0, 1); (1, 0)] (0, 0)).
    + intros e [<-|[<-|[<-|[]]]]; left; reflexivity.
    + vm_compute. reflexivity.
Qed.
