(* C36 — property theorems only.  Model: PP.Model.C36 (transcription of ArraySlicer after
   the repair commit); proofs: PP.Proofs.C36.
   [ext_scalar]/[ext_mat] stand for numpy/scipy's arithmetic in a pending operation
   (eval "A op sliced"); every theorem holds for ANY such functions. *)
From Coq Require Import List ZArith Arith Lia.
Import ListNotations.
From PP Require Import Model.C36 Proofs.C36.

(* S @ x = P x : for every well-formed slicer with distinct range indices and every operand
   with domain_size rows — vector, 2-D array, sparse matrix (stored rows; compared as dense
   matrices), AdArray (value and Jacobian), scalar (= np.full(domain_size, c)) — the
   slicing part of __matmul__ does not raise and returns the explicit rsize x dsize 0/1
   matrix [denote s] times the operand. *)
Theorem C36_apply_is_matrix :
  forall (s : slicer) (x : value),
    wf_slicer s -> NoDup (rng s) -> vfits (dsize s) x ->
    exists y, slice s x = Ok y /\ not_num y /\ vfits (rsize s) y /\
              forall n, dense n y = mat_apply (denote s) (dense (dsize s) x).
Proof. exact apply_is_matrix. Qed.
Print Assumptions C36_apply_is_matrix.

(* Whatever argument pattern the constructor accepts (domain only = the onto fast path,
   range only, both, with or without sizes), the object is well-formed as soon as the
   index arrays are equally long and respect the stored sizes; it has no pending operand. *)
Theorem C36_constructor_wf :
  forall d r rs ds s,
    construct d r rs ds = Ok s ->
    length (dom s) = length (rng s) ->
    Forall (fun i => i < dsize s) (dom s) -> Forall (fun i => i < rsize s) (rng s) ->
    wf_slicer s /\ pend s = None.
Proof. exact construct_wf. Qed.
Print Assumptions C36_constructor_wf.

(* S.T denotes the transposed matrix (any slicer), and is again well-formed. *)
Theorem C36_transpose :
  forall s : slicer,
    denote (transpose s) = mtranspose (rsize s) (dsize s) (denote s) /\
    (wf_slicer s -> wf_slicer (transpose s)) /\
    rng (transpose s) = dom s /\ pend (transpose s) = None.
Proof.
  intros s. split; [exact (transpose_denote s)|]. split; [exact (transpose_wf s)|].
  split; reflexivity.
Qed.
Print Assumptions C36_transpose.

(* Chains of ANY length.  In a heap [h] produced by the repaired code, python's evaluation
   of  S_cur @ S_j1 @ ... @ S_jn @ x  (each @ between slicers allocates a new object; the
   right operands S_j* carry no pending operand) gives, for fitting sizes,
       tail (P_cur (P_j1 ( ... (P_jn x))))
   where the P are the explicit matrices and [tail] is the pending operation of S_cur, if
   it has one (A op S_cur @ ... : tail = A op _ ; otherwise the identity). *)
Theorem C36_chain :
  forall ext_scalar ext_mat h cur sc rest ss x n,
    closed h -> nth_error h cur = Some sc ->
    (forall j p, pend sc <> Some (OSlicer j, p)) ->
    Forall2 (fun j s => nth_error h j = Some s) rest ss ->
    Forall (fun s => pend s = None) ss ->
    chain_ok (rev (sc :: ss)) n -> vfits n x ->
    let h' := fst (run ext_scalar ext_mat h (chain_prog cur rest (length h))) in
    exists y,
      apply_top ext_scalar ext_mat h' (chain_top cur rest (length h)) x
      = tail_op ext_scalar ext_mat sc y /\
      dense (out_size (rev (sc :: ss)) n) y
      = fold_right (fun s acc => mat_apply (denote s) acc) (dense n x) (sc :: ss).
Proof. exact chain_is_matrix_product. Qed.
Print Assumptions C36_chain.

(* Pending right operand:  (A op S) is a NEW object, S is untouched, and
   (A op S) @ x = A op (P x)  for op in @ * / ** + - and A a scalar or a sparse matrix. *)
Theorem C36_pending :
  forall ext_scalar ext_mat h o p j sj x,
    (forall id, o <> OSlicer id) -> nth_error h j = Some sj -> pend sj = None ->
    wf_slicer sj -> NoDup (rng sj) -> vfits (dsize sj) x ->
    let h' := fst (step ext_scalar ext_mat h (SROp o p j)) in
    snd (step ext_scalar ext_mat h (SROp o p j)) = ONew (length h) /\
    nth_error h' j = Some sj /\
    exists y, apply_top ext_scalar ext_mat h' (length h) x = ext_op ext_scalar ext_mat o p y /\
              forall n, dense n y = mat_apply (denote sj) (dense (dsize sj) x).
Proof. exact pending_is_op_after_matrix. Qed.
Print Assumptions C36_pending.

(* REUSE.  For EVERY history prog1 (from the empty heap) and EVERY continuation prog2
   (constructions, transposes, copies, slicer @ slicer, A op slicer, applications): an
   object that exists after prog1 is the same object after prog2, and applying it gives the
   same answer (value or error) as before. *)
Theorem C36_reuse :
  forall ext_scalar ext_mat prog1 prog2 i x,
    let h1 := fst (run ext_scalar ext_mat [] prog1) in
    let h2 := fst (run ext_scalar ext_mat h1 prog2) in
    i < length h1 ->
    nth_error h2 i = nth_error h1 i /\
    apply_top ext_scalar ext_mat h2 i x = apply_top ext_scalar ext_mat h1 i x /\
    snd (step ext_scalar ext_mat h2 (SApply i x)) = snd (step ext_scalar ext_mat h1 (SApply i x)).
Proof. exact reuse_after_history. Qed.
Print Assumptions C36_reuse.

(* The pre-fix code (x._pending_operand = self on the right operand itself) violates
   C36_reuse: witness S0 = [1,0], S1 = [0,2], x = [10,20,30]. *)
Theorem C36_reuse_inplace_variant_refuted :
  exists h i j x,
    closed h /\
    let h' := fst (matmul_ss_inplace h i j) in
    apply_top ext_scalarZ ext_matZ h' j x <> apply_top ext_scalarZ ext_matZ h j x.
Proof. exact inplace_variant_refuted. Qed.
Print Assumptions C36_reuse_inplace_variant_refuted.

(* Open finding: the guard "right operands carry no pending operand" of C36_chain cannot be
   dropped —  X @ (Y @ S)  answers  X (S x)  instead of  X (Y (S x)). *)
Theorem C36_chain_pending_right_operand_refuted :
  exists h i j sj x,
    closed h /\ nth_error h j = Some sj /\ pend sj <> None /\
    let h' := fst (step ext_scalarZ ext_matZ h (SMatSS i j)) in
    apply_top ext_scalarZ ext_matZ h' (length h) x
    <> bind (apply_top ext_scalarZ ext_matZ h j x) (apply_top ext_scalarZ ext_matZ h i).
Proof. exact pending_overwritten_refuted. Qed.
Print Assumptions C36_chain_pending_right_operand_refuted.

(* ---------------- non-vacuity ---------------- *)
Definition ex_s := mkS [0; 2; 3] [0; 4; 1] 7 4 false false None.   (* docstring example 4 *)

Example C36_nonvacuous_apply :
  wf_slicer ex_s /\ NoDup (rng ex_s) /\
  vfits (dsize ex_s) (VCsr 2 [[(0, 5%Z)]; []; [(1, 7%Z); (0, 0%Z)]; [(1, (-1)%Z)]]) /\
  slice ex_s (VVec [10; 20; 30; 40]%Z) = Ok (VVec [10; 40; 0; 0; 30; 0; 0]%Z) /\
  construct (Some [0; 2; 3]) (Some [0; 4; 1]) (Some 7) None = Ok ex_s.
Proof.
  unfold wf_slicer, ex_s; cbn. repeat split; try reflexivity; try discriminate;
    repeat constructor; cbn; try lia; intuition (try discriminate; try lia).
Qed.

Example C36_nonvacuous_chain :
  let h := [S_10; S_02; mkS [2; 1; 0] [0; 1; 2] 3 3 false false None] in
  closed h /\
  Forall2 (fun j s => nth_error h j = Some s) [1; 2] [S_02; nth 2 h S_10] /\
  chain_ok (rev [S_10; S_02; nth 2 h S_10]) 3 /\
  snd (run ext_scalarZ ext_matZ h
           (chain_prog 0 [1; 2] 3 ++ [SApply 4 (VVec [10; 20; 30]%Z); SApply 1 (VVec [10; 20; 30]%Z)]))
  = [ONew 3; ONew 4; OVal (VVec [10; 30]%Z); OVal (VVec [10; 30]%Z)].
Proof.
  cbn zeta. split; [closed_concrete|]. split; [repeat constructor|].
  split; [|vm_compute; reflexivity].
  unfold S_10, S_02, chain_ok, wf_slicer; cbn.
  repeat split; try reflexivity; try discriminate; repeat constructor; cbn; try lia;
    intuition (try discriminate; try lia).
Qed.
