(* C36 — property theorems only.  Model: PP.Model.C36 (transcription of ArraySlicer after
   the repair commit); proofs: PP.Proofs.C36.
   [ext_scalar]/[ext_mat]/[ext_ad] stand for numpy/scipy/AdArray arithmetic in a pending
   operation (eval "A op sliced"); every theorem holds for ANY such functions. *)
From Coq Require Import List ZArith Arith Lia.
Import ListNotations.
From PP Require Import Lib.Csr Model.C36 Proofs.C36 Model.C36_flat Proofs.C36_flat.

(* S @ x = P x : for every well-formed slicer with distinct range indices and every operand
   with domain_size rows — vector, 2-D array, sparse matrix (stored rows; compared as dense
   matrices), AdArray (value and Jacobian), scalar (= np.full(domain_size, c)) — the
   slicing part of __matmul__ does not raise and returns the explicit rsize x dsize 0/1
   matrix [denote s] times the operand. *)
Theorem C36_apply_is_matrix :
  forall (s : slicer) (x : value),
    wf_slicer s -> NoDup (rng s) -> vfits (dsize s) x ->
    exists y, slice s x = Ok y /\ not_num y /\ vfits (rsize s) y /\
              forall n, dense n y = mat_apply (denote s) (dense (dsize s) x).
Proof. exact apply_is_matrix. Qed.
Print Assumptions C36_apply_is_matrix.

(* Whatever argument pattern the constructor accepts (domain only = the onto fast path,
   range only, both, with or without sizes), the object is well-formed as soon as the
   index arrays are equally long and respect the stored sizes; it has no pending operand. *)
Theorem C36_constructor_wf :
  forall d r rs ds s,
    construct d r rs ds = Ok s ->
    length (dom s) = length (rng s) ->
    Forall (fun i => i < dsize s) (dom s) -> Forall (fun i => i < rsize s) (rng s) ->
    wf_slicer s /\ pend s = [].
Proof. exact construct_wf. Qed.
Print Assumptions C36_constructor_wf.

(* S.T denotes the transposed matrix (any slicer), and is again well-formed. *)
Theorem C36_transpose :
  forall s : slicer,
    denote (transpose s) = mtranspose (rsize s) (dsize s) (denote s) /\
    (wf_slicer s -> wf_slicer (transpose s)) /\
    rng (transpose s) = dom s /\ pend (transpose s) = [].
Proof.
  intros s. split; [exact (transpose_denote s)|]. split; [exact (transpose_wf s)|].
  split; reflexivity.
Qed.
Print Assumptions C36_transpose.

(* COMPOSITION, no guard.  In any heap [h] produced by the repaired code, for ANY two
   objects S_i, S_j (each with or without pending pairs of its own):  S_i @ S_j  is a new
   object, S_i and S_j are untouched, and  (S_i @ S_j) @ x = S_i @ (S_j @ x)  — value or
   error.  (False for the code before the second repair: C36_overwrite_variant_refuted.) *)
Theorem C36_matmul_composes :
  forall ext_scalar ext_mat ext_ad h i j si sj x,
    closed h -> nth_error h i = Some si -> nth_error h j = Some sj ->
    let h' := fst (step ext_scalar ext_mat ext_ad h (SMatSS i j)) in
    snd (step ext_scalar ext_mat ext_ad h (SMatSS i j)) = ONew (length h) /\
    nth_error h' i = Some si /\ nth_error h' j = Some sj /\
    apply_top ext_scalar ext_mat ext_ad h' (length h) x
    = bind (apply_top ext_scalar ext_mat ext_ad h j x) (apply_top ext_scalar ext_mat ext_ad h i).
Proof. exact matmul_composes. Qed.
Print Assumptions C36_matmul_composes.

(* Likewise for a scalar, sparse-matrix or AdArray left operand and op in @ * / ** + - :
   (A op S_j) @ x = A op (S_j @ x)  for ANY object S_j (pending pairs included). *)
Theorem C36_rop_composes :
  forall ext_scalar ext_mat ext_ad h o p j sj x,
    closed h -> (forall id, o <> OSlicer id) -> nth_error h j = Some sj ->
    let h' := fst (step ext_scalar ext_mat ext_ad h (SROp o p j)) in
    snd (step ext_scalar ext_mat ext_ad h (SROp o p j)) = ONew (length h) /\
    nth_error h' j = Some sj /\
    apply_top ext_scalar ext_mat ext_ad h' (length h) x
    = bind (apply_top ext_scalar ext_mat ext_ad h j x) (ext_op ext_scalar ext_mat ext_ad o p).
Proof. exact rop_composes. Qed.
Print Assumptions C36_rop_composes.

(* Chains of ANY length over ANY objects:  S_cur @ S_j1 @ ... @ S_jn @ x  (python evaluates
   from the left, each @ allocates) = S_cur @ (S_j1 @ ( ... (S_jn @ x))). *)
Theorem C36_chain_general :
  forall ext_scalar ext_mat ext_ad rest h cur x,
    closed h -> cur < length h -> Forall (fun j => j < length h) rest ->
    let h' := fst (run ext_scalar ext_mat ext_ad h (chain_prog cur rest (length h))) in
    apply_top ext_scalar ext_mat ext_ad h' (chain_top cur rest (length h)) x =
    bind (run_objs ext_scalar ext_mat ext_ad h (rev rest) x) (apply_top ext_scalar ext_mat ext_ad h cur).
Proof. exact chain_general. Qed.
Print Assumptions C36_chain_general.

(* ... and as explicit matrices: for plain slicers S_j* of fitting sizes and a leftmost
   member S_cur whose pending pairs (if any) are non-slicer operands A_k op_k,
       result = A_m op_m ( ... (A_1 op_1 (P_cur (P_j1 ( ... (P_jn x))))))            *)
Theorem C36_chain :
  forall ext_scalar ext_mat ext_ad h cur sc rest ss x n,
    closed h -> nth_error h cur = Some sc ->
    (forall j p, ~ In (OSlicer j, p) (pend sc)) ->
    Forall2 (fun j s => nth_error h j = Some s /\ pend s = []) rest ss ->
    chain_ok (rev (sc :: ss)) n -> vfits n x ->
    let h' := fst (run ext_scalar ext_mat ext_ad h (chain_prog cur rest (length h))) in
    exists y,
      apply_top ext_scalar ext_mat ext_ad h' (chain_top cur rest (length h)) x
      = tail_op ext_scalar ext_mat ext_ad sc y /\
      dense (out_size (rev (sc :: ss)) n) y
      = fold_right (fun s acc => mat_apply (denote s) acc) (dense n x) (sc :: ss).
Proof. exact chain_is_matrix_product. Qed.
Print Assumptions C36_chain.

(* Pending right operand on a plain slicer:  (A op S) @ x = A op (P x). *)
Theorem C36_pending :
  forall ext_scalar ext_mat ext_ad h o p j sj x,
    closed h -> (forall id, o <> OSlicer id) -> nth_error h j = Some sj -> pend sj = [] ->
    wf_slicer sj -> NoDup (rng sj) -> vfits (dsize sj) x ->
    let h' := fst (step ext_scalar ext_mat ext_ad h (SROp o p j)) in
    snd (step ext_scalar ext_mat ext_ad h (SROp o p j)) = ONew (length h) /\
    nth_error h' j = Some sj /\
    exists y, apply_top ext_scalar ext_mat ext_ad h' (length h) x
              = ext_op ext_scalar ext_mat ext_ad o p y /\
              forall n, dense n y = mat_apply (denote sj) (dense (dsize sj) x).
Proof. exact pending_is_op_after_matrix. Qed.
Print Assumptions C36_pending.

(* REUSE.  For EVERY history prog1 (from the empty heap) and EVERY continuation prog2
   (constructions, transposes, copies, slicer @ slicer, A op slicer, applications): an
   object that exists after prog1 is the same object after prog2, and applying it gives the
   same answer (value or error) as before. *)
Theorem C36_reuse :
  forall ext_scalar ext_mat ext_ad prog1 prog2 i x,
    let h1 := fst (run ext_scalar ext_mat ext_ad [] prog1) in
    let h2 := fst (run ext_scalar ext_mat ext_ad h1 prog2) in
    i < length h1 ->
    nth_error h2 i = nth_error h1 i /\
    apply_top ext_scalar ext_mat ext_ad h2 i x = apply_top ext_scalar ext_mat ext_ad h1 i x /\
    snd (step ext_scalar ext_mat ext_ad h2 (SApply i x))
    = snd (step ext_scalar ext_mat ext_ad h1 (SApply i x)).
Proof. exact reuse_after_history. Qed.
Print Assumptions C36_reuse.

(* The original code (x._pending_operand = self on the right operand itself) violates
   C36_reuse: witness S0 = [1,0], S1 = [0,2], x = [10,20,30]. *)
Theorem C36_reuse_inplace_variant_refuted :
  exists h i j x,
    closed h /\
    let h' := fst (matmul_ss_inplace h i j) in
    apply_top ext_scalarZ ext_matZ ext_adZ h' j x <> apply_top ext_scalarZ ext_matZ ext_adZ h j x.
Proof. exact inplace_variant_refuted. Qed.
Print Assumptions C36_reuse_inplace_variant_refuted.

(* The code between the two repairs (copy, then overwrite the single pending pair) violates
   C36_matmul_composes:  X @ (Y @ S)  answered  X (S x). *)
Theorem C36_overwrite_variant_refuted :
  exists h i j x,
    closed h /\
    let h' := fst (matmul_ss_overwrite h i j) in
    apply_top ext_scalarZ ext_matZ ext_adZ h' (length h) x
    <> bind (apply_top ext_scalarZ ext_matZ ext_adZ h j x) (apply_top ext_scalarZ ext_matZ ext_adZ h i).
Proof. exact overwrite_variant_refuted. Qed.
Print Assumptions C36_overwrite_variant_refuted.

(* INDEX-POINTER ARITHMETIC of _slice_matrix (general path), on the flat CSR record
   (indptr / indices / data): argsort of the range indices, per-row counts behind a leading
   zero, cumsum, expansion of the row ranges, take.  For every well-formed stored matrix
   with domain_size rows and every well-formed non-onto slicer with distinct range indices
   the stored rows of the flat result are exactly what the row-level model [slice_csr]
   (used by all theorems above) returns; shape = range_size x ncols. *)
Theorem C36_slice_matrix_index_arithmetic :
  forall (s : slicer) (A : csr),
    wf_slicer s -> onto s = false -> NoDup (rng s) -> wf A = true -> nmaj A = dsize s ->
    slice_csr s (rows A) = Ok (rows (slice_matrix_flat s A)) /\
    nmaj (slice_matrix_flat s A) = rsize s /\ nmin (slice_matrix_flat s A) = nmin A.
Proof. exact slice_matrix_flat_refines. Qed.
Print Assumptions C36_slice_matrix_index_arithmetic.

(* ---------------- non-vacuity ---------------- *)
Definition ex_s := mkS [0; 2; 3] [0; 4; 1] 7 4 false false [].   (* docstring example 4 *)

Example C36_nonvacuous_apply :
  wf_slicer ex_s /\ NoDup (rng ex_s) /\
  vfits (dsize ex_s) (VCsr 2 [[(0, 5%Z)]; []; [(1, 7%Z); (0, 0%Z)]; [(1, (-1)%Z)]]) /\
  slice ex_s (VVec [10; 20; 30; 40]%Z) = Ok (VVec [10; 40; 0; 0; 30; 0; 0]%Z) /\
  construct (Some [0; 2; 3]) (Some [0; 4; 1]) (Some 7) None = Ok ex_s.
Proof.
  unfold wf_slicer, ex_s; cbn. repeat split; try reflexivity; try discriminate;
    repeat constructor; cbn; try lia; intuition (try discriminate; try lia).
Qed.

Example C36_nonvacuous_chain :
  let h := [S_10; S_02; mkS [2; 1; 0] [0; 1; 2] 3 3 false false []] in
  closed h /\
  Forall2 (fun j s => nth_error h j = Some s /\ pend s = []) [1; 2] [S_02; nth 2 h S_10] /\
  chain_ok (rev [S_10; S_02; nth 2 h S_10]) 3 /\
  snd (run ext_scalarZ ext_matZ ext_adZ h
           (chain_prog 0 [1; 2] 3 ++ [SApply 4 (VVec [10; 20; 30]%Z); SApply 1 (VVec [10; 20; 30]%Z)]))
  = [ONew 3; ONew 4; OVal (VVec [10; 30]%Z); OVal (VVec [10; 30]%Z)].
Proof.
  cbn zeta. split; [closed_concrete|]. split; [repeat constructor|].
  split; [|vm_compute; reflexivity].
  unfold S_10, S_02, chain_ok, wf_slicer; cbn.
  repeat split; try reflexivity; try discriminate; repeat constructor; cbn; try lia;
    intuition (try discriminate; try lia).
Qed.

(* composition with pending pairs on both sides:  (S0 @ S1) @ (3 + S2)  and  2 * (3 + S2) *)
Example C36_nonvacuous_composition :
  let h := [P_201; P_102; P_021] in
  closed h /\
  snd (run ext_scalarZ ext_matZ ext_adZ h
           [SMatSS 0 1; SROp (OScalar 3) PAdd 2; SMatSS 3 4; SROp (OScalar 2) PMul 4;
            SApply 5 (VVec [10; 20; 30]%Z); SApply 6 (VVec [10; 20; 30]%Z);
            SApply 2 (VVec [10; 20; 30]%Z)])
  = [ONew 3; ONew 4; ONew 5; ONew 6; OVal (VVec [23; 33; 13]%Z); OVal (VVec [26; 66; 46]%Z);
     OVal (VVec [10; 30; 20]%Z)].
Proof. cbn zeta. split; [closed_concrete|vm_compute; reflexivity]. Qed.

Example C36_nonvacuous_flat :
  let A := mkcsr 4 3 [0; 2; 2; 4; 5] [2; 0; 1; 1; 0] [1; 0; 3; 4; 7]%Z in
  let s := mkS [2; 0; 3] [3; 1; 0] 5 4 false false [] in
  wf_slicer s /\ NoDup (rng s) /\ wf A = true /\ nmaj A = dsize s /\
  slice_matrix_flat s A = mkcsr 5 3 [0; 1; 3; 3; 5; 5] [0; 2; 0; 1; 1] [7; 1; 0; 3; 4]%Z /\
  argsort (rng s) = [2; 1; 0].
Proof.
  cbn zeta. unfold wf_slicer; cbn.
  repeat split; try reflexivity; try discriminate; repeat constructor; cbn; try lia;
    intuition (try discriminate; try lia).
Qed.
