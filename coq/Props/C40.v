(* C40 — property theorems only.  Model: PP.Model.C40 (transcription of
   porepy/params/tensor.py); proofs: PP.Proofs.C40.  Every theorem holds over ANY
   commutative ring T (ring_theory over Leibniz equality: the reals, the integers, ...);
   [rops T 0 1 + * - neg] is the model's number record for that ring, [neg] the (arbitrary)
   test "x < 0" used by the constructor.  A tensor is the list over cells of its 3x3
   (resp. 9x9) matrices. *)
From Coq Require Import List ZArith Bool Ring.
Import ListNotations.
From PP Require Import Model.C40 Model.C40_heap Proofs.C40 Proofs.C40_hom Proofs.C40_heap.


(* SYMMETRY + LAYOUT of SecondOrderTensor.  Whenever the constructor returns (any arrays,
   any defaults), the tensor has one matrix per entry of kxx, cell c holds
   [[kxx kxy kxz] [kxy kyy kyz] [kxz kyz kzz]] (defaults: kyy = kzz = kxx, off-diagonals
   0*kxx), and every cell matrix is symmetric; the only exception it raises is ValueError. *)
Theorem C40_second_order_symmetric :
  forall (T : Type) (rO rI : T) (radd rmul rsub : T -> T -> T) (neg : T -> bool)
         (kxx : list T) (kyy kzz kxy kxz kyz : option (list T)),
    let ops := rops T rO rI radd rmul rsub neg in
    (forall t, second_order ops kxx kyy kzz kxy kxz kyz = Ok t ->
       length t = length kxx /\ Forall (sym33 T) t /\
       let z := map (rmul rO) kxx in
       t = map (cell_matrix T rO rI radd rmul rsub neg kxx (dflt T kyy kxx) (dflt T kzz kxx)
                            (dflt T kxy z) (dflt T kxz z) (dflt T kyz z))
               (seq 0 (length kxx))) /\
    (forall e, second_order ops kxx kyy kzz kxy kxz kyz = Err e -> e = ValueErr).
Proof. exact C40_second_order_symmetric_l. Qed.
Print Assumptions C40_second_order_symmetric.

(* ROTATION IS A SIMILARITY TRANSFORM.  For every matrix R and every cell matrix K the two
   tensordot contractions compute R K^T R^T (= R K R^T for symmetric K, and symmetric
   again); if R^T R = I then trace, determinant, second invariant and therefore the whole
   characteristic polynomial det(lam I - K) (hence the eigenvalues) are preserved. *)
Theorem C40_rotate_similarity :
  forall (T : Type) (rO rI : T) (radd rmul rsub : T -> T -> T) (ropp : T -> T),
    ring_theory rO rI radd rmul rsub ropp eq ->
  forall (neg : T -> bool) (R K : m33 T),
    let ops := rops T rO rI radd rmul rsub neg in
    rot1 ops R K = mmul ops (mmul ops R (transpose K)) (transpose R) /\
    (sym33 T K -> rot1 ops R K = mmul ops (mmul ops R K) (transpose R) /\
                  sym33 T (rot1 ops R K)) /\
    (orthogonal T rO rI radd rmul rsub neg R ->
       trace ops (rot1 ops R K) = trace ops K /\
       det ops (rot1 ops R K) = det ops K /\
       inv2 ops (rot1 ops R K) = inv2 ops K /\
       forall lam, det ops (lam_minus ops lam (rot1 ops R K)) = det ops (lam_minus ops lam K)).
Proof. exact C40_rotate_similarity_l. Qed.
Print Assumptions C40_rotate_similarity.

(* rotate acts cell by cell on the whole tensor *)
Theorem C40_rotate_cellwise :
  forall (T : Type) (rO rI : T) (radd rmul rsub : T -> T -> T) (neg : T -> bool)
         (R : m33 T) (t : list (m33 T)),
    let ops := rops T rO rI radd rmul rsub neg in
    length (rotate ops R t) = length t /\
    forall c d, nth c (rotate ops R t) (rot1 ops R d) = rot1 ops R (nth c t d).
Proof. exact rotate_cells. Qed.
Print Assumptions C40_rotate_cellwise.

(* RESTRICTION SELECTS THE GIVEN CELLS (numpy integer indexing: negative indices count from
   the end).  For a tensor made by the constructor, restrict_to_cells returns, for each
   requested index in [-Nc, Nc), exactly that cell's matrix, in the requested order; it
   succeeds iff all indices are in range, and otherwise raises IndexError. *)
Theorem C40_restrict_selects :
  forall (T : Type) (rO rI : T) (radd rmul rsub : T -> T -> T) (neg : T -> bool)
         kxx kyy kzz kxy kxz kyz (t : list (m33 T)) (cells : list Z),
    let ops := rops T rO rI radd rmul rsub neg in
    let n := Z.of_nat (length t) in
    second_order ops kxx kyy kzz kxy kxz kyz = Ok t ->
    (forall r, restrict2 ops t cells = Ok r ->
       Forall2 (fun c x => in_range n c /\ nth_error t (Z.to_nat (wrap n c)) = Some x) cells r) /\
    (Forall (in_range n) cells -> exists r, restrict2 ops t cells = Ok r) /\
    (forall e, restrict2 ops t cells = Err e ->
       e = IndexErr /\ Exists (fun c => ~ in_range n c) cells).
Proof. exact C40_restrict_selects_l. Qed.
Print Assumptions C40_restrict_selects.

(* COPY of a constructed tensor is an equal tensor (its arrays being independent of the
   original's is established by the execution correspondence, not by a theorem). *)
Theorem C40_copy_equal :
  forall (T : Type) (rO rI : T) (radd rmul rsub : T -> T -> T) (neg : T -> bool)
         kxx kyy kzz kxy kxz kyz (t : list (m33 T)) mu la (t4 : @tensor4 T),
    let ops := rops T rO rI radd rmul rsub neg in
    (second_order ops kxx kyy kzz kxy kxz kyz = Ok t -> copy2 ops t = Ok t) /\
    (fourth_order ops mu la = Ok t4 -> copy4 ops t4 = Ok t4).
Proof. exact C40_copy_equal_l. Qed.
Print Assumptions C40_copy_equal.

(* FOURTH-ORDER TENSOR.  The constructor succeeds iff mu and lmbda have the same length;
   each cell's 9x9 matrix (row 3i+j, column 3k+l) is the isotropic stiffness tensor
   lmbda d_ij d_kl + mu (d_ik d_jl + d_il d_jk), and is a symmetric 9x9 matrix. *)
Theorem C40_fourth_order_symmetric :
  forall (T : Type) (rO rI : T) (radd rmul rsub : T -> T -> T) (ropp : T -> T),
    ring_theory rO rI radd rmul rsub ropp eq ->
  forall (neg : T -> bool),
    let ops := rops T rO rI radd rmul rsub neg in
    (forall mu la : list T,
       (length mu = length la ->
          fourth_order ops mu la =
          Ok {| t_mu := mu; t_lmbda := la;
                t_values := map (fun ml => stiff_cell ops (fst ml) (snd ml)) (combine mu la) |}) /\
       (length mu <> length la -> fourth_order ops mu la = Err ValueErr)) /\
    (forall (mu la : T) i j k l,
       entry ops (stiff_cell ops mu la) (3 * n_of i + n_of j) (3 * n_of k + n_of l) =
       radd (rmul la (rmul (delta T rO rI i j) (delta T rO rI k l)))
            (rmul mu (radd (rmul (delta T rO rI i k) (delta T rO rI j l))
                           (rmul (delta T rO rI i l) (delta T rO rI j k))))) /\
    (forall (mu la : T),
       length (stiff_cell ops mu la) = 9 /\
       Forall (fun r => length r = 9) (stiff_cell ops mu la) /\
       forall p q, p < 9 -> q < 9 ->
         entry ops (stiff_cell ops mu la) p q = entry ops (stiff_cell ops mu la) q p).
Proof. exact C40_fourth_order_symmetric_l. Qed.
Print Assumptions C40_fourth_order_symmetric.

(* Restriction of a fourth-order tensor selects the cells of mu, lmbda and values alike,
   and the result is the tensor of the selected parameters; errors are IndexError for an
   index outside [-Nc, Nc). *)
Theorem C40_restrict_fourth_order :
  forall (T : Type) (rO rI : T) (radd rmul rsub : T -> T -> T) (neg : T -> bool)
         (mu la : list T) (t : @tensor4 T) (cells : list Z),
    let ops := rops T rO rI radd rmul rsub neg in
    fourth_order ops mu la = Ok t ->
    (forall t', restrict4 ops t cells = Ok t' ->
       take_cells mu cells = Ok (t_mu t') /\ take_cells la cells = Ok (t_lmbda t') /\
       take_cells (t_values t) cells = Ok (t_values t') /\
       fourth_order ops (t_mu t') (t_lmbda t') = Ok t') /\
    (forall e, restrict4 ops t cells = Err e ->
       e = IndexErr /\ Exists (fun c => ~ in_range (Z.of_nat (length mu)) c) cells).
Proof. exact C40_restrict_fourth_order_l. Qed.
Print Assumptions C40_restrict_fourth_order.

(* FOURTH-ORDER TENSOR WITH other_fields (any number type).  For a tensor built with extra
   constitutive fields: copy returns an equal tensor, and restrict_to_cells selects the
   requested cells of mu, lmbda, EVERY extra field and the values (basis matrices kept). *)
Theorem C40_other_fields_copy_restrict :
  forall (T : Type) (ops : numops T) (mu la : list T) (mats : list (list (list T)))
         (fields : list (list T)) (t : @tensor4x T) (cells : list Z),
    fourth_order_x ops mu la mats fields = Ok t ->
    copy4x ops t = Ok t /\
    (forall t', restrict4x ops t cells = Ok t' ->
       take_cells mu cells = Ok (x_mu t') /\ take_cells la cells = Ok (x_lmbda t') /\
       Forall2 (fun f f' => take_cells f cells = Ok f') fields (x_fields t') /\
       take_cells (x_values t) cells = Ok (x_values t') /\ x_mats t' = mats).
Proof. exact other_fields_l. Qed.
Print Assumptions C40_other_fields_copy_restrict.

From Coq Require Import QArith Qreals Reals.

(* INSTANCE INDEPENDENCE.  A map h between two number records that commutes with 0, +, *, -
   and the sign test commutes with every function of the model: constructor (tests
   included), rotate, copy, restriction, whole histories, the fourth-order constructor,
   its copy and restriction. *)
Theorem C40_instance_independence :
  forall (A B : Type) (oa : numops A) (ob : numops B) (h : A -> B),
    h (zero oa) = zero ob ->
    (forall x y, h (add oa x y) = add ob (h x) (h y)) ->
    (forall x y, h (mul oa x y) = mul ob (h x) (h y)) ->
    (forall x y, h (sub oa x y) = sub ob (h x) (h y)) ->
    (forall x, isneg ob (h x) = isneg oa x) ->
    (forall kxx kyy kzz kxy kxz kyz,
       second_order ob (map h kxx) (omap h kyy) (omap h kzz) (omap h kxy) (omap h kxz) (omap h kyz)
       = rmap (map (hm h)) (second_order oa kxx kyy kzz kxy kxz kyz)) /\
    (forall R t, rotate ob (hm h R) (map (hm h) t) = map (hm h) (rotate oa R t)) /\
    (forall t, copy2 ob (map (hm h) t) = rmap (map (hm h)) (copy2 oa t)) /\
    (forall t cells, restrict2 ob (map (hm h) t) cells = rmap (map (hm h)) (restrict2 oa t cells)) /\
    (forall ops_ t, run2 ob (map (hm h) t) (map (hop h) ops_)
                    = map (rmap (map (hm h))) (run2 oa t ops_)) /\
    (forall mu la, fourth_order ob (map h mu) (map h la) = rmap (h4 h) (fourth_order oa mu la)) /\
    (forall t, copy4 ob (h4 h t) = rmap (h4 h) (copy4 oa t)) /\
    (forall t cells, restrict4 ob (h4 h t) cells = rmap (h4 h) (restrict4 oa t cells)).
Proof. exact @hom_all. Qed.
Print Assumptions C40_instance_independence.

(* ... in particular the rational instance [QOps] executed by the execution correspondence
   is the real-number instance [ROpsT] (sign test by Rlt_dec) on Q2R-embedded data, so the
   ring theorems above (at T = R) speak about what is executed. *)
Theorem C40_transfer_Q_R :
  (forall kxx kyy kzz kxy kxz kyz,
     second_order ROpsT (map Q2R kxx) (omap Q2R kyy) (omap Q2R kzz) (omap Q2R kxy)
                  (omap Q2R kxz) (omap Q2R kyz)
     = rmap (map (hm Q2R)) (second_order QOps kxx kyy kzz kxy kxz kyz)) /\
  (forall ops_ t, run2 ROpsT (map (hm Q2R) t) (map (hop Q2R) ops_)
                  = map (rmap (map (hm Q2R))) (run2 QOps t ops_)) /\
  (forall mu la, fourth_order ROpsT (map Q2R mu) (map Q2R la)
                 = rmap (h4 Q2R) (fourth_order QOps mu la)) /\
  (forall t, copy4 ROpsT (h4 Q2R t) = rmap (h4 Q2R) (copy4 QOps t)) /\
  (forall t cells, restrict4 ROpsT (h4 Q2R t) cells = rmap (h4 Q2R) (restrict4 QOps t cells)).
Proof. exact transfer_Q_R. Qed.
Print Assumptions C40_transfer_Q_R.

(* ARGUMENT CHECKS of FourthOrderTensor.__init__: it succeeds exactly for two 1-D numpy
   arrays of equal size (and then is the tensor of C40_fourth_order_symmetric); every other
   combination (non-arrays, 0-d / 2-d arrays, different sizes) raises ValueError. *)
Theorem C40_fourth_order_argument_checks :
  forall (T : Type) (ops : numops T) (mu la : arg T),
    (forall t, fourth_order_checked ops mu la = Ok t ->
       exists dm dl, mu = Arr 1%nat dm /\ la = Arr 1%nat dl /\ length dm = length dl /\
                     fourth_order ops dm dl = Ok t) /\
    (forall e, fourth_order_checked ops mu la = Err e ->
       e = ValueErr /\
       (mu = NotArray \/ la = NotArray \/ (exists n d, mu = Arr n d /\ n <> 1%nat) \/
        (exists n d, la = Arr n d /\ n <> 1%nat) \/
        (exists dm dl, mu = Arr 1%nat dm /\ la = Arr 1%nat dl /\ length dm <> length dl))).
Proof. exact @fourth_order_checked_spec. Qed.
Print Assumptions C40_fourth_order_argument_checks.

(* COPY INDEPENDENCE on the allocation model (Model.C40_heap: which statements of tensor.py
   allocate an array and which bind an existing one).  For any tensor object t whose arrays
   exist: copy() and restrict_to_cells() return objects holding pairwise distinct, freshly
   allocated arrays, none of them an array of t — an in-place write to any array of the
   copy/restriction leaves every array of t unchanged and vice versa; rotate rebinds
   `values` to a new array.  (That the implementation allocates where the model says is
   checked on every run: np.shares_memory matrix vs the model's ids.) *)
Theorem C40_copy_independent :
  forall (s : nat) (t : obj), older s t ->
    (let (c, s') := copy4h s t in
       NoDup (ids c) /\ disjoint t c /\ disjoint c t /\
       forall {V} (hp : nat -> V) v,
         (forall i j, In i (ids c) -> In j (ids t) -> write hp i v j = hp j) /\
         (forall i j, In i (ids t) -> In j (ids c) -> write hp i v j = hp j)) /\
    (let (r, s') := restrict4h s t in
       NoDup (ids r) /\ disjoint t r /\ disjoint r t /\
       forall {V} (hp : nat -> V) v,
         (forall i j, In i (ids r) -> In j (ids t) -> write hp i v j = hp j) /\
         (forall i j, In i (ids t) -> In j (ids r) -> write hp i v j = hp j)) /\
    (let (c, s') := copy2h s t in disjoint t c /\ disjoint c t) /\
    (let (r, s') := restrict2h s t in disjoint t r /\ disjoint r t) /\
    (let (t', s') := rotateh s t in ~ In (o_values t') (ids t) /\ o_fields t' = o_fields t).
Proof. exact independence_lemma. Qed.
Print Assumptions C40_copy_independent.

(* Non-vacuity over the ring of integers: a constructed anisotropic tensor, an orthogonal
   matrix (quarter turn about z), its rotation, a restriction with a negative index. *)
Example C40_nonvacuous :
  let ops := rops Z 0%Z 1%Z Z.add Z.mul Z.sub (fun x => (x <? 0)%Z) in
  let R : m33 Z := ((0, -1, 0), (1, 0, 0), (0, 0, 1))%Z in
  exists t,
    second_order ops [2; 5]%Z (Some [3; 1]%Z) None (Some [1; 2]%Z) None None = Ok t /\
    t = [((2, 1, 0), (1, 3, 0), (0, 0, 2)); ((5, 2, 0), (2, 1, 0), (0, 0, 5))]%Z /\
    orthogonal Z 0%Z 1%Z Z.add Z.mul Z.sub (fun x => (x <? 0)%Z) R /\
    rotate ops R t = [((3, -1, 0), (-1, 2, 0), (0, 0, 2)); ((1, -2, 0), (-2, 5, 0), (0, 0, 5))]%Z /\
    restrict2 ops t [-1; 0]%Z = Ok [((5, 2, 0), (2, 1, 0), (0, 0, 5)); ((2, 1, 0), (1, 3, 0), (0, 0, 2))]%Z /\
    ring_theory 0%Z 1%Z Z.add Z.mul Z.sub Z.opp eq.
Proof.
  cbv zeta. eexists. split; [vm_compute; reflexivity|].
  split; [reflexivity|]. split; [vm_compute; reflexivity|]. split; [vm_compute; reflexivity|].
  split; [vm_compute; reflexivity|]. exact Zth.
Qed.

Example C40_nonvacuous2 :
  fourth_order_checked QOps (Arr 1%nat [1 # 2; 3 # 1]%Q) (Arr 1%nat [2 # 1; 0 # 1]%Q) =
    fourth_order QOps [1 # 2; 3 # 1]%Q [2 # 1; 0 # 1]%Q /\
  (exists t, fourth_order QOps [1 # 2; 3 # 1]%Q [2 # 1; 0 # 1]%Q = Ok t) /\
  fourth_order_checked QOps (Arr 2%nat [1 # 2; 3 # 1]%Q) (Arr 1%nat [2 # 1; 0 # 1]%Q) = Err ValueErr /\
  fourth_order_checked QOps NotArray (Arr 1%nat [2 # 1]%Q) = Err ValueErr /\
  (exists t, second_order QOps [2 # 1]%Q None None (Some [1 # 2]%Q) None None = Ok t /\
             hm Q2R (nth 0 t ((0,0,0),(0,0,0),(0,0,0))%Q) =
             ((Q2R (2 # 1), Q2R (1 # 2), Q2R 0), (Q2R (1 # 2), Q2R (2 # 1), Q2R 0),
              (Q2R 0, Q2R 0, Q2R (2 # 1)))).
Proof.
  split; [reflexivity|]. split; [vm_compute; eexists; reflexivity|].
  split; [reflexivity|]. split; [reflexivity|].
  eexists. split; [vm_compute; reflexivity|]. reflexivity.
Qed.

Example C40_nonvacuous3 :
  let (t, s1) := construct4 3 [0; 1; 2]%nat in
  older s1 t /\ ids t = [3; 0; 1; 2]%nat /\
  fst (copy4h s1 t) = {| o_values := 8; o_fields := [4; 5; 6] |}%nat /\
  agree_alias4 1 (share_matrix [0; 1; 2; 3; 0; 1; 2; 8; 4; 5; 6; 14; 10; 11; 12; 20; 15; 16; 17]%nat) = true.
Proof.
  cbn. repeat split; try reflexivity. unfold older. repeat constructor.
Qed.
