(* C15 — Biot coupling terms are consistent: property theorems only.
   METHOD-LEVEL theorems (DESIGN.md §1.1 P-method) about (1) the face-sum form of the
   divergence of a linear displacement, (2) sparse rows applied to sampled linear fields,
   (3) rows applied to constant pressures, for ALL rational data.  They say nothing about
   biot.py by themselves: the harness evaluates the checkers of PP.Model.C15 (check) on the
   real Biot matrices and geometry arrays of every generated instance (certificate tie);
   C15_certificate_sound / C15_exact_certificates connect those booleans to the theorems.

   Vocabulary (PP.Model.C15): columns of a cell row = [cell displacements nd*nc |
   boundary displacements nd*nf];  ustate I theta = the samples of u = A x + b with
   theta = [A row-major; b] at cell centres and boundary face centres (0 on interior
   faces);  basis I m = the samples of the basis fields e_k x_l (m = k*nd + l) and e_k
   (m = nd*nd + k);  div_target I c m = alpha * delta_kl * |K_c| resp. 0. *)
From Coq Require Import List ZArith QArith Qabs Bool Arith Lia.
Import ListNotations.
From PP Require Import Lib.RowLin Model.C15 Proofs.C15.
Local Open Scope Q_scope.

(* For any cell given by signed faces (sign, normal, centre), any A and b:
   sum_f s_f (A x_f + b).n_f = sum_ij A_ij M_ij + sum_i b_i N_i  with the geometric moments
   N_i = sum_f s n_fi,  M_ij = sum_f s x_fj n_fi. *)
Theorem C15_div_u_identity :
  forall (fs : list face) (A : m3) (b : v3),
    face_div fs A b ==
      cmp 0 (mrow 0 A) * Mom fs 0 0 + cmp 1 (mrow 0 A) * Mom fs 0 1 + cmp 2 (mrow 0 A) * Mom fs 0 2
    + cmp 0 (mrow 1 A) * Mom fs 1 0 + cmp 1 (mrow 1 A) * Mom fs 1 1 + cmp 2 (mrow 1 A) * Mom fs 1 2
    + cmp 0 (mrow 2 A) * Mom fs 2 0 + cmp 1 (mrow 2 A) * Mom fs 2 1 + cmp 2 (mrow 2 A) * Mom fs 2 2
    + cmp 0 b * Nrm fs 0 + cmp 1 b * Nrm fs 1 + cmp 2 b * Nrm fs 2.
Proof. exact div_u_identity. Qed.
Print Assumptions C15_div_u_identity.

(* With the divergence-theorem identities  sum_f s n_f = 0  and  sum_f s x_f n_f^T = |K| I
   (C19's identities, validated per instance by geo_ok): exact face displacements of
   u = A x + b give  sum_f s u(x_f).n_f = tr(A) |K|. *)
Theorem C15_div_u :
  forall (fs : list face) (A : m3) (b : v3) (V : Q),
    (forall i, (i < 3)%nat -> Nrm fs i == 0) ->
    (forall i j, (i < 3)%nat -> (j < 3)%nat -> Mom fs i j == if Nat.eqb i j then V else 0) ->
    face_div fs A b == trace A * V.
Proof. exact div_u_3d. Qed.
Print Assumptions C15_div_u.

Theorem C15_div_u_2d :
  forall (fs : list face) (a00 a01 a10 a11 b0 b1 V : Q),
    (forall i, (i < 2)%nat -> Nrm fs i == 0) ->
    (forall i j, (i < 2)%nat -> (j < 2)%nat -> Mom fs i j == if Nat.eqb i j then V else 0) ->
    face_div fs ((a00, a01, 0), (a10, a11, 0), (0, 0, 0)) (b0, b1, 0) == (a00 + a11) * V.
Proof. exact div_u_2d. Qed.
Print Assumptions C15_div_u_2d.

(* The sampled state really is the linear field: u_k = sum_l A_kl x_l + b_k at the point of
   the column (cell centre / boundary face centre), 0 on interior-face columns. *)
Theorem C15_ustate_is_linear_field :
  (forall I j a00 a01 a10 a11 b0 b1,
    i_nd I = 2%nat ->
    ustate I [a00; a01; a10; a11; b0; b1] j ==
      if col_active I j then
        match col_comp I j with
        | 0%nat => a00 * col_x I j 0 + a01 * col_x I j 1 + b0
        | 1%nat => a10 * col_x I j 0 + a11 * col_x I j 1 + b1
        | _ => 0
        end
      else 0)
  /\
  (forall I j a00 a01 a02 a10 a11 a12 a20 a21 a22 b0 b1 b2,
    i_nd I = 3%nat ->
    ustate I [a00; a01; a02; a10; a11; a12; a20; a21; a22; b0; b1; b2] j ==
      if col_active I j then
        match col_comp I j with
        | 0%nat => a00 * col_x I j 0 + a01 * col_x I j 1 + a02 * col_x I j 2 + b0
        | 1%nat => a10 * col_x I j 0 + a11 * col_x I j 1 + a12 * col_x I j 2 + b1
        | 2%nat => a20 * col_x I j 0 + a21 * col_x I j 1 + a22 * col_x I j 2 + b2
        | _ => 0
        end
      else 0).
Proof. split; [exact ustate_is_linear_field_2d | exact ustate_is_linear_field_3d]. Qed.
Print Assumptions C15_ustate_is_linear_field.

(* Basis-field certificates + linearity: if the row of cell c of
   [displacement_divergence | boundary_displacement_divergence] returns
   alpha * delta_kl * |K_c| on e_k x_l and 0 on e_k, it returns alpha * tr(A) * |K_c| on
   EVERY linear field. *)
Theorem C15_linear_fields_2d :
  forall (I : inst) (c : nat) (a00 a01 a10 a11 b0 b1 : Q),
    i_nd I = 2%nat ->
    (forall m, (m < nparam I)%nat ->
       rdot (nth c (i_drows I) []) (basis I m) == div_target I c m) ->
    rdot (nth c (i_drows I) []) (ustate I [a00; a01; a10; a11; b0; b1])
    == i_alpha I * (a00 + a11) * nth c (i_vols I) 0.
Proof. exact linear_fields_2d. Qed.
Print Assumptions C15_linear_fields_2d.

Theorem C15_linear_fields_3d :
  forall (I : inst) (c : nat) (a00 a01 a02 a10 a11 a12 a20 a21 a22 b0 b1 b2 : Q),
    i_nd I = 3%nat ->
    (forall m, (m < nparam I)%nat ->
       rdot (nth c (i_drows I) []) (basis I m) == div_target I c m) ->
    rdot (nth c (i_drows I) []) (ustate I [a00; a01; a02; a10; a11; a12; a20; a21; a22; b0; b1; b2])
    == i_alpha I * (a00 + a11 + a22) * nth c (i_vols I) 0.
Proof. exact linear_fields_3d. Qed.
Print Assumptions C15_linear_fields_3d.

(* Constant pressure: a scalar-gradient row whose entries sum to -alpha * n gives
   -alpha * p * n for every p. *)
Theorem C15_grad_p :
  forall (r : row) (p alpha n : Q),
    rdot r ones == - alpha * n -> rdot r (fun _ => p) == - alpha * p * n.
Proof. exact grad_p. Qed.
Print Assumptions C15_grad_p.

(* Soundness of the checker the tie evaluates, tolerance included: if check tol I = true then
   for EVERY linear field theta = [A; b] the divergence row of every cell is within
   sum_m |theta_m| * tol * (1 + sum|terms of row . basis_m|) of  sum_m theta_m * target_m
   (= alpha tr(A) |K_c|, lemmas trace_target_2d/_3d), and for every constant pressure p every
   scalar-gradient row is within |p| * tol * (1 + sum|row|) of  -alpha p n_fk. *)
Theorem C15_certificate_sound :
  forall (tol : Q) (I : inst),
    check tol I = true ->
    (forall c theta, (c < i_nc I)%nat -> length theta = nparam I ->
       Qabs (rdot (nth c (i_drows I) []) (ustate I theta) - tsum 0 theta (div_target I c))
       <= div_bound tol I c theta)
    /\ (forall q p, (q < i_nd I * i_nf I)%nat ->
       Qabs (rdot (nth q (i_grows I) []) (fun _ => p) - p * grad_target I q)
       <= Qabs p * (tol * (1 + rabs (nth q (i_grows I) []) ones))).
Proof. exact certificate_sound. Qed.
Print Assumptions C15_certificate_sound.

(* With tolerance 0 the checkers give the exact hypotheses of C15_linear_fields / C15_grad_p. *)
Theorem C15_exact_certificates :
  forall I : inst,
    div_ok 0 I = true -> grad_ok 0 I = true ->
    (forall c m, (c < i_nc I)%nat -> (m < nparam I)%nat ->
       rdot (nth c (i_drows I) []) (basis I m) == div_target I c m)
    /\ (forall q, (q < i_nd I * i_nf I)%nat ->
       rdot (nth q (i_grows I) []) ones == grad_target I q).
Proof. exact exact_certificates. Qed.
Print Assumptions C15_exact_certificates.

(* Non-vacuity: the real Biot matrices of CartGrid([2,1]) (alpha = 1/2) satisfy every
   certificate exactly; for u = (x + 2y + 1, 3x + 4y - 1) the divergence rows give
   alpha * tr(A) * |K| = 1/2 * 5 * 1 in both cells, and the scalar-gradient row of face 1
   (normal (1,0)), x-component, gives -alpha * p * n = -3/2 for p = 3. *)
Example C15_nonvacuous :
  check 0 ex_inst = true /\
  rdot (nth 0 (i_drows ex_inst) []) (ustate ex_inst [1; 2; 3; 4; 1; -(1)]) == 5 # 2 /\
  rdot (nth 1 (i_drows ex_inst) []) (ustate ex_inst [1; 2; 3; 4; 1; -(1)]) == 5 # 2 /\
  rdot (nth 2 (i_grows ex_inst) []) (fun _ => 3) == -(3 # 2).
Proof.
  split; [exact ex_inst_check|].
  assert (Hd : div_ok 0 ex_inst = true) by (vm_compute; reflexivity).
  assert (Hg : grad_ok 0 ex_inst = true) by (vm_compute; reflexivity).
  destruct (exact_certificates ex_inst Hd Hg) as [H1 H2].
  split; [|split].
  - rewrite (linear_fields_2d ex_inst 0 1 2 3 4 1 (-(1)) eq_refl (fun m Hm => H1 0%nat m ltac:(cbn; lia) Hm)).
    vm_compute. reflexivity.
  - rewrite (linear_fields_2d ex_inst 1 1 2 3 4 1 (-(1)) eq_refl (fun m Hm => H1 1%nat m ltac:(cbn; lia) Hm)).
    vm_compute. reflexivity.
  - rewrite (grad_p _ 3 (1 # 2) 1); [vm_compute; reflexivity|].
    rewrite (H2 2%nat) by (cbn; lia). vm_compute. reflexivity.
Qed.

(* Non-vacuity of the divergence-theorem form: the unit square. *)
Example C15_nonvacuous_div_u :
  (forall i, (i < 2)%nat -> Nrm ex_square i == 0) /\
  (forall i j, (i < 2)%nat -> (j < 2)%nat -> Mom ex_square i j == if Nat.eqb i j then 1 else 0) /\
  face_div ex_square ((1, 2, 0), (3, 4, 0), (0, 0, 0)) (1, -(1), 0) == 5.
Proof.
  split; [|split].
  - intros i Hi. destruct i as [|[|i]]; [vm_compute; reflexivity..|lia].
  - intros i j Hi Hj. destruct i as [|[|i]]; destruct j as [|[|j]]; try lia; vm_compute; reflexivity.
  - vm_compute. reflexivity.
Qed.
