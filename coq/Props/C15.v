(* C15 — Biot coupling terms are consistent: property theorems only.
   METHOD-LEVEL theorems (DESIGN.md §1.1 P-method) about (1) the face-sum form of the
   divergence of a linear displacement, (2) sparse rows applied to sampled linear fields,
   (3) rows applied to constant pressures, for ALL rational data.  They say nothing about
   biot.py by themselves: the harness evaluates the checkers of PP.Model.C15 (check) on the
   real Biot matrices and geometry arrays of every generated instance (certificate tie);
   C15_certificate_sound / C15_exact_certificates connect those booleans to the theorems.

   Vocabulary (PP.Model.C15): columns of a cell row = [cell displacements nd*nc |
   boundary displacements nd*nf];  ustate I theta = the samples of u = A x + b with
   theta = [A row-major; b] at cell centres and boundary face centres (0 on interior
   faces);  basis I m = the samples of the basis fields e_k x_l (m = k*nd + l) and e_k
   (m = nd*nd + k);  al I k l = entry (k,l) of the symmetric coupling tensor alpha (a scalar
   coefficient a is a*I: scalar_alpha I a);  div_target I c m = alpha_kl * |K_c| resp. 0;
   grad_target I q = -(alpha n_f)_k. *)
From Coq Require Import List ZArith QArith Qabs Bool Arith Lia.
Import ListNotations.
From PP Require Import Lib.RowLin Model.C15 Proofs.C15.
Local Open Scope Q_scope.

(* For any cell given by signed faces (sign, normal, centre), any A and b:
   sum_f s_f (A x_f + b).n_f = sum_ij A_ij M_ij + sum_i b_i N_i  with the geometric moments
   N_i = sum_f s n_fi,  M_ij = sum_f s x_fj n_fi. *)
Theorem C15_div_u_identity :
  forall (fs : list face) (A : m3) (b : v3),
    face_div fs A b ==
      cmp 0 (mrow 0 A) * Mom fs 0 0 + cmp 1 (mrow 0 A) * Mom fs 0 1 + cmp 2 (mrow 0 A) * Mom fs 0 2
    + cmp 0 (mrow 1 A) * Mom fs 1 0 + cmp 1 (mrow 1 A) * Mom fs 1 1 + cmp 2 (mrow 1 A) * Mom fs 1 2
    + cmp 0 (mrow 2 A) * Mom fs 2 0 + cmp 1 (mrow 2 A) * Mom fs 2 1 + cmp 2 (mrow 2 A) * Mom fs 2 2
    + cmp 0 b * Nrm fs 0 + cmp 1 b * Nrm fs 1 + cmp 2 b * Nrm fs 2.
Proof. exact div_u_identity. Qed.
Print Assumptions C15_div_u_identity.

(* With the divergence-theorem identities  sum_f s n_f = 0  and  sum_f s x_f n_f^T = |K| I
   (C19's identities, validated per instance by geo_ok): exact face displacements of
   u = A x + b give  sum_f s u(x_f).n_f = tr(A) |K|. *)
Theorem C15_div_u :
  forall (fs : list face) (A : m3) (b : v3) (V : Q),
    (forall i, (i < 3)%nat -> Nrm fs i == 0) ->
    (forall i j, (i < 3)%nat -> (j < 3)%nat -> Mom fs i j == if Nat.eqb i j then V else 0) ->
    face_div fs A b == trace A * V.
Proof. exact div_u_3d. Qed.
Print Assumptions C15_div_u.

Theorem C15_div_u_2d :
  forall (fs : list face) (a00 a01 a10 a11 b0 b1 V : Q),
    (forall i, (i < 2)%nat -> Nrm fs i == 0) ->
    (forall i j, (i < 2)%nat -> (j < 2)%nat -> Mom fs i j == if Nat.eqb i j then V else 0) ->
    face_div fs ((a00, a01, 0), (a10, a11, 0), (0, 0, 0)) (b0, b1, 0) == (a00 + a11) * V.
Proof. exact div_u_2d. Qed.
Print Assumptions C15_div_u_2d.

(* The sampled state really is the linear field: u_k = sum_l A_kl x_l + b_k at the point of
   the column (cell centre / boundary face centre), 0 on interior-face columns. *)
Theorem C15_ustate_is_linear_field :
  (forall I j a00 a01 a10 a11 b0 b1,
    i_nd I = 2%nat ->
    ustate I [a00; a01; a10; a11; b0; b1] j ==
      if col_active I j then
        match col_comp I j with
        | 0%nat => a00 * col_x I j 0 + a01 * col_x I j 1 + b0
        | 1%nat => a10 * col_x I j 0 + a11 * col_x I j 1 + b1
        | _ => 0
        end
      else 0)
  /\
  (forall I j a00 a01 a02 a10 a11 a12 a20 a21 a22 b0 b1 b2,
    i_nd I = 3%nat ->
    ustate I [a00; a01; a02; a10; a11; a12; a20; a21; a22; b0; b1; b2] j ==
      if col_active I j then
        match col_comp I j with
        | 0%nat => a00 * col_x I j 0 + a01 * col_x I j 1 + a02 * col_x I j 2 + b0
        | 1%nat => a10 * col_x I j 0 + a11 * col_x I j 1 + a12 * col_x I j 2 + b1
        | 2%nat => a20 * col_x I j 0 + a21 * col_x I j 1 + a22 * col_x I j 2 + b2
        | _ => 0
        end
      else 0).
Proof. split; [exact ustate_is_linear_field_2d | exact ustate_is_linear_field_3d]. Qed.
Print Assumptions C15_ustate_is_linear_field.

(* Basis-field certificates + linearity: if the row of cell c of
   [displacement_divergence | boundary_displacement_divergence] returns alpha_kl * |K_c| on
   e_k x_l and 0 on e_k, it returns (alpha : A) * |K_c| = sum_kl alpha_kl A_kl |K_c| on EVERY
   linear field u = A x + b (tensor coupling coefficient) ... *)
Theorem C15_linear_fields_2d :
  forall (I : inst) (c : nat) (a00 a01 a10 a11 b0 b1 : Q),
    i_nd I = 2%nat ->
    (forall m, (m < nparam I)%nat ->
       rdot (nth c (i_drows I) []) (basis I m) == div_target I c m) ->
    rdot (nth c (i_drows I) []) (ustate I [a00; a01; a10; a11; b0; b1])
    == (al I 0 0 * a00 + al I 0 1 * a01 + al I 1 0 * a10 + al I 1 1 * a11) * nth c (i_vols I) 0.
Proof. exact linear_fields_2d. Qed.
Print Assumptions C15_linear_fields_2d.

Theorem C15_linear_fields_3d :
  forall (I : inst) (c : nat) (a00 a01 a02 a10 a11 a12 a20 a21 a22 b0 b1 b2 : Q),
    i_nd I = 3%nat ->
    (forall m, (m < nparam I)%nat ->
       rdot (nth c (i_drows I) []) (basis I m) == div_target I c m) ->
    rdot (nth c (i_drows I) []) (ustate I [a00; a01; a02; a10; a11; a12; a20; a21; a22; b0; b1; b2])
    == (al I 0 0 * a00 + al I 0 1 * a01 + al I 0 2 * a02
        + al I 1 0 * a10 + al I 1 1 * a11 + al I 1 2 * a12
        + al I 2 0 * a20 + al I 2 1 * a21 + al I 2 2 * a22) * nth c (i_vols I) 0.
Proof. exact linear_fields_3d. Qed.
Print Assumptions C15_linear_fields_3d.

(* ... and alpha * tr(A) * |K_c| = alpha * div(u) * |K_c| for a scalar coefficient. *)
Theorem C15_linear_fields_scalar :
  (forall (I : inst) (c : nat) (a a00 a01 a10 a11 b0 b1 : Q),
    i_nd I = 2%nat -> scalar_alpha I a ->
    (forall m, (m < nparam I)%nat ->
       rdot (nth c (i_drows I) []) (basis I m) == div_target I c m) ->
    rdot (nth c (i_drows I) []) (ustate I [a00; a01; a10; a11; b0; b1])
    == a * (a00 + a11) * nth c (i_vols I) 0)
  /\
  (forall (I : inst) (c : nat) (a a00 a01 a02 a10 a11 a12 a20 a21 a22 b0 b1 b2 : Q),
    i_nd I = 3%nat -> scalar_alpha I a ->
    (forall m, (m < nparam I)%nat ->
       rdot (nth c (i_drows I) []) (basis I m) == div_target I c m) ->
    rdot (nth c (i_drows I) []) (ustate I [a00; a01; a02; a10; a11; a12; a20; a21; a22; b0; b1; b2])
    == a * (a00 + a11 + a22) * nth c (i_vols I) 0).
Proof. split; [exact linear_fields_2d_scalar | exact linear_fields_3d_scalar]. Qed.
Print Assumptions C15_linear_fields_scalar.

(* Constant pressure: a scalar-gradient row whose entries sum to -(alpha n_f)_k gives
   -p (alpha n_f)_k for every p (for a scalar coefficient: -alpha p n_fk). *)
Theorem C15_grad_p :
  forall (r : row) (p an : Q),
    rdot r ones == - an -> rdot r (fun _ => p) == - (p * an).
Proof. exact grad_p. Qed.
Print Assumptions C15_grad_p.

(* Soundness of the checker the tie evaluates, tolerance included: if check tol I = true then
   for EVERY linear field theta = [A; b] the divergence row of every cell is within
   sum_m |theta_m| * tol * (1 + sum|terms of row . basis_m|) of  sum_m theta_m * target_m
   (= alpha tr(A) |K_c|, lemmas trace_target_2d/_3d), and for every constant pressure p every
   scalar-gradient row is within |p| * tol * (1 + sum|row|) of  -alpha p n_fk. *)
Theorem C15_certificate_sound :
  forall (tol : Q) (I : inst),
    check tol I = true ->
    (forall c theta, (c < i_nc I)%nat -> length theta = nparam I ->
       Qabs (rdot (nth c (i_drows I) []) (ustate I theta) - tsum 0 theta (div_target I c))
       <= div_bound tol I c theta)
    /\ (forall q p, (q < i_nd I * i_nf I)%nat ->
       Qabs (rdot (nth q (i_grows I) []) (fun _ => p) - p * grad_target I q)
       <= Qabs p * (tol * (1 + rabs (nth q (i_grows I) []) ones))).
Proof. exact certificate_sound. Qed.
Print Assumptions C15_certificate_sound.

(* The divergence-theorem form on the cells of an instance, UNDER THE GUARD i_planar I = true
   (all faces planar).  check evaluates the geometric identities sum_f s n_f = 0 and
   sum_f s x_f n_f^T = |K| I only on such instances; they are NOT expected of porepy's face
   centres / normals on grids with non-planar faces (3-D hexahedra with moved corners), see
   C15_nonplanar_example.  On a planar instance that passed check, for every cell c and every
   linear field the face sum  sum_f s u(x_f).n_f  over the real geometry is within the stated
   bound of tr(A) |K_c|. *)
Theorem C15_div_u_on_planar_instance :
  (forall (tol : Q) (I : inst) (c : nat) (A : m3) (b : v3),
    check tol I = true -> i_planar I = true -> i_nd I = 3%nat -> (c < i_nc I)%nat ->
    Qabs (face_div (cell_faces_of I c) A b - trace A * nth c (i_vols I) 0)
    <= tsum 0 (map Qabs (theta3 A b)) (geo_eps3 tol I c))
  /\
  (forall (tol : Q) (I : inst) (c : nat) (a00 a01 a10 a11 b0 b1 : Q),
    check tol I = true -> i_planar I = true -> i_nd I = 2%nat -> (c < i_nc I)%nat ->
    Qabs (face_div (cell_faces_of I c) ((a00, a01, 0), (a10, a11, 0), (0, 0, 0)) (b0, b1, 0)
          - (a00 + a11) * nth c (i_vols I) 0)
    <= tsum 0 (map Qabs [a00; a01; a10; a11; b0; b1]) (geo_eps2 tol I c)).
Proof. split; [exact div_u_on_instance_3d | exact div_u_on_instance_2d]. Qed.
Print Assumptions C15_div_u_on_planar_instance.

(* Scale-free accuracy: check also holds the basis-field values of every divergence row and the
   row sum of every scalar-gradient row to a PURELY RELATIVE tolerance (no absolute floor; a
   scalar-gradient component is measured relative to its own terms plus the magnitude of the
   expected force vector of ITS face, so a component whose exact value is 0 may carry rounding
   noise of the size of the other components), so
   matrices with tiny entries (micrometre cells, tiny coupling coefficients) are held to the same
   relative accuracy as unit-scale ones. *)
Theorem C15_relative_certificate :
  forall (tol : Q) (I : inst),
    check tol I = true ->
    (forall c m, (c < i_nc I)%nat -> (m < nparam I)%nat ->
       Qabs (rdot (nth c (i_drows I) []) (basis I m) - div_target I c m)
       <= tol * (rabs (nth c (i_drows I) []) (basis I m) + Qabs (div_target I c m)))
    /\ (forall q, (q < i_nd I * i_nf I)%nat ->
       Qabs (rdot (nth q (i_grows I) []) ones - grad_target I q)
       <= tol * (rabs (nth q (i_grows I) []) ones + Qabs (grad_target I q) + face_mag I q)).
Proof. exact relative_certificate. Qed.
Print Assumptions C15_relative_certificate.

(* With tolerance 0 the checkers give the exact hypotheses of C15_linear_fields / C15_grad_p. *)
Theorem C15_exact_certificates :
  forall I : inst,
    div_ok 0 I = true -> grad_ok 0 I = true ->
    (forall c m, (c < i_nc I)%nat -> (m < nparam I)%nat ->
       rdot (nth c (i_drows I) []) (basis I m) == div_target I c m)
    /\ (forall q, (q < i_nd I * i_nf I)%nat ->
       rdot (nth q (i_grows I) []) ones == grad_target I q).
Proof. exact exact_certificates. Qed.
Print Assumptions C15_exact_certificates.

(* Non-vacuity: the real Biot matrices of CartGrid([2,1]) (scalar coefficient 1/2) satisfy every
   certificate exactly; for u = (x + 2y + 1, 3x + 4y - 1) the divergence rows give
   alpha * tr(A) * |K| = 1/2 * 5 * 1 in both cells, the scalar-gradient row of face 1
   (normal (1,0)), x-component, gives -alpha * p * n = -3/2 for p = 3, and the instance is planar,
   so the face sums of its cells are exactly tr(A)|K| (bound 0 at tolerance 0). *)
Example C15_nonvacuous :
  check 0 ex_inst = true /\ scalar_alpha ex_inst (1 # 2) /\ i_planar ex_inst = true /\
  rdot (nth 0 (i_drows ex_inst) []) (ustate ex_inst [1; 2; 3; 4; 1; -(1)]) == 5 # 2 /\
  rdot (nth 1 (i_drows ex_inst) []) (ustate ex_inst [1; 2; 3; 4; 1; -(1)]) == 5 # 2 /\
  rdot (nth 2 (i_grows ex_inst) []) (fun _ => 3) == -(3 # 2) /\
  face_div (cell_faces_of ex_inst 1) ((1, 2, 0), (3, 4, 0), (0, 0, 0)) (1, -(1), 0) == 5.
Proof.
  split; [exact ex_inst_check|].
  assert (Hs : scalar_alpha ex_inst (1 # 2)).
  { intros k l Hk Hl. change (i_nd ex_inst) with 2%nat in Hk, Hl.
    destruct k as [|[|k]]; destruct l as [|[|l]]; try lia; vm_compute; reflexivity. }
  split; [exact Hs|]. split; [reflexivity|].
  assert (Hd : div_ok 0 ex_inst = true) by (vm_compute; reflexivity).
  assert (Hg : grad_ok 0 ex_inst = true) by (vm_compute; reflexivity).
  destruct (exact_certificates ex_inst Hd Hg) as [H1 H2].
  split; [|split; [|split]].
  - rewrite (linear_fields_2d_scalar ex_inst 0 (1 # 2) 1 2 3 4 1 (-(1)) eq_refl Hs
               (fun m Hm => H1 0%nat m ltac:(cbn; lia) Hm)).
    vm_compute. reflexivity.
  - rewrite (linear_fields_2d_scalar ex_inst 1 (1 # 2) 1 2 3 4 1 (-(1)) eq_refl Hs
               (fun m Hm => H1 1%nat m ltac:(cbn; lia) Hm)).
    vm_compute. reflexivity.
  - rewrite (grad_p _ 3 (1 # 2)); [vm_compute; reflexivity|].
    rewrite (H2 2%nat) by (cbn; lia). vm_compute. reflexivity.
  - vm_compute. reflexivity.
Qed.

(* The guard is not idle: a single hexahedron with moved corners (non-planar faces), real
   pp.Biot matrices and real geometry arrays.  The Biot certificates hold (check accepts with
   tolerance 1e-9, the geometric identities being skipped because i_planar = false), while the
   first-moment identity is violated at the 1e-3 level. *)
Example C15_nonplanar_example :
  i_planar ex_nonplanar = false /\ check (1 # 1000000000) ex_nonplanar = true /\
  geo_ok (1 # 1000) ex_nonplanar = false.
Proof. repeat split; vm_compute; reflexivity. Qed.

(* Non-vacuity of the divergence-theorem form: the unit square. *)
Example C15_nonvacuous_div_u :
  (forall i, (i < 2)%nat -> Nrm ex_square i == 0) /\
  (forall i j, (i < 2)%nat -> (j < 2)%nat -> Mom ex_square i j == if Nat.eqb i j then 1 else 0) /\
  face_div ex_square ((1, 2, 0), (3, 4, 0), (0, 0, 0)) (1, -(1), 0) == 5.
Proof.
  split; [|split].
  - intros i Hi. destruct i as [|[|i]]; [vm_compute; reflexivity..|lia].
  - intros i j Hi Hj. destruct i as [|[|i]]; destruct j as [|[|j]]; try lia; vm_compute; reflexivity.
  - vm_compute. reflexivity.
Qed.
