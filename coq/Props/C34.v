(* C34 — property theorems only.  Model: PP.Model.C34 (faithful transcription of
   uniquify_point_set, exact integer arithmetic, sqrt eliminated by squaring; the flag
   [chained] selects the variant that compares every norm with the previous one);
   proofs: PP.Proofs.C34.

   Vocabulary (PP.Proofs.C34): [cl t pts i j] = points i and j are closer than tol
   (sum of squared differences < t^2, as the code tests it); [trans_in_range] = "closer than
   tol" is transitive on the input, i.e. the input consists of WELL-SEPARATED CLUSTERS
   (diameter < tol, different clusters >= tol apart); [keyn pts i] = squared norm of point
   i; [cross_free t pts [] gs] = no two points closer than tol lie in two different norm
   clusters of gs; [sidx] = any permutation of the indices (the theorems do not depend on
   how argsort orders equal norms).

   Second part (PP.Model.C34b / PP.Proofs.C34b): ismember_columns and intersect_sets on
   integer columns of any sign.  External calls are parameters with their contract as
   hypothesis: np.argsort inside ismember_columns ([sort_contract]: some permutation of
   range(len b) along which the keys are non-decreasing — numpy's default sort is not
   stable) and scipy's KD-tree ball query inside intersect_sets ([query_contract]).

   NOT proved: the float evaluation of the comparisons (trusted on the generated dyadic
   data); that np.unique(axis=1) orders columns lexicographically (only that it is
   duplicate free with the same members is used; the order is checked by the tie). *)
From Coq Require Import List ZArith Arith Lia Permutation Sorted.
Import ListNotations.
From PP Require Model.C46.
From PP Require Import Model.C34 Proofs.C34 Model.C34b Proofs.C34b.

(* Key lemma (reverse triangle inequality without square roots, via Cauchy-Schwarz):
   two points whose squared norms lie on different sides of a norm-cluster boundary
   (|n1 - n2| > tol in the code's test) are at least tol apart. *)
Theorem C34_norm_boundary_separates :
  forall (t s1 s2 : Z) (x y : pt),
    (0 <= t)%Z -> length x = length y -> brk t s1 s2 = true ->
    (norm2 x <= s1)%Z -> (s2 <= norm2 y)%Z -> (t * t <= dist2 x y)%Z.
Proof. exact break_separates. Qed.
Print Assumptions C34_norm_boundary_separates.

(* Chained norm clustering (every norm compared with the previous one) never puts two
   points of a boundary-respecting relation into different clusters: for any index list
   sorted by key. *)
Theorem C34_chained_clustering_never_splits :
  forall (t : Z) (key : nat -> Z) (cl : nat -> nat -> Prop),
    (forall i j, cl i j -> cl j i) ->
    (forall i j a b, brk t a b = true -> (key i <= a)%Z -> (b <= key j)%Z -> ~ cl i j) ->
    forall (l : list nat) (cn : Z),
      sorted_from key cn l ->
      forall i j, In i l -> In j l -> cl i j ->
      exists g, In g (groups true t key cn l) /\ In i g /\ In j g.
Proof. exact chained_same_group. Qed.
Print Assumptions C34_chained_clustering_never_splits.

(* THE PROPERTY, for the code as it is ([chained = false]) — PARTIAL: under the explicit
   guard [cross_free] (no norm-cluster boundary of the first-norm clustering separates two
   points closer than tol), which excludes exactly the failing region (see _refuted):
   for every well-separated input, every tol > 0, every dimension and every norm-sorting
   permutation, the result consists of
     - the points at the indices new_2_old,
     - new_2_old strictly increasing (order of first occurrence),
     - every kept index is the FIRST member of its cluster (no earlier point is close to it;
       hence one representative per cluster),
     - old_2_new has one entry per point, in range, and links every point to a kept point of
       its own cluster. *)
Theorem C34_one_per_cluster_partial :
  forall (t : Z) (pts : list pt) (sidx : list nat),
    (0 < t)%Z -> trans_in_range t pts ->
    Permutation sidx (seq 0 (length pts)) ->
    cross_free t pts [] (norm_clusters false t (keyn pts) sidx) ->
    match uniquify_with false t pts sidx with
    | (u, n2o, o2n) =>
        u = map (pnt pts) n2o /\
        StronglySorted lt n2o /\
        (forall m, In m n2o ->
                   m < length pts /\
                   forall j, j < length pts -> cl t pts j m -> m <= j) /\
        length o2n = length pts /\
        (forall i, i < length pts ->
                   nth i o2n 0 < length n2o /\ cl t pts (nth (nth i o2n 0) n2o 0) i)
    end.
Proof. exact (uniquify_guarded false). Qed.
Print Assumptions C34_one_per_cluster_partial.

(* The same statement WITHOUT the guard is false of the code: three well-separated points
   (256,0), (0,271), (0,273), tol 16 — the two points 2 apart are both kept because the
   second one's norm exceeds the FIRST norm of its norm cluster by more than tol. *)
Theorem C34_one_per_cluster_refuted :
  exists (t : Z) (pts : list pt),
    (0 < t)%Z /\ Forall (fun p => length p = 2) pts /\ trans_in_range t pts /\
    Permutation (sort_by_norm pts) (seq 0 (length pts)) /\
    uniquify t pts = (pts, [0; 1; 2], [0; 1; 2]) /\
    cl t pts 1 2 /\
    ~ (match uniquify t pts with
       | (u, n2o, o2n) =>
           forall m, In m n2o ->
                     m < length pts /\ forall j, j < length pts -> cl t pts j m -> m <= j
       end).
Proof.
  exists 16%Z, [[256; 0]; [0; 271]; [0; 273]]%Z.
  split; [reflexivity|]. split; [repeat constructor|]. split; [|split; [apply sort_by_norm_perm|]].
  - intros i j k Hi Hj Hk. cbn [length] in *.
    destruct i as [|[|[|i]]]; try lia; destruct j as [|[|[|j]]]; try lia;
      destruct k as [|[|[|k]]]; try lia; vm_compute; intros; congruence.
  - split; [vm_compute; reflexivity|]. split; [vm_compute; reflexivity|].
    replace (uniquify 16 [[256; 0]; [0; 271]; [0; 273]]%Z)
      with ([[256; 0]; [0; 271]; [0; 273]]%Z, [0; 1; 2], [0; 1; 2]) by (vm_compute; reflexivity).
    intros H. destruct (H 2) as [_ H2]; [right; right; left; reflexivity|].
    specialize (H2 1). cbn [length] in H2.
    assert (2 <= 1) by (apply H2; [lia|vm_compute; reflexivity]). lia.
Qed.
Print Assumptions C34_one_per_cluster_refuted.

(* For the chained variant (the considered repair) the guard is a theorem: the full
   property holds for every well-separated input of points of one dimension and every
   index vector sorted by norm. *)
Theorem C34_one_per_cluster_chained :
  forall (t : Z) (pts : list pt) (sidx : list nat) (d : nat),
    (0 < t)%Z -> Forall (fun p => length p = d) pts -> trans_in_range t pts ->
    Permutation sidx (seq 0 (length pts)) ->
    (match sidx with [] => True | i0 :: _ => sorted_from (keyn pts) (keyn pts i0) sidx end) ->
    match uniquify_with true t pts sidx with
    | (u, n2o, o2n) =>
        u = map (pnt pts) n2o /\
        StronglySorted lt n2o /\
        (forall m, In m n2o ->
                   m < length pts /\
                   forall j, j < length pts -> cl t pts j m -> m <= j) /\
        length o2n = length pts /\
        (forall i, i < length pts ->
                   nth i o2n 0 < length n2o /\ cl t pts (nth (nth i o2n 0) n2o 0) i)
    end.
Proof. exact uniquify_chained_correct. Qed.
Print Assumptions C34_one_per_cluster_chained.

(* Non-vacuity: a well-separated input with two norm clusters for which the guard holds
   (and the hypotheses of the chained theorem as well), and what the model returns. *)
Example C34_nonvacuous :
  let pts := [[256; 0]; [0; 260]; [0; 262]; [255; 1]; [0; 400]]%Z in
  let t := 16%Z in
  (0 < t)%Z /\ Forall (fun p => length p = 2) pts /\ trans_in_range t pts /\
  Permutation (sort_by_norm pts) (seq 0 (length pts)) /\
  norm_clusters false t (keyn pts) (sort_by_norm pts) = [[3; 0; 1; 2]; [4]] /\
  cross_free t pts [] (norm_clusters false t (keyn pts) (sort_by_norm pts)) /\
  sorted_from (keyn pts) (keyn pts 3) (sort_by_norm pts) /\
  uniquify t pts = ([[256; 0]; [0; 260]; [0; 400]]%Z, [0; 1; 4], [0; 1; 1; 0; 2]).
Proof.
  cbv zeta.
  split; [reflexivity|]. split; [repeat constructor|]. split; [|split; [apply sort_by_norm_perm|]].
  - intros i j k Hi Hj Hk. cbn [length] in *.
    destruct i as [|[|[|[|[|i]]]]]; try lia; destruct j as [|[|[|[|[|j]]]]]; try lia;
      destruct k as [|[|[|[|[|k]]]]]; try lia; vm_compute; intros; congruence.
  - split; [vm_compute; reflexivity|].
    replace (norm_clusters false 16 (keyn [[256; 0]; [0; 260]; [0; 262]; [255; 1]; [0; 400]]%Z)
               (sort_by_norm [[256; 0]; [0; 260]; [0; 262]; [255; 1]; [0; 400]]%Z))
      with [[3; 0; 1; 2]; [4]] by (vm_compute; reflexivity).
    split; [|split].
    + cbn [cross_free app]. split; [intros i j []|]. split; [|exact I].
      intros i j Hi Hj. destruct Hj as [<-|[]].
      destruct Hi as [<-|[<-|[<-|[<-|[]]]]]; vm_compute; discriminate.
    + vm_compute. repeat split; discriminate.
    + vm_compute. reflexivity.
Qed.

(* ---- the same two theorems for the model's OWN stable argsort (its sortedness and
   permutation property are proved, no hypothesis on the index vector is left) ---- *)
Theorem C34_one_per_cluster_partial_own_sort :
  forall (t : Z) (pts : list pt),
    (0 < t)%Z -> trans_in_range t pts ->
    cross_free t pts [] (norm_clusters false t (keyn pts) (sort_by_norm pts)) ->
    match uniquify t pts with
    | (u, n2o, o2n) =>
        u = map (pnt pts) n2o /\
        StronglySorted lt n2o /\
        (forall m, In m n2o ->
                   m < length pts /\
                   forall j, j < length pts -> cl t pts j m -> m <= j) /\
        length o2n = length pts /\
        (forall i, i < length pts ->
                   nth i o2n 0 < length n2o /\ cl t pts (nth (nth i o2n 0) n2o 0) i)
    end.
Proof. exact uniquify_model_guarded. Qed.
Print Assumptions C34_one_per_cluster_partial_own_sort.

Theorem C34_one_per_cluster_chained_own_sort :
  forall (t : Z) (pts : list pt) (d : nat),
    (0 < t)%Z -> Forall (fun p => length p = d) pts -> trans_in_range t pts ->
    match uniquify_with true t pts (sort_by_norm pts) with
    | (u, n2o, o2n) =>
        u = map (pnt pts) n2o /\
        StronglySorted lt n2o /\
        (forall m, In m n2o ->
                   m < length pts /\
                   forall j, j < length pts -> cl t pts j m -> m <= j) /\
        length o2n = length pts /\
        (forall i, i < length pts ->
                   nth i o2n 0 < length n2o /\ cl t pts (nth (nth i o2n 0) n2o 0) i)
    end.
Proof. exact uniquify_model_chained. Qed.
Print Assumptions C34_one_per_cluster_chained_own_sort.

(* ---- ismember_columns(a, b, sort): for ANY integer columns (negative entries included),
   either value of [sort] (columns compared after sorting their entries) and ANY admissible
   argsort result: the membership vector equals brute-force column comparison, and the
   index vector has one entry per member column of a, each pointing to an equal column
   of b. ---- *)
Theorem C34_ismember_bruteforce :
  forall (srt : bool) (a b : list pt) (sort_ind : list nat),
    let A := map (normc srt) a in
    let B := map (normc srt) b in
    sort_contract (ind_b_of srt a b) sort_ind ->
    fst (ismember_with srt a b sort_ind) = map (fun x => existsb (Model.C46.ceqb x) B) A /\
    Forall2 (fun x k => k < length b /\ nth k B [] = x)
            (filter (fun x => existsb (Model.C46.ceqb x) B) A)
            (snd (ismember_with srt a b sort_ind)).
Proof. exact ismember_correct. Qed.
Print Assumptions C34_ismember_bruteforce.

(* the argsort contract is satisfiable: the model's stable argsort meets it *)
Theorem C34_ismember_stable_argsort_admissible :
  forall (srt : bool) (a b : list pt),
    sort_contract (ind_b_of srt a b) (stable_sort_ind srt a b).
Proof. exact stable_sort_contract. Qed.
Print Assumptions C34_ismember_stable_argsort_admissible.

(* ---- intersect_sets(a, b, tol), tol = tol2/2: for any ball query meeting its contract,
   a_in_b, ia (sorted, duplicate free) and ib (sorted, duplicate free) are exactly what
   brute-force comparison of all column pairs gives; the match lists are passed on. ---- *)
Theorem C34_intersect_bruteforce :
  forall (tol2 : Z) (query : list pt -> list pt -> list (list nat)) (a b : list pt),
    query_contract tol2 query a b ->
    match intersect query a b with
    | (ia, ib, a_in_b, inter) =>
        inter = query a b /\
        a_in_b = map (fun p => existsb (within tol2 p) b) a /\
        StronglySorted lt ia /\
        (forall i, In i ia <-> i < length a /\ existsb (within tol2 (nth i a [])) b = true) /\
        StronglySorted lt ib /\
        (forall j, In j ib <->
                   j < length b /\ existsb (fun p => within tol2 p (nth j b [])) a = true)
    end.
Proof. exact intersect_correct. Qed.
Print Assumptions C34_intersect_bruteforce.

(* the query contract is satisfiable: brute force (the model's executable query) meets it *)
Theorem C34_bruteforce_query_meets_contract :
  forall (tol2 : Z) (a b : list pt), query_contract tol2 (bf_query tol2) a b.
Proof. exact bf_query_contract. Qed.
Print Assumptions C34_bruteforce_query_meets_contract.

(* well-separated guard: if the columns of b are pairwise more than 2*tol apart, every
   column of a matches at most one column of b (what SparseNdArray.get's ravel relies on) *)
Theorem C34_intersect_single_match :
  forall (tol2 : Z) (query : list pt -> list pt -> list (list nat)) (a b : list pt) (d : nat),
    query_contract tol2 query a b ->
    Forall (fun c => length c = d) a -> Forall (fun c => length c = d) b ->
    (forall j j', j < length b -> j' < length b -> j <> j' ->
                  (tol2 * tol2 < dist2 (nth j b []) (nth j' b []))%Z) ->
    forall i, i < length a -> length (nth i (query a b) []) <= 1.
Proof. exact intersect_single_match. Qed.
Print Assumptions C34_intersect_single_match.

(* Non-vacuity: signed columns that collide under the positional encoding base max+1
   ([3,0] and [-1,1], max entry 3), with and without sorting of the entries; and an
   intersection with tol = 1/2 and 3/2. *)
Example C34_nonvacuous_membership :
  let a := [[3; 0]; [-1; 1]; [0; 3]; [2; -2]]%Z in
  let b := [[-1; 1]; [1; -1]; [-1; 1]; [0; 5]]%Z in
  ismember false a b = ([false; true; false; false], [0]) /\
  ismember true a b = ([false; true; false; false], [0]) /\
  ismember true [[1; -1]; [3; 0]]%Z [[0; 3]; [-1; 1]]%Z = ([true; true], [1; 0]) /\
  intersect (bf_query 1) a b = ([1], [0; 2], [false; true; false; false], [[]; [0; 2]; []; []]) /\
  intersect (bf_query 3) [[0; 0]; [5; 5]]%Z [[1; 0]; [0; -1]; [3; 3]]%Z
  = ([0], [0; 1], [true; false], [[0; 1]; []]).
Proof. repeat split; vm_compute; reflexivity. Qed.
