(* C33 — property theorems only.  Model: PP.Model.C33 (transcription of line_tessellation with
   the collinear branch of segments_3d, match_1d, the loop of triangulations and the weight
   scalings of match_1d/match_2d, over exact rationals); proofs: PP.Proofs.C33.

   Vocabulary (Proofs.C33):  a cell is the pair of coordinates of its two nodes (any order);
   [chain cs lo hi] : the cells, read left to right, each start where the previous one ended,
   from lo to hi;  [tessellates cs lo hi] : some permutation of cs is such a chain (cells in any
   order and orientation; zero-length cells allowed);  [degenerate c] : both nodes coincide;
   [row_sum l i] / [col_sum l j] : sum of the reported values whose first / second index is i / j;
   [cell_vol nrm c] : the length of the cell (nrm converts coordinate differences to Euclidean
   lengths along the common line). *)
From Coq Require Import List QArith Bool Arith Lia Permutation.
Import ListNotations.
From PP Require Import Model.C33 Proofs.C33.
Open Scope Q_scope.

(* Every overlap that line_tessellation reports is non-negative — for ANY two lists of
   segments on a line (no tessellation hypothesis needed). *)
Theorem C33_1d_overlaps_nonneg :
  forall nrm p1 p2 l1 l2 l,
    0 <= nrm -> line_tessellation nrm p1 p2 l1 l2 = inr l ->
    Forall (fun e => 0 <= ewt e) l.
Proof. exact line_tess_nonneg. Qed.
Print Assumptions C33_1d_overlaps_nonneg.

(* The value reported for one pair of segments is exactly the length of the intersection of
   the two closed intervals (and nothing is reported only when that length is 0). *)
Theorem C33_1d_pair_overlap_exact :
  forall nrm a b,
    (match seg_overlap a b with OSeg x y => seg_len nrm x y | _ => 0 end)
    == qmax 0 (qmin (cmax a) (cmax b) - qmax (cmin a) (cmin b)) * nrm.
Proof. exact val_ilen. Qed.
Print Assumptions C33_1d_pair_overlap_exact.

(* For two tessellations of the same interval [lo,hi] (any number of cells, any order and
   orientation) whenever line_tessellation returns: for each cell of the first tessellation
   the overlaps reported with that first index sum to its length, for each cell of the
   second likewise with the second index, and nothing is reported for other indices. *)
Theorem C33_1d_partition :
  forall nrm p1 p2 l1 l2 lo hi l,
    lines_ok p1 l1 -> lines_ok p2 l2 ->
    tessellates (cells_of p1 l1) lo hi -> tessellates (cells_of p2 l2) lo hi ->
    line_tessellation nrm p1 p2 l1 l2 = inr l ->
    (forall i, (i < length l1)%nat ->
       row_sum l i == cell_vol nrm (nth i (cells_of p1 l1) (0, 0))) /\
    (forall j, (j < length l2)%nat ->
       col_sum l j == cell_vol nrm (nth j (cells_of p2 l2) (0, 0))) /\
    (forall i, (length l1 <= i)%nat -> row_sum l i == 0) /\
    (forall j, (length l2 <= j)%nat -> col_sum l j == 0).
Proof. exact line_tess_partition. Qed.
Print Assumptions C33_1d_partition.

(* The error branch: line_tessellation raises (IndexError inside segments_3d) exactly when a
   zero-length cell of the first list and a zero-length cell of the second sit at the same
   point; in particular never when one of the tessellations has no zero-length cell. *)
Theorem C33_1d_error_iff :
  forall nrm p1 p2 l1 l2,
    line_tessellation nrm p1 p2 l1 l2 = inl IndexErr <->
    exists a b, In a (cells_of p1 l1) /\ In b (cells_of p2 l2) /\
                degenerate a /\ degenerate b /\ fst a == fst b.
Proof. exact line_tess_error_iff. Qed.
Print Assumptions C33_1d_error_iff.

(* match_1d on two tessellations of the same interval: all weights are >= 0; the 'averaged'
   matrix has unit row sums and the 'integrated' matrix unit column sums, on every cell of
   positive length. *)
Theorem C33_match_1d_rows_cols :
  forall nrm tol p_new p_old l_new l_old lo hi,
    0 < nrm ->
    lines_ok p_new l_new -> lines_ok p_old l_old ->
    tessellates (cells_of p_new l_new) lo hi -> tessellates (cells_of p_old l_old) lo hi ->
    (forall m, match_1d nrm tol Averaged p_new p_old l_new l_old = inr m ->
       Forall (fun e => 0 <= ewt e) m /\
       forall i, (i < length l_new)%nat ->
         ~ degenerate (nth i (cells_of p_new l_new) (0, 0)) -> row_sum m i == 1) /\
    (forall m, match_1d nrm tol Integrated p_new p_old l_new l_old = inr m ->
       Forall (fun e => 0 <= ewt e) m /\
       forall j, (j < length l_old)%nat ->
         ~ degenerate (nth j (cells_of p_old l_old) (0, 0)) -> col_sum m j == 1).
Proof. exact match_1d_sums. Qed.
Print Assumptions C33_match_1d_rows_cols.

(* 2-D.  shapely's answers (is the intersection a Polygon; its area) and the bounding-box
   filter are arbitrary functions subject to [tri_contract]: isect_area i j is the area of
   triangle i of the first ∩ triangle j of the second tessellation of one polygon (>= 0; zero
   for box-disjoint pairs and for non-Polygon intersections; additive over either
   tessellation).  Then the list built by triangulations has non-negative entries ... *)
Theorem C33_2d_overlaps_nonneg :
  forall is_polygon candidate isect_area n1 n2 area1 area2,
    tri_contract is_polygon candidate isect_area n1 n2 area1 area2 ->
    Forall (fun e => 0 <= ewt e) (triangulations is_polygon isect_area candidate n1 n2).
Proof. exact tri_entries_nonneg. Qed.
Print Assumptions C33_2d_overlaps_nonneg.

(* ... which sum, per triangle of either tessellation, to its area (the filtered-out pairs
   contribute nothing) ... *)
Theorem C33_2d_partition :
  forall is_polygon candidate isect_area n1 n2 area1 area2,
    tri_contract is_polygon candidate isect_area n1 n2 area1 area2 ->
    let l := triangulations is_polygon isect_area candidate n1 n2 in
    (forall i, (i < n1)%nat -> row_sum l i == area1 i) /\
    (forall j, (j < n2)%nat -> col_sum l j == area2 j).
Proof. exact tri_sums. Qed.
Print Assumptions C33_2d_partition.

(* ... and match_2d's 'averaged' matrix has unit row sums, its 'integrated' matrix unit
   column sums. *)
Theorem C33_match_2d_rows_cols :
  forall is_polygon candidate isect_area n1 n2 area1 area2,
    tri_contract is_polygon candidate isect_area n1 n2 area1 area2 -> forall tol,
    let l := triangulations is_polygon isect_area candidate n1 n2 in
    (forall i, (i < n1)%nat -> ~ area1 i == 0 ->
       row_sum (scale_entries area1 area2 tol Averaged l) i == 1) /\
    (forall j, (j < n2)%nat -> ~ area2 j == 0 ->
       col_sum (scale_entries area1 area2 tol Integrated l) j == 1).
Proof. exact match_2d_sums. Qed.
Print Assumptions C33_match_2d_rows_cols.

(* ---------------- non-vacuity ---------------- *)
(* [0,1],[2,1] (second cell listed right-to-left) against [1/2,2],[0,1/2] (cells listed in
   reverse order): both tessellate [0,2]; the reported overlaps and the averaged matrix. *)
Example C33_nonvacuous_1d :
  let p1 := [0; 1; 2] in let l1 := [(0, 1); (2, 1)]%nat in
  let p2 := [0; 1 # 2; 2] in let l2 := [(1, 2); (0, 1)]%nat in
  lines_ok p1 l1 /\ lines_ok p2 l2 /\
  tessellates (cells_of p1 l1) 0 2 /\ tessellates (cells_of p2 l2) 0 2 /\
  line_tessellation 1 p1 p2 l1 l2
    = inr [(0%nat, 0%nat, 1 # 2); (0%nat, 1%nat, 1 # 2); (1%nat, 0%nat, 1)] /\
  (exists m, match_1d 1 (1 # 100) Averaged p1 p2 l1 l2 = inr m /\
             Qeq_bool (row_sum m 0%nat) 1 = true /\ Qeq_bool (row_sum m 1%nat) 1 = true) /\
  (* the error branch is inhabited too: two zero-length cells at the same point *)
  line_tessellation 1 [0; 1; 1; 2] [0; 1; 1; 2]
                    [(0, 1); (1, 2); (2, 3)]%nat [(0, 1); (1, 2); (2, 3)]%nat = inl IndexErr.
Proof.
  cbv zeta.
  refine (conj _ (conj _ (conj _ (conj _ (conj _ (conj _ _)))))).
  - repeat constructor.
  - repeat constructor.
  - exists [(0, 1); (2, 1)]. split; [apply Permutation_refl|].
    cbn [chain]. repeat split; vm_compute; reflexivity.
  - exists [(0, 1 # 2); (1 # 2, 2)]. split; [apply perm_swap|].
    cbn [chain]. repeat split; vm_compute; reflexivity.
  - vm_compute. reflexivity.
  - eexists. split; [vm_compute; reflexivity|]. split; vm_compute; reflexivity.
  - vm_compute. reflexivity.
Qed.

(* two identical triangulations of the unit square (two triangles of area 1/2) *)
Example C33_nonvacuous_2d :
  tri_contract (fun _ _ => true) (fun _ _ => true)
               (fun i j => if Nat.eqb i j then 1 # 2 else 0) 2 2
               (fun _ => 1 # 2) (fun _ => 1 # 2).
Proof.
  unfold tri_contract. repeat split.
  - intros i j _ _. destruct (Nat.eqb i j); vm_compute; discriminate.
  - intros; discriminate.
  - intros; discriminate.
  - intros i Hi. destruct i as [|[|i]]; try lia; vm_compute; reflexivity.
  - intros j Hj. destruct j as [|[|j]]; try lia; vm_compute; reflexivity.
Qed.
