(* C09 — property theorems only.  Model: PP.Model.C09 (statement-by-statement transcription
   of TimeManager.__init__/compute_time_step/increase_time/final_time_reached and of the
   time loop of run_time_dependent_model with after_nonlinear_convergence/failure, written
   once over a record of numeric operations); proofs: PP.Proofs.C09 (instance: exact real
   arithmetic — floating-point rounding is NOT covered by these theorems). *)
From Coq Require Import List ZArith Bool Arith Lia QArith Reals Qreals Lra Sorted PrimFloat.
Import ListNotations.
From PP Require Import Model.C09 Model.C09_ext Proofs.C09 Proofs.C09_transfer Proofs.C09_QR
                       Proofs.C09_const Proofs.C09_boundary.
Local Open Scope R_scope.

(* For EVERY argument tuple the (modelled) constructor accepts with constant_dt=False and
   which in addition has 0 < dt_min and non-negative tolerances, EVERY schedule (any
   length) whose consecutive times are further apart than the isclose tolerance, an initial
   step that fits into the first scheduled interval, and EVERY sequence of solver outcomes
   (converged with an arbitrary iteration count | failed), the time loop satisfies:
   (1) the accepted times (initial time first) strictly increase;
   (2) none exceeds the final time;
   (3) if the loop finishes, every scheduled time is within isclose of an accepted time;
   (4) every state after a non-raising event has dt_min <= dt <= dt_max, or is flagged as
       shortened onto the schedule and has 0 < dt <= dt_max;
   (5) after a failed step the clock is exactly the last accepted time, or the call raised
       (recomputation exhausted / dt == dt_min) and that ended the run;
   (6) nothing else ever raises (in particular no IndexError on the schedule and no
       exception from a converged step). *)
Theorem C09_main :
  forall (a : args R) (sched : list R) (evs : list event)
         (c : cfg R) (tr : list (event * state R * out R)) (st : stop),
    simulate R ROps a sched evs = inl (c, (tr, st)) ->
    a_constant a = false ->
    0 < dt_min c -> 0 <= a_rtol a -> 0 <= a_atol a ->
    well_separated (a_rtol a) (a_atol a) sched ->
    a_dt_init a <= nth 1 sched 0 - nth 0 sched 0 ->
    let t0 := nth 0 sched 0 in
    let acc := t0 :: accepted R tr in
    StronglySorted Rlt acc /\
    Forall (fun t => t <= last sched 0) acc /\
    (st = Finished ->
       forall sj, In sj sched -> exists t, In t acc /\ isclose R ROps c t sj = true) /\
    (forall ev x o, In (ev, x, o) tr -> (forall e, o <> OErr e) ->
       dt_min c <= dt x <= dt_max c \/ (about x = true /\ 0 < dt x <= dt_max c)) /\
    (forall pre x o post, tr = pre ++ (Failed, x, o) :: post ->
       time x = last (accepted R pre) t0 \/
       (exists e, o = OErr e /\ (e = E_recomp_exhausted \/ e = E_dt_at_min) /\
                  post = [] /\ st = Raised e)) /\
    (forall ev x e, In (ev, x, OErr e) tr ->
       ev = Failed /\ (e = E_recomp_exhausted \/ e = E_dt_at_min)) /\
    (forall e, st = Raised e -> e = E_recomp_exhausted \/ e = E_dt_at_min).
Proof. exact main_theorem. Qed.
Print Assumptions C09_main.

(* compute_time_step(recompute_solution=True) from ANY state of a non-constant manager:
   raises exactly when the counter of consecutive recomputations has reached recomp_max or
   when dt == dt_min (state untouched); otherwise the clock goes back by exactly the step
   just taken, time_index is decremented and the counter incremented. *)
Theorem C09_failed_attempt :
  forall (c : cfg R) (sched : list R) (x : state R),
    constant c = false ->
    ((recomp_max c <= recomp x)%Z ->
       compute_time_step R ROps c sched x None true = (x, OErr E_recomp_exhausted)) /\
    ((recomp x < recomp_max c)%Z -> dt x = dt_min c ->
       compute_time_step R ROps c sched x None true = (x, OErr E_dt_at_min)) /\
    ((recomp x < recomp_max c)%Z -> dt x <> dt_min c ->
       forall x' o, compute_time_step R ROps c sched x None true = (x', o) ->
         time x' = time x - dt x /\ tidx x' = (tidx x - 1)%Z /\
         recomp x' = (recomp x + 1)%Z /\ (o = ODt (dt x') \/ o = OErr E_index)).
Proof. exact failed_attempt. Qed.
Print Assumptions C09_failed_attempt.

(* compute_time_step(iterations=k) from ANY state of a non-constant manager: None and no
   change once the final time is reached; otherwise clock and time index untouched and the
   recomputation counter reset (so the counter counts CONSECUTIVE failures). *)
Theorem C09_converged_attempt :
  forall (c : cfg R) (sched : list R) (x : state R) (k : Z),
    constant c = false ->
    (final_time_reached R ROps c sched x = true ->
       compute_time_step R ROps c sched x (Some k) false = (x, ONone)) /\
    (final_time_reached R ROps c sched x = false ->
       forall x' o, compute_time_step R ROps c sched x (Some k) false = (x', o) ->
         time x' = time x /\ tidx x' = tidx x /\ recomp x' = 0%Z /\
         (o = ODt (dt x') \/ o = OErr E_index)).
Proof. exact converged_attempt. Qed.
Print Assumptions C09_converged_attempt.

(* What an accepting constructor (constant_dt=False) guarantees about the stored
   configuration — the "valid parameters" of C09_main besides its explicit guards. *)
Theorem C09_constructor_validates :
  forall (a : args R) (sched : list R) (c : cfg R),
    construct R ROps a sched = inl c -> a_constant a = false ->
    constant c = false /\ dt_init c = a_dt_init a /\ rtol c = a_rtol a /\ atol c = a_atol a /\
    (2 <= length sched)%nat /\ 0 <= nth 0 sched 0 /\ 0 < dt_init c /\
    dt_min c <= dt_init c /\ dt_init c <= dt_max c /\
    iter_low c = a_iter_low a /\ iter_upp c = a_iter_upp a /\ iter_max c = a_iter_max a /\
    under c = a_under a /\ over c = a_over a /\ recomp_factor c = a_recomp_factor a /\
    recomp_max c = a_recomp_max a /\
    (0 <= iter_low c <= iter_upp c)%Z /\ (iter_upp c <= iter_max c)%Z /\
    under c < 1 /\ 1 < over c /\ dt_min c * over c <= dt_max c /\
    dt_min c <= dt_max c * under c /\ recomp_factor c < 1 /\ (0 < recomp_max c)%Z.
Proof. exact construct_ok. Qed.
Print Assumptions C09_constructor_validates.

(* ---------------- non-vacuity ---------------- *)
(* The regression input of the repaired defect: schedule [0; 1; 3/2], dt_init = dt_max = 1. *)
Definition ex_args : args R :=
  Build_args R 1 false (Some (1 / 10, 1)) 15 4 7 (7 / 10) (13 / 10) (1 / 2) 10
             (1 / 10000000000) 0.
Definition ex_sched : list R := [0; 1; 3 / 2].

Example C09_main_nonvacuous :
  exists c tr st,
    simulate R ROps ex_args ex_sched [Converged 5; Failed; Converged 5; Converged 9]
      = inl (c, (tr, st)) /\
    a_constant ex_args = false /\ 0 < dt_min c /\ 0 <= a_rtol ex_args /\
    0 <= a_atol ex_args /\ well_separated (a_rtol ex_args) (a_atol ex_args) ex_sched /\
    a_dt_init ex_args <= nth 1 ex_sched 0 - nth 0 ex_sched 0.
Proof.
  assert (E : exists c, construct R ROps ex_args ex_sched = inl c /\ dt_min c = 1 / 10).
  { eexists. unfold construct, ex_args, ex_sched, resolve_min_max, strictly_increasing.
    cbn [length Nat.ltb Nat.leb existsb last negb orb andb fst snd a_dt_init a_constant
         a_dt_min_max a_iter_max a_iter_low a_iter_upp a_under a_over a_recomp_factor
         a_recomp_max a_rtol a_atol].
    rops. rdec. cbn [negb orb andb Z.leb Z.ltb Z.compare Pos.compare Pos.compare_cont].
    split; reflexivity. }
  destruct E as (c & Ec & Emin).
  unfold simulate. rewrite Ec.
  destruct (drive R ROps c ex_sched (init_state R ROps c ex_sched) _) as [tr st].
  exists c, tr, st. split; [reflexivity|].
  unfold ex_args, ex_sched; cbn [a_constant a_rtol a_atol a_dt_init nth].
  repeat split; try lra.
  intros j Hj. cbn [length] in Hj.
  destruct j as [|[|j]]; cbn [nth]; [| |lia]; rewrite Rabs_pos_eq by lra; lra.
Qed.

Example C09_failed_attempt_nonvacuous :
  let c := Build_cfg R 1 false (1 / 10) 1 15 4 7 (7 / 10) (13 / 10) (1 / 2) 2 0 0 in
  let exhausted := Build_state R 1 (1 / 2) 1%Z 1%Z 2%Z false in
  let retry := Build_state R 1 (1 / 2) 1%Z 1%Z 0%Z false in
  let at_min := Build_state R 1 (1 / 10) 1%Z 1%Z 0%Z false in
  constant c = false /\
  (recomp_max c <= recomp exhausted)%Z /\
  (recomp retry < recomp_max c)%Z /\ dt retry <> dt_min c /\ dt at_min = dt_min c.
Proof. cbn. repeat split; try lia; try lra. Qed.

(* The same regression input executed with the binary64 instance of the model (the instance
   the execution correspondence uses): the repaired code accepts exactly 1.0 and 1.5. *)
Example C09_regression_binary64 :
  match simulate float FOps
          (Build_args float 1%float false (Some ((0x1.999999999999ap-4)%float, 1%float)) 15 4 7
                      (0x1.6666666666666p-1)%float (0x1.4cccccccccccdp+0)%float (0x1.0000000000000p-1)%float 10 (0x1.b7cdfd9d7bdbbp-34)%float (0x1.cd2b297d889bcp-54)%float)
          [0%float; 1%float; (0x1.8000000000000p+0)%float] [Converged 5; Converged 5; Converged 5] with
  | inl (_, (tr, st)) =>
      stop_same st Finished &&
      match accepted float tr with
      | [t1; t2] => PrimFloat.eqb t1 1%float && PrimFloat.eqb t2 (0x1.8000000000000p+0)%float
      | _ => false
      end
  | inr _ => false
  end = true.
Proof. vm_compute. reflexivity. Qed.


(* ======================= constant time step (constant_dt = True) ======================= *)
(* [simulate_full] = the COMPLETE constructor (Model/C09_ext.v adds the np.arange /
   searchsorted / isclose compatibility test of dt_init with the schedule) followed by the
   time loop.  For every accepted argument tuple with constant_dt=True, non-negative
   tolerances and a step more than twice the isclose tolerance (at final time + dt), every
   schedule and every event sequence:
   (1) the k-th accepted time is t0 + (k+1)*dt;  (2) accepted times strictly increase;
   (3) each is <= the final time or within the constructor's tolerance of it;
   (4) if the loop finishes, every scheduled time is within the constructor's tolerance
       (np.isclose(scheduled, simulated): relative to the simulated time) of t0 or of an
       accepted time;
   (5) a failed step raises "did not converge" and ends the run;  (6) converged steps never
       call compute_time_step and nothing else raises. *)
Theorem C09_constant :
  forall (a : args R) (sched : list R) (evs : list event)
         (c : cfg R) (tr : list (event * state R * out R)) (st : stop),
    simulate_full R ROps RExt a sched evs = inl (c, (tr, st)) ->
    a_constant a = true ->
    0 <= a_rtol a -> 0 <= a_atol a ->
    2 * (a_atol a + a_rtol a * Rabs (last sched 0 + a_dt_init a)) < a_dt_init a ->
    let t0 := nth 0 sched 0 in
    let d := a_dt_init a in
    let acc := accepted R tr in
    (forall k, (k < length acc)%nat -> nth k acc 0 = t0 + INR (S k) * d) /\
    StronglySorted Rlt (t0 :: acc) /\
    (forall t, In t acc -> t <= last sched 0 \/ isclose R ROps c (last sched 0) t = true) /\
    (st = Finished ->
       forall sj, In sj sched -> exists t, In t (t0 :: acc) /\ isclose R ROps c sj t = true) /\
    (forall pre x o post, tr = pre ++ (Failed, x, o) :: post ->
       o = OErr E_not_converged /\ post = [] /\ st = Raised E_not_converged) /\
    (forall ev x o, In (ev, x, o) tr ->
       (exists k, ev = Converged k /\ o = OUnit) \/
       (ev = Failed /\ o = OErr E_not_converged /\ st = Raised E_not_converged)) /\
    (forall e, st = Raised e -> e = E_not_converged).
Proof. exact constant_theorem. Qed.
Print Assumptions C09_constant.

(* ======================= instance independence ======================= *)
(* For ANY two instances of the operations record and any map h between their carriers
   that commutes with the constants and operations and preserves the comparisons, running
   the whole model (complete constructor, then the time loop) commutes with h. *)
Theorem C09_instance_independence :
  forall (A B : Type) (OA : numops A) (OB : numops B) (XA : numext A) (XB : numext B)
         (h : A -> B),
    morph A B OA OB h -> morph_ext A B XA XB h ->
    forall (a : args A) (sched : list A) (evs : list event),
      simulate_full B OB XB (hargs A B h a) (map h sched) evs
      = match simulate_full A OA XA a sched evs with
        | inr e => inr e
        | inl (c, (tr, st)) => inl (hcfg A B h c, (map (hentry A B h) tr, st))
        end.
Proof. intros A B OA OB XA XB h M MX. apply h_simulate_full; assumption. Qed.
Print Assumptions C09_instance_independence.

(* The exact rational instance (executable; on dyadic inputs where no binary64 operation
   rounds, the execution correspondence checks that it reproduces the implementation's
   numbers) and the real instance (the one C09_main / C09_constant are about) are related
   by such a map, Q2R: what is executed in rational arithmetic IS the run the theorems
   speak about. *)
Theorem C09_rational_runs_are_real_runs :
  (forall (a : args Q) (sched : list Q) (evs : list event),
     simulate R ROps (hargs Q R Q2R a) (map Q2R sched) evs
     = match simulate Q QOps a sched evs with
       | inr e => inr e
       | inl (c, (tr, st)) => inl (hcfg Q R Q2R c, (map (hentry Q R Q2R) tr, st))
       end) /\
  (forall (a : args Q) (sched : list Q) (evs : list event),
     simulate_full R ROps RExt (hargs Q R Q2R a) (map Q2R sched) evs
     = match simulate_full Q QOps QExt a sched evs with
       | inr e => inr e
       | inl (c, (tr, st)) => inl (hcfg Q R Q2R c, (map (hentry Q R Q2R) tr, st))
       end) /\
  (forall (c : cfg Q) (sched : list Q) (s : state Q) (ks : list call),
     run_calls R ROps (hcfg Q R Q2R c) (map Q2R sched) (hstate Q R Q2R s) ks
     = map (hso Q R Q2R) (run_calls Q QOps c sched s ks)).
Proof.
  split; [exact transfer_simulate_Q_R|split;
          [exact transfer_simulate_full_Q_R|exact transfer_run_calls_Q_R]].
Qed.
Print Assumptions C09_rational_runs_are_real_runs.

(* ======================= the boundary of C09_main ======================= *)
(* Inputs the constructor ACCEPTS but C09_main's explicit guards exclude.  Dropping exactly
   one guard (all others hold) makes a conclusion of C09_main false; witnesses are computed
   in the rational instance and carried to the reals by the theorem above. *)

(* dt_init larger than the first scheduled interval: the schedule correction yields a
   negative step and the clock runs backwards (schedule [0;1;2], dt_init 3/2: 3/2, 1). *)
Theorem C09_main_without_first_interval_guard_refuted :
  exists (a : args R) (sched : list R) (evs : list event) c tr st,
    simulate R ROps a sched evs = inl (c, (tr, st)) /\
    a_constant a = false /\ 0 < dt_min c /\ 0 <= a_rtol a /\ 0 <= a_atol a /\
    well_separated (a_rtol a) (a_atol a) sched /\
    ~ (a_dt_init a <= nth 1 sched 0 - nth 0 sched 0) /\
    ~ StronglySorted Rlt (nth 0 sched 0 :: accepted R tr) /\
    exists ev x o, In (ev, x, o) tr /\ dt x < 0.
Proof. exact first_interval_guard_refuted. Qed.
Print Assumptions C09_main_without_first_interval_guard_refuted.

(* two scheduled times within tolerance of each other (schedule [0;1;51/50;3/2],
   rtol 1/20): the loop finishes beyond the final time, which no accepted time is close to *)
Theorem C09_main_without_separation_guard_refuted :
  exists (a : args R) (sched : list R) (evs : list event) c tr,
    simulate R ROps a sched evs = inl (c, (tr, Finished)) /\
    a_constant a = false /\ 0 < dt_min c /\ 0 <= a_rtol a /\ 0 <= a_atol a /\
    a_dt_init a <= nth 1 sched 0 - nth 0 sched 0 /\
    ~ well_separated (a_rtol a) (a_atol a) sched /\
    (exists t, In t (accepted R tr) /\ last sched 0 < t) /\
    (forall t, In t (nth 0 sched 0 :: accepted R tr) ->
       isclose R ROps c t (last sched 0) = false).
Proof. exact separation_guard_refuted. Qed.
Print Assumptions C09_main_without_separation_guard_refuted.

(* dt_min = 0 (with the accepted under-relaxation factor 0): dt becomes 0 and the clock
   stops advancing; "0 < dt_min" cannot be weakened to "0 <= dt_min" *)
Theorem C09_main_without_dt_min_guard_refuted :
  exists (a : args R) (sched : list R) (evs : list event) c tr st,
    simulate R ROps a sched evs = inl (c, (tr, st)) /\
    a_constant a = false /\ dt_min c = 0 /\ 0 <= a_rtol a /\ 0 <= a_atol a /\
    well_separated (a_rtol a) (a_atol a) sched /\
    a_dt_init a <= nth 1 sched 0 - nth 0 sched 0 /\
    ~ StronglySorted Rlt (nth 0 sched 0 :: accepted R tr).
Proof. exact dt_min_guard_refuted. Qed.
Print Assumptions C09_main_without_dt_min_guard_refuted.

(* non-positive tolerances: np.isclose degenerates to exact equality, i.e. the manager
   behaves as one with zero tolerances (which C09_main covers).  Mixed signs are not
   characterised. *)
Theorem C09_nonpositive_tolerances_mean_equality :
  forall (c : cfg R) (a b : R),
    rtol c <= 0 -> atol c <= 0 -> isclose R ROps c a b = Reqb a b.
Proof. exact nonpositive_tolerances_mean_equality. Qed.
Print Assumptions C09_nonpositive_tolerances_mean_equality.

(* ---------------- non-vacuity of the new theorems ---------------- *)
(* constant step 1/2 on the schedule [0; 1; 3/2]: the complete constructor accepts, the
   hypotheses of C09_constant hold, and the run finishes after exactly three steps *)
Definition exc_args : args Q :=
  Build_args Q (1 # 2)%Q true None 15 4 7 (7 # 10)%Q (13 # 10)%Q (1 # 2)%Q 10
             (1 # 10000000000)%Q 0%Q.
Definition exc_sched : list Q := [0; 1; 3 # 2]%Q.

Example C09_constant_nonvacuous :
  exists c tr,
    simulate_full R ROps RExt (hargs Q R Q2R exc_args) (map Q2R exc_sched)
                  [Converged 1; Converged 1; Converged 1; Converged 1]
      = inl (c, (tr, Finished)) /\
    length (accepted R tr) = 3%nat /\
    a_constant (hargs Q R Q2R exc_args) = true /\
    0 <= a_rtol (hargs Q R Q2R exc_args) /\ 0 <= a_atol (hargs Q R Q2R exc_args) /\
    2 * (a_atol (hargs Q R Q2R exc_args)
         + a_rtol (hargs Q R Q2R exc_args)
           * Rabs (last (map Q2R exc_sched) 0 + a_dt_init (hargs Q R Q2R exc_args)))
      < a_dt_init (hargs Q R Q2R exc_args).
Proof.
  assert (E : exists cq trq,
             simulate_full Q QOps QExt exc_args exc_sched
               [Converged 1; Converged 1; Converged 1; Converged 1] = inl (cq, (trq, Finished))
             /\ length (accepted Q trq) = 3%nat).
  { vm_compute. eexists _, _. split; reflexivity. }
  destruct E as (cq & trq & Hs & Hl).
  eexists _, _. split; [rewrite transfer_simulate_full_Q_R, Hs; reflexivity|].
  rewrite (h_accepted Q R Q2R), map_length, Hl.
  cbn [hargs a_constant a_rtol a_atol a_dt_init exc_args exc_sched map last].
  repeat split; try (unfold Q2R; cbn [Qnum Qden]; lra).
  unfold Q2R; cbn [Qnum Qden]. rewrite Rabs_pos_eq by lra. lra.
Qed.

(* the homomorphism hypotheses of C09_instance_independence are satisfiable: Q2R *)
Example C09_instance_independence_nonvacuous :
  morph Q R QOps ROps Q2R /\ morph_ext Q R QExt RExt Q2R.
Proof. split; [exact Q2R_morph|exact Q2R_morph_ext]. Qed.

(* the regression input of the repaired defect, executed in exact rational arithmetic *)
Example C09_regression_rational :
  match simulate Q QOps
          (Build_args Q 1%Q false (Some ((1 # 10)%Q, 1%Q)) 15 4 7 (7 # 10)%Q (13 # 10)%Q
                      (1 # 2)%Q 10 (1 # 10000000000)%Q 0%Q)
          [0; 1; 3 # 2]%Q [Converged 5; Converged 5; Converged 5] with
  | inl (_, (tr, st)) =>
      stop_same st Finished &&
      match accepted Q tr with
      | [t1; t2] => Qeq_bool t1 1 && Qeq_bool t2 (3 # 2)
      | _ => false
      end
  | inr _ => false
  end = true.
Proof. vm_compute. reflexivity. Qed.

Example C09_nonpositive_tolerances_nonvacuous :
  let c := Build_cfg R 1 false (1 / 10) 1 15 4 7 (7 / 10) (13 / 10) (1 / 2) 2 (-1) 0 in
  rtol c <= 0 /\ atol c <= 0.
Proof. cbn. split; lra. Qed.
