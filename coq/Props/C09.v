(* C09 — property theorems only.  Model: PP.Model.C09 (statement-by-statement transcription
   of TimeManager.__init__/compute_time_step/increase_time/final_time_reached and of the
   time loop of run_time_dependent_model with after_nonlinear_convergence/failure, written
   once over a record of numeric operations); proofs: PP.Proofs.C09 (instance: exact real
   arithmetic — floating-point rounding is NOT covered by these theorems). *)
From Coq Require Import List ZArith Bool Arith Lia Reals Lra Sorted PrimFloat.
Import ListNotations.
From PP Require Import Model.C09 Proofs.C09.
Local Open Scope R_scope.

(* For EVERY argument tuple the (modelled) constructor accepts with constant_dt=False and
   which in addition has 0 < dt_min and non-negative tolerances, EVERY schedule (any
   length) whose consecutive times are further apart than the isclose tolerance, an initial
   step that fits into the first scheduled interval, and EVERY sequence of solver outcomes
   (converged with an arbitrary iteration count | failed), the time loop satisfies:
   (1) the accepted times (initial time first) strictly increase;
   (2) none exceeds the final time;
   (3) if the loop finishes, every scheduled time is within isclose of an accepted time;
   (4) every state after a non-raising event has dt_min <= dt <= dt_max, or is flagged as
       shortened onto the schedule and has 0 < dt <= dt_max;
   (5) after a failed step the clock is exactly the last accepted time, or the call raised
       (recomputation exhausted / dt == dt_min) and that ended the run;
   (6) nothing else ever raises (in particular no IndexError on the schedule and no
       exception from a converged step). *)
Theorem C09_main :
  forall (a : args R) (sched : list R) (evs : list event)
         (c : cfg R) (tr : list (event * state R * out R)) (st : stop),
    simulate R ROps a sched evs = inl (c, (tr, st)) ->
    a_constant a = false ->
    0 < dt_min c -> 0 <= a_rtol a -> 0 <= a_atol a ->
    well_separated (a_rtol a) (a_atol a) sched ->
    a_dt_init a <= nth 1 sched 0 - nth 0 sched 0 ->
    let t0 := nth 0 sched 0 in
    let acc := t0 :: accepted R tr in
    StronglySorted Rlt acc /\
    Forall (fun t => t <= last sched 0) acc /\
    (st = Finished ->
       forall sj, In sj sched -> exists t, In t acc /\ isclose R ROps c t sj = true) /\
    (forall ev x o, In (ev, x, o) tr -> (forall e, o <> OErr e) ->
       dt_min c <= dt x <= dt_max c \/ (about x = true /\ 0 < dt x <= dt_max c)) /\
    (forall pre x o post, tr = pre ++ (Failed, x, o) :: post ->
       time x = last (accepted R pre) t0 \/
       (exists e, o = OErr e /\ (e = E_recomp_exhausted \/ e = E_dt_at_min) /\
                  post = [] /\ st = Raised e)) /\
    (forall ev x e, In (ev, x, OErr e) tr ->
       ev = Failed /\ (e = E_recomp_exhausted \/ e = E_dt_at_min)) /\
    (forall e, st = Raised e -> e = E_recomp_exhausted \/ e = E_dt_at_min).
Proof. exact main_theorem. Qed.
Print Assumptions C09_main.

(* compute_time_step(recompute_solution=True) from ANY state of a non-constant manager:
   raises exactly when the counter of consecutive recomputations has reached recomp_max or
   when dt == dt_min (state untouched); otherwise the clock goes back by exactly the step
   just taken, time_index is decremented and the counter incremented. *)
Theorem C09_failed_attempt :
  forall (c : cfg R) (sched : list R) (x : state R),
    constant c = false ->
    ((recomp_max c <= recomp x)%Z ->
       compute_time_step R ROps c sched x None true = (x, OErr E_recomp_exhausted)) /\
    ((recomp x < recomp_max c)%Z -> dt x = dt_min c ->
       compute_time_step R ROps c sched x None true = (x, OErr E_dt_at_min)) /\
    ((recomp x < recomp_max c)%Z -> dt x <> dt_min c ->
       forall x' o, compute_time_step R ROps c sched x None true = (x', o) ->
         time x' = time x - dt x /\ tidx x' = (tidx x - 1)%Z /\
         recomp x' = (recomp x + 1)%Z /\ (o = ODt (dt x') \/ o = OErr E_index)).
Proof. exact failed_attempt. Qed.
Print Assumptions C09_failed_attempt.

(* compute_time_step(iterations=k) from ANY state of a non-constant manager: None and no
   change once the final time is reached; otherwise clock and time index untouched and the
   recomputation counter reset (so the counter counts CONSECUTIVE failures). *)
Theorem C09_converged_attempt :
  forall (c : cfg R) (sched : list R) (x : state R) (k : Z),
    constant c = false ->
    (final_time_reached R ROps c sched x = true ->
       compute_time_step R ROps c sched x (Some k) false = (x, ONone)) /\
    (final_time_reached R ROps c sched x = false ->
       forall x' o, compute_time_step R ROps c sched x (Some k) false = (x', o) ->
         time x' = time x /\ tidx x' = tidx x /\ recomp x' = 0%Z /\
         (o = ODt (dt x') \/ o = OErr E_index)).
Proof. exact converged_attempt. Qed.
Print Assumptions C09_converged_attempt.

(* What an accepting constructor (constant_dt=False) guarantees about the stored
   configuration — the "valid parameters" of C09_main besides its explicit guards. *)
Theorem C09_constructor_validates :
  forall (a : args R) (sched : list R) (c : cfg R),
    construct R ROps a sched = inl c -> a_constant a = false ->
    constant c = false /\ dt_init c = a_dt_init a /\ rtol c = a_rtol a /\ atol c = a_atol a /\
    (2 <= length sched)%nat /\ 0 <= nth 0 sched 0 /\ 0 < dt_init c /\
    dt_min c <= dt_init c /\ dt_init c <= dt_max c /\
    iter_low c = a_iter_low a /\ iter_upp c = a_iter_upp a /\ iter_max c = a_iter_max a /\
    under c = a_under a /\ over c = a_over a /\ recomp_factor c = a_recomp_factor a /\
    recomp_max c = a_recomp_max a /\
    (0 <= iter_low c <= iter_upp c)%Z /\ (iter_upp c <= iter_max c)%Z /\
    under c < 1 /\ 1 < over c /\ dt_min c * over c <= dt_max c /\
    dt_min c <= dt_max c * under c /\ recomp_factor c < 1 /\ (0 < recomp_max c)%Z.
Proof. exact construct_ok. Qed.
Print Assumptions C09_constructor_validates.

(* ---------------- non-vacuity ---------------- *)
(* The regression input of the repaired defect: schedule [0; 1; 3/2], dt_init = dt_max = 1. *)
Definition ex_args : args R :=
  Build_args R 1 false (Some (1 / 10, 1)) 15 4 7 (7 / 10) (13 / 10) (1 / 2) 10
             (1 / 10000000000) 0.
Definition ex_sched : list R := [0; 1; 3 / 2].

Example C09_main_nonvacuous :
  exists c tr st,
    simulate R ROps ex_args ex_sched [Converged 5; Failed; Converged 5; Converged 9]
      = inl (c, (tr, st)) /\
    a_constant ex_args = false /\ 0 < dt_min c /\ 0 <= a_rtol ex_args /\
    0 <= a_atol ex_args /\ well_separated (a_rtol ex_args) (a_atol ex_args) ex_sched /\
    a_dt_init ex_args <= nth 1 ex_sched 0 - nth 0 ex_sched 0.
Proof.
  assert (E : exists c, construct R ROps ex_args ex_sched = inl c /\ dt_min c = 1 / 10).
  { eexists. unfold construct, ex_args, ex_sched, resolve_min_max, strictly_increasing.
    cbn [length Nat.ltb Nat.leb existsb last negb orb andb fst snd a_dt_init a_constant
         a_dt_min_max a_iter_max a_iter_low a_iter_upp a_under a_over a_recomp_factor
         a_recomp_max a_rtol a_atol].
    rops. rdec. cbn [negb orb andb Z.leb Z.ltb Z.compare Pos.compare Pos.compare_cont].
    split; reflexivity. }
  destruct E as (c & Ec & Emin).
  unfold simulate. rewrite Ec.
  destruct (drive R ROps c ex_sched (init_state R ROps c ex_sched) _) as [tr st].
  exists c, tr, st. split; [reflexivity|].
  unfold ex_args, ex_sched; cbn [a_constant a_rtol a_atol a_dt_init nth].
  repeat split; try lra.
  intros j Hj. cbn [length] in Hj.
  destruct j as [|[|j]]; cbn [nth]; [| |lia]; rewrite Rabs_pos_eq by lra; lra.
Qed.

Example C09_failed_attempt_nonvacuous :
  let c := Build_cfg R 1 false (1 / 10) 1 15 4 7 (7 / 10) (13 / 10) (1 / 2) 2 0 0 in
  let exhausted := Build_state R 1 (1 / 2) 1%Z 1%Z 2%Z false in
  let retry := Build_state R 1 (1 / 2) 1%Z 1%Z 0%Z false in
  let at_min := Build_state R 1 (1 / 10) 1%Z 1%Z 0%Z false in
  constant c = false /\
  (recomp_max c <= recomp exhausted)%Z /\
  (recomp retry < recomp_max c)%Z /\ dt retry <> dt_min c /\ dt at_min = dt_min c.
Proof. cbn. repeat split; try lia; try lra. Qed.

(* The same regression input executed with the binary64 instance of the model (the instance
   the execution correspondence uses): the repaired code accepts exactly 1.0 and 1.5. *)
Example C09_regression_binary64 :
  match simulate float FOps
          (Build_args float 1%float false (Some ((0x1.999999999999ap-4)%float, 1%float)) 15 4 7
                      (0x1.6666666666666p-1)%float (0x1.4cccccccccccdp+0)%float (0x1.0000000000000p-1)%float 10 (0x1.b7cdfd9d7bdbbp-34)%float (0x1.cd2b297d889bcp-54)%float)
          [0%float; 1%float; (0x1.8000000000000p+0)%float] [Converged 5; Converged 5; Converged 5] with
  | inl (_, (tr, st)) =>
      stop_same st Finished &&
      match accepted float tr with
      | [t1; t2] => PrimFloat.eqb t1 1%float && PrimFloat.eqb t2 (0x1.8000000000000p+0)%float
      | _ => false
      end
  | inr _ => false
  end = true.
Proof. vm_compute. reflexivity. Qed.
