(* C42 — property theorems only.  Model: PP.Model.C42 (one polymorphic transcription of
   compute_saturations / chainrule_fractional_derivatives / normalize_rows of
   porepy/compositional/utils.py; executed over Q in the tie); the theorems are about its
   instance over the reals defined in PP.Proofs.C42 (closedR, build_matR, dxnR, satR, ...).
   [phases y rho]: y and rho have the same length (any number of phases), every y_j >= 0 and
   every rho_j > 0; together with [rsum y = 1] this is "fractions on the simplex, positive
   densities".  closedR y rho = [ (y_j/rho_j) / sum_k (y_k/rho_k) ]_j. *)
From Coq Require Import List QArith Qreals Reals Lra.
From Coquelicot Require Import Coquelicot.
Import ListNotations.
From PP Require Import Model.C42 Proofs.C42 Proofs.C42_chain Proofs.C42_unique Proofs.C42_chain2
  Proofs.C42_transfer.
Open Scope R_scope.

(* Saturations are non-negative ... *)
Theorem C42_saturations_nonnegative :
  forall y rho, phases y rho -> rsum y = 1 -> List.Forall (fun s => 0 <= s) (closedR y rho).
Proof. exact closed_nonneg. Qed.
Print Assumptions C42_saturations_nonnegative.

(* ... sum to one ... *)
Theorem C42_saturations_sum_to_one :
  forall y rho, phases y rho -> rsum y = 1 -> rsum (closedR y rho) = 1.
Proof. exact closed_sum_one. Qed.
Print Assumptions C42_saturations_sum_to_one.

(* ... and reproduce the phase fractions as density-weighted saturation ratios:
   [ rho_j s_j / sum_k rho_k s_k ]_j = y. *)
Theorem C42_saturations_reproduce_fractions :
  forall y rho, phases y rho -> rsum y = 1 -> fractions_ofR (closedR y rho) rho = y.
Proof. exact closed_reproduces. Qed.
Print Assumptions C42_saturations_reproduce_fractions.

(* Two phases: the analytic formula of the code is the closed form ... *)
Theorem C42_two_phase :
  forall y0 y1 rho0 rho1, 0 < rho0 -> 0 < rho1 -> 0 <= y1 -> y1 < 1 -> y0 + y1 = 1 ->
    let s0 := 1 / (1 + y1 / (1 - y1) * (rho0 / rho1)) in
    closedR [y0; y1] [rho0; rho1] = [s0; 1 - s0].
Proof. exact two_phase. Qed.
Print Assumptions C42_two_phase.

(* ... and the whole call (both multi-saturation checks, the saturated-phase test, the final
   feasibility assertion) returns it when no phase is saturated; np.linalg.solve is not used. *)
Theorem C42_two_phase_call :
  forall solve y0 y1 rho0 rho1 eps,
    0 < eps -> eps < 1 / 2 -> 0 < rho0 -> 0 < rho1 -> 0 <= y1 -> y0 + y1 = 1 ->
    y0 < 1 - eps -> y1 < 1 - eps ->
    satR solve [y0; y1] [rho0; rho1] eps = inr (closedR [y0; y1] [rho0; rho1]).
Proof. exact two_phase_code. Qed.
Print Assumptions C42_two_phase_call.

(* n phases: the closed form satisfies, row by row, the linear system the code assembles
   (matrix with zero diagonal and entries rho_j (y_j - 1) - rho_k y_j, right-hand side
   rho_j (y_j - 1)) ... *)
Theorem C42_n_phase_system :
  forall y rho, phases y rho -> rsum y = 1 ->
    forall j, (j < length y)%nat ->
      nth j (mat_vecR (build_matR y rho) (closedR y rho)) 0 = nth j (build_rhsR y rho) 0.
Proof. exact closed_solves_system. Qed.
Print Assumptions C42_n_phase_system.

(* ... and it is the ONLY solution (two or more phases): the assembled system is uniquely
   solvable on the simplex. *)
Theorem C42_n_phase_unique :
  forall y rho s, phases y rho -> rsum y = 1 -> (2 <= length y)%nat -> length s = length y ->
    (forall j, (j < length y)%nat ->
       nth j (mat_vecR (build_matR y rho) s) 0 = nth j (build_rhsR y rho) 0) ->
    s = closedR y rho.
Proof. exact system_unique. Qed.
Print Assumptions C42_n_phase_unique.

(* The whole call for three or more phases, none saturated, every fraction either exactly 0
   (vanished: dropped by the y > eps filter and scattered back as 0) or > eps: under the
   contract of np.linalg.solve (a solution is returned whenever one exists) the call returns
   the closed form. *)
Theorem C42_n_phase_call :
  forall solve : list (list R) -> list R -> list R,
    (forall M b s, length s = length b -> mat_vecR M s = b ->
                   mat_vecR M (solve M b) = b /\ length (solve M b) = length b) ->
    forall y rho eps, phases y rho -> rsum y = 1 -> (3 <= length y)%nat ->
      0 < eps -> eps < 1 / 2 ->
      List.Forall (fun a => a = 0 \/ eps < a) y -> List.Forall (fun a => a < 1 - eps) y ->
      satR solve y rho eps = inr (closedR y rho).
Proof. exact n_phase_call. Qed.
Print Assumptions C42_n_phase_call.

(* The saturated-phase shortcut (any number >= 2 of phases): if y_j >= 1 - eps the call returns
   the indicator vector of the saturated phase; it is non-negative, sums to one, is reproduced
   exactly by the density-weighted ratios and deviates from y by at most eps per component. *)
Theorem C42_saturated_phase :
  forall solve y rho eps j, phases y rho -> rsum y = 1 -> (2 <= length y)%nat ->
    0 < eps -> eps < 1 / 2 -> (j < length y)%nat -> 1 - eps <= nth j y 0 ->
    let s := ind (satmask eps y) in
    satR solve y rho eps = inr s /\
    List.Forall (fun a => 0 <= a) s /\ rsum s = 1 /\ fractions_ofR s rho = s /\
    forall k, (k < length y)%nat -> Rabs (nth k s 0 - nth k y 0) <= eps.
Proof. exact saturated_call. Qed.
Print Assumptions C42_saturated_phase.

(* Chain rule: entry (i,j) of the matrix the code multiplies with is the partial derivative of
   the i-th normalised fraction x_i / sum(x) with respect to x_j (derivative at 0 of
   e |-> normalize(x + e*unit_j)_i) ... *)
Theorem C42_chainrule_jacobian :
  forall x i j, (i < length x)%nat -> (j < length x)%nat -> rsum x <> 0 ->
    is_derive (fun e => nth i (normalizeR (add_at j e x)) 0) 0 (nth j (nth i (dxnR x) []) 0).
Proof. exact dxn_is_jacobian. Qed.
Print Assumptions C42_chainrule_jacobian.

(* ... the call returns the leading derivatives unchanged followed by gradient x Jacobian:
   entry j = sum_i g_i * dxn[i][j] ... *)
Theorem C42_chainrule_output :
  forall df x, (length x <= length df)%nat ->
    let n := length x in let k := (length df - n)%nat in
    chainruleR df x =
    inr (firstn k df ++
         map (fun j => rsum (map2 (fun gi row => gi * nth j row 0) (skipn k df) (dxnR x))) (seq 0 n)).
Proof. exact chainrule_output. Qed.
Print Assumptions C42_chainrule_output.

(* ... and that entry IS the derivative of the composed function: for every outer function f
   that is differentiable at the normalised point with gradient g (it obeys the chain rule
   along every componentwise differentiable curve through that point, as every
   Frechet-differentiable function does), d/de f(normalize(x + e unit_j)) at e = 0 equals
   sum_i g_i * dxn[i][j]. *)
Theorem C42_chainrule_composed :
  forall f x g j, rsum x <> 0 -> (j < length x)%nat ->
    differentiable_at f (normalizeR x) g ->
    is_derive (fun e => f (normalizeR (add_at j e x))) 0
              (rsum (map2 (fun gi row => gi * nth j row 0) g (dxnR x))).
Proof. exact chainrule_composed. Qed.
Print Assumptions C42_chainrule_composed.

(* the differentiability hypothesis is satisfiable: every affine function c0 + g . v *)
Theorem C42_affine_differentiable :
  forall c0 g z, length g = length z ->
    differentiable_at (fun v => c0 + rsum (map2 Rmult g v)) z g.
Proof. exact affine_differentiable. Qed.
Print Assumptions C42_affine_differentiable.

Theorem C42_chainrule_short_rejected :
  forall df x, (length df < length x)%nat -> chainruleR df x = inl ValueErr.
Proof. exact chainrule_short. Qed.
Print Assumptions C42_chainrule_short_rejected.

(* Row normalisation yields rows summing to one (rows with non-zero sum). *)
Theorem C42_normalize_rows :
  forall m, List.Forall (fun row => rsum row <> 0) m ->
    List.Forall (fun row => rsum row = 1) (normalize_rowsR m).
Proof. exact normalize_rows_sum_one. Qed.
Print Assumptions C42_normalize_rows.

(* Transfer: the Q instance executed by the tie and the R instance of the theorems are the same
   functions through the embedding Q2R (QR = map Q2R, QRres maps it under the error sum):
   compute_saturations (given that the two solvers agree and the two-phase formula does not
   divide by zero), the closed form, the chain rule and row normalisation. *)
Theorem C42_transfer_saturations :
  forall solveR y rho eps,
    (forall M b, QR (solveQ M b) = solveR (map QR M) (QR b)) ->
    (forall y0 y1 r0 r1, y = [y0; y1] -> rho = [r0; r1] ->
       nz (1 - y1)%Q /\ nz r1 /\ nz (1 + y1 / (1 - y1) * (r0 / r1))%Q) ->
    QRres (sat_Q y rho eps) = satR solveR (QR y) (QR rho) (Q2R eps).
Proof. exact sat_QR. Qed.
Print Assumptions C42_transfer_saturations.

Theorem C42_transfer_closed :
  forall y rho, List.Forall nz rho -> nz (tsum Q 0%Q Qplus (map2 Qdiv y rho)) ->
    QR (closed_Q y rho) = closedR (QR y) (QR rho).
Proof. exact closed_QR. Qed.
Print Assumptions C42_transfer_closed.

Theorem C42_transfer_chainrule :
  forall df x, nz (tsum Q 0%Q Qplus x) -> QRres (chainrule_Q df x) = chainruleR (QR df) (QR x).
Proof. exact chainrule_QR. Qed.
Print Assumptions C42_transfer_chainrule.

Theorem C42_transfer_normalize_rows :
  forall m, List.Forall (fun row => nz (tsum Q 0%Q Qplus row)) m ->
    map QR (normalize_rows_Q m) = normalize_rowsR (map QR m).
Proof. exact normalize_rows_QR. Qed.
Print Assumptions C42_transfer_normalize_rows.

(* Non-vacuity of the new hypotheses: a saturated three-phase input; a three-phase input with a
   vanished phase satisfying the data hypotheses of C42_n_phase_call, and a solution vector for
   C42_n_phase_unique. *)
Example C42_nonvacuous_2 :
  (phases [19/20; 1/20; 0] [1; 2; 4] /\ rsum [19/20; 1/20; 0] = 1 /\ 1 - 1/10 <= nth 0 [19/20; 1/20; 0] 0) /\
  (phases [1/2; 0; 1/4; 1/4] [1; 3; 2; 4] /\ rsum [1/2; 0; 1/4; 1/4] = 1 /\
   List.Forall (fun a => a = 0 \/ 1/10 < a) [1/2; 0; 1/4; 1/4] /\
   List.Forall (fun a => a < 1 - 1/10) [1/2; 0; 1/4; 1/4]) /\
  (exists s, length s = 3%nat /\
     forall j, (j < 3)%nat ->
       nth j (mat_vecR (build_matR [1/2; 1/4; 1/4] [1; 2; 4]) s) 0 = nth j (build_rhsR [1/2; 1/4; 1/4] [1; 2; 4]) 0).
Proof.
  split; [|split].
  - split; [repeat constructor; lra|]. split; cbn; lra.
  - split; [repeat constructor; lra|]. split; [cbn; lra|]. split; repeat constructor; lra.
  - exists (closedR [1/2; 1/4; 1/4] [1; 2; 4]). split; [reflexivity|].
    intros j Hj. apply closed_solves_system; [repeat constructor; lra|cbn; lra|exact Hj].
Qed.

(* Non-vacuity: three phases on the simplex with positive densities; the closed form. *)
Example C42_nonvacuous :
  phases [1/2; 1/4; 1/4] [1; 2; 4] /\ rsum [1/2; 1/4; 1/4] = 1 /\
  closedR [1/2; 1/4; 1/4] [1; 2; 4] = [8/11; 2/11; 1/11] /\
  (exists solve, satR solve [3/4; 1/4] [1; 2] (1/10) = inr [6/7; 1/7]).
Proof.
  split; [repeat constructor; lra|]. split; [cbn; lra|]. split.
  - unfold closedR, closed. cbn [map2 map tsum]. repeat (f_equal; try lra).
  - exists (fun _ b => b).
    rewrite (two_phase_code _ (3/4) (1/4) 1 2 (1/10)) by lra.
    unfold closedR, closed. cbn [map2 map tsum]. repeat (f_equal; try lra).
Qed.
