(* C42 — property theorems only.  Model: PP.Model.C42 (one polymorphic transcription of
   compute_saturations / chainrule_fractional_derivatives / normalize_rows of
   porepy/compositional/utils.py; executed over Q in the tie); the theorems are about its
   instance over the reals defined in PP.Proofs.C42 (closedR, build_matR, dxnR, satR, ...).
   [phases y rho]: y and rho have the same length (any number of phases), every y_j >= 0 and
   every rho_j > 0; together with [rsum y = 1] this is "fractions on the simplex, positive
   densities".  closedR y rho = [ (y_j/rho_j) / sum_k (y_k/rho_k) ]_j. *)
From Coq Require Import List Reals Lra.
From Coquelicot Require Import Coquelicot.
Import ListNotations.
From PP Require Import Model.C42 Proofs.C42 Proofs.C42_chain.
Open Scope R_scope.

(* Saturations are non-negative ... *)
Theorem C42_saturations_nonnegative :
  forall y rho, phases y rho -> rsum y = 1 -> List.Forall (fun s => 0 <= s) (closedR y rho).
Proof. exact closed_nonneg. Qed.
Print Assumptions C42_saturations_nonnegative.

(* ... sum to one ... *)
Theorem C42_saturations_sum_to_one :
  forall y rho, phases y rho -> rsum y = 1 -> rsum (closedR y rho) = 1.
Proof. exact closed_sum_one. Qed.
Print Assumptions C42_saturations_sum_to_one.

(* ... and reproduce the phase fractions as density-weighted saturation ratios:
   [ rho_j s_j / sum_k rho_k s_k ]_j = y. *)
Theorem C42_saturations_reproduce_fractions :
  forall y rho, phases y rho -> rsum y = 1 -> fractions_ofR (closedR y rho) rho = y.
Proof. exact closed_reproduces. Qed.
Print Assumptions C42_saturations_reproduce_fractions.

(* Two phases: the analytic formula of the code is the closed form ... *)
Theorem C42_two_phase :
  forall y0 y1 rho0 rho1, 0 < rho0 -> 0 < rho1 -> 0 <= y1 -> y1 < 1 -> y0 + y1 = 1 ->
    let s0 := 1 / (1 + y1 / (1 - y1) * (rho0 / rho1)) in
    closedR [y0; y1] [rho0; rho1] = [s0; 1 - s0].
Proof. exact two_phase. Qed.
Print Assumptions C42_two_phase.

(* ... and the whole call (both multi-saturation checks, the saturated-phase test, the final
   feasibility assertion) returns it when no phase is saturated; np.linalg.solve is not used. *)
Theorem C42_two_phase_call :
  forall solve y0 y1 rho0 rho1 eps,
    0 < eps -> eps < 1 / 2 -> 0 < rho0 -> 0 < rho1 -> 0 <= y1 -> y0 + y1 = 1 ->
    y0 < 1 - eps -> y1 < 1 - eps ->
    satR solve [y0; y1] [rho0; rho1] eps = inr (closedR [y0; y1] [rho0; rho1]).
Proof. exact two_phase_code. Qed.
Print Assumptions C42_two_phase_call.

(* n phases: the closed form satisfies, row by row, the linear system the code assembles
   (matrix with zero diagonal and entries rho_j (y_j - 1) - rho_k y_j, right-hand side
   rho_j (y_j - 1)).  PARTIAL: that this system has no other solution (non-singularity), and
   that np.linalg.solve returns a solution, is NOT proved here; the tie compares the code's
   output with the closed form inside Coq on every generated case instead. *)
Theorem C42_n_phase_partial :
  forall y rho, phases y rho -> rsum y = 1 ->
    forall j, (j < length y)%nat ->
      nth j (mat_vecR (build_matR y rho) (closedR y rho)) 0 = nth j (build_rhsR y rho) 0.
Proof. exact closed_solves_system. Qed.
Print Assumptions C42_n_phase_partial.

(* Chain rule: entry (i,j) of the matrix the code multiplies with is the partial derivative of
   the i-th normalised fraction x_i / sum(x) with respect to x_j (derivative at 0 of
   e |-> normalize(x + e*unit_j)_i) ... *)
Theorem C42_chainrule_jacobian :
  forall x i j, (i < length x)%nat -> (j < length x)%nat -> rsum x <> 0 ->
    is_derive (fun e => nth i (normalizeR (add_at j e x)) 0) 0 (nth j (nth i (dxnR x) []) 0).
Proof. exact dxn_is_jacobian. Qed.
Print Assumptions C42_chainrule_jacobian.

(* ... and the call returns the leading derivatives unchanged followed by gradient x Jacobian:
   entry j = sum_i g_i * d(xn_i)/d(x_j), which is the chain rule for f(y, xn(x)).  PARTIAL in
   this sense: the multivariate chain rule of calculus for an arbitrary differentiable f is not
   re-proved; the statement is that the code forms exactly that sum with exactly those partial
   derivatives.  Too short a gradient is rejected. *)
Theorem C42_chainrule_partial :
  forall df x, (length x <= length df)%nat ->
    let n := length x in let k := (length df - n)%nat in
    chainruleR df x =
    inr (firstn k df ++
         map (fun j => rsum (map2 (fun gi row => gi * nth j row 0) (skipn k df) (dxnR x))) (seq 0 n)).
Proof. exact chainrule_output. Qed.
Print Assumptions C42_chainrule_partial.

Theorem C42_chainrule_short_rejected :
  forall df x, (length df < length x)%nat -> chainruleR df x = inl ValueErr.
Proof. exact chainrule_short. Qed.
Print Assumptions C42_chainrule_short_rejected.

(* Row normalisation yields rows summing to one (rows with non-zero sum). *)
Theorem C42_normalize_rows :
  forall m, List.Forall (fun row => rsum row <> 0) m ->
    List.Forall (fun row => rsum row = 1) (normalize_rowsR m).
Proof. exact normalize_rows_sum_one. Qed.
Print Assumptions C42_normalize_rows.

(* Non-vacuity: three phases on the simplex with positive densities; the closed form. *)
Example C42_nonvacuous :
  phases [1/2; 1/4; 1/4] [1; 2; 4] /\ rsum [1/2; 1/4; 1/4] = 1 /\
  closedR [1/2; 1/4; 1/4] [1; 2; 4] = [8/11; 2/11; 1/11] /\
  (exists solve, satR solve [3/4; 1/4] [1; 2] (1/10) = inr [6/7; 1/7]).
Proof.
  split; [repeat constructor; lra|]. split; [cbn; lra|]. split.
  - unfold closedR, closed. cbn [map2 map tsum]. repeat (f_equal; try lra).
  - exists (fun _ b => b).
    rewrite (two_phase_code _ (3/4) (1/4) 1 2 (1/10)) by lra.
    unfold closedR, closed. cbn [map2 map tsum]. repeat (f_equal; try lra).
Qed.
