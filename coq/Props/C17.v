(* C17 — property theorems only.  Model: PP.Model.C17 (transcription of
   Upwind.discretize); proofs: PP.Proofs.C17.

   Vocabulary (definitions in Proofs/C17.v):
     one_sided cf        every face has at most one cell on each side
     leaves T I sgn f c  the flux through f leaves cell c: an incidence entry (f,c,s) with
                         s * sgn(q f) > 0
     missing_side T I f  f has no cell with positive, or none with negative sign (boundary face)
     row_apply M x r     (M x)_r for a coordinate list M
     face_flux, div_cell, step, total, outflow, noflow   the explicit transport step
                         c_i - dt/vol_i * (Div F)_i with
                         F = q*(upwind c) + bound_dir (q*b) + bound_neu b, for one component *)
From Coq Require Import List ZArith Bool Arith Lia Reals Lra.
Import ListNotations.
From PP Require Import Model.C17 Proofs.C17 Proofs.C17_multi.

(* Upstream selection.  For every flux type (the code only inspects sign(q) >= 0), incidence
   with at most one cell per side, flags, component count k and every run that does not raise:
   a face with NON-ZERO flux
   - selects no cell if it is a Neumann face or a Dirichlet face that the flux enters;
   - otherwise selects, in each component, exactly the cell the flux leaves (value 1), and
     that cell exists and is a valid cell. *)
Theorem C17_upstream :
  forall (T : Type) (nonneg : T -> bool) (I : input T) (sgn : T -> Z),
    (forall x : T, nonneg x = (0 <=? sgn x)%Z) ->
    forall o : output,
      one_sided (cf I) -> discretize T nonneg I = Ok o -> dim I <> 0%nat ->
      forall f j : nat, (f < nf I)%nat -> (j < ncomp I)%nat -> sgn (q I f) <> 0%Z ->
        let k := ncomp I in
        (is_neu I f = true \/ is_dir I f = true /\ (forall c : nat, ~ leaves T I sgn f c) ->
           forall (c : nat) (v : Z), ~ In ((f * k + j)%nat, c, v) (upwind o)) /\
        (is_neu I f = false -> forall c0 : nat, leaves T I sgn f c0 ->
           (c0 < nc I)%nat /\
           (forall (c : nat) (v : Z),
              In ((f * k + j)%nat, c, v) (upwind o) <-> c = (c0 * k + j)%nat /\ v = 1%Z)) /\
        (is_neu I f = false -> is_dir I f = false \/ (exists c : nat, leaves T I sgn f c) ->
           exists c0 : nat, leaves T I sgn f c0 /\ (c0 < nc I)%nat).
Proof. exact upstream_theorem. Qed.
Print Assumptions C17_upstream.

(* Dirichlet data enter only on Dirichlet faces lacking a cell on the upstream side (for
   non-zero flux: exactly the Dirichlet inflow faces), with coefficient 1 on the diagonal. *)
Theorem C17_boundary_dir :
  forall (T : Type) (nonneg : T -> bool) (I : input T) (sgn : T -> Z),
    (forall x : T, nonneg x = (0 <=? sgn x)%Z) ->
    forall o : output,
      discretize T nonneg I = Ok o -> dim I <> 0%nat ->
      let k := ncomp I in
      (forall (r c : nat) (v : Z), In (r, c, v) (bound_dir o) ->
         exists f j : nat,
           (f < nf I)%nat /\ (j < k)%nat /\ r = (f * k + j)%nat /\ c = (f * k + j)%nat /\
           v = 1%Z /\ is_dir I f = true /\ missing_side T I f /\
           (sgn (q I f) <> 0%Z -> forall c' : nat, ~ leaves T I sgn f c')) /\
      (forall f j : nat, (f < nf I)%nat -> (j < k)%nat -> is_dir I f = true ->
         sgn (q I f) <> 0%Z -> (forall c' : nat, ~ leaves T I sgn f c') ->
         In ((f * k + j)%nat, (f * k + j)%nat, 1%Z) (bound_dir o)).
Proof. exact boundary_dir_theorem. Qed.
Print Assumptions C17_boundary_dir.

(* Neumann data enter exactly on the Neumann faces, with the sign of the divergence. *)
Theorem C17_boundary_neu :
  forall (T : Type) (nonneg : T -> bool) (I : input T) (o : output),
    discretize T nonneg I = Ok o -> dim I <> 0%nat ->
    let k := ncomp I in
    forall (r c : nat) (v : Z),
      In (r, c, v) (bound_neu o) <->
      (exists f j : nat,
         (f < nf I)%nat /\ (j < k)%nat /\ r = (f * k + j)%nat /\ c = (f * k + j)%nat /\
         v = sgn_div (cf I) f /\ is_neu I f = true).
Proof. exact boundary_neu_theorem. Qed.
Print Assumptions C17_boundary_neu.

(* With a Dirichlet or Neumann flag on every face that lacks a side, the code never raises. *)
Theorem C17_total :
  forall (T : Type) (nonneg : T -> bool) (I : input T),
    (forall (f c : nat) (s : Z), In (f, c, s) (cf I) -> (c < nc I)%nat) ->
    (forall f : nat, (f < nf I)%nat ->
       is_neu I f = true \/ is_dir I f = true \/
       (exists (c : nat) (s : Z), In (f, c, s) (cf I) /\ (0 < s)%Z) /\
       (exists (c : nat) (s : Z), In (f, c, s) (cf I) /\ (s < 0)%Z)) ->
    exists o : output, discretize T nonneg I = Ok o.
Proof. exact total_theorem. Qed.
Print Assumptions C17_total.

(* The error branch: ValueError exactly when a kept (non-Neumann, non-Dirichlet-inflow) face
   has no valid upstream cell. *)
Theorem C17_error :
  forall (T : Type) (nonneg : T -> bool) (I : input T) (e : err),
    discretize T nonneg I = Err e <->
    dim I <> 0%nat /\
    (exists f : nat, (f < nf I)%nat /\ deleted T nonneg I f = false /\
                     match up T nonneg I f with None => True | Some c => (nc I <= c)%nat end).
Proof. exact discretize_err. Qed.
Print Assumptions C17_error.

(* Point grids: empty matrices. *)
Theorem C17_point_grid :
  forall (T : Type) (nonneg : T -> bool) (I : input T) (o : output),
    dim I = 0%nat -> discretize T nonneg I = Ok o ->
    upwind o = nil /\ bound_dir o = nil /\ bound_neu o = nil /\
    upwind_shape o = (0%nat, 1%nat) /\ bound_dir_shape o = (0%nat, 0%nat) /\
    bound_neu_shape o = (0%nat, 0%nat).
Proof. exact discretize_point. Qed.
Print Assumptions C17_point_grid.

(* Components: the k-component run succeeds iff the one-component run does, its matrices
   are the Kronecker expansions with the k x k identity, and applied to an interleaved vector
   they act on component j as the one-component matrices act on that component. *)
Theorem C17_components :
  forall (T : Type) (nonneg : T -> bool) (I : input T) (o : output),
    discretize T nonneg I = Ok o -> dim I <> 0%nat ->
    let k := ncomp I in
    exists o1 : output,
      discretize T nonneg (set_ncomp T I 1) = Ok o1 /\
      upwind o = kron k (upwind o1) /\
      bound_dir o = kron k (bound_dir o1) /\
      bound_neu o = kron k (bound_neu o1) /\
      upwind_shape o = ((nf I * k)%nat, (nc I * k)%nat) /\
      bound_dir_shape o = ((nf I * k)%nat, (nf I * k)%nat) /\
      bound_neu_shape o = ((nf I * k)%nat, (nf I * k)%nat) /\
      (forall (x : nat -> R) (f j : nat), (j < k)%nat ->
         row_apply (upwind o) x (f * k + j) =
           row_apply (upwind o1) (fun c : nat => x (c * k + j)%nat) f /\
         row_apply (bound_dir o) x (f * k + j) =
           row_apply (bound_dir o1) (fun c : nat => x (c * k + j)%nat) f /\
         row_apply (bound_neu o) x (f * k + j) =
           row_apply (bound_neu o1) (fun c : nat => x (c * k + j)%nat) f).
Proof. exact components_theorem. Qed.
Print Assumptions C17_components.

(* The advective face flux assembled from the three matrices (real fluxes, one component):
   upstream value times flux on kept faces, q*b on Dirichlet-inflow faces, +-b on Neumann
   faces, nothing else. *)
Theorem C17_face_flux :
  forall (I : input R) (o : output) (b : nat -> R),
    discretize R nonnegR I = Ok o -> dim I <> 0%nat -> ncomp I = 1%nat ->
    forall (c : nat -> R) (f : nat), (f < nf I)%nat ->
      face_flux I o b c f =
      ((if deleted R nonnegR I f then 0
        else q I f * match up R nonnegR I f with Some cu => c cu | None => 0 end)
       + (if inflow R nonnegR I f then q I f * b f else 0)
       + (if is_neu I f then IZR (sgn_div (cf I) f) * b f else 0))%R.
Proof. exact face_flux_char. Qed.
Print Assumptions C17_face_flux.

(* Conservation: with no-flow boundaries the explicit step leaves sum_i vol_i c_i unchanged —
   for ANY real flux field (not only divergence-free ones), any dt, any cell values, any
   number of steps. *)
Theorem C17_conservative :
  forall (I : input R) (o : output) (b vol : nat -> R) (dt : R),
    discretize R nonnegR I = Ok o -> dim I <> 0%nat -> ncomp I = 1%nat ->
    wf_inc I ->
    (forall f : nat, (f < nf I)%nat -> noflow I b f) ->
    (forall i : nat, (i < nc I)%nat -> vol i <> 0%R) ->
    forall (n : nat) (c : nat -> R),
      total I vol (steps I o b vol dt n c) = total I vol c.
Proof. exact steps_conservative. Qed.
Print Assumptions C17_conservative.

(* Maximum principle: divergence-free flux, no-flow boundaries, CFL  dt*outflow_i <= vol_i:
   after any number of steps every cell value lies within the initial bounds. *)
Theorem C17_max_principle :
  forall (I : input R) (o : output) (b vol : nat -> R) (dt : R),
    discretize R nonnegR I = Ok o -> dim I <> 0%nat -> ncomp I = 1%nat ->
    one_sided (cf I) -> wf_inc I ->
    (forall f : nat, (f < nf I)%nat -> noflow I b f) ->
    (0 <= dt)%R ->
    (forall i : nat, (i < nc I)%nat -> (0 < vol i)%R /\ (dt * outflow I i <= vol i)%R) ->
    (forall i : nat, (i < nc I)%nat -> div_cell I (q I) i = 0%R) ->
    forall (c : nat -> R) (m M : R),
      (forall j : nat, (j < nc I)%nat -> (m <= c j <= M)%R) ->
      forall (n i : nat), (i < nc I)%nat -> (m <= steps I o b vol dt n c i <= M)%R.
Proof. exact steps_bounded. Qed.
Print Assumptions C17_max_principle.

(* k interleaved components (component j of cell i at index i*k+j, boundary values likewise,
   matrices as returned for num_components = k): every component is conserved ... *)
Theorem C17_conservative_k :
  forall (I : input R) (o : output) (b vol : nat -> R) (dt : R),
    discretize R nonnegR I = Ok o -> dim I <> 0%nat ->
    wf_inc I ->
    (forall f : nat, (f < nf I)%nat -> noflow_k I b f) ->
    (forall i : nat, (i < nc I)%nat -> vol i <> 0%R) ->
    forall (n : nat) (c : nat -> R) (j : nat), (j < ncomp I)%nat ->
      total_k I vol j (steps_k I o b vol dt n c) = total_k I vol j c.
Proof. exact conservative_k. Qed.
Print Assumptions C17_conservative_k.

(* ... and stays within its own initial bounds under the CFL limit with a divergence-free
   flux, for any number of steps. *)
Theorem C17_max_principle_k :
  forall (I : input R) (o : output) (b vol : nat -> R) (dt : R),
    discretize R nonnegR I = Ok o -> dim I <> 0%nat ->
    one_sided (cf I) -> wf_inc I ->
    (forall f : nat, (f < nf I)%nat -> noflow_k I b f) ->
    (0 <= dt)%R ->
    (forall i : nat, (i < nc I)%nat -> (0 < vol i)%R /\ (dt * outflow I i <= vol i)%R) ->
    (forall i : nat, (i < nc I)%nat -> div_cell I (q I) i = 0%R) ->
    forall j : nat, (j < ncomp I)%nat ->
    forall (c : nat -> R) (m M : R),
      (forall i : nat, (i < nc I)%nat -> (m <= c (i * ncomp I + j)%nat <= M)%R) ->
      forall n i : nat, (i < nc I)%nat ->
        (m <= steps_k I o b vol dt n c (i * ncomp I + j)%nat <= M)%R.
Proof. exact max_principle_k. Qed.
Print Assumptions C17_max_principle_k.

(* The boolean checker the harness evaluates on every generated incidence. *)
Theorem C17_one_sided_checker :
  forall cf : list inc, one_sidedb cf = true -> one_sided cf.
Proof. exact one_sidedb_sound. Qed.
Print Assumptions C17_one_sided_checker.

(* ------------------------------------------------------------------------------------ *)
(* Non-vacuity. *)

(* executed instance: 1-D grid with three cells, two components; face 0 Dirichlet inflow,
   face 1 negative flux (leaves cell 1), face 2 zero flux, face 3 Neumann *)
Definition ex1 : input Z :=
  {| dim := 1; nf := 4; nc := 3;
     cf := [(0, 0, (-1)%Z); (1, 0, 1%Z); (1, 1, (-1)%Z); (2, 1, 1%Z); (2, 2, (-1)%Z); (3, 2, 1%Z)];
     q := nthz [2; -3; 0; 5]%Z;
     is_dir := nthb [true; false; false; false];
     is_neu := nthb [false; false; false; true];
     ncomp := 2 |}.

Example C17_nonvacuous_discrete :
  one_sided (cf ex1) /\
  (forall x : Z, nonnegZ x = (0 <=? Z.sgn x)%Z) /\
  (forall x : dyadic, nonnegD x = (0 <=? sgnD x)%Z) /\   (* the instance executed by the tie *)
  discretize Z nonnegZ ex1 =
    Ok {| upwind := [(2, 2, 1%Z); (3, 3, 1%Z); (4, 2, 1%Z); (5, 3, 1%Z)];
          upwind_shape := (8, 6);
          bound_dir := [(0, 0, 1%Z); (1, 1, 1%Z)]; bound_dir_shape := (8, 8);
          bound_neu := [(6, 6, 1%Z); (7, 7, 1%Z)]; bound_neu_shape := (8, 8) |} /\
  Z.sgn (q ex1 1) <> 0%Z /\ leaves Z ex1 Z.sgn 1 1 /\
  (forall c, ~ leaves Z ex1 Z.sgn 0 c) /\
  (exists o, discretize Z nonnegZ (set_ncomp Z ex1 1) = Ok o).
Proof.
  split; [apply one_sidedb_sound; vm_compute; reflexivity|].
  split; [intros x; reflexivity|].
  split; [intros x; reflexivity|].
  split; [vm_compute; reflexivity|].
  split; [vm_compute; discriminate|].
  split; [exists (-1)%Z; split; [cbn; tauto | vm_compute; reflexivity]|].
  split.
  - intros c [s [Hin Hs]]. cbn in Hin.
    repeat (destruct Hin as [Hin|Hin]; [inversion Hin; subst; vm_compute in Hs; discriminate|]).
    destruct Hin.
  - eexists. vm_compute. reflexivity.
Qed.

(* real-valued instance for the step theorems: two cells joined by two faces (a periodic
   1-D grid), unit flux around the ring, unit volumes, dt = 1/2, values 0 and 1 *)
Definition ex2 : input R :=
  {| dim := 1; nf := 2; nc := 2;
     cf := [(0, 0, 1%Z); (0, 1, (-1)%Z); (1, 1, 1%Z); (1, 0, (-1)%Z)];
     q := fun _ => 1%R;
     is_dir := fun _ => false; is_neu := fun _ => false; ncomp := 1 |}.

Example C17_nonvacuous_step :
  exists o : output,
    discretize R nonnegR ex2 = Ok o /\ dim ex2 <> 0%nat /\ ncomp ex2 = 1%nat /\
    one_sided (cf ex2) /\ wf_inc ex2 /\
    (forall f : nat, (f < nf ex2)%nat -> noflow ex2 (fun _ => 0%R) f) /\
    (0 <= 1 / 2)%R /\
    (forall i : nat, (i < nc ex2)%nat -> (0 < 1)%R /\ (1 / 2 * outflow ex2 i <= 1)%R) /\
    (forall i : nat, (i < nc ex2)%nat -> div_cell ex2 (q ex2) i = 0%R) /\
    (forall j : nat, (j < nc ex2)%nat -> (0 <= INR j <= 1)%R) /\
    (forall f, q ex2 f <> 0%R).
Proof.
  assert (Hex : exists o, discretize R nonnegR ex2 = Ok o).
  { apply total_theorem.
    - intros f c s Hin. cbn in Hin.
      repeat (destruct Hin as [Hin|Hin]; [injection Hin as ? ? ?; subst; cbn; lia|]). destruct Hin.
    - intros f Hf. right. right. cbn in Hf.
      destruct f as [|[|f]]; [| |lia].
      + split; [exists 0%nat, 1%Z | exists 1%nat, (-1)%Z]; cbn; split; try lia; tauto.
      + split; [exists 1%nat, 1%Z | exists 0%nat, (-1)%Z]; cbn; split; try lia; tauto. }
  destruct Hex as [o Ho]. exists o.
  split; [exact Ho|]. split; [cbn; lia|]. split; [reflexivity|].
  split; [apply one_sidedb_sound; vm_compute; reflexivity|].
  split.
  { intros t Hin. cbn in Hin.
    repeat (destruct Hin as [Hin|Hin]; [subst t; cbn; lia|]). destruct Hin. }
  split.
  { intros f Hf. right. cbn in Hf. destruct f as [|[|f]]; [| |lia]; repeat split. }
  split; [lra|].
  split.
  { intros i Hi. split; [lra|]. cbn in Hi. destruct i as [|[|i]]; [| |lia];
      unfold outflow, out_list, tc, ts, tf; cbn [cf ex2 fold_right fst snd Nat.eqb q];
      rewrite ?Rmult_1_l; rewrite (Rmax_left 1 0) by lra; rewrite (Rmax_right (-1 * 1) 0) by lra; lra. }
  split.
  { intros i Hi. cbn in Hi. destruct i as [|[|i]]; [| |lia];
      unfold div_cell, div_list, tc, ts, tf; cbn [cf ex2 fold_right fst snd Nat.eqb q]; lra. }
  split.
  { intros j Hj. cbn in Hj. destruct j as [|[|j]]; [| |lia]; cbn; lra. }
  intros f. cbn. lra.
Qed.

(* the ring grid with three components: the hypotheses of the k-component theorems hold *)
Definition ex3 : input R :=
  {| dim := 1; nf := 2; nc := 2;
     cf := [(0, 0, 1%Z); (0, 1, (-1)%Z); (1, 1, 1%Z); (1, 0, (-1)%Z)];
     q := fun _ => 1%R;
     is_dir := fun _ => false; is_neu := fun _ => false; ncomp := 3 |}.

Example C17_nonvacuous_step_k :
  exists o : output,
    discretize R nonnegR ex3 = Ok o /\ dim ex3 <> 0%nat /\
    one_sided (cf ex3) /\ wf_inc ex3 /\
    (forall f : nat, (f < nf ex3)%nat -> noflow_k ex3 (fun _ => 0%R) f) /\
    (forall i : nat, (i < nc ex3)%nat -> div_cell ex3 (q ex3) i = 0%R) /\
    (forall i : nat, (i < nc ex3)%nat -> (0 < 1)%R /\ (1 / 2 * outflow ex3 i <= 1)%R).
Proof.
  assert (Hex : exists o, discretize R nonnegR ex3 = Ok o).
  { apply total_theorem.
    - intros f c s Hin. cbn in Hin.
      repeat (destruct Hin as [Hin|Hin]; [injection Hin as ? ? ?; subst; cbn; lia|]). destruct Hin.
    - intros f Hf. right. right. cbn in Hf.
      destruct f as [|[|f]]; [| |lia].
      + split; [exists 0%nat, 1%Z | exists 1%nat, (-1)%Z]; cbn; split; try lia; tauto.
      + split; [exists 1%nat, 1%Z | exists 0%nat, (-1)%Z]; cbn; split; try lia; tauto. }
  destruct Hex as [o Ho]. exists o.
  split; [exact Ho|]. split; [cbn; lia|].
  split; [apply one_sidedb_sound; vm_compute; reflexivity|].
  split.
  { intros t Hin. cbn in Hin.
    repeat (destruct Hin as [Hin|Hin]; [subst t; cbn; lia|]). destruct Hin. }
  split.
  { intros f Hf. right. cbn in Hf. destruct f as [|[|f]]; [| |lia]; repeat split. }
  split.
  { intros i Hi. cbn in Hi. destruct i as [|[|i]]; [| |lia];
      unfold div_cell, div_list, tc, ts, tf; cbn [cf ex3 fold_right fst snd Nat.eqb q]; lra. }
  intros i Hi. split; [lra|]. cbn in Hi. destruct i as [|[|i]]; [| |lia];
    unfold outflow, out_list, tc, ts, tf; cbn [cf ex3 fold_right fst snd Nat.eqb q];
    rewrite ?Rmult_1_l; rewrite (Rmax_left 1 0) by lra; rewrite (Rmax_right (-1 * 1) 0) by lra; lra.
Qed.
