From Coq Require Import List ZArith.
Import ListNotations.
From PP Require Import Model.C47.
Theorem C47_placeholder : split_ws [97; 32; 98]%Z = [[97]; [98]]%Z.
Proof. reflexivity. Qed.
Print Assumptions C47_placeholder.
