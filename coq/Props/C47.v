(* C47 — property theorems only.  Model: PP.Model.C47 (transcription of txt_io.py,
   FractureNetwork2d/3d.to_csv, network_2d/3d_from_csv, the FractureNetwork2d
   constructor); proofs: PP.Proofs.C47 (txt), PP.Proofs.C47_csv (csv).

   Text = list of code points.  print / parse stand for python's number formatting and
   float(); they are arguments of every statement.

   Predicates used below (defined in Proofs.C47):
     tok_ok t      : t is not empty and contains no character with str.isspace()
     value_ok f v  : print f v is tok_ok, contains no '#', and parse (print f v) = Some v
                     (the value is exactly representable in the column's format)
     names_ok ns   : every name tok_ok, names pairwise distinct, ns not empty and its first
                     name does not start with '#'
     table_ok l n  : names_ok (headers of l), every array has length n and all its entries
                     are value_ok for the column's format *)
From Coq Require Import List ZArith Bool Arith Lia Permutation.
Import ListNotations.
From PP Require Import Model.C47 Proofs.C47 Proofs.C47_csv.

(* txt: for ANY number of columns >= 1 and ANY number of rows >= 1 (one column, one row and
   1x1 included), exporting named arrays and reading the file back returns exactly the same
   names with the same arrays, in the same order. *)
Theorem C47_txt_roundtrip :
  forall (V F : Type) (print : F -> V -> str) (parse : str -> option V) (v0 : V)
         (l : list (txtdata V F)) (n : nat),
    l <> [] -> 1 <= n -> table_ok V F print parse l n ->
    exists file,
      export_data_to_txt V F print v0 l = Ok file /\
      read_data_from_txt V parse v0 file = Ok (map (fun d => (header d, array d)) l).
Proof. exact txt_roundtrip. Qed.
Print Assumptions C47_txt_roundtrip.

(* txt, no rows (outside the round trip: numpy reports "input contained no data"): what
   the code returns is stated, not hidden — only the first name comes back, with an empty
   array; for a single column that is the table that was written. *)
Theorem C47_txt_no_rows :
  forall (V F : Type) (print : F -> V -> str) (parse : str -> option V) (v0 : V)
         (d0 : txtdata V F) (l' : list (txtdata V F)),
    table_ok V F print parse (d0 :: l') 0 ->
    exists file,
      export_data_to_txt V F print v0 (d0 :: l') = Ok file /\
      read_data_from_txt V parse v0 file = Ok [(header d0, [])].
Proof. exact txt_no_rows. Qed.
Print Assumptions C47_txt_no_rows.

(* csv, 2-D: for EVERY list of line fractures with distinct end points (any sharing of end
   points between fractures, any order), the network built from them, written with or
   without header and read back with the matching skip_header, is the identical network
   (same point array, same edge array) and the returned ids are 0..n-1.
   Hypotheses: "close" is equality on the coordinates in play; repr/float round trip;
   uniquify_point_set maps every point to a representative with the same coordinates. *)
Theorem C47_csv2_roundtrip :
  forall (V : Type) (veqb : V -> V -> bool) (print : V -> str) (printi : nat -> str)
         (parse : str -> V) (toint : V -> Z) (v0 : V)
         (uniq : list (P2 V) -> list (P2 V) * list nat),
    (forall a b : V, veqb a b = true <-> a = b) ->
    (forall v : V, parse (print v) = v) ->
    (forall k : nat, toint (parse (printi k)) = Z.of_nat k) ->
    (forall l : list (P2 V),
        length (snd (uniq l)) = length l /\
        (forall i : nat, i < length l ->
           nth i (snd (uniq l)) 0 < length (fst (uniq l)) /\
           nth (nth i (snd (uniq l)) 0) (fst (uniq l)) (p0 V v0) = nth i l (p0 V v0))) ->
    forall (fracs : list (P2 V * P2 V)) (with_header : bool),
      Forall (fun f => fst f <> snd f) fracs ->
      from_csv2 V veqb parse toint v0 uniq (if with_header then 1 else 0)
                (to_csv2 V print printi v0 with_header (build V veqb fracs))
      = Ok (build V veqb fracs, map Z.of_nat (seq 0 (length fracs))).
Proof. exact csv2_roundtrip. Qed.
Print Assumptions C47_csv2_roundtrip.

(* ... in the property's words: the network read back stands for the same fractures (start
   and end point of each), in the same order. *)
Theorem C47_csv2_same_fractures :
  forall (V : Type) (veqb : V -> V -> bool) (print : V -> str) (printi : nat -> str)
         (parse : str -> V) (toint : V -> Z) (v0 : V)
         (uniq : list (P2 V) -> list (P2 V) * list nat),
    (forall a b : V, veqb a b = true <-> a = b) ->
    (forall v : V, parse (print v) = v) ->
    (forall k : nat, toint (parse (printi k)) = Z.of_nat k) ->
    (forall l : list (P2 V),
        length (snd (uniq l)) = length l /\
        (forall i : nat, i < length l ->
           nth i (snd (uniq l)) 0 < length (fst (uniq l)) /\
           nth (nth i (snd (uniq l)) 0) (fst (uniq l)) (p0 V v0) = nth i l (p0 V v0))) ->
    forall (fracs : list (P2 V * P2 V)) (with_header : bool),
      Forall (fun f => fst f <> snd f) fracs ->
      exists net' ids,
        from_csv2 V veqb parse toint v0 uniq (if with_header then 1 else 0)
                  (to_csv2 V print printi v0 with_header (build V veqb fracs)) = Ok (net', ids)
        /\ fracs_of V v0 net' = fracs
        /\ ids = map Z.of_nat (seq 0 (length fracs)).
Proof. exact csv2_same_fractures. Qed.
Print Assumptions C47_csv2_same_fractures.

(* csv, 3-D: for EVERY list of polygons with >= 3 vertices that pass the reader's
   planarity/convexity check, with or without a domain box (6 numbers), the network read
   back has the same domain and, fracture by fracture in the same order, the vertices
   sort_points makes of the vertices written. *)
Theorem C47_csv3_roundtrip :
  forall (V : Type) (print : V -> str) (parse : str -> option V)
         (sortp : list (P3 V) -> list (P3 V)) (accept : list (P3 V) -> bool),
    (forall v, parse (print v) = Some v) ->
    (forall v, exists c r, print v = c :: r /\ c <> HASH) ->
    forall (net : list (list (P3 V))) (dom : option (list V)),
      Forall (fun f => 3 <= length f) net ->
      Forall (fun f => accept (sortp f) = true) net ->
      match dom with Some b => length b = 6 | None => net <> [] end ->
      from_csv3 V parse sortp accept (has_dom V dom) (to_csv3 V print net dom)
      = Ok (dom, map sortp net).
Proof. exact csv3_roundtrip. Qed.
Print Assumptions C47_csv3_roundtrip.

(* ... with sort_points a permutation of its input: the same vertex multiset per fracture. *)
Theorem C47_csv3_same_fractures :
  forall (V : Type) (print : V -> str) (parse : str -> option V)
         (sortp : list (P3 V) -> list (P3 V)) (accept : list (P3 V) -> bool),
    (forall v, parse (print v) = Some v) ->
    (forall v, exists c r, print v = c :: r /\ c <> HASH) ->
    forall (net : list (list (P3 V))) (dom : option (list V)),
      (forall f, Permutation (sortp f) f) ->
      Forall (fun f => 3 <= length f) net ->
      Forall (fun f => accept (sortp f) = true) net ->
      match dom with Some b => length b = 6 | None => net <> [] end ->
      exists net',
        from_csv3 V parse sortp accept (has_dom V dom) (to_csv3 V print net dom) = Ok (dom, net')
        /\ Forall2 (fun f' f => Permutation f' f) net' net.
Proof. exact csv3_same_fractures. Qed.
Print Assumptions C47_csv3_same_fractures.

(* error branch: the first polygon the reader's check refuses makes the read fail with an
   AssertionError (e.g. a non-convex polygon read with the default check_convexity=True). *)
Theorem C47_csv3_rejects :
  forall (V : Type) (print : V -> str) (parse : str -> option V)
         (sortp : list (P3 V) -> list (P3 V)) (accept : list (P3 V) -> bool),
    (forall v, parse (print v) = Some v) ->
    (forall v, exists c r, print v = c :: r /\ c <> HASH) ->
    forall (net1 : list (list (P3 V))) (f : list (P3 V)) (net2 : list (list (P3 V)))
           (dom : option (list V)),
      Forall (fun g => 3 <= length g) (net1 ++ f :: net2) ->
      Forall (fun g => accept (sortp g) = true) net1 ->
      accept (sortp f) = false ->
      match dom with Some b => length b = 6 | None => True end ->
      from_csv3 V parse sortp accept (has_dom V dom) (to_csv3 V print (net1 ++ f :: net2) dom)
      = Err AssertErr.
Proof. exact csv3_rejects. Qed.
Print Assumptions C47_csv3_rejects.

(* csv, 2-D polyline format  FID, PT_X, PT_Y  (reader only; the library has no writer for
   it) — PARTIAL: the rows of ONE polyline (n >= 2 rows with the same id) are paired into the
   n-1 consecutive segments (i, i+1).  Not proved: several polylines in one file (ids are
   visited in increasing order, rows of one id are assumed contiguous by the code), and the
   point uniquification / network construction after it (the same tail as the straight-line
   reader, proved there); those are covered by the execution correspondence only. *)
Theorem C47_polyline_segments_partial :
  forall (fi : Z) (n : nat),
    2 <= n ->
    poly_edges (repeat fi n) fi = Ok (map (fun i => (i, S i)) (seq 0 (n - 1))).
Proof. exact poly_edges_single. Qed.
Print Assumptions C47_polyline_segments_partial.

(* ---- non-vacuity ------------------------------------------------------------------- *)
(* txt: one column "a" with three values (the input that used to come back as a scalar),
   and a 1x1 table; digits stand for themselves. *)

Example C47_txt_nonvacuous :
  let l := [Build_txtdata Z unit [97; 95; 98] [1; 5; 3] tt]%Z in
  table_ok Z unit ex_print ex_parse l 3 /\
  export_data_to_txt Z unit ex_print 0%Z l
  = Ok [[35; 32; 97; 95; 98; 32; 10]; [49; 32; 10]; [53; 32; 10]; [51; 32; 10]]%Z /\
  read_data_from_txt Z ex_parse 0%Z
    [[35; 32; 97; 95; 98; 32; 10]; [49; 32; 10]; [53; 32; 10]; [51; 32; 10]]%Z
  = Ok [([97; 95; 98], [1; 5; 3])]%Z /\
  table_ok Z unit ex_print ex_parse [Build_txtdata Z unit [97] [7] tt]%Z 1.
Proof.
  cbv zeta. split; [|split; [vm_compute; reflexivity|split; [vm_compute; reflexivity|]]].
  all: unfold table_ok, names_ok, value_ok, tok_ok, nows; cbn [map header array format].
  all: repeat split; repeat constructor; try discriminate; try reflexivity;
    try (intros [H|[]]; discriminate H); try (intros []).
Qed.

(* csv: a concrete print/parse pair, the identity uniquification and the identity sort
   satisfy every hypothesis of the csv theorems. *)

Example C47_csv2_nonvacuous :
  (forall a b : Z, Z.eqb a b = true <-> a = b) /\
  (forall v, ex_pa (ex_pr v) = v) /\
  (forall k, (fun v : Z => v) (ex_pa (ex_pri k)) = Z.of_nat k) /\
  (forall l : list (Z * Z),
      length (snd (ex_uniq l)) = length l /\
      (forall i, i < length l ->
         nth i (snd (ex_uniq l)) 0 < length (fst (ex_uniq l)) /\
         nth (nth i (snd (ex_uniq l)) 0) (fst (ex_uniq l)) (p0 Z 0%Z) = nth i l (p0 Z 0%Z))) /\
  let fracs := [((0, 0), (1, 3)); ((1, 3), (4, 0)); ((0, 5), (4, 0))]%Z in
  Forall (fun f => fst f <> snd f) fracs /\
  build Z Z.eqb fracs = mk2 [(0, 0); (1, 3); (4, 0); (0, 5)]%Z [(0, 1); (1, 2); (3, 2)].
Proof.
  split; [exact Z.eqb_eq|]. split; [reflexivity|]. split; [reflexivity|]. split.
  - intro l. unfold ex_uniq. cbn [fst snd]. rewrite seq_length. split; [reflexivity|].
    intros i Hi. rewrite seq_nth by exact Hi. cbn [plus]. split; [exact Hi|reflexivity].
  - cbv zeta. split; [|vm_compute; reflexivity].
    repeat constructor; cbn [fst snd]; discriminate.
Qed.

Example C47_csv3_nonvacuous :
  let pa := fun s : str => match s with [_; v] => Some v | _ => None end in
  (forall v, pa (ex_pr v) = Some v) /\
  (forall v, exists c r, ex_pr v = c :: r /\ c <> HASH) /\
  let net := [[(0, 0, 0); (2, 0, 0); (0, 0, 1)]]%Z in
  from_csv3 Z pa (fun l => l) (fun _ => true) true (to_csv3 Z ex_pr net (Some [0; 0; 0; 9; 9; 9]%Z))
  = Ok (Some [0; 0; 0; 9; 9; 9]%Z, net).
Proof.
  cbv zeta. split; [reflexivity|]. split; [|vm_compute; reflexivity].
  intro v. exists 48%Z, [v]. split; [reflexivity|discriminate].
Qed.
