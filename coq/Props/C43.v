(* C43 — property theorems only.  Model: PP.Model.C43 (transcription of Units.__init__,
   the derived-unit properties, Units.convert_units, Constants.__post_init__/to_units);
   tables: PP.Gen.C43_tables, REGENERATED from units.py / materials.py on every run;
   proofs: PP.Proofs.C43.  Numbers: reals; [ROps pi_] is the real-number instance of the
   model (x ** float(p) = Rpower x p on positive x; pi_ is the constant np.pi, any
   positive real).  A Units object is an association list base-unit name -> positive real
   ([valid_env]: exactly the generated base units, all positive). *)
From Coq Require Import String List ZArith QArith Reals Qreals Lra.
Import ListNotations.
From PP Require Import Model.C43 Model.C43_fields Model.C43_qdims Gen.C43_tables Proofs.C43
  Proofs.C43_transfer Proofs.C43_transfer2 Proofs.C43_fields Proofs.C43_qdims.
Open Scope string_scope.
Open Scope R_scope.

(* ROUND TRIP.  For every Units object with positive base units, every list of values
   (scalar = one element), EVERY unit string and either direction: if the conversion
   returns w then converting w in the opposite direction returns exactly v; if it raises,
   the opposite direction raises the same exception for any value; lengths are kept.
   Powers: every string the model parses as a decimal number (integer or not, signed).
   Nothing is claimed for strings the model classifies as Unmodelled (exponent/inf/nan/
   underscore power notation, method/private attribute names). *)
Theorem C43_roundtrip :
  forall (pi_ : R) (env : list (string * R)) (v : list R) (units : string) (ts : bool),
    0 < pi_ -> env_pos env ->
    (forall w, convert (ROps pi_) derived_table other_attrs env v units ts = Ok w ->
               convert (ROps pi_) derived_table other_attrs env w units (negb ts) = Ok v) /\
    (forall e v', convert (ROps pi_) derived_table other_attrs env v units ts = Err e ->
                  convert (ROps pi_) derived_table other_attrs env v' units (negb ts) = Err e) /\
    (forall w, convert (ROps pi_) derived_table other_attrs env v units ts = Ok w ->
               length w = length v).
Proof. exact roundtrip_gen. Qed.
Print Assumptions C43_roundtrip.

(* COMPOSITION.  For any number type, any tables, any Units object: converting with the
   string a*b is converting with a and then with b (first exception wins), for all unit
   strings a, b that are not one of the whole-string dimensionless markers "", "1", "-"
   (after removing spaces). *)
Theorem C43_compose :
  forall (T : Type) (ops : numops T) derived other (env : list (string * T))
         (a b : string) (ts : bool) (v : list T),
    is_marker (strip_spaces a) = false -> is_marker (strip_spaces b) = false ->
    convert ops derived other env v (a ++ "*" ++ b) ts =
    bind (convert ops derived other env v a ts)
         (fun w => convert ops derived other env w b ts).
Proof. exact @compose_lemma. Qed.
Print Assumptions C43_compose.

(* DERIVED UNITS.  With the property bodies as units.py defines them NOW: *)
Theorem C43_derived :
  forall (pi_ : R) (env : list (string * R)), 0 < pi_ -> valid_env env ->
    let ga := getattr (ROps pi_) derived_table other_attrs env in
    ga "Pa" = Ok (g env "kg" / (g env "m" * (g env "s") ^ 2)) /\
    ga "J" = Ok (g env "kg" * (g env "m") ^ 2 / (g env "s") ^ 2) /\
    ga "N" = Ok (g env "kg" * g env "m" / (g env "s") ^ 2) /\
    ga "W" = Ok (g env "kg" * (g env "m") ^ 2 / (g env "s") ^ 3) /\
    ga "degree" = Ok (g env "rad" * 180 / pi_) /\
    (forall b, mem b base_names = true -> ga b = Ok (g env b)).
Proof. exact derived_lemma. Qed.
Print Assumptions C43_derived.

(* ... and converting with a derived unit is converting with its base-unit spelling
   (list [derived_spellings]: Pa = kg*m^-1*s^-2 = N*m^-2, J = kg*m^2*s^-2 = N*m, ...). *)
Theorem C43_derived_spellings :
  forall (pi_ : R) (env : list (string * R)), 0 < pi_ -> valid_env env ->
    Forall (fun ab => forall v ts,
              convert (ROps pi_) derived_table other_attrs env v (fst ab) ts =
              convert (ROps pi_) derived_table other_attrs env v (snd ab) ts)
           derived_spellings.
Proof. exact spellings_lemma. Qed.
Print Assumptions C43_derived_spellings.

(* DIMENSION BOOKKEEPING.  A unit string with a normal form  c * pi^k * prod base^d
   (computed by [mono_of_units] through the generated property bodies; integer powers
   only) never raises, scales every value by the positive value of that monomial, and
   two strings with equal normal forms convert identically. *)
Theorem C43_dimension_sound :
  forall (pi_ : R) (env : list (string * R)) (u1 : string) (m1 : mono),
    0 < pi_ -> valid_env env ->
    mono_of_units base_names derived_table u1 = Some m1 ->
    0 < eval_mono pi_ (map snd env) m1 /\
    (forall v ts, convert (ROps pi_) derived_table other_attrs env v u1 ts =
                  Ok (apply_factor ts (eval_mono pi_ (map snd env) m1) v)) /\
    (forall u2 m2, mono_of_units base_names derived_table u2 = Some m2 ->
       mono_eqb m1 m2 = true ->
       forall v ts, convert (ROps pi_) derived_table other_attrs env v u1 ts =
                    convert (ROps pi_) derived_table other_attrs env v u2 ts).
Proof. exact dimension_lemma. Qed.
Print Assumptions C43_dimension_sound.

(* Every entry of every SI_units table of materials.py (as it is NOW) has a normal form,
   and so has every property body of class Units. *)
Theorem C43_tables_wellformed :
  forallb (fun ct => si_table_ok base_names derived_table (snd ct)) si_tables = true /\
  forallb (fun ne => match mono_of base_names (snd ne) with Some _ => true | None => false end)
          derived_table = true.
Proof. exact si_tables_lemma. Qed.
Print Assumptions C43_tables_wellformed.

(* MATERIAL CONSTANTS.  For every material class of materials.py, every set of constants
   whose fields are declared in its SI_units, and any two unit systems env, env':
   construction in env and to_units(env') both succeed, both objects keep the SI values
   (constants_in_SI), and converting every attribute of either object back with
   to_si=True returns exactly the SI values. *)
Theorem C43_material_roundtrip :
  forall (pi_ : R) (env env' : list (string * R)) (cls : string)
         (tab : list (string * string)) (cs : list (string * R)),
    0 < pi_ -> valid_env env -> valid_env env' ->
    In (cls, tab) si_tables -> fields_declared tab cs ->
    exists c c',
      make_constants (ROps pi_) derived_table other_attrs env tab cs = Ok c /\
      to_units (ROps pi_) derived_table other_attrs env' tab c = Ok c' /\
      in_SI c = cs /\ in_SI c' = cs /\
      convert_constants (ROps pi_) derived_table other_attrs env tab (attrs c) true = Ok cs /\
      convert_constants (ROps pi_) derived_table other_attrs env' tab (attrs c') true = Ok cs.
Proof. exact material_gen. Qed.
Print Assumptions C43_material_roundtrip.

(* The same for ANY SI_units table (also ill-formed ones): whenever construction does not
   raise, the SI values are kept and recovered, also after to_units, and to_units does not
   depend on the unit system the object had. *)
Theorem C43_material_roundtrip_any_table :
  forall (pi_ : R), 0 < pi_ ->
  forall derived other, table_pos derived = true ->
  forall env env' si cs c, env_pos env -> env_pos env' ->
    make_constants (ROps pi_) derived other env si cs = Ok c ->
    in_SI c = cs /\
    convert_constants (ROps pi_) derived other env si (attrs c) true = Ok cs /\
    (forall c', to_units (ROps pi_) derived other env' si c = Ok c' ->
       in_SI c' = cs /\
       convert_constants (ROps pi_) derived other env' si (attrs c') true = Ok cs /\
       forall env'', to_units (ROps pi_) derived other env'' si c' =
                     to_units (ROps pi_) derived other env'' si c).
Proof. exact material_lemma. Qed.
Print Assumptions C43_material_roundtrip_any_table.

(* TRANSFER.  What the execution correspondence runs (the rational instance [QOps] of the
   model, integer powers) is the real instance of the theorems above on the embedded data:
   whenever the rational run returns values / raises, the real model returns their images
   under Q2R / raises the same exception.  (Unmodelled in Q = a non-integer power.) *)
Theorem C43_transfer :
  forall (pif : Q) (env : list (string * Q)) (v : list Q) (units : string) (ts : bool),
    (0 < pif)%Q -> env_posQ env ->
    (forall w, convert (QOps pif) derived_table other_attrs env v units ts = Ok w ->
       convert (ROps (Q2R pif)) derived_table other_attrs (envR env) (map Q2R v) units ts
       = Ok (map Q2R w)) /\
    (forall er, convert (QOps pif) derived_table other_attrs env v units ts = Err er ->
       convert (ROps (Q2R pif)) derived_table other_attrs (envR env) (map Q2R v) units ts
       = Err er).
Proof. exact transfer_gen. Qed.
Print Assumptions C43_transfer.

(* TRANSFER for the material-constant wrappers: a rational run of construction + to_units
   is the real model on the embedded data. *)
Theorem C43_material_transfer :
  forall (pif : Q) (env env' : list (string * Q)) (si : list (string * string))
         (cs : list (string * Q)) (c c' : constants Q),
    (0 < pif)%Q -> env_posQ env -> env_posQ env' ->
    make_constants (QOps pif) derived_table other_attrs env si cs = Ok c ->
    to_units (QOps pif) derived_table other_attrs env' si c = Ok c' ->
    make_constants (ROps (Q2R pif)) derived_table other_attrs (envR env) si (mapv Q2R cs)
      = Ok (cmap c) /\
    to_units (ROps (Q2R pif)) derived_table other_attrs (envR env') si (cmap c) = Ok (cmap c').
Proof. exact material_transfer_gen. Qed.
Print Assumptions C43_material_transfer.

(* Units.__init__ (a function over Q only): it returns exactly when every keyword is a
   number for a base unit and s is np.isclose to 1; the object then has one attribute per
   base unit, holding the keyword value or the default.  Otherwise ValueError (a non-number
   or an unknown key) resp. NotImplementedError (time scaling). *)
Theorem C43_units_init :
  forall (bases : list (string * Q)) (kw : list (string * kwval)),
    (forall env, units_init bases kw = Ok env ->
       map fst env = map fst bases /\
       Forall (fun kv => match snd kv with KNum _ => mem (fst kv) (map fst bases) = true
                                         | KOther => False end) kw /\
       isclose1 (kw_get kw "s" 1) = true /\
       forall b d, In (b, d) bases -> In (b, kw_get kw b d) env) /\
    (forall e, units_init bases kw = Err e ->
       (e = ValueErr /\
        Exists (fun kv => match snd kv with KNum _ => mem (fst kv) (map fst bases) = false
                                          | KOther => True end) kw) \/
       (e = NotImplErr /\ isclose1 (kw_get kw "s" 1) = false)).
Proof. exact units_init_spec. Qed.
Print Assumptions C43_units_init.

(* Every dataclass field of every material class (generated: class_fields) is declared in
   the class's SI_units table; hence the constants of an object built from ANY keyword
   values for ANY of its fields (defaults for the rest) satisfy the hypothesis of
   C43_material_roundtrip: construction and to_units never raise. *)
Theorem C43_fields_declared :
  fields_ok si_tables class_fields = true /\
  forall cls fields (given : list (string * R)),
    In (cls, fields) class_fields ->
    exists tab, In (cls, tab) si_tables /\
                fields_declared tab (override (mapv Q2R fields) given).
Proof. exact fields_gen. Qed.
Print Assumptions C43_fields_declared.

(* DIMENSION BOOKKEEPING WITH DECIMAL POWERS.  As C43_dimension_sound, for unit strings
   whose powers are arbitrary decimals (normal form with rational exponents; a non-integer
   power is accepted on units with coefficient 1 and no pi: base units, Pa, J, N, W). *)
Theorem C43_dimension_sound_real_powers :
  forall (pi_ : R) (env : list (string * R)) (u1 : string) (m1 : qmono),
    0 < pi_ -> valid_env env ->
    qmono_of_units base_names derived_table u1 = Some m1 ->
    0 < qeval pi_ (map snd env) m1 /\
    (forall v ts, convert (ROps pi_) derived_table other_attrs env v u1 ts =
                  Ok (apply_factor ts (qeval pi_ (map snd env) m1) v)) /\
    (forall u2 m2, qmono_of_units base_names derived_table u2 = Some m2 ->
       qmono_eqb m1 m2 = true ->
       forall v ts, convert (ROps pi_) derived_table other_attrs env v u1 ts =
                    convert (ROps pi_) derived_table other_attrs env v u2 ts).
Proof. exact qdimension_lemma. Qed.
Print Assumptions C43_dimension_sound_real_powers.

(* e.g. Pa^0.5*m^0.5 = kg^0.5*s^-1, J^1.5 = kg^1.5*m^3*s^-3, W^-0.25*W^0.25 = 1 *)
Theorem C43_real_power_spellings :
  forall (pi_ : R) (env : list (string * R)), 0 < pi_ -> valid_env env ->
    Forall (fun ab => forall v ts,
              convert (ROps pi_) derived_table other_attrs env v (fst ab) ts =
              convert (ROps pi_) derived_table other_attrs env v (snd ab) ts)
           real_power_spellings.
Proof. exact real_spellings_lemma. Qed.
Print Assumptions C43_real_power_spellings.

(* Non-vacuity.  A valid Units object; a unit string with a normal form (so the
   hypotheses of C43_dimension_sound / the Ok-branch of C43_roundtrip are inhabited);
   the model executed in Q on the same string; a class table with a declared field. *)
Example C43_nonvacuous :
  let env := [("m", 2); ("s", 1); ("kg", / 8); ("K", 1); ("mol", 1); ("rad", 3)] in
  valid_env env /\
  (exists m, mono_of_units base_names derived_table " Pa * m^-2.0 " = Some m) /\
  convert (QOps (884279719003555 # 281474976710656)) derived_table other_attrs
          [("m", 2 # 1); ("s", 1 # 1); ("kg", 1 # 8); ("K", 1 # 1); ("mol", 1 # 1);
           ("rad", 3 # 1)]%Q [1 # 1; 5 # 1]%Q " Pa * m^-2.0 " false = Ok [64 # 1; 320 # 1]%Q /\
  is_marker (strip_spaces " Pa ") = false /\
  (exists tab, In ("SolidConstants", tab) si_tables /\
               fields_declared tab [("permeability", 5); ("porosity", / 2)]).
Proof.
  cbv zeta. split; [|split; [|split; [|split]]].
  - split; [reflexivity|]. unfold env_pos. repeat constructor; cbn; lra.
  - vm_compute. eexists; reflexivity.
  - vm_compute. reflexivity.
  - reflexivity.
  - destruct (assoc "SolidConstants" si_tables) as [tab|] eqn:E; [|vm_compute in E; discriminate].
    exists tab. split; [now apply assoc_In|].
    vm_compute in E. injection E as <-.
    unfold fields_declared. repeat constructor; cbn; discriminate.
Qed.

Example C43_nonvacuous2 :
  (exists m, qmono_of_units base_names derived_table "Pa^0.5 * m^-1.5" = Some m) /\
  units_init base_units [("m", KNum (2 # 1)); ("kg", KNum (1 # 8))]%Q =
    Ok [("m", 2 # 1); ("s", 1); ("kg", 1 # 8); ("K", 1); ("mol", 1); ("rad", 1)]%Q /\
  units_init base_units [("s", KNum (2 # 1))]%Q = Err NotImplErr /\
  units_init base_units [("Pa", KNum (2 # 1))]%Q = Err ValueErr /\
  (exists fields, In ("SolidConstants", fields) class_fields /\ assoc "porosity" fields <> None) /\
  match make_constants (QOps (3 # 1)) derived_table other_attrs
          [("m", 2 # 1); ("s", 1); ("kg", 1 # 8); ("K", 1); ("mol", 1); ("rad", 1)]%Q
          [("permeability", "m^2")] [("permeability", 12 # 1)]%Q with
  | Ok c =>
      match to_units (QOps (3 # 1)) derived_table other_attrs
              [("m", 1 # 2); ("s", 1); ("kg", 1); ("K", 1); ("mol", 1); ("rad", 1)]%Q
              [("permeability", "m^2")] c with
      | Ok c' => attrs c'
      | _ => []
      end
  | _ => []
  end = [("permeability", 48 # 1)]%Q.
Proof.
  split; [vm_compute; eexists; reflexivity|].
  split; [vm_compute; reflexivity|]. split; [vm_compute; reflexivity|].
  split; [vm_compute; reflexivity|]. split.
  - destruct (assoc "SolidConstants" class_fields) as [f|] eqn:E; [|vm_compute in E; discriminate].
    exists f. split; [now apply assoc_In|]. vm_compute in E. injection E as <-.
    vm_compute. discriminate.
  - vm_compute. reflexivity.
Qed.
