(* GENERATED on every run by harness/translator/units_tables.py from
     /repo/src/porepy/models/units.py
     /repo/src/porepy/compositional/materials.py
   Do not edit; not committed. *)
From Coq Require Import String List ZArith QArith.
Import ListNotations.
From PP Require Import Model.C43.
Open Scope string_scope.

(* base units of class Units with the defaults of Units.__init__ *)
Definition base_units : list (string * Q) :=
  [("m", (1 # 1)); ("s", (1 # 1)); ("kg", (1 # 1)); ("K", (1 # 1)); ("mol", (1 # 1)); ("rad", (1 # 1))].
Definition base_names : list string := map fst base_units.

(* bodies of the @property methods of class Units *)
Definition derived_table : list (string * uexpr) :=
  [("Pa", (UDiv (UBase "kg") (UMul (UBase "m") (UPow (UBase "s") (2)))));
   ("J", (UDiv (UMul (UBase "kg") (UPow (UBase "m") (2))) (UPow (UBase "s") (2))));
   ("N", (UDiv (UMul (UBase "kg") (UBase "m")) (UPow (UBase "s") (2))));
   ("W", (UDiv (UMul (UBase "kg") (UPow (UBase "m") (2))) (UPow (UBase "s") (3))));
   ("degree", (UDiv (UMul (UBase "rad") (UConst (180 # 1))) UPi))].

(* the other functions defined in class Units *)
Definition other_attrs : list string :=
  ["__init__"; "convert_units"].

(* SI_units dictionaries of the material constants classes *)
Definition si_tables : list (string * list (string * string)) :=
  [("Constants",
     []);
   ("FluidComponent",
     [("density", "kg * m^-3");
      ("molar_mass", "kg * mol^-1");
      ("critical_pressure", "Pa");
      ("critical_temperature", "K");
      ("critical_specific_volume", "m^3 * kg^-1");
      ("acentric_factor", "-");
      ("compressibility", "Pa^-1");
      ("specific_heat_capacity", "J * kg^-1 * K^-1");
      ("thermal_expansion", "K^-1");
      ("viscosity", "Pa * s");
      ("thermal_conductivity", "W * m^-1 * K^-1");
      ("normal_thermal_conductivity", "W * m^-1 * K^-1")]);
   ("SolidConstants",
     [("density", "kg * m^-3");
      ("biot_coefficient", "-");
      ("dilation_angle", "rad");
      ("fracture_gap", "m");
      ("fracture_normal_stiffness", "Pa * m^-1");
      ("fracture_tangential_stiffness", "Pa * m^-1");
      ("friction_coefficient", "-");
      ("lame_lambda", "Pa");
      ("maximum_elastic_fracture_opening", "m");
      ("normal_permeability", "m^2");
      ("permeability", "m^2");
      ("porosity", "-");
      ("residual_aperture", "m");
      ("shear_modulus", "Pa");
      ("skin_factor", "-");
      ("specific_heat_capacity", "J * kg^-1 * K^-1");
      ("specific_storage", "Pa^-1");
      ("thermal_conductivity", "W * m^-1 * K^-1");
      ("thermal_expansion", "K^-1");
      ("well_radius", "m")]);
   ("FractureDamageSolidConstants",
     [("density", "kg * m^-3");
      ("biot_coefficient", "-");
      ("dilation_angle", "rad");
      ("fracture_gap", "m");
      ("fracture_normal_stiffness", "Pa * m^-1");
      ("fracture_tangential_stiffness", "Pa * m^-1");
      ("friction_coefficient", "-");
      ("lame_lambda", "Pa");
      ("maximum_elastic_fracture_opening", "m");
      ("normal_permeability", "m^2");
      ("permeability", "m^2");
      ("porosity", "-");
      ("residual_aperture", "m");
      ("shear_modulus", "Pa");
      ("skin_factor", "-");
      ("specific_heat_capacity", "J * kg^-1 * K^-1");
      ("specific_storage", "Pa^-1");
      ("thermal_conductivity", "W * m^-1 * K^-1");
      ("thermal_expansion", "K^-1");
      ("well_radius", "m");
      ("initial_dilation_damage", "-");
      ("initial_friction_damage", "-");
      ("dilation_damage_decay", "-");
      ("friction_damage_decay", "-")]);
   ("NumericalConstants",
     [("characteristic_displacement", "m");
      ("characteristic_contact_traction", "Pa");
      ("open_state_tolerance", "-")]);
   ("ReferenceVariableValues",
     [("pressure", "Pa");
      ("temperature", "K")])].
