(* C01 — the derivative part of the rule table is LINEAR in the direction: the table
   defines a Jacobian matrix, (J v)_i = sum_j J_ij v_j, whose entries are the directional
   derivatives along the unit vectors. *)
From Coq Require Import Reals ZArith List Lra FunctionalExtensionality.
From Coquelicot Require Import Coquelicot.
From PP Require Import Model.C01 Model.C01R Proofs.C01 Proofs.C01_fun Proofs.C01_comp.
Import ListNotations.
Open Scope R_scope.

Definition lincomb (a b : R) (v w : env (T:=R)) : env (T:=R) :=
  fun k j => a * v k j + b * w k j.

Lemma ad_pair' (e : expr R) (x V : env (T:=R)) (i : nat) :
  eval_ad ROps e x V i = (eval_plain ROps e x i, snd (eval_ad ROps e x V i)).
Proof. rewrite <- (value_thm e x V i). apply surjective_pairing. Qed.

Lemma lin_dual_snd_lin (row : list (nat * R)) (F G H : nat -> dual (T:=R)) (a b : R) :
  (forall j, snd (F j) = a * snd (G j) + b * snd (H j)) ->
  snd (lin_dual ROps row F) = a * snd (lin_dual ROps row G) + b * snd (lin_dual ROps row H).
Proof.
  intros E. unfold lin_dual. induction row as [|[j c] row IH]; cbn [fold_right fst snd].
  - unf. ring.
  - rewrite IH, E. unf. ring.
Qed.

Lemma l2_dual_snd_lin (js : list nat) (F G H : nat -> dual (T:=R)) (a b : R) :
  (forall j, fst (F j) = fst (G j)) -> (forall j, fst (F j) = fst (H j)) ->
  (forall j, snd (F j) = a * snd (G j) + b * snd (H j)) ->
  snd (l2_dual ROps (map F js))
  = a * snd (l2_dual ROps (map G js)) + b * snd (l2_dual ROps (map H js)).
Proof.
  intros EG EH E. unfold l2_dual. cbn [snd]. rewrite !map_map.
  replace (map (fun j => fst (G j)) js) with (map (fun j => fst (F j)) js)
    by (apply map_ext; exact EG).
  replace (map (fun j => fst (H j)) js) with (map (fun j => fst (F j)) js)
    by (apply map_ext; exact EH).
  set (nrm := l2_val ROps (map (fun j => fst (F j)) js)). clearbody nrm.
  destruct (oltb ROps (l2_tol ROps) nrm).
  - induction js as [|j js IH]; cbn [map fold_right].
    + unf. ring.
    + rewrite IH, E, <- EG, <- EH. unf. unfold Rdiv. ring.
  - induction js as [|j js IH]; cbn [map fold_right].
    + unf. ring.
    + rewrite IH, E. unf. ring.
Qed.

Ltac pairs3 e x a b v w i :=
  rewrite (ad_pair' e x (lincomb a b v w) i), (ad_pair' e x v i), (ad_pair' e x w i).

Ltac lin_fin :=
  repeat match goal with
         | |- context [snd (eval_ad ROps ?e ?x ?V ?i)] =>
             let d := fresh "d" in set (d := snd (eval_ad ROps e x V i))
         end;
  unf; unfold Rdiv; ring.

Theorem linear_thm (e : expr R) : forall (x v w : env (T:=R)) (a b : R) (i : nat),
  snd (eval_ad ROps e x (lincomb a b v w) i)
  = a * snd (eval_ad ROps e x v i) + b * snd (eval_ad ROps e x w i).
Proof.
  induction e; intros x v w a b i; cbn [eval_ad].
  - (* Var *) reflexivity.
  - (* Neg *) pairs3 e x a b v w i. rewrite IHe. lin_fin.
  - (* Add *) pairs3 e1 x a b v w i. pairs3 e2 x a b v w i. rewrite IHe1, IHe2. lin_fin.
  - (* Sub *) pairs3 e1 x a b v w i. pairs3 e2 x a b v w i. rewrite IHe1, IHe2. lin_fin.
  - (* Mul *) pairs3 e1 x a b v w i. pairs3 e2 x a b v w i. rewrite IHe1, IHe2. lin_fin.
  - (* Div *) pairs3 e1 x a b v w i. pairs3 e2 x a b v w i. rewrite IHe1, IHe2. lin_fin.
  - (* Pow *) pairs3 e1 x a b v w i. pairs3 e2 x a b v w i. rewrite IHe1, IHe2. lin_fin.
  - (* RDiv *) pairs3 e1 x a b v w i. pairs3 e2 x a b v w i. rewrite IHe1, IHe2. lin_fin.
  - (* RPow *) pairs3 e1 x a b v w i. pairs3 e2 x a b v w i. rewrite IHe1, IHe2. lin_fin.
  - (* AddK *) pairs3 e x a b v w i. rewrite IHe. lin_fin.
  - (* RAddK *) pairs3 e x a b v w i. rewrite IHe. lin_fin.
  - (* SubK *) pairs3 e x a b v w i. rewrite IHe. lin_fin.
  - (* RSubK *) pairs3 e x a b v w i. rewrite IHe. lin_fin.
  - (* MulK *) pairs3 e x a b v w i. rewrite IHe. destruct c; lin_fin.
  - (* RMulK *) pairs3 e x a b v w i. rewrite IHe. destruct c; lin_fin.
  - (* DivK *) pairs3 e x a b v w i. rewrite IHe. destruct c; lin_fin.
  - (* RDivK *) pairs3 e x a b v w i. rewrite IHe. destruct c; lin_fin.
  - (* PowK *) pairs3 e x a b v w i. rewrite IHe. destruct (pget p i); lin_fin.
  - (* RPowK *) pairs3 e x a b v w i. rewrite IHe. lin_fin.
  - (* MatMul *) apply lin_dual_snd_lin. intros j. apply IHe.
  - (* Slice *) apply IHe.
  - (* Fun *) pairs3 e x a b v w i. rewrite IHe. lin_fin.
  - (* L2 *) destruct (Nat.eqb dim 1).
    + pairs3 e x a b v w i. rewrite IHe. lin_fin.
    + unfold block. apply l2_dual_snd_lin.
      * intros j. rewrite !value_thm. reflexivity.
      * intros j. rewrite !value_thm. reflexivity.
      * intros j. apply IHe.
  - (* Max *) pairs3 e1 x a b v w i. pairs3 e2 x a b v w i. rewrite IHe1, IHe2.
    unfold d_max. cbn [fst snd]. destruct (oltb ROps _ _); cbn [snd]; reflexivity.
  - (* MaxKR *) pairs3 e x a b v w i. rewrite IHe.
    unfold d_max. cbn [fst snd]. destruct (oltb ROps _ _); cbn [snd]; unf; try ring; reflexivity.
  - (* MaxKL *) pairs3 e x a b v w i. rewrite IHe.
    unfold d_max. cbn [fst snd]. destruct (oltb ROps _ _); cbn [snd]; unf; try ring; reflexivity.
Qed.

(* the Jacobian row applied to a finite combination of directions *)
Fixpoint comb (cs : list (R * env (T:=R))) : env (T:=R) :=
  match cs with
  | [] => fun _ _ => 0
  | (c, d) :: r => lincomb c 1 d (comb r)
  end.

Lemma zero_dir (e : expr R) (x : env (T:=R)) (i : nat) :
  snd (eval_ad ROps e x (fun _ _ => 0) i) = 0.
Proof.
  assert (E : (fun (_ _ : nat) => 0) = lincomb 0 0 (fun _ _ => 0) (fun _ _ => 0)).
  { extensionality k; extensionality j. unfold lincomb. ring. }
  rewrite E at 1. rewrite linear_thm. ring.
Qed.

Theorem matrix_thm (e : expr R) (x : env (T:=R)) (i : nat) (cs : list (R * env (T:=R))) :
  snd (eval_ad ROps e x (comb cs) i)
  = fold_right (fun cd acc => fst cd * snd (eval_ad ROps e x (snd cd) i) + acc) 0 cs.
Proof.
  induction cs as [|[c d] r IH]; cbn [comb fold_right fst snd].
  - apply zero_dir.
  - rewrite linear_thm, IH. ring.
Qed.
