(* C43 — transfer for the material-constant wrappers (Q instance = R instance on embedded
   data) and the specification of Units.__init__ (a function over Q only). *)
From Coq Require Import String Ascii List ZArith QArith Qabs Bool Reals Qreals Lra Lia.
Import ListNotations.
From PP Require Import Model.C43 Proofs.C43 Proofs.C43_transfer.
Open Scope string_scope.

Definition mapv {A B} (f : A -> B) (l : list (string * A)) : list (string * B) :=
  map (fun p => (fst p, f (snd p))) l.

Definition cmap (c : constants Q) : constants R :=
  {| in_SI := mapv Q2R (in_SI c); attrs := mapv Q2R (attrs c) |}.

Section Transfer2.
  Variable pif : Q.
  Hypothesis pif_pos : (0 < pif)%Q.
  Variable derived : list (string * uexpr).
  Variable other : list string.
  Hypothesis derived_pos : table_pos derived = true.

  Notation qops := (QOps pif).
  Notation rops := (ROps (Q2R pif)).

  Lemma constants_transfer : forall env si cs ts, env_posQ env ->
    (forall cs', convert_constants qops derived other env si cs ts = Ok cs' ->
       convert_constants rops derived other (envR env) si (mapv Q2R cs) ts
       = Ok (mapv Q2R cs')) /\
    (forall er, convert_constants qops derived other env si cs ts = Err er ->
       convert_constants rops derived other (envR env) si (mapv Q2R cs) ts = Err er).
  Proof.
    intros env si cs ts Henv. induction cs as [|[k v] r IH]; cbn [convert_constants mapv map fst snd].
    - split; [intros cs' H; apply Ok_inj in H; subst; reflexivity|congruence].
    - destruct (assoc k si) as [u|]; [|split; congruence].
      destruct (convert_transfer pif pif_pos derived other derived_pos env Henv [v] u ts)
        as (A & B).
      destruct IH as (IH1 & IH2).
      change (map Q2R [v]) with [Q2R v] in *.
      destruct (convert qops derived other env [v] u ts) as [w|er|] eqn:Ec.
      + rewrite (A _ eq_refl). cbn [bind].
        fold (mapv Q2R r).
        destruct (convert_constants qops derived other env si r ts) as [r'|er|] eqn:Er.
        * rewrite (IH1 _ eq_refl). cbn [bind]. split; [|congruence].
          intros cs' H. apply Ok_inj in H. subst cs'. cbn [mapv map fst snd]. do 3 f_equal.
          destruct w; reflexivity.
        * rewrite (IH2 _ eq_refl). cbn [bind]. split; congruence.
        * cbn [bind]. split; congruence.
      + rewrite (B _ eq_refl). cbn [bind]. split; congruence.
      + cbn [bind]. split; congruence.
  Qed.

  (* construction and to_units of a material-constants object *)
  Lemma material_transfer : forall env env' si cs c c',
    env_posQ env -> env_posQ env' ->
    make_constants qops derived other env si cs = Ok c ->
    to_units qops derived other env' si c = Ok c' ->
    make_constants rops derived other (envR env) si (mapv Q2R cs) = Ok (cmap c) /\
    to_units rops derived other (envR env') si (cmap c) = Ok (cmap c').
  Proof.
    intros env env' si cs c c' He He' H H'.
    unfold to_units, make_constants in *.
    destruct (constants_transfer env si cs false He) as (A & _).
    destruct (convert_constants qops derived other env si cs false) as [a| |]; cbn [bind] in H;
      try discriminate.
    apply Ok_inj in H. subst c. cbn [in_SI] in *.
    destruct (constants_transfer env' si cs false He') as (A' & _).
    destruct (convert_constants qops derived other env' si cs false) as [a'| |]; cbn [bind] in H';
      try discriminate.
    apply Ok_inj in H'. subst c'.
    unfold cmap. cbn [in_SI attrs].
    rewrite (A _ eq_refl), (A' _ eq_refl). cbn [bind]. split; reflexivity.
  Qed.
End Transfer2.

(* ------------------------------------------------------------------------------------ *)
(* Units.__init__                                                                         *)
(* ------------------------------------------------------------------------------------ *)
Lemma units_init_spec : forall (bases : list (string * Q)) kw,
  (forall env, units_init bases kw = Ok env ->
     map fst env = map fst bases /\
     Forall (fun kv => match snd kv with KNum _ => mem (fst kv) (map fst bases) = true
                                       | KOther => False end) kw /\
     isclose1 (kw_get kw "s" 1) = true /\
     forall b d, In (b, d) bases -> In (b, kw_get kw b d) env) /\
  (forall e, units_init bases kw = Err e ->
     (e = ValueErr /\
      Exists (fun kv => match snd kv with KNum _ => mem (fst kv) (map fst bases) = false
                                        | KOther => True end) kw) \/
     (e = NotImplErr /\ isclose1 (kw_get kw "s" 1) = false)).
Proof.
  intros bases kw.
  assert (Hck : (check_kwargs (map fst bases) kw = None ->
                 Forall (fun kv => match snd kv with
                                   | KNum _ => mem (fst kv) (map fst bases) = true
                                   | KOther => False end) kw) /\
                (forall e, check_kwargs (map fst bases) kw = Some e ->
                 e = ValueErr /\
                 Exists (fun kv => match snd kv with
                                   | KNum _ => mem (fst kv) (map fst bases) = false
                                   | KOther => True end) kw)).
  { induction kw as [|[k v] r IH]; cbn.
    - split; [constructor|discriminate].
    - destruct v as [q|].
      + destruct (mem k (map fst bases)) eqn:Em.
        * destruct IH as [I1 I2]. split.
          -- intros H. constructor; [exact Em|auto].
          -- intros e H. destruct (I2 _ H) as [-> Hex]. split; [reflexivity|now right].
        * split; [discriminate|]. intros e [= <-]. split; [reflexivity|]. left. exact Em.
      + split; [discriminate|]. intros e [= <-]. split; [reflexivity|]. left. exact I. }
  destruct Hck as [H1 H2]. unfold units_init.
  destruct (check_kwargs (map fst bases) kw) as [e0|].
  - split; [discriminate|]. intros e [= <-]. left. exact (H2 _ eq_refl).
  - destruct (isclose1 (kw_get kw "s" 1)) eqn:Es.
    + split; [|discriminate]. intros env [= <-]. repeat split; auto.
      * rewrite map_map. apply map_ext. now intros [b d].
      * intros b d Hin. apply in_map_iff. exists (b, d). split; auto.
    + split; [discriminate|]. intros e [= <-]. right. auto.
Qed.
