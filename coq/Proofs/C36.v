(* C36 — proofs about the ArraySlicer model. *)
From Coq Require Import List ZArith Bool Arith Lia.
Import ListNotations.
From PP Require Import Model.C36.

(* ================================================================== list helpers *)
Lemma nth_map_seq {A} (F : nat -> A) n i d : i < n -> nth i (map F (seq 0 n)) d = F i.
Proof.
  intros Hi. rewrite (nth_indep _ d (F 0)) by (rewrite map_length, seq_length; lia).
  rewrite (map_nth F (seq 0 n) 0 i). rewrite seq_nth by lia. reflexivity.
Qed.

Lemma nth_map_lt {A B} (f : A -> B) l i d d' :
  i < length l -> nth i (map f l) d = f (nth i l d').
Proof.
  intros Hi. rewrite (nth_indep _ d (f d')) by (rewrite map_length; lia). apply map_nth.
Qed.

Lemma map_nth_self (l : list Z) : map (fun c => nth c l 0%Z) (seq 0 (length l)) = l.
Proof.
  apply (nth_ext _ _ 0%Z 0%Z).
  - rewrite map_length, seq_length. reflexivity.
  - intros i Hi. rewrite map_length, seq_length in Hi. rewrite nth_map_seq by lia. reflexivity.
Qed.

Section RowLemmas.
  Variable E : Type.
  Implicit Types (l out x : list E) (z : E).

  Lemma upd_length l i v : length (upd l i v) = length l.
  Proof. revert i; induction l as [|a r IH]; intros [|i]; cbn; auto. Qed.

  Lemma nth_upd_eq l i v z : i < length l -> nth i (upd l i v) z = v.
  Proof.
    revert i; induction l as [|a r IH]; intros [|i] H; cbn in *; try lia; auto.
    apply IH. lia.
  Qed.

  Lemma nth_upd_neq l i j v z : i <> j -> nth j (upd l i v) z = nth j l z.
  Proof.
    revert i j; induction l as [|a r IH]; intros [|i] [|j] H; cbn; try reflexivity; try lia.
    apply IH. lia.
  Qed.

  Lemma scatter_length out idx vals : length (scatter out idx vals) = length out.
  Proof.
    revert out vals; induction idx as [|i ir IH]; intros out [|v vr]; cbn; auto.
    rewrite IH. apply upd_length.
  Qed.

  Lemma scatter_notin out idx vals i z :
    ~ In i idx -> nth i (scatter out idx vals) z = nth i out z.
  Proof.
    revert out vals; induction idx as [|a ir IH]; intros out [|v vr] Hn; cbn; auto.
    rewrite IH by (intros H; apply Hn; right; exact H).
    apply nth_upd_neq. intros ->. apply Hn. left. reflexivity.
  Qed.

  Lemma scatter_nodup idx : forall out vals k z,
      NoDup idx -> length idx = length vals -> k < length idx ->
      nth k idx 0 < length out ->
      nth (nth k idx 0) (scatter out idx vals) z = nth k vals z.
  Proof.
    induction idx as [|a ir IH]; intros out vals k z Hnd Hlen Hk Hb; cbn in Hk; [lia|].
    destruct vals as [|v vr]; [discriminate|]. inversion Hnd as [|? ? Hna Hnd']; subst.
    destruct k as [|k]; cbn [nth scatter].
    - rewrite scatter_notin by exact Hna. apply nth_upd_eq. exact Hb.
    - apply IH; [assumption | cbn in Hlen; lia | lia | rewrite upd_length; exact Hb].
  Qed.

  Lemma gather_all x idx z :
    Forall (fun i => i < length x) idx -> gather x idx = Some (map (fun i => nth i x z) idx).
  Proof.
    induction 1 as [|i r Hi _ IH]; cbn; [reflexivity|].
    rewrite IH. destruct (nth_error x i) as [a|] eqn:Hn.
    - rewrite (nth_error_nth _ _ z Hn). reflexivity.
    - apply nth_error_None in Hn. lia.
  Qed.
End RowLemmas.

Lemma has_dup_false l : NoDup l -> has_dup l = false.
Proof.
  induction 1 as [|a r Hn _ IH]; cbn; [reflexivity|]. rewrite IH, orb_false_r.
  destruct (existsb (Nat.eqb a) r) eqn:He; [|reflexivity].
  apply existsb_exists in He. destruct He as [b [Hb Hab]]. apply Nat.eqb_eq in Hab. subst.
  contradiction.
Qed.

Lemma forallb_ltb l n : Forall (fun i => i < n) l -> forallb (fun r => r <? n) l = true.
Proof.
  intros H. apply forallb_forall. intros i Hi. apply Nat.ltb_lt.
  rewrite Forall_forall in H. auto.
Qed.

(* ================================================================== well-formed slicers *)
Definition wf_slicer (s : slicer) : Prop :=
  length (dom s) = length (rng s) /\
  Forall (fun i => i < dsize s) (dom s) /\
  Forall (fun i => i < rsize s) (rng s) /\
  (onto s = true -> rng s = seq 0 (length (dom s)) /\ rsize s = length (dom s)).

(* what "row r of the result is row d of the operand" means, element type E, zero z *)
Definition sliced_spec {E} (s : slicer) (z : E) (x y : list E) : Prop :=
  length y = rsize s /\
  (forall k, k < length (rng s) ->
             nth (nth k (rng s) 0) y z = nth (nth k (dom s) 0) x z) /\
  (forall i, i < rsize s -> ~ In i (rng s) -> nth i y z = z).

Lemma spec_unique {E} s (z : E) x y y' :
  sliced_spec s z x y -> sliced_spec s z x y' -> y = y'.
Proof.
  intros [L1 [A1 B1]] [L2 [A2 B2]]. apply (nth_ext _ _ z z); [lia|].
  intros i Hi. rewrite L1 in Hi.
  destruct (in_dec Nat.eq_dec i (rng s)) as [Hin|Hnin].
  - destruct (In_nth _ _ 0 Hin) as [k [Hk Hnk]]. subst i. rewrite A1, A2 by exact Hk. reflexivity.
  - rewrite B1, B2 by assumption. reflexivity.
Qed.

Lemma spec_map {E F} (f : E -> F) s z x y :
  Forall (fun i => i < length x) (dom s) -> length (dom s) = length (rng s) ->
  sliced_spec s z x y -> sliced_spec s (f z) (map f x) (map f y).
Proof.
  intros Hd Hl [L [A B]]. repeat split.
  - rewrite map_length. exact L.
  - intros k Hk. rewrite !map_nth. f_equal. apply A. exact Hk.
  - intros i Hi Hn. rewrite map_nth. f_equal. apply B; assumption.
Qed.

Lemma slice_rows_spec {E} s (z : E) x :
  wf_slicer s -> NoDup (rng s) -> length x = dsize s ->
  exists y, slice_rows s z x = Ok y /\ sliced_spec s z x y.
Proof.
  intros [Hl [Hd [Hr Ho]]] Hnd Hx. unfold slice_rows.
  rewrite (gather_all E x (dom s) z) by (rewrite Hx; exact Hd).
  destruct (onto s) eqn:Hon.
  - destruct (Ho eq_refl) as [Hrng Hrs]. eexists; split; [reflexivity|].
    repeat split.
    + rewrite map_length. lia.
    + intros k Hk. rewrite Hrng in *. rewrite seq_length in Hk. rewrite seq_nth by lia. cbn.
      rewrite (nth_map_lt _ _ _ _ 0) by lia. reflexivity.
    + intros i Hi Hn. exfalso. apply Hn. rewrite Hrng. apply in_seq. lia.
  - unfold bcast. rewrite map_length, Hl, Nat.eqb_refl. rewrite (forallb_ltb _ _ Hr).
    eexists; split; [reflexivity|]. repeat split.
    + rewrite scatter_length, repeat_length. reflexivity.
    + intros k Hk. rewrite scatter_nodup; auto.
      * rewrite (nth_map_lt _ _ _ _ 0) by lia. reflexivity.
      * rewrite map_length. lia.
      * rewrite repeat_length. rewrite Forall_forall in Hr. apply Hr. apply nth_In. exact Hk.
    + intros i Hi Hn. rewrite scatter_notin by exact Hn. apply nth_repeat.
Qed.

Lemma slice_csr_spec s x :
  wf_slicer s -> NoDup (rng s) -> length x = dsize s ->
  exists y, slice_csr s x = Ok y /\ sliced_spec s [] x y.
Proof.
  intros Hwf Hnd Hx.
  destruct (slice_rows_spec s ([] : crow) x Hwf Hnd Hx) as [y [Hy Hs]].
  exists y. split; [|exact Hs].
  destruct Hwf as [Hl [Hd [Hr Ho]]]. unfold slice_csr, slice_rows in *.
  rewrite (gather_all _ x (dom s) []) in * by (rewrite Hx; exact Hd).
  destruct (onto s); [exact Hy|].
  unfold bcast in Hy. rewrite map_length, Hl, Nat.eqb_refl in Hy.
  rewrite (forallb_ltb _ _ Hr) in *. cbn [negb]. rewrite Hl, Nat.eqb_refl. cbn [negb].
  rewrite (has_dup_false _ Hnd). exact Hy.
Qed.

(* ================================================================== matrices *)
Lemma build_length nr ncol f : length (build nr ncol f) = nr.
Proof. unfold build. rewrite map_length, seq_length. reflexivity. Qed.

Lemma mentry_build nr ncol f i j : i < nr -> j < ncol -> mentry (build nr ncol f) i j = f i j.
Proof.
  intros Hi Hj. unfold mentry, build. rewrite (nth_map_seq _ nr i []) by exact Hi.
  rewrite nth_map_seq by exact Hj. reflexivity.
Qed.

Lemma build_ext nr ncol f g :
  (forall i j, i < nr -> j < ncol -> f i j = g i j) -> build nr ncol f = build nr ncol g.
Proof.
  intros H. unfold build. apply map_ext_in. intros i Hi. apply in_seq in Hi.
  apply map_ext_in. intros j Hj. apply in_seq in Hj. apply H; lia.
Qed.

Lemma dot_zero {A} (l : list A) x : dot (map (fun _ => 0%Z) l) x = 0%Z.
Proof.
  revert x; induction l as [|a r IH]; intros [|b x]; cbn [map dot]; try reflexivity.
  rewrite IH. lia.
Qed.

Lemma dot_indicator x : forall s d,
    dot (map (fun j => if j =? d then 1%Z else 0%Z) (seq s (length x))) x
    = if (s <=? d) && (d <? s + length x) then nth (d - s) x 0%Z else 0%Z.
Proof.
  induction x as [|a x IH]; intros s d.
  - cbn [length seq map dot]. destruct ((s <=? d) && (d <? s + 0)); [destruct (d - s); reflexivity|reflexivity].
  - cbn [length seq map dot]. rewrite IH.
    destruct (Nat.eqb_spec s d) as [->|Hne].
    + replace (d <=? d) with true by (symmetry; apply Nat.leb_le; lia).
      replace (d <? d + S (length x)) with true by (symmetry; apply Nat.ltb_lt; lia).
      replace (S d <=? d) with false by (symmetry; apply Nat.leb_gt; lia).
      cbn [andb]. rewrite Nat.sub_diag. cbn [nth]. lia.
    + destruct (s <=? d) eqn:H1.
      * apply Nat.leb_le in H1.
        replace (S s <=? d) with true by (symmetry; apply Nat.leb_le; lia).
        replace (d <? S s + length x) with (d <? s + S (length x))
          by (f_equal; lia).
        cbn [andb]. destruct (d <? s + S (length x)); [|lia].
        replace (d - s) with (S (d - S s)) by lia. cbn [nth]. lia.
      * apply Nat.leb_gt in H1.
        replace (S s <=? d) with false by (symmetry; apply Nat.leb_gt; lia).
        cbn [andb]. lia.
Qed.

Lemma dot_pick x n d :
  length x = n -> d < n ->
  dot (map (fun j => if j =? d then 1%Z else 0%Z) (seq 0 n)) x = nth d x 0%Z.
Proof.
  intros Hx Hd. subst n. rewrite dot_indicator. cbn [Nat.leb andb].
  replace (d <? 0 + length x) with true by (symmetry; apply Nat.ltb_lt; lia).
  rewrite Nat.sub_0_r. reflexivity.
Qed.

(* rows of the projection matrix *)
Lemma existsb_combine_notin (g : nat * nat -> bool) i r d :
  ~ In i r -> existsb (fun p => (fst p =? i) && g p) (combine r d) = false.
Proof.
  revert d; induction r as [|a r IH]; intros [|b d] Hn; cbn; try reflexivity.
  rewrite IH by (intros H; apply Hn; right; exact H).
  replace (a =? i) with false; [reflexivity|].
  symmetry. apply Nat.eqb_neq. intros ->. apply Hn. left. reflexivity.
Qed.

Lemma existsb_combine_nodup r : forall d k j,
    NoDup r -> length r = length d -> k < length r ->
    existsb (fun p => (fst p =? nth k r 0) && (snd p =? j)) (combine r d) = (nth k d 0 =? j).
Proof.
  induction r as [|a r IH]; intros d k j Hnd Hl Hk; cbn in Hk; [lia|].
  destruct d as [|b d]; [discriminate|]. inversion Hnd as [|? ? Hna Hnd']; subst.
  destruct k as [|k]; cbn [nth combine existsb fst snd].
  - rewrite Nat.eqb_refl. cbn [andb].
    rewrite (existsb_combine_notin (fun p => snd p =? j)) by exact Hna. apply orb_false_r.
  - replace (a =? nth k r 0) with false.
    + cbn [andb orb]. apply IH; [assumption | cbn in Hl; lia | lia].
    + symmetry. apply Nat.eqb_neq. intros ->. apply Hna. apply nth_In. lia.
Qed.

Lemma entry_hit s k j :
  NoDup (rng s) -> length (dom s) = length (rng s) -> k < length (rng s) ->
  entry s (nth k (rng s) 0) j = if j =? nth k (dom s) 0 then 1%Z else 0%Z.
Proof.
  intros Hnd Hl Hk. unfold entry. rewrite existsb_combine_nodup by (auto; lia).
  rewrite (Nat.eqb_sym j). reflexivity.
Qed.

Lemma entry_miss s i j : ~ In i (rng s) -> entry s i j = 0%Z.
Proof.
  intros Hn. unfold entry.
  rewrite (existsb_combine_notin (fun p => snd p =? j)) by exact Hn. reflexivity.
Qed.

Lemma denote_row s i :
  i < rsize s -> nth i (denote s) [] = map (entry s i) (seq 0 (dsize s)).
Proof. intros Hi. unfold denote, build. rewrite nth_map_seq by exact Hi. reflexivity. Qed.

Lemma matvec_spec s x :
  wf_slicer s -> NoDup (rng s) -> length x = dsize s ->
  sliced_spec s 0%Z x (matvec (denote s) x).
Proof.
  intros [Hl [Hd [Hr Ho]]] Hnd Hx. rewrite Forall_forall in Hd, Hr. repeat split.
  - unfold matvec. rewrite map_length. apply build_length.
  - intros k Hk. unfold matvec.
    assert (Hi : nth k (rng s) 0 < rsize s) by (apply Hr, nth_In; exact Hk).
    rewrite (nth_map_lt _ _ _ _ []) by (unfold denote; rewrite build_length; exact Hi).
    rewrite denote_row by exact Hi.
    rewrite (map_ext _ _ (fun j => entry_hit s k j Hnd Hl Hk)).
    apply dot_pick; [exact Hx|]. apply Hd, nth_In. lia.
  - intros i Hi Hn. unfold matvec.
    rewrite (nth_map_lt _ _ _ _ []) by (unfold denote; rewrite build_length; exact Hi).
    rewrite denote_row by exact Hi.
    rewrite (map_ext _ _ (fun j => entry_miss s i j Hn)). apply dot_zero.
Qed.

Lemma col_nth c X d : nth d (col c X) 0%Z = nth c (nth d X []) 0%Z.
Proof.
  unfold col. rewrite <- (map_nth (fun row => nth c row 0%Z) X [] d).
  destruct c; reflexivity.
Qed.

Lemma matmul_spec s nc X :
  wf_slicer s -> NoDup (rng s) -> length X = dsize s ->
  Forall (fun r => length r = nc) X ->
  sliced_spec s (repeat 0%Z nc) X (matmul (denote s) nc X).
Proof.
  intros [Hl [Hd [Hr Ho]]] Hnd Hx Hrect. rewrite Forall_forall in Hd, Hr. repeat split.
  - unfold matmul. rewrite map_length. apply build_length.
  - intros k Hk. unfold matmul.
    assert (Hi : nth k (rng s) 0 < rsize s) by (apply Hr, nth_In; exact Hk).
    assert (Hdk : nth k (dom s) 0 < dsize s) by (apply Hd, nth_In; lia).
    rewrite (nth_map_lt _ _ _ _ []) by (unfold denote; rewrite build_length; exact Hi).
    rewrite denote_row by exact Hi.
    rewrite (map_ext _ _ (fun j => entry_hit s k j Hnd Hl Hk)).
    assert (Hrow : length (nth (nth k (dom s) 0) X (repeat 0%Z nc)) = nc).
    { rewrite Forall_forall in Hrect. apply Hrect. apply nth_In. lia. }
    rewrite <- (map_nth_self (nth (nth k (dom s) 0) X (repeat 0%Z nc))). rewrite Hrow.
    apply map_ext. intros c.
    rewrite dot_pick; [| unfold col; rewrite map_length; exact Hx | exact Hdk].
    rewrite col_nth. f_equal. apply nth_indep. lia.
  - intros i Hi Hn. unfold matmul.
    rewrite (nth_map_lt _ _ _ _ []) by (unfold denote; rewrite build_length; exact Hi).
    rewrite denote_row by exact Hi.
    rewrite (map_ext _ _ (fun j => entry_miss s i j Hn)).
    rewrite (map_ext _ (fun _ => 0%Z)) by (intros; apply dot_zero).
    clear. generalize 0 at 1. induction nc as [|n IH]; intros st; cbn; [reflexivity|].
    f_equal. apply IH.
Qed.

Lemma dense_row_nil nc : dense_row nc [] = repeat 0%Z nc.
Proof.
  unfold dense_row. cbn. generalize 0. induction nc as [|n IH]; intros st; cbn; [reflexivity|].
  f_equal. apply IH.
Qed.

Lemma dense_row_length nc r : length (dense_row nc r) = nc.
Proof. unfold dense_row. rewrite map_length, seq_length. reflexivity. Qed.

Lemma to_dense_rect nc rows : Forall (fun r => length r = nc) (to_dense nc rows).
Proof.
  unfold to_dense. apply Forall_forall. intros r Hr. apply in_map_iff in Hr.
  destruct Hr as [q [<- _]]. apply dense_row_length.
Qed.

(* ================================================================== apply = matrix *)
(* the operand has n rows (and is rectangular) *)
Definition vfits (n : nat) (x : value) : Prop :=
  match x with
  | VVec v => length v = n
  | VArr nc rows => length rows = n /\ Forall (fun r => length r = nc) rows
  | VCsr nc rows => length rows = n
  | VAd v nc jac => length v = n /\ length jac = n
  | VNum _ => True
  end.

Definition not_num (x : value) : Prop := match x with VNum _ => False | _ => True end.

Lemma dense_irrel a b x : not_num x -> dense a x = dense b x.
Proof. destruct x; cbn; intros H; try reflexivity. contradiction. Qed.

Lemma csr_dense_spec s nc x y :
  wf_slicer s -> length x = dsize s ->
  sliced_spec s [] x y ->
  sliced_spec s (repeat 0%Z nc) (to_dense nc x) (to_dense nc y).
Proof.
  intros [Hl [Hd _]] Hx Hs. rewrite <- dense_row_nil. unfold to_dense.
  apply (spec_map (dense_row nc) s [] x y); [|exact Hl|exact Hs].
  apply Forall_forall. intros i Hi. rewrite Forall_forall in Hd.
  eapply Nat.lt_le_trans; [apply Hd; exact Hi | rewrite <- Hx; apply Nat.le_refl].
Qed.

Theorem apply_is_matrix s x :
  wf_slicer s -> NoDup (rng s) -> vfits (dsize s) x ->
  exists y, slice s x = Ok y /\ not_num y /\ vfits (rsize s) y /\
            forall n, dense n y = mat_apply (denote s) (dense (dsize s) x).
Proof.
  intros Hwf Hnd Hfit. destruct x as [v|nc rows|nc rows|v nc jac|c]; cbn [slice vfits] in *.
  - destruct (slice_rows_spec s 0%Z v Hwf Hnd Hfit) as [y [Hy Hs]]. rewrite Hy. cbn [bind].
    exists (VVec y). repeat split; [apply Hs|]. intros n. cbn. f_equal.
    apply (spec_unique s 0%Z v); [exact Hs | apply matvec_spec; assumption].
  - destruct Hfit as [Hlen Hrect].
    destruct (slice_rows_spec s (repeat 0%Z nc) rows Hwf Hnd Hlen) as [y [Hy Hs]].
    rewrite Hy. cbn [bind].
    assert (Heq : y = matmul (denote s) nc rows).
    { apply (spec_unique s (repeat 0%Z nc) rows); [exact Hs | apply matmul_spec; assumption]. }
    exists (VArr nc y). repeat split; [apply Hs | | intros n; cbn; f_equal; exact Heq].
    rewrite Heq. unfold matmul. apply Forall_forall. intros r Hr. apply in_map_iff in Hr.
    destruct Hr as [q [<- _]]. rewrite map_length, seq_length. reflexivity.
  - destruct (slice_csr_spec s rows Hwf Hnd Hfit) as [y [Hy Hs]]. rewrite Hy. cbn [bind].
    exists (VCsr nc y). repeat split; [apply Hs|]. intros n. cbn. f_equal.
    apply (spec_unique s (repeat 0%Z nc) (to_dense nc rows)).
    + apply csr_dense_spec; assumption.
    + apply matmul_spec; try assumption.
      * unfold to_dense. rewrite map_length. exact Hfit.
      * apply to_dense_rect.
  - destruct Hfit as [Hv Hj].
    destruct (slice_rows_spec s 0%Z v Hwf Hnd Hv) as [y [Hy Hs]]. rewrite Hy. cbn [bind].
    destruct (slice_csr_spec s jac Hwf Hnd Hj) as [j [Hjy Hjs]]. rewrite Hjy. cbn [bind].
    exists (VAd y nc j). repeat split; [apply Hs | apply Hjs |]. intros n. cbn. f_equal.
    + apply (spec_unique s 0%Z v); [exact Hs | apply matvec_spec; assumption].
    + apply (spec_unique s (repeat 0%Z nc) (to_dense nc jac)).
      * apply csr_dense_spec; assumption.
      * apply matmul_spec; try assumption.
        -- unfold to_dense. rewrite map_length. exact Hj.
        -- apply to_dense_rect.
  - assert (Hlen : length (repeat c (dsize s)) = dsize s) by apply repeat_length.
    destruct (slice_rows_spec s 0%Z _ Hwf Hnd Hlen) as [y [Hy Hs]]. rewrite Hy. cbn [bind].
    exists (VVec y). repeat split; [apply Hs|]. intros n. cbn. f_equal.
    apply (spec_unique s 0%Z (repeat c (dsize s))); [exact Hs | apply matvec_spec; assumption].
Qed.

(* ================================================================== transpose *)
Lemma existsb_combine_swap a : forall b i j,
    existsb (fun p => (fst p =? i) && (snd p =? j)) (combine a b)
    = existsb (fun p => (fst p =? j) && (snd p =? i)) (combine b a).
Proof.
  induction a as [|x a IH]; intros [|y b] i j; cbn; try reflexivity.
  rewrite IH. rewrite (andb_comm (x =? i)). reflexivity.
Qed.

Theorem transpose_denote s :
  denote (transpose s) = mtranspose (rsize s) (dsize s) (denote s).
Proof.
  unfold denote at 1, mtranspose. cbn [rsize dsize transpose].
  apply build_ext. intros i j Hi Hj. unfold denote. rewrite mentry_build by assumption.
  unfold entry. cbn [rng dom transpose]. rewrite existsb_combine_swap. reflexivity.
Qed.

Lemma transpose_wf s : wf_slicer s -> wf_slicer (transpose s).
Proof.
  intros [Hl [Hd [Hr Ho]]]. unfold wf_slicer. cbn [dom rng rsize dsize onto transpose].
  repeat split; auto. discriminate. discriminate.
Qed.

(* the constructor yields well-formed slicers whenever the indices respect the sizes *)
Lemma max_seq n : forall s, fold_right Nat.max 0 (seq s (S n)) = s + n.
Proof.
  induction n as [|n IH]; intros s.
  - cbn. lia.
  - change (seq s (S (S n))) with (s :: seq (S s) (S n)). cbn [fold_right]. rewrite IH. lia.
Qed.

Lemma maxp1_seq n r : maxp1 (seq 0 n) = Some r -> r = n.
Proof.
  destruct n as [|n]; [discriminate|]. intros H.
  change (seq 0 (S n)) with (0 :: seq 1 n) in H. unfold maxp1 in H.
  change (0 :: seq 1 n) with (seq 0 (S n)) in H. rewrite max_seq in H. inversion H. lia.
Qed.

Lemma construct_wf d r rs ds s :
  construct d r rs ds = Ok s ->
  length (dom s) = length (rng s) ->
  Forall (fun i => i < dsize s) (dom s) -> Forall (fun i => i < rsize s) (rng s) ->
  wf_slicer s /\ pend s = [].
Proof.
  intros Hc Hl Hd Hr.
  assert (H : (onto s = true -> rng s = seq 0 (length (dom s)) /\ rsize s = length (dom s))
              /\ pend s = []).
  { unfold construct in Hc.
    destruct d as [d0|]; destruct r as [r0|]; try discriminate;
      destruct rs as [rs0|]; destruct ds as [ds0|];
      repeat match type of Hc with
             | context [match maxp1 ?l with _ => _ end] => destruct (maxp1 l) eqn:?
             end;
      try discriminate; inversion Hc; subst s; cbn [onto rng dom rsize pend];
      (split; [|reflexivity]); intros Hon; try discriminate.
    all: split; [reflexivity | eapply maxp1_seq; eassumption]. }
  destruct H as [Ho Hp]. split; [|exact Hp]. unfold wf_slicer. auto.
Qed.

(* ================================================================== heap: frame *)
Lemma slice_with_pend s o p x : slice (with_pend (copy s) o p) x = slice s x.
Proof. destruct s; reflexivity. Qed.

Lemma slice_copy s x : slice (copy s) x = slice s x.
Proof. destruct s; reflexivity. Qed.

Lemma bind_assoc {A B C} (r : res A) (f : A -> res B) (g : B -> res C) :
  bind (bind r f) g = bind r (fun a => bind (f a) g).
Proof. destruct r; reflexivity. Qed.

Lemma bind_ext {A B} (r : res A) (f g : A -> res B) :
  (forall a, f a = g a) -> bind r f = bind r g.
Proof. intros H. destruct r; cbn; auto. Qed.

Lemma bind_ok {A} (r : res A) : bind r (fun a => Ok a) = r.
Proof. destruct r; reflexivity. Qed.

(* every slicer-valued pending operand refers to an OLDER object *)
Definition closed (h : heap) : Prop :=
  forall i s j p, nth_error h i = Some s -> In (OSlicer j, p) (pend s) -> j < i.

Lemma closed_nil : closed [].
Proof. intros i s j p H. destruct i; discriminate. Qed.

Lemma closed_snoc h s :
  closed h -> (forall j p, In (OSlicer j, p) (pend s) -> j < length h) -> closed (h ++ [s]).
Proof.
  intros Hc Hs i s' j p Hn Hp.
  destruct (Nat.lt_ge_cases i (length h)) as [Hlt|Hge].
  - rewrite nth_error_app1 in Hn by exact Hlt. eapply Hc; eassumption.
  - rewrite nth_error_app2 in Hn by exact Hge.
    destruct (i - length h) as [|k] eqn:Hk; cbn in Hn.
    + inversion Hn; subst s'. specialize (Hs j p Hp). lia.
    + destruct k; discriminate.
Qed.

Lemma closed_lt h i s j p :
  closed h -> nth_error h i = Some s -> In (OSlicer j, p) (pend s) -> j < i /\ i < length h.
Proof.
  intros Hc Hn Hp. split; [eapply Hc; eassumption|]. apply nth_error_Some. congruence.
Qed.

Section Frame.
  Variable ext_scalar : pop -> Z -> value -> res value.
  Variable ext_mat : pop -> nat -> list crow -> value -> res value.
  Variable ext_ad : pop -> list Z -> nat -> list crow -> value -> res value.
  Notation apply := (apply ext_scalar ext_mat ext_ad).
  Notation step := (step ext_scalar ext_mat ext_ad).
  Notation run := (run ext_scalar ext_mat ext_ad).
  Notation run_pend := (run_pend ext_scalar ext_mat ext_ad).
  Notation pend_step := (pend_step ext_scalar ext_mat ext_ad).

  (* S_i @ x as the statement SApply evaluates it *)
  Definition apply_top (h : heap) (i : nat) (x : value) : res value :=
    apply (S (length h)) h i x.

  Lemma run_pend_app ap a b y : run_pend ap (a ++ b) y = bind (run_pend ap a y) (run_pend ap b).
  Proof.
    revert y; induction a as [|[o p] a IH]; intros y; cbn [C36.run_pend app]; [reflexivity|].
    rewrite bind_assoc. apply bind_ext. intros z. apply IH.
  Qed.

  (* the pending pairs only consult [ap] at the slicer operands they mention *)
  Lemma run_pend_ext ap1 ap2 l :
    (forall j p y, In (OSlicer j, p) l -> ap1 j y = ap2 j y) ->
    forall y, run_pend ap1 l y = run_pend ap2 l y.
  Proof.
    induction l as [|[o p] l IH]; intros H y; cbn [C36.run_pend]; [reflexivity|].
    assert (Hs : pend_step ap1 o p y = pend_step ap2 o p y).
    { destruct o as [c|nc rows|j|v nc jac]; cbn [C36.pend_step]; try reflexivity.
      destruct p; try reflexivity. apply (H j PMatmul). left. reflexivity. }
    rewrite Hs. apply bind_ext. intros z. apply IH. intros j q w Hin. apply (H j q). right. exact Hin.
  Qed.

  Lemma apply_ext h k : closed h -> forall f i x,
      i < length h -> apply f (h ++ k) i x = apply f h i x.
  Proof.
    intros Hc. induction f as [|f IH]; intros i x Hi; [reflexivity|].
    cbn [C36.apply]. rewrite nth_error_app1 by exact Hi.
    destruct (nth_error h i) as [s|] eqn:Hn; [|reflexivity].
    apply bind_ext. intros y. apply run_pend_ext. intros j p z Hin. apply IH.
    destruct (closed_lt h i s j p Hc Hn Hin). lia.
  Qed.

  Lemma apply_fuel h : closed h -> forall f1 f2 i x,
      i < f1 -> i < f2 -> apply f1 h i x = apply f2 h i x.
  Proof.
    intros Hc. induction f1 as [|f1 IH]; intros f2 i x H1 H2; [lia|].
    destruct f2 as [|f2]; [lia|]. cbn [C36.apply].
    destruct (nth_error h i) as [s|] eqn:Hn; [|reflexivity].
    apply bind_ext. intros y. apply run_pend_ext. intros j p z Hin.
    destruct (closed_lt h i s j p Hc Hn Hin). apply IH; lia.
  Qed.

  Lemma apply_top_ext h k i x :
    closed h -> i < length h -> apply_top (h ++ k) i x = apply_top h i x.
  Proof.
    intros Hc Hi. unfold apply_top. rewrite apply_ext by assumption.
    apply apply_fuel; [exact Hc | rewrite app_length; lia | lia].
  Qed.

  Lemma construct_pend d r rs ds s : construct d r rs ds = Ok s -> pend s = [].
  Proof.
    unfold construct. intros Hc.
    destruct d as [d0|]; destruct r as [r0|]; try discriminate;
      destruct rs as [rs0|]; destruct ds as [ds0|];
      repeat match type of Hc with
             | context [match maxp1 ?l with _ => _ end] => destruct (maxp1 l) eqn:?
             end;
      try discriminate; inversion Hc; reflexivity.
  Qed.

  Lemma with_pend_closed h sj o p j :
    closed h -> nth_error h j = Some sj ->
    (forall id, o = OSlicer id -> id < length h) ->
    forall j' p', In (OSlicer j', p') (pend (with_pend (copy sj) o p)) -> j' < length h.
  Proof.
    intros Hc Hj Ho j' p' Hin. cbn [pend with_pend copy] in Hin. apply in_app_or in Hin.
    destruct Hin as [Hin|[Heq|[]]].
    - destruct (closed_lt h j sj j' p' Hc Hj Hin). lia.
    - inversion Heq; subst. apply Ho. reflexivity.
  Qed.

  (* one statement only appends objects, and keeps the heap closed *)
  Lemma step_frame h st :
    closed h -> exists k, fst (step h st) = h ++ k /\ closed (h ++ k).
  Proof.
    intros Hc. destruct st as [d r rs ds|i|i|i j|o p j|i x]; cbn [C36.step].
    - destruct (construct d r rs ds) as [s|e] eqn:Hs.
      + exists [s]. split; [reflexivity|]. apply closed_snoc; [exact Hc|].
        intros j p Hp. rewrite (construct_pend _ _ _ _ _ Hs) in Hp. destruct Hp.
      + exists []. rewrite app_nil_r. auto.
    - destruct (nth_error h i) as [s|].
      + exists [transpose s]. split; [reflexivity|]. apply closed_snoc; [exact Hc|].
        intros j p Hp. destruct Hp.
      + exists []. rewrite app_nil_r. auto.
    - destruct (nth_error h i) as [s|] eqn:Hn.
      + exists [copy s]. split; [reflexivity|]. apply closed_snoc; [exact Hc|].
        intros j p Hp. cbn in Hp. destruct (closed_lt h i s j p Hc Hn Hp). lia.
      + exists []. rewrite app_nil_r. auto.
    - destruct (nth_error h i) as [si|] eqn:Hi; [destruct (nth_error h j) as [sj|] eqn:Hj|].
      + exists [with_pend (copy sj) (OSlicer i) PMatmul]. split; [reflexivity|].
        apply closed_snoc; [exact Hc|]. apply (with_pend_closed h sj _ _ j Hc Hj).
        intros id Hid. inversion Hid; subst. apply nth_error_Some. congruence.
      + exists []. rewrite app_nil_r. auto.
      + exists []. rewrite app_nil_r. auto.
    - destruct o as [c|nc rows|id|v nc jac]; [| |exists []; rewrite app_nil_r; auto|];
        (destruct (nth_error h j) as [sj|] eqn:Hj; [|exists []; rewrite app_nil_r; auto]);
        (eexists [_]; split; [reflexivity|]; apply closed_snoc; [exact Hc|];
         apply (with_pend_closed h sj _ _ j Hc Hj); intros id Hid; discriminate).
    - exists []. rewrite app_nil_r. split; [|exact Hc].
      destruct (apply (S (length h)) h i x); reflexivity.
  Qed.

  Lemma run_frame prog : forall h,
      closed h -> exists k, fst (run h prog) = h ++ k /\ closed (h ++ k).
  Proof.
    induction prog as [|st r IH]; intros h Hc; cbn [C36.run].
    - exists []. rewrite app_nil_r. auto.
    - destruct (step_frame h st Hc) as [k1 [E1 C1]].
      destruct (step h st) as [h1 o] eqn:Hs. cbn [fst] in E1. subst h1.
      destruct (IH (h ++ k1) C1) as [k2 [E2 C2]].
      destruct (run (h ++ k1) r) as [h2 os] eqn:Hr. cbn [fst] in *. subst h2.
      exists (k1 ++ k2). rewrite app_assoc. auto.
  Qed.

  (* REUSE: whatever is done after an object exists, the object and its action stay *)
  Theorem reuse_after_history prog1 prog2 i x :
    let h1 := fst (run [] prog1) in
    let h2 := fst (run h1 prog2) in
    i < length h1 ->
    nth_error h2 i = nth_error h1 i /\
    apply_top h2 i x = apply_top h1 i x /\
    snd (step h2 (SApply i x)) = snd (step h1 (SApply i x)).
  Proof.
    intros h1 h2 Hi.
    destruct (run_frame prog1 [] closed_nil) as [k1 [E1 C1]]. cbn [app] in E1, C1.
    fold h1 in E1. rewrite <- E1 in C1.
    destruct (run_frame prog2 h1 C1) as [k2 [E2 C2]]. fold h2 in E2.
    assert (Ht : apply_top h2 i x = apply_top h1 i x).
    { rewrite E2. apply apply_top_ext; assumption. }
    split; [rewrite E2; apply nth_error_app1; exact Hi|]. split; [exact Ht|].
    cbn [C36.step]. unfold apply_top in Ht. rewrite Ht.
    destruct (apply (S (length h1)) h1 i x); reflexivity.
  Qed.

  Lemma apply_top_unfold h i s x :
    nth_error h i = Some s ->
    apply_top h i x = bind (slice s x) (run_pend (apply (length h) h) (pend s)).
  Proof. intros Hn. unfold apply_top. cbn [C36.apply]. rewrite Hn. reflexivity. Qed.

  (* ================================================================ composition *)
  (* what a non-slicer left operand does to the sliced quantity *)
  Definition ext_op (o : operand) (p : pop) (y : value) : res value :=
    pend_step (fun _ _ => Err Unmodelled) o p y.

  (* appending one pending pair to a copy of S_j: first everything S_j does (its own
     pending pairs included), then the new pair *)
  Lemma appended_pair h j sj o p x :
    closed h -> nth_error h j = Some sj ->
    (forall id, o = OSlicer id -> id < length h) ->
    let new := with_pend (copy sj) o p in
    apply_top (h ++ [new]) (length h) x
    = bind (apply_top h j x) (pend_step (fun i y => apply_top h i y) o p).
  Proof.
    intros Hc Hj Ho new.
    assert (Hjl : j < length h) by (apply nth_error_Some; congruence).
    assert (Hnew : nth_error (h ++ [new]) (length h) = Some new).
    { rewrite nth_error_app2 by lia. rewrite Nat.sub_diag. reflexivity. }
    rewrite (apply_top_unfold _ _ _ x Hnew). unfold new at 1. rewrite slice_with_pend.
    rewrite (apply_top_unfold h j sj x Hj). rewrite bind_assoc. apply bind_ext. intros y.
    cbn [pend new with_pend copy]. rewrite run_pend_app.
    assert (Hlen : length (h ++ [new]) = S (length h)) by (rewrite app_length; cbn; lia).
    rewrite Hlen.
    rewrite (run_pend_ext (apply (S (length h)) (h ++ [new])) (apply (length h) h)).
    2:{ intros k q z Hin. destruct (closed_lt h j sj k q Hc Hj Hin).
        rewrite apply_ext by (assumption || lia). apply apply_fuel; [exact Hc|lia|lia]. }
    apply bind_ext. intros z. cbn [C36.run_pend]. rewrite bind_ok.
    destruct o as [c|nc rows|id|v nc jac]; cbn [C36.pend_step]; try reflexivity.
    destruct p; try reflexivity.
    rewrite apply_ext by (exact Hc || (apply Ho; reflexivity)). reflexivity.
  Qed.

  (* S_i @ S_j : a new object that does S_j (all of it), then S_i (all of it) — no guard *)
  Theorem matmul_composes h i j si sj x :
    closed h -> nth_error h i = Some si -> nth_error h j = Some sj ->
    let h' := fst (step h (SMatSS i j)) in
    snd (step h (SMatSS i j)) = ONew (length h) /\
    nth_error h' i = Some si /\ nth_error h' j = Some sj /\
    apply_top h' (length h) x = bind (apply_top h j x) (apply_top h i).
  Proof.
    intros Hc Hi Hj h'. subst h'. cbn [C36.step]. rewrite Hi, Hj. cbn [alloc fst snd].
    assert (Hil : i < length h) by (apply nth_error_Some; congruence).
    assert (Hjl : j < length h) by (apply nth_error_Some; congruence).
    split; [reflexivity|]. split; [rewrite nth_error_app1 by exact Hil; exact Hi|].
    split; [rewrite nth_error_app1 by exact Hjl; exact Hj|].
    rewrite (appended_pair h j sj (OSlicer i) PMatmul x Hc Hj).
    - apply bind_ext. intros y. reflexivity.
    - intros id Hid. inversion Hid; subst. exact Hil.
  Qed.

  (* A op S_j : a new object that does S_j (all of it), then A op _ — no guard *)
  Theorem rop_composes h o p j sj x :
    closed h -> (forall id, o <> OSlicer id) -> nth_error h j = Some sj ->
    let h' := fst (step h (SROp o p j)) in
    snd (step h (SROp o p j)) = ONew (length h) /\
    nth_error h' j = Some sj /\
    apply_top h' (length h) x = bind (apply_top h j x) (ext_op o p).
  Proof.
    intros Hc Ho Hj h'. subst h'. cbn [C36.step].
    assert (Hjl : j < length h) by (apply nth_error_Some; congruence).
    assert (Hns : forall id, o = OSlicer id -> id < length h).
    { intros id Hid. exfalso. eapply Ho. exact Hid. }
    destruct o as [c|nc rows|id|v nc jac]; [| |exfalso; eapply Ho; reflexivity|];
      rewrite Hj; cbn [alloc fst snd];
      (split; [reflexivity|]); (split; [rewrite nth_error_app1 by exact Hjl; exact Hj|]);
      rewrite (appended_pair h j sj _ p x Hc Hj Hns); apply bind_ext; intros y; reflexivity.
  Qed.

  (* ================================================================ chains *)
  Fixpoint run_slices (ss : list slicer) (x : value) : res value :=
    match ss with
    | [] => Ok x
    | s :: r => bind (slice s x) (run_slices r)
    end.

  Lemma run_slices_app a b x : run_slices (a ++ b) x = bind (run_slices a x) (run_slices b).
  Proof.
    revert x; induction a as [|s a IH]; intros x; cbn [run_slices app]; [reflexivity|].
    rewrite bind_assoc. apply bind_ext. intros y. apply IH.
  Qed.

  (* the objects ids (in application order) applied one after the other *)
  Fixpoint run_objs (h : heap) (ids : list nat) (x : value) : res value :=
    match ids with
    | [] => Ok x
    | i :: r => bind (apply_top h i x) (run_objs h r)
    end.

  Lemma run_objs_app h a b x : run_objs h (a ++ b) x = bind (run_objs h a x) (run_objs h b).
  Proof.
    revert x; induction a as [|s a IH]; intros x; cbn [run_objs app]; [reflexivity|].
    rewrite bind_assoc. apply bind_ext. intros y. apply IH.
  Qed.

  Lemma run_objs_ext h k ids x :
    closed h -> Forall (fun i => i < length h) ids -> run_objs (h ++ k) ids x = run_objs h ids x.
  Proof.
    intros Hc HF. revert x. induction HF as [|i r Hi _ IH]; intros x; cbn [run_objs]; [reflexivity|].
    rewrite apply_top_ext by assumption. apply bind_ext. intros y. apply IH.
  Qed.

  (* python evaluates  S_cur @ S_j1 @ S_j2 @ ...  from the left: each @ allocates *)
  Fixpoint chain_prog (cur : nat) (rest : list nat) (nxt : nat) : list stmt :=
    match rest with
    | [] => []
    | j :: r => SMatSS cur j :: chain_prog nxt r (S nxt)
    end.

  Definition chain_top (cur : nat) (rest : list nat) (nxt : nat) : nat :=
    match rest with [] => cur | _ => nxt + length rest - 1 end.

  (* ANY objects (with or without pending pairs of their own) *)
  Theorem chain_general rest : forall h cur x,
      closed h -> cur < length h -> Forall (fun j => j < length h) rest ->
      let h' := fst (run h (chain_prog cur rest (length h))) in
      apply_top h' (chain_top cur rest (length h)) x =
      bind (run_objs h (rev rest) x) (apply_top h cur).
  Proof.
    induction rest as [|j r IH]; intros h cur x Hc Hcur HF h'.
    - cbn. reflexivity.
    - inversion HF as [|? ? Hj HF']; subst. subst h'.
      destruct (nth_error h cur) as [sc|] eqn:Hsc;
        [|exfalso; apply nth_error_None in Hsc; lia].
      destruct (nth_error h j) as [sj|] eqn:Hsj;
        [|exfalso; apply nth_error_None in Hsj; lia].
      destruct (matmul_composes h cur j sc sj x Hc Hsc Hsj) as [_ [_ [_ _]]].
      cbn [chain_prog C36.run].
      assert (Hk : step h (SMatSS cur j)
                   = (h ++ [with_pend (copy sj) (OSlicer cur) PMatmul], ONew (length h))).
      { cbn [C36.step]. rewrite Hsc, Hsj. reflexivity. }
      rewrite Hk.
      set (h1 := h ++ [with_pend (copy sj) (OSlicer cur) PMatmul]) in *.
      assert (C1' : closed h1).
      { apply closed_snoc; [exact Hc|]. apply (with_pend_closed h sj _ _ j Hc Hsj).
        intros id Hid. inversion Hid; subst. exact Hcur. }
      assert (L1 : length h1 = S (length h)) by (unfold h1; rewrite app_length; cbn; lia).
      assert (HF1 : Forall (fun j => j < length h1) r).
      { eapply Forall_impl; [|exact HF']. intros a Ha. cbn in Ha. lia. }
      assert (Hl : length h < length h1) by lia.
      pose proof (IH h1 (length h) x C1' Hl HF1) as IH1. cbn zeta in IH1. rewrite L1 in IH1.
      destruct (run h1 (chain_prog (length h) r (S (length h)))) as [h2 os] eqn:Hrun.
      cbn [fst] in IH1 |- *.
      replace (chain_top cur (j :: r) (length h)) with (chain_top (length h) r (S (length h))).
      2:{ unfold chain_top. destruct r; cbn [length]; lia. }
      rewrite IH1. cbn [rev]. rewrite run_objs_app, bind_assoc.
      unfold h1 at 1. rewrite run_objs_ext; [|exact Hc|].
      2:{ apply Forall_forall. intros a Ha. apply in_rev in Ha. rewrite Forall_forall in HF'. auto. }
      apply bind_ext. intros y. cbn [run_objs]. rewrite bind_assoc.
      pose proof (matmul_composes h cur j sc sj y Hc Hsc Hsj) as [_ [_ [_ Hm]]].
      rewrite Hk in Hm. cbn [fst] in Hm. rewrite Hm.
      apply bind_ext. intros z. reflexivity.
  Qed.

  (* plain slicers (no pending pair) *)
  Lemma apply_top_plain h i s x :
    nth_error h i = Some s -> pend s = [] -> apply_top h i x = slice s x.
  Proof.
    intros Hn Hp. rewrite (apply_top_unfold h i s x Hn), Hp. cbn. apply bind_ok.
  Qed.

  Lemma run_objs_plain h ids ss x :
    Forall2 (fun j s => nth_error h j = Some s /\ pend s = []) ids ss ->
    run_objs h ids x = run_slices ss x.
  Proof.
    intros HF. revert x. induction HF as [|j s ids ss [Hj Hp] _ IH]; intros x; [reflexivity|].
    cbn [run_objs run_slices]. rewrite (apply_top_plain h j s x Hj Hp).
    apply bind_ext. intros y. apply IH.
  Qed.
End Frame.

(* ================================================================== chains as matrices *)
(* consecutive slicers fit: S :: r is applied to n rows, r to (rsize S) rows *)
Fixpoint chain_ok (ss : list slicer) (n : nat) : Prop :=
  match ss with
  | [] => True
  | s :: r => wf_slicer s /\ NoDup (rng s) /\ dsize s = n /\ chain_ok r (rsize s)
  end.

Definition out_size (ss : list slicer) (n : nat) : nat := fold_left (fun _ s => rsize s) ss n.

Lemma run_slices_matrix ss : forall n x,
    chain_ok ss n -> vfits n x ->
    exists y, run_slices ss x = Ok y /\ vfits (out_size ss n) y /\
              dense (out_size ss n) y
              = fold_left (fun acc s => mat_apply (denote s) acc) ss (dense n x).
Proof.
  induction ss as [|s r IH]; intros n x Hok Hfit.
  - exists x. cbn. auto.
  - destruct Hok as [Hwf [Hnd [Hds Hr]]]. subst n.
    destruct (apply_is_matrix s x Hwf Hnd Hfit) as [y1 [Hy1 [Hnn [Hf1 Hd1]]]].
    destruct (IH (rsize s) y1 Hr Hf1) as [y [Hy [Hf Hd]]].
    exists y. cbn [run_slices out_size fold_left]. rewrite Hy1. cbn [bind].
    split; [exact Hy|]. split; [exact Hf|]. fold (out_size r (rsize s)). rewrite Hd.
    rewrite Hd1. reflexivity.
Qed.

Lemma Forall2_rev' {A B} (R : A -> B -> Prop) l1 l2 :
  Forall2 R l1 l2 -> Forall2 R (rev l1) (rev l2).
Proof.
  induction 1 as [|a b l1 l2 Hab _ IH]; cbn; [constructor|].
  apply Forall2_app; [exact IH|]. constructor; [exact Hab|constructor].
Qed.

Section Main.
  Variable ext_scalar : pop -> Z -> value -> res value.
  Variable ext_mat : pop -> nat -> list crow -> value -> res value.
  Variable ext_ad : pop -> list Z -> nat -> list crow -> value -> res value.
  Notation apply_top := (apply_top ext_scalar ext_mat ext_ad).
  Notation run := (run ext_scalar ext_mat ext_ad).
  Notation step := (step ext_scalar ext_mat ext_ad).
  Notation ext_op := (ext_op ext_scalar ext_mat ext_ad).

  (* the pending pairs of the leftmost chain member, when none of them is a slicer:
     plain numpy / scipy / AdArray arithmetic applied innermost first *)
  Definition tail_op (sc : slicer) (y : value) : res value :=
    run_pend ext_scalar ext_mat ext_ad (fun _ _ => Err Unmodelled) (pend sc) y.

  Theorem chain_is_matrix_product h cur sc rest ss x n :
    closed h -> nth_error h cur = Some sc ->
    (forall j p, ~ In (OSlicer j, p) (pend sc)) ->
    Forall2 (fun j s => nth_error h j = Some s /\ pend s = []) rest ss ->
    chain_ok (rev (sc :: ss)) n -> vfits n x ->
    let h' := fst (run h (chain_prog cur rest (length h))) in
    exists y,
      apply_top h' (chain_top cur rest (length h)) x = tail_op sc y /\
      dense (out_size (rev (sc :: ss)) n) y
      = fold_right (fun s acc => mat_apply (denote s) acc) (dense n x) (sc :: ss).
  Proof.
    intros Hc Hcur Hns HF Hok Hfit h'.
    assert (Hlt : cur < length h) by (apply nth_error_Some; congruence).
    assert (Hrest : Forall (fun j => j < length h) rest).
    { clear -HF. induction HF as [|j s r ss [Hj _] _ IH]; constructor; [|exact IH].
      apply nth_error_Some. congruence. }
    pose proof (chain_general ext_scalar ext_mat ext_ad rest h cur x Hc Hlt Hrest) as Hg.
    cbn zeta in Hg. subst h'. rewrite Hg.
    rewrite (run_objs_plain ext_scalar ext_mat ext_ad h (rev rest) (rev ss) x (Forall2_rev' _ _ _ HF)).
    destruct (run_slices_matrix (rev (sc :: ss)) n x Hok Hfit) as [y [Hy [Hf Hd]]].
    exists y. split.
    - cbn [rev] in Hy. rewrite run_slices_app in Hy.
      destruct (run_slices (rev ss) x) as [y0|e] eqn:H0; [|discriminate]. cbn [bind] in Hy |- *.
      rewrite (apply_top_unfold ext_scalar ext_mat ext_ad h cur sc y0 Hcur).
      cbn [run_slices] in Hy. destruct (slice sc y0) as [y1|e]; [|discriminate].
      cbn [bind] in Hy |- *. inversion Hy; subst y1. unfold tail_op.
      apply run_pend_ext. intros j p z Hin. exfalso. eapply Hns. exact Hin.
    - rewrite Hd. rewrite <- (fold_left_rev_right _ (rev (sc :: ss))). rewrite rev_involutive.
      reflexivity.
  Qed.

  Theorem pending_is_op_after_matrix h o p j sj x :
    closed h -> (forall id, o <> OSlicer id) -> nth_error h j = Some sj -> pend sj = [] ->
    wf_slicer sj -> NoDup (rng sj) -> vfits (dsize sj) x ->
    let h' := fst (step h (SROp o p j)) in
    snd (step h (SROp o p j)) = ONew (length h) /\
    nth_error h' j = Some sj /\
    exists y, apply_top h' (length h) x = ext_op o p y /\
              forall n, dense n y = mat_apply (denote sj) (dense (dsize sj) x).
  Proof.
    intros Hc Ho Hj Hp Hwf Hnd Hfit h'.
    destruct (rop_composes ext_scalar ext_mat ext_ad h o p j sj x Hc Ho Hj) as [Hnew [Hkeep Happ]].
    split; [exact Hnew|]. split; [exact Hkeep|].
    destruct (apply_is_matrix sj x Hwf Hnd Hfit) as [y [Hy [_ [_ Hd]]]].
    exists y. split; [|exact Hd]. subst h'. rewrite Happ.
    rewrite (apply_top_plain ext_scalar ext_mat ext_ad h j sj x Hj Hp), Hy. reflexivity.
  Qed.
End Main.

(* ================================================================== refutations *)
Definition S_10 := mkS [1; 0] [0; 1] 2 2 true false [].
Definition S_02 := mkS [0; 2] [0; 1] 2 3 true false [].

Ltac closed_concrete :=
  let i := fresh "i" in let s := fresh "s" in let j := fresh "j" in let p := fresh "p" in
  let Hn := fresh "Hn" in let Hp := fresh "Hp" in
  intros i s j p Hn Hp;
  do 6 (destruct i as [|i];
        [cbn in Hn; inversion Hn; subst; cbn in Hp;
         repeat (destruct Hp as [Hp|Hp]; [try discriminate; try (inversion Hp; subst; lia)|]);
         try contradiction |]);
  cbn in Hn; destruct i; discriminate.

(* the original in-place  S0 @ S1  changes what S1 does afterwards *)
Lemma inplace_variant_refuted :
  exists h i j x,
    closed h /\
    let h' := fst (matmul_ss_inplace h i j) in
    apply_top ext_scalarZ ext_matZ ext_adZ h' j x <> apply_top ext_scalarZ ext_matZ ext_adZ h j x.
Proof.
  exists [S_10; S_02], 0, 1, (VVec [10; 20; 30]%Z). split.
  - closed_concrete.
  - vm_compute. discriminate.
Qed.

(* copy-and-overwrite (the code between the two repairs):  X @ (Y @ S)  loses Y *)
Definition P_201 := mkS [2; 0; 1] [0; 1; 2] 3 3 false false [].
Definition P_102 := mkS [1; 0; 2] [0; 1; 2] 3 3 false false [].
Definition P_021 := mkS [0; 2; 1] [0; 1; 2] 3 3 false false [].

Lemma overwrite_variant_refuted :
  exists h i j x,
    closed h /\
    let h' := fst (matmul_ss_overwrite h i j) in
    apply_top ext_scalarZ ext_matZ ext_adZ h' (length h) x
    <> bind (apply_top ext_scalarZ ext_matZ ext_adZ h j x) (apply_top ext_scalarZ ext_matZ ext_adZ h i).
Proof.
  exists [P_201; P_102; P_021; with_pend (copy P_021) (OSlicer 1) PMatmul], 0, 3,
         (VVec [10; 20; 30]%Z).
  split; [closed_concrete|vm_compute; discriminate].
Qed.
