(* C09 — the exact rational instance (executable) and the real instance (theorems) run the
   same model: Q2R is a homomorphism of instances, so Proofs/C09_transfer.v applies. *)
From Coq Require Import List ZArith Bool QArith Qabs Qround Reals Qreals Lra Lia.
Import ListNotations.
From PP Require Import Model.C09 Model.C09_ext Proofs.C09 Proofs.C09_transfer.

Local Open Scope R_scope.

(* ceil(x) as an integer;  division totalised at 0 like Qdiv (never used: dt_init > 0) *)
Definition Rceil (x : R) : Z := (1 - up (- x))%Z.
Definition Rdiv0 (x y : R) : R := if Req_EM_T y 0 then 0 else x / y.

Definition RExt : numext R := {| x_div := Rdiv0; x_ceil := Rceil; x_ofZ := IZR |}.

Lemma Rceil_spec x z : IZR z - 1 < x <= IZR z -> Rceil x = z.
Proof.
  intros [H1 H2]. unfold Rceil.
  assert (E : (1 - z)%Z = up (- x)).
  { apply tech_up; rewrite minus_IZR; simpl; lra. }
  rewrite <- E. lia.
Qed.

Lemma Q2R_inject_Z z : Q2R (inject_Z z) = IZR z.
Proof. unfold Q2R, inject_Z; cbn. rewrite Rinv_1. ring. Qed.

Lemma Q2R_abs q : Q2R (Qabs q) = Rabs (Q2R q).
Proof.
  destruct (Qlt_le_dec q 0) as [H|H].
  - rewrite (Qeq_eqR _ _ (Qabs_neg q (Qlt_le_weak _ _ H))).
    apply Qlt_Rlt in H. rewrite Q2R_opp. replace (Q2R 0) with 0 in H by (unfold Q2R; cbn; ring).
    rewrite Rabs_left by exact H. reflexivity.
  - rewrite (Qeq_eqR _ _ (Qabs_pos q H)).
    apply Qle_Rle in H. replace (Q2R 0) with 0 in H by (unfold Q2R; cbn; ring).
    rewrite Rabs_pos_eq by exact H. reflexivity.
Qed.

Lemma Q2R_red q : Q2R (Qred q) = Q2R q.
Proof. apply Qeq_eqR, Qred_correct. Qed.

Lemma QR_leb x y : Rleb (Q2R x) (Q2R y) = Qle_bool x y.
Proof.
  destruct (Qle_bool x y) eqn:E.
  - apply Rleb_true, Qle_Rle, Qle_bool_iff, E.
  - apply Rleb_false. destruct (Qlt_le_dec y x) as [H|H]; [apply Qlt_Rlt; exact H|].
    apply Qle_bool_iff in H. congruence.
Qed.

Lemma QR_ltb x y : Rltb (Q2R x) (Q2R y) = negb (Qle_bool y x).
Proof.
  destruct (Qle_bool y x) eqn:E; cbn [negb].
  - apply Rltb_false, Qle_Rle, Qle_bool_iff, E.
  - apply Rltb_true. destruct (Qlt_le_dec x y) as [H|H]; [apply Qlt_Rlt; exact H|].
    apply Qle_bool_iff in H. congruence.
Qed.

Lemma QR_eqb x y : Reqb (Q2R x) (Q2R y) = Qeq_bool x y.
Proof.
  destruct (Qeq_bool x y) eqn:E.
  - apply Reqb_true, Qeq_eqR, Qeq_bool_iff, E.
  - unfold Reqb. destruct (Req_EM_T (Q2R x) (Q2R y)) as [H|H]; [|reflexivity].
    apply eqR_Qeq, Qeq_bool_iff in H. congruence.
Qed.

Theorem Q2R_morph : morph Q R QOps ROps Q2R.
Proof.
  constructor; cbn [n_zero n_one n_milli n_tenth n_add n_sub n_mul n_abs n_leb n_ltb n_eqb
                    QOps ROps]; intros.
  - unfold Q2R; cbn; ring.
  - unfold Q2R; cbn; field.
  - unfold Q2R; cbn; field.
  - unfold Q2R; cbn; field.
  - rewrite Q2R_red. apply Q2R_plus.
  - rewrite Q2R_red. apply Q2R_minus.
  - rewrite Q2R_red. apply Q2R_mult.
  - apply Q2R_abs.
  - apply QR_leb.
  - apply QR_ltb.
  - apply QR_eqb.
Qed.

Theorem Q2R_morph_ext : morph_ext Q R QExt RExt Q2R.
Proof.
  constructor; cbn [x_div x_ceil x_ofZ QExt RExt]; intros.
  - rewrite Q2R_red. unfold Rdiv0. destruct (Req_EM_T (Q2R y) 0) as [H|H].
    + assert (Hy : (y == 0)%Q) by (apply eqR_Qeq; rewrite H; unfold Q2R; cbn; ring).
      rewrite (Qeq_eqR _ 0%Q); [unfold Q2R; cbn; ring|].
      rewrite Hy. unfold Qdiv. change (/ 0)%Q with 0%Q. apply Qmult_0_r.
    + apply Q2R_div. intros Hy. apply H. rewrite (Qeq_eqR _ _ Hy). unfold Q2R; cbn; ring.
  - apply Rceil_spec. split.
    + pose proof (Qceiling_lt x) as H. apply Qlt_Rlt in H.
      rewrite Q2R_inject_Z, minus_IZR in H. simpl in H. lra.
    + pose proof (Qle_ceiling x) as H. apply Qle_Rle in H.
      rewrite Q2R_inject_Z in H. exact H.
  - apply Q2R_inject_Z.
Qed.

(* What is executed in exact rational arithmetic is what the theorems are about. *)
Theorem transfer_simulate_Q_R :
  forall (a : args Q) (sched : list Q) (evs : list event),
    simulate R ROps (hargs Q R Q2R a) (map Q2R sched) evs
    = match simulate Q QOps a sched evs with
      | inr e => inr e
      | inl (c, (tr, st)) => inl (hcfg Q R Q2R c, (map (hentry Q R Q2R) tr, st))
      end.
Proof. intros. apply h_simulate. exact Q2R_morph. Qed.

Theorem transfer_simulate_full_Q_R :
  forall (a : args Q) (sched : list Q) (evs : list event),
    simulate_full R ROps RExt (hargs Q R Q2R a) (map Q2R sched) evs
    = match simulate_full Q QOps QExt a sched evs with
      | inr e => inr e
      | inl (c, (tr, st)) => inl (hcfg Q R Q2R c, (map (hentry Q R Q2R) tr, st))
      end.
Proof. intros. apply h_simulate_full; [exact Q2R_morph|exact Q2R_morph_ext]. Qed.

Theorem transfer_run_calls_Q_R :
  forall (c : cfg Q) (sched : list Q) (s : state Q) (ks : list call),
    run_calls R ROps (hcfg Q R Q2R c) (map Q2R sched) (hstate Q R Q2R s) ks
    = map (hso Q R Q2R) (run_calls Q QOps c sched s ks).
Proof. intros. apply h_run_calls. exact Q2R_morph. Qed.
