(* C10 — proofs.  Both storage slots of the product model refine C08's history windows
   (C08.step_refines is reused for every storage call); the clock of the product run is the
   C09 time loop on the events derived from the solver verdicts. *)
From Coq Require Import List ZArith Bool Arith Lia.
Import ListNotations.
From PP Require Model.C08 Model.C09 Proofs.C08.
From PP Require Import Model.C10.

Section Storage.
  Variable V : Type.
  Variable vadd : V -> V -> V.

  Notation R := (C08.R V).
  Notation sstep := (C08.step vadd).

  (* ------------- the four disciplined storage calls, in the form used below ------------- *)
  Lemma get0 d s c r : 1 <= d -> R d s (c :: r) -> sstep s (C08.OpGet 0) = (s, C08.OVal c).
  Proof.
    intros Hd HR.
    destruct (C08.step_refines V vadd d s (c :: r) (C08.OpGet 0) Hd HR) as [_ Ho].
    { cbn. lia. }
    rewrite (surjective_pairing (sstep s (C08.OpGet 0))).
    rewrite C08.get_pure, Ho. cbn [C08.hout Z.to_nat].
    destruct d as [|d]; [lia|]. reflexivity.
  Qed.

  Lemma set0 d s h v : 1 <= d -> R d s h ->
    exists s', sstep s (C08.OpSet 0 v) = (s', C08.ODone) /\ R d s' (v :: tl h).
  Proof.
    intros Hd HR.
    destruct (C08.step_refines V vadd d s h (C08.OpSet 0 v) Hd HR) as [HR' Ho].
    { reflexivity. }
    exists (fst (sstep s (C08.OpSet 0 v))). split; [|exact HR'].
    rewrite (surjective_pairing (sstep s (C08.OpSet 0 v))) at 1. rewrite Ho. reflexivity.
  Qed.

  Lemma add0 d s c r v : 1 <= d -> R d s (c :: r) ->
    exists s', sstep s (C08.OpAdd 0 v) = (s', C08.ODone) /\ R d s' (vadd c v :: r).
  Proof.
    intros Hd HR.
    destruct (C08.step_refines V vadd d s (c :: r) (C08.OpAdd 0 v) Hd HR) as [HR' Ho].
    { reflexivity. }
    exists (fst (sstep s (C08.OpAdd 0 v))). split; [|exact HR'].
    rewrite (surjective_pairing (sstep s (C08.OpAdd 0 v))) at 1. rewrite Ho. reflexivity.
  Qed.

  Lemma shift0 d s c r : 1 <= d -> R d s (c :: r) ->
    exists s', sstep s (C08.OpShift (Some (Z.of_nat d))) = (s', C08.ODone) /\
               R d s' (c :: c :: r).
  Proof.
    intros Hd HR.
    destruct (C08.step_refines V vadd d s (c :: r) (C08.OpShift (Some (Z.of_nat d))) Hd HR)
      as [HR' Ho].
    { reflexivity. }
    exists (fst (sstep s (C08.OpShift (Some (Z.of_nat d))))). split; [|exact HR'].
    rewrite (surjective_pairing (sstep s (C08.OpShift (Some (Z.of_nat d))))) at 1.
    rewrite Ho. reflexivity.
  Qed.

  (* what R says about the python dictionary *)
  Lemma R_get d s h i : h <> [] -> R d s h ->
    slot_get s i = if i <? d then nth_error h i else None.
  Proof.
    intros Hh HR. destruct s as [dct|]; cbn [C08.R slot_get] in *.
    - rewrite HR. apply C08.nth_error_firstn_if.
    - contradiction.
  Qed.

  (* ------------- prepare_simulation ------------- *)
  (* after writing [v] at the indices 0..n-1 (in this order) the slot holds n copies *)
  Definition filled (s : C08.st V) (n : nat) (v : V) : Prop :=
    match s with
    | Some dct => forall j, C08.lookup dct j = if j <? n then Some v else None
    | None => n = 0
    end.

  Lemma set_all_seq v : forall m n s,
      filled s n v ->
      exists s', set_all V vadd s (map Z.of_nat (seq n m)) v = (s', None) /\
                 filled s' (n + m) v.
  Proof.
    induction m as [|m IH]; intros n s Hs.
    - exists s. split; [reflexivity|]. rewrite Nat.add_0_r. exact Hs.
    - cbn [seq map set_all].
      pose proof (C08.set_is_map_update V vadd s (Z.of_nat n) v) as Hup.
      assert (Hout : snd (sstep s (C08.OpSet (Z.of_nat n) v)) = C08.ODone).
      { cbn [C08.step]. destruct (Z.of_nat n <? 0)%Z eqn:E; [apply Z.ltb_lt in E; lia|].
        reflexivity. }
      destruct (sstep s (C08.OpSet (Z.of_nat n) v)) as [s1 o] eqn:Es.
      cbn [fst snd] in *. subst o. cbn [oerr].
      destruct (IH (S n) s1) as [s' [Hrun Hf]].
      { destruct s1 as [d1|].
        - cbn [filled]. intros j. specialize (Hup j ltac:(lia)). rewrite Hup.
          rewrite Nat2Z.id.
          destruct (Nat.eqb_spec n j) as [->|Hne].
          + replace (j <? S j) with true by (symmetry; apply Nat.ltb_lt; lia). reflexivity.
          + destruct s as [d0|]; cbn [filled] in Hs.
            * rewrite Hs. destruct (j <? n) eqn:E1.
              -- apply Nat.ltb_lt in E1.
                 replace (j <? S n) with true by (symmetry; apply Nat.ltb_lt; lia). reflexivity.
              -- apply Nat.ltb_ge in E1.
                 replace (j <? S n) with false by (symmetry; apply Nat.ltb_ge; lia). reflexivity.
            * subst n. replace (j <? 1) with false by (symmetry; apply Nat.ltb_ge; lia).
              reflexivity.
        - exfalso. exact (Hup 0 ltac:(lia)). }
      exists s'. split; [exact Hrun|]. replace (n + S m) with (S n + m) by lia. exact Hf.
  Qed.

  Lemma filled_R d s v : 1 <= d -> filled s d v -> R d s (repeat v d).
  Proof.
    intros Hd Hf. destruct s as [dct|]; cbn [filled C08.R] in *; [|lia].
    intros i. rewrite Hf, C08.nth_error_firstn_if.
    destruct (i <? d) eqn:E; [|reflexivity]. apply Nat.ltb_lt in E.
    symmetry. rewrite (nth_error_nth' _ v) by (rewrite repeat_length; lia).
    f_equal. apply nth_repeat.
  Qed.

  Lemma init_ok dI dT v0 : 1 <= dI -> 1 <= dT ->
    exists st, init V vadd (map Z.of_nat (seq 0 dI)) (map Z.of_nat (seq 0 dT)) v0 = (st, None) /\
               R dI (its st) (repeat v0 dI) /\ R dT (tss st) (repeat v0 dT).
  Proof.
    intros HdI HdT. unfold init.
    change (sstep None (C08.OpSet 0 v0)) with (Some [Some v0], @C08.ODone V).
    cbv beta iota.
    assert (E : sstep (Some [Some v0]) (C08.OpGet 0) = (Some [Some v0], C08.OVal v0))
      by reflexivity.
    rewrite E. clear E. cbv beta iota.
    (* index 0 is written again by the loop over iterate_indices *)
    destruct (set_all_seq v0 dI 0 (Some [])) as [s1 [H1 F1]].
    { cbn [filled]. intros j. rewrite C08.lookup_nil. reflexivity. }
    assert (H1' : set_all V vadd (Some [Some v0]) (map Z.of_nat (seq 0 dI)) v0 = (s1, None)).
    { destruct dI as [|dI]; [lia|]. cbn [seq map set_all] in *. exact H1. }
    rewrite H1'.
    destruct (set_all_seq v0 dT 0 None) as [s2 [H2 F2]]; [reflexivity|].
    rewrite H2. eexists. split; [reflexivity|]. cbn [its tss]. split.
    - apply filled_R; assumption.
    - apply filled_R; assumption.
  Qed.
End Storage.

Section Drive.
  Variable V : Type.
  Variable vadd : V -> V -> V.
  Variable T : Type.
  Variable O : C09.numops T.
  Variables dI dT : nat.
  Hypothesis HdI : 1 <= dI.
  Hypothesis HdT : 1 <= dT.
  Variable maxit : Z.
  Variable c : C09.cfg T.
  Variable sched : list T.
  Variable v0 : V.

  Notation R := (C08.R V).
  Notation zI := (Z.of_nat dI).
  Notation zT := (Z.of_nat dT).

  (* iterate slot: index 0 holds [a] (and the slot is a window of depth dI) *)
  Definition WI (st : store V) (a : V) : Prop := exists r, R dI (its st) (a :: r).
  (* time-step slot: the window of depth dT over the accepted solutions [acc] (most recent
     first, initial values last) continued by the copies of the initial values *)
  Definition pad : list V := repeat v0 (dT - 1).
  Definition WT (st : store V) (acc : list V) : Prop := R dT (tss st) (acc ++ pad).

  Lemma after_iteration_ok st a inc : WI st a ->
    exists st', after_iteration V vadd zI st inc = (st', None) /\ tss st' = tss st /\
                WI st' (vadd a inc).
  Proof.
    intros [r HR]. unfold after_iteration.
    destruct (shift0 V vadd dI (its st) a r HdI HR) as [s1 [E1 R1]]. rewrite E1. cbn [oerr].
    destruct (add0 V vadd dI s1 a (a :: r) inc HdI R1) as [s2 [E2 R2]]. rewrite E2. cbn [oerr].
    eexists. split; [reflexivity|]. cbn [its tss]. split; [reflexivity|].
    exists (a :: r). exact R2.
  Qed.

  Lemma newton_ok inp : forall st k a, WI st a ->
    (forall e, n_res (newton V vadd maxit zI st k inp) <> NErr e) /\
    tss (n_store (newton V vadd maxit zI st k inp)) = tss st /\
    WI (n_store (newton V vadd maxit zI st k inp))
       (fold_left vadd (n_used (newton V vadd maxit zI st k inp)) a).
  Proof.
    induction inp as [|[[inc cv] dv] inp IH]; intros st k a HI.
    - cbn [newton]. destruct (k <=? maxit)%Z; cbn [n_res n_store n_used fold_left];
        (split; [intros e; discriminate|split; [reflexivity|exact HI]]).
    - cbn [newton]. destruct (k <=? maxit)%Z.
      2:{ cbn [n_res n_store n_used fold_left].
          split; [intros e; discriminate|split; [reflexivity|exact HI]]. }
      destruct (after_iteration_ok st a inc HI) as [st1 [E1 [Ht1 HI1]]]. rewrite E1.
      destruct dv; [|destruct cv].
      + cbn [n_res n_store n_used fold_left].
        split; [intros e; discriminate|split; [exact Ht1|exact HI1]].
      + cbn [n_res n_store n_used fold_left].
        split; [intros e; discriminate|split; [exact Ht1|exact HI1]].
      + cbn [n_res n_store n_used fold_left].
        destruct (IH st1 (k + 1)%Z (vadd a inc) HI1) as [H1 [H2 H3]].
        split; [exact H1|split; [rewrite H2; exact Ht1|exact H3]].
  Qed.

  Lemma after_convergence_ok s1 st k cur a acc : WI st cur -> WT st (a :: acc) ->
    (h_clock (after_convergence V vadd T O c sched zT s1 st k),
     h_out (after_convergence V vadd T O c sched zT s1 st k))
    = (if C09.constant c then (s1, C09.OUnit)
       else C09.compute_time_step T O c sched s1 (Some k) false) /\
    match h_out (after_convergence V vadd T O c sched zT s1 st k) with
    | C09.OErr e => h_exc (after_convergence V vadd T O c sched zT s1 st k) = Some (inl e) /\
                    h_store (after_convergence V vadd T O c sched zT s1 st k) = st
    | _ => h_exc (after_convergence V vadd T O c sched zT s1 st k) = None /\
           WI (h_store (after_convergence V vadd T O c sched zT s1 st k)) cur /\
           WT (h_store (after_convergence V vadd T O c sched zT s1 st k)) (cur :: a :: acc)
    end.
  Proof.
    intros [r HRi] HRt. unfold WT in HRt. cbn [app] in HRt.
    unfold after_convergence. rewrite (get0 V vadd dI (its st) cur r HdI HRi).
    destruct (if C09.constant c then (s1, C09.OUnit)
              else C09.compute_time_step T O c sched s1 (Some k) false) as [s2 o].
    destruct (shift0 V vadd dT (tss st) a (acc ++ pad) HdT HRt) as [t1 [E1 R1]].
    destruct (set0 V vadd dT t1 (a :: a :: acc ++ pad) cur HdT R1) as [t2 [E2 R2]].
    cbn [tl] in R2.
    destruct o; cbn [h_clock h_out h_exc h_store];
      try (rewrite E1; cbn [oerr]; rewrite E2; cbn [oerr h_clock h_out h_exc h_store];
           split; [reflexivity|];
           split; [reflexivity|split; [exists r; exact HRi|exact R2]]).
    split; [reflexivity|split; reflexivity].
  Qed.

  Lemma after_failure_ok s1 st cur a acc : WI st cur -> WT st (a :: acc) ->
    (h_clock (after_failure V vadd T O c sched s1 st),
     h_out (after_failure V vadd T O c sched s1 st))
    = (if C09.constant c then (s1, C09.OErr C09.E_not_converged)
       else C09.compute_time_step T O c sched s1 None true) /\
    tss (h_store (after_failure V vadd T O c sched s1 st)) = tss st /\
    match h_out (after_failure V vadd T O c sched s1 st) with
    | C09.OErr e => h_exc (after_failure V vadd T O c sched s1 st) = Some (inl e) /\
                    h_store (after_failure V vadd T O c sched s1 st) = st
    | _ => h_exc (after_failure V vadd T O c sched s1 st) = None /\
           WI (h_store (after_failure V vadd T O c sched s1 st)) a
    end.
  Proof.
    intros [r HRi] HRt. unfold WT in HRt. cbn [app] in HRt.
    unfold after_failure. destruct (C09.constant c).
    { cbn [h_clock h_out h_exc h_store]. repeat split. }
    destruct (C09.compute_time_step T O c sched s1 None true) as [s2 o].
    destruct (set0 V vadd dI (its st) (cur :: r) a HdI HRi) as [i1 [E1 R1]]. cbn [tl] in R1.
    destruct o; cbn [h_clock h_out h_exc h_store];
      try (rewrite (get0 V vadd dT (tss st) a (acc ++ pad) HdT HRt); rewrite E1;
           cbn [oerr h_clock h_out h_exc h_store tss its];
           split; [reflexivity|split; [reflexivity|split; [reflexivity|exists r; exact R1]]]).
    repeat split.
  Qed.

  (* ------------- the time loop ------------- *)
  Notation accept := (accept1 vadd (T := T)).

  (* what holds of one attempted time step, given the accepted solutions [acc] before it *)
  Definition entry_ok (acc : list V) (e : entry V T) : Prop :=
    (forall x, e_res e <> NErr x) /\ e_res e <> NOut /\
    WT (e_store e) (accept acc e) /\
    (no_exc e = true -> WI (e_store e) (hd v0 (accept acc e))).

  Fixpoint trace_ok (acc : list V) (tr : list (entry V T)) : Prop :=
    match tr with
    | [] => True
    | e :: r => entry_ok acc e /\ trace_ok (accept acc e) r
    end.

  Lemma drive_ok solves : forall s st a acc tr sp,
      WI st a -> WT st (a :: acc) ->
      drive V vadd T O maxit zI zT c sched s st solves = (tr, sp) ->
      (forall e, sp <> RaisedStore e) /\
      trace_ok (a :: acc) tr /\
      C09.drive T O c sched s (map ev_of tr) = (map clock_of tr, stop_of sp).
  Proof.
    induction solves as [|inp solves IH]; intros s st a acc tr sp HI HT Hd; cbn [drive] in Hd.
    - destruct (C09.final_time_reached T O c sched s) eqn:Efin; inversion Hd; subst;
        (split; [intros e; discriminate|split; [exact I|]]);
        cbn [map C09.drive stop_of]; rewrite Efin; reflexivity.
    - destruct (C09.final_time_reached T O c sched s) eqn:Efin.
      { inversion Hd; subst. split; [intros e; discriminate|split; [exact I|]].
        cbn [map C09.drive stop_of]. rewrite Efin. reflexivity. }
      pose proof HT as HT'. unfold WT in HT'. cbn [app] in HT'.
      rewrite (get0 V vadd dT (tss st) a (acc ++ pad) HdT HT') in Hd. cbn [snd oerr] in Hd.
      destruct (newton_ok inp st 0 a HI) as [Hne [Hts HIn]].
      set (n := newton V vadd maxit zI st 0 inp) in *.
      assert (HTn : WT (n_store n) (a :: acc)) by (unfold WT; rewrite Hts; exact HT).
      set (s1 := C09.increase_time_index T (C09.increase_time T O s)) in *.
      destruct (n_res n) as [k| | |e] eqn:Eres.
      + (* converged *)
        destruct (after_convergence_ok s1 (n_store n) k _ a acc HIn HTn) as [Hclk Hh].
        set (h := after_convergence V vadd T O c sched zT s1 (n_store n) k) in *.
        destruct (h_out h) as [| dt0 | b0 | | e] eqn:Eout.
        5:{ destruct Hh as [Hexc Hst]. rewrite Hexc in Hd. inversion Hd; subst. clear Hd.
            split; [intros x; discriminate|]. split.
            - cbn [trace_ok]. split; [|exact I]. unfold entry_ok, accept1, no_exc.
              cbn [e_res e_out e_store]. rewrite ?Eout.
              split; [intros x; discriminate|split; [discriminate|]].
              split; [rewrite Hst; exact HTn|discriminate].
            - cbn [map C09.drive stop_of]. rewrite Efin. unfold ev_of at 1. cbn [e_res].
              fold s1. rewrite <- Hclk. unfold clock_of, ev_of. cbn [e_res e_clock e_out].
              rewrite ?Eout. reflexivity. }
        all: destruct Hh as [Hexc [HIh HTh]]; rewrite Hexc in Hd;
          destruct (drive V vadd T O maxit zI zT c sched (h_clock h) (h_store h) solves)
            as [tr' sp'] eqn:Erec;
          inversion Hd; subst; clear Hd;
          destruct (IH _ _ _ _ _ _ HIh HTh Erec) as [IH1 [IH2 IH3]];
          (split; [exact IH1|]); split.
        all: try (cbn [trace_ok]; unfold entry_ok at 1; unfold accept1 at 1 2 3, no_exc;
                  cbn [e_res e_out e_store e_used hd]; rewrite ?Eout;
                  split; [split; [intros x; discriminate|split; [discriminate|]];
                          split; [exact HTh|intros _; exact HIh]|exact IH2]).
        all: cbn [map C09.drive]; rewrite Efin; unfold ev_of at 1; cbn [e_res];
          fold s1; rewrite <- Hclk; unfold clock_of at 1, ev_of at 1;
          cbn [e_res e_clock e_out]; rewrite ?Eout; fold (@ev_of V T); rewrite IH3; reflexivity.
      + (* failed *)
        destruct (after_failure_ok s1 (n_store n) _ a acc HIn HTn) as [Hclk [Htsf Hh]].
        set (h := after_failure V vadd T O c sched s1 (n_store n)) in *.
        assert (HTf : WT (h_store h) (a :: acc)) by (unfold WT; rewrite Htsf; exact HTn).
        destruct (h_out h) as [| dt0 | b0 | | e] eqn:Eout.
        5:{ destruct Hh as [Hexc Hst]. rewrite Hexc in Hd. inversion Hd; subst. clear Hd.
            split; [intros x; discriminate|]. split.
            - cbn [trace_ok]. split; [|exact I]. unfold entry_ok, accept1, no_exc.
              cbn [e_res e_out e_store]. rewrite ?Eout.
              split; [intros x; discriminate|split; [discriminate|]].
              split; [exact HTf|discriminate].
            - cbn [map C09.drive stop_of]. rewrite Efin. unfold ev_of at 1. cbn [e_res].
              fold s1. rewrite <- Hclk. unfold clock_of, ev_of. cbn [e_res e_clock e_out].
              rewrite ?Eout. reflexivity. }
        all: destruct Hh as [Hexc HIh]; rewrite Hexc in Hd;
          destruct (drive V vadd T O maxit zI zT c sched (h_clock h) (h_store h) solves)
            as [tr' sp'] eqn:Erec;
          inversion Hd; subst; clear Hd;
          destruct (IH _ _ _ _ _ _ HIh HTf Erec) as [IH1 [IH2 IH3]];
          (split; [exact IH1|]); split.
        all: try (cbn [trace_ok]; unfold entry_ok at 1; unfold accept1 at 1 2 3, no_exc;
                  cbn [e_res e_out e_store e_used hd]; rewrite ?Eout;
                  split; [split; [intros x; discriminate|split; [discriminate|]];
                          split; [exact HTf|intros _; exact HIh]|exact IH2]).
        all: cbn [map C09.drive]; rewrite Efin; unfold ev_of at 1; cbn [e_res];
          fold s1; rewrite <- Hclk; unfold clock_of at 1, ev_of at 1;
          cbn [e_res e_clock e_out]; rewrite ?Eout; fold (@ev_of V T); rewrite IH3; reflexivity.
      + (* the scripted inputs ran out *)
        inversion Hd; subst. split; [intros e; discriminate|split; [exact I|]].
        cbn [map C09.drive stop_of]. rewrite Efin. reflexivity.
      + exfalso. exact (Hne e eq_refl).
  Qed.

  (* ------------- reading the invariants off the dictionaries ------------- *)
  Lemma WI_get st a : WI st a -> slot_get (its st) 0 = Some a.
  Proof.
    intros [r HR]. rewrite (R_get V dI (its st) (a :: r) 0 ltac:(discriminate) HR).
    destruct dI; [lia|]. reflexivity.
  Qed.

  Lemma nth_app_pad acc i : nth i (acc ++ pad) v0 = nth i acc v0.
  Proof.
    destruct (Nat.lt_ge_cases i (length acc)) as [Hlt|Hge].
    - apply app_nth1. exact Hlt.
    - rewrite app_nth2 by exact Hge. rewrite (nth_overflow acc) by exact Hge.
      unfold pad. apply nth_repeat.
  Qed.

  Lemma WT_get st acc i : acc <> [] -> WT st acc ->
    slot_get (tss st) i = if i <? dT then Some (nth i acc v0) else None.
  Proof.
    intros Hne HR. unfold WT in HR.
    assert (Hne' : acc ++ pad <> []) by (destruct acc; [congruence|discriminate]).
    rewrite (R_get V dT (tss st) (acc ++ pad) i Hne' HR).
    destruct (i <? dT) eqn:E; [|reflexivity]. apply Nat.ltb_lt in E.
    rewrite (nth_error_nth' _ v0).
    - f_equal. apply nth_app_pad.
    - rewrite app_length. unfold pad. rewrite repeat_length.
      destruct acc; [congruence|]. cbn [length]. lia.
  Qed.

  Lemma accept_nonempty acc e : acc <> [] -> accept acc e <> [].
  Proof.
    intros Hne. unfold accept1. destruct (e_res e); try exact Hne.
    destruct (e_out e); try exact Hne; destruct acc; try congruence; discriminate.
  Qed.

  Lemma accepts_nonempty tr : forall acc, acc <> [] -> fold_left accept tr acc <> [].
  Proof.
    induction tr as [|e tr IH]; intros acc Hne; [exact Hne|].
    cbn [fold_left]. apply IH. apply accept_nonempty. exact Hne.
  Qed.

  Lemma trace_ok_app pre : forall acc post,
      trace_ok acc (pre ++ post) -> trace_ok (fold_left accept pre acc) post.
  Proof.
    induction pre as [|e pre IH]; intros acc post H; [exact H|].
    cbn [app trace_ok fold_left] in *. apply IH. tauto.
  Qed.

  Lemma last_cons (A : Type) (x : A) l d : last (x :: l) d = last l x.
  Proof.
    revert x d. induction l as [|y l IH]; intros x d; [reflexivity|].
    change (last (x :: y :: l) d) with (last (y :: l) d). rewrite (IH y d), (IH y x).
    reflexivity.
  Qed.

  Lemma final_store_WT tr : forall st acc,
      WT st acc -> trace_ok acc tr -> WT (final_store st tr) (fold_left accept tr acc).
  Proof.
    induction tr as [|e tr IH]; intros st acc HT Hok; [exact HT|].
    unfold final_store. cbn [map fold_left]. rewrite last_cons.
    cbn [trace_ok] in Hok. destruct Hok as [[_ [_ [HTe _]]] Hok].
    apply (IH (e_store e) _ HTe Hok).
  Qed.
End Drive.

(* ======================= the whole simulation ======================= *)
Section Sim.
  Variable V : Type.
  Variable vadd : V -> V -> V.
  Variable T : Type.
  Variable O : C09.numops T.
  Variables dI dT : nat.
  Hypothesis HdI : 1 <= dI.
  Hypothesis HdT : 1 <= dT.
  Variable maxit : Z.
  Variable v0 : V.

  Notation iti := (map Z.of_nat (seq 0 dI)).
  Notation tsi := (map Z.of_nat (seq 0 dT)).
  Notation sim := (simulate V vadd T O maxit).
  Notation acc_of := (accepted vadd (T := T) v0).

  Lemma simulate_ok a sched solves c st0 tr sp :
    sim a sched iti tsi v0 solves = inl (c, st0, (tr, sp)) ->
    WI V dI st0 v0 /\ WT V dT v0 st0 [v0] /\
    (forall e, sp <> RaisedStore e) /\
    trace_ok V vadd T dI dT v0 [v0] tr /\
    C09.simulate T O a sched (map ev_of tr) = inl (c, (map clock_of tr, stop_of sp)).
  Proof.
    unfold simulate, C09.simulate. intros H.
    destruct (C09.construct T O a sched) as [c'|e]; [|discriminate].
    destruct (init_ok V vadd dI dT v0 HdI HdT) as [st [Ei [Ri Rt]]]. rewrite Ei in H.
    rewrite !map_length, !seq_length in H.
    assert (Hc : c' = c) by congruence. assert (Hst : st = st0) by congruence.
    assert (H2 : drive V vadd T O maxit (Z.of_nat dI) (Z.of_nat dT) c' sched
                       (C09.init_state T O c' sched) st solves = (tr, sp)) by congruence.
    subst c' st0. clear H.
    assert (HI : WI V dI st v0).
    { destruct dI as [|d]; [lia|]. exists (repeat v0 d). exact Ri. }
    assert (HT : WT V dT v0 st [v0]).
    { unfold WT, pad. destruct dT as [|d]; [lia|]. cbn [repeat] in Rt.
      replace (S d - 1) with d by lia. exact Rt. }
    destruct (drive_ok V vadd T O dI dT HdI HdT maxit c sched v0 solves _ _ _ _ _ _ HI HT H2)
      as [H1 [H3 H4]].
    split; [exact HI|split; [exact HT|split; [exact H1|split; [exact H3|]]]].
    rewrite H4. reflexivity.
  Qed.

  Lemma simulate_fails_only_in_ctor a sched solves f :
    sim a sched iti tsi v0 solves = inr f ->
    exists e, f = CtorErr e /\ C09.construct T O a sched = inr e.
  Proof.
    unfold simulate. intros H.
    destruct (C09.construct T O a sched) as [c'|e].
    - destruct (init_ok V vadd dI dT v0 HdI HdT) as [st [Ei _]]. rewrite Ei in H. discriminate.
    - inversion H. exists e. split; reflexivity.
  Qed.

  (* the facts about one attempted step, in terms of the dictionaries *)
  Lemma step_facts a sched solves c st0 tr sp pre e post :
    sim a sched iti tsi v0 solves = inl (c, st0, (tr, sp)) ->
    tr = pre ++ e :: post ->
    (forall x, e_res e <> NErr x) /\ e_res e <> NOut /\
    (forall i, slot_get (tss (e_store e)) i
               = if i <? dT then Some (nth i (acc_of (pre ++ [e])) v0) else None) /\
    (no_exc e = true -> slot_get (its (e_store e)) 0 = Some (hd v0 (acc_of (pre ++ [e])))).
  Proof.
    intros Hs Htr. destruct (simulate_ok _ _ _ _ _ _ _ Hs) as [_ [_ [_ [Hok _]]]].
    subst tr. apply (trace_ok_app V vadd T dI dT v0) in Hok. cbn [trace_ok] in Hok.
    destruct Hok as [[H1 [H2 [H3 H4]]] _].
    unfold accepted. rewrite fold_left_app. cbn [fold_left].
    split; [exact H1|split; [exact H2|split]].
    - intros i. apply (WT_get V dI dT HdI HdT v0); [|exact H3].
      apply accept_nonempty. apply accepts_nonempty. discriminate.
    - intros Hn. apply (WI_get V dI dT HdI HdT). apply H4. exact Hn.
  Qed.

  Theorem after_convergence_thm a sched solves c st0 tr sp pre e post k :
    sim a sched iti tsi v0 solves = inl (c, st0, (tr, sp)) ->
    tr = pre ++ e :: post -> e_res e = NConv k -> (forall x, e_out e <> C09.OErr x) ->
    let sol := fold_left vadd (e_used e) (hd v0 (acc_of pre)) in
    slot_get (tss (e_store e)) 0 = Some sol /\
    slot_get (its (e_store e)) 0 = Some sol /\
    acc_of (pre ++ [e]) = sol :: acc_of pre.
  Proof.
    intros Hs Htr Hres Hout sol.
    destruct (step_facts _ _ _ _ _ _ _ _ _ _ Hs Htr) as [_ [_ [Hts Hit]]].
    assert (Hacc : acc_of (pre ++ [e]) = sol :: acc_of pre).
    { subst sol. unfold accepted. rewrite fold_left_app. cbn [fold_left]. unfold accept1 at 1.
      rewrite Hres.
      pose proof (accepts_nonempty V vadd T pre [v0] ltac:(discriminate)) as Hne.
      destruct (fold_left (accept1 vadd) pre [v0]) as [|p q] eqn:E; [congruence|].
      destruct (e_out e) eqn:Eo; try reflexivity. exfalso. exact (Hout _ eq_refl). }
    fold sol in Hacc. rewrite Hacc in Hts, Hit. split; [|split; [|exact Hacc]].
    - rewrite (Hts 0). destruct dT; [lia|]. reflexivity.
    - apply Hit. unfold no_exc. rewrite Hres. destruct (e_out e) eqn:Eo; try reflexivity.
      exfalso. exact (Hout _ eq_refl).
  Qed.

  Theorem after_failure_thm a sched solves c st0 tr sp pre e post :
    sim a sched iti tsi v0 solves = inl (c, st0, (tr, sp)) ->
    tr = pre ++ e :: post -> e_res e = NFail -> (forall x, e_out e <> C09.OErr x) ->
    let prev := hd v0 (acc_of pre) in
    slot_get (its (e_store e)) 0 = Some prev /\
    slot_get (tss (e_store e)) 0 = Some prev /\
    acc_of (pre ++ [e]) = acc_of pre.
  Proof.
    intros Hs Htr Hres Hout prev.
    destruct (step_facts _ _ _ _ _ _ _ _ _ _ Hs Htr) as [_ [_ [Hts Hit]]].
    assert (Hacc : acc_of (pre ++ [e]) = acc_of pre).
    { unfold accepted. rewrite fold_left_app. cbn [fold_left]. unfold accept1 at 1.
      rewrite Hres. reflexivity. }
    rewrite Hacc in Hts, Hit.
    pose proof (accepts_nonempty V vadd T pre [v0] ltac:(discriminate)) as Hne.
    fold (acc_of pre) in Hne.
    split; [|split; [|exact Hacc]].
    - apply Hit. unfold no_exc. rewrite Hres. destruct (e_out e) eqn:Eo; try reflexivity.
      exfalso. exact (Hout _ eq_refl).
    - rewrite (Hts 0). destruct dT; [lia|]. cbn [Nat.ltb Nat.leb]. unfold prev.
      destruct (acc_of pre); [congruence|]. reflexivity.
  Qed.

  Theorem history_thm a sched solves c st0 tr sp :
    sim a sched iti tsi v0 solves = inl (c, st0, (tr, sp)) ->
    (forall e, sp <> RaisedStore e) /\
    (forall e, In e tr -> (forall x, e_res e <> NErr x) /\ e_res e <> NOut) /\
    (* at every attempted step, raising ones included ... *)
    (forall pre e post, tr = pre ++ e :: post -> forall i,
        slot_get (tss (e_store e)) i
        = if i <? dT then Some (nth i (acc_of (pre ++ [e])) v0) else None) /\
    (* ... and in the state the run ended with *)
    (forall i, slot_get (tss (final_store st0 tr)) i
               = if i <? dT then Some (nth i (acc_of tr) v0) else None).
  Proof.
    intros Hs. destruct (simulate_ok _ _ _ _ _ _ _ Hs) as [_ [HT0 [Hsp [Hok _]]]].
    split; [exact Hsp|split; [|split]].
    - intros e Hin. destruct (in_split _ _ Hin) as [pre [post Htr]].
      destruct (step_facts _ _ _ _ _ _ _ _ _ _ Hs Htr) as [H1 [H2 _]]. split; assumption.
    - intros pre e post Htr.
      destruct (step_facts _ _ _ _ _ _ _ _ _ _ Hs Htr) as [_ [_ [H3 _]]]. exact H3.
    - intros i. apply (WT_get V dI dT HdI HdT v0).
      + apply accepts_nonempty. discriminate.
      + apply (final_store_WT V vadd T dI dT v0); assumption.
  Qed.
End Sim.

Lemma clock_is_C09 :
  forall (V : Type) (vadd : V -> V -> V) (T : Type) (O : C09.numops T) (dI dT : nat),
    1 <= dI -> 1 <= dT ->
    forall (maxit : Z) (v0 : V) (a : C09.args T) (sched : list T)
           (solves : list (list (V * bool * bool)))
           (c : C09.cfg T) (st0 : store V) (tr : list (entry V T)) (sp : stop),
    simulate V vadd T O maxit a sched (map Z.of_nat (seq 0 dI)) (map Z.of_nat (seq 0 dT))
             v0 solves = inl (c, st0, (tr, sp)) ->
    C09.simulate T O a sched (map ev_of tr) = inl (c, (map clock_of tr, stop_of sp)).
Proof.
  intros V vadd T O dI dT HdI HdT maxit v0 a sched solves c st0 tr sp H.
  exact (proj2 (proj2 (proj2 (proj2
           (simulate_ok V vadd T O dI dT HdI HdT maxit v0 a sched solves c st0 tr sp H))))).
Qed.
