(* C18 — proofs (over exact rationals). *)
From Coq Require Import List ZArith QArith Qabs Bool Arith Lia Lqa.
Import ListNotations.
From PP Require Import Lib.RowLin Model.C18.
Local Open Scope Q_scope.

(* ------------------------------------------------------------------ vectors *)
Definition allzero (x : list Q) : Prop := Forall (fun q => q == 0) x.

Lemma allzero_dec : forall x, {allzero x} + {~ allzero x}.
Proof. intros x. apply Forall_dec. intros q. apply Qeq_dec. Qed.

Lemma dotv_nil_r : forall x, dotv x [] == 0.
Proof. destruct x; reflexivity. Qed.

Lemma dotv_comm : forall x y, dotv x y == dotv y x.
Proof.
  induction x as [|a x IH]; intros y; destruct y as [|b y]; cbn [dotv]; try reflexivity.
  rewrite IH. ring.
Qed.

Lemma dotv_allzero_l : forall x y, allzero x -> dotv x y == 0.
Proof.
  induction x as [|a x IH]; intros y H; [reflexivity|].
  destruct y as [|b y]; [reflexivity|]. cbn [dotv].
  inversion H as [|? ? Ha Hx]; subst. rewrite Ha, (IH y Hx). ring.
Qed.

Lemma dotv_allzero_r : forall x y, allzero y -> dotv x y == 0.
Proof. intros x y H. rewrite dotv_comm. apply dotv_allzero_l. exact H. Qed.

Lemma dotv_cons_r : forall r x0 x', dotv r (x0 :: x') == hd0 r * x0 + dotv (tl r) x'.
Proof. intros r x0 x'. destruct r as [|c C]; cbn [dotv hd0 tl]; ring. Qed.

Lemma dotv_map_plus : forall (rows : mat) x (f g : list Q -> Q),
  dotv x (map (fun r => f r + g r) rows) == dotv x (map f rows) + dotv x (map g rows).
Proof.
  induction rows as [|r rows IH]; intros x f g; cbn [map].
  - rewrite !dotv_nil_r. ring.
  - destruct x as [|a x]; cbn [dotv]; [ring|]. rewrite IH. ring.
Qed.

Lemma dotv_map_scal : forall (rows : mat) x k (f : list Q -> Q),
  dotv x (map (fun r => k * f r) rows) == k * dotv x (map f rows).
Proof.
  induction rows as [|r rows IH]; intros x k f; cbn [map].
  - rewrite !dotv_nil_r. ring.
  - destruct x as [|a x]; cbn [dotv]; [ring|]. rewrite IH. ring.
Qed.

Lemma dotv_map_ext : forall (rows : mat) x (f g : list Q -> Q),
  (forall r, In r rows -> f r == g r) -> dotv x (map f rows) == dotv x (map g rows).
Proof.
  induction rows as [|r rows IH]; intros x f g H; cbn [map]; [reflexivity|].
  destruct x as [|a x]; cbn [dotv]; [reflexivity|].
  rewrite (H r) by (left; reflexivity).
  rewrite (IH x f g) by (intros r' Hr'; apply H; right; exact Hr'). reflexivity.
Qed.

Lemma dotv_eqlist : forall u v x, qlist_eqb u v = true -> dotv u x == dotv v x.
Proof.
  induction u as [|a u IH]; intros v x H; destruct v as [|b v]; cbn in H; try discriminate.
  - reflexivity.
  - apply andb_prop in H. destruct H as [Hab Huv]. apply Qeq_bool_iff in Hab.
    destruct x as [|c x]; cbn [dotv]; [reflexivity|]. rewrite Hab, (IH v x Huv). reflexivity.
Qed.

Lemma dotv_axpy : forall x k v u,
  length u = length x -> length v = length x ->
  dotv (axpy k v u) x == dotv u x - k * dotv v x.
Proof.
  induction x as [|x0 x IH]; intros k v u Hu Hv.
  - destruct u; [|discriminate]. destruct v; [|discriminate]. cbn. ring.
  - destruct u as [|u0 u]; [discriminate|]. destruct v as [|v0 v]; [discriminate|].
    cbn [axpy hd0 tl dotv]. rewrite Qred_correct.
    rewrite IH by (cbn [length] in *; lia). ring.
Qed.

(* ------------------------------------------------------------------ one elimination step *)
Lemma quad_step : forall a b rows x0 x',
  ~ a == 0 ->
  length b = length x' ->
  (forall r, In r rows -> length (tl r) = length x') ->
  qlist_eqb (map hd0 rows) b = true ->
  quad ((a :: b) :: rows) (x0 :: x')
  == a * ((x0 + dotv b x' / a) * (x0 + dotv b x' / a)) + quad (schur a b rows) x'.
Proof.
  intros a b rows x0 x' Ha Hb Hrows Hsym.
  unfold quad, mulmv, schur. cbn [map dotv]. rewrite map_map.
  (* the rows below the first one *)
  rewrite (dotv_map_ext rows x' (fun r => dotv r (x0 :: x'))
             (fun r => x0 * hd0 r + dotv (tl r) x')).
  2:{ intros r _. rewrite dotv_cons_r. ring. }
  rewrite (dotv_map_plus rows x' (fun r => x0 * hd0 r) (fun r => dotv (tl r) x')).
  rewrite (dotv_map_scal rows x' x0 hd0).
  (* the Schur complement *)
  rewrite (dotv_map_ext rows x' (fun r => dotv (axpy (hd0 r / a) b (tl r)) x')
             (fun r => dotv (tl r) x' + (- (dotv b x' / a)) * hd0 r)).
  2:{ intros r Hr. rewrite dotv_axpy by (try apply Hrows; assumption). field. exact Ha. }
  rewrite (dotv_map_plus rows x' (fun r => dotv (tl r) x') (fun r => - (dotv b x' / a) * hd0 r)).
  rewrite (dotv_map_scal rows x' (- (dotv b x' / a)) hd0).
  assert (E : dotv x' (map hd0 rows) == dotv b x').
  { rewrite dotv_comm. apply dotv_eqlist. exact Hsym. }
  rewrite E. field. exact Ha.
Qed.

Lemma Qlt_bool_true : forall a b, Qlt_bool a b = true -> a < b.
Proof.
  intros a b H. unfold Qlt_bool in H. apply negb_true_iff in H.
  apply Qnot_le_lt. intros Hle. apply Qle_bool_iff in Hle. congruence.
Qed.

Lemma spd_certificate : forall n M x,
  spd_chk n M = true -> length x = n -> ~ allzero x -> 0 < quad M x.
Proof.
  induction n as [|n IH]; intros M x H Hlen Hnz.
  - destruct x; [|discriminate]. exfalso. apply Hnz. constructor.
  - destruct M as [|[|a b] rows]; cbn [spd_chk] in H; try discriminate.
    apply andb_prop in H. destruct H as [H Hrec].
    apply andb_prop in H. destruct H as [H Hsym].
    apply andb_prop in H. destruct H as [H Hlens].
    apply andb_prop in H. destruct H as [H Hnrows].
    apply andb_prop in H. destruct H as [Hpos Hlb].
    apply Qlt_bool_true in Hpos. apply Nat.eqb_eq in Hlb.
    destruct x as [|x0 x']; [discriminate|]. cbn [length] in Hlen.
    assert (Hx' : length x' = n) by lia.
    assert (Ha : ~ a == 0) by lra.
    rewrite quad_step; [| exact Ha | lia | | exact Hsym].
    2:{ intros r Hr. rewrite forallb_forall in Hlens. specialize (Hlens r Hr).
        apply Nat.eqb_eq in Hlens. destruct r; cbn [length tl] in *; lia. }
    set (t := x0 + dotv b x' / a).
    assert (Hsq : 0 <= t * t) by nra.
    destruct (allzero_dec x') as [Hz|Hnz'].
    + (* the tail vanishes: x0 is not zero *)
      assert (Hq : quad (schur a b rows) x' == 0) by (unfold quad; apply dotv_allzero_l; exact Hz).
      assert (Hb0 : dotv b x' == 0) by (apply dotv_allzero_r; exact Hz).
      assert (Hx0 : ~ x0 == 0).
      { intros E. apply Hnz. constructor; assumption. }
      rewrite Hq. unfold t. rewrite Hb0.
      setoid_replace (x0 + 0 / a) with x0 by (field; exact Ha).
      assert (0 < x0 * x0) by nra. nra.
    + pose proof (IH (schur a b rows) x' Hrec Hx' Hnz') as Hs. nra.
Qed.

(* ------------------------------------------------------------------ Gram form *)
Lemma gram_spd : forall (W B : mat) (x : list Q),
  (forall y, length y = length B -> ~ allzero y -> 0 < quad W y) ->
  (allzero (mulmv B x) -> allzero x) ->
  ~ allzero x -> 0 < gram_quad W B x.
Proof.
  intros W B x HW HB Hx. unfold gram_quad. apply HW.
  - unfold mulmv. apply map_length.
  - intros Hz. apply Hx. apply HB. exact Hz.
Qed.

(* ------------------------------------------------------------------ the flux equation of one face *)
Lemma isum_minus_const : forall ic (g : nat -> Q) k,
  isum ic (fun c => g c - k) == isum ic g - isum ic (fun _ => 1) * k.
Proof. induction ic as [|fs ic IH]; intros; cbn [isum]; [ring|]. rewrite IH. ring. Qed.

Lemma exact_if_consistent : forall (fcs : list (nat * Q)) (Pc : nat -> Q) (Pf Mu rhs : Q),
  Mu == isum fcs (fun c => Pc c - Pf) ->
  rhs == - (isum fcs (fun _ => 1)) * Pf ->
  Mu - isum fcs Pc - rhs == 0.
Proof. intros fcs Pc Pf Mu rhs H1 H2. rewrite H1, H2, isum_minus_const. ring. Qed.

(* ------------------------------------------------------------------ rows of the assembled system *)
Lemma linear_pressures : forall I r theta,
  length theta = 4%nat ->
  (forall m, (m < 4)%nat -> rdot r (basis I m) == 0) ->
  rdot r (xstate I theta) == 0.
Proof.
  intros I r theta Hlen H. unfold xstate.
  rewrite (lin_exact (basis I) theta r (fun _ => 0)).
  - apply tsum_zero.
  - intros m Hm. apply H. lia.
Qed.

Lemma candidate_form : forall I a0 a1 a2 c0 j,
  xstate I [a0; a1; a2; c0] j ==
    if (j <? i_nf I)%nat then a0 * ustar I 0 j + a1 * ustar I 1 j + a2 * ustar I 2 j
    else if (j <? i_nf I + i_nc I)%nat then
      a0 * coord (i_cc I) (j - i_nf I) 0 + a1 * coord (i_cc I) (j - i_nf I) 1
      + a2 * coord (i_cc I) (j - i_nf I) 2 + c0
    else if (j =? i_nf I + i_nc I + 0)%nat then a0
    else if (j =? i_nf I + i_nc I + 1)%nat then a1
    else if (j =? i_nf I + i_nc I + 2)%nat then a2
    else if (j =? i_nf I + i_nc I + 3)%nat then c0 else 0.
Proof.
  intros I a0 a1 a2 c0 j. unfold xstate, lin_state, tsum, basis, pbasis.
  change (0 <? 3)%nat with true. change (1 <? 3)%nat with true.
  change (2 <? 3)%nat with true. change (3 <? 3)%nat with false.
  destruct (j <? i_nf I)%nat; [ring|].
  destruct (j <? i_nf I + i_nc I)%nat; [ring|].
  destruct (Nat.eqb_spec j (i_nf I + i_nc I + 0)); [subst j|].
  { repeat match goal with |- context [Nat.eqb ?a ?b] =>
      destruct (Nat.eqb_spec a b); try lia end. ring. }
  destruct (Nat.eqb_spec j (i_nf I + i_nc I + 1)); [subst j|].
  { repeat match goal with |- context [Nat.eqb ?a ?b] =>
      destruct (Nat.eqb_spec a b); try lia end. ring. }
  destruct (Nat.eqb_spec j (i_nf I + i_nc I + 2)); [subst j|].
  { repeat match goal with |- context [Nat.eqb ?a ?b] =>
      destruct (Nat.eqb_spec a b); try lia end. ring. }
  destruct (Nat.eqb_spec j (i_nf I + i_nc I + 3)); ring.
Qed.

Definition res_bound (tol : Q) (I : inst) (r : row) (theta : list Q) : Q :=
  tsum 0 (map Qabs theta) (fun m => tol * (1 + rabs r (basis I m))).

Lemma certificate_sound : forall tol I,
  check tol I = true ->
  (forall x, length x = i_nf I -> ~ allzero x -> 0 < quad (sympart (i_nf I) (i_mass I)) x)
  /\ (forall r theta, In r (i_rows I) -> length theta = 4%nat ->
        Qabs (rdot r (xstate I theta)) <= res_bound tol I r theta).
Proof.
  intros tol I H. unfold check in H.
  apply andb_prop in H. destruct H as [H Hcons].
  apply andb_prop in H. destruct H as [H Hres].
  apply andb_prop in H. destruct H as [Hshape Hmass].
  unfold mass_ok in Hmass. apply andb_prop in Hmass. destruct Hmass as [Hsym Hspd].
  split.
  - intros x Hlen Hnz. apply (spd_certificate (i_nf I)); assumption.
  - intros r theta Hr Hlen. unfold res_bound, xstate.
    pose proof (lin_quant (basis I) theta r (fun _ => 0)
                  (fun m => tol * (1 + rabs r (basis I m)))) as HQ.
    rewrite tsum_zero in HQ.
    setoid_replace (rdot r (lin_state (basis I) theta))
      with (rdot r (lin_state (basis I) theta) - 0) by ring.
    apply HQ. intros m Hm.
    unfold resid_ok in Hres. rewrite forallb_forall in Hres.
    specialize (Hres r Hr). rewrite forallb_forall in Hres.
    apply near_sound. apply Hres. apply in_seq. lia.
Qed.

Lemma c18_unique_solution : forall I theta (x : vec),
  length theta = 4%nat ->
  (forall r, In r (i_rows I) -> rdot r (xstate I theta) == 0) ->
  (forall v : vec, (forall j, (i_nf I + i_nc I <= j)%nat -> v j == 0) ->
                   (forall r, In r (i_rows I) -> rdot r v == 0) ->
                   forall j, (j < i_nf I + i_nc I)%nat -> v j == 0) ->
  (forall j, (i_nf I + i_nc I <= j)%nat -> x j == xstate I theta j) ->
  (forall r, In r (i_rows I) -> rdot r x == 0) ->
  forall j, (j < i_nf I + i_nc I)%nat -> x j == xstate I theta j.
Proof.
  intros I theta x Hlen Hsol Hker Hbnd Hres j Hj.
  apply (unique_solution (i_rows I) (i_nf I + i_nc I) x (xstate I theta) Hker Hbnd); [|exact Hj].
  intros r Hr. rewrite (Hres r Hr), (Hsol r Hr). reflexivity.
Qed.

(* ------------------------------------------------------------------ a concrete instance:
   the real pp.RT0 system on the 1-D grid with nodes 0, 1, 3 (2 cells, 3 faces), K = 2,
   all Dirichlet: assembled 5 x 5 matrix with the right-hand sides of the basis pressures
   x, y, z, 1 in columns 5..8, and the 3 x 3 mass matrix (entries h/(3K), h/(6K): not dyadic,
   so the certificates hold within the tolerance 1e-9, not exactly). *)
Definition ex_inst : inst :=
(mk_inst 3%nat 2%nat [[(2 # 1); (0 # 1); (0 # 1)]; [(0 # 1); (2 # 1); (0 # 1)]; [(0 # 1); (0 # 1);
(2 # 1)]] [[(1 # 1); (0 # 1); (0 # 1)]; [(1 # 1); (0 # 1); (0 # 1)]; [(1 # 1); (0 # 1); (0 # 1)]]
[[(1 # 2); (0 # 1); (0 # 1)]; [(2 # 1); (0 # 1); (0 # 1)]] [[(0 # 1); (0 # 1); (0 # 1)]; [(1 # 1);
(0 # 1); (0 # 1)]; [(3 # 1); (0 # 1); (0 # 1)]] [[(0%nat, ((-1) # 1))]; [(0%nat, (1 # 1)); (1%nat,
((-1) # 1))]; [(1%nat, (1 # 1))]] [[(0%nat, (6004799503160661 # 36028797018963968)); (1%nat,
(6004799503160661 # 72057594037927936)); (3%nat, (1 # 1)); (8%nat, ((-1) # 1))]; [(0%nat,
(6004799503160661 # 72057594037927936)); (1%nat, (1 # 2)); (2%nat, (6004799503160661 #
36028797018963968)); (3%nat, ((-1) # 1)); (4%nat, (1 # 1))]; [(1%nat, (6004799503160661 #
36028797018963968)); (2%nat, (6004799503160661 # 18014398509481984)); (4%nat, ((-1) # 1)); (5%nat,
(3 # 1)); (8%nat, (1 # 1))]; [(0%nat, (1 # 1)); (1%nat, ((-1) # 1))]; [(1%nat, (1 # 1)); (2%nat,
((-1) # 1))]] [[(6004799503160661 # 36028797018963968); (6004799503160661 # 72057594037927936); (0 #
1)]; [(6004799503160661 # 72057594037927936); (1 # 2); (6004799503160661 # 36028797018963968)]; [(0
# 1); (6004799503160661 # 36028797018963968); (6004799503160661 # 18014398509481984)]]).

Lemma ex_inst_check : check (1 # 1000000000) ex_inst = true.
Proof. vm_compute. reflexivity. Qed.
