(* C18 — proofs (over exact rationals). *)
From Coq Require Import List ZArith QArith Qabs Bool Arith Lia Lqa.
Import ListNotations.
From PP Require Import Lib.RowLin Lib.SumF Lib.RowInv Model.C18.
Local Open Scope Q_scope.

(* ------------------------------------------------------------------ vectors *)
Definition allzero (x : list Q) : Prop := Forall (fun q => q == 0) x.

Lemma allzero_dec : forall x, {allzero x} + {~ allzero x}.
Proof. intros x. apply Forall_dec. intros q. apply Qeq_dec. Qed.

Lemma dotv_nil_r : forall x, dotv x [] == 0.
Proof. destruct x; reflexivity. Qed.

Lemma dotv_comm : forall x y, dotv x y == dotv y x.
Proof.
  induction x as [|a x IH]; intros y; destruct y as [|b y]; cbn [dotv]; try reflexivity.
  rewrite IH. ring.
Qed.

Lemma dotv_allzero_l : forall x y, allzero x -> dotv x y == 0.
Proof.
  induction x as [|a x IH]; intros y H; [reflexivity|].
  destruct y as [|b y]; [reflexivity|]. cbn [dotv].
  inversion H as [|? ? Ha Hx]; subst. rewrite Ha, (IH y Hx). ring.
Qed.

Lemma dotv_allzero_r : forall x y, allzero y -> dotv x y == 0.
Proof. intros x y H. rewrite dotv_comm. apply dotv_allzero_l. exact H. Qed.

Lemma dotv_cons_r : forall r x0 x', dotv r (x0 :: x') == hd0 r * x0 + dotv (tl r) x'.
Proof. intros r x0 x'. destruct r as [|c C]; cbn [dotv hd0 tl]; ring. Qed.

Lemma dotv_map_plus : forall (rows : mat) x (f g : list Q -> Q),
  dotv x (map (fun r => f r + g r) rows) == dotv x (map f rows) + dotv x (map g rows).
Proof.
  induction rows as [|r rows IH]; intros x f g; cbn [map].
  - rewrite !dotv_nil_r. ring.
  - destruct x as [|a x]; cbn [dotv]; [ring|]. rewrite IH. ring.
Qed.

Lemma dotv_map_scal : forall (rows : mat) x k (f : list Q -> Q),
  dotv x (map (fun r => k * f r) rows) == k * dotv x (map f rows).
Proof.
  induction rows as [|r rows IH]; intros x k f; cbn [map].
  - rewrite !dotv_nil_r. ring.
  - destruct x as [|a x]; cbn [dotv]; [ring|]. rewrite IH. ring.
Qed.

Lemma dotv_map_ext : forall (rows : mat) x (f g : list Q -> Q),
  (forall r, In r rows -> f r == g r) -> dotv x (map f rows) == dotv x (map g rows).
Proof.
  induction rows as [|r rows IH]; intros x f g H; cbn [map]; [reflexivity|].
  destruct x as [|a x]; cbn [dotv]; [reflexivity|].
  rewrite (H r) by (left; reflexivity).
  rewrite (IH x f g) by (intros r' Hr'; apply H; right; exact Hr'). reflexivity.
Qed.

Lemma dotv_eqlist : forall u v x, qlist_eqb u v = true -> dotv u x == dotv v x.
Proof.
  induction u as [|a u IH]; intros v x H; destruct v as [|b v]; cbn in H; try discriminate.
  - reflexivity.
  - apply andb_prop in H. destruct H as [Hab Huv]. apply Qeq_bool_iff in Hab.
    destruct x as [|c x]; cbn [dotv]; [reflexivity|]. rewrite Hab, (IH v x Huv). reflexivity.
Qed.

Lemma dotv_axpy : forall x k v u,
  length u = length x -> length v = length x ->
  dotv (axpy k v u) x == dotv u x - k * dotv v x.
Proof.
  induction x as [|x0 x IH]; intros k v u Hu Hv.
  - destruct u; [|discriminate]. destruct v; [|discriminate]. cbn. ring.
  - destruct u as [|u0 u]; [discriminate|]. destruct v as [|v0 v]; [discriminate|].
    cbn [axpy hd0 tl dotv]. rewrite Qred_correct.
    rewrite IH by (cbn [length] in *; lia). ring.
Qed.

(* ------------------------------------------------------------------ one elimination step *)
Lemma quad_step : forall a b rows x0 x',
  ~ a == 0 ->
  length b = length x' ->
  (forall r, In r rows -> length (tl r) = length x') ->
  qlist_eqb (map hd0 rows) b = true ->
  quad ((a :: b) :: rows) (x0 :: x')
  == a * ((x0 + dotv b x' / a) * (x0 + dotv b x' / a)) + quad (schur a b rows) x'.
Proof.
  intros a b rows x0 x' Ha Hb Hrows Hsym.
  unfold quad, mulmv, schur. cbn [map dotv]. rewrite map_map.
  (* the rows below the first one *)
  rewrite (dotv_map_ext rows x' (fun r => dotv r (x0 :: x'))
             (fun r => x0 * hd0 r + dotv (tl r) x')).
  2:{ intros r _. rewrite dotv_cons_r. ring. }
  rewrite (dotv_map_plus rows x' (fun r => x0 * hd0 r) (fun r => dotv (tl r) x')).
  rewrite (dotv_map_scal rows x' x0 hd0).
  (* the Schur complement *)
  rewrite (dotv_map_ext rows x' (fun r => dotv (axpy (hd0 r / a) b (tl r)) x')
             (fun r => dotv (tl r) x' + (- (dotv b x' / a)) * hd0 r)).
  2:{ intros r Hr. rewrite dotv_axpy by (try apply Hrows; assumption). field. exact Ha. }
  rewrite (dotv_map_plus rows x' (fun r => dotv (tl r) x') (fun r => - (dotv b x' / a) * hd0 r)).
  rewrite (dotv_map_scal rows x' (- (dotv b x' / a)) hd0).
  assert (E : dotv x' (map hd0 rows) == dotv b x').
  { rewrite dotv_comm. apply dotv_eqlist. exact Hsym. }
  rewrite E. field. exact Ha.
Qed.

Lemma Qlt_bool_true : forall a b, Qlt_bool a b = true -> a < b.
Proof.
  intros a b H. unfold Qlt_bool in H. apply negb_true_iff in H.
  apply Qnot_le_lt. intros Hle. apply Qle_bool_iff in Hle. congruence.
Qed.

Lemma spd_certificate : forall n M x,
  spd_chk n M = true -> length x = n -> ~ allzero x -> 0 < quad M x.
Proof.
  induction n as [|n IH]; intros M x H Hlen Hnz.
  - destruct x; [|discriminate]. exfalso. apply Hnz. constructor.
  - destruct M as [|[|a b] rows]; cbn [spd_chk] in H; try discriminate.
    apply andb_prop in H. destruct H as [H Hrec].
    apply andb_prop in H. destruct H as [H Hsym].
    apply andb_prop in H. destruct H as [H Hlens].
    apply andb_prop in H. destruct H as [H Hnrows].
    apply andb_prop in H. destruct H as [Hpos Hlb].
    apply Qlt_bool_true in Hpos. apply Nat.eqb_eq in Hlb.
    destruct x as [|x0 x']; [discriminate|]. cbn [length] in Hlen.
    assert (Hx' : length x' = n) by lia.
    assert (Ha : ~ a == 0) by lra.
    rewrite quad_step; [| exact Ha | lia | | exact Hsym].
    2:{ intros r Hr. rewrite forallb_forall in Hlens. specialize (Hlens r Hr).
        apply Nat.eqb_eq in Hlens. destruct r; cbn [length tl] in *; lia. }
    set (t := x0 + dotv b x' / a).
    assert (Hsq : 0 <= t * t) by nra.
    destruct (allzero_dec x') as [Hz|Hnz'].
    + (* the tail vanishes: x0 is not zero *)
      assert (Hq : quad (schur a b rows) x' == 0) by (unfold quad; apply dotv_allzero_l; exact Hz).
      assert (Hb0 : dotv b x' == 0) by (apply dotv_allzero_r; exact Hz).
      assert (Hx0 : ~ x0 == 0).
      { intros E. apply Hnz. constructor; assumption. }
      rewrite Hq. unfold t. rewrite Hb0.
      setoid_replace (x0 + 0 / a) with x0 by (field; exact Ha).
      assert (0 < x0 * x0) by nra. nra.
    + pose proof (IH (schur a b rows) x' Hrec Hx' Hnz') as Hs. nra.
Qed.

(* ------------------------------------------------------------------ quadratic forms as double sums;
   x^T M x = x^T sym(M) x *)
Lemma dotv_sumf : forall n x y, length x = n -> length y = n ->
  dotv x y == sumf n (fun i => nth i x 0 * nth i y 0).
Proof.
  induction n as [|n IH]; intros x y Hx Hy.
  - destruct x; [|discriminate]. reflexivity.
  - destruct x as [|a x]; [discriminate|]. destruct y as [|b y]; [discriminate|].
    cbn [dotv sumf nth]. rewrite (IH x y) by (cbn [length] in *; lia). reflexivity.
Qed.

Lemma nth_mulmv : forall M x i, nth i (mulmv M x) 0 = dotv (nth i M []) x.
Proof.
  intros M x i. unfold mulmv.
  change 0 with ((fun r => dotv r x) []) at 1. apply map_nth.
Qed.

Definition wf (n : nat) (M : mat) : Prop := length M = n /\ forall r, In r M -> length r = n.

Lemma wf_b_true : forall n M, wf_b n M = true -> wf n M.
Proof.
  intros n M H. unfold wf_b in H. apply andb_prop in H. destruct H as [H1 H2].
  apply Nat.eqb_eq in H1. split; [exact H1|].
  intros r Hr. rewrite forallb_forall in H2. apply Nat.eqb_eq. apply H2. exact Hr.
Qed.

Lemma quad_sumf : forall n M x, wf n M -> length x = n ->
  quad M x == sumf n (fun i => sumf n (fun j => nth i x 0 * ent M i j * nth j x 0)).
Proof.
  intros n M x [HM Hrows] Hx. unfold quad.
  rewrite (dotv_sumf n x (mulmv M x) Hx) by (unfold mulmv; rewrite map_length; exact HM).
  apply sumf_ext. intros i Hi.
  rewrite nth_mulmv.
  rewrite (dotv_sumf n (nth i M []) x) by (try exact Hx; apply Hrows; apply nth_In; lia).
  rewrite <- sumf_scal. apply sumf_ext. intros j Hj. unfold ent. ring.
Qed.

Lemma nth_map_seq : forall (A : Type) (F : nat -> A) n i d,
  (i < n)%nat -> nth i (map F (seq 0 n)) d = F i.
Proof.
  intros A F n i d Hi.
  rewrite (nth_indep _ d (F 0%nat)) by (rewrite map_length, seq_length; exact Hi).
  rewrite map_nth. rewrite seq_nth by exact Hi. reflexivity.
Qed.

Lemma wf_sympart : forall n M, wf n (sympart n M).
Proof.
  intros n M. unfold sympart. split.
  - rewrite map_length, seq_length. reflexivity.
  - intros r Hr. apply in_map_iff in Hr. destruct Hr as [i [E _]]. subst r.
    rewrite map_length, seq_length. reflexivity.
Qed.

Lemma ent_sympart : forall n M i j, (i < n)%nat -> (j < n)%nat ->
  ent (sympart n M) i j == (ent M i j + ent M j i) / 2.
Proof.
  intros n M i j Hi Hj. unfold ent at 1. unfold sympart.
  rewrite (nth_map_seq _ _ n i [] Hi), (nth_map_seq _ _ n j 0 Hj).
  apply Qred_correct.
Qed.

Lemma quad_sympart : forall n M x, wf n M -> length x = n ->
  quad (sympart n M) x == quad M x.
Proof.
  intros n M x HM Hx.
  rewrite (quad_sumf n (sympart n M) x (wf_sympart n M) Hx), (quad_sumf n M x HM Hx).
  set (F := fun i j => nth i x 0 * ent M i j * nth j x 0).
  rewrite (sumf_ext n _ (fun i => sumf n (fun j => (1 # 2) * F i j) + sumf n (fun j => (1 # 2) * F j i))).
  2:{ intros i Hi. rewrite <- sumf_plus. apply sumf_ext. intros j Hj.
      rewrite (ent_sympart n M i j Hi Hj). unfold F. field. }
  rewrite sumf_plus.
  rewrite (sumf_swap n n (fun i j => (1 # 2) * F j i)).
  fold F.
  rewrite <- sumf_plus. apply sumf_ext. intros i Hi.
  rewrite <- sumf_plus. apply sumf_ext. intros j Hj.
  unfold F. ring.
Qed.

Lemma mass_spd : forall tol n M x,
  mass_ok tol n M = true -> length x = n -> ~ allzero x -> 0 < quad M x.
Proof.
  intros tol n M x H Hx Hnz. unfold mass_ok in H.
  apply andb_prop in H. destruct H as [H Hspd].
  apply andb_prop in H. destruct H as [Hwf Hsym].
  rewrite <- (quad_sympart n M x (wf_b_true n M Hwf) Hx).
  apply (spd_certificate n); assumption.
Qed.

(* ------------------------------------------------------------------ Gram form *)
Lemma gram_spd : forall (W B : mat) (x : list Q),
  (forall y, length y = length B -> ~ allzero y -> 0 < quad W y) ->
  (allzero (mulmv B x) -> allzero x) ->
  ~ allzero x -> 0 < gram_quad W B x.
Proof.
  intros W B x HW HB Hx. unfold gram_quad. apply HW.
  - unfold mulmv. apply map_length.
  - intros Hz. apply Hx. apply HB. exact Hz.
Qed.

(* ------------------------------------------------------------------ the Gram matrix B^T W B *)
Definition wfr (m n : nat) (B : mat) : Prop := length B = m /\ forall r, In r B -> length r = n.

Lemma wfr_b_true : forall m n B, wfr_b m n B = true -> wfr m n B.
Proof.
  intros m n B H. unfold wfr_b in H. apply andb_prop in H. destruct H as [H1 H2].
  apply Nat.eqb_eq in H1. split; [exact H1|].
  intros r Hr. rewrite forallb_forall in H2. apply Nat.eqb_eq. apply H2. exact Hr.
Qed.

Lemma wf_gram_mat : forall n m W B, wf n (gram_mat n m W B).
Proof.
  intros n m W B. unfold gram_mat. split.
  - rewrite map_length, seq_length. reflexivity.
  - intros r Hr. apply in_map_iff in Hr. destruct Hr as [i [E _]]. subst r.
    rewrite map_length, seq_length. reflexivity.
Qed.

Lemma ent_gram_mat : forall n m W B i j, (i < n)%nat -> (j < n)%nat ->
  ent (gram_mat n m W B) i j
  == sumf m (fun k => sumf m (fun l => ent B k i * ent W k l * ent B l j)).
Proof.
  intros n m W B i j Hi Hj. unfold ent at 1. unfold gram_mat.
  rewrite (nth_map_seq _ _ n i [] Hi), (nth_map_seq _ _ n j 0 Hj). apply Qred_correct.
Qed.

Lemma nth_mulmv_sumf : forall m n B x k, wfr m n B -> length x = n -> (k < m)%nat ->
  nth k (mulmv B x) 0 == sumf n (fun i => ent B k i * nth i x 0).
Proof.
  intros m n B x k [HB Hrows] Hx Hk. rewrite nth_mulmv.
  rewrite (dotv_sumf n (nth k B []) x) by (try exact Hx; apply Hrows; apply nth_In; lia).
  apply sumf_ext. intros i _. unfold ent. reflexivity.
Qed.

Lemma sumf_mul3 : forall n (a b : nat -> Q) w,
  sumf n a * w * sumf n b == sumf n (fun i => sumf n (fun j => a i * w * b j)).
Proof.
  intros n a b w.
  transitivity (sumf n (fun i => a i * (w * sumf n b))).
  - rewrite (sumf_scal_r n (w * sumf n b) a). ring.
  - apply sumf_ext. intros i _. rewrite (sumf_scal n (a i * w) b). ring.
Qed.

Lemma gram_identity : forall n m W B x,
  wf m W -> wfr m n B -> length x = n ->
  quad (gram_mat n m W B) x == gram_quad W B x.
Proof.
  intros n m W B x HW HB Hx. unfold gram_quad.
  assert (Hy : length (mulmv B x) = m) by (unfold mulmv; rewrite map_length; exact (proj1 HB)).
  rewrite (quad_sumf n _ x (wf_gram_mat n m W B) Hx), (quad_sumf m W _ HW Hy).
  set (F := fun i j k l => nth i x 0 * ent B k i * ent W k l * ent B l j * nth j x 0).
  (* left: sum_i sum_j sum_k sum_l F *)
  transitivity (sumf n (fun i => sumf n (fun j => sumf m (fun k => sumf m (fun l => F i j k l))))).
  { apply sumf_ext. intros i Hi. apply sumf_ext. intros j Hj.
    rewrite (ent_gram_mat n m W B i j Hi Hj).
    rewrite <- sumf_scal, <- sumf_scal_r. apply sumf_ext. intros k _.
    rewrite <- sumf_scal, <- sumf_scal_r. apply sumf_ext. intros l _. unfold F. ring. }
  (* right: sum_k sum_l sum_i sum_j F *)
  symmetry.
  transitivity (sumf m (fun k => sumf m (fun l => sumf n (fun i => sumf n (fun j => F i j k l))))).
  { apply sumf_ext. intros k Hk. apply sumf_ext. intros l Hl.
    rewrite (nth_mulmv_sumf m n B x k HB Hx Hk), (nth_mulmv_sumf m n B x l HB Hx Hl).
    rewrite sumf_mul3. apply sumf_ext. intros i _. apply sumf_ext. intros j _. unfold F. ring. }
  (* reorder k l i j -> i j k l *)
  transitivity (sumf m (fun k => sumf n (fun i => sumf m (fun l => sumf n (fun j => F i j k l))))).
  { apply sumf_ext. intros k _. apply (sumf_swap m n (fun l i => sumf n (fun j => F i j k l))). }
  rewrite (sumf_swap m n (fun k i => sumf m (fun l => sumf n (fun j => F i j k l)))).
  apply sumf_ext. intros i _.
  transitivity (sumf m (fun k => sumf n (fun j => sumf m (fun l => F i j k l)))).
  { apply sumf_ext. intros k _. apply (sumf_swap m n (fun l j => F i j k l)). }
  apply (sumf_swap m n (fun k j => sumf m (fun l => F i j k l))).
Qed.

Lemma gram_spd_full : forall n m W B x,
  wf m W -> wfr m n B ->
  (forall y, length y = m -> ~ allzero y -> 0 < quad W y) ->
  (allzero (mulmv B x) -> allzero x) ->
  length x = n -> ~ allzero x -> 0 < quad (gram_mat n m W B) x.
Proof.
  intros n m W B x HW HB HPD Hinj Hx Hnz.
  rewrite (gram_identity n m W B x HW HB Hx).
  apply gram_spd; [|exact Hinj|exact Hnz].
  intros y Hy. apply HPD. rewrite Hy. exact (proj1 HB).
Qed.

Lemma wf_idmat : forall m, wf m (idmat m).
Proof.
  intros m. unfold idmat. split.
  - rewrite map_length, seq_length. reflexivity.
  - intros r Hr. apply in_map_iff in Hr. destruct Hr as [i [E _]]. subst r.
    rewrite map_length, seq_length. reflexivity.
Qed.

(* B^T B positive definite  =>  B injective *)
Lemma injective_from_gram : forall n m B x,
  wfr m n B -> spd_chk n (gram_mat n m (idmat m) B) = true -> length x = n ->
  allzero (mulmv B x) -> allzero x.
Proof.
  intros n m B x HB Hspd Hx Hz.
  destruct (allzero_dec x) as [H|H]; [exact H|exfalso].
  pose proof (spd_certificate n _ x Hspd Hx H) as Hpos.
  rewrite (gram_identity n m (idmat m) B x (wf_idmat m) HB Hx) in Hpos.
  unfold gram_quad, quad in Hpos. rewrite (dotv_allzero_l _ _ Hz) in Hpos. lra.
Qed.

(* the checker of one captured local matrix: its exact factorised form B^T W B is positive definite *)
Lemma local_sound : forall tol L x,
  local_ok tol L = true -> length x = l_n L -> ~ allzero x ->
  0 < quad (gram_mat (l_n L) (l_m L) (l_W L) (l_B L)) x.
Proof.
  intros tol L x H Hx Hnz. unfold local_ok in H.
  apply andb_prop in H. destruct H as [H Hclose].
  apply andb_prop in H. destruct H as [H HwfA].
  apply andb_prop in H. destruct H as [H Hinj].
  apply andb_prop in H. destruct H as [HB HW].
  apply wfr_b_true in HB.
  assert (HwfW : wf (l_m L) (l_W L)).
  { unfold mass_ok in HW. apply andb_prop in HW. destruct HW as [HW _].
    apply andb_prop in HW. destruct HW as [HW _]. apply wf_b_true. exact HW. }
  apply (gram_spd_full (l_n L) (l_m L) (l_W L) (l_B L) x HwfW HB); try assumption.
  - intros y Hy Hy0. apply (mass_spd tol (l_m L)); assumption.
  - apply (injective_from_gram (l_n L) (l_m L)); assumption.
Qed.

(* ------------------------------------------------------------------ the flux equation of one face *)
Lemma isum_minus_const : forall ic (g : nat -> Q) k,
  isum ic (fun c => g c - k) == isum ic g - isum ic (fun _ => 1) * k.
Proof. induction ic as [|fs ic IH]; intros; cbn [isum]; [ring|]. rewrite IH. ring. Qed.

Lemma exact_if_consistent : forall (fcs : list (nat * Q)) (Pc : nat -> Q) (Pf Mu rhs : Q),
  Mu == isum fcs (fun c => Pc c - Pf) ->
  rhs == - (isum fcs (fun _ => 1)) * Pf ->
  Mu - isum fcs Pc - rhs == 0.
Proof. intros fcs Pc Pf Mu rhs H1 H2. rewrite H1, H2, isum_minus_const. ring. Qed.

(* ------------------------------------------------------------------ rows of the assembled system *)
Lemma linear_pressures : forall I r theta,
  length theta = 4%nat ->
  (forall m, (m < 4)%nat -> rdot r (basis I m) == 0) ->
  rdot r (xstate I theta) == 0.
Proof.
  intros I r theta Hlen H. unfold xstate.
  rewrite (lin_exact (basis I) theta r (fun _ => 0)).
  - apply tsum_zero.
  - intros m Hm. apply H. lia.
Qed.

Lemma candidate_form : forall I a0 a1 a2 c0 j,
  xstate I [a0; a1; a2; c0] j ==
    if (j <? i_nf I)%nat then a0 * ustar I 0 j + a1 * ustar I 1 j + a2 * ustar I 2 j
    else if (j <? i_nf I + i_nc I)%nat then
      a0 * coord (i_cc I) (j - i_nf I) 0 + a1 * coord (i_cc I) (j - i_nf I) 1
      + a2 * coord (i_cc I) (j - i_nf I) 2 + c0
    else if (j =? i_nf I + i_nc I + 0)%nat then a0
    else if (j =? i_nf I + i_nc I + 1)%nat then a1
    else if (j =? i_nf I + i_nc I + 2)%nat then a2
    else if (j =? i_nf I + i_nc I + 3)%nat then c0 else 0.
Proof.
  intros I a0 a1 a2 c0 j. unfold xstate, lin_state, tsum, basis, pbasis.
  change (0 <? 3)%nat with true. change (1 <? 3)%nat with true.
  change (2 <? 3)%nat with true. change (3 <? 3)%nat with false.
  destruct (j <? i_nf I)%nat; [ring|].
  destruct (j <? i_nf I + i_nc I)%nat; [ring|].
  destruct (Nat.eqb_spec j (i_nf I + i_nc I + 0)); [subst j|].
  { repeat match goal with |- context [Nat.eqb ?a ?b] =>
      destruct (Nat.eqb_spec a b); try lia end. ring. }
  destruct (Nat.eqb_spec j (i_nf I + i_nc I + 1)); [subst j|].
  { repeat match goal with |- context [Nat.eqb ?a ?b] =>
      destruct (Nat.eqb_spec a b); try lia end. ring. }
  destruct (Nat.eqb_spec j (i_nf I + i_nc I + 2)); [subst j|].
  { repeat match goal with |- context [Nat.eqb ?a ?b] =>
      destruct (Nat.eqb_spec a b); try lia end. ring. }
  destruct (Nat.eqb_spec j (i_nf I + i_nc I + 3)); ring.
Qed.

Definition res_bound (tol : Q) (I : inst) (r : row) (theta : list Q) : Q :=
  tsum 0 (map Qabs theta) (fun m => tol * (1 + rabs r (basis I m))).

Lemma certificate_sound : forall tol I,
  check tol I = true ->
  (forall x, length x = i_nf I -> ~ allzero x -> 0 < quad (i_mass I) x)
  /\ (forall r theta, In r (i_rows I) -> length theta = 4%nat ->
        Qabs (rdot r (xstate I theta)) <= res_bound tol I r theta).
Proof.
  intros tol I H. unfold check in H.
  apply andb_prop in H. destruct H as [H Hloc].
  apply andb_prop in H. destruct H as [H Hinv].
  apply andb_prop in H. destruct H as [H Htie].
  apply andb_prop in H. destruct H as [H Hcons].
  apply andb_prop in H. destruct H as [H Hres].
  apply andb_prop in H. destruct H as [Hshape Hmass].
  split.
  - intros x Hlen Hnz. apply (mass_spd tol (i_nf I)); assumption.
  - intros r theta Hr Hlen. unfold res_bound, xstate.
    pose proof (lin_quant (basis I) theta r (fun _ => 0)
                  (fun m => tol * (1 + rabs r (basis I m)))) as HQ.
    rewrite tsum_zero in HQ.
    setoid_replace (rdot r (lin_state (basis I) theta))
      with (rdot r (lin_state (basis I) theta) - 0) by ring.
    apply HQ. intros m Hm.
    unfold resid_ok in Hres. rewrite forallb_forall in Hres.
    specialize (Hres r Hr). rewrite forallb_forall in Hres.
    apply near_sound. apply Hres. apply in_seq. lia.
Qed.

Lemma c18_unique_solution : forall I theta (x : vec),
  length theta = 4%nat ->
  (forall r, In r (i_rows I) -> rdot r (xstate I theta) == 0) ->
  (forall v : vec, (forall j, (i_nf I + i_nc I <= j)%nat -> v j == 0) ->
                   (forall r, In r (i_rows I) -> rdot r v == 0) ->
                   forall j, (j < i_nf I + i_nc I)%nat -> v j == 0) ->
  (forall j, (i_nf I + i_nc I <= j)%nat -> x j == xstate I theta j) ->
  (forall r, In r (i_rows I) -> rdot r x == 0) ->
  forall j, (j < i_nf I + i_nc I)%nat -> x j == xstate I theta j.
Proof.
  intros I theta x Hlen Hsol Hker Hbnd Hres j Hj.
  apply (unique_solution (i_rows I) (i_nf I + i_nc I) x (xstate I theta) Hker Hbnd); [|exact Hj].
  intros r Hr. rewrite (Hres r Hr), (Hsol r Hr). reflexivity.
Qed.

(* ------------------------------------------------------------------ RT0 on an interval partition *)
Lemma cand_flux : forall xs k a c0 j, (j < S (ncell xs))%nat -> rt0_cand xs k a c0 j = - k * a.
Proof.
  intros xs k a c0 j Hj. unfold rt0_cand.
  destruct (Nat.ltb_spec j (S (ncell xs))); [reflexivity|lia].
Qed.

Lemma cand_pres : forall xs k a c0 c,
  rt0_cand xs k a c0 (S (ncell xs) + c)%nat = a * ((xn xs c + xn xs (S c)) / 2) + c0.
Proof.
  intros xs k a c0 c. unfold rt0_cand.
  destruct (Nat.ltb_spec (S (ncell xs) + c)%nat (S (ncell xs))); [lia|].
  replace (S (ncell xs) + c - S (ncell xs))%nat with c by lia. reflexivity.
Qed.

Lemma rt0_1d_exact : forall xs k a c0 i,
  ~ k == 0 -> (1 <= ncell xs)%nat -> (i < S (ncell xs) + ncell xs)%nat ->
  rdot (rt0_row xs k i) (rt0_cand xs k a c0)
  == rt0_rhs xs (a * xn xs 0 + c0) (a * xn xs (ncell xs) + c0) i.
Proof.
  intros xs k a c0 i Hk Hn Hi. unfold rt0_row, rt0_rhs.
  set (n := ncell xs) in *.
  destruct (Nat.ltb_spec i (S n)) as [Hf|Hc].
  - (* flux equation of face i *)
    unfold rt0_flux_row. fold n.
    destruct i as [|g].
    + change (0 <? 0)%nat with false. cbv iota.
      destruct (Nat.ltb_spec 0 n) as [_|]; [|lia].
      cbn [app rdot fst snd Nat.eqb].
      rewrite (cand_flux xs k a c0 0) by (fold n; lia).
      rewrite (cand_flux xs k a c0 1) by (fold n; lia).
      unfold n. rewrite cand_pres. unfold hlen. field. exact Hk.
    + change (0 <? S g)%nat with true. change (S g =? 0)%nat with false. cbv iota. cbn [pred].
      destruct (Nat.ltb_spec (S g) n) as [Hin|Hlast].
      * destruct (Nat.eqb_spec (S g) n) as [E|_]; [lia|].
        cbn [app rdot fst snd].
        rewrite (cand_flux xs k a c0 g) by (fold n; lia).
        rewrite (cand_flux xs k a c0 (S g)) by (fold n; lia).
        rewrite (cand_flux xs k a c0 (S (S g))) by (fold n; lia).
        unfold n. rewrite !cand_pres. unfold hlen. field. exact Hk.
      * assert (E : S g = n) by lia.
        destruct (Nat.eqb_spec (S g) n) as [_|Hne]; [|lia].
        cbn [app rdot fst snd].
        rewrite (cand_flux xs k a c0 g) by (fold n; lia).
        rewrite (cand_flux xs k a c0 (S g)) by (fold n; lia).
        unfold n. rewrite cand_pres. fold n. rewrite <- E. unfold hlen. field. exact Hk.
  - (* mass conservation in cell i - (n+1) *)
    destruct (Nat.eqb_spec i 0) as [E|_]; [lia|].
    destruct (Nat.eqb_spec i n) as [E|_]; [lia|].
    unfold rt0_cell_row. cbn [rdot fst snd].
    rewrite (cand_flux xs k a c0 (i - S n)) by (fold n; lia).
    rewrite (cand_flux xs k a c0 (S (i - S n))) by (fold n; lia).
    ring.
Qed.

(* rows of the 1-D model applied to an arbitrary vector *)
Lemma row_cell : forall xs k (v : vec) c, (c < ncell xs)%nat ->
  rdot (rt0_row xs k (S (ncell xs) + c)) v == v c - v (S c).
Proof.
  intros xs k v c Hc. unfold rt0_row.
  destruct (Nat.ltb_spec (S (ncell xs) + c) (S (ncell xs))); [lia|].
  replace (S (ncell xs) + c - S (ncell xs))%nat with c by lia.
  unfold rt0_cell_row. cbn [rdot fst snd]. ring.
Qed.

Lemma row_f0 : forall xs k (v : vec), (1 <= ncell xs)%nat ->
  rdot (rt0_row xs k 0) v
  == hlen xs 0 / (3 * k) * v 0%nat + hlen xs 0 / (6 * k) * v 1%nat + v (S (ncell xs) + 0)%nat.
Proof.
  intros xs k v Hn. unfold rt0_row.
  destruct (Nat.ltb_spec 0 (S (ncell xs))); [|lia].
  unfold rt0_flux_row. change (0 <? 0)%nat with false. cbv iota.
  destruct (Nat.ltb_spec 0 (ncell xs)); [|lia].
  cbn [app rdot fst snd]. ring.
Qed.

Lemma row_fi : forall xs k (v : vec) g, (S g < ncell xs)%nat ->
  rdot (rt0_row xs k (S g)) v
  == hlen xs g / (6 * k) * v g + hlen xs g / (3 * k) * v (S g)
     + hlen xs (S g) / (3 * k) * v (S g) + hlen xs (S g) / (6 * k) * v (S (S g))
     + v (S (ncell xs) + S g)%nat - v (S (ncell xs) + g)%nat.
Proof.
  intros xs k v g Hg. unfold rt0_row.
  destruct (Nat.ltb_spec (S g) (S (ncell xs))); [|lia].
  unfold rt0_flux_row. change (0 <? S g)%nat with true. cbv iota. cbn [pred].
  destruct (Nat.ltb_spec (S g) (ncell xs)); [|lia].
  cbn [app rdot fst snd]. ring.
Qed.

Lemma row_fn : forall xs k (v : vec) g, S g = ncell xs ->
  rdot (rt0_row xs k (S g)) v
  == hlen xs g / (6 * k) * v g + hlen xs g / (3 * k) * v (S g) - v (S (ncell xs) + g)%nat.
Proof.
  intros xs k v g Hg. unfold rt0_row.
  destruct (Nat.ltb_spec (S g) (S (ncell xs))); [|lia].
  unfold rt0_flux_row. change (0 <? S g)%nat with true. cbv iota. cbn [pred].
  destruct (Nat.ltb_spec (S g) (ncell xs)); [lia|].
  cbn [app rdot fst snd]. ring.
Qed.

(* the 1-D model system has a trivial kernel: the discrete solution is unique *)
Lemma rt0_1d_kernel : forall xs k (v : vec),
  ~ k == 0 -> (1 <= ncell xs)%nat -> ~ xn xs (ncell xs) == xn xs 0 ->
  (forall i, (i < S (ncell xs) + ncell xs)%nat -> rdot (rt0_row xs k i) v == 0) ->
  forall j, (j < S (ncell xs) + ncell xs)%nat -> v j == 0.
Proof.
  intros xs k v Hk Hn Hx H.
  set (n := ncell xs) in *.
  (* all fluxes are equal *)
  assert (HU : forall f, (f <= n)%nat -> v f == v 0%nat).
  { induction f as [|f IH]; intros Hf; [reflexivity|].
    pose proof (H (S n + f)%nat ltac:(lia)) as E. unfold n in E.
    rewrite (row_cell xs k v f) in E by (fold n; lia).
    rewrite <- (IH ltac:(lia)). lra. }
  set (U := v 0%nat) in *.
  (* the pressures are determined by U *)
  assert (HP : forall f, (f < n)%nat ->
     v (S n + f)%nat == - (U / (2 * k)) * (xn xs (S f) + xn xs f - 2 * xn xs 0)).
  { induction f as [|f IH]; intros Hf.
    - pose proof (H 0%nat ltac:(lia)) as E. rewrite (row_f0 xs k v) in E by (fold n; lia).
      fold n in E. rewrite (HU 1%nat ltac:(lia)) in E. fold U in E. unfold hlen in E.
      assert (E2 : v (S n + 0)%nat
                   == - ((xn xs 1 - xn xs 0) / (3 * k) * U + (xn xs 1 - xn xs 0) / (6 * k) * U)) by lra.
      rewrite E2. field. exact Hk.
    - pose proof (H (S f) ltac:(lia)) as E. rewrite (row_fi xs k v f) in E by (fold n; lia).
      fold n in E. rewrite (HU f ltac:(lia)), (HU (S f) ltac:(lia)), (HU (S (S f)) ltac:(lia)) in E.
      rewrite (IH ltac:(lia)) in E. unfold hlen in E.
      assert (E2 : v (S n + S f)%nat
                   == - ((xn xs (S f) - xn xs f) / (6 * k) * U + (xn xs (S f) - xn xs f) / (3 * k) * U
                         + (xn xs (S (S f)) - xn xs (S f)) / (3 * k) * U
                         + (xn xs (S (S f)) - xn xs (S f)) / (6 * k) * U)
                      + - (U / (2 * k)) * (xn xs (S f) + xn xs f - 2 * xn xs 0)) by lra.
      rewrite E2. field. exact Hk. }
  (* the last flux equation forces U = 0 *)
  assert (HU0 : U == 0).
  { destruct n as [|g] eqn:En; [lia|].
    pose proof (H (S g) ltac:(lia)) as E.
    rewrite (row_fn xs k v g) in E by (unfold n in En; lia).
    replace (ncell xs) with (S g) in E by (unfold n in En; lia).
    rewrite (HU g ltac:(lia)), (HU (S g) ltac:(lia)), (HP g ltac:(lia)) in E.
    unfold hlen in E.
    assert (E2 : U * ((xn xs (S g) - xn xs 0) / k) == 0).
    { rewrite <- E. field. exact Hk. }
    destruct (Qeq_dec U 0) as [E0|N0]; [exact E0|exfalso].
    apply Qmult_integral in E2. destruct E2 as [E2|E2]; [contradiction|].
    apply Hx.
    assert (E3 : xn xs (S g) - xn xs 0 == 0).
    { setoid_replace (xn xs (S g) - xn xs 0) with ((xn xs (S g) - xn xs 0) / k * k) by (field; exact Hk).
      rewrite E2. ring. }
    lra. }
  intros j Hj.
  destruct (Nat.le_gt_cases j n) as [Hle|Hgt].
  - rewrite (HU j Hle). exact HU0.
  - replace j with (S n + (j - S n))%nat by lia.
    rewrite (HP (j - S n)%nat ltac:(lia)), HU0. field. exact Hk.
Qed.

Lemma rt0_1d_unique : forall xs k a c0 (x : vec),
  ~ k == 0 -> (1 <= ncell xs)%nat -> ~ xn xs (ncell xs) == xn xs 0 ->
  (forall i, (i < S (ncell xs) + ncell xs)%nat ->
     rdot (rt0_row xs k i) x == rt0_rhs xs (a * xn xs 0 + c0) (a * xn xs (ncell xs) + c0) i) ->
  forall j, (j < S (ncell xs) + ncell xs)%nat -> x j == rt0_cand xs k a c0 j.
Proof.
  intros xs k a c0 x Hk Hn Hx H j Hj.
  assert (E : x j - rt0_cand xs k a c0 j == 0).
  { apply (rt0_1d_kernel xs k (fun j => x j - rt0_cand xs k a c0 j) Hk Hn Hx); [|exact Hj].
    intros i Hi. rewrite rdot_sub, (H i Hi), (rt0_1d_exact xs k a c0 i Hk Hn Hi). ring. }
  lra.
Qed.

(* with a left-inverse certificate the "trivial kernel" hypothesis holds on the instance *)
Lemma nonsingular_certificate : forall I N d,
  inv_ok (i_nf I + i_nc I) (i_rows I) N d = true ->
  forall v : vec, (forall j, (i_nf I + i_nc I <= j)%nat -> v j == 0) ->
                  (forall r, In r (i_rows I) -> rdot r v == 0) ->
                  forall j, (j < i_nf I + i_nc I)%nat -> v j == 0.
Proof. intros I N d H v. apply (left_inverse_kernel _ _ N d v H). Qed.

(* ------------------------------------------------------------------ a concrete instance:
   the real pp.RT0 system on the 1-D grid with nodes 0, 1, 3 (2 cells, 3 faces), K = 2,
   all Dirichlet: assembled 5 x 5 matrix with the right-hand sides of the basis pressures
   x, y, z, 1 in columns 5..8, and the 3 x 3 mass matrix (entries h/(3K), h/(6K): not dyadic,
   so the certificates hold within the tolerance 1e-9, not exactly). *)
Definition ex_inst : inst :=
(mk_inst 3%nat 2%nat [[(2 # 1); (0 # 1); (0 # 1)]; [(0 # 1); (2 # 1); (0 # 1)]; [(0 # 1); (0 # 1);
(2 # 1)]] [[(1 # 1); (0 # 1); (0 # 1)]; [(0 # 1); (0 # 1); (0 # 1)]; [(0 # 1); (0 # 1); (0 # 1)]]
[[(1 # 1); (0 # 1); (0 # 1)]; [(1 # 1); (0 # 1); (0 # 1)]; [(1 # 1); (0 # 1); (0 # 1)]] [[(1 # 2);
(0 # 1); (0 # 1)]; [(2 # 1); (0 # 1); (0 # 1)]] [[(0 # 1); (0 # 1); (0 # 1)]; [(1 # 1); (0 # 1); (0
# 1)]; [(3 # 1); (0 # 1); (0 # 1)]] [[(0%nat, ((-1) # 1))]; [(0%nat, (1 # 1)); (1%nat, ((-1) # 1))];
[(1%nat, (1 # 1))]] [[(0%nat, (6004799503160661 # 36028797018963968)); (1%nat, (6004799503160661 #
72057594037927936)); (3%nat, (1 # 1)); (8%nat, ((-1) # 1))]; [(0%nat, (6004799503160661 #
72057594037927936)); (1%nat, (1 # 2)); (2%nat, (6004799503160661 # 36028797018963968)); (3%nat,
((-1) # 1)); (4%nat, (1 # 1))]; [(1%nat, (6004799503160661 # 36028797018963968)); (2%nat,
(6004799503160661 # 18014398509481984)); (4%nat, ((-1) # 1)); (5%nat, (3 # 1)); (8%nat, (1 # 1))];
[(0%nat, (1 # 1)); (1%nat, ((-1) # 1))]; [(1%nat, (1 # 1)); (2%nat, ((-1) # 1))]]
[[(6004799503160661 # 36028797018963968); (6004799503160661 # 72057594037927936); (0 # 1)];
[(6004799503160661 # 72057594037927936); (1 # 2); (6004799503160661 # 36028797018963968)]; [(0 # 1);
(6004799503160661 # 36028797018963968); (6004799503160661 # 18014398509481984)]] [(0 # 1); (1 # 1);
(3 # 1)] (Some ([[(5192296858534827628530496329220096 # 1); (5192296858534827628530496329220096 #
1); (5192296858534827628530496329220096 # 1); (6490371073168534319490338297741312 # 1);
(2596148429267413670150060088754176 # 1)]; [(5192296858534827628530496329220096 # 1);
(5192296858534827628530496329220096 # 1); (5192296858534827628530496329220096 # 1);
((-1298074214633706835075030044377088) # 1); (2596148429267413670150060088754176 # 1)];
[(5192296858534827628530496329220096 # 1); (5192296858534827628530496329220096 # 1);
(5192296858534827628530496329220096 # 1); ((-1298074214633706835075030044377088) # 1);
((-5192296858534827484415308253364224) # 1)]; [(6490371073168534319490338297741312 # 1);
((-1298074214633706835075030044377088) # 1); ((-1298074214633706835075030044377088) # 1);
((-973555660975280096282275017479511) # 1); ((-649037107316853381508718003224578) # 1)];
[(2596148429267413670150060088754176 # 1); (2596148429267413670150060088754176 # 1);
((-5192296858534827484415308253364224) # 1); ((-649037107316853381508718003224578) # 1);
((-1298074214633706811055832031734444) # 1)]], (7788445287802241154565368342118400 # 1))) [(mk_local
2%nat 2%nat [[(6004799503160661 # 36028797018963968); (6004799503160661 # 72057594037927936)];
[(6004799503160661 # 72057594037927936); (6004799503160661 # 36028797018963968)]]
[[(6004799503160661 # 36028797018963968); (6004799503160661 # 72057594037927936)];
[(6004799503160661 # 72057594037927936); (6004799503160661 # 36028797018963968)]] [[(0 # 1); (1 #
1)]; [(1 # 1); (0 # 1)]]); (mk_local 2%nat 2%nat [[(6004799503160661 # 18014398509481984);
(6004799503160661 # 36028797018963968)]; [(6004799503160661 # 36028797018963968); (6004799503160661
# 18014398509481984)]] [[(6004799503160661 # 72057594037927936); (6004799503160661 #
144115188075855872)]; [(6004799503160661 # 144115188075855872); (6004799503160661 #
72057594037927936)]] [[(0 # 1); (2 # 1)]; [(2 # 1); (0 # 1)]])]).

Lemma ex_inst_check : check (1 # 1000000000) ex_inst = true.
Proof. vm_compute. reflexivity. Qed.

Lemma check_inv : forall tol I N d,
  check tol I = true -> i_inv I = Some (N, d) ->
  inv_ok (i_nf I + i_nc I) (i_rows I) N d = true.
Proof.
  intros tol I N d H E. unfold check in H. apply andb_prop in H. destruct H as [H _].
  apply andb_prop in H. destruct H as [_ H].
  unfold inv_cert_ok in H. rewrite E in H. exact H.
Qed.

Lemma check_tie_1d : forall tol I,
  check tol I = true -> i_xs I <> [] ->
  agree_1d tol (i_xs I) (nth 0 (nth 0 (i_K I) []) 0) (i_rows I) = true.
Proof.
  intros tol I H E. unfold check in H. apply andb_prop in H. destruct H as [H _].
  apply andb_prop in H. destruct H as [H _].
  apply andb_prop in H. destruct H as [_ H]. unfold tie_1d_ok in H.
  destruct (i_xs I) as [|x xs]; [congruence|].
  apply andb_prop in H. destruct H as [_ H]. exact H.
Qed.

Lemma check_locals : forall tol I L,
  check tol I = true -> In L (i_locals I) -> local_ok tol L = true.
Proof.
  intros tol I L H HL. unfold check in H. apply andb_prop in H. destruct H as [_ H].
  rewrite forallb_forall in H. apply H. exact HL.
Qed.
