(* C35 — block diagonal matrices with square blocks: block_diag_matrix and
   csr/csc_matrix_from_dense_blocks. *)
From Coq Require Import List ZArith Bool Arith Lia.
Import ListNotations.
From PP Require Import Lib.Csr Model.C35 Proofs.C35 Proofs.C35_rl Proofs.C35_csr Proofs.C35_bdi.

(* one descriptor (first column, width) per matrix row *)
Fixpoint row_descr (off : nat) (sz : list nat) : list (nat * nat) :=
  match sz with [] => [] | s :: r => repeat (off, s) s ++ row_descr (off + s) r end.

Definition seqd (d : nat * nat) : list nat := seq (fst d) (snd d).

(* l cut into consecutive pieces of the given lengths *)
Fixpoint chunks {E} (lens : list nat) (l : list E) : list (list E) :=
  match lens with [] => [] | n :: r => firstn n l :: chunks r (skipn n l) end.

(* dense reference: row t holds its piece of the values in the columns of its block *)
Definition sq_dense (N : nat) (ds : list (nat * nat)) (vals : list Z) : list (list Z) :=
  map2 (fun d c => repeat 0%Z (fst d) ++ c ++ repeat 0%Z (N - fst d - snd d)) ds (chunks (map snd ds) vals).

Definition sq_csr (N : nat) (ds : list (nat * nat)) (vals : list Z) : csr :=
  {| nmaj := length ds; nmin := N; indptr := 0 :: cumsumN 0 (map snd ds);
     indices := concat (map seqd ds); data := vals |}.

Lemma sq_entries : forall ds (vals : list Z), length vals = sum_nat (map snd ds) ->
  combine (concat (map seqd ds)) vals
  = concat (map2 (fun d c => combine (seqd d) c) ds (chunks (map snd ds) vals)).
Proof.
  induction ds as [|d r IH]; intros vals H; [reflexivity|].
  cbn [map concat chunks map2 sum_nat fold_right] in *.
  rewrite <- (firstn_skipn (snd d) vals) at 1.
  rewrite combine_app'.
  - f_equal. apply IH. rewrite skipn_length. unfold sum_nat in *. lia.
  - unfold seqd. rewrite seq_length, firstn_length. unfold sum_nat in *. lia.
Qed.

Lemma sq_lengths : forall ds (vals : list Z), length vals = sum_nat (map snd ds) ->
  map (@length _) (map2 (fun d c => combine (seqd d) c) ds (chunks (map snd ds) vals)) = map snd ds.
Proof.
  induction ds as [|d r IH]; intros vals H; [reflexivity|].
  cbn [map chunks map2 sum_nat fold_right] in *. f_equal.
  - rewrite combine_length. unfold seqd. rewrite seq_length, firstn_length. unfold sum_nat in *. lia.
  - apply IH. rewrite skipn_length. unfold sum_nat in *. lia.
Qed.

Lemma sq_rows : forall N ds vals, length vals = sum_nat (map snd ds) ->
  rows (sq_csr N ds vals) = map2 (fun d c => combine (seqd d) c) ds (chunks (map snd ds) vals).
Proof.
  intros N ds vals H. unfold rows, entries, sq_csr. cbn [indptr indices data].
  rewrite sq_entries by exact H. rewrite <- (sq_lengths ds vals H) at 1.
  apply (rows_of_concat _ [] 0). reflexivity.
Qed.

(* the dense form of one row *)
Lemma entry_sum_mid : forall (chunk : list Z) off,
  map (fun j => entry_sum j (combine (seq off (length chunk)) chunk)) (seq off (length chunk)) = chunk.
Proof.
  induction chunk as [|v chunk IH]; intros off; [reflexivity|].
  cbn [length seq combine map]. f_equal.
  - cbn [entry_sum fold_right fst snd]. rewrite Nat.eqb_refl.
    fold (entry_sum off (combine (seq (S off) (length chunk)) chunk)).
    rewrite entry_sum_out; [lia|].
    apply Forall_forall. intros [j w] Hin. apply in_combine_l in Hin. apply in_seq in Hin. cbn [fst]. lia.
  - rewrite <- (IH (S off)) at 2. apply map_ext_in. intros j Hj. apply in_seq in Hj.
    cbn [entry_sum fold_right fst snd].
    replace (off =? j) with false by (symmetry; apply Nat.eqb_neq; lia). reflexivity.
Qed.

Lemma dense_row_sq : forall N off (chunk : list Z), off + length chunk <= N ->
  dense_row N (combine (seq off (length chunk)) chunk)
  = repeat 0%Z off ++ chunk ++ repeat 0%Z (N - off - length chunk).
Proof.
  intros N off chunk H. unfold dense_row.
  replace N with (off + (length chunk + (N - off - length chunk))) at 1 by lia.
  rewrite !seq_app, !map_app. cbn [Nat.add]. f_equal; [|f_equal].
  - assert (G : forall k s, s + k <= off ->
              map (fun j => entry_sum j (combine (seq off (length chunk)) chunk)) (seq s k) = repeat 0%Z k).
    { induction k as [|k IHk]; intros s Hs; [reflexivity|]. cbn [seq map repeat].
      rewrite IHk by lia. f_equal. apply entry_sum_out.
      apply Forall_forall. intros [j w] Hin. apply in_combine_l in Hin. apply in_seq in Hin. cbn [fst]. lia. }
    apply G. lia.
  - apply entry_sum_mid.
  - apply (zero_tail _ (off + length chunk)); [|lia].
    apply Forall_forall. intros [j w] Hin. apply in_combine_l in Hin. apply in_seq in Hin. cbn [fst]. lia.
Qed.

Theorem sq_to_dense : forall N ds vals, length vals = sum_nat (map snd ds) ->
  Forall (fun d => fst d + snd d <= N) ds ->
  to_dense (sq_csr N ds vals) = sq_dense N ds vals.
Proof.
  intros N ds vals H HN. unfold to_dense, sq_dense. rewrite sq_rows by exact H. cbn [nmin sq_csr].
  revert vals H. induction ds as [|d r IH]; intros vals H; [reflexivity|].
  inversion HN as [|d' r' Hd Hr]; subst d' r'.
  cbn [map chunks map2 sum_nat fold_right] in *. f_equal.
  - assert (Hl : length (firstn (snd d) vals) = snd d) by (rewrite firstn_length; unfold sum_nat in *; lia).
    unfold seqd. rewrite <- Hl at 1 3. rewrite dense_row_sq by lia. rewrite Hl. reflexivity.
  - apply IH; [exact Hr|]. rewrite skipn_length. unfold sum_nat in *. lia.
Qed.

(* ================================================================ block_diag_matrix *)

Lemma row_descr_bounds : forall sz off N, off + sum_nat sz = N ->
  Forall (fun d => fst d + snd d <= N) (row_descr off sz).
Proof.
  induction sz as [|s r IH]; intros off N H; [constructor|]. cbn [row_descr sum_nat fold_right] in *.
  apply Forall_app. split.
  - apply Forall_forall. intros d Hd. apply repeat_spec in Hd. subst d. cbn [fst snd]. unfold sum_nat in *. lia.
  - apply IH. unfold sum_nat in *. lia.
Qed.

Lemma row_descr_length : forall sz off, length (row_descr off sz) = sum_nat sz.
Proof.
  induction sz as [|s r IH]; intros off; [reflexivity|]. cbn [row_descr sum_nat fold_right].
  rewrite app_length, repeat_length, IH. reflexivity.
Qed.

Lemma row_descr_widths : forall sz off, map snd (row_descr off sz) = flat_map (fun s => repeat s s) sz.
Proof.
  induction sz as [|s r IH]; intros off; [reflexivity|]. cbn [row_descr flat_map].
  rewrite map_app, map_repeat', IH. reflexivity.
Qed.

Lemma row_descr_indices : forall sz off, concat (map seqd (row_descr off sz)) = bdi1_spec off sz.
Proof.
  induction sz as [|s r IH]; intros off; [reflexivity|]. cbn [row_descr bdi1_spec].
  rewrite map_app, concat_app, map_repeat', IH. reflexivity.
Qed.

Lemma widths_sum : forall sz, sum_nat (flat_map (fun s => repeat s s) sz) = sum_nat (map (fun s => s * s) sz).
Proof.
  induction sz as [|s r IH]; [reflexivity|]. cbn [flat_map map sum_nat fold_right].
  unfold sum_nat in *. rewrite fold_right_app.
  assert (G : forall k acc, fold_right Nat.add acc (repeat s k) = k * s + acc)
    by (induction k; intros; simpl; [reflexivity|rewrite IHk; lia]).
  rewrite G, IH. reflexivity.
Qed.

Lemma rldecode_sizes : forall sz : list nat,
  rldecode sz (map Z.of_nat sz) = Ok (flat_map (fun s => repeat s s) sz).
Proof.
  intros sz. rewrite rldecode_spec by (rewrite map_length; lia). f_equal.
  induction sz as [|s r IH]; [reflexivity|]. cbn [map combine flat_map fst snd].
  rewrite Nat2Z.id, IH. reflexivity.
Qed.

Theorem bdm_dense : forall vals sz, length vals = sum_nat (map (fun s => s * s) sz) ->
  exists C, block_diag_matrix vals sz = Ok C /\ nmaj C = sum_nat sz /\ nmin C = sum_nat sz /\
            to_dense C = sq_dense (sum_nat sz) (row_descr 0 sz) vals.
Proof.
  intros vals sz H. unfold block_diag_matrix. rewrite rldecode_sizes.
  eexists. split; [reflexivity|]. split; [reflexivity|]. split; [reflexivity|].
  rewrite bdi1_closed_form, <- row_descr_indices, <- (row_descr_widths sz 0).
  rewrite <- (row_descr_length sz 0) at 1.
  apply (sq_to_dense (sum_nat sz) (row_descr 0 sz) vals).
  - rewrite row_descr_widths, widths_sum. exact H.
  - apply row_descr_bounds. reflexivity.
Qed.

(* ================================================================ from dense blocks *)

Lemma arange_step : forall bs n a,
  map (fun k => k * bs) (seq a (S n)) = (a * bs) :: cumsumN (a * bs) (repeat bs n).
Proof.
  induction n as [|n IH]; intros a; [reflexivity|].
  change (seq a (S (S n))) with (a :: seq (S a) (S n)). cbn [map repeat cumsumN].
  rewrite IH. f_equal. f_equal; [lia|]. f_equal. lia.
Qed.

Lemma widths_uniform : forall bs nb, flat_map (fun s => repeat s s) (repeat bs nb) = repeat bs (nb * bs).
Proof.
  induction nb as [|nb IH]; [reflexivity|]. cbn [repeat flat_map]. rewrite IH, <- repeat_app.
  f_equal.
Qed.

Lemma sum_repeat : forall x k, sum_nat (repeat x k) = k * x.
Proof. induction k; simpl; [reflexivity|]. unfold sum_nat in *. simpl. rewrite IHk. reflexivity. Qed.

Lemma map2_app : forall {A B C} (f : A -> B -> C) a1 a2 b1 b2, length a1 = length b1 ->
  map2 f (a1 ++ a2) (b1 ++ b2) = map2 f a1 b1 ++ map2 f a2 b2.
Proof.
  induction a1 as [|x a1 IH]; intros a2 [|y b1] b2 H; simpl in H; try discriminate; [reflexivity|].
  simpl. f_equal. apply IH. lia.
Qed.

Lemma map2_add_const : forall (X : list nat) c, map2 Nat.add X (repeat c (length X)) = map (fun k => k + c) X.
Proof. induction X as [|x X IH]; intros c; simpl; [reflexivity|]. rewrite IH. reflexivity. Qed.

Lemma map_concat_repeat : forall {A B} (f : A -> B) (l : list A) k,
  map f (concat (repeat l k)) = concat (repeat (map f l) k).
Proof. induction k; simpl; [reflexivity|]. rewrite map_app, IHk. reflexivity. Qed.

Lemma dense_indices_gen : forall bs nb a,
  map2 Nat.add (tile (tile (seq 0 bs) bs) nb)
       (flat_map (fun j => repeat (j * bs) (bs * bs)) (seq a nb))
  = bdi1_spec (a * bs) (repeat bs nb).
Proof.
  intros bs. induction nb as [|nb IH]; intros a; [reflexivity|].
  unfold tile in *. cbn [repeat concat seq flat_map bdi1_spec].
  assert (HX : length (concat (repeat (seq 0 bs) bs)) = bs * bs)
    by (rewrite concat_repeat_length, seq_length; reflexivity).
  rewrite map2_app by (rewrite repeat_length; exact HX).
  rewrite <- HX at 1. rewrite map2_add_const, map_concat_repeat.
  replace (map (fun k => k + a * bs) (seq 0 bs)) with (seq (a * bs) bs).
  2:{ rewrite (map_ext _ (fun k => a * bs + k)) by (intros; lia). rewrite map_add_seq. f_equal. lia. }
  f_equal. rewrite IH. f_equal. lia.
Qed.

Lemma incr_form : forall bs nb,
  map (fun b => b * bs)
      (flat_map (fun j => map (fun r => nth j r 0) (repeat (seq 0 nb) (bs * bs))) (seq 0 nb))
  = flat_map (fun j => repeat (j * bs) (bs * bs)) (seq 0 nb).
Proof.
  intros bs nb. rewrite !flat_map_concat_map, concat_map, map_map. f_equal.
  apply map_ext_in. intros j Hj. apply in_seq in Hj.
  rewrite map_repeat', map_repeat'. f_equal. rewrite seq_nth by lia. reflexivity.
Qed.

Lemma indices_unit : forall nb a, bdi1_spec a (repeat 1 nb) = seq a nb.
Proof.
  induction nb as [|nb IH]; intros a; [reflexivity|]. cbn [repeat bdi1_spec seq concat app].
  f_equal. rewrite IH. f_equal. lia.
Qed.

Theorem dense_blocks_dense : forall vals bs nb, 1 <= bs -> length vals = bs * bs * nb ->
  exists C, csx_from_dense_blocks vals bs nb = Ok C /\ nmaj C = nb * bs /\ nmin C = nb * bs /\
            to_dense C = sq_dense (nb * bs) (row_descr 0 (repeat bs nb)) vals.
Proof.
  intros vals bs nb Hbs Hlen. unfold csx_from_dense_blocks.
  rewrite (proj2 (Nat.eqb_eq _ _) Hlen). cbn [negb].
  eexists. split; [reflexivity|]. split; [reflexivity|]. split; [reflexivity|].
  set (ds := row_descr 0 (repeat bs nb)).
  assert (Hw : map snd ds = repeat bs (nb * bs)) by (unfold ds; rewrite row_descr_widths; apply widths_uniform).
  assert (Hip : map (fun k => k * bs) (seq 0 (bs * nb + 1)) = 0 :: cumsumN 0 (map snd ds)).
  { rewrite Nat.add_1_r, arange_step, Hw, (Nat.mul_comm bs nb). reflexivity. }
  assert (Hidx : (if 1 <? bs
                  then map2 Nat.add (tile (tile (seq 0 bs) bs) nb)
                         (map (fun b => b * bs)
                            (flat_map (fun j => map (fun r => nth j r 0) (repeat (seq 0 nb) (bs * bs))) (seq 0 nb)))
                  else seq 0 nb) = concat (map seqd ds)).
  { unfold ds. rewrite row_descr_indices. destruct (1 <? bs) eqn:E.
    - rewrite incr_form. apply (dense_indices_gen bs nb 0).
    - apply Nat.ltb_ge in E. assert (bs = 1) by lia. subst bs. symmetry. apply indices_unit. }
  rewrite Hip, Hidx.
  assert (Hn : nb * bs = length ds) by (unfold ds; rewrite row_descr_length, sum_repeat; reflexivity).
  rewrite Hn at 1. fold (sq_csr (nb * bs) ds vals).
  apply sq_to_dense.
  - rewrite Hw, sum_repeat, Hlen. lia.
  - unfold ds. apply row_descr_bounds. rewrite sum_repeat. reflexivity.
Qed.

Lemma dense_blocks_size_error : forall vals bs nb, length vals <> bs * bs * nb ->
  csx_from_dense_blocks vals bs nb = Err ValueErr.
Proof.
  intros vals bs nb H. unfold csx_from_dense_blocks. apply Nat.eqb_neq in H. rewrite H. reflexivity.
Qed.
