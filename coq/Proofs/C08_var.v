(* C08 — proofs, second part: histories whose shifts use ARBITRARY, changing depths
   (including max_index = None, 0 and 1).  The transcribed code refines a contiguous
   window [w] (keys 0..len-1, no holes) that evolves by [wstep]; corollary: every index
   below the smallest depth used holds the i-th most recent value. *)
From Coq Require Import List ZArith Bool Arith Lia.
Import ListNotations.
From PP Require Import Model.C08 Proofs.C08.

Section ProofsVar.
  Variable V : Type.
  Variable vadd : V -> V -> V.
  Notation dict := (C08.dict V).

  Lemma nth_error_nil_none (i : nat) : @nth_error V [] i = None.
  Proof. destruct i; reflexivity. Qed.

  Lemma nth_error_skipn_add (l : list V) : forall n i,
      nth_error (skipn n l) i = nth_error l (n + i).
  Proof.
    induction l as [|a l IH]; intros n i.
    - rewrite skipn_nil, !nth_error_nil_none. reflexivity.
    - destruct n as [|n]; [reflexivity|]. cbn [skipn Nat.add nth_error]. apply IH.
  Qed.

  (* number of moves the loop makes: range(k, 0, -1) *)
  Definition kdepth (n m : nat) : nat := if n <? m then n else m - 1.

  (* the abstract shift is the parallel assignment new[i] = old[i-1] for 1 <= i <= k *)
  Lemma wshift_nth m (w : list V) i :
    w <> [] ->
    nth_error (wshift m w) i =
    if (1 <=? i) && (i <=? kdepth (length w) m) then nth_error w (i - 1) else nth_error w i.
  Proof.
    intros Hw. destruct w as [|c r]; [congruence|]. unfold wshift, kdepth.
    destruct (length (c :: r) <? m) eqn:E.
    - (* fewer values than the depth: everything moves, the window grows *)
      destruct i as [|i]; [reflexivity|].
      change (1 <=? S i) with true. cbn [andb]. replace (S i - 1) with i by lia.
      destruct (S i <=? length (c :: r)) eqn:E2; [reflexivity|].
      apply Nat.leb_gt in E2.
      change (nth_error (c :: c :: r) (S i)) with (nth_error (c :: r) i).
      assert (H1 : nth_error (c :: r) i = None) by (apply nth_error_None; lia).
      assert (H2 : nth_error (c :: r) (S i) = None) by (apply nth_error_None; lia).
      rewrite H1, H2. reflexivity.
    - apply Nat.ltb_ge in E.
      destruct m as [|m'].
      + cbn [firstn skipn app]. replace (0 - 1) with 0 by lia.
        destruct (1 <=? i) eqn:E1; destruct (i <=? 0) eqn:E2; cbn [andb]; try reflexivity.
        apply Nat.leb_le in E1, E2. lia.
      + replace (S m' - 1) with m' by lia. cbn [firstn].
        destruct i as [|i]; [reflexivity|].
        change (1 <=? S i) with true. cbn [andb]. replace (S i - 1) with i by lia.
        change (nth_error ((c :: firstn m' (c :: r)) ++ skipn (S m') (c :: r)) (S i))
          with (nth_error (firstn m' (c :: r) ++ skipn (S m') (c :: r)) i).
        assert (Hfl : length (firstn m' (c :: r)) = m') by (rewrite firstn_length; lia).
        destruct (S i <=? m') eqn:E2.
        * apply Nat.leb_le in E2.
          rewrite nth_error_app1 by lia.
          rewrite nth_error_firstn_if.
          replace (i <? m') with true by (symmetry; apply Nat.ltb_lt; lia). reflexivity.
        * apply Nat.leb_gt in E2.
          rewrite nth_error_app2 by lia. rewrite Hfl.
          rewrite nth_error_skipn_add. f_equal. lia.
  Qed.

  (* ---------- refinement to the contiguous window ---------- *)
  Definition Rw (s : option dict) (w : list V) : Prop :=
    match s with
    | None => w = []
    | Some dct => forall i, lookup dct i = nth_error w i
    end.

  (* index 0 is the only index written; reads anywhere; ANY non-negative depth, or None *)
  Definition disciplined_var (o : @op V) : Prop :=
    match o with
    | OpSet i _ => i = 0%Z
    | OpAdd i _ => i = 0%Z
    | OpGet i => (0 <= i)%Z
    | OpShift (Some m) => (0 <= m)%Z
    | OpShift None => True
    end.

  Definition depth_of (w : list V) (m : option Z) : nat :=
    match m with Some m => Z.to_nat m | None => S (length w) end.

  Definition wstep (w : list V) (o : @op V) : list V :=
    match o with
    | OpSet _ v => v :: tl w
    | OpAdd _ v => match w with [] => [] | c :: r => vadd c v :: r end
    | OpGet _ => w
    | OpShift m => wshift (depth_of w m) w
    end.

  Definition wout (w : list V) (o : @op V) : @out V :=
    match o with
    | OpSet _ _ => ODone
    | OpAdd _ _ => match w with [] => OErr ValueErr | _ => ODone end
    | OpGet i => match nth_error w (Z.to_nat i) with
                 | Some v => OVal v | None => OErr KeyErr end
    | OpShift _ => ODone
    end.

  Lemma shift_range_kdepth n m (w : list V) :
    n = length w ->
    match m with Some mz => (0 <= mz)%Z | None => True end ->
    shift_range n m = down (kdepth (length w) (depth_of w m)).
  Proof.
    intros -> Hm. unfold shift_range, kdepth, depth_of. destruct m as [mz|].
    - destruct (Z.of_nat (length w) <? mz)%Z eqn:E.
      + apply Z.ltb_lt in E.
        replace (length w <? Z.to_nat mz) with true by (symmetry; apply Nat.ltb_lt; lia).
        reflexivity.
      + apply Z.ltb_ge in E.
        replace (length w <? Z.to_nat mz) with false by (symmetry; apply Nat.ltb_ge; lia).
        reflexivity.
    - replace (length w <? S (length w)) with true by (symmetry; apply Nat.ltb_lt; lia).
      reflexivity.
  Qed.

  Lemma kdepth_le n m : kdepth n m <= n.
  Proof.
    unfold kdepth. destruct (n <? m) eqn:E; [lia|]. apply Nat.ltb_ge in E. lia.
  Qed.

  Lemma step_refines_var s w o :
    Rw s w -> disciplined_var o ->
    Rw (fst (step vadd s o)) (wstep w o) /\ snd (step vadd s o) = wout w o.
  Proof.
    intros HR Hdis. destruct o as [i v|i v|i|m]; cbn [disciplined_var] in Hdis.
    - (* overwrite at index 0 *)
      subst i. cbn [step wstep wout]. change (0 <? 0)%Z with false. cbn [fst snd].
      split; [|reflexivity]. cbn [Rw]. intros i. rewrite lookup_update.
      change (Z.to_nat 0) with 0.
      destruct i as [|i]; cbn [Nat.eqb]; [reflexivity|].
      destruct s as [dct|]; cbn [Rw] in HR.
      + rewrite HR. destruct w as [|c r]; cbn [tl nth_error];
          [symmetry; apply nth_error_nil_none | reflexivity].
      + subst w. rewrite lookup_nil. cbn [tl nth_error]. symmetry. apply nth_error_nil_none.
    - (* additive write at index 0 *)
      subst i. cbn [step wstep wout]. change (0 <? 0)%Z with false.
      change (Z.to_nat 0) with 0.
      destruct s as [dct|]; cbn [Rw] in HR.
      + pose proof (HR 0) as H0. destruct w as [|c r].
        * cbn in H0. rewrite H0. cbn [fst snd]. split; [|reflexivity]. exact HR.
        * cbn in H0. rewrite H0. cbn [fst snd]. split; [|reflexivity].
          cbn [Rw]. intros i. rewrite lookup_update. destruct i as [|i]; cbn [Nat.eqb].
          -- reflexivity.
          -- rewrite HR. reflexivity.
      + subst w. rewrite lookup_nil. cbn [fst snd]. split; [|reflexivity].
        cbn [Rw]. intros i. rewrite lookup_nil. symmetry. apply nth_error_nil_none.
    - (* read *)
      cbn [step wstep wout].
      destruct (i <? 0)%Z eqn:Ei; [apply Z.ltb_lt in Ei; lia|].
      destruct s as [dct|]; cbn [Rw] in HR.
      + rewrite HR. destruct (nth_error w (Z.to_nat i)); cbn [fst snd]; split;
          try reflexivity; exact HR.
      + subst w. cbn [fst snd]. split; [reflexivity|].
        rewrite nth_error_nil_none. reflexivity.
    - (* shift with any depth *)
      cbn [step wstep wout].
      destruct s as [dct|]; cbn [Rw] in HR.
      2:{ subst w. cbn [fst snd]. split; [|reflexivity]. cbn [Rw].
          destruct m; reflexivity. }
      pose proof (num_stored_of_lookup V w dct HR) as Hn.
      assert (Hshift :
                Rw (fst (let (d', ok) := shift_loop dct (shift_range (num_stored dct) m) in
                         (Some d', if ok then @ODone V else OErr KeyErr)))
                   (wshift (depth_of w m) w) /\
                snd (let (d', ok) := shift_loop dct (shift_range (num_stored dct) m) in
                     (Some d', if ok then @ODone V else OErr KeyErr)) = ODone).
      { rewrite (shift_range_kdepth (num_stored dct) m w Hn Hdis).
        set (k := kdepth (length w) (depth_of w m)).
        destruct (shift_loop_lookup V k dct) as [d' [Hrun Hlk]].
        { intros j Hj. rewrite HR. intros Hnone. apply nth_error_None in Hnone.
          pose proof (kdepth_le (length w) (depth_of w m)). fold k in H. lia. }
        rewrite Hrun. cbn [fst snd]. split; [|reflexivity].
        cbn [Rw]. intros i. rewrite Hlk.
        destruct w as [|c r].
        - rewrite !HR, !nth_error_nil_none.
          unfold wshift. rewrite ?nth_error_nil_none.
          destruct ((1 <=? i) && (i <=? k)); reflexivity.
        - rewrite wshift_nth by discriminate. fold k. rewrite !HR. reflexivity. }
      destruct m as [mz|].
      + destruct (mz <? 0)%Z eqn:Em; [apply Z.ltb_lt in Em; lia|]. exact Hshift.
      + exact Hshift.
  Qed.

  Definition wrun (w : list V) (ops : list (@op V)) : list V := fold_left wstep ops w.

  Fixpoint wouts (w : list V) (ops : list (@op V)) : list (@out V) :=
    match ops with
    | [] => []
    | o :: r => wout w o :: wouts (wstep w o) r
    end.

  Lemma run_refines_var : forall ops s w,
      Rw s w -> Forall disciplined_var ops ->
      Rw (fst (run vadd s ops)) (wrun w ops) /\ snd (run vadd s ops) = wouts w ops.
  Proof.
    induction ops as [|o ops IH]; intros s w HR Hall.
    - cbn. split; [exact HR|reflexivity].
    - inversion Hall as [|o' ops' Ho Hops]; subst.
      destruct (step_refines_var s w o HR Ho) as [HR' Hout].
      cbn [run wrun fold_left wouts].
      destruct (step vadd s o) as [s' x] eqn:Es. cbn [fst snd] in HR', Hout.
      specialize (IH s' (wstep w o) HR' Hops). destruct IH as [IH1 IH2].
      destruct (run vadd s' ops) as [s'' xs] eqn:Er. cbn [fst snd] in *.
      split; [exact IH1|]. rewrite Hout, IH2. reflexivity.
  Qed.

  (* Every history with changing depths keeps the slot a contiguous window (keys
     0..n-1 without holes) whose contents and answers are those of [wrun]/[wouts]. *)
  Theorem contiguous_any_depths ops s0 :
    Forall disciplined_var ops -> (s0 = None \/ s0 = Some []) ->
    (match fst (run vadd s0 ops) with
     | None => wrun [] ops = []
     | Some dct => (forall i, lookup dct i = nth_error (wrun [] ops) i) /\
                   num_stored dct = length (wrun [] ops)
     end) /\
    snd (run vadd s0 ops) = wouts [] ops.
  Proof.
    intros Hall Hs0.
    assert (HR0 : Rw s0 []).
    { destruct Hs0 as [-> | ->]; cbn [Rw]; [reflexivity|].
      intros i. rewrite lookup_nil. symmetry. apply nth_error_nil_none. }
    destruct (run_refines_var ops s0 [] HR0 Hall) as [HR Hout].
    split; [|exact Hout].
    destruct (fst (run vadd s0 ops)) as [dct|]; cbn [Rw] in HR; [|exact HR].
    split; [exact HR|]. apply num_stored_of_lookup. exact HR.
  Qed.

  (* ---------- freshness below the smallest depth used ---------- *)
  Definition deep_enough (d : nat) (o : @op V) : Prop :=
    match o with
    | OpShift (Some m) => (Z.of_nat d <= m)%Z
    | _ => True
    end.

  Lemma nth_error_tl (l : list V) i : nth_error (tl l) i = nth_error l (S i).
  Proof. destruct l as [|a l]; [cbn; apply nth_error_nil_none | reflexivity]. Qed.

  (* [w] and the history [h] agree below d *)
  Definition fresh (d : nat) (w h : list V) : Prop :=
    forall i, i < d -> nth_error w i = nth_error h i.

  Lemma fresh_step d w h o :
    1 <= d -> fresh d w h -> disciplined_var o -> deep_enough d o ->
    fresh d (wstep w o) (hstep vadd h o).
  Proof.
    intros Hd Hf Hdis Hdeep. pose proof (Hf 0 ltac:(lia)) as H0.
    destruct o as [j v|j v|j|m]; cbn [wstep hstep].
    - intros i Hi. destruct i as [|i]; [reflexivity|].
      cbn [nth_error]. rewrite !nth_error_tl. exact (Hf (S i) Hi).
    - destruct w as [|c r]; destruct h as [|c' r']; cbn in H0; try discriminate.
      + exact Hf.
      + injection H0 as ->. intros i Hi. destruct i as [|i]; [reflexivity|].
        exact (Hf (S i) Hi).
    - exact Hf.
    - destruct w as [|c r]; destruct h as [|c' r']; cbn in H0; try discriminate.
      + intros i Hi. unfold wshift. reflexivity.
      + injection H0 as ->. intros i Hi.
        rewrite wshift_nth by discriminate.
        destruct i as [|i]; [reflexivity|].
        change (1 <=? S i) with true. cbn [andb]. replace (S i - 1) with i by lia.
        change (nth_error (c' :: c' :: r') (S i)) with (nth_error (c' :: r') i).
        pose proof (Hf i ltac:(lia)) as Hfi.
        unfold kdepth.
        destruct (length (c' :: r) <? depth_of (c' :: r) m) eqn:E.
        * destruct (S i <=? length (c' :: r)) eqn:E2; [exact Hfi|].
          apply Nat.leb_gt in E2.
          assert (H1 : nth_error (c' :: r) i = None) by (apply nth_error_None; lia).
          assert (H2 : nth_error (c' :: r) (S i) = None) by (apply nth_error_None; lia).
          rewrite H2. rewrite <- Hfi. symmetry. exact H1.
        * apply Nat.ltb_ge in E.
          destruct m as [mz|]; cbn [depth_of deep_enough disciplined_var] in *.
          -- replace (S i <=? Z.to_nat mz - 1) with true by (symmetry; apply Nat.leb_le; lia).
             exact Hfi.
          -- lia.
  Qed.

  Lemma fresh_run d : 1 <= d -> forall ops w h,
      fresh d w h -> Forall disciplined_var ops -> Forall (deep_enough d) ops ->
      fresh d (wrun w ops) (hrun V vadd h ops).
  Proof.
    intros Hd. induction ops as [|o ops IH]; intros w h Hf Hdis Hdeep; [exact Hf|].
    inversion Hdis as [|? ? Ho Hops]; subst. inversion Hdeep as [|? ? Ho' Hops']; subst.
    cbn [wrun hrun fold_left]. apply IH; try assumption.
    apply fresh_step; assumption.
  Qed.

  (* Depth changes: as long as every shift uses a depth of at least d (possibly a
     different one each time, or None), every index below d holds the i-th most recent
     value of index 0 (the i-th entry of the history view). *)
  Theorem window_varying_depths d ops s0 :
    1 <= d -> Forall disciplined_var ops -> Forall (deep_enough d) ops ->
    (s0 = None \/ s0 = Some []) ->
    forall i, i < d ->
      match fst (run vadd s0 ops) with
      | None => hrun V vadd [] ops = []
      | Some dct => lookup dct i = nth_error (hrun V vadd [] ops) i
      end.
  Proof.
    intros Hd Hdis Hdeep Hs0 i Hi.
    destruct (contiguous_any_depths ops s0 Hdis Hs0) as [Hc _].
    assert (Hf : fresh d (wrun [] ops) (hrun V vadd [] ops)).
    { apply fresh_run; try assumption. intros j _. reflexivity. }
    destruct (fst (run vadd s0 ops)) as [dct|].
    - destruct Hc as [Hl _]. rewrite Hl. apply Hf. exact Hi.
    - (* no dictionary was ever created: no write happened *)
      pose proof (Hf 0 ltac:(lia)) as H0. rewrite Hc in H0. cbn in H0.
      destruct (hrun V vadd [] ops); [reflexivity|discriminate].
  Qed.

  (* A shift never touches indices at or beyond its depth once the window is that long
     (stale values stay where they are: the window is only as deep as the depth used). *)
  Theorem shift_leaves_deep_indices (w : list V) (m : nat) i :
    w <> [] -> m <= length w -> m <= i -> nth_error (wshift m w) i = nth_error w i.
  Proof.
    intros Hw Hlen Hmi. rewrite wshift_nth by exact Hw. unfold kdepth.
    replace (length w <? m) with false by (symmetry; apply Nat.ltb_ge; lia).
    destruct i as [|i]; [reflexivity|].
    replace (S i <=? m - 1) with false by (symmetry; apply Nat.leb_gt; lia).
    rewrite andb_false_r. reflexivity.
  Qed.
End ProofsVar.
