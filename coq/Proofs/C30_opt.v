(* C30 — global optimality of the segment-segment result (off the tolerance band).
   Scalar part: the convex quadratic
       F(s,t) = A s^2 - 2 B s t + C t^2 + 2 D s - 2 E t      (|ds + s d1 - t d2|^2 - |ds|^2)
   with A = d1.d1 > 0, C = d2.d2 > 0, A C - B^2 >= 0.  *)
From Coq Require Import Reals Lra List Bool Arith.
Import ListNotations.
From PP Require Import Model.C32 Model.C30 Proofs.C32 Proofs.C30.
Open Scope R_scope.

Section Quadratic.
  Variables A B C D E : R.
  Hypothesis HA : 0 < A.
  Hypothesis HC : 0 < C.
  Hypothesis HDelta : 0 <= A * C - B * B.

  Definition F (s t : R) : R := A * s * s - 2 * B * s * t + C * t * t + 2 * D * s - 2 * E * t.
  Definition Qf (x y : R) : R := A * x * x - 2 * B * x * y + C * y * y.

  Lemma Qf_nonneg x y : 0 <= Qf x y.
  Proof.
    unfold Qf.
    assert (H : A * (A * x * x - 2 * B * x * y + C * y * y)
                = (A * x - B * y) * (A * x - B * y) + (A * C - B * B) * (y * y)) by ring.
    assert (H1 : 0 <= (A * x - B * y) * (A * x - B * y)) by exact (Rle_0_sqr _).
    assert (H2 : 0 <= (A * C - B * B) * (y * y)).
    { apply Rmult_le_pos; [exact HDelta | exact (Rle_0_sqr y)]. }
    assert (H3 : 0 <= A * (A * x * x - 2 * B * x * y + C * y * y)) by lra.
    destruct (Rle_or_lt 0 (A * x * x - 2 * B * x * y + C * y * y)) as [G|G]; [exact G|].
    exfalso. assert (A * (A * x * x - 2 * B * x * y + C * y * y) < 0) by nra. lra.
  Qed.

  Lemma taylor s t s0 t0 :
    F s t = F s0 t0 + 2 * ((s - s0) * (A * s0 - B * t0 + D))
            + 2 * ((t - t0) * (- B * s0 + C * t0 - E)) + Qf (s - s0) (t - t0).
  Proof. unfold F, Qf. ring. Qed.

  Lemma kkt_min s t s0 t0 :
    0 <= (s - s0) * (A * s0 - B * t0 + D) -> 0 <= (t - t0) * (- B * s0 + C * t0 - E) ->
    F s0 t0 <= F s t.
  Proof. intros H1 H2. rewrite (taylor s t s0 t0). pose proof (Qf_nonneg (s - s0) (t - t0)). lra. Qed.

  Lemma convex_comb s t s' t' l :
    0 <= l <= 1 ->
    F ((1 - l) * s + l * s') ((1 - l) * t + l * t') <= (1 - l) * F s t + l * F s' t'.
  Proof.
    intros Hl.
    assert (H : (1 - l) * F s t + l * F s' t' - F ((1 - l) * s + l * s') ((1 - l) * t + l * t')
                = l * (1 - l) * Qf (s - s') (t - t')) by (unfold F, Qf; ring).
    pose proof (Qf_nonneg (s - s') (t - t')) as HQ.
    assert (0 <= l * (1 - l) * Qf (s - s') (t - t')).
    { apply Rmult_le_pos; [apply Rmult_le_pos; lra | exact HQ]. }
    lra.
  Qed.

  (* minimiser over the strip [0,1] x R *)
  Definition strip (s' t' : R) : Prop := forall s t, 0 <= s <= 1 -> F s' t' <= F s t.

  Lemma box_low s' t' s'' :
    strip s' t' -> 0 <= s' <= 1 -> t' < 0 ->
    (forall x, 0 <= x <= 1 -> F s'' 0 <= F x 0) ->
    forall s t, 0 <= s <= 1 -> 0 <= t <= 1 -> F s'' 0 <= F s t.
  Proof.
    intros Hst Hs' Ht' H1 s t Hs Ht.
    set (l := t / (t - t')).
    assert (Hd : 0 < t - t') by lra.
    assert (Hl : 0 <= l <= 1).
    { unfold l. split.
      - apply Rmult_le_pos; [lra | left; apply Rinv_0_lt_compat; lra].
      - apply Rmult_le_reg_r with (t - t'); [lra|]. unfold Rdiv.
        rewrite Rmult_assoc, Rinv_l by lra. lra. }
    assert (Hz : (1 - l) * t + l * t' = 0) by (unfold l; field; lra).
    pose proof (convex_comb s t s' t' l Hl) as HC2. rewrite Hz in HC2.
    assert (Hx : 0 <= (1 - l) * s + l * s' <= 1) by nra.
    pose proof (H1 _ Hx) as H3. pose proof (Hst s t Hs) as H4.
    assert (l * F s' t' <= l * F s t) by (apply Rmult_le_compat_l; lra).
    lra.
  Qed.

  Lemma box_high s' t' s'' :
    strip s' t' -> 0 <= s' <= 1 -> 1 < t' ->
    (forall x, 0 <= x <= 1 -> F s'' 1 <= F x 1) ->
    forall s t, 0 <= s <= 1 -> 0 <= t <= 1 -> F s'' 1 <= F s t.
  Proof.
    intros Hst Hs' Ht' H1 s t Hs Ht.
    set (l := (1 - t) / (t' - t)).
    assert (Hd : 0 < t' - t) by lra.
    assert (Hl : 0 <= l <= 1).
    { unfold l. split.
      - apply Rmult_le_pos; [lra | left; apply Rinv_0_lt_compat; lra].
      - apply Rmult_le_reg_r with (t' - t); [lra|]. unfold Rdiv.
        rewrite Rmult_assoc, Rinv_l by lra. lra. }
    assert (Hz : (1 - l) * t + l * t' = 1) by (unfold l; field; lra).
    pose proof (convex_comb s t s' t' l Hl) as HC2. rewrite Hz in HC2.
    assert (Hx : 0 <= (1 - l) * s + l * s' <= 1) by nra.
    pose proof (H1 _ Hx) as H3. pose proof (Hst s t Hs) as H4.
    assert (l * F s' t' <= l * F s t) by (apply Rmult_le_compat_l; lra).
    lra.
  Qed.

  (* minimisation in s on [0,1] at fixed t0: the three clamping cases *)
  Lemma onedim t0 s'' :
    0 <= s'' <= 1 ->
    (s'' = 0 -> 0 <= A * s'' - B * t0 + D) ->
    (s'' = 1 -> A * s'' - B * t0 + D <= 0) ->
    (0 < s'' < 1 -> A * s'' - B * t0 + D = 0) ->
    forall x, 0 <= x <= 1 -> F s'' t0 <= F x t0.
  Proof.
    intros Hs H0 H1 Hi x Hx. apply kkt_min; [|replace (t0 - t0) with 0 by ring; lra].
    destruct (Req_dec s'' 0) as [e0|n0].
    - specialize (H0 e0). subst s''. apply Rmult_le_pos; lra.
    - destruct (Req_dec s'' 1) as [e1|n1].
      + specialize (H1 e1). subst s''.
        replace ((x - 1) * (A * 1 - B * t0 + D)) with ((1 - x) * - (A * 1 - B * t0 + D)) by ring.
        apply Rmult_le_pos; lra.
      + rewrite Hi by lra. lra.
  Qed.

  Hypothesis Hpar : A * C - B * B = 0 -> C * D = B * E.

  (* ---------------------------------------------------------------- the stages *)
  Definition inv4 (q : quad R) : Prop :=
    let '(sN, sD, tN, tD) := q in 0 <= sN <= sD /\ 0 < sD /\ 0 < tD.

  Lemma stage1_strip small :
    0 < small -> (A * C - B * B <= 0 \/ small <= A * C - B * B) ->
    let '(sN, sD, tN, tD) := stage1 R RO small A B C D E in
    0 <= sN <= sD /\ 0 < sD /\ 0 < tD /\ strip (sN / sD) (tN / tD).
  Proof.
    intros Hs Hoff. unfold stage1. cbv zeta. cbn [n_ltb n_zero n_one n_add n_sub n_mul RO].
    destruct (Rltb (A * C - B * B) small) eqn:E0;
      [apply Rltb_true in E0 | apply Rltb_false in E0].
    - (* parallel: exactly parallel off the band *)
      assert (Hz : A * C - B * B = 0) by lra. specialize (Hpar Hz).
      repeat split; try lra.
      intros s t Hs01. apply kkt_min.
      + replace (A * (0 / 1) - B * (E / C) + D) with ((C * D - B * E) / C) by (field; lra).
        rewrite Hpar. replace ((B * E - B * E) / C) with 0 by (field; lra). lra.
      + replace (- B * (0 / 1) + C * (E / C) - E) with 0 by (field; lra). lra.
    - assert (Hdl : 0 < A * C - B * B) by lra.
      destruct (Rltb (B * E - C * D) 0) eqn:E1; [apply Rltb_true in E1 | apply Rltb_false in E1].
      + repeat split; try lra.
        intros s t Hs01. apply kkt_min.
        * replace (A * (0 / (A * C - B * B)) - B * (E / C) + D) with (- (B * E - C * D) / C) by (field; repeat split; lra).
          apply Rmult_le_pos; [lra|]. unfold Rdiv. apply Rmult_le_pos; [lra|].
          left. apply Rinv_0_lt_compat. lra.
        * replace (- B * (0 / (A * C - B * B)) + C * (E / C) - E) with 0 by (field; repeat split; lra). lra.
      + destruct (Rltb (A * C - B * B) (B * E - C * D)) eqn:E2; [apply Rltb_true in E2 | apply Rltb_false in E2].
        * repeat split; try lra.
          intros s t Hs01. apply kkt_min.
          -- replace (A * ((A * C - B * B) / (A * C - B * B)) - B * ((B + E) / C) + D) with (- (((B * E - C * D) - (A * C - B * B)) / C))
               by (field; repeat split; lra).
             replace ((s - (A * C - B * B) / (A * C - B * B)) * - (((B * E - C * D) - (A * C - B * B)) / C)) with ((1 - s) * (((B * E - C * D) - (A * C - B * B)) / C))
               by (field; repeat split; lra).
             apply Rmult_le_pos; [lra|]. unfold Rdiv. apply Rmult_le_pos; [lra|].
             left. apply Rinv_0_lt_compat. lra.
          -- replace (- B * ((A * C - B * B) / (A * C - B * B)) + C * ((B + E) / C) - E) with 0 by (field; repeat split; lra). lra.
        * repeat split; try lra.
          intros s t Hs01. apply kkt_min.
          -- replace (A * ((B * E - C * D) / (A * C - B * B)) - B * ((A * E - B * D) / (A * C - B * B)) + D) with 0
               by (field; repeat split; lra). lra.
          -- replace (- B * ((B * E - C * D) / (A * C - B * B)) + C * ((A * E - B * D) / (A * C - B * B)) - E) with 0
               by (field; repeat split; lra). lra.
  Qed.

  Lemma div_unit n d : 0 <= n <= d -> 0 < d -> 0 <= n / d <= 1.
  Proof.
    intros Hn Hd. split.
    - apply Rmult_le_pos; [lra | left; apply Rinv_0_lt_compat; lra].
    - apply Rmult_le_reg_r with d; [lra|]. unfold Rdiv.
      rewrite Rmult_assoc, Rinv_l by lra. lra.
  Qed.

  Lemma stage2_spec sN sD tN tD :
    0 < sD -> tN < 0 ->
    exists sN' sD', stage2 R RO A D (sN, sD, tN, tD) = (sN', sD', 0, tD) /\
      0 <= sN' <= sD' /\ 0 < sD' /\
      forall x, 0 <= x <= 1 -> F (sN' / sD') 0 <= F x 0.
  Proof.
    intros HsD Ht. unfold stage2. cbn [n_ltb n_zero n_opp RO].
    replace (Rltb tN 0) with true by (symmetry; apply Rltb_true; lra).
    destruct (Rltb 0 D) eqn:E1; [apply Rltb_true in E1 | apply Rltb_false in E1].
    - exists 0, sD. split; [reflexivity|]. split; [lra|]. split; [lra|].
      replace (0 / sD) with 0 by (field; lra).
      apply onedim; intros; lra.
    - destruct (Rltb A (- D)) eqn:E2; [apply Rltb_true in E2 | apply Rltb_false in E2].
      + exists sD, sD. split; [reflexivity|]. split; [lra|]. split; [lra|].
        replace (sD / sD) with 1 by (field; lra).
        apply onedim; intros; lra.
      + exists (- D), A. split; [reflexivity|]. split; [lra|]. split; [lra|].
        pose proof (div_unit (- D) A ltac:(lra) HA) as Hu.
        apply onedim; [exact Hu| | |]; intros;
          replace (A * (- D / A) - B * 0 + D) with 0 by (field; lra); lra.
  Qed.

  Lemma stage2_id q : (let '(_, _, tN, _) := q in 0 <= tN) -> stage2 R RO A D q = q.
  Proof.
    destruct q as [[[sN sD] tN] tD]. intros H. unfold stage2. cbn [n_ltb n_zero RO].
    replace (Rltb tN 0) with false by (symmetry; apply Rltb_false; lra). reflexivity.
  Qed.

  Lemma stage3_spec sN sD tN tD :
    0 < sD -> tD < tN ->
    exists sN' sD', stage3 R RO A B D (sN, sD, tN, tD) = (sN', sD', tD, tD) /\
      0 <= sN' <= sD' /\ 0 < sD' /\
      forall x, 0 <= x <= 1 -> F (sN' / sD') 1 <= F x 1.
  Proof.
    intros HsD Ht. unfold stage3. cbv zeta. cbn [n_ltb n_zero n_opp n_add RO].
    replace (Rltb tD tN) with true by (symmetry; apply Rltb_true; lra).
    destruct (Rltb (- D + B) 0) eqn:E1; [apply Rltb_true in E1 | apply Rltb_false in E1].
    - exists 0, sD. split; [reflexivity|]. split; [lra|]. split; [lra|].
      replace (0 / sD) with 0 by (field; lra).
      apply onedim; intros; lra.
    - destruct (Rltb A (- D + B)) eqn:E2; [apply Rltb_true in E2 | apply Rltb_false in E2].
      + exists sD, sD. split; [reflexivity|]. split; [lra|]. split; [lra|].
        replace (sD / sD) with 1 by (field; lra).
        apply onedim; intros; lra.
      + exists (- D + B), A. split; [reflexivity|]. split; [lra|]. split; [lra|].
        pose proof (div_unit (- D + B) A ltac:(lra) HA) as Hu.
        apply onedim; [exact Hu| | |]; intros;
          replace (A * ((- D + B) / A) - B * 1 + D) with 0 by (field; lra); lra.
  Qed.

  Lemma stage3_id q : (let '(_, _, tN, tD) := q in tN <= tD) -> stage3 R RO A B D q = q.
  Proof.
    destruct q as [[[sN sD] tN] tD]. intros H. unfold stage3. cbv zeta. cbn [n_ltb RO].
    replace (Rltb tD tN) with false by (symmetry; apply Rltb_false; lra). reflexivity.
  Qed.

  (* value of sc = sN/sD with the mask sc[sN < SMALL] = 0, off the band *)
  Lemma ratio_val small n d r :
    0 < small -> 0 <= n -> 0 < d -> (n <= 0 \/ small <= n) ->
    ratio R RO small n d = Ok r -> r = n / d.
  Proof.
    intros Hs Hn Hd Hoff. unfold ratio. cbn [n_ltb n_leb n_zero n_div RO].
    destruct (Rltb n small) eqn:E0; [apply Rltb_true in E0 | apply Rltb_false in E0].
    - intros H. injection H as <-. assert (n = 0) by lra. subst n. field. lra.
    - replace (Rleb d 0) with false by (symmetry; apply Rleb_false; lra). cbn [andb].
      intros H. injection H as <-. reflexivity.
  Qed.

  Theorem scalar_optimal small k sc tc :
    0 < small -> 0 < k -> (A * C - B * B <= 0 \/ small <= A * C - B * B) ->
    let '(sN, sD, tN, tD) :=
        stage3 R RO A B D (stage2 R RO A D (stage1 R RO small A B C D E)) in
    (sN <= 0 \/ k * sD <= sN) -> (tN <= 0 \/ k * tD <= tN) ->
    ratio R RO (k * sD) sN sD = Ok sc -> ratio R RO (k * tD) tN tD = Ok tc ->
    forall s t, 0 <= s <= 1 -> 0 <= t <= 1 -> F sc tc <= F s t.
  Proof.
    intros Hs Hk Hoff. pose proof (stage1_strip small Hs Hoff) as S1.
    destruct (stage1 R RO small A B C D E) as [[[sN1 sD1] tN1] tD1].
    destruct S1 as (Hsn & HsD & HtD & Hstrip).
    pose proof (div_unit sN1 sD1 Hsn HsD) as Hs'.
    assert (HktD : 0 < k * tD1) by (apply Rmult_lt_0_compat; lra).
    destruct (Rlt_or_le tN1 0) as [Hlow|Hnl].
    - (* t0 visible *)
      destruct (stage2_spec sN1 sD1 tN1 tD1 HsD Hlow) as (sN' & sD' & E2 & Hn' & HD' & H1d).
      rewrite E2. rewrite stage3_id by lra.
      assert (HksD : 0 < k * sD') by (apply Rmult_lt_0_compat; lra).
      intros OffS OffT Rs Rt.
      apply ratio_val in Rs; try lra. apply ratio_val in Rt; try lra. subst sc tc.
      replace (0 / tD1) with 0 by (field; lra).
      apply (box_low (sN1 / sD1) (tN1 / tD1)); auto.
      unfold Rdiv. assert (0 < / tD1) by (apply Rinv_0_lt_compat; lra). nra.
    - rewrite stage2_id by exact Hnl.
      destruct (Rlt_or_le tD1 tN1) as [Hhigh|Hnh].
      + destruct (stage3_spec sN1 sD1 tN1 tD1 HsD Hhigh) as (sN' & sD' & E3 & Hn' & HD' & H1d).
        rewrite E3.
        assert (HksD : 0 < k * sD') by (apply Rmult_lt_0_compat; lra).
        intros OffS OffT Rs Rt.
        apply ratio_val in Rs; try lra. apply ratio_val in Rt; try lra. subst sc tc.
        replace (tD1 / tD1) with 1 by (field; lra).
        apply (box_high (sN1 / sD1) (tN1 / tD1)); auto.
        apply Rmult_lt_reg_r with tD1; [lra|]. unfold Rdiv.
        rewrite Rmult_assoc, Rinv_l by lra. lra.
      + rewrite stage3_id by exact Hnh.
        assert (HksD : 0 < k * sD1) by (apply Rmult_lt_0_compat; lra).
        intros OffS OffT Rs Rt.
        apply ratio_val in Rs; try lra. apply ratio_val in Rt; try lra. subst sc tc.
        intros s t Hs01 Ht01. apply Hstrip. exact Hs01.
  Qed.
End Quadratic.

(* ------------------------------------------------------------------ vector level *)
Lemma sum3sq_zero x y z : x * x + y * y + z * z = 0 -> x = 0 /\ y = 0 /\ z = 0.
Proof.
  intros H. pose proof (Rle_0_sqr x) as Hx. pose proof (Rle_0_sqr y) as Hy.
  pose proof (Rle_0_sqr z) as Hz. unfold Rsqr in *.
  assert (Ex : x * x = 0) by lra. assert (Ey : y * y = 0) by lra. assert (Ez : z * z = 0) by lra.
  repeat split; [apply Rmult_integral in Ex | apply Rmult_integral in Ey
                 | apply Rmult_integral in Ez]; tauto.
Qed.

Lemma parallel_dot (d1 d2 ds : V) :
  dotR d1 d1 * dotR d2 d2 - dotR d1 d2 * dotR d1 d2 = 0 ->
  dotR d2 d2 * dotR d1 ds = dotR d1 d2 * dotR d2 ds.
Proof.
  destruct d1 as [[x0 x1] x2], d2 as [[y0 y1] y2], ds as [[z0 z1] z2]. rsimp30. intros H.
  set (Cc := y0 * y0 + y1 * y1 + y2 * y2) in *.
  set (Bb := x0 * y0 + x1 * y1 + x2 * y2) in *.
  set (Aa := x0 * x0 + x1 * x1 + x2 * x2) in *.
  assert (Hv : (Cc * x0 - Bb * y0) * (Cc * x0 - Bb * y0) + (Cc * x1 - Bb * y1) * (Cc * x1 - Bb * y1)
               + (Cc * x2 - Bb * y2) * (Cc * x2 - Bb * y2) = Cc * (Aa * Cc - Bb * Bb))
    by (unfold Aa, Bb, Cc; ring).
  rewrite H, Rmult_0_r in Hv.
  apply sum3sq_zero in Hv. destruct Hv as (H0 & H1 & H2).
  apply Rminus_diag_uniq.
  replace (Cc * (x0 * z0 + x1 * z1 + x2 * z2) - Bb * (y0 * z0 + y1 * z1 + y2 * z2))
    with ((Cc * x0 - Bb * y0) * z0 + (Cc * x1 - Bb * y1) * z1 + (Cc * x2 - Bb * y2) * z2) by ring.
  rewrite H0, H1, H2. ring.
Qed.

Lemma F_norm (a b c d : V) (s t : R) :
  normsqR (vsubR (vaddR a (vscaleR s (vsubR b a))) (vaddR c (vscaleR t (vsubR d c))))
  = F (dotR (vsubR b a) (vsubR b a)) (dotR (vsubR b a) (vsubR d c)) (dotR (vsubR d c) (vsubR d c))
      (dotR (vsubR b a) (vsubR a c)) (dotR (vsubR d c) (vsubR a c)) s t
    + dotR (vsubR a c) (vsubR a c).
Proof.
  destruct a as [[a0 a1] a2], b as [[b0 b1] b2], c as [[c0 c1] c2], d as [[e0 e1] e2].
  unfold F. rsimp30. ring.
Qed.

Lemma dist_form (a b c d : V) (s t : R) :
  vsubR (vaddR (vsubR a c) (vscaleR s (vsubR b a))) (vscaleR t (vsubR d c))
  = vsubR (vaddR a (vscaleR s (vsubR b a))) (vaddR c (vscaleR t (vsubR d c))).
Proof.
  destruct a as [[a0 a1] a2], b as [[b0 b1] b2], c as [[c0 c1] c2], d as [[e0 e1] e2].
  rsimp30. apply v3_ext; ring.
Qed.

Lemma orb_off x small : (Rleb x 0 || negb (Rltb x small)) = true -> x <= 0 \/ small <= x.
Proof.
  intros H. apply orb_true_iff in H as [H|H].
  - left. apply Rleb_true. exact H.
  - right. apply negb_true_iff in H. apply Rltb_false. exact H.
Qed.

Theorem seg_seg_optimal (a b c d : V) dist2 cp1 cp2 sc tc :
  0 < dotR (vsubR b a) (vsubR b a) -> 0 < dotR (vsubR d c) (vsubR d c) ->
  off_band R RO a b c d = true ->
  seg_seg R RO a b c d = Ok (dist2, cp1, cp2, sc, tc) ->
  forall s t, 0 <= s <= 1 -> 0 <= t <= 1 ->
    dist2 <= normsqR (vsubR (vaddR a (vscaleR s (vsubR b a))) (vaddR c (vscaleR t (vsubR d c)))).
Proof.
  intros H11 H22. unfold off_band, seg_seg. cbv zeta.
  set (d1 := vsubR b a) in *. set (d2 := vsubR d c) in *. set (ds := vsubR a c).
  assert (HDelta : 0 <= dotR d1 d1 * dotR d2 d2 - dotR d1 d2 * dotR d1 d2).
  { rewrite <- lagrange. apply dot_self_nonneg. }
  pose proof (parallel_dot d1 d2 ds) as Hpar.
  assert (Hs : 0 < / 100000000 * dotR d1 d1 * dotR d2 d2).
  { apply Rmult_lt_0_compat; [apply Rmult_lt_0_compat; lra | lra]. }
  assert (Hk : 0 < / 100000000) by lra.
  pose proof (scalar_optimal (dotR d1 d1) (dotR d1 d2) (dotR d2 d2) (dotR d1 ds) (dotR d2 ds)
                H11 H22 HDelta Hpar (/ 100000000 * dotR d1 d1 * dotR d2 d2) (/ 100000000)) as SO.
  cbn [n_leb n_ltb n_zero n_sub n_mul n_atol RO].
  destruct (stage3 R RO _ _ _ _) as [[[sN sD] tN] tD].
  intros Hoff. apply andb_true_iff in Hoff as [Hoff Ht]. apply andb_true_iff in Hoff as [Hd Hsn].
  apply orb_off in Hd, Hsn, Ht.
  destruct (ratio R RO (/ 100000000 * sD) sN sD) as [sc'|] eqn:Rs; [|discriminate].
  destruct (ratio R RO (/ 100000000 * tD) tN tD) as [tc'|] eqn:Rt; [|discriminate].
  intros H.
  assert (E : dist2 = normsqR (vsubR (vaddR ds (vscaleR sc' d1)) (vscaleR tc' d2)))
    by (injection H; intros; subst; reflexivity).
  clear H. intros s t Hs01 Ht01.
  specialize (SO sc' tc' Hs Hk Hd Hsn Ht eq_refl eq_refl s t Hs01 Ht01).
  subst d1 d2 ds. rewrite E.
  rewrite (dist_form a b c d sc' tc'). rewrite !F_norm. lra.
Qed.
