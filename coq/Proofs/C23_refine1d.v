(* C23 — refine_grid_1d: the node bookkeeping yields, cell by cell, the children. *)
From Coq Require Import List ZArith QArith Bool Arith Lia.
Import ListNotations.
From PP Require Import Model.C23 Proofs.C23.
Close Scope Q_scope.

Definition peq (p q : v3 * v3) : Prop := veq (fst p) (fst q) /\ veq (snd p) (snd q).

(* old_2_new_nodes is sound: a stored index points at a copy of the old node *)
Definition map_ok (nodes x : list v3) (m : list (nat * nat)) : Prop :=
  forall n j, lookup m n = Some j -> j < length x /\ nth j x vzero = nth n nodes vzero.

Lemma map_ok_app nodes x y m : map_ok nodes x m -> map_ok nodes (x ++ y) m.
Proof.
  intros H n j E. destruct (H n j E) as [H1 H2]. split.
  - rewrite app_length. lia.
  - rewrite app_nth1 by exact H1. exact H2.
Qed.

Lemma place_spec nodes x m n :
  map_ok nodes x m ->
  let '(x', m', j) := place x m n (nth n nodes vzero) in
  (exists ext, x' = x ++ ext) /\ j < length x' /\ nth j x' vzero = nth n nodes vzero /\
  map_ok nodes x' m'.
Proof.
  intros H. unfold place. destruct (lookup m n) as [j|] eqn:E.
  - destruct (H n j E) as [H1 H2]. split; [exists []; rewrite app_nil_r; reflexivity|].
    split; [exact H1|]. split; [exact H2|exact H].
  - split; [exists [nth n nodes vzero]; reflexivity|].
    split; [rewrite app_length; cbn; lia|]. split.
    + rewrite app_nth2 by lia. rewrite Nat.sub_diag. reflexivity.
    + intros n0 j0 E0. cbn [lookup] in E0. destruct (n =? n0) eqn:En.
      * apply Nat.eqb_eq in En. subst n0. inversion E0; subst j0.
        split; [rewrite app_length; cbn; lia|].
        rewrite app_nth2 by lia. rewrite Nat.sub_diag. reflexivity.
      * apply (map_ok_app nodes x [nth n nodes vzero] m H n0 j0 E0).
Qed.

(* index lists that are sequences of pairs *)
Definition unpairs (ps : list (nat * nat)) : list nat := flat_map (fun p => [fst p; snd p]) ps.

Lemma pairs_of_unpairs_app ps l : pairs_of (unpairs ps ++ l) = ps ++ pairs_of l.
Proof.
  induction ps as [|[a b] t IH]; [reflexivity|].
  cbn [unpairs flat_map fst snd app]. cbn [pairs_of]. fold (unpairs t). rewrite IH. reflexivity.
Qed.

Lemma pairs_of_unpairs ps : pairs_of (unpairs ps) = ps.
Proof. rewrite <- (app_nil_r (unpairs ps)), pairs_of_unpairs_app. cbn. apply app_nil_r. Qed.

Definition dup (i : nat) : list nat := [i; i].

(* [s0, c0, c0, c0+1, c0+1, ..., e] pairs up as (s0,c0), (c0,c0+1), ..., (c0+k-1, e) *)
Lemma pairs_chain k : forall s0 c0 e,
  pairs_of (s0 :: flat_map dup (seq c0 k) ++ [e]) = combine (s0 :: seq c0 k) (seq c0 k ++ [e]).
Proof.
  induction k as [|k IH]; intros s0 c0 e; [reflexivity|].
  cbn [seq flat_map]. unfold dup at 1. cbn [app].
  change (pairs_of (s0 :: c0 :: c0 :: flat_map dup (seq (S c0) k) ++ [e]))
    with ((s0, c0) :: pairs_of (c0 :: flat_map dup (seq (S c0) k) ++ [e])).
  rewrite IH. reflexivity.
Qed.

Lemma mid_as_dup_gen c0 k : forall s,
  flat_map (fun i => [c0 + i; c0 + i]) (seq s k) = flat_map dup (seq (c0 + s) k).
Proof.
  induction k as [|k IH]; intros s; [reflexivity|].
  cbn [seq flat_map]. rewrite IH, Nat.add_succ_r. reflexivity.
Qed.

Lemma mid_as_dup c0 k :
  flat_map (fun i => [c0 + i; c0 + i]) (seq 0 k) = flat_map dup (seq c0 k).
Proof. rewrite mid_as_dup_gen, Nat.add_0_r. reflexivity. Qed.

Lemma cell_ends_app x ps l :
  cell_ends x (unpairs ps ++ l) = cell_ends x (unpairs ps) ++ cell_ends x l.
Proof.
  unfold cell_ends. rewrite pairs_of_unpairs_app, pairs_of_unpairs, map_app. reflexivity.
Qed.

Lemma cell_ends_prefix x y ps :
  Forall (fun j => j < length x) (unpairs ps) ->
  cell_ends (x ++ y) (unpairs ps) = cell_ends x (unpairs ps).
Proof.
  intros H. unfold cell_ends. rewrite pairs_of_unpairs. apply map_ext_in. intros [a b] Hin.
  rewrite Forall_forall in H. cbn [fst snd].
  assert (In a (unpairs ps) /\ In b (unpairs ps)) as [Ha Hb].
  { unfold unpairs. split; apply in_flat_map; exists (a, b); (split; [exact Hin|cbn; tauto]). }
  rewrite !app_nth1 by (apply H; assumption). reflexivity.
Qed.

Lemma Forall2_app_inv_r' {A B} (R : A -> B -> Prop) l1 l2 m1 m2 :
  Forall2 R l1 m1 -> Forall2 R l2 m2 -> Forall2 R (l1 ++ l2) (m1 ++ m2).
Proof. apply Forall2_app. Qed.

Lemma Forall2_len {A B} (R : A -> B -> Prop) l m : Forall2 R l m -> length l = length m.
Proof. induction 1; cbn; congruence. Qed.

Lemma veq_refl' a : veq a a.
Proof. apply veq_refl. Qed.

Lemma veq_sym a b : veq a b -> veq b a.
Proof.
  destruct a as [[a1 a2] a3], b as [[b1 b2] b3]. cbn. intros [H1 [H2 H3]].
  repeat split; symmetry; assumption.
Qed.

(* the decoded cells of one refined cell against the children *)
Lemma chain_children (r : nat) (a b : v3) (x : list v3) (si c0 ei : nat) :
  1 <= r ->
  nth si x vzero = a -> nth ei x vzero = b ->
  (forall i, i < r - 1 -> nth (c0 + i) x vzero = vlerp (theta r (S i)) a b) ->
  Forall2 peq (cell_ends x ([si] ++ flat_map (fun i => [c0 + i; c0 + i]) (seq 0 (r - 1)) ++ [ei]))
              (children r a b).
Proof.
  intros Hr Hs He Hm. unfold cell_ends. rewrite mid_as_dup. cbn [app].
  rewrite pairs_chain. unfold children.
  destruct r as [|k]; [lia|]. replace (S k - 1) with k in * by lia.
  (* both sides are built from the point lists p_0..p_k and p_1..p_{k+1} *)
  assert (Hgen : forall (n c s : nat) (s0 e : nat),
    veq (nth s0 x vzero) (vlerp (theta (S k) s) a b) ->
    veq (nth e x vzero) (vlerp (theta (S k) (s + S n)) a b) ->
    (forall i, i < n -> nth (c + i) x vzero = vlerp (theta (S k) (s + S i)) a b) ->
    Forall2 peq
      (map (fun p => (nth (fst p) x vzero, nth (snd p) x vzero))
           (combine (s0 :: seq c n) (seq c n ++ [e])))
      (map (fun i => (vlerp (theta (S k) i) a b, vlerp (theta (S k) (S i)) a b)) (seq s (S n)))).
  { induction n as [|n IH]; intros c s s0 e H0 H1 Hi.
    - cbn. constructor; [|constructor]. split; cbn [fst snd]; [exact H0|].
      replace (s + 1) with (S s) in H1 by lia. exact H1.
    - cbn [seq combine app map]. constructor.
      + split; cbn [fst snd]; [exact H0|]. rewrite <- (Nat.add_0_r c), (Hi 0) by lia.
        replace (s + 1) with (S s) by lia. apply veq_refl.
      + apply (IH (S c) (S s) c e).
        * rewrite <- (Nat.add_0_r c), (Hi 0) by lia. replace (s + 1) with (S s) by lia. apply veq_refl.
        * replace (S s + S n) with (s + S (S n)) by lia. exact H1.
        * intros i Hlt. replace (S c + i) with (c + S i) by lia. rewrite Hi by lia.
          replace (S s + S i) with (s + S (S i)) by lia. reflexivity. }
  apply (Hgen k c0 0 si ei).
  - rewrite Hs. apply veq_sym, vlerp_t0, theta_0.
  - rewrite He. cbn [Nat.add]. apply veq_sym, vlerp_t1, theta_r. lia.
  - intros i Hi. cbn [Nat.add]. apply Hm, Hi.
Qed.

Record inv (nodes : list v3) (r : nat) (done : list (nat * nat)) (s : st1) : Prop := {
  inv_map : map_ok nodes (st_x s) (st_map s);
  inv_pairs : exists ps, st_ind s = unpairs ps /\ Forall (fun j => j < length (st_x s)) (unpairs ps);
  inv_cells : Forall2 peq (cell_ends (st_x s) (st_ind s)) (refine_spec nodes done r)
}.

Lemma unpairs_app p q : unpairs (p ++ q) = unpairs p ++ unpairs q.
Proof. unfold unpairs. apply flat_map_app. Qed.

Lemma chain_is_unpairs si c0 k ei :
  [si] ++ flat_map (fun i => [c0 + i; c0 + i]) (seq 0 k) ++ [ei]
  = unpairs (combine (si :: seq c0 k) (seq c0 k ++ [ei])).
Proof.
  rewrite mid_as_dup. cbn [app]. revert si c0. induction k as [|k IH]; intros si c0; [reflexivity|].
  change (si :: c0 :: c0 :: (flat_map dup (seq (S c0) k) ++ [ei])
          = si :: c0 :: unpairs (combine (c0 :: seq (S c0) k) (seq (S c0) k ++ [ei]))).
  rewrite <- IH. reflexivity.
Qed.

Lemma refine_cell_inv nodes r done s c :
  1 <= r -> inv nodes r done s -> inv nodes r (done ++ [c]) (refine_cell nodes r s c).
Proof.
  intros Hr [Hmap [ps [Hind Hlt]] Hcells]. destruct c as [st en].
  unfold refine_cell.
  pose proof (place_spec nodes (st_x s) (st_map s) st Hmap) as P1.
  destruct (place (st_x s) (st_map s) st (nth st nodes vzero)) as [[x1 m1] si].
  destruct P1 as [[ext1 Hx1] [Hsi [Hsv Hmap1]]].
  set (a := nth st nodes vzero) in *. set (b := nth en nodes vzero) in *.
  set (interior := map (fun i => vlerp (theta r i) a b) (seq 1 (r - 1))).
  assert (Hmap2 : map_ok nodes (x1 ++ interior) m1) by (apply map_ok_app, Hmap1).
  pose proof (place_spec nodes (x1 ++ interior) m1 en Hmap2) as P2. fold b in P2.
  destruct (place (x1 ++ interior) m1 en b) as [[x3 m3] ei].
  destruct P2 as [[ext2 Hx3] [Hei [Hev Hmap3]]].
  assert (Hlen_int : length interior = r - 1) by (unfold interior; rewrite map_length, seq_length; reflexivity).
  (* facts about x3 *)
  assert (Hx3' : x3 = st_x s ++ (ext1 ++ interior ++ ext2)).
  { rewrite Hx3, Hx1. rewrite <- !app_assoc. reflexivity. }
  assert (Hs3 : nth si x3 vzero = a).
  { rewrite Hx3. rewrite <- app_assoc. rewrite app_nth1 by exact Hsi. exact Hsv. }
  assert (Hm3 : forall i, i < r - 1 -> nth (length x1 + i) x3 vzero = vlerp (theta r (S i)) a b).
  { intros i Hi. rewrite Hx3. rewrite app_nth1 by (rewrite app_length; lia).
    rewrite app_nth2 by lia. replace (length x1 + i - length x1) with i by lia.
    unfold interior. rewrite (nth_map_seq (fun i => vlerp (theta r i) a b) 1 (r - 1) i vzero Hi).
    reflexivity. }
  assert (Hnew_lt : Forall (fun j => j < length x3)
            ([si] ++ flat_map (fun i => [length x1 + i; length x1 + i]) (seq 0 (r - 1)) ++ [ei])).
  { assert (length x1 + (r - 1) <= length x3) as Hle.
    { rewrite Hx3, !app_length, Hlen_int. lia. }
    apply Forall_app. split; [constructor; [lia|constructor]|]. apply Forall_app. split.
    - apply Forall_forall. intros j Hj. apply in_flat_map in Hj. destruct Hj as [i [Hi Hj]].
      apply in_seq in Hi. cbn in Hj. destruct Hj as [<-|[<-|[]]]; lia.
    - constructor; [exact Hei|constructor]. }
  constructor; cbn [st_x st_map st_ind].
  - exact Hmap3.
  - exists (ps ++ combine (si :: seq (length x1) (r - 1)) (seq (length x1) (r - 1) ++ [ei])).
    rewrite unpairs_app, <- chain_is_unpairs, Hind. split; [reflexivity|].
    apply Forall_app. split; [|exact Hnew_lt].
    eapply Forall_impl; [|exact Hlt]. cbn. intros j Hj. rewrite Hx3', app_length. lia.
  - rewrite Hind, cell_ends_app. unfold refine_spec. rewrite flat_map_app. cbn [flat_map fst snd].
    rewrite app_nil_r. apply Forall2_app.
    + rewrite Hx3', (cell_ends_prefix _ _ ps Hlt). rewrite <- Hind. exact Hcells.
    + fold a b. apply chain_children; assumption.
Qed.

Lemma fold_inv nodes r cells : 1 <= r -> forall done s,
  inv nodes r done s -> inv nodes r (done ++ cells) (fold_left (refine_cell nodes r) cells s).
Proof.
  intros Hr. induction cells as [|c t IH]; intros done s H; cbn [fold_left].
  - rewrite app_nil_r. exact H.
  - replace (done ++ c :: t) with ((done ++ [c]) ++ t) by (rewrite <- app_assoc; reflexivity).
    apply IH. apply refine_cell_inv; assumption.
Qed.

(* refine_grid_1d produces, cell by cell, the children of the old cells *)
Theorem refine_grid_1d_cells (nodes : list v3) (cells : list (nat * nat)) (r : nat) :
  1 <= r ->
  let '(x, ind, sg) := refine_grid_1d nodes cells r in
  Forall2 peq (cell_ends x ind) (refine_spec nodes cells r) /\
  Forall (fun j => j < length x) ind /\
  length ind = 2 * (length cells * r).
Proof.
  intros Hr. unfold refine_grid_1d.
  assert (H0 : inv nodes r [] {| st_x := []; st_map := []; st_ind := [] |}).
  { constructor; cbn.
    - intros n j E. discriminate.
    - exists []. split; [reflexivity|constructor].
    - constructor. }
  pose proof (fold_inv nodes r cells Hr [] _ H0) as [Hmap [ps [Hind Hlt]] Hcells]. cbn [app] in *.
  split; [exact Hcells|]. split; [rewrite Hind; exact Hlt|].
  (* length: two indices per decoded cell *)
  pose proof (Forall2_len _ _ _ Hcells) as HL.
  unfold cell_ends in HL. rewrite map_length, Hind, pairs_of_unpairs in HL.
  rewrite Hind. unfold unpairs. rewrite (flat_map_length_const _ ps 2) by (intros; reflexivity).
  rewrite HL. unfold refine_spec.
  rewrite (flat_map_length_const _ cells r) by (intros; apply children_length). lia.
Qed.
