(* C42 — transfer between the Q instance (executed by the tie) and the R instance (theorems) of
   the polymorphic model: Q2R commutes with every model function. *)
From Coq Require Import List QArith Qreals Reals Lra Lia Arith Bool.
Import ListNotations.
From PP Require Import Model.C42 Proofs.C42.

Definition QR (l : list Q) : list R := map Q2R l.

Lemma Q2R_0 : Q2R 0 = 0%R. Proof. unfold Q2R. cbn. lra. Qed.
Lemma Q2R_1 : Q2R 1 = 1%R. Proof. unfold Q2R. cbn. lra. Qed.

Notation qsum := (tsum Q 0%Q Qplus).

Lemma tsum_QR l : Q2R (qsum l) = rsum (QR l).
Proof. induction l as [|a l IH]; cbn [tsum QR map]; [apply Q2R_0|]. rewrite Q2R_plus, IH. reflexivity. Qed.

Lemma map2_QR (op : Q -> Q -> Q) (opR : R -> R -> R) (P : Q -> Prop) :
  (forall a b, P b -> Q2R (op a b) = opR (Q2R a) (Q2R b)) ->
  forall l m, Forall P m -> QR (map2 op l m) = map2 opR (QR l) (QR m).
Proof.
  intros H. induction l as [|a l IH]; intros [|b m] HP; cbn [map2 QR map]; try reflexivity.
  inversion HP; subst. rewrite H by assumption. f_equal. apply IH. assumption.
Qed.

Lemma Forall_True {A} (l : list A) : Forall (fun _ => True) l.
Proof. induction l; constructor; auto. Qed.

Definition nz (q : Q) : Prop := ~ q == 0.

(* closed form *)
Lemma closed_QR y rho : Forall nz rho -> nz (qsum (map2 Qdiv y rho)) ->
  QR (closed_Q y rho) = closedR (QR y) (QR rho).
Proof.
  intros Hr HD. unfold closed_Q, closedR, closed.
  rewrite <- (map2_QR Qdiv Rdiv nz (fun a b Hb => Q2R_div a b Hb) y rho Hr).
  rewrite <- tsum_QR. unfold QR at 1. rewrite List.map_map. unfold QR. rewrite List.map_map.
  apply map_ext. intros a. apply Q2R_div. exact HD.
Qed.

(* assembled system *)
Lemma build_rhs_QR y rho :
  QR (build_rhs Q 1%Q Qminus Qmult y rho) = build_rhsR (QR y) (QR rho).
Proof.
  unfold build_rhsR, build_rhs.
  apply (map2_QR (fun r a => r * (a - 1))%Q (fun r a => r * (a - 1))%R (fun _ => True)).
  - intros a b _. rewrite Q2R_mult, Q2R_minus, Q2R_1. reflexivity.
  - apply Forall_True.
Qed.

Lemma mat_row_QR yj rhoj j y rho :
  QR (mat_row Q 0%Q 1%Q Qminus Qmult yj rhoj j y rho)
  = mat_row R 0%R 1%R Rminus Rmult (Q2R yj) (Q2R rhoj) j (QR y) (QR rho).
Proof.
  unfold mat_row, QR.
  replace (length (map Q2R rho)) with (length rho) by (symmetry; apply List.map_length).
  generalize (seq 0 (length rho)).
  induction rho as [|r rho IH]; intros [|k ks]; cbn [map2 map]; try reflexivity.
  rewrite IH. f_equal. destruct (Nat.eqb k j); [apply Q2R_0|].
  rewrite Q2R_minus, !Q2R_mult, Q2R_minus, Q2R_1. reflexivity.
Qed.

Lemma build_mat_QR y rho :
  map QR (build_mat Q 0%Q 1%Q Qminus Qmult y rho) = build_matR (QR y) (QR rho).
Proof.
  unfold build_matR, build_mat.
  replace (length (QR y)) with (length y) by (symmetry; apply List.map_length).
  generalize (seq 0 (length y)). intros ks.
  assert (G : forall (ks : list nat) (y' rho' : list Q),
     map QR (map2 (fun j yr => mat_row Q 0%Q 1%Q Qminus Qmult (fst yr) (snd yr) j y rho) ks (combine y' rho'))
     = map2 (fun j yr => mat_row R 0%R 1%R Rminus Rmult (fst yr) (snd yr) j (QR y) (QR rho)) ks
            (combine (QR y') (QR rho'))).
  { induction ks0 as [|k ks0 IH]; intros y' rho'; [reflexivity|].
    destruct y' as [|a y']; [reflexivity|]. destruct rho' as [|r rho']; [reflexivity|].
    change (combine (QR (a :: y')) (QR (r :: rho'))) with ((Q2R a, Q2R r) :: combine (QR y') (QR rho')).
    cbn [combine map2 map fst snd]. rewrite IH, mat_row_QR. reflexivity. }
  apply G.
Qed.

Lemma dot_QR a b : Q2R (dot Q 0%Q Qplus Qmult a b) = rdot (QR a) (QR b).
Proof.
  unfold dot. rewrite tsum_QR. f_equal.
  apply (map2_QR Qmult Rmult (fun _ => True)); [intros; apply Q2R_mult|apply Forall_True].
Qed.

Lemma mat_vec_QR m v : QR (mat_vec Q 0%Q Qplus Qmult m v) = mat_vecR (map QR m) (QR v).
Proof.
  unfold mat_vecR, mat_vec, QR. rewrite !List.map_map. apply map_ext. intros row. apply dot_QR.
Qed.

(* normalisation *)
Lemma normalize_QR x : nz (qsum x) -> QR (normalize Q 0%Q Qplus Qdiv x) = normalizeR (QR x).
Proof.
  intros HS. unfold normalizeR, normalize. rewrite <- tsum_QR. unfold QR. rewrite !List.map_map.
  apply map_ext. intros a. apply Q2R_div. exact HS.
Qed.

Lemma normalize_rows_QR m : Forall (fun row => nz (qsum row)) m ->
  map QR (normalize_rows_Q m) = normalize_rowsR (map QR m).
Proof.
  intros H. unfold normalize_rows_Q, normalize_rowsR, normalize_rows. rewrite !List.map_map.
  apply map_ext_in. intros row Hin. rewrite Forall_forall in H. apply normalize_QR. apply H. exact Hin.
Qed.

(* chain rule *)
Lemma dxn_gen_QR (s : Q) : nz s -> forall (js ks : list nat) (x : list Q),
  map QR (map2 (fun i xi => map (fun j => (if Nat.eqb i j then 1 else 0) / s - xi * 1 / (s * s))%Q js) ks x)
  = map2 (fun i xi => map (fun j => ((if Nat.eqb i j then 1 else 0) / Q2R s - xi * 1 / (Q2R s * Q2R s))%R) js)
         ks (QR x).
Proof.
  intros Hs js.
  assert (HSS : nz (s * s)).
  { intros E. apply Qmult_integral in E. destruct E; apply Hs; assumption. }
  induction ks as [|k ks IH]; intros [|a x]; cbn [map2 map QR]; try reflexivity.
  fold (QR x). rewrite IH. f_equal. unfold QR. rewrite List.map_map. apply map_ext. intros j.
  rewrite Q2R_minus, (Q2R_div _ _ Hs), (Q2R_div _ _ HSS), !Q2R_mult, Q2R_1.
  destruct (Nat.eqb k j); [rewrite Q2R_1|rewrite Q2R_0]; reflexivity.
Qed.

Lemma dxn_QR x : nz (qsum x) ->
  map QR (dxn Q 0%Q 1%Q Qplus Qminus Qmult Qdiv x) = dxnR (QR x).
Proof.
  intros HS. unfold dxnR, dxn. rewrite <- tsum_QR.
  replace (length (QR x)) with (length x) by (symmetry; apply List.map_length).
  apply (dxn_gen_QR (qsum x) HS).
Qed.

Lemma nth_QR j row : Q2R (nth j row 0%Q) = nth j (QR row) 0%R.
Proof. rewrite <- Q2R_0. unfold QR. rewrite (map_nth Q2R). reflexivity. Qed.

Lemma vec_mat_QR g m n :
  QR (vec_mat Q 0%Q Qplus Qmult g m n) = vec_mat R 0%R Rplus Rmult (QR g) (map QR m) n.
Proof.
  unfold vec_mat, QR at 1. rewrite List.map_map. apply map_ext. intros j.
  rewrite tsum_QR. f_equal. revert m. induction g as [|a g IH]; intros [|row m]; cbn [map2 map QR]; try reflexivity.
  fold (QR g). rewrite <- IH. cbn [QR map]. f_equal. rewrite Q2R_mult, nth_QR. reflexivity.
Qed.

Definition QRres (r : sum err (list Q)) : sum err (list R) :=
  match r with inl e => inl e | inr l => inr (QR l) end.

Lemma chainrule_QR df x : nz (qsum x) -> QRres (chainrule_Q df x) = chainruleR (QR df) (QR x).
Proof.
  intros HS. unfold chainrule_Q, chainruleR, chainrule.
  replace (length (QR df)) with (length df) by (symmetry; apply List.map_length).
  replace (length (QR x)) with (length x) by (symmetry; apply List.map_length).
  destruct (Nat.ltb (length df) (length x)); [reflexivity|]. cbn [QRres]. f_equal.
  unfold QR at 1. rewrite map_app. fold (QR (firstn (length df - length x) df)).
  fold (QR (vec_mat Q 0%Q Qplus Qmult (skipn (length df - length x) df)
                    (dxn Q 0%Q 1%Q Qplus Qminus Qmult Qdiv x) (length x))).
  rewrite vec_mat_QR, (dxn_QR x HS). unfold QR. rewrite firstn_map, skipn_map. reflexivity.
Qed.

(* the comparisons used for the special-casing *)
Lemma Qltb_Rltb a b : Qltb a b = Rltb (Q2R a) (Q2R b).
Proof.
  unfold Qltb, Rltb. destruct (Rlt_dec (Q2R a) (Q2R b)) as [H|H].
  - apply Rlt_Qlt in H. destruct (Qle_bool b a) eqn:E; [|reflexivity].
    apply Qle_bool_iff in E. exfalso. apply (Qlt_not_le _ _ H E).
  - destruct (Qle_bool b a) eqn:E; [reflexivity|]. exfalso. apply H. apply Qlt_Rlt.
    apply Qnot_le_lt. intro Hle. apply Qle_bool_iff in Hle. congruence.
Qed.

Lemma Qleb_Rleb a b : Qle_bool a b = Rleb (Q2R a) (Q2R b).
Proof.
  unfold Rleb. destruct (Rle_dec (Q2R a) (Q2R b)) as [H|H].
  - apply Qle_bool_iff. apply Rle_Qle. exact H.
  - destruct (Qle_bool a b) eqn:E; [|reflexivity]. exfalso. apply H. apply Qle_Rle.
    apply Qle_bool_iff. exact E.
Qed.

(* ------------------------------------------------------------ compute_saturations *)
Lemma select_QR mask : forall l, QR (select mask l) = select mask (QR l).
Proof.
  induction mask as [|[|] mask IH]; intros [|a l]; cbn [select QR map]; try reflexivity.
  - fold (QR l). rewrite <- IH. reflexivity.
  - fold (QR l). apply IH.
Qed.

Lemma scatter_QR mask : forall v, QR (scatter Q 0%Q mask v) = scatter R 0%R mask (QR v).
Proof.
  induction mask as [|[|] mask IH]; intros v; cbn [scatter QR map]; try reflexivity.
  - destruct v as [|x v]; cbn [map QR].
    + rewrite Q2R_0. f_equal. apply (IH []).
    + f_equal. apply IH.
  - rewrite Q2R_0. f_equal. apply IH.
Qed.

Lemma mask_le c y : map (fun a => Rleb (Q2R c) a) (QR y) = map (fun a => Qle_bool c a) y.
Proof. unfold QR. rewrite List.map_map. apply map_ext. intros a. symmetry. apply Qleb_Rleb. Qed.

Lemma mask_lt c y : map (fun a => Rltb (Q2R c) a) (QR y) = map (fun a => Qltb c a) y.
Proof. unfold QR. rewrite List.map_map. apply map_ext. intros a. symmetry. apply Qltb_Rltb. Qed.

Lemma one_minus eps : (1 - Q2R eps)%R = Q2R (1 - eps).
Proof. rewrite Q2R_minus, Q2R_1. reflexivity. Qed.

Lemma ind_QR (b : list bool) :
  QR (map (fun b : bool => if b then 1%Q else 0%Q) b) = map (fun b : bool => if b then 1%R else 0%R) b.
Proof. unfold QR. rewrite List.map_map. apply map_ext. intros [|]; [apply Q2R_1|apply Q2R_0]. Qed.

Lemma inner_ge3_gen (T : Type) (zero one : T) (add sub mul div : T -> T -> T)
  (ltb leb : T -> T -> bool) (solve : list (list T) -> list T -> list T) y rho eps :
  (3 <= length y)%nat -> (3 <= length rho)%nat ->
  compute_saturations_inner T zero one add sub mul div ltb leb solve y rho eps =
  let saturated := map (fun a => leb (sub one eps) a) y in
  if existsb (fun b => b) saturated && negb (Nat.eqb (count saturated) 1) then inl AssertErr
  else if existsb (fun b => b) saturated
       then inr (map (fun b : bool => if b then one else zero) saturated)
       else let nv := map (fun a => ltb eps a) y in
            inr (scatter T zero nv (solve (build_mat T zero one sub mul (select nv y) (select nv rho))
                                          (build_rhs T one sub mul (select nv y) (select nv rho)))).
Proof.
  intros Hl Hr. destruct y as [|a [|b [|c y']]]; cbn in Hl; try lia.
  destruct rho as [|r1 [|r2 [|r3 rho']]]; cbn in Hr; try lia. reflexivity.
Qed.

(* THEOREM (transfer): the executed Q instance and the R instance of compute_saturations agree
   (through Q2R) whenever the two solvers agree on the assembled system and the two-phase
   formula does not divide by zero *)
Lemma sat_QR solveR y rho eps :
  (forall M b, QR (solveQ M b) = solveR (map QR M) (QR b)) ->
  (forall y0 y1 r0 r1, y = [y0; y1] -> rho = [r0; r1] ->
     nz (1 - y1) /\ nz r1 /\ nz (1 + y1 / (1 - y1) * (r0 / r1))) ->
  QRres (sat_Q y rho eps) = satR solveR (QR y) (QR rho) (Q2R eps).
Proof.
  intros Hsolve H2. unfold sat_Q, satR, compute_saturations.
  replace (length (QR y)) with (length y) by (symmetry; apply List.map_length).
  replace (length (QR rho)) with (length rho) by (symmetry; apply List.map_length).
  destruct (Nat.eqb (length y) (length rho)) eqn:El; cbn [negb]; [|reflexivity].
  apply Nat.eqb_eq in El.
  rewrite one_minus, mask_lt.
  destruct (Nat.ltb 1 (count (map (fun a => Qltb (1 - eps) a) y))); [reflexivity|].
  assert (Hin : QRres (compute_saturations_inner Q 0%Q 1%Q Qplus Qminus Qmult Qdiv Qltb Qle_bool solveQ y rho eps)
              = compute_saturations_inner R 0%R 1%R Rplus Rminus Rmult Rdiv Rltb Rleb solveR (QR y) (QR rho) (Q2R eps)).
  { destruct y as [|a [|b [|c y']]].
    - destruct rho; [|discriminate]. unfold compute_saturations_inner. cbn [QR map existsb andb select].
      cbn [QRres]. rewrite scatter_QR, Hsolve. reflexivity.
    - unfold compute_saturations_inner. cbn [QR map QRres]. rewrite Q2R_1. reflexivity.
    - destruct rho as [|r0 [|r1 [|r2 rho']]]; try discriminate.
      destruct (H2 a b r0 r1 eq_refl eq_refl) as [N1 [N2 N3]].
      unfold compute_saturations_inner.
      change (QR [a; b]) with [Q2R a; Q2R b]. change (QR [r0; r1]) with [Q2R r0; Q2R r1].
      cbv iota beta. change [Q2R a; Q2R b] with (QR [a; b]).
      rewrite one_minus, mask_le.
      destruct (existsb (fun b0 => b0) (map (fun a0 => Qle_bool (1 - eps) a0) [a; b])
                && negb (Nat.eqb (count (map (fun a0 => Qle_bool (1 - eps) a0) [a; b])) 1)); [reflexivity|].
      destruct (existsb (fun b0 => b0) (map (fun a0 => Qle_bool (1 - eps) a0) [a; b])); cbn [QRres].
      + f_equal. apply ind_QR.
      + cbn [QR map]. f_equal.
        rewrite Q2R_minus, (Q2R_div _ _ N3), Q2R_plus, Q2R_mult, (Q2R_div _ _ N1), (Q2R_div _ _ N2),
          Q2R_minus, !Q2R_1. reflexivity.
    - destruct rho as [|r0 [|r1 [|r2 rho']]]; try discriminate.
      set (yy := a :: b :: c :: y') in *. set (rr := r0 :: r1 :: r2 :: rho') in *.
      rewrite (inner_ge3_gen Q) by (cbn; lia).
      rewrite (inner_ge3_gen R) by (unfold QR; rewrite List.map_length; cbn; lia).
      cbv zeta. rewrite one_minus, mask_le, mask_lt.
      destruct (existsb (fun b0 => b0) (map (fun a0 => Qle_bool (1 - eps) a0) yy)
                && negb (Nat.eqb (count (map (fun a0 => Qle_bool (1 - eps) a0) yy)) 1)); [reflexivity|].
      destruct (existsb (fun b0 => b0) (map (fun a0 => Qle_bool (1 - eps) a0) yy)); cbn [QRres].
      + f_equal. apply ind_QR.
      + rewrite scatter_QR, Hsolve, build_mat_QR, build_rhs_QR, !select_QR. reflexivity. }
  rewrite <- Hin.
  destruct (compute_saturations_inner Q 0%Q 1%Q Qplus Qminus Qmult Qdiv Qltb Qle_bool solveQ y rho eps) as [e|s];
    [reflexivity|]. cbn [QRres]. rewrite mask_lt.
  destruct (Nat.ltb 1 (count (map (fun a => Qltb (1 - eps) a) s))); reflexivity.
Qed.
