(* C17 — proofs about the transcribed Upwind.discretize (PP.Model.C17). *)
From Coq Require Import List ZArith Bool Arith Lia Reals Lra.
Import ListNotations.
From PP Require Import Model.C17.

(* ====================================================================================== *)
(* Incidence: cell_faces_as_dense                                                          *)
(* ====================================================================================== *)

(* at most one cell on each side of every face *)
Definition one_sided (cf : list inc) : Prop :=
  forall f c c' s s', In (f, c, s) cf -> In (f, c', s') cf -> (0 < s * s')%Z -> c = c'.

Lemma one_sidedb_sound cf : one_sidedb cf = true -> one_sided cf.
Proof.
  unfold one_sidedb, one_sided. intros H f c c' s s' H1 H2 Hs.
  rewrite forallb_forall in H. specialize (H _ H1). rewrite forallb_forall in H.
  specialize (H _ H2). unfold tf, tc, ts in H. cbn [fst snd] in H.
  rewrite Nat.eqb_refl in H. apply Z.ltb_lt in Hs. rewrite Hs in H. cbn in H.
  apply Nat.eqb_eq in H. exact H.
Qed.

Lemma dense_some side cf f c :
  dense side cf f = Some c -> exists s, In (f, c, s) cf /\ side_ok side s = true.
Proof.
  unfold dense.
  destruct (find _ (rev cf)) as [[[fi ci] s]|] eqn:E; [|discriminate].
  intros H. injection H as <-. apply find_some in E. destruct E as [Hin Hm].
  apply andb_true_iff in Hm. destruct Hm as [H1 H2]. apply Nat.eqb_eq in H1. subst fi.
  exists s. split; [apply in_rev; exact Hin | exact H2].
Qed.

Lemma dense_none side cf f :
  dense side cf f = None -> forall c s, In (f, c, s) cf -> side_ok side s = false.
Proof.
  unfold dense.
  destruct (find _ (rev cf)) as [[[fi ci] s0]|] eqn:E; [discriminate|].
  intros _ c s Hin. apply in_rev in Hin.
  pose proof (find_none _ _ E _ Hin) as H. cbn in H. rewrite Nat.eqb_refl in H. exact H.
Qed.

Lemma dense_unique side cf f c s :
  one_sided cf -> In (f, c, s) cf -> side_ok side s = true -> dense side cf f = Some c.
Proof.
  intros Hw Hin Hs. destruct (dense side cf f) as [c'|] eqn:E.
  - apply dense_some in E. destruct E as [s' [Hin' Hs']].
    f_equal. apply (Hw f c' c s' s Hin' Hin).
    destruct side; cbn in Hs, Hs'.
    + apply Z.ltb_lt in Hs, Hs'. nia.
    + apply Z.ltb_lt in Hs, Hs'. nia.
  - rewrite (dense_none _ _ _ E _ _ Hin) in Hs. discriminate.
Qed.

(* ====================================================================================== *)
(* Matrices as coordinate lists: row application, Kronecker expansion                      *)
(* ====================================================================================== *)

Local Open Scope R_scope.

(* (M x)_r for a coordinate list M *)
Definition row_apply (M : coo) (x : nat -> R) (r : nat) : R :=
  fold_right (fun (t : nat * nat * Z) acc =>
     if (fst (fst t) =? r)%nat then IZR (snd t) * x (snd (fst t)) + acc else acc) 0 M.

Lemma row_apply_cons t M x r :
  row_apply (t :: M) x r =
  if (fst (fst t) =? r)%nat then IZR (snd t) * x (snd (fst t)) + row_apply M x r
  else row_apply M x r.
Proof. reflexivity. Qed.

Lemma row_apply_nil x r : row_apply [] x r = 0.
Proof. reflexivity. Qed.

Lemma row_apply_app A B x r : row_apply (A ++ B) x r = row_apply A x r + row_apply B x r.
Proof.
  induction A as [|t A IH].
  - rewrite row_apply_nil. cbn [app]. lra.
  - change ((t :: A) ++ B) with (t :: (A ++ B)). rewrite !row_apply_cons, IH.
    destruct (fst (fst t) =? r)%nat; lra.
Qed.

Lemma kron_idx_inj (k r1 a r j : nat) :
  (a < k)%nat -> (j < k)%nat -> (r1 * k + a = r * k + j)%nat -> r1 = r /\ a = j.
Proof.
  intros Ha Hj H.
  destruct (Nat.lt_trichotomy r1 r) as [L|[L|L]].
  - assert ((S r1) * k <= r * k)%nat by (apply Nat.mul_le_mono_r; lia). simpl in H0. lia.
  - subst. lia.
  - assert ((S r) * k <= r1 * k)%nat by (apply Nat.mul_le_mono_r; lia). simpl in H0. lia.
Qed.

Lemma kron_cons k r c v M :
  kron k ((r, c, v) :: M) =
  map (fun j => (r * k + j, c * k + j, v)%nat) (seq 0 k) ++ kron k M.
Proof. reflexivity. Qed.

Lemma in_kron k M r c v :
  In (r, c, v) (kron k M) <->
  exists r0 c0 j, In (r0, c0, v) M /\ (j < k)%nat /\ r = (r0 * k + j)%nat /\ c = (c0 * k + j)%nat.
Proof.
  unfold kron. rewrite in_flat_map. split.
  - intros [[[r0 c0] v0] [Hin Hm]]. apply in_map_iff in Hm. destruct Hm as [j [Hj Hs]].
    apply in_seq in Hs. injection Hj as <- <- <-. exists r0, c0, j. repeat split; try lia. exact Hin.
  - intros [r0 [c0 [j [Hin [Hj [-> ->]]]]]]. exists (r0, c0, v). split; [exact Hin|].
    apply in_map_iff. exists j. split; [reflexivity|]. apply in_seq. lia.
Qed.

Lemma row_apply_block k r1 c1 v x r j : forall js,
  (forall a, In a js -> (a < k)%nat) -> NoDup js -> (j < k)%nat ->
  row_apply (map (fun a => (r1 * k + a, c1 * k + a, v)%nat) js) x (r * k + j) =
  if (r1 =? r)%nat && existsb (Nat.eqb j) js then IZR v * x (c1 * k + j)%nat else 0.
Proof.
  induction js as [|a js IH]; intros Hk Hnd Hj.
  - cbn. rewrite andb_false_r. reflexivity.
  - cbn [map]. rewrite row_apply_cons. cbn [fst snd existsb].
    inversion Hnd as [|? ? Hna Hnd']; subst.
    rewrite IH; [|intros; apply Hk; right; assumption|assumption|assumption].
    assert (Ha : (a < k)%nat) by (apply Hk; left; reflexivity).
    destruct (Nat.eqb_spec (r1 * k + a) (r * k + j)) as [E|E].
    + destruct (kron_idx_inj _ _ _ _ _ Ha Hj E) as [-> ->].
      rewrite !Nat.eqb_refl. cbn [andb orb].
      assert (existsb (Nat.eqb j) js = false) as ->.
      { destruct (existsb (Nat.eqb j) js) eqn:Ex; [|reflexivity].
        apply existsb_exists in Ex. destruct Ex as [y [Hy Hyj]]. apply Nat.eqb_eq in Hyj.
        subst. contradiction. }
      lra.
    + destruct (Nat.eqb_spec r1 r) as [->|Hr]; cbn [andb]; [|reflexivity].
      destruct (Nat.eqb_spec j a) as [->|Hja]; [contradiction E; reflexivity|].
      cbn [orb]. reflexivity.
Qed.

Lemma existsb_seq j k : (j < k)%nat -> existsb (Nat.eqb j) (seq 0 k) = true.
Proof.
  intros H. apply existsb_exists. exists j. split; [apply in_seq; lia | apply Nat.eqb_refl].
Qed.

(* the k-component matrix acts on component j as the one-component matrix *)
Lemma row_apply_kron k M x r j :
  (j < k)%nat ->
  row_apply (kron k M) x (r * k + j) = row_apply M (fun c => x (c * k + j)%nat) r.
Proof.
  intros Hj. induction M as [|[[r1 c1] v] M IH].
  - reflexivity.
  - rewrite kron_cons, row_apply_app, IH, row_apply_cons. cbn [fst snd].
    rewrite row_apply_block; [| intros a Ha; apply in_seq in Ha; lia | apply seq_NoDup | exact Hj].
    rewrite existsb_seq by exact Hj. rewrite andb_true_r.
    destruct (r1 =? r)%nat; lra.
Qed.

Lemma kron_1 M : kron 1 M = M.
Proof.
  induction M as [|[[r c] v] M IH]; [reflexivity|].
  rewrite kron_cons, IH. cbn [seq map app]. rewrite !Nat.mul_1_r, !Nat.add_0_r. reflexivity.
Qed.

Lemma row_apply_diag sel val x f : forall fs,
  NoDup fs ->
  row_apply (diag_rows fs sel val) x f =
  if existsb (Nat.eqb f) fs && sel f then IZR (val f) * x f else 0.
Proof.
  unfold diag_rows. induction fs as [|g fs IH]; intros Hnd.
  - reflexivity.
  - inversion Hnd as [|? ? Hng Hnd']; subst. cbn [filter existsb].
    destruct (Nat.eqb_spec f g) as [->|Hfg].
    + assert (existsb (Nat.eqb g) fs = false) as Ex.
      { destruct (existsb (Nat.eqb g) fs) eqn:Ex; [|reflexivity].
        apply existsb_exists in Ex. destruct Ex as [y [Hy Hyj]]. apply Nat.eqb_eq in Hyj.
        subst. contradiction. }
      destruct (sel g) eqn:Sg.
      * cbn [map]. rewrite row_apply_cons. cbn [fst snd]. rewrite Nat.eqb_refl.
        rewrite IH by assumption. rewrite Ex. cbn [orb andb]. lra.
      * rewrite IH by assumption. rewrite Ex. cbn [orb andb]. reflexivity.
    + cbn [orb]. destruct (sel g) eqn:Sg.
      * cbn [map]. rewrite row_apply_cons. cbn [fst snd].
        destruct (Nat.eqb_spec g f) as [->|_]; [contradiction Hfg; reflexivity|].
        apply IH; assumption.
      * apply IH; assumption.
Qed.

Lemma in_diag_rows fs sel val r c v :
  In (r, c, v) (diag_rows fs sel val) <-> In r fs /\ sel r = true /\ c = r /\ v = val r.
Proof.
  unfold diag_rows. rewrite in_map_iff. split.
  - intros [f [E Hf]]. apply filter_In in Hf. injection E as <- <- <-. tauto.
  - intros [Hf [Hs [-> ->]]]. exists r. split; [reflexivity|]. apply filter_In. tauto.
Qed.

Close Scope R_scope.

(* ====================================================================================== *)
(* The discretisation, for any flux type                                                  *)
(* ====================================================================================== *)
Section Generic.
  Variable T : Type.
  Variable nonneg : T -> bool.
  Variable I : input T.

  Notation pos := (pos T nonneg I).
  Notation up := (up T nonneg I).
  Notation inflow := (inflow T nonneg I).
  Notation deleted := (deleted T nonneg I).
  Notation upstream_rows := (upstream_rows T nonneg I).
  Notation faces := (faces T I).

  Lemma inflow_alt f : inflow f = is_dir I f && isnone (up f).
  Proof. unfold C17.inflow, C17.up. destruct (pos f); cbn; rewrite ?orb_false_r; reflexivity. Qed.

  (* the scipy failure: a kept face whose upstream side is outside (or out of range) *)
  Definition bad (f : nat) : Prop :=
    match up f with None => True | Some c => nc I <= c end.

  Lemma upstream_rows_in : forall fs M, upstream_rows fs = Some M ->
    forall f c v, In (f, c, v) M <->
      (In f fs /\ deleted f = false /\ up f = Some c /\ c < nc I /\ v = 1%Z).
  Proof.
    induction fs as [|g fs IH]; intros M H f c v.
    - injection H as <-. cbn. tauto.
    - cbn [C17.upstream_rows] in H. destruct (deleted g) eqn:Dg.
      + rewrite (IH _ H). cbn [In]. split.
        * intros [A B]. tauto.
        * intros [[->|A] [B C]]; [congruence | tauto].
      + destruct (up g) as [cg|] eqn:Ug; [|discriminate].
        destruct (Nat.leb_spec (nc I) cg) as [L|L]; [discriminate|].
        destruct (upstream_rows fs) as [M'|] eqn:R; [|discriminate].
        injection H as <-. cbn [In]. rewrite (IH _ eq_refl). split.
        * intros [E|A]; [injection E as <- <- <-; tauto | tauto].
        * intros [[->|A] [B [C [D ->]]]].
          -- left. rewrite Ug in C. injection C as ->. reflexivity.
          -- right. tauto.
  Qed.

  Lemma upstream_rows_none : forall fs,
    upstream_rows fs = None <-> exists f, In f fs /\ deleted f = false /\ bad f.
  Proof.
    unfold bad. induction fs as [|g fs IH].
    - cbn. split; [discriminate | intros [f [[] _]]].
    - cbn [C17.upstream_rows]. destruct (deleted g) eqn:Dg.
      + rewrite IH. split.
        * intros [f [A B]]. exists f. cbn [In]. tauto.
        * intros [f [[->|A] [B C]]]; [congruence | exists f; tauto].
      + destruct (up g) as [cg|] eqn:Ug.
        * destruct (Nat.leb_spec (nc I) cg) as [L|L].
          -- split; [|reflexivity]. intros _. exists g. rewrite Ug. cbn [In]. tauto.
          -- destruct (upstream_rows fs) as [M'|] eqn:R.
             ++ split; [discriminate|]. intros [f [[->|A] [B C]]].
                ** rewrite Ug in C. lia.
                ** assert (Y : exists f, In f fs /\ deleted f = false /\
                                match up f with Some c => nc I <= c | None => True end)
                     by (exists f; tauto).
                   apply IH in Y. discriminate Y.
             ++ split; [|reflexivity]. intros _.
                destruct (proj1 IH eq_refl) as [f [A B]]. exists f. cbn [In]. tauto.
        * split; [|reflexivity]. intros _. exists g. rewrite Ug. cbn [In]. tauto.
  Qed.

  Lemma in_faces f : In f faces <-> f < nf I.
  Proof. unfold C17.faces. rewrite in_seq. lia. Qed.

  Lemma faces_NoDup : NoDup faces.
  Proof. apply seq_NoDup. Qed.

  Lemma existsb_faces f : existsb (Nat.eqb f) faces = (f <? nf I).
  Proof.
    destruct (Nat.ltb_spec f (nf I)) as [L|L].
    - apply existsb_seq. exact L.
    - destruct (existsb (Nat.eqb f) faces) eqn:E; [|reflexivity].
      apply existsb_exists in E. destruct E as [y [Hy Hyf]]. apply Nat.eqb_eq in Hyf. subst.
      apply in_faces in Hy. lia.
  Qed.

  (* ---- what a successful run returns ---- *)
  Lemma discretize_ok o :
    discretize T nonneg I = Ok o -> dim I <> 0 ->
    exists M, upstream_rows faces = Some M /\
      upwind o = kron (ncomp I) M /\
      bound_dir o = kron (ncomp I) (diag_rows faces inflow (fun _ => 1%Z)) /\
      bound_neu o = kron (ncomp I) (diag_rows faces (is_neu I) (sgn_div (cf I))).
  Proof.
    unfold discretize. intros H Hd.
    destruct (Nat.eqb_spec (dim I) 0) as [E|_]; [contradiction|].
    destruct (upstream_rows faces) as [M|]; [|discriminate].
    injection H as <-. exists M. cbn. repeat split.
  Qed.

  Lemma discretize_err e :
    discretize T nonneg I = Err e <->
    dim I <> 0 /\ exists f, f < nf I /\ deleted f = false /\ bad f.
  Proof.
    unfold discretize. destruct (Nat.eqb_spec (dim I) 0) as [E|E].
    - split; [discriminate | intros [A _]; contradiction].
    - destruct (upstream_rows faces) as [M|] eqn:R.
      + split; [discriminate|]. intros [_ [f [A B]]].
        assert (Y : exists f, In f faces /\ deleted f = false /\ bad f)
          by (exists f; rewrite in_faces; tauto).
        apply upstream_rows_none in Y. congruence.
      + split; [|destruct e; reflexivity]. intros _. split; [exact E|].
        apply upstream_rows_none in R. destruct R as [f [A B]]. exists f.
        rewrite in_faces in A. tauto.
  Qed.

  Lemma discretize_point o :
    dim I = 0 -> discretize T nonneg I = Ok o ->
    upwind o = [] /\ bound_dir o = [] /\ bound_neu o = [] /\
    upwind_shape o = (0, 1) /\ bound_dir_shape o = (0, 0) /\ bound_neu_shape o = (0, 0).
  Proof.
    unfold discretize. intros -> H. cbn in H. injection H as <-. cbn. repeat split.
  Qed.

  (* ---- sign-based reading: the cell the flux leaves ---- *)
  Variable sgn : T -> Z.
  Hypothesis nonneg_sgn : forall x, nonneg x = (0 <=? sgn x)%Z.

  Definition leaves (f c : nat) : Prop :=
    exists s, In (f, c, s) (cf I) /\ (0 < s * sgn (q I f))%Z.

  Lemma up_some_leaves f c : sgn (q I f) <> 0%Z -> up f = Some c -> leaves f c.
  Proof.
    unfold C17.up, C17.pos, leaves. rewrite nonneg_sgn. intros Hz H.
    destruct (Z.leb_spec 0 (sgn (q I f))) as [L|L]; apply dense_some in H;
      destruct H as [s [Hin Hs]]; exists s; (split; [exact Hin|]); cbn in Hs;
      apply Z.ltb_lt in Hs; nia.
  Qed.

  Lemma leaves_up_not_none f c : leaves f c -> up f <> None.
  Proof.
    unfold C17.up, C17.pos, leaves. rewrite nonneg_sgn. intros [s [Hin Hs]] H.
    destruct (Z.leb_spec 0 (sgn (q I f))) as [L|L];
      pose proof (dense_none _ _ _ H _ _ Hin) as X; cbn in X; apply Z.ltb_ge in X; nia.
  Qed.

  Lemma leaves_up f c : one_sided (cf I) -> leaves f c -> up f = Some c.
  Proof.
    unfold C17.up, C17.pos, leaves. rewrite nonneg_sgn. intros Hw [s [Hin Hs]].
    destruct (Z.leb_spec 0 (sgn (q I f))) as [L|L];
      apply (dense_unique _ _ _ _ s Hw Hin); cbn; apply Z.ltb_lt; nia.
  Qed.

  Lemma up_none_no_leaves f : sgn (q I f) <> 0%Z -> (up f = None <-> forall c, ~ leaves f c).
  Proof.
    intros Hz. split.
    - intros H c Hl. exact (leaves_up_not_none _ _ Hl H).
    - intros H. destruct (up f) as [c|] eqn:E; [|reflexivity].
      exfalso. exact (H c (up_some_leaves _ _ Hz E)).
  Qed.

  (* a boundary side: no cell with positive (resp. negative) sign *)
  Definition missing_side (f : nat) : Prop :=
    exists side, forall c s, In (f, c, s) (cf I) -> side_ok side s = false.

  Lemma up_none_missing f : up f = None -> missing_side f.
  Proof.
    unfold C17.up, missing_side. destruct (pos f); intros H.
    - exists true. exact (dense_none _ _ _ H).
    - exists false. exact (dense_none _ _ _ H).
  Qed.

  (* ---------------- C17_upstream ---------------- *)
  Theorem upstream_theorem o :
    one_sided (cf I) -> discretize T nonneg I = Ok o -> dim I <> 0 ->
    forall f j, f < nf I -> j < ncomp I -> sgn (q I f) <> 0%Z ->
      let k := ncomp I in
      ((is_neu I f = true \/ (is_dir I f = true /\ forall c, ~ leaves f c)) ->
         forall c v, ~ In (f * k + j, c, v) (upwind o))
      /\ (is_neu I f = false -> forall c0, leaves f c0 ->
            c0 < nc I /\
            forall c v, In (f * k + j, c, v) (upwind o) <-> (c = c0 * k + j /\ v = 1%Z))
      /\ (is_neu I f = false -> (is_dir I f = false \/ exists c, leaves f c) ->
            exists c0, leaves f c0 /\ c0 < nc I).
  Proof.
    intros Hw Hok Hd f j Hf Hj Hz k.
    destruct (discretize_ok _ Hok Hd) as [M [HM [HU _]]].
    pose proof (upstream_rows_in _ _ HM) as HIn.
    assert (Hrow : forall c v, In (f * k + j, c, v) (upwind o) <->
                               exists c0, In (f, c0, v) M /\ c = c0 * k + j).
    { intros c v. rewrite HU, in_kron. fold k. split.
      - intros [r0 [c0 [j0 [A [B [C D]]]]]].
        destruct (kron_idx_inj _ _ _ _ _ Hj B C) as [<- <-]. exists c0. tauto.
      - intros [c0 [A B]]. exists f, c0, j. tauto. }
    split; [|split].
    - intros Hdel c v Hin. apply Hrow in Hin. destruct Hin as [c0 [A _]].
      apply HIn in A. destruct A as [_ [Dl [Uf _]]].
      unfold C17.deleted in Dl. apply orb_false_iff in Dl. destruct Dl as [Dn Di].
      destruct Hdel as [Hn|[Hdir Hno]]; [congruence|].
      rewrite inflow_alt, Hdir in Di. rewrite (proj2 (up_none_no_leaves f Hz) Hno) in Di.
      discriminate.
    - intros Hn c0 Hl. pose proof (leaves_up _ _ Hw Hl) as Uf.
      assert (Dl : deleted f = false).
      { unfold C17.deleted. rewrite Hn, inflow_alt, Uf. cbn. apply andb_false_r. }
      assert (Hc0 : c0 < nc I).
      { destruct (Nat.lt_ge_cases c0 (nc I)) as [L|L]; [exact L|].
        assert (Y : exists f, In f faces /\ deleted f = false /\ bad f).
        { exists f. rewrite in_faces. unfold bad. rewrite Uf. tauto. }
        apply upstream_rows_none in Y. congruence. }
      split; [exact Hc0|].
      intros c v. rewrite Hrow. split.
      + intros [c1 [A ->]]. apply HIn in A. destruct A as [_ [_ [U1 [_ ->]]]].
        rewrite Uf in U1. injection U1 as <-. tauto.
      + intros [-> ->]. exists c0. split; [|reflexivity]. apply HIn.
        rewrite in_faces. tauto.
    - intros Hn Hor.
      assert (Dl : deleted f = false).
      { unfold C17.deleted. rewrite Hn, inflow_alt. cbn.
        destruct Hor as [Hdir|[c Hl]].
        - rewrite Hdir. reflexivity.
        - destruct (up f) eqn:E; [apply andb_false_r|].
          exfalso. exact (leaves_up_not_none _ _ Hl E). }
      destruct (up f) as [c0|] eqn:Uf.
      + exists c0. split; [exact (up_some_leaves _ _ Hz Uf)|].
        destruct (Nat.lt_ge_cases c0 (nc I)) as [L|L]; [exact L|].
        assert (Y : exists f, In f faces /\ deleted f = false /\ bad f).
        { exists f. rewrite in_faces. unfold bad. rewrite Uf. tauto. }
        apply upstream_rows_none in Y. congruence.
      + assert (Y : exists f, In f faces /\ deleted f = false /\ bad f).
        { exists f. rewrite in_faces. unfold bad. rewrite Uf. tauto. }
        apply upstream_rows_none in Y. congruence.
  Qed.
  (* ---------------- C17_boundary_data ---------------- *)
  Theorem boundary_dir_theorem o :
    discretize T nonneg I = Ok o -> dim I <> 0 ->
    let k := ncomp I in
    (forall r c v, In (r, c, v) (bound_dir o) ->
       exists f j, f < nf I /\ j < k /\ r = f * k + j /\ c = f * k + j /\ v = 1%Z /\
                   is_dir I f = true /\ missing_side f /\
                   (sgn (q I f) <> 0%Z -> forall c', ~ leaves f c'))
    /\ (forall f j, f < nf I -> j < k -> is_dir I f = true -> sgn (q I f) <> 0%Z ->
          (forall c', ~ leaves f c') -> In (f * k + j, f * k + j, 1%Z) (bound_dir o)).
  Proof.
    intros Hok Hd k. destruct (discretize_ok _ Hok Hd) as [M [_ [_ [HD _]]]]. split.
    - intros r c v Hin. rewrite HD in Hin. apply in_kron in Hin.
      destruct Hin as [f [c0 [j [A [Hj [-> ->]]]]]]. apply in_diag_rows in A.
      destruct A as [Hf [Hi [-> ->]]]. apply in_faces in Hf.
      rewrite inflow_alt in Hi. apply andb_true_iff in Hi. destruct Hi as [Hdir Hn].
      assert (Un : up f = None) by (destruct (up f); [discriminate | reflexivity]).
      exists f, j. repeat split; try assumption.
      + exact (up_none_missing _ Un).
      + intros Hz. apply up_none_no_leaves; assumption.
    - intros f j Hf Hj Hdir Hz Hno. rewrite HD. apply in_kron. exists f, f, j.
      repeat split; try assumption. apply in_diag_rows. rewrite in_faces.
      repeat split; try assumption. rewrite inflow_alt, Hdir.
      rewrite (proj2 (up_none_no_leaves f Hz) Hno). reflexivity.
  Qed.

  Theorem boundary_neu_theorem o :
    discretize T nonneg I = Ok o -> dim I <> 0 ->
    let k := ncomp I in
    forall r c v, In (r, c, v) (bound_neu o) <->
       exists f j, f < nf I /\ j < k /\ r = f * k + j /\ c = f * k + j /\
                   v = sgn_div (cf I) f /\ is_neu I f = true.
  Proof.
    intros Hok Hd k r c v. destruct (discretize_ok _ Hok Hd) as [M [_ [_ [_ HN]]]].
    rewrite HN, in_kron. split.
    - intros [f [c0 [j [A [Hj [-> ->]]]]]]. apply in_diag_rows in A.
      destruct A as [Hf [Hi [-> ->]]]. apply in_faces in Hf. exists f, j. tauto.
    - intros [f [j [Hf [Hj [-> [-> [-> Hn]]]]]]]. exists f, f, j.
      repeat split; try assumption. apply in_diag_rows. rewrite in_faces. tauto.
  Qed.

  (* ---------------- C17_total: Dirichlet/Neumann data never raise ---------------- *)
  Theorem total_theorem :
    (forall f c s, In (f, c, s) (cf I) -> c < nc I) ->
    (forall f, f < nf I ->
       is_neu I f = true \/ is_dir I f = true \/
       ((exists c s, In (f, c, s) (cf I) /\ (0 < s)%Z) /\
        (exists c s, In (f, c, s) (cf I) /\ (s < 0)%Z))) ->
    exists o, discretize T nonneg I = Ok o.
  Proof.
    intros Hrange Hbc. destruct (discretize T nonneg I) as [o|e] eqn:E; [exists o; reflexivity|].
    exfalso. apply discretize_err in E. destruct E as [_ [f [Hf [Dl Hb]]]].
    unfold C17.deleted in Dl. apply orb_false_iff in Dl. destruct Dl as [Dn Di].
    rewrite inflow_alt in Di. unfold bad in Hb.
    destruct (up f) as [c|] eqn:Uf.
    - assert (c < nc I); [|lia].
      unfold C17.up in Uf. destruct (pos f); apply dense_some in Uf;
        destruct Uf as [s [Hin _]]; exact (Hrange _ _ _ Hin).
    - destruct (Hbc f Hf) as [Hn|[Hdir|[[c0 [s0 [H0 S0]]] [c1 [s1 [H1 S1]]]]]].
      + congruence.
      + rewrite Hdir in Di. discriminate.
      + unfold C17.up in Uf. destruct (pos f).
        * pose proof (dense_none _ _ _ Uf _ _ H0) as X. cbn in X. apply Z.ltb_ge in X. lia.
        * pose proof (dense_none _ _ _ Uf _ _ H1) as X. cbn in X. apply Z.ltb_ge in X. lia.
  Qed.
End Generic.


(* ====================================================================================== *)
(* The explicit transport step over the reals                                             *)
(* ====================================================================================== *)
Local Open Scope R_scope.

Definition nonnegR (x : R) : bool := if Rle_dec 0 x then true else false.

Definition rsum (g : nat -> R) (n : nat) : R :=
  fold_right (fun i acc => g i + acc) 0 (seq 0 n).

Lemma rsum_seq_ext (g h : nat -> R) : forall l : list nat, (forall i, In i l -> g i = h i) ->
  fold_right (fun i acc => g i + acc) 0 l = fold_right (fun i acc => h i + acc) 0 l.
Proof.
  induction l as [|a l IH]; intros H; [reflexivity|]. cbn [fold_right].
  rewrite (H a) by (left; reflexivity). rewrite IH; [reflexivity|].
  intros i Hi. apply H. right. exact Hi.
Qed.

Lemma rsum_ext g h n : (forall i, (i < n)%nat -> g i = h i) -> rsum g n = rsum h n.
Proof. intros H. apply rsum_seq_ext. intros i Hi. apply in_seq in Hi. apply H. lia. Qed.

Lemma rsum_zero g n : (forall i, (i < n)%nat -> g i = 0) -> rsum g n = 0.
Proof.
  intros H. unfold rsum. assert (X : forall i, In i (seq 0 n) -> g i = 0)
    by (intros i Hi; apply in_seq in Hi; apply H; lia).
  induction (seq 0 n) as [|a l IH]; [reflexivity|]. cbn [fold_right].
  rewrite (X a) by (left; reflexivity). rewrite IH; [lra|]. intros; apply X; right; assumption.
Qed.

Lemma rsum_plus g h n : rsum (fun i => g i + h i) n = rsum g n + rsum h n.
Proof. unfold rsum. induction (seq 0 n) as [|a l IH]; cbn [fold_right]; [lra|rewrite IH; lra]. Qed.

Lemma rsum_scal a g n : rsum (fun i => a * g i) n = a * rsum g n.
Proof. unfold rsum. induction (seq 0 n) as [|b l IH]; cbn [fold_right]; [lra|rewrite IH; lra]. Qed.

(* adding [a] at one index [k] *)
Lemma sum_add_at (k : nat) (a : R) (h : nat -> R) : forall l : list nat, NoDup l ->
  fold_right (fun i acc => (if (k =? i)%nat then a + h i else h i) + acc) 0 l =
  (if existsb (Nat.eqb k) l then a else 0) + fold_right (fun i acc => h i + acc) 0 l.
Proof.
  induction l as [|b l IH]; intros Hnd; cbn [fold_right existsb]; [lra|].
  inversion Hnd as [|? ? Hnb Hnd']; subst. rewrite IH by assumption.
  destruct (Nat.eqb_spec k b) as [->|Hkb]; cbn [orb].
  - assert (existsb (Nat.eqb b) l = false) as ->.
    { destruct (existsb (Nat.eqb b) l) eqn:Ex; [|reflexivity].
      apply existsb_exists in Ex. destruct Ex as [y [Hy Hyj]]. apply Nat.eqb_eq in Hyj.
      subst. contradiction. }
    lra.
  - lra.
Qed.

Lemma rsum_add_at (k : nat) (a : R) (h : nat -> R) n : (k < n)%nat ->
  rsum (fun i => if (k =? i)%nat then a + h i else h i) n = a + rsum h n.
Proof.
  intros Hk. unfold rsum. rewrite sum_add_at by apply seq_NoDup.
  rewrite existsb_seq by exact Hk. reflexivity.
Qed.

(* sum over all entries = sum over keys of the per-key sums *)
Lemma sum_by_key (key : inc -> nat) (g : inc -> R) n : forall l,
  (forall t, In t l -> (key t < n)%nat) ->
  rsum (fun i => fold_right (fun t acc => if (key t =? i)%nat then g t + acc else acc) 0 l) n
  = fold_right (fun t acc => g t + acc) 0 l.
Proof.
  induction l as [|t l IH]; intros H.
  - cbn [fold_right]. apply rsum_zero. reflexivity.
  - cbn [fold_right]. rewrite <- IH by (intros; apply H; right; assumption).
    rewrite <- (rsum_add_at (key t) (g t)) by (apply H; left; reflexivity).
    apply rsum_ext. intros i _. destruct (key t =? i)%nat; reflexivity.
Qed.

Section Step.
  Variable I : input R.
  Variable o : output.
  Variable b : nat -> R.        (* boundary values, per face *)
  Variable vol : nat -> R.      (* cell volumes *)
  Variable dt : R.

  Notation up := (up R nonnegR I).
  Notation inflow := (inflow R nonnegR I).
  Notation deleted := (deleted R nonnegR I).
  Notation faces := (faces R I).

  (* advective flux through face f, as composed in porepy's models:
       darcy_flux * (upwind @ c) + bound_transport_dir @ (darcy_flux * bc) + bound_transport_neu @ bc *)
  Definition face_flux (c : nat -> R) (f : nat) : R :=
    q I f * row_apply (upwind o) c f
    + row_apply (bound_dir o) (fun g => q I g * b g) f
    + row_apply (bound_neu o) b f.

  (* (Div F)_i with Div = cell_faces^T *)
  Definition div_list (l : list inc) (F : nat -> R) (i : nat) : R :=
    fold_right (fun t acc => if (tc t =? i)%nat then IZR (ts t) * F (tf t) + acc else acc) 0 l.
  Definition div_cell (F : nat -> R) (i : nat) : R := div_list (cf I) F i.

  (* sum of the outgoing fluxes of cell i *)
  Definition out_list (l : list inc) (i : nat) : R :=
    fold_right (fun t acc => if (tc t =? i)%nat then Rmax (IZR (ts t) * q I (tf t)) 0 + acc else acc)
               0 l.
  Definition outflow (i : nat) : R := out_list (cf I) i.

  Definition step (c : nat -> R) (i : nat) : R := c i - dt / vol i * div_cell (face_flux c) i.

  Definition total (c : nat -> R) : R := rsum (fun i => vol i * c i) (nc I).

  (* no-flow boundary: a face either carries no flux and no boundary value, or is an interior
     face (no boundary flag, signs cancel in the divergence) *)
  Definition noflow (f : nat) : Prop :=
    (q I f = 0 /\ b f = 0) \/
    (is_neu I f = false /\ is_dir I f = false /\ sgn_div (cf I) f = 0%Z).

  Definition wf_inc : Prop :=
    forall t, In t (cf I) -> (tf t < nf I)%nat /\ (tc t < nc I)%nat.

  Hypothesis Hok : discretize R nonnegR I = Ok o.
  Hypothesis Hdim : dim I <> 0%nat.
  Hypothesis Hk : ncomp I = 1%nat.

  Lemma face_flux_char c f : (f < nf I)%nat ->
    face_flux c f =
      (if deleted f then 0 else q I f * match up f with Some cu => c cu | None => 0 end)
      + (if inflow f then q I f * b f else 0)
      + (if is_neu I f then IZR (sgn_div (cf I) f) * b f else 0).
  Proof.
    intros Hf. unfold face_flux.
    destruct (discretize_ok _ _ _ _ Hok Hdim) as [M [HM [HU [HD HN]]]].
    rewrite Hk, kron_1 in HU, HD, HN. rewrite HU, HD, HN.
    rewrite !row_apply_diag by apply faces_NoDup. rewrite !existsb_faces.
    apply Nat.ltb_lt in Hf. rewrite Hf. cbn [andb]. apply Nat.ltb_lt in Hf.
    { (* upwind row *)
      assert (Hrow : row_apply M c f =
                     if deleted f then 0 else match up f with Some cu => c cu | None => 0 end).
      { clear HU. assert (Hin : In f faces) by (apply in_faces; exact Hf).
        pose proof (faces_NoDup R I) as Hnd. revert M HM Hin Hnd.
        generalize faces as fs. induction fs as [|g fs IH]; intros M HM Hin Hnd; [destruct Hin|].
        inversion Hnd as [|? ? Hng Hnd']; subst.
        assert (Hnot : forall M', C17.upstream_rows R nonnegR I fs = Some M' -> ~ In f fs ->
                                  row_apply M' c f = 0).
        { intros M' HM' Hnf. clear - HM' Hnf.
          assert (X : forall r cc v, In (r, cc, v) M' -> r <> f).
          { intros r cc v Hi. apply (upstream_rows_in _ _ _ _ _ HM') in Hi.
            intros ->. tauto. }
          clear HM'. induction M' as [|[[r cc] v] M' IHM]; [reflexivity|].
          rewrite row_apply_cons. cbn [fst snd].
          destruct (Nat.eqb_spec r f) as [E|_].
          - exfalso. exact (X r cc v (or_introl eq_refl) E).
          - apply IHM. intros; eapply X; right; eassumption. }
        cbn [C17.upstream_rows] in HM. destruct (deleted g) eqn:Dg.
        - destruct Hin as [->|Hin].
          + rewrite Dg. apply Hnot; assumption.
          + apply IH; assumption.
        - destruct (up g) as [cg|] eqn:Ug; [|discriminate].
          destruct (nc I <=? cg)%nat; [discriminate|].
          destruct (C17.upstream_rows R nonnegR I fs) as [M'|] eqn:R'; [|discriminate].
          injection HM as <-. rewrite row_apply_cons. cbn [fst snd].
          destruct Hin as [->|Hin].
          + rewrite Nat.eqb_refl, Dg, Ug. rewrite (Hnot M' eq_refl Hng). lra.
          + destruct (Nat.eqb_spec g f) as [->|_]; [contradiction|].
            apply IH; [reflexivity|assumption|assumption]. }
      rewrite Hrow. destruct (deleted f), (inflow f), (is_neu I f); lra. }
  Qed.

  (* ---------------- C17_conservative ---------------- *)
  Lemma total_step c :
    (forall i, (i < nc I)%nat -> vol i <> 0) ->
    total (step c) = total c - dt * rsum (div_cell (face_flux c)) (nc I).
  Proof.
    intros Hv. unfold total, step. rewrite <- rsum_scal.
    replace (rsum (fun i => vol i * c i) (nc I) - rsum (fun i => dt * div_cell (face_flux c) i) (nc I))
      with (rsum (fun i => vol i * c i + (-1) * (dt * div_cell (face_flux c) i)) (nc I)).
    - apply rsum_ext. intros i Hi. field. apply Hv. exact Hi.
    - rewrite rsum_plus, rsum_scal. lra.
  Qed.

  Lemma sum_sgn_div (F : nat -> R) : forall l,
    (forall t, In t l -> (tf t < nf I)%nat) ->
    fold_right (fun t acc => IZR (ts t) * F (tf t) + acc) 0 l
    = rsum (fun f => IZR (sgn_div l f) * F f) (nf I).
  Proof.
    induction l as [|[[f0 c0] s0] l IH]; intros H.
    - cbn [fold_right sgn_div]. symmetry. apply rsum_zero. intros; lra.
    - cbn [fold_right]. rewrite IH by (intros; apply H; right; assumption).
      unfold ts, tf. cbn [fst snd].
      rewrite <- (rsum_add_at f0 (IZR s0 * F f0)).
      + apply rsum_ext. intros i _. cbn [sgn_div fold_right].
        fold (sgn_div l i). destruct (Nat.eqb_spec f0 i) as [->|_]; [rewrite plus_IZR; lra|reflexivity].
      + specialize (H _ (or_introl eq_refl)). exact H.
  Qed.

  Theorem conservative_theorem c :
    wf_inc -> (forall f, (f < nf I)%nat -> noflow f) ->
    (forall i, (i < nc I)%nat -> vol i <> 0) ->
    total (step c) = total c.
  Proof.
    intros Hwf Hnf Hv. rewrite total_step by exact Hv.
    assert (Z : rsum (div_cell (face_flux c)) (nc I) = 0); [|rewrite Z; lra].
    unfold div_cell, div_list.
    rewrite (sum_by_key tc (fun t => IZR (ts t) * face_flux c (tf t)))
      by (intros t Ht; apply Hwf; exact Ht).
    rewrite sum_sgn_div by (intros t Ht; apply Hwf; exact Ht).
    apply rsum_zero. intros f Hf. rewrite (face_flux_char c f Hf).
    destruct (Hnf f Hf) as [[Hq Hb]|[Hn [Hd Hs]]].
    - rewrite Hq, Hb. destruct (deleted f), (inflow f), (is_neu I f); lra.
    - rewrite Hs. lra.
  Qed.

  (* ---------------- C17_max_principle ---------------- *)
  Lemma nonnegR_true x : nonnegR x = true <-> 0 <= x.
  Proof. unfold nonnegR. destruct (Rle_dec 0 x); split; intros; try assumption; try reflexivity; try discriminate; contradiction. Qed.

  Lemma up_out f i s :
    one_sided (cf I) -> In (f, i, s) (cf I) -> IZR s * q I f > 0 -> up f = Some i.
  Proof.
    intros Hw Hin Hp. unfold C17.up, C17.pos.
    destruct (nonnegR (q I f)) eqn:E.
    - apply nonnegR_true in E. apply (dense_unique _ _ _ _ s Hw Hin). cbn.
      apply Z.ltb_lt. apply lt_IZR. nra.
    - assert (q I f < 0).
      { destruct (Rle_dec 0 (q I f)) as [L|L]; [apply nonnegR_true in L; congruence|lra]. }
      apply (dense_unique _ _ _ _ s Hw Hin). cbn. apply Z.ltb_lt. apply lt_IZR. nra.
  Qed.

  Lemma kept_up f : (f < nf I)%nat -> deleted f = false -> exists cu, up f = Some cu /\ (cu < nc I)%nat.
  Proof.
    intros Hf Dl. destruct (discretize_ok _ _ _ _ Hok Hdim) as [M [HM _]].
    destruct (up f) as [cu|] eqn:Uf.
    - exists cu. split; [reflexivity|].
      destruct (Nat.lt_ge_cases cu (nc I)) as [L|L]; [exact L|].
      assert (Y : exists f, In f faces /\ deleted f = false /\ bad R nonnegR I f).
      { exists f. rewrite in_faces. unfold bad. rewrite Uf. tauto. }
      apply upstream_rows_none in Y. congruence.
    - assert (Y : exists f, In f faces /\ deleted f = false /\ bad R nonnegR I f).
      { exists f. rewrite in_faces. unfold bad. rewrite Uf. tauto. }
      apply upstream_rows_none in Y. congruence.
  Qed.

  Lemma face_u c m M f i :
    one_sided (cf I) -> (f < nf I)%nat -> noflow f -> (i < nc I)%nat ->
    (forall j, (j < nc I)%nat -> m <= c j <= M) ->
    exists u, face_flux c f = q I f * u /\ m <= u <= M /\
              (forall s, In (f, i, s) (cf I) -> IZR s * q I f > 0 -> u = c i).
  Proof.
    intros Hw Hf Hn Hi Hb. rewrite (face_flux_char c f Hf).
    destruct Hn as [[Hq Hbf]|[Hn [Hd Hs]]].
    - exists (c i). rewrite Hq, Hbf. split; [|split].
      + destruct (deleted f), (inflow f), (is_neu I f); lra.
      + apply Hb; exact Hi.
      + reflexivity.
    - assert (Di : inflow f = false) by (rewrite inflow_alt, Hd; reflexivity).
      assert (Dl : deleted f = false) by (unfold C17.deleted; rewrite Hn, Di; reflexivity).
      destruct (kept_up f Hf Dl) as [cu [Uf Hcu]].
      rewrite Dl, Di, Hn, Uf. exists (c cu). split; [lra|]. split; [apply Hb; exact Hcu|].
      intros s Hin Hp. rewrite (up_out _ _ _ Hw Hin Hp) in Uf. injection Uf as ->. reflexivity.
  Qed.

  Lemma div_bounds c m M i :
    one_sided (cf I) -> wf_inc -> (forall f, (f < nf I)%nat -> noflow f) -> (i < nc I)%nat ->
    (forall j, (j < nc I)%nat -> m <= c j <= M) ->
    div_cell (q I) i * M + outflow i * (c i - M) <= div_cell (face_flux c) i
    /\ div_cell (face_flux c) i <= div_cell (q I) i * m + outflow i * (c i - m)
    /\ 0 <= outflow i.
  Proof.
    intros Hw Hwf Hnf Hi Hb. unfold div_cell, outflow.
    assert (G : forall l, (forall t, In t l -> In t (cf I)) ->
      div_list l (q I) i * M + out_list l i * (c i - M) <= div_list l (face_flux c) i
      /\ div_list l (face_flux c) i <= div_list l (q I) i * m + out_list l i * (c i - m)
      /\ 0 <= out_list l i); [|apply G; intros; assumption].
    induction l as [|[[f cc] s] l IH]; intros Hsub.
    - unfold div_list, out_list. cbn [fold_right]. lra.
    - assert (IH' := IH (fun t Ht => Hsub t (or_intror Ht))). clear IH.
      unfold div_list, out_list in *. cbn [fold_right]. unfold tc, ts, tf in *. cbn [fst snd] in *.
      destruct (Nat.eqb_spec cc i) as [->|_]; [|exact IH'].
      pose proof (Hsub _ (or_introl eq_refl)) as Hin.
      destruct (Hwf _ Hin) as [Hf _]. unfold tf in Hf. cbn [fst] in Hf.
      destruct (face_u c m M f i Hw Hf (Hnf f Hf) Hi Hb) as [u [HF [Hu Hsel]]].
      rewrite HF. specialize (Hsel s Hin).
      pose proof (Hb i Hi) as Hci.
      set (a := IZR s * q I f) in *.
      replace (IZR s * (q I f * u)) with (a * u) by (unfold a; ring).
      destruct IH' as [L [U P]].
      set (D := fold_right _ 0 l) in *. set (Q := fold_right _ 0 l) in *.
      set (O := fold_right _ 0 l) in *.
      destruct (Rle_dec a 0) as [Ha|Ha].
      + rewrite Rmax_right by exact Ha. repeat split; nra.
      + assert (a > 0) by lra. rewrite Rmax_left by lra. rewrite (Hsel H).
        repeat split; nra.
  Qed.

  Theorem max_principle_theorem c m M :
    one_sided (cf I) -> wf_inc -> (forall f, (f < nf I)%nat -> noflow f) ->
    0 <= dt ->
    (forall i, (i < nc I)%nat -> 0 < vol i /\ dt * outflow i <= vol i) ->     (* CFL *)
    (forall i, (i < nc I)%nat -> div_cell (q I) i = 0) ->                      (* divergence free *)
    (forall j, (j < nc I)%nat -> m <= c j <= M) ->
    forall i, (i < nc I)%nat -> m <= step c i <= M.
  Proof.
    intros Hw Hwf Hnf Hdt Hcfl Hdiv Hb i Hi.
    destruct (div_bounds c m M i Hw Hwf Hnf Hi Hb) as [L [U P]].
    rewrite (Hdiv i Hi) in L, U. destruct (Hcfl i Hi) as [Hv Hc]. pose proof (Hb i Hi) as Hci.
    unfold step. set (D := div_cell (face_flux c) i) in *. set (O := outflow i) in *.
    set (lam := dt / vol i).
    assert (Hl : 0 <= lam).
    { unfold lam, Rdiv. apply Rmult_le_pos; [exact Hdt|]. left. apply Rinv_0_lt_compat. exact Hv. }
    assert (HlO : lam * O <= 1).
    { apply (Rmult_le_reg_r (vol i)); [exact Hv|].
      replace (lam * O * vol i) with (dt * O) by (unfold lam; field; lra). lra. }
    assert (HlO0 : 0 <= lam * O) by (apply Rmult_le_pos; assumption).
    assert (A1 : 0 <= lam * (D - O * (c i - M))) by (apply Rmult_le_pos; lra).
    assert (A2 : 0 <= lam * (O * (c i - m) - D)) by (apply Rmult_le_pos; lra).
    assert (A3 : 0 <= (1 - lam * O) * (M - c i)) by (apply Rmult_le_pos; lra).
    assert (A4 : 0 <= (1 - lam * O) * (c i - m)) by (apply Rmult_le_pos; lra).
    split; nra.
  Qed.
End Step.

(* ====================================================================================== *)
(* Components: the k-component matrices are per-component copies                          *)
(* ====================================================================================== *)
Section Components.
  Variable T : Type.
  Variable nonneg : T -> bool.

  Definition set_ncomp (I : input T) (k : nat) : input T :=
    {| dim := dim I; nf := nf I; nc := nc I; cf := cf I; q := q I;
       is_dir := is_dir I; is_neu := is_neu I; ncomp := k |}.

  Lemma upstream_rows_ncomp I k fs :
    upstream_rows T nonneg (set_ncomp I k) fs = upstream_rows T nonneg I fs.
  Proof.
    induction fs as [|f fs IH]; [reflexivity|].
    cbn [upstream_rows]. rewrite IH. reflexivity.
  Qed.

  Theorem components_theorem I o :
    discretize T nonneg I = Ok o -> dim I <> 0%nat ->
    let k := ncomp I in
    exists o1, discretize T nonneg (set_ncomp I 1) = Ok o1 /\
      upwind o = kron k (upwind o1) /\
      bound_dir o = kron k (bound_dir o1) /\
      bound_neu o = kron k (bound_neu o1) /\
      upwind_shape o = (nf I * k, nc I * k)%nat /\
      bound_dir_shape o = (nf I * k, nf I * k)%nat /\
      bound_neu_shape o = (nf I * k, nf I * k)%nat /\
      forall (x : nat -> R) f j, (j < k)%nat ->
        row_apply (upwind o) x (f * k + j) = row_apply (upwind o1) (fun c => x (c * k + j)%nat) f /\
        row_apply (bound_dir o) x (f * k + j) = row_apply (bound_dir o1) (fun c => x (c * k + j)%nat) f /\
        row_apply (bound_neu o) x (f * k + j) = row_apply (bound_neu o1) (fun c => x (c * k + j)%nat) f.
  Proof.
    intros Hok Hd k.
    destruct (discretize_ok _ _ _ _ Hok Hd) as [M [HM [HU [HD HN]]]].
    assert (Hs : upwind_shape o = (nf I * k, nc I * k)%nat /\
                 bound_dir_shape o = (nf I * k, nf I * k)%nat /\
                 bound_neu_shape o = (nf I * k, nf I * k)%nat).
    { unfold discretize in Hok. destruct (Nat.eqb_spec (dim I) 0) as [E|_]; [contradiction|].
      destruct (upstream_rows T nonneg I (faces T I)); [|discriminate].
      injection Hok as <-. cbn. repeat split. }
    destruct (discretize T nonneg (set_ncomp I 1)) as [o1|e] eqn:E1.
    - exists o1. assert (Hd1 : dim (set_ncomp I 1) <> 0%nat) by exact Hd.
      destruct (discretize_ok _ _ _ _ E1 Hd1) as [M1 [HM1 [HU1 [HD1 HN1]]]].
      cbn [ncomp set_ncomp] in HU1, HD1, HN1. rewrite kron_1 in HU1, HD1, HN1.
      change (faces T (set_ncomp I 1)) with (faces T I) in *.
      rewrite upstream_rows_ncomp in HM1. rewrite HM in HM1. injection HM1 as <-.
      assert (EU : upwind o = kron k (upwind o1)) by (rewrite HU1; exact HU).
      assert (ED : bound_dir o = kron k (bound_dir o1)) by (rewrite HD1; exact HD).
      assert (EN : bound_neu o = kron k (bound_neu o1)) by (rewrite HN1; exact HN).
      split; [reflexivity|]. repeat (split; [tauto|]).
      intros x f j Hj. rewrite EU, ED, EN. repeat split; apply row_apply_kron; exact Hj.
    - exfalso. apply discretize_err in E1. destruct E1 as [_ [f [Hf [Dl Hb]]]].
      assert (Y : exists f, In f (faces T I) /\ deleted T nonneg I f = false /\ bad T nonneg I f).
      { exists f. rewrite in_faces. split; [exact Hf|]. split; [exact Dl | exact Hb]. }
      apply upstream_rows_none in Y. congruence.
  Qed.
End Components.

(* ---------------- several steps ---------------- *)
Fixpoint steps (I : input R) (o : output) (b vol : nat -> R) (dt : R) (n : nat)
         (c : nat -> R) : nat -> R :=
  match n with
  | O => c
  | S n' => step I o b vol dt (steps I o b vol dt n' c)
  end.

Lemma steps_conservative I o b vol dt :
  discretize R nonnegR I = Ok o -> dim I <> 0%nat -> ncomp I = 1%nat ->
  wf_inc I -> (forall f, (f < nf I)%nat -> noflow I b f) ->
  (forall i, (i < nc I)%nat -> vol i <> 0) ->
  forall n c, total I vol (steps I o b vol dt n c) = total I vol c.
Proof.
  intros Hok Hd Hk Hwf Hnf Hv. induction n as [|n IH]; intros c; [reflexivity|].
  cbn [steps]. rewrite (conservative_theorem I o b vol dt Hok Hd Hk _ Hwf Hnf Hv). apply IH.
Qed.

Lemma steps_bounded I o b vol dt :
  discretize R nonnegR I = Ok o -> dim I <> 0%nat -> ncomp I = 1%nat ->
  one_sided (cf I) -> wf_inc I -> (forall f, (f < nf I)%nat -> noflow I b f) ->
  0 <= dt ->
  (forall i, (i < nc I)%nat -> 0 < vol i /\ dt * outflow I i <= vol i) ->
  (forall i, (i < nc I)%nat -> div_cell I (q I) i = 0) ->
  forall c m M, (forall j, (j < nc I)%nat -> m <= c j <= M) ->
  forall n i, (i < nc I)%nat -> m <= steps I o b vol dt n c i <= M.
Proof.
  intros Hok Hd Hk Hw Hwf Hnf Hdt Hcfl Hdiv c m M Hb. induction n as [|n IH]; intros i Hi.
  - apply Hb. exact Hi.
  - cbn [steps].
    apply (max_principle_theorem I o b vol dt Hok Hd Hk _ m M Hw Hwf Hnf Hdt Hcfl Hdiv IH i Hi).
Qed.
