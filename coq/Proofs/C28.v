(* C28 — proofs about the 2-D model (exact-arithmetic correctness away from the
   tolerance bands) and about the 3-D model (refutations + soundness of a returned point). *)
From Coq Require Import List QArith Qabs Bool ZArith Lia Lqa Nsatz.
Import ListNotations.
From PP Require Import Model.C28.
Open Scope Q_scope.

(* ------------------------------------------------------------------ booleans on Q *)
Lemma qltb_true : forall x y, qltb x y = true <-> x < y.
Proof.
  intros x y. unfold qltb. rewrite negb_true_iff. split; intro H.
  - apply Qnot_le_lt. intro L. apply Qle_bool_iff in L. congruence.
  - destruct (Qle_bool y x) eqn:E; [|reflexivity].
    apply Qle_bool_iff in E. exfalso. apply (Qlt_not_le _ _ H E).
Qed.

Lemma qltb_false : forall x y, qltb x y = false <-> y <= x.
Proof.
  intros x y. unfold qltb. rewrite negb_false_iff. apply Qle_bool_iff.
Qed.

Lemma qleb_false : forall x y, Qle_bool x y = false <-> y < x.
Proof.
  intros x y. split; intro H.
  - apply Qnot_le_lt. intro L. apply Qle_bool_iff in L. congruence.
  - destruct (Qle_bool x y) eqn:E; [|reflexivity].
    apply Qle_bool_iff in E. exfalso. apply (Qlt_not_le _ _ H E).
Qed.

Lemma qeqb_false : forall x y, Qeq_bool x y = false <-> ~ x == y.
Proof.
  intros x y. split; intro H.
  - intro E. apply Qeq_bool_iff in E. congruence.
  - destruct (Qeq_bool x y) eqn:E; [|reflexivity]. apply Qeq_bool_iff in E. contradiction.
Qed.

Lemma qmax_cases : forall x y, (x < y /\ qmax x y = y) \/ (y <= x /\ qmax x y = x).
Proof.
  intros x y. unfold qmax. destruct (qltb x y) eqn:E.
  - left. split; [apply qltb_true; exact E|reflexivity].
  - right. split; [apply qltb_false; exact E|reflexivity].
Qed.

Lemma qmin_cases : forall x y, (y < x /\ qmin x y = y) \/ (x <= y /\ qmin x y = x).
Proof.
  intros x y. unfold qmin. destruct (qltb y x) eqn:E.
  - left. split; [apply qltb_true; exact E|reflexivity].
  - right. split; [apply qltb_false; exact E|reflexivity].
Qed.

(* ------------------------------------------------------------------ geometric spec *)
Definition on_seg (p a b : pt2) : Prop :=
  exists t, 0 <= t /\ t <= 1 /\
            fst p == fst a + t * (fst b - fst a) /\ snd p == snd a + t * (snd b - snd a).

Definition common (p a b c d : pt2) : Prop := on_seg p a b /\ on_seg p c d.

Definition peq (p q : pt2) : Prop := fst p == fst q /\ snd p == snd q.

(* the result describes exactly the set  seg(a,b) ∩ seg(c,d)  and is not an error *)
Definition correct2 (a b c d : pt2) (r : res2) : Prop :=
  match r with
  | R2None => forall p, ~ common p a b c d
  | R2Pt q => forall p, common p a b c d <-> peq p q
  | R2Seg q1 q2 => ~ peq q1 q2 /\ forall p, common p a b c d <-> on_seg p q1 q2
  | R2Err _ => False
  end.

(* ------------------------------------------------------------------ the exact algorithm *)
(* segments_2d with every tolerance test replaced by its exact counterpart *)
Definition seg2d_x (s1 e1 s2 e2 : pt2) : res2 :=
  let d1x := fst e1 - fst s1 in let d1y := snd e1 - snd s1 in
  let d2x := fst e2 - fst s2 in let d2y := snd e2 - snd s2 in
  let dsx := fst s2 - fst s1 in let dsy := snd s2 - snd s1 in
  let discr := d1x * (- d2y) - d1y * (- d2x) in
  if Qeq_bool discr 0 then
    let scl := dsx * d1y - dsy * d1x in
    if Qeq_bool scl 0 then
      let tt := if Qeq_bool d1x 0
                then ((snd s2 - snd s1) / d1y, (snd e2 - snd s1) / d1y)
                else ((fst s2 - fst s1) / d1x, (fst e2 - fst s1) / d1x) in
      let ts := fst tt in let te := snd tt in
      if qltb ts 0 && qltb te 0 then R2None
      else if qltb 1 ts && qltb 1 te then R2None
      else
        let tmin := qmax (qmin ts te) 0 in
        let tmax := qmin (qmax ts te) 1 in
        if Qle_bool tmax tmin then
          R2Pt (fst s1 + d1x * tmin, snd s1 + d1y * tmin)
        else
          R2Seg (fst s1 + d1x * tmin, snd s1 + d1y * tmin)
                (fst s1 + d1x * tmax, snd s1 + d1y * tmax)
    else R2None
  else
    let t1 := (dsx * (- d2y) - dsy * (- d2x)) / discr in
    let t2 := (d1x * dsy - d1y * dsx) / discr in
    if Qle_bool 0 t1 && Qle_bool t1 1 && Qle_bool 0 t2 && Qle_bool t2 1
    then R2Pt (fst s1 + t1 * d1x, snd s1 + t1 * d1y)
    else R2None.

(* "away from the tolerance bands": every tolerance test the model evaluates on this
   input gives the same answer as the exact test.  Decidable, so it can be evaluated. *)
Definition separated (tol : Q) (s1 e1 s2 e2 : pt2) : bool :=
  let d1x := fst e1 - fst s1 in let d1y := snd e1 - snd s1 in
  let d2x := fst e2 - fst s2 in let d2y := snd e2 - snd s2 in
  let n1 := d1x * d1x + d1y * d1y in
  let n2 := d2x * d2x + d2y * d2y in
  let dsx := fst s2 - fst s1 in let dsy := snd s2 - snd s1 in
  let discr := d1x * (- d2y) - d1y * (- d2x) in
  Bool.eqb (qltb (discr * discr) (tol * tol * (n1 * n2))) (Qeq_bool discr 0) &&
  if Qeq_bool discr 0 then
    let scl := dsx * d1y - dsy * d1x in
    Bool.eqb (qltb (scl * scl) (tol * tol * qmax n1 n2)) (Qeq_bool scl 0) &&
    if Qeq_bool scl 0 then
      Bool.eqb (qltb (tol * tol * n1) (d1x * d1x)) (negb (Qeq_bool d1x 0)) &&
      implb (Qeq_bool d1x 0) (qltb (tol * tol * n2) (d1y * d1y)) &&
      let tt := if Qeq_bool d1x 0
                then ((snd s2 - snd s1) / d1y, (snd e2 - snd s1) / d1y)
                else ((fst s2 - fst s1) / d1x, (fst e2 - fst s1) / d1x) in
      let ts := fst tt in let te := snd tt in
      let tmin := qmax (qmin ts te) 0 in
      let tmax := qmin (qmax ts te) 1 in
      Bool.eqb (qltb (tmax - tmin) tol) (Qle_bool tmax tmin)
    else true
  else
    let t1 := (dsx * (- d2y) - dsy * (- d2x)) / discr in
    let t2 := (d1x * dsy - d1y * dsx) / discr in
    Bool.eqb (Qle_bool (- tol) t1) (Qle_bool 0 t1) &&
    Bool.eqb (Qle_bool t1 (1 + tol)) (Qle_bool t1 1) &&
    Bool.eqb (Qle_bool (- tol) t2) (Qle_bool 0 t2) &&
    Bool.eqb (Qle_bool t2 (1 + tol)) (Qle_bool t2 1).

(* Cramer: the two parametrisations meet *)
Lemma cramer_sound : forall d1x d1y d2x d2y dsx dsy : Q,
  ~ d1x * (- d2y) - d1y * (- d2x) == 0 ->
  let discr := d1x * (- d2y) - d1y * (- d2x) in
  let t1 := (dsx * (- d2y) - dsy * (- d2x)) / discr in
  let t2 := (d1x * dsy - d1y * dsx) / discr in
  t1 * d1x - t2 * d2x == dsx /\ t1 * d1y - t2 * d2y == dsy.
Proof.
  intros. unfold t1, t2, discr. split; field; assumption.
Qed.

Lemma cramer_unique : forall d1x d1y d2x d2y dsx dsy s u : Q,
  ~ d1x * (- d2y) - d1y * (- d2x) == 0 ->
  s * d1x - u * d2x == dsx -> s * d1y - u * d2y == dsy ->
  s == (dsx * (- d2y) - dsy * (- d2x)) / (d1x * (- d2y) - d1y * (- d2x)) /\
  u == (d1x * dsy - d1y * dsx) / (d1x * (- d2y) - d1y * (- d2x)).
Proof.
  intros d1x d1y d2x d2y dsx dsy s u Hd Hx Hy.
  assert (Es : s * (d1x * (- d2y) - d1y * (- d2x)) == dsx * (- d2y) - dsy * (- d2x)) by nsatz.
  assert (Eu : u * (d1x * (- d2y) - d1y * (- d2x)) == d1x * dsy - d1y * dsx) by nsatz.
  split.
  - rewrite <- Es. field. assumption.
  - rewrite <- Eu. field. assumption.
Qed.

Lemma close1_refl : forall tol x y, 0 <= tol -> x == y -> close1 tol x y = true.
Proof.
  intros tol x y Ht E. unfold close1. apply Qle_bool_iff.
  assert (Z0 : x - y == 0) by lra.
  rewrite Z0. change (Qabs 0) with 0.
  assert (A := Qabs_nonneg y).
  assert (0 <= tol * Qabs y) by (apply Qmult_le_0_compat; assumption).
  unfold np_atol. lra.
Qed.

Lemma eqb_true_eq : forall a b, Bool.eqb a b = true -> a = b.
Proof. intros a b H. apply eqb_prop. exact H. Qed.

(* under [separated] the model IS the exact algorithm *)
Lemma separated_exact : forall tol a b c d,
  0 <= tol -> separated tol a b c d = true -> seg2d tol a b c d = seg2d_x a b c d.
Proof.
  intros tol [ax ay] [bx by_] [cx cy] [dx dy] Ht.
  unfold separated, seg2d, seg2d_x, colinear_params. cbn [fst snd]. cbv zeta.
  set (d1x := bx - ax). set (d1y := by_ - ay). set (d2x := dx - cx). set (d2y := dy - cy).
  set (dsx := cx - ax). set (dsy := cy - ay).
  set (discr := d1x * - d2y - d1y * - d2x).
  intro S.
  apply andb_prop in S. destruct S as [S1 S].
  apply eqb_true_eq in S1. rewrite S1.
  destruct (Qeq_bool discr 0) eqn:ED.
  - apply andb_prop in S. destruct S as [S2 S].
    apply eqb_true_eq in S2. rewrite S2.
    destruct (Qeq_bool (dsx * d1y - dsy * d1x) 0) eqn:EC; [|reflexivity].
    apply andb_prop in S. destruct S as [S S5].
    apply andb_prop in S. destruct S as [S3 S4].
    apply eqb_true_eq in S3. rewrite S3.
    destruct (Qeq_bool d1x 0) eqn:EX; cbn [negb implb] in *.
    + rewrite S4. cbn [fst snd] in *.
      repeat match goal with
             | |- (if ?b && ?c then R2None else _) = _ => destruct (b && c); [reflexivity|]
             end.
      apply eqb_true_eq in S5. rewrite S5. reflexivity.
    + cbn [fst snd] in *.
      repeat match goal with
             | |- (if ?b && ?c then R2None else _) = _ => destruct (b && c); [reflexivity|]
             end.
      apply eqb_true_eq in S5. rewrite S5. reflexivity.
  - assert (ND : ~ discr == 0) by (apply qeqb_false; exact ED).
    destruct (cramer_sound d1x d1y d2x d2y dsx dsy ND) as [Cx Cy].
    cbv zeta in Cx, Cy. fold discr in Cx, Cy.
    set (t1 := (dsx * - d2y - dsy * - d2x) / discr) in *.
    set (t2 := (d1x * dsy - d1y * dsx) / discr) in *.
    rewrite (close1_refl tol (ax + t1 * d1x) (cx + t2 * d2x) Ht)
      by (unfold dsx in Cx; lra).
    rewrite (close1_refl tol (ay + t1 * d1y) (cy + t2 * d2y) Ht)
      by (unfold dsy in Cy; lra).
    cbn [andb negb].
    apply andb_prop in S. destruct S as [S S9].
    apply andb_prop in S. destruct S as [S S8].
    apply andb_prop in S. destruct S as [S6 S7].
    apply eqb_true_eq in S6, S7, S8, S9. rewrite S6, S7, S8, S9. reflexivity.
Qed.

(* ------------------------------------------------------------------ colinear geometry *)
Lemma line_param_x : forall ax ay d1x d1y qx qy,
  ~ d1x == 0 -> (qx - ax) * d1y - (qy - ay) * d1x == 0 ->
  qx == ax + d1x * ((qx - ax) / d1x) /\ qy == ay + d1y * ((qx - ax) / d1x).
Proof.
  intros ax ay d1x d1y qx qy Hd Hc. split.
  - field. assumption.
  - apply (Qmult_inj_r _ _ d1x Hd).
    assert (E : (ay + d1y * ((qx - ax) / d1x)) * d1x == ay * d1x + d1y * (qx - ax))
      by (field; assumption).
    rewrite E. nsatz.
Qed.

Lemma line_param_y : forall ax ay d1x d1y qx qy,
  d1x == 0 -> ~ d1y == 0 -> (qx - ax) * d1y - (qy - ay) * d1x == 0 ->
  qx == ax + d1x * ((qy - ay) / d1y) /\ qy == ay + d1y * ((qy - ay) / d1y).
Proof.
  intros ax ay d1x d1y qx qy Hx Hd Hc. split.
  - assert (E : (qx - ax) * d1y == 0) by nsatz.
    destruct (Qmult_integral _ _ E) as [E1 | E1]; [|contradiction].
    rewrite Hx. lra.
  - field. assumption.
Qed.

Lemma col_char : forall ax ay bx by_ cx cy dx dy ts te,
  ~ (bx - ax == 0 /\ by_ - ay == 0) ->
  cx == ax + (bx - ax) * ts -> cy == ay + (by_ - ay) * ts ->
  dx == ax + (bx - ax) * te -> dy == ay + (by_ - ay) * te ->
  ~ ts == te ->
  forall px py,
    common (px, py) (ax, ay) (bx, by_) (cx, cy) (dx, dy) <->
    exists t, qmax (qmin ts te) 0 <= t /\ t <= qmin (qmax ts te) 1 /\
              px == ax + (bx - ax) * t /\ py == ay + (by_ - ay) * t.
Proof.
  intros ax ay bx by_ cx cy dx dy ts te Hd Hcx Hcy Hdx Hdy Hne px py.
  unfold common, on_seg. cbn [fst snd].
  split.
  - intros [[s [Hs0 [Hs1 [Hpx Hpy]]]] [u [Hu0 [Hu1 [Hqx Hqy]]]]].
    assert (Ex : (s - (ts + u * (te - ts))) * (bx - ax) == 0)
      by (clear - Hpx Hqx Hcx Hdx; nsatz).
    assert (Ey : (s - (ts + u * (te - ts))) * (by_ - ay) == 0)
      by (clear - Hpy Hqy Hcy Hdy; nsatz).
    assert (Es : s == ts + u * (te - ts)).
    { destruct (Qmult_integral _ _ Ex) as [E | E]; [lra|].
      destruct (Qmult_integral _ _ Ey) as [E' | E']; [lra|].
      exfalso. apply Hd. split; assumption. }
    exists s.
    split; [|split; [|split; lra]].
    + destruct (qmin_cases ts te) as [[L1 ->] | [L1 ->]];
        destruct (qmax_cases te 0) as [[L2 E2] | [L2 E2]];
        destruct (qmax_cases ts 0) as [[L3 E3] | [L3 E3]];
        try rewrite E2; try rewrite E3; nra.
    + destruct (qmax_cases ts te) as [[L1 ->] | [L1 ->]];
        destruct (qmin_cases te 1) as [[L2 E2] | [L2 E2]];
        destruct (qmin_cases ts 1) as [[L3 E3] | [L3 E3]];
        try rewrite E2; try rewrite E3; nra.
  - intros [t [Hlo [Hhi [Hpx Hpy]]]].
    assert (B0 : 0 <= t).
    { destruct (qmax_cases (qmin ts te) 0) as [[L E] | [L E]]; rewrite E in Hlo; lra. }
    assert (B1 : t <= 1).
    { destruct (qmin_cases (qmax ts te) 1) as [[L E] | [L E]]; rewrite E in Hhi; lra. }
    split.
    + exists t. repeat split; try assumption; lra.
    + destruct (Q_dec ts te) as [[L | L] | L]; [| |contradiction].
      * (* ts < te *)
        assert (Lo : ts <= t).
        { destruct (qmin_cases ts te) as [[L1 E1] | [L1 E1]]; rewrite E1 in Hlo;
            destruct (qmax_cases ts 0) as [[L2 E2] | [L2 E2]];
            destruct (qmax_cases te 0) as [[L3 E3] | [L3 E3]];
            try rewrite E2 in Hlo; try rewrite E3 in Hlo; lra. }
        assert (Hi : t <= te).
        { destruct (qmax_cases ts te) as [[L1 E1] | [L1 E1]]; rewrite E1 in Hhi;
            destruct (qmin_cases ts 1) as [[L2 E2] | [L2 E2]];
            destruct (qmin_cases te 1) as [[L3 E3] | [L3 E3]];
            try rewrite E2 in Hhi; try rewrite E3 in Hhi; lra. }
        assert (P : 0 < te - ts) by lra.
        assert (NZ : ~ te - ts == 0) by lra.
        exists ((t - ts) / (te - ts)).
        assert (Eu : (t - ts) / (te - ts) * (te - ts) == t - ts) by (field; assumption).
        split; [apply Qle_shift_div_l; [assumption|lra]|].
        split; [apply Qle_shift_div_r; [assumption|lra]|].
        set (u := (t - ts) / (te - ts)) in *.
        split; [clear - Hpx Hcx Hdx Eu; nsatz | clear - Hpy Hcy Hdy Eu; nsatz].
      * (* te < ts *)
        assert (Lo : te <= t).
        { destruct (qmin_cases ts te) as [[L1 E1] | [L1 E1]]; rewrite E1 in Hlo;
            destruct (qmax_cases ts 0) as [[L2 E2] | [L2 E2]];
            destruct (qmax_cases te 0) as [[L3 E3] | [L3 E3]];
            try rewrite E2 in Hlo; try rewrite E3 in Hlo; lra. }
        assert (Hi : t <= ts).
        { destruct (qmax_cases ts te) as [[L1 E1] | [L1 E1]]; rewrite E1 in Hhi;
            destruct (qmin_cases ts 1) as [[L2 E2] | [L2 E2]];
            destruct (qmin_cases te 1) as [[L3 E3] | [L3 E3]];
            try rewrite E2 in Hhi; try rewrite E3 in Hhi; lra. }
        assert (P : 0 < ts - te) by lra.
        assert (NZ : ~ ts - te == 0) by lra.
        exists ((ts - t) / (ts - te)).
        assert (Eu : (ts - t) / (ts - te) * (ts - te) == ts - t) by (field; assumption).
        split; [apply Qle_shift_div_l; [assumption|lra]|].
        split; [apply Qle_shift_div_r; [assumption|lra]|].
        set (u := (ts - t) / (ts - te)) in *.
        split; [clear - Hpx Hcx Hdx Eu; nsatz | clear - Hpy Hcy Hdy Eu; nsatz].
Qed.

Ltac minmax :=
  repeat match goal with
  | H : context [qmax ?x ?y] |- _ =>
      let L := fresh "L" in let E := fresh "E" in
      destruct (qmax_cases x y) as [[L E] | [L E]]; rewrite E in *; clear E
  | |- context [qmax ?x ?y] =>
      let L := fresh "L" in let E := fresh "E" in
      destruct (qmax_cases x y) as [[L E] | [L E]]; rewrite E in *; clear E
  | H : context [qmin ?x ?y] |- _ =>
      let L := fresh "L" in let E := fresh "E" in
      destruct (qmin_cases x y) as [[L E] | [L E]]; rewrite E in *; clear E
  | |- context [qmin ?x ?y] =>
      let L := fresh "L" in let E := fresh "E" in
      destruct (qmin_cases x y) as [[L E] | [L E]]; rewrite E in *; clear E
  end.

Lemma seg2d_x_correct : forall a b c d,
  ~ peq a b -> ~ peq c d -> correct2 a b c d (seg2d_x a b c d).
Proof.
  intros [ax ay] [bx by_] [cx cy] [dx dy] Hab Hcd.
  unfold peq in Hab, Hcd. cbn [fst snd] in Hab, Hcd.
  unfold seg2d_x. cbn [fst snd]. cbv zeta.
  set (d1x := bx - ax). set (d1y := by_ - ay). set (d2x := dx - cx). set (d2y := dy - cy).
  set (dsx := cx - ax). set (dsy := cy - ay).
  set (discr := d1x * - d2y - d1y * - d2x).
  assert (Hd1 : ~ (bx - ax == 0 /\ by_ - ay == 0)).
  { intros [E1 E2]. apply Hab. split; lra. }
  destruct (Qeq_bool discr 0) eqn:ED.
  - apply Qeq_bool_iff in ED.
    destruct (Qeq_bool (dsx * d1y - dsy * d1x) 0) eqn:EC.
    + (* colinear *)
      apply Qeq_bool_iff in EC.
      assert (ECc : (cx - ax) * d1y - (cy - ay) * d1x == 0) by exact EC.
      assert (ECd : (dx - ax) * d1y - (dy - ay) * d1x == 0).
      { unfold discr, dsx, dsy, d1x, d1y, d2x, d2y in *. clear - ED EC. nsatz. }
      set (tt := if Qeq_bool d1x 0
                 then (dsy / d1y, (dy - ay) / d1y)
                 else (dsx / d1x, (dx - ax) / d1x)).
      assert (P : cx == ax + (bx - ax) * fst tt /\ cy == ay + (by_ - ay) * fst tt /\
                  dx == ax + (bx - ax) * snd tt /\ dy == ay + (by_ - ay) * snd tt).
      { unfold tt. destruct (Qeq_bool d1x 0) eqn:EX; cbn [fst snd].
        - apply Qeq_bool_iff in EX.
          assert (NY : ~ d1y == 0) by (intro E; apply Hd1; split; assumption).
          destruct (line_param_y ax ay d1x d1y cx cy EX NY ECc) as [A1 A2].
          destruct (line_param_y ax ay d1x d1y dx dy EX NY ECd) as [A3 A4].
          repeat split; assumption.
        - apply qeqb_false in EX.
          destruct (line_param_x ax ay d1x d1y cx cy EX ECc) as [A1 A2].
          destruct (line_param_x ax ay d1x d1y dx dy EX ECd) as [A3 A4].
          repeat split; assumption. }
      clearbody tt. destruct tt as [ts te]. cbn [fst snd] in *.
      destruct P as (P1 & P2 & P3 & P4).
      assert (Hne : ~ ts == te).
      { intro E. apply Hcd. split.
        - rewrite P1, P3, E. reflexivity.
        - rewrite P2, P4, E. reflexivity. }
      pose proof (col_char ax ay bx by_ cx cy dx dy ts te Hd1 P1 P2 P3 P4 Hne) as CH.
      destruct (qltb ts 0 && qltb te 0) eqn:N1.
      { apply andb_prop in N1. destruct N1 as [N1 N1'].
        apply qltb_true in N1, N1'.
        unfold correct2. intros [px py] Hc. apply CH in Hc.
        destruct Hc as [t [Hlo [Hhi _]]]. minmax; lra. }
      destruct (qltb 1 ts && qltb 1 te) eqn:N2.
      { apply andb_prop in N2. destruct N2 as [N2 N2'].
        apply qltb_true in N2, N2'.
        unfold correct2. intros [px py] Hc. apply CH in Hc.
        destruct Hc as [t [Hlo [Hhi _]]]. minmax; lra. }
      assert (Hmm : qmax (qmin ts te) 0 <= qmin (qmax ts te) 1).
      { apply andb_false_iff in N1. apply andb_false_iff in N2.
        destruct N1 as [N1 | N1]; apply qltb_false in N1;
          destruct N2 as [N2 | N2]; apply qltb_false in N2; minmax; lra. }
      set (tmin := qmax (qmin ts te) 0) in *.
      set (tmax := qmin (qmax ts te) 1) in *.
      destruct (Qle_bool tmax tmin) eqn:EP.
      * (* single point *)
        apply Qle_bool_iff in EP.
        unfold correct2. intros [px py]. rewrite CH. unfold peq. cbn [fst snd]. split.
        -- intros [t [Hlo [Hhi [Hx Hy]]]].
           assert (Et : t == tmin) by lra.
           split; [rewrite Hx | rewrite Hy]; rewrite Et; unfold d1x, d1y; reflexivity.
        -- intros [Hx Hy]. exists tmin.
           split; [lra|]. split; [lra|]. unfold d1x, d1y in *. split; assumption.
      * (* a segment *)
        apply qleb_false in EP.
        unfold correct2. split.
        -- unfold peq. cbn [fst snd]. intros [E1 E2].
           assert (F1 : (tmax - tmin) * d1x == 0) by (clear - E1; nsatz).
           assert (F2 : (tmax - tmin) * d1y == 0) by (clear - E2; nsatz).
           destruct (Qmult_integral _ _ F1) as [F | F]; [lra|].
           destruct (Qmult_integral _ _ F2) as [F' | F']; [lra|].
           apply Hd1. split; assumption.
        -- intros [px py]. rewrite CH. unfold on_seg. cbn [fst snd]. split.
           ++ intros [t [Hlo [Hhi [Hx Hy]]]].
              assert (Pz : 0 < tmax - tmin) by lra.
              assert (NZ : ~ tmax - tmin == 0) by lra.
              exists ((t - tmin) / (tmax - tmin)).
              assert (Eu : (t - tmin) / (tmax - tmin) * (tmax - tmin) == t - tmin)
                by (field; assumption).
              split; [apply Qle_shift_div_l; [assumption|lra]|].
              split; [apply Qle_shift_div_r; [assumption|lra]|].
              set (u := (t - tmin) / (tmax - tmin)) in *.
              unfold d1x, d1y.
              split; [clear - Hx Eu; nsatz | clear - Hy Eu; nsatz].
           ++ intros [u [Hu0 [Hu1 [Hx Hy]]]].
              exists (tmin + u * (tmax - tmin)).
              split; [nra|]. split; [nra|].
              unfold d1x, d1y in *.
              split; [clear - Hx; nsatz | clear - Hy; nsatz].
    + (* parallel, not colinear: disjoint *)
      apply qeqb_false in EC.
      unfold correct2. intros [px py] [[s [Hs0 [Hs1 [Hpx Hpy]]]] [u [Hu0 [Hu1 [Hqx Hqy]]]]].
      cbn [fst snd] in *. apply EC.
      unfold discr, dsx, dsy, d1x, d1y, d2x, d2y in *. clear - ED Hpx Hpy Hqx Hqy. nsatz.
  - (* Cramer *)
    apply qeqb_false in ED.
    destruct (cramer_sound d1x d1y d2x d2y dsx dsy ED) as [Cx Cy].
    cbv zeta in Cx, Cy. fold discr in Cx, Cy.
    assert (CU := fun s u => cramer_unique d1x d1y d2x d2y dsx dsy s u ED).
    fold discr in CU.
    set (t1 := (dsx * - d2y - dsy * - d2x) / discr) in *.
    set (t2 := (d1x * dsy - d1y * dsx) / discr) in *.
    destruct (Qle_bool 0 t1 && Qle_bool t1 1 && Qle_bool 0 t2 && Qle_bool t2 1) eqn:ER.
    + apply andb_prop in ER. destruct ER as [ER R4].
      apply andb_prop in ER. destruct ER as [ER R3].
      apply andb_prop in ER. destruct ER as [R1 R2].
      apply Qle_bool_iff in R1, R2, R3, R4.
      unfold correct2. intros [px py]. unfold common, on_seg, peq. cbn [fst snd]. split.
      * intros [[s [Hs0 [Hs1 [Hpx Hpy]]]] [u [Hu0 [Hu1 [Hqx Hqy]]]]].
        assert (Ax : s * d1x - u * d2x == dsx)
          by (unfold dsx, d1x, d2x; clear - Hpx Hqx; nsatz).
        assert (Ay : s * d1y - u * d2y == dsy)
          by (unfold dsy, d1y, d2y; clear - Hpy Hqy; nsatz).
        destruct (CU s u Ax Ay) as [Es Eu].
        split; [rewrite Hpx | rewrite Hpy]; rewrite Es; unfold d1x, d1y; reflexivity.
      * intros [Hx Hy]. split.
        -- exists t1. unfold d1x, d1y in *. repeat split; assumption.
        -- exists t2. split; [assumption|]. split; [assumption|].
           unfold dsx, dsy, d1x, d1y, d2x, d2y in *.
           split; [clear - Hx Cx; nsatz | clear - Hy Cy; nsatz].
    + unfold correct2. intros [px py] [[s [Hs0 [Hs1 [Hpx Hpy]]]] [u [Hu0 [Hu1 [Hqx Hqy]]]]].
      cbn [fst snd] in *.
      assert (Ax : s * d1x - u * d2x == dsx)
        by (unfold dsx, d1x, d2x; clear - Hpx Hqx; nsatz).
      assert (Ay : s * d1y - u * d2y == dsy)
        by (unfold dsy, d1y, d2y; clear - Hpy Hqy; nsatz).
      destruct (CU s u Ax Ay) as [Es Eu].
      assert (R1 : Qle_bool 0 t1 = true) by (apply Qle_bool_iff; lra).
      assert (R2 : Qle_bool t1 1 = true) by (apply Qle_bool_iff; lra).
      assert (R3 : Qle_bool 0 t2 = true) by (apply Qle_bool_iff; lra).
      assert (R4 : Qle_bool t2 1 = true) by (apply Qle_bool_iff; lra).
      rewrite R1, R2, R3, R4 in ER. discriminate.
Qed.

(* ------------------------------------------------------------------ integer inputs *)
Lemma int_pos_ge1 : forall q z, q == inject_Z z -> 0 < q -> 1 <= q.
Proof.
  intros q z E P. rewrite E in *.
  change 0 with (inject_Z 0) in P. rewrite <- Zlt_Qlt in P.
  change 1 with (inject_Z 1). rewrite <- Zle_Qle. lia.
Qed.

Lemma int_nonzero_sq : forall q z, q == inject_Z z -> ~ q == 0 -> 1 <= q * q.
Proof.
  intros q z E N. rewrite E in *.
  assert (z <> 0)%Z by (intro Z0; apply N; rewrite Z0; reflexivity).
  rewrite <- inject_Z_mult. change 1 with (inject_Z 1). rewrite <- Zle_Qle. nia.
Qed.

(* q is a multiple of 1/dq *)
Definition on_grid (dq q : Q) : Prop := exists k : Z, q * dq == inject_Z k.

Lemma grid_qmax : forall dq x y, on_grid dq x -> on_grid dq y -> on_grid dq (qmax x y).
Proof. intros dq x y Gx Gy. destruct (qmax_cases x y) as [[_ ->] | [_ ->]]; assumption. Qed.

Lemma grid_qmin : forall dq x y, on_grid dq x -> on_grid dq y -> on_grid dq (qmin x y).
Proof. intros dq x y Gx Gy. destruct (qmin_cases x y) as [[_ ->] | [_ ->]]; assumption. Qed.

Definition bigM : Q := 8000000.

Lemma grid_gap : forall dq zd x y,
  dq == inject_Z zd -> ~ dq == 0 -> - bigM <= dq -> dq <= bigM ->
  on_grid dq x -> on_grid dq y ->
  x - y <= tol8 -> x <= y.
Proof.
  intros dq zd x y Ed Nd Lo Hi [k1 G1] [k2 G2] H.
  destruct (Qlt_le_dec y x) as [L | L]; [exfalso|exact L].
  assert (Eg : (x - y) * dq == inject_Z (k1 - k2)).
  { unfold Z.sub. rewrite inject_Z_plus, inject_Z_opp, <- G1, <- G2. ring. }
  unfold tol8, bigM in *.
  destruct (Q_dec dq 0) as [[N | P] | Z0]; [| |contradiction].
  - assert (Eg' : (x - y) * (- dq) == inject_Z (k2 - k1)).
    { unfold Z.sub. rewrite inject_Z_plus, inject_Z_opp, <- G1, <- G2. ring. }
    assert (P1 : 0 < (x - y) * (- dq)) by nra.
    assert (G := int_pos_ge1 _ _ Eg' P1). nra.
  - assert (P1 : 0 < (x - y) * dq) by nra.
    assert (G := int_pos_ge1 _ _ Eg P1). nra.
Qed.

Lemma eqb_iff_true : forall a b : bool, (a = true <-> b = true) -> Bool.eqb a b = true.
Proof. intros [|] [|] H; cbn; try reflexivity; destruct H as [H1 H2]; auto. Qed.

Definition inbox (z : Z) : Prop := (-1000 <= z <= 1000)%Z.
Definition zpt (x y : Z) : pt2 := (inject_Z x, inject_Z y).

Lemma inbox_Q : forall z, inbox z -> -1000 <= inject_Z z /\ inject_Z z <= 1000.
Proof.
  intros z [L H]. split.
  - change (-1000) with (inject_Z (-1000)). rewrite <- Zle_Qle. exact L.
  - change 1000 with (inject_Z 1000). rewrite <- Zle_Qle. exact H.
Qed.

Lemma injZ_sub : forall a b, inject_Z a - inject_Z b == inject_Z (a - b).
Proof. intros. unfold Z.sub. rewrite inject_Z_plus, inject_Z_opp. ring. Qed.

Lemma injZ_zero : forall z, inject_Z z == 0 -> z = 0%Z.
Proof. intros z H. unfold Qeq in H. cbn in H. lia. Qed.

Lemma sq_nonneg : forall x : Q, 0 <= x * x.
Proof. intro x. nra. Qed.

Lemma prod_bound : forall x y,
  -2000 <= x /\ x <= 2000 -> -2000 <= y /\ y <= 2000 ->
  -4000000 <= x * y /\ x * y <= 4000000.
Proof. intros x y [A B] [C D]. split; nra. Qed.

Lemma prod_bound2 : forall a b,
  1 <= a /\ a <= 8000000 -> 1 <= b /\ b <= 8000000 ->
  1 <= a * b /\ a * b <= 64000000000000.
Proof. intros a b [A B] [C D]. split; nra. Qed.

Lemma int_separated : forall ax ay bx by_ cx cy dx dy : Z,
  inbox ax -> inbox ay -> inbox bx -> inbox by_ ->
  inbox cx -> inbox cy -> inbox dx -> inbox dy ->
  (ax, ay) <> (bx, by_) -> (cx, cy) <> (dx, dy) ->
  separated tol8 (zpt ax ay) (zpt bx by_) (zpt cx cy) (zpt dx dy) = true.
Proof.
  intros ax ay bx by_ cx cy dx dy Bax Bay Bbx Bby Bcx Bcy Bdx Bdy Nab Ncd.
  apply inbox_Q in Bax, Bay, Bbx, Bby, Bcx, Bcy, Bdx, Bdy.
  unfold separated, zpt. cbn [fst snd]. cbv zeta.
  pose proof (injZ_sub bx ax) as E1x. pose proof (injZ_sub by_ ay) as E1y.
  pose proof (injZ_sub dx cx) as E2x. pose proof (injZ_sub dy cy) as E2y.
  pose proof (injZ_sub cx ax) as Esx. pose proof (injZ_sub cy ay) as Esy.
  pose proof (injZ_sub dx ax) as Eex. pose proof (injZ_sub dy ay) as Eey.
  set (d1x := inject_Z bx - inject_Z ax) in *. set (d1y := inject_Z by_ - inject_Z ay) in *.
  set (d2x := inject_Z dx - inject_Z cx) in *. set (d2y := inject_Z dy - inject_Z cy) in *.
  set (dsx := inject_Z cx - inject_Z ax) in *. set (dsy := inject_Z cy - inject_Z ay) in *.
  set (dex := inject_Z dx - inject_Z ax) in *. set (dey := inject_Z dy - inject_Z ay) in *.
  assert (B1x : -2000 <= d1x /\ d1x <= 2000) by (unfold d1x; lra).
  assert (B1y : -2000 <= d1y /\ d1y <= 2000) by (unfold d1y; lra).
  assert (B2x : -2000 <= d2x /\ d2x <= 2000) by (unfold d2x; lra).
  assert (B2y : -2000 <= d2y /\ d2y <= 2000) by (unfold d2y; lra).
  assert (N1 : ~ (d1x == 0 /\ d1y == 0)).
  { intros [Z1 Z2]. apply Nab. rewrite E1x in Z1. rewrite E1y in Z2.
    apply injZ_zero in Z1, Z2. f_equal; lia. }
  assert (N2 : ~ (d2x == 0 /\ d2y == 0)).
  { intros [Z1 Z2]. apply Ncd. rewrite E2x in Z1. rewrite E2y in Z2.
    apply injZ_zero in Z1, Z2. f_equal; lia. }
  set (n1 := d1x * d1x + d1y * d1y). set (n2 := d2x * d2x + d2y * d2y).
  assert (Q1x : 0 <= d1x * d1x /\ d1x * d1x <= 4000000)
    by (split; [apply sq_nonneg | apply (prod_bound d1x d1x B1x B1x)]).
  assert (Q1y : 0 <= d1y * d1y /\ d1y * d1y <= 4000000)
    by (split; [apply sq_nonneg | apply (prod_bound d1y d1y B1y B1y)]).
  assert (Q2x : 0 <= d2x * d2x /\ d2x * d2x <= 4000000)
    by (split; [apply sq_nonneg | apply (prod_bound d2x d2x B2x B2x)]).
  assert (Q2y : 0 <= d2y * d2y /\ d2y * d2y <= 4000000)
    by (split; [apply sq_nonneg | apply (prod_bound d2y d2y B2y B2y)]).
  assert (Bn1 : 1 <= n1 /\ n1 <= 8000000).
  { split; [|unfold n1; lra].
    destruct (Qeq_dec d1x 0) as [Z1 | Z1].
    - assert (Z2 : ~ d1y == 0) by tauto.
      pose proof (int_nonzero_sq _ _ E1y Z2). unfold n1. lra.
    - pose proof (int_nonzero_sq _ _ E1x Z1). unfold n1. lra. }
  assert (Bn2 : 1 <= n2 /\ n2 <= 8000000).
  { split; [|unfold n2; lra].
    destruct (Qeq_dec d2x 0) as [Z1 | Z1].
    - assert (Z2 : ~ d2y == 0) by tauto.
      pose proof (int_nonzero_sq _ _ E2y Z2). unfold n2. lra.
    - pose proof (int_nonzero_sq _ _ E2x Z1). unfold n2. lra. }
  set (discr := d1x * - d2y - d1y * - d2x).
  assert (Ediscr : discr == inject_Z ((bx - ax) * - (dy - cy) - (by_ - ay) * - (dx - cx))).
  { unfold Z.sub at 1. rewrite inject_Z_plus, inject_Z_opp, !inject_Z_mult, !inject_Z_opp.
    rewrite <- E1x, <- E1y, <- E2x, <- E2y. unfold discr. ring. }
  assert (Bdiscr : - bigM <= discr /\ discr <= bigM).
  { pose proof (prod_bound d1x d2y B1x B2y) as [Pa Pb].
    pose proof (prod_bound d1y d2x B1y B2x) as [Pc Pd].
    unfold bigM, discr. split; lra. }
  assert (Bn12 : 1 <= n1 * n2 /\ n1 * n2 <= 64000000000000) by (apply prod_bound2; assumption).
  clearbody n1 n2.
  apply andb_true_intro. split.
  { (* parallel test *)
    apply eqb_iff_true. rewrite qltb_true, Qeq_bool_iff. unfold tol8. split.
    - intro H. destruct (Qeq_dec discr 0) as [Z0 | Z0]; [exact Z0|exfalso].
      pose proof (int_nonzero_sq _ _ Ediscr Z0). lra.
    - intro Z0. assert (discr * discr == 0) by (rewrite Z0; ring). lra. }
  destruct (Qeq_bool discr 0) eqn:ED.
  - apply Qeq_bool_iff in ED.
    set (scl := dsx * d1y - dsy * d1x).
    assert (Escl : scl == inject_Z ((cx - ax) * (by_ - ay) - (cy - ay) * (bx - ax))).
    { unfold Z.sub at 1. rewrite inject_Z_plus, inject_Z_opp, !inject_Z_mult.
      rewrite <- E1x, <- E1y, <- Esx, <- Esy. unfold scl. ring. }
    assert (Bmax : 1 <= qmax n1 n2 /\ qmax n1 n2 <= 8000000).
    { destruct (qmax_cases n1 n2) as [[_ ->] | [_ ->]]; assumption. }
    apply andb_true_intro. split.
    { apply eqb_iff_true. rewrite qltb_true, Qeq_bool_iff. unfold tol8. split.
      - intro H. destruct (Qeq_dec scl 0) as [Z0 | Z0]; [exact Z0|exfalso].
        pose proof (int_nonzero_sq _ _ Escl Z0). lra.
      - intro Z0. assert (scl * scl == 0) by (rewrite Z0; ring). lra. }
    destruct (Qeq_bool scl 0) eqn:EC; [|reflexivity].
    apply andb_true_intro. split; [apply andb_true_intro; split|].
    + (* x-axis test *)
      apply eqb_iff_true. rewrite qltb_true, negb_true_iff, qeqb_false. unfold tol8. split.
      * intros H Z0. assert (d1x * d1x == 0) by (rewrite Z0; ring). lra.
      * intro Z0. pose proof (int_nonzero_sq _ _ E1x Z0). lra.
    + (* y-axis test when d1x = 0 *)
      destruct (Qeq_bool d1x 0) eqn:EX; cbn [implb]; [|reflexivity].
      apply Qeq_bool_iff in EX. apply qltb_true.
      assert (Z2 : ~ d1y == 0) by tauto.
      pose proof (int_nonzero_sq _ _ E1y Z2). unfold tol8. lra.
    + (* overlap length test *)
      apply eqb_iff_true. rewrite qltb_true, Qle_bool_iff.
      match goal with |- ?a - ?b < _ <-> _ => set (tmax := a); set (tmin := b) end.
      split; [|intro H; unfold tol8; lra].
      intro H. assert (H' : tmax - tmin <= tol8) by lra. clear H.
      destruct (Qeq_bool d1x 0) eqn:EX; cbn [fst snd] in *.
      * apply Qeq_bool_iff in EX. assert (Z2 : ~ d1y == 0) by tauto.
        assert (G0 : on_grid d1y 0) by (exists 0%Z; ring).
        assert (G1 : on_grid d1y 1) by (exists (by_ - ay)%Z; rewrite <- E1y; ring).
        assert (Gs : on_grid d1y (dsy / d1y)) by (exists (cy - ay)%Z; rewrite <- Esy; field; exact Z2).
        assert (Ge : on_grid d1y (dey / d1y)) by (exists (dy - ay)%Z; rewrite <- Eey; field; exact Z2).
        apply (grid_gap d1y (by_ - ay)%Z); try assumption; unfold bigM; try lra.
        -- unfold tmax. apply grid_qmin; [apply grid_qmax|]; assumption.
        -- unfold tmin. apply grid_qmax; [apply grid_qmin|]; assumption.
      * apply qeqb_false in EX.
        assert (G0 : on_grid d1x 0) by (exists 0%Z; ring).
        assert (G1 : on_grid d1x 1) by (exists (bx - ax)%Z; rewrite <- E1x; ring).
        assert (Gs : on_grid d1x (dsx / d1x)) by (exists (cx - ax)%Z; rewrite <- Esx; field; exact EX).
        assert (Ge : on_grid d1x (dex / d1x)) by (exists (dx - ax)%Z; rewrite <- Eex; field; exact EX).
        apply (grid_gap d1x (bx - ax)%Z); try assumption; unfold bigM; try lra.
        -- unfold tmax. apply grid_qmin; [apply grid_qmax|]; assumption.
        -- unfold tmin. apply grid_qmax; [apply grid_qmin|]; assumption.
  - (* Cramer: parameter range tests *)
    apply qeqb_false in ED.
    set (t1 := (dsx * - d2y - dsy * - d2x) / discr).
    set (t2 := (d1x * dsy - d1y * dsx) / discr).
    assert (G0 : on_grid discr 0) by (exists 0%Z; ring).
    assert (G1 : on_grid discr 1).
    { eexists. rewrite <- Ediscr. ring. }
    assert (Gt1 : on_grid discr t1).
    { exists ((cx - ax) * - (dy - cy) - (cy - ay) * - (dx - cx))%Z.
      unfold Z.sub at 1. rewrite inject_Z_plus, inject_Z_opp, !inject_Z_mult, !inject_Z_opp.
      rewrite <- Esx, <- Esy, <- E2x, <- E2y. unfold t1. field. exact ED. }
    assert (Gt2 : on_grid discr t2).
    { exists ((bx - ax) * (cy - ay) - (by_ - ay) * (cx - ax))%Z.
      unfold Z.sub at 1. rewrite inject_Z_plus, inject_Z_opp, !inject_Z_mult.
      rewrite <- Esx, <- Esy, <- E1x, <- E1y. unfold t2. field. exact ED. }
    destruct Bdiscr as [Bd1 Bd2].
    assert (GG := fun x y => grid_gap discr _ x y Ediscr ED Bd1 Bd2).
    repeat (apply andb_true_intro; split); apply eqb_iff_true; rewrite !Qle_bool_iff;
      (split; [|unfold tol8; lra]); intro H.
    + apply (GG 0 t1 G0 Gt1). lra.
    + apply (GG t1 1 Gt1 G1). lra.
    + apply (GG 0 t2 G0 Gt2). lra.
    + apply (GG t2 1 Gt2 G1). lra.
Qed.

(* ------------------------------------------------------------------ 2-D main theorems *)
Lemma seg2d_correct_separated : forall tol a b c d,
  0 <= tol -> ~ peq a b -> ~ peq c d -> separated tol a b c d = true ->
  correct2 a b c d (seg2d tol a b c d).
Proof.
  intros tol a b c d Ht Hab Hcd S. rewrite (separated_exact tol a b c d Ht S).
  apply seg2d_x_correct; assumption.
Qed.

Lemma zpt_neq : forall ax ay bx by_, (ax, ay) <> (bx, by_) -> ~ peq (zpt ax ay) (zpt bx by_).
Proof.
  intros ax ay bx by_ N [E1 E2]. unfold zpt in *. cbn [fst snd] in *. apply N.
  assert (inject_Z (ax - bx) == 0) by (rewrite <- injZ_sub; lra).
  assert (inject_Z (ay - by_) == 0) by (rewrite <- injZ_sub; lra).
  apply injZ_zero in H, H0. f_equal; lia.
Qed.

Lemma seg2d_correct_int : forall ax ay bx by_ cx cy dx dy : Z,
  inbox ax -> inbox ay -> inbox bx -> inbox by_ ->
  inbox cx -> inbox cy -> inbox dx -> inbox dy ->
  (ax, ay) <> (bx, by_) -> (cx, cy) <> (dx, dy) ->
  correct2 (zpt ax ay) (zpt bx by_) (zpt cx cy) (zpt dx dy)
           (seg2d tol8 (zpt ax ay) (zpt bx by_) (zpt cx cy) (zpt dx dy)).
Proof.
  intros. apply seg2d_correct_separated.
  - unfold tol8. lra.
  - apply zpt_neq; assumption.
  - apply zpt_neq; assumption.
  - apply int_separated; assumption.
Qed.

(* two results describe the same point set, with the same classification *)
Definition same_set (r r' : res2) : Prop :=
  match r, r' with
  | R2None, R2None => True
  | R2Pt p, R2Pt q => peq p q
  | R2Seg p1 p2, R2Seg q1 q2 => forall p, on_seg p p1 p2 <-> on_seg p q1 q2
  | _, _ => False
  end.

Lemma on_seg_start : forall a b, on_seg a a b.
Proof. intros a b. exists 0. repeat split; try lra; ring. Qed.

Lemma on_seg_end : forall a b, on_seg b a b.
Proof. intros a b. exists 1. repeat split; try lra; ring. Qed.

Lemma peq_refl : forall p, peq p p.
Proof. intro p. split; reflexivity. Qed.

Lemma correct2_unique : forall a b c d a' b' c' d' r r',
  correct2 a b c d r -> correct2 a' b' c' d' r' ->
  (forall p, common p a b c d <-> common p a' b' c' d') ->
  same_set r r'.
Proof.
  intros a b c d a' b' c' d' r r' C C' EQ.
  destruct r as [|q|q1 q2|e]; destruct r' as [|q'|q1' q2'|e']; cbn in *; try contradiction;
    try exact I.
  - apply (C q'). apply EQ. apply C'. apply peq_refl.
  - destruct C' as [_ C']. apply (C q1'). apply EQ. apply C'. apply on_seg_start.
  - apply (C' q). apply EQ. apply C. apply peq_refl.
  - apply C'. apply EQ. apply C. apply peq_refl.
  - destruct C' as [N C'].
    assert (P1 : peq q1' q) by (apply C; apply EQ; apply C'; apply on_seg_start).
    assert (P2 : peq q2' q) by (apply C; apply EQ; apply C'; apply on_seg_end).
    apply N. destruct P1, P2. split; lra.
  - destruct C as [_ C]. apply (C' q1). apply EQ. apply C. apply on_seg_start.
  - destruct C as [N C].
    assert (P1 : peq q1 q') by (apply C'; apply EQ; apply C; apply on_seg_start).
    assert (P2 : peq q2 q') by (apply C'; apply EQ; apply C; apply on_seg_end).
    apply N. destruct P1, P2. split; lra.
  - destruct C as [_ C]. destruct C' as [_ C']. intro p.
    rewrite <- C, <- C'. apply EQ.
Qed.

Lemma on_seg_rev : forall p a b, on_seg p a b <-> on_seg p b a.
Proof.
  assert (H : forall p a b, on_seg p a b -> on_seg p b a).
  { intros p a b [t [H0 [H1 [Hx Hy]]]]. exists (1 - t).
    split; [lra|]. split; [lra|]. split; [rewrite Hx | rewrite Hy]; ring. }
  intros p a b. split; apply H.
Qed.

Lemma seg2d_symmetric_int : forall ax ay bx by_ cx cy dx dy : Z,
  inbox ax -> inbox ay -> inbox bx -> inbox by_ ->
  inbox cx -> inbox cy -> inbox dx -> inbox dy ->
  (ax, ay) <> (bx, by_) -> (cx, cy) <> (dx, dy) ->
  let A := zpt ax ay in let B := zpt bx by_ in let C := zpt cx cy in let D := zpt dx dy in
  same_set (seg2d tol8 A B C D) (seg2d tol8 C D A B) /\
  same_set (seg2d tol8 A B C D) (seg2d tol8 B A C D) /\
  same_set (seg2d tol8 A B C D) (seg2d tol8 A B D C).
Proof.
  intros ax ay bx by_ cx cy dx dy Bax Bay Bbx Bby Bcx Bcy Bdx Bdy Nab Ncd A B C D.
  assert (Nba : (bx, by_) <> (ax, ay)) by (intro E; apply Nab; symmetry; exact E).
  assert (Ndc : (dx, dy) <> (cx, cy)) by (intro E; apply Ncd; symmetry; exact E).
  pose proof (seg2d_correct_int ax ay bx by_ cx cy dx dy Bax Bay Bbx Bby Bcx Bcy Bdx Bdy Nab Ncd) as K0.
  pose proof (seg2d_correct_int cx cy dx dy ax ay bx by_ Bcx Bcy Bdx Bdy Bax Bay Bbx Bby Ncd Nab) as K1.
  pose proof (seg2d_correct_int bx by_ ax ay cx cy dx dy Bbx Bby Bax Bay Bcx Bcy Bdx Bdy Nba Ncd) as K2.
  pose proof (seg2d_correct_int ax ay bx by_ dx dy cx cy Bax Bay Bbx Bby Bdx Bdy Bcx Bcy Nab Ndc) as K3.
  fold A B C D in K0, K1, K2, K3.
  split; [|split].
  - apply (correct2_unique _ _ _ _ _ _ _ _ _ _ K0 K1). intro p. unfold common. tauto.
  - apply (correct2_unique _ _ _ _ _ _ _ _ _ _ K0 K2). intro p. unfold common.
    rewrite (on_seg_rev p A B). tauto.
  - apply (correct2_unique _ _ _ _ _ _ _ _ _ _ K0 K3). intro p. unfold common.
    rewrite (on_seg_rev p C D). tauto.
Qed.

(* ------------------------------------------------------------------ 3-D *)
Definition on_seg3 (p a b : pt3) : Prop :=
  exists t, 0 <= t /\ t <= 1 /\
            forall i, (i < 3)%nat -> c3 p i == c3 a i + t * (c3 b i - c3 a i).

Definition common3 (p a b c d : pt3) : Prop := on_seg3 p a b /\ on_seg3 p c d.

Definition peq3 (p q : pt3) : Prop := forall i, (i < 3)%nat -> c3 p i == c3 q i.

Definition correct3 (a b c d : pt3) (r : res3) : Prop :=
  match r with
  | R3None => forall p, ~ common3 p a b c d
  | R3Cols [q] => forall p, common3 p a b c d <-> peq3 p q
  | R3Cols [q1; q2] => ~ peq3 q1 q2 /\ forall p, common3 p a b c d <-> on_seg3 p q1 q2
  | _ => False
  end.

Ltac idx3 i Hi :=
  destruct i as [|[|[|i]]]; [ | | | exfalso; lia]; clear Hi.

(* finding 1a: non-parallel lines, the xy-projection (the axes picked from the non-zero
   deltas) is degenerate; the true intersection is (1,1,0) *)
Lemma seg3d_missed_a :
  let a := [0; 0; 0] in let b := [2; 2; 0] in let c := [0; 0; -1] in let d := [2; 2; 1] in
  seg3d tol8 a b c d = R3None /\ common3 [1; 1; 0] a b c d.
Proof.
  cbv zeta. split; [vm_compute; reflexivity|].
  split; exists (1 # 2); (split; [lra|]); (split; [lra|]); intros i Hi; idx3 i Hi;
    vm_compute; reflexivity.
Qed.

(* finding 1b: equal masks, all deltas non-zero, ratios differ; true intersection (1,1,1) *)
Lemma seg3d_missed_b :
  let a := [0; 0; 0] in let b := [2; 2; 2] in let c := [0; 0; -1] in let d := [2; 2; 3] in
  seg3d tol8 a b c d = R3None /\ common3 [1; 1; 1] a b c d.
Proof.
  cbv zeta. split; [vm_compute; reflexivity|].
  split; exists (1 # 2); (split; [lra|]); (split; [lra|]); intros i Hi; idx3 i Hi;
    vm_compute; reflexivity.
Qed.

(* finding 2: colinear segments sharing exactly one point come back as two columns *)
Lemma seg3d_touching :
  seg3d tol8 [0; 0; 0] [1; 1; 1] [1; 1; 1] [2; 2; 2] = R3Cols [[1; 1; 1]; [1; 1; 1]].
Proof. vm_compute. reflexivity. Qed.

Lemma seg3d_correct_refuted :
  (exists a b c d, ~ peq3 a b /\ ~ peq3 c d /\ seg3d tol8 a b c d = R3None /\
                   ~ correct3 a b c d (seg3d tol8 a b c d)) /\
  (exists a b c d q, ~ peq3 a b /\ ~ peq3 c d /\ seg3d tol8 a b c d = R3Cols [q; q] /\
                   ~ correct3 a b c d (seg3d tol8 a b c d)).
Proof.
  split.
  - exists [0; 0; 0], [2; 2; 0], [0; 0; -1], [2; 2; 1].
    destruct seg3d_missed_a as [E C]. cbv zeta in E, C.
    split; [|split; [|split]].
    + intro H. specialize (H 0%nat ltac:(lia)). vm_compute in H. discriminate.
    + intro H. specialize (H 0%nat ltac:(lia)). vm_compute in H. discriminate.
    + exact E.
    + rewrite E. intro H. exact (H _ C).
  - exists [0; 0; 0], [1; 1; 1], [1; 1; 1], [2; 2; 2], [1; 1; 1].
    split; [|split; [|split]].
    + intro H. specialize (H 0%nat ltac:(lia)). vm_compute in H. discriminate.
    + intro H. specialize (H 0%nat ltac:(lia)). vm_compute in H. discriminate.
    + exact seg3d_touching.
    + rewrite seg3d_touching. intros [N _]. apply N. intros i Hi. reflexivity.
Qed.

(* the parallel branch never returns a single column *)
Lemma seg3d_par_not_single : forall tol s1 e1 s2 e2 dl1 dl2 m1 m2 q,
  seg3d_par tol s1 e1 s2 e2 dl1 dl2 m1 m2 <> R3Cols [q].
Proof.
  intros. unfold seg3d_par. cbv zeta.
  repeat (match goal with |- (if ?b then _ else _) <> _ => destruct b end; try discriminate).
  destruct (sel m1 s1); try discriminate.
  destruct (sel m1 e1); try discriminate.
  destruct (sel m1 s2); try discriminate.
  destruct (sel m1 e2); try discriminate.
  repeat (match goal with |- (if ?b then _ else _) <> _ => destruct b end; try discriminate).
Qed.

Lemma pick_axes_cases : forall ms,
  pick_axes ms = (0, 1, 2)%nat \/ pick_axes ms = (0, 2, 1)%nat \/ pick_axes ms = (1, 2, 0)%nat.
Proof.
  intro ms. unfold pick_axes.
  repeat match goal with |- context [if ?b then _ else _] => destruct b end; tauto.
Qed.

Lemma qabs_zero_lt : forall x tol, 0 < tol -> x == 0 -> Qabs x < tol.
Proof. intros x tol Ht E. rewrite E. exact Ht. Qed.

(* the point branch is sound: the returned point lies on segment 1 (with the Cramer
   parameter) and within tol (max-norm) of a point of segment 2 *)
Lemma seg3d_pt_sound : forall tol a0 a1 a2 c0 c1 c2 u0 u1 u2 w0 w1 w2 i0 i1 ni q,
  0 < tol ->
  (i0, i1, ni) = (0, 1, 2)%nat \/ (i0, i1, ni) = (0, 2, 1)%nat \/ (i0, i1, ni) = (1, 2, 0)%nat ->
  ~ c3 [u0; u1; u2] i0 * c3 [w0; w1; w2] i1 - c3 [u0; u1; u2] i1 * c3 [w0; w1; w2] i0 == 0 ->
  seg3d_pt tol [a0; a1; a2] [c0; c1; c2] [u0; u1; u2] [w0; w1; w2] i0 i1 ni = R3Cols [q] ->
  exists t1 t2,
    0 <= t1 /\ t1 <= 1 /\ 0 <= t2 /\ t2 <= 1 /\
    (forall i, (i < 3)%nat -> c3 q i == c3 [a0; a1; a2] i + t1 * c3 [u0; u1; u2] i) /\
    (forall i, (i < 3)%nat ->
       Qabs (c3 q i - (c3 [c0; c1; c2] i + t2 * c3 [w0; w1; w2] i)) < tol).
Proof.
  intros tol a0 a1 a2 c0 c1 c2 u0 u1 u2 w0 w1 w2 i0 i1 ni q Ht Hax Hd H.
  unfold seg3d_pt in H. cbv zeta in H.
  match type of H with (if ?b then _ else _) = _ => destruct b eqn:ER end; [discriminate|].
  match type of H with (if ?b then _ else _) = _ => destruct b eqn:EZ end; [|discriminate].
  apply orb_false_iff in ER. destruct ER as [ER R4].
  apply orb_false_iff in ER. destruct ER as [ER R3].
  apply orb_false_iff in ER. destruct ER as [R1 R2].
  apply qltb_false in R1, R2, R3, R4. apply qltb_true in EZ.
  injection H as Hq. subst q.
  destruct Hax as [E | [E | E]]; injection E as -> -> ->; unfold c3 in *; cbn [List.nth] in *.
  - destruct (cramer_sound u0 u1 w0 w1 (c0 - a0) (c1 - a1)) as [Cx Cy].
    { intro Z0. apply Hd. lra. }
    cbv zeta in Cx, Cy.
    eexists. eexists. split; [exact R1|]. split; [exact R2|]. split; [exact R3|].
    split; [exact R4|]. split.
    + intros i Hi. idx3 i Hi; cbn [List.nth List.map Nat.eqb]; reflexivity.
    + intros i Hi. idx3 i Hi; cbn [List.nth List.map Nat.eqb].
      * apply qabs_zero_lt; [exact Ht|]. lra.
      * apply qabs_zero_lt; [exact Ht|]. lra.
      * exact EZ.
  - destruct (cramer_sound u0 u2 w0 w2 (c0 - a0) (c2 - a2)) as [Cx Cy].
    { intro Z0. apply Hd. lra. }
    cbv zeta in Cx, Cy.
    eexists. eexists. split; [exact R1|]. split; [exact R2|]. split; [exact R3|].
    split; [exact R4|]. split.
    + intros i Hi. idx3 i Hi; cbn [List.nth List.map Nat.eqb]; reflexivity.
    + intros i Hi. idx3 i Hi; cbn [List.nth List.map Nat.eqb].
      * apply qabs_zero_lt; [exact Ht|]. lra.
      * exact EZ.
      * apply qabs_zero_lt; [exact Ht|]. lra.
  - destruct (cramer_sound u1 u2 w1 w2 (c1 - a1) (c2 - a2)) as [Cx Cy].
    { intro Z0. apply Hd. lra. }
    cbv zeta in Cx, Cy.
    eexists. eexists. split; [exact R1|]. split; [exact R2|]. split; [exact R3|].
    split; [exact R4|]. split.
    + intros i Hi. idx3 i Hi; cbn [List.nth List.map Nat.eqb]; reflexivity.
    + intros i Hi. idx3 i Hi; cbn [List.nth List.map Nat.eqb].
      * exact EZ.
      * apply qabs_zero_lt; [exact Ht|]. lra.
      * apply qabs_zero_lt; [exact Ht|]. lra.
Qed.

(* C28 3-D, what survives: whenever segments_3d returns a single point q, q lies on
   segment 1 and within tol (max-norm) of a point of segment 2.  (Completeness is false:
   seg3d_correct_refuted.) *)
Lemma seg3d_point_sound : forall tol a0 a1 a2 b0 b1 b2 c0 c1 c2 d0 d1 d2 q,
  0 < tol ->
  seg3d tol [a0; a1; a2] [b0; b1; b2] [c0; c1; c2] [d0; d1; d2] = R3Cols [q] ->
  on_seg3 q [a0; a1; a2] [b0; b1; b2] /\
  exists q', on_seg3 q' [c0; c1; c2] [d0; d1; d2] /\
             forall i, (i < 3)%nat -> Qabs (c3 q i - c3 q' i) < tol.
Proof.
  intros tol a0 a1 a2 b0 b1 b2 c0 c1 c2 d0 d1 d2 q Ht H.
  unfold seg3d in H. cbn [map2 List.map] in H. cbv zeta in H.
  match type of H with context [pick_axes ?m] => set (ms := m) in * end.
  assert (K : exists i0 i1 ni, pick_axes ms = (i0, i1, ni) /\
            ((i0, i1, ni) = (0, 1, 2)%nat \/ (i0, i1, ni) = (0, 2, 1)%nat \/
             (i0, i1, ni) = (1, 2, 0)%nat)).
  { destruct (pick_axes_cases ms) as [E | [E | E]]; rewrite E; eauto 10. }
  destruct K as (i0 & i1 & ni & E & Hax). rewrite E in H.
  match type of H with (if ?b then _ else _) = _ => destruct b eqn:EQ end.
  { exfalso. exact (seg3d_par_not_single _ _ _ _ _ _ _ _ _ _ H). }
  apply qltb_false in EQ.
  assert (Hd : ~ c3 [b0 - a0; b1 - a1; b2 - a2] i0 * c3 [d0 - c0; d1 - c1; d2 - c2] i1
                 - c3 [b0 - a0; b1 - a1; b2 - a2] i1 * c3 [d0 - c0; d1 - c1; d2 - c2] i0 == 0).
  { intro Z0. rewrite Z0 in EQ. change (Qabs 0) with 0 in EQ. lra. }
  destruct (seg3d_pt_sound _ _ _ _ _ _ _ _ _ _ _ _ _ _ _ _ _ Ht Hax Hd H)
    as (t1 & t2 & T1 & T2 & T3 & T4 & Hq & Hq').
  split.
  - exists t1. split; [exact T1|]. split; [exact T2|].
    intros i Hi. rewrite (Hq i Hi). idx3 i Hi; unfold c3; cbn [List.nth]; reflexivity.
  - exists [c0 + t2 * (d0 - c0); c1 + t2 * (d1 - c1); c2 + t2 * (d2 - c2)]. split.
    + exists t2. split; [exact T3|]. split; [exact T4|].
      intros i Hi. idx3 i Hi; unfold c3; cbn [List.nth]; reflexivity.
    + intros i Hi. specialize (Hq' i Hi). idx3 i Hi; unfold c3 in *; cbn [List.nth] in *; exact Hq'.
Qed.

(* non-vacuity of the soundness statement *)
Lemma seg3d_point_example :
  seg3d tol8 [1; 0; 1] [1; 1; -1] [0; 0; 1] [4; 3; -5] = R3Cols [[4 # 4; 3 # 4; -2 # 4]].
Proof. vm_compute. reflexivity. Qed.
