(* C28 — segments_3d on the finite box {-1,0,1}^3: outside the two open defect families the
   model equals an exact reference intersection (finite-domain proof by vm_compute). *)
From Coq Require Import List QArith Qabs Bool ZArith Lia.
Import ListNotations.
From PP Require Import Model.C28.
Open Scope Q_scope.

Definition t3 := (Z * Z * Z)%type.
Definition q3 (p : t3) : pt3 := let '(x, y, z) := p in [inject_Z x; inject_Z y; inject_Z z].

Definition vsub (a b : pt3) : pt3 := map2 Qminus a b.
Definition vcross (a b : pt3) : pt3 :=
  [c3 a 1 * c3 b 2 - c3 a 2 * c3 b 1; c3 a 2 * c3 b 0 - c3 a 0 * c3 b 2;
   c3 a 0 * c3 b 1 - c3 a 1 * c3 b 0].
Definition vzero (a : pt3) : bool := forallb (fun x => Qeq_bool x 0) a.
Definition vlin (a : pt3) (t : Q) (u : pt3) : pt3 := map2 (fun x y => x + t * y) a u.
Definition veq (a b : pt3) : bool := vzero (vsub a b).

(* exact intersection of the segments ab, cd (a <> b, c <> d) *)
Definition isect3_ref (a b c d : pt3) : res3 :=
  let u := vsub b a in let w := vsub d c in let s := vsub c a in
  if vzero (vcross u w) then
    if negb (vzero (vcross s u)) then R3None
    else
      let k := if negb (Qeq_bool (c3 u 0) 0) then 0%nat
               else if negb (Qeq_bool (c3 u 1) 0) then 1%nat else 2%nat in
      let ts := (c3 c k - c3 a k) / c3 u k in
      let te := (c3 d k - c3 a k) / c3 u k in
      let lo := qmax (qmin ts te) 0 in
      let hi := qmin (qmax ts te) 1 in
      if qltb hi lo then R3None
      else if Qeq_bool lo hi then R3Cols [vlin a lo u]
      else R3Cols [vlin a lo u; vlin a hi u]
  else
    let '(i, j) := if negb (Qeq_bool (c3 (vcross u w) 2) 0) then (0, 1)%nat
                   else if negb (Qeq_bool (c3 (vcross u w) 1) 0) then (0, 2)%nat
                   else (1, 2)%nat in
    let D := c3 u i * (- c3 w j) - c3 u j * (- c3 w i) in
    let t1 := (c3 s i * (- c3 w j) - c3 s j * (- c3 w i)) / D in
    let t2 := (c3 u i * c3 s j - c3 u j * c3 s i) / D in
    if Qle_bool 0 t1 && Qle_bool t1 1 && Qle_bool 0 t2 && Qle_bool t2 1
       && veq (vlin a t1 u) (vlin c t2 w)
    then R3Cols [vlin a t1 u] else R3None.

(* same classification, same points (two columns as an unordered pair) *)
Definition res3_same (r r' : res3) : bool :=
  match r, r' with
  | R3None, R3None => true
  | R3Cols [p], R3Cols [q] => veq p q
  | R3Cols [p1; p2], R3Cols [q1; q2] => (veq p1 q1 && veq p2 q2) || (veq p1 q2 && veq p2 q1)
  | _, _ => false
  end.

(* the two open defect families *)
Definition family1 (a b c d : pt3) : bool :=        (* projected discriminant 0, lines not parallel *)
  let u := vsub b a in let w := vsub d c in
  let m1 := map (fun x => qltb tol8 (Qabs x)) u in
  let m2 := map (fun x => qltb tol8 (Qabs x)) w in
  let '(i0, i1, ni) := pick_axes (map2 orb m1 m2) in
  Qeq_bool (c3 u i0 * c3 w i1 - c3 u i1 * c3 w i0) 0 && negb (vzero (vcross u w)).

Definition family2 (a b c d : pt3) : bool :=        (* parallel lines meeting in exactly one point *)
  vzero (vcross (vsub b a) (vsub d c)) &&
  match isect3_ref a b c d with R3Cols [_] => true | _ => false end.

Definition box_ok (a b c d : t3) : bool :=
  let A := q3 a in let B := q3 b in let C := q3 c in let D := q3 d in
  veq A B || veq C D || family1 A B C D || family2 A B C D
  || res3_same (seg3d tol8 A B C D) (isect3_ref A B C D).

Definition zr : list Z := [-1; 0; 1]%Z.
Definition box_pts : list t3 :=
  flat_map (fun x => flat_map (fun y => map (fun z => (x, y, z)) zr) zr) zr.

Definition box_check_from (a : t3) : bool :=
  forallb (fun b => forallb (fun c => forallb (fun d => box_ok a b c d) box_pts) box_pts) box_pts.

Lemma in_zr : forall x, (-1 <= x <= 1)%Z -> In x zr.
Proof. intros x H. unfold zr. assert (x = -1 \/ x = 0 \/ x = 1)%Z by lia. cbn. intuition. Qed.

Lemma in_box_pts : forall x y z,
  (-1 <= x <= 1)%Z -> (-1 <= y <= 1)%Z -> (-1 <= z <= 1)%Z -> In (x, y, z) box_pts.
Proof.
  intros x y z Hx Hy Hz. unfold box_pts.
  apply in_flat_map. exists x. split; [apply in_zr; exact Hx|].
  apply in_flat_map. exists y. split; [apply in_zr; exact Hy|].
  apply in_map. apply in_zr. exact Hz.
Qed.

Lemma box_all : forallb box_check_from box_pts = true.
Proof. vm_compute. reflexivity. Qed.

Definition inb1 (p : t3) : Prop :=
  let '(x, y, z) := p in (-1 <= x <= 1)%Z /\ (-1 <= y <= 1)%Z /\ (-1 <= z <= 1)%Z.

Lemma seg3d_box : forall a b c d : t3,
  inb1 a -> inb1 b -> inb1 c -> inb1 d ->
  let A := q3 a in let B := q3 b in let C := q3 c in let D := q3 d in
  veq A B = false -> veq C D = false ->
  family1 A B C D = false -> family2 A B C D = false ->
  res3_same (seg3d tol8 A B C D) (isect3_ref A B C D) = true.
Proof.
  intros [[ax ay] az] [[bx by_] bz] [[cx cy] cz] [[dx dy] dz] Ha Hb Hc Hd A B C D N1 N2 F1 F2.
  pose proof box_all as H. rewrite forallb_forall in H.
  destruct Ha as (? & ? & ?), Hb as (? & ? & ?), Hc as (? & ? & ?), Hd as (? & ? & ?).
  specialize (H (ax, ay, az) ltac:(apply in_box_pts; assumption)).
  unfold box_check_from in H. rewrite forallb_forall in H.
  specialize (H (bx, by_, bz) ltac:(apply in_box_pts; assumption)). rewrite forallb_forall in H.
  specialize (H (cx, cy, cz) ltac:(apply in_box_pts; assumption)). rewrite forallb_forall in H.
  specialize (H (dx, dy, dz) ltac:(apply in_box_pts; assumption)).
  unfold box_ok in H. fold A B C D in H. cbv zeta in H.
  change (q3 (ax, ay, az)) with A in H. change (q3 (bx, by_, bz)) with B in H.
  change (q3 (cx, cy, cz)) with C in H. change (q3 (dx, dy, dz)) with D in H.
  rewrite N1, N2, F1, F2 in H. cbn [orb] in H. exact H.
Qed.
