(* C01 — proofs for the function library (functions.py): for every function f of the
   table, the factor [ffac f x] the code multiplies the Jacobian with is the derivative of
   the value expression [fval f] at x, on the function's smooth domain. *)
From Coq Require Import Reals ZArith List Lra Lia.
From Coquelicot Require Import Coquelicot.
From PP Require Import Model.C01 Model.C01R Proofs.C01.
Import ListNotations.
Open Scope R_scope.

(* smooth domain of each library function *)
Definition fsmooth (f : fn R) (x : R) : Prop :=
  match f with
  | Fexp | Fsin | Fcos | Farctan | Fsinh | Fcosh | Ftanh | Farcsinh => True
  | Flog => 0 < x
  | Fabs => x <> 0
  | Ftan => cos x <> 0
  | Farcsin | Farccos | Farctanh => -1 < x < 1
  | Farccosh => 1 < x
  | Fheaviside _ => x <> 0
  | Fheaviside_smooth eps => eps <> 0
  | Fcharacteristic tol => Rabs x <> tol
  end.

Lemma cosh_pos x : 0 < cosh x.
Proof. unfold cosh. pose proof (exp_pos x). pose proof (exp_pos (- x)). lra. Qed.

Lemma ch2_sh2 x : cosh x * cosh x - sinh x * sinh x = 1.
Proof.
  unfold cosh, sinh.
  assert (E : exp x * exp (- x) = 1) by (rewrite <- exp_plus, Rplus_opp_r; apply exp_0).
  set (a := exp x) in *. set (b := exp (- x)) in *.
  replace ((a + b) / 2 * ((a + b) / 2) - (a - b) / 2 * ((a - b) / 2)) with (a * b) by field.
  exact E.
Qed.

Lemma Rpower_mhalf y : 0 < y -> Rpower y (- (1 / 2)) = / sqrt y.
Proof.
  intros Hy. rewrite Rpower_Ropp. replace (1 / 2) with (/ 2) by lra.
  rewrite Rpower_sqrt by exact Hy. reflexivity.
Qed.

Lemma fr_exp x : is_derive (fval ROps Fexp) x (ffac ROps Fexp x).
Proof. unf. auto_derive. exact I. ring. Qed.

Lemma fr_log x : 0 < x -> is_derive (fval ROps Flog) x (ffac ROps Flog x).
Proof. intros H. unf. auto_derive. exact H. field. lra. Qed.

Lemma fr_sin x : is_derive (fval ROps Fsin) x (ffac ROps Fsin x).
Proof. unf. auto_derive. exact I. ring. Qed.

Lemma fr_cos x : is_derive (fval ROps Fcos) x (ffac ROps Fcos x).
Proof. unf. auto_derive. exact I. ring. Qed.

Lemma fr_tan x : cos x <> 0 -> is_derive (fval ROps Ftan) x (ffac ROps Ftan x).
Proof.
  intros H. unf. rewrite pz_2, pz_m1. eapply is_derive_eq.
  - apply is_derive_tan. exact H.
  - unfold tan. pose proof (sin2_cos2 x) as E. unfold Rsqr in E.
    replace (/ (cos x * cos x)) with ((sin x * sin x + cos x * cos x) / (cos x * cos x))
      by (rewrite E; field; exact H).
    field. exact H.
Qed.

Lemma fr_arcsin x : -1 < x < 1 -> is_derive (fval ROps Farcsin) x (ffac ROps Farcsin x).
Proof.
  intros H. unf. rewrite pz_2.
  assert (Hp : 0 < 1 - x * x) by nra.
  rewrite Rpower_mhalf by exact Hp.
  eapply is_derive_eq.
  - apply is_derive_Reals. eapply derive_pt_eq_1. apply (derive_pt_asin x H).
  - unfold Rsqr. field. apply Rgt_not_eq, sqrt_lt_R0. exact Hp.
Qed.

Lemma fr_arccos x : -1 < x < 1 -> is_derive (fval ROps Farccos) x (ffac ROps Farccos x).
Proof.
  intros H. unf. rewrite pz_2.
  assert (Hp : 0 < 1 - x * x) by nra.
  rewrite Rpower_mhalf by exact Hp.
  eapply is_derive_eq.
  - apply is_derive_Reals. eapply derive_pt_eq_1. apply (derive_pt_acos x H).
  - unfold Rsqr. field. apply Rgt_not_eq, sqrt_lt_R0. exact Hp.
Qed.

Lemma fr_arctan x : is_derive (fval ROps Farctan) x (ffac ROps Farctan x).
Proof.
  unf. rewrite pz_2, pz_m1. eapply is_derive_eq.
  - apply is_derive_atan.
  - unfold Rsqr. f_equal. ring.
Qed.

Lemma fr_sinh x : is_derive (fval ROps Fsinh) x (ffac ROps Fsinh x).
Proof. unf. auto_derive. exact I. ring. Qed.

Lemma fr_cosh x : is_derive (fval ROps Fcosh) x (ffac ROps Fcosh x).
Proof. unf. auto_derive. exact I. ring. Qed.

Lemma fr_tanh x : is_derive (fval ROps Ftanh) x (ffac ROps Ftanh x).
Proof.
  unf. rewrite pz_m2. unfold tanh.
  pose proof (cosh_pos x) as Hc. pose proof (ch2_sh2 x) as E.
  auto_derive.
  - repeat split; auto. lra.
  - set (c := cosh x) in *. set (s := sinh x) in *.
    assert (Hc0 : c <> 0) by lra.
    replace (/ (c * c)) with ((c * c - s * s) * / (c * c)) at 2 by (rewrite E; ring).
    field. exact Hc0.
Qed.

Lemma fr_arcsinh x : is_derive (fval ROps Farcsinh) x (ffac ROps Farcsinh x).
Proof.
  unf. rewrite pz_2.
  assert (Hp : 0 < x * x + 1) by nra.
  rewrite Rpower_mhalf by exact Hp.
  eapply is_derive_eq.
  - apply is_derive_Reals. apply derivable_pt_lim_arcsinh.
  - replace (x ^ 2) with (x * x) by ring. reflexivity.
Qed.

Lemma fr_arccosh x : 1 < x -> is_derive (fval ROps Farccosh) x (ffac ROps Farccosh x).
Proof.
  intros H. unf.
  rewrite (Rpower_mhalf (x - 1)) by lra. rewrite (Rpower_mhalf (x + 1)) by lra.
  rewrite <- Rinv_mult, <- sqrt_mult by lra.
  replace ((x - 1) * (x + 1)) with (x * x - 1) by ring.
  assert (Hp : 0 < x * x - 1) by nra.
  assert (Hs : 0 < sqrt (x * x - 1)) by (apply sqrt_lt_R0; exact Hp).
  unfold acoshR. auto_derive.
  - replace (x * x + - (1)) with (x * x - 1) by ring. repeat split; auto. lra.
  - replace (x * x + - (1)) with (x * x - 1) by ring.
    set (s := sqrt (x * x - 1)) in *. field. split; lra.
Qed.

Lemma fr_arctanh x : -1 < x < 1 -> is_derive (fval ROps Farctanh) x (ffac ROps Farctanh x).
Proof.
  intros H. unf. rewrite pz_2, pz_m1. unfold atanhR.
  assert (Hq : 0 < (1 + x) / (1 - x)).
  { apply Rmult_lt_0_compat; [lra | apply Rinv_0_lt_compat; lra]. }
  auto_derive.
  - repeat split; auto. lra.
  - field. repeat split; nra.
Qed.

Lemma np_abs_pos x : 0 < x -> np_abs ROps x = x.
Proof. intros H. unf. rewrite ltbR_false by lra. reflexivity. Qed.
Lemma np_abs_neg x : x < 0 -> np_abs ROps x = - x.
Proof. intros H. unf. rewrite ltbR_true by lra. reflexivity. Qed.
Lemma np_abs_Rabs x : np_abs ROps x = Rabs x.
Proof.
  destruct (Rlt_dec x 0).
  - rewrite np_abs_neg by lra. rewrite Rabs_left by lra. reflexivity.
  - unf. rewrite ltbR_false by lra. rewrite Rabs_right by lra. reflexivity.
Qed.

Lemma fr_abs x : x <> 0 -> is_derive (fval ROps Fabs) x (ffac ROps Fabs x).
Proof.
  intros H.
  change (is_derive (fun y => np_abs ROps y) x (np_sign ROps x)).
  destruct (Rlt_dec 0 x) as [Hp|Hn].
  - replace (np_sign ROps x) with 1 by (unf; rewrite ltbR_true by lra; reflexivity).
    apply (is_derive_ext_loc (fun y => y)); [| apply @is_derive_id].
    eapply filter_imp; [| apply (locally_gt x 0); lra].
    intros y Hy. cbv beta in Hy. rewrite np_abs_pos by lra. reflexivity.
  - assert (Hlt : x < 0) by lra.
    replace (np_sign ROps x) with (-1)
      by (unf; rewrite ltbR_false by lra; rewrite ltbR_true by lra; reflexivity).
    apply (is_derive_ext_loc (fun y => - y)).
    + eapply filter_imp; [| apply (locally_lt x 0); lra].
      intros y Hy. cbv beta in Hy. rewrite np_abs_neg by lra. reflexivity.
    + auto_derive. exact I. ring.
Qed.

Lemma fr_heaviside z x : x <> 0 ->
  is_derive (fval ROps (Fheaviside z)) x (ffac ROps (Fheaviside z) x).
Proof.
  intros H.
  change (is_derive (fun y => np_heaviside ROps y z) x 0).
  destruct (Rlt_dec 0 x) as [Hp|Hn].
  - apply (derive_loc_const _ x 1).
    eapply filter_imp; [| apply (locally_gt x 0); lra].
    intros y Hy. cbv beta in Hy. unf.
    rewrite ltbR_false by lra. rewrite ltbR_true by lra. reflexivity.
  - apply (derive_loc_const _ x 0).
    eapply filter_imp; [| apply (locally_lt x 0); lra].
    intros y Hy. cbv beta in Hy. unf.
    rewrite ltbR_true by lra. reflexivity.
Qed.

Lemma fr_characteristic tol x : Rabs x <> tol ->
  is_derive (fval ROps (Fcharacteristic tol)) x (ffac ROps (Fcharacteristic tol) x).
Proof.
  intros H.
  change (is_derive (fun y => np_isclose0 ROps y tol) x 0).
  destruct (Rlt_dec tol (Rabs x)) as [Hp|Hn].
  - apply (derive_loc_const _ x 0).
    eapply filter_imp; [| apply (locally_cont_gt Rabs x tol (continuous_Rabs x) Hp)].
    intros y Hy. cbv beta in Hy. unfold np_isclose0. rewrite np_abs_Rabs.
    unf. rewrite ltbR_true by exact Hy. reflexivity.
  - assert (Hlt : Rabs x < tol) by lra.
    apply (derive_loc_const _ x 1).
    eapply filter_imp; [| apply (locally_cont_lt Rabs x tol (continuous_Rabs x) Hlt)].
    intros y Hy. cbv beta in Hy. unfold np_isclose0. rewrite np_abs_Rabs.
    unf. rewrite ltbR_false by lra. reflexivity.
Qed.

Lemma fr_heaviside_smooth eps x : eps <> 0 ->
  is_derive (fval ROps (Fheaviside_smooth eps)) x (ffac ROps (Fheaviside_smooth eps) x).
Proof.
  intros H. unf. rewrite !pz_m1, !pz_2.
  pose proof PI_neq0 as Hpi.
  auto_derive.
  - exact I.
  - field. repeat split; try assumption. nra.
Qed.

Lemma fun_rule (f : fn R) (x : R) :
  fsmooth f x -> is_derive (fval ROps f) x (ffac ROps f x).
Proof.
  destruct f; simpl; intros H.
  - apply fr_exp.
  - apply fr_log; exact H.
  - apply fr_abs; exact H.
  - apply fr_sin.
  - apply fr_cos.
  - apply fr_tan; exact H.
  - apply fr_arcsin; exact H.
  - apply fr_arccos; exact H.
  - apply fr_arctan.
  - apply fr_sinh.
  - apply fr_cosh.
  - apply fr_tanh.
  - apply fr_arcsinh.
  - apply fr_arccosh; exact H.
  - apply fr_arctanh; exact H.
  - apply fr_heaviside; exact H.
  - apply fr_heaviside_smooth; exact H.
  - apply fr_characteristic; exact H.
Qed.

(* chain rule: the dual-number rule for a library function *)
Lemma rule_fun (f : fn R) (u : R -> R) (t du : R) :
  is_derive u t du -> fsmooth f (u t) ->
  is_derive (fun s => fval ROps f (u s)) t (snd (d_fun ROps f (u t, du))).
Proof.
  intros Hu Hs. eapply is_derive_eq.
  - apply (is_derive_comp (fval ROps f) u t).
    + apply fun_rule. exact Hs.
    + exact Hu.
  - unfold d_fun, scal; simpl. unfold mult; simpl. ring.
Qed.
