(* C08 — proofs: the transcribed set/add/get/shift code refines the sliding window. *)
From Coq Require Import List ZArith Bool Arith Lia.
Import ListNotations.
From PP Require Import Model.C08.

Section Proofs.
  Variable V : Type.
  Variable vadd : V -> V -> V.
  Notation dict := (C08.dict V).

  (* ---------- the positional dict is a finite map ---------- *)
  Lemma lookup_nil i : @lookup V [] i = None.
  Proof. unfold lookup. destruct i; reflexivity. Qed.

  Lemma lookup_cons_S (x : option V) r i : lookup (x :: r) (S i) = lookup r i.
  Proof. reflexivity. Qed.

  Lemma lookup_update_eq (d : dict) i v : lookup (update d i v) i = Some v.
  Proof.
    revert d; induction i as [|i IH]; intros [|x r]; cbn [update]; try reflexivity.
    - rewrite lookup_cons_S. apply IH.
    - rewrite lookup_cons_S. apply IH.
  Qed.

  Lemma lookup_update_neq (d : dict) i j v : i <> j -> lookup (update d i v) j = lookup d j.
  Proof.
    revert d j; induction i as [|i IH]; intros [|x r] [|j] Hij; cbn [update];
      try reflexivity; try congruence.
    - rewrite lookup_cons_S, lookup_nil. destruct j; reflexivity.
    - rewrite lookup_cons_S, IH by congruence. rewrite !lookup_nil. reflexivity.
    - rewrite !lookup_cons_S. apply IH. congruence.
  Qed.

  Lemma lookup_update (d : dict) i j v :
    lookup (update d i v) j = if Nat.eqb i j then Some v else lookup d j.
  Proof.
    destruct (Nat.eqb_spec i j) as [->|Hn].
    - apply lookup_update_eq.
    - apply lookup_update_neq; assumption.
  Qed.

  (* len(dict) is determined by the key->value map *)
  Lemma num_stored_of_lookup (w : list V) : forall d : dict,
      (forall i, lookup d i = nth_error w i) -> num_stored d = length w.
  Proof.
    induction w as [|a w IH]; intros d H.
    - induction d as [|x r IHr]; [reflexivity|].
      pose proof (H 0) as H0. unfold lookup in H0. cbn in H0.
      destruct x as [v|]; [discriminate|]. cbn [num_stored]. apply IHr.
      intros i. specialize (H (S i)). rewrite lookup_cons_S in H. rewrite H.
      destruct i; reflexivity.
    - destruct d as [|x r].
      + specialize (H 0). rewrite lookup_nil in H. discriminate.
      + pose proof (H 0) as H0. unfold lookup in H0. cbn in H0.
        destruct x as [v|]; [|discriminate]. cbn [num_stored length]. f_equal.
        apply IH. intros i. specialize (H (S i)). rewrite lookup_cons_S in H. exact H.
  Qed.

  Lemma nth_error_firstn_if (l : list V) : forall d i,
      nth_error (firstn d l) i = if i <? d then nth_error l i else None.
  Proof.
    induction l as [|a l IH]; intros d i.
    - rewrite firstn_nil. destruct i; destruct (_ <? _); reflexivity.
    - destruct d as [|d]; [destruct i; reflexivity|].
      destruct i as [|i]; [reflexivity|]. cbn [firstn nth_error]. rewrite IH.
      change (S i <? S d) with (i <? d). reflexivity.
  Qed.

  (* ---------- the shift loop is a parallel assignment new[i] = old[i-1] ---------- *)
  Lemma shift_loop_lookup : forall k (d : dict),
      (forall j, j < k -> lookup d j <> None) ->
      exists d', shift_loop d (down k) = (d', true) /\
                 forall i, lookup d' i =
                           if (1 <=? i) && (i <=? k) then lookup d (i - 1) else lookup d i.
  Proof.
    induction k as [|k IH]; intros d Hd.
    - exists d. split; [reflexivity|]. intros i.
      destruct (1 <=? i) eqn:E1; destruct (i <=? 0) eqn:E2; cbn [andb]; try reflexivity.
      apply Nat.leb_le in E1, E2. lia.
    - change (down (S k)) with (S k :: down k). cbn [shift_loop].
      replace (S k - 1) with k by lia.
      destruct (lookup d k) as [v|] eqn:Ek; [|exfalso; apply (Hd k); [lia|exact Ek]].
      destruct (IH (update d (S k) v)) as [d' [Hrun Hlk]].
      { intros j Hj. rewrite lookup_update_neq by lia. apply Hd. lia. }
      exists d'. split; [exact Hrun|]. intros i. rewrite Hlk.
      destruct (1 <=? i) eqn:E1; cbn [andb].
      + apply Nat.leb_le in E1.
        destruct (i <=? k) eqn:E2.
        * apply Nat.leb_le in E2. replace (i <=? S k) with true by (symmetry; apply Nat.leb_le; lia).
          apply lookup_update_neq. lia.
        * apply Nat.leb_gt in E2. rewrite lookup_update.
          destruct (Nat.eqb_spec (S k) i) as [<-|Hne].
          -- replace (S k <=? S k) with true by (symmetry; apply Nat.leb_le; lia).
             replace (S k - 1) with k by lia. symmetry; exact Ek.
          -- replace (i <=? S k) with false by (symmetry; apply Nat.leb_gt; lia). reflexivity.
      + apply Nat.leb_gt in E1. apply lookup_update_neq. lia.
  Qed.

  (* ---------- refinement to the history window ---------- *)
  (* R d s h : the concrete slot [s] holds exactly the first [d] entries of history [h] *)
  Definition R (d : nat) (s : option dict) (h : list V) : Prop :=
    match s with
    | None => h = []
    | Some dct => forall i, lookup dct i = nth_error (firstn d h) i
    end.

  Definition disciplined (d : nat) (o : @op V) : Prop :=
    match o with
    | OpSet i _ => i = 0%Z
    | OpAdd i _ => i = 0%Z
    | OpGet i => (0 <= i)%Z
    | OpShift m => m = Some (Z.of_nat d)
    end.

  (* what the window specification answers *)
  Definition hout (d : nat) (h : list V) (o : @op V) : @out V :=
    match o with
    | OpSet _ _ => ODone
    | OpAdd _ _ => match h with [] => OErr ValueErr | _ => ODone end
    | OpGet i => match nth_error (firstn d h) (Z.to_nat i) with
                 | Some v => OVal v | None => OErr KeyErr end
    | OpShift _ => ODone
    end.

  Lemma R_num_stored d dct h : R d (Some dct) h -> num_stored dct = length (firstn d h).
  Proof. intros H. apply num_stored_of_lookup. exact H. Qed.

  Lemma step_refines d s h o :
    1 <= d -> R d s h -> disciplined d o ->
    R d (fst (step vadd s o)) (hstep vadd h o) /\ snd (step vadd s o) = hout d h o.
  Proof.
    intros Hd HR Hdis. destruct o as [i v|i v|i|m]; cbn [disciplined] in Hdis.
    - (* overwrite at index 0 *)
      subst i. cbn [step hstep hout]. change (0 <? 0)%Z with false. cbn [fst snd].
      split; [|reflexivity]. cbn [R]. intros i. rewrite lookup_update.
      change (Z.to_nat 0) with 0.
      destruct d as [|d']; [lia|].
      destruct i as [|i]; cbn [Nat.eqb]; [reflexivity|].
      destruct s as [dct|]; cbn [R] in HR.
      + rewrite HR. destruct h as [|c r]; cbn [tl firstn nth_error]; [|reflexivity].
        rewrite firstn_nil. destruct i; reflexivity.
      + subst h. rewrite lookup_nil. cbn [tl firstn nth_error]. rewrite firstn_nil.
        destruct i; reflexivity.
    - (* additive write at index 0 *)
      subst i. cbn [step hstep hout]. change (0 <? 0)%Z with false.
      change (Z.to_nat 0) with 0.
      destruct d as [|d']; [lia|].
      destruct s as [dct|]; cbn [R] in HR.
      + pose proof (HR 0) as H0. destruct h as [|c r].
        * cbn in H0. rewrite H0. cbn [fst snd]. split; [|reflexivity]. exact HR.
        * cbn in H0. rewrite H0. cbn [fst snd]. split; [|reflexivity].
          cbn [R]. intros i. rewrite lookup_update. destruct i as [|i]; cbn [Nat.eqb].
          -- reflexivity.
          -- rewrite HR. reflexivity.
      + subst h. rewrite lookup_nil. cbn [fst snd]. split; [|reflexivity].
        cbn [R]. intros i. rewrite lookup_nil. destruct i; reflexivity.
    - (* read *)
      cbn [step hstep hout].
      destruct (i <? 0)%Z eqn:Ei; [apply Z.ltb_lt in Ei; lia|].
      destruct s as [dct|]; cbn [R] in HR.
      + rewrite HR. destruct (nth_error (firstn d h) (Z.to_nat i)); cbn [fst snd]; split;
          try reflexivity; exact HR.
      + subst h. cbn [fst snd]. rewrite firstn_nil. split; [reflexivity|].
        destruct (Z.to_nat i); reflexivity.
    - (* shift with max_index = d *)
      subst m. cbn [step hstep hout].
      destruct s as [dct|]; cbn [R] in HR.
      2:{ subst h. cbn [fst snd]. split; reflexivity. }
      destruct (Z.of_nat d <? 0)%Z eqn:Ed; [apply Z.ltb_lt in Ed; lia|].
      pose proof (R_num_stored d dct h HR) as Hn.
      unfold shift_range.
      set (k := if (Z.of_nat (num_stored dct) <? Z.of_nat d)%Z then num_stored dct
                else Z.to_nat (Z.of_nat d) - 1).
      assert (Hk : (if (Z.of_nat (num_stored dct) <? Z.of_nat d)%Z then down (num_stored dct)
                    else down (Z.to_nat (Z.of_nat d) - 1)) = down k).
      { unfold k. destruct (Z.of_nat (num_stored dct) <? Z.of_nat d)%Z; reflexivity. }
      rewrite Hk.
      assert (Hlen : length (firstn d h) = Nat.min d (length h)) by apply firstn_length.
      assert (Hkle : k <= num_stored dct).
      { unfold k. destruct (Z.of_nat (num_stored dct) <? Z.of_nat d)%Z eqn:E.
        - lia.
        - apply Z.ltb_ge in E. rewrite Nat2Z.id. lia. }
      destruct (shift_loop_lookup k dct) as [d' [Hrun Hlk]].
      { intros j Hj. rewrite HR. intros Hnone. apply nth_error_None in Hnone. lia. }
      rewrite Hrun. cbn [fst snd]. split; [|reflexivity].
      cbn [R]. intros i. rewrite Hlk.
      destruct h as [|c r].
      + (* empty history: nothing stored, loop is empty *)
        assert (Hnil : forall n, @nth_error V [] n = None) by (intros [|n]; reflexivity).
        rewrite !HR. rewrite firstn_nil. rewrite !Hnil.
        destruct ((1 <=? i) && (i <=? k)); reflexivity.
      + rewrite !HR. rewrite !nth_error_firstn_if.
        destruct d as [|d0]; [lia|].
        cbn [length] in Hlen.
        destruct i as [|i].
        * cbn [Nat.leb andb]. reflexivity.
        * replace (S i - 1) with i by lia.
          change (1 <=? S i) with true. cbn [andb].
          change (nth_error (c :: c :: r) (S i)) with (nth_error (c :: r) i).
          unfold k in *. clear Hk k.
          destruct (Z.of_nat (num_stored dct) <? Z.of_nat (S d0))%Z eqn:E.
          -- apply Z.ltb_lt in E.
             assert (Hnl : num_stored dct = S (length r)) by lia.
             destruct (S i <=? num_stored dct) eqn:E2.
             ++ apply Nat.leb_le in E2.
                replace (i <? S d0) with true by (symmetry; apply Nat.ltb_lt; lia).
                replace (S i <? S d0) with true by (symmetry; apply Nat.ltb_lt; lia).
                reflexivity.
             ++ apply Nat.leb_gt in E2.
                assert (Hnone : nth_error (c :: r) i = None)
                  by (apply nth_error_None; cbn [length]; lia).
                assert (Hnone2 : nth_error (c :: r) (S i) = None)
                  by (apply nth_error_None; cbn [length]; lia).
                rewrite Hnone, Hnone2.
                destruct (S i <? S d0); destruct (i <? S d0); reflexivity.
          -- apply Z.ltb_ge in E. rewrite Nat2Z.id in *.
             replace (S d0 - 1) with d0 in * by lia.
             destruct (S i <=? d0) eqn:E2.
             ++ apply Nat.leb_le in E2.
                replace (i <? S d0) with true by (symmetry; apply Nat.ltb_lt; lia).
                replace (S i <? S d0) with true by (symmetry; apply Nat.ltb_lt; lia).
                reflexivity.
             ++ apply Nat.leb_gt in E2.
                replace (S i <? S d0) with false by (symmetry; apply Nat.ltb_ge; lia).
                reflexivity.
  Qed.

  Definition hrun (h : list V) (ops : list (@op V)) : list V := fold_left (hstep vadd) ops h.

  Fixpoint houts (d : nat) (h : list V) (ops : list (@op V)) : list (@out V) :=
    match ops with
    | [] => []
    | o :: r => hout d h o :: houts d (hstep vadd h o) r
    end.

  Lemma run_refines d : 1 <= d -> forall ops s h,
      R d s h -> Forall (disciplined d) ops ->
      R d (fst (run vadd s ops)) (hrun h ops) /\ snd (run vadd s ops) = houts d h ops.
  Proof.
    intros Hd. induction ops as [|o ops IH]; intros s h HR Hall.
    - cbn. split; [exact HR|reflexivity].
    - inversion Hall as [|o' ops' Ho Hops]; subst.
      destruct (step_refines d s h o Hd HR Ho) as [HR' Hout].
      cbn [run hrun fold_left houts].
      destruct (step vadd s o) as [s' x] eqn:Es. cbn [fst snd] in HR', Hout.
      specialize (IH s' (hstep vadd h o) HR' Hops). destruct IH as [IH1 IH2].
      destruct (run vadd s' ops) as [s'' xs] eqn:Er. cbn [fst snd] in *.
      split; [exact IH1|]. rewrite Hout, IH2. reflexivity.
  Qed.

  (* The statement in the property's own words. *)
  Theorem window_theorem d ops s0 :
    1 <= d -> Forall (disciplined d) ops ->
    (s0 = None \/ s0 = Some []) ->
    let h := hrun [] ops in
    (forall i, i < d ->
       match fst (run vadd s0 ops) with
       | None => h = []
       | Some dct => lookup dct i = nth_error h i
       end) /\
    (forall i, d <= i ->
       match fst (run vadd s0 ops) with
       | None => True | Some dct => lookup dct i = None end) /\
    snd (run vadd s0 ops) = houts d [] ops.
  Proof.
    intros Hd Hall Hs0 h.
    assert (HR0 : R d s0 []).
    { destruct Hs0 as [-> | ->]; cbn [R]; [reflexivity|].
      intros i. rewrite lookup_nil, firstn_nil. destruct i; reflexivity. }
    destruct (run_refines d Hd ops s0 [] HR0 Hall) as [HR Hout].
    fold h in HR. unfold R in HR. split; [|split].
    - intros i Hi. destruct (fst (run vadd s0 ops)) as [dct|] eqn:E; cbn beta iota in HR.
      + rewrite HR, nth_error_firstn_if.
        replace (i <? d) with true by (symmetry; apply Nat.ltb_lt; lia). reflexivity.
      + exact HR.
    - intros i Hi. destruct (fst (run vadd s0 ops)) as [dct|] eqn:E; [|exact I]. cbn beta iota in HR.
      rewrite HR, nth_error_firstn_if.
      replace (i <? d) with false by (symmetry; apply Nat.ltb_ge; lia). reflexivity.
    - exact Hout.
  Qed.

  (* reads never change the store; a rejected or negative-index call leaves the
     key->value map as it was *)
  Theorem get_pure s i : fst (step vadd s (OpGet i)) = s.
  Proof.
    cbn [step]. destruct (i <? 0)%Z; [reflexivity|].
    destruct s as [d|]; [|reflexivity]. destruct (lookup d (Z.to_nat i)); reflexivity.
  Qed.

  Theorem add_empty_rejected s i v :
    (0 <= i)%Z ->
    (match s with None => True | Some d => lookup d (Z.to_nat i) = None end) ->
    snd (step vadd s (OpAdd i v)) = OErr ValueErr /\
    forall j, (match fst (step vadd s (OpAdd i v)) with
               | Some d' => lookup d' j | None => None end)
              = (match s with Some d => lookup d j | None => None end).
  Proof.
    intros Hi Hs. cbn [step].
    destruct (i <? 0)%Z eqn:E; [apply Z.ltb_lt in E; lia|].
    destruct s as [d|].
    - rewrite Hs. cbn [fst snd]. split; reflexivity.
    - rewrite lookup_nil. cbn [fst snd]. split; [reflexivity|]. intros j. apply lookup_nil.
  Qed.

  (* general (any index, any state) map semantics of a successful write *)
  Theorem set_is_map_update s i v j :
    (0 <= i)%Z ->
    match fst (step vadd s (OpSet i v)) with
    | Some d' => lookup d' j = if Nat.eqb (Z.to_nat i) j then Some v
                               else match s with Some d => lookup d j | None => None end
    | None => False
    end.
  Proof.
    intros Hi. cbn [step]. destruct (i <? 0)%Z eqn:E; [apply Z.ltb_lt in E; lia|].
    cbn [fst]. rewrite lookup_update. destruct (Nat.eqb _ _); [reflexivity|].
    destruct s; [reflexivity|apply lookup_nil].
  Qed.
End Proofs.
